import PtnModel.Proofs.CompressKernel
import PtnModel.Proofs.CompressSchmidt
import PtnModel.Proofs.CompressFromVector
/-!
# Property C13 (`MPS.compress`, `MPS.from_vector` with tolerance)

"Compressing a non-zero MPS with tolerance tol returns the norm of the original state and a scale factor in
[sqrt(1-L*tol), 1], and leaves a normalized canonical state with bond dimensions no larger than before;
norm*scale*new state differs from the original by exactly norm*sqrt(1-scale^2), hence by at most norm*sqrt(L*tol),
and the first truncated bond keeps exactly the Schmidt values prescribed by the tolerance rule.  With zero tolerance
compression is exact, and building an MPS from a vector with tolerance tol has relative error at most sqrt(L*tol)."

All statements are about the executable model `MPS.compress dqr k dabs divR ψ tol left` (`PtnModel/Model/MPSSvd.lean`),
tied to `pytenet/mps.py` by the differential correspondence of `./check C13`.  `left` is the mode (`true` = `'left'`).
The model, like the code, first canonicalises in the OPPOSITE direction with QR (`MPS.orthonormalize`, C01), then
sweeps in the chosen direction with truncated block SVDs (`split_matrix_svd`, C12) pushing `σ·V` into the next site,
and finally absorbs the phase `T/|T|` of the trailing `1×1×1` factor into the last tensor, returning `(nrm, |T|)`.

Setting: entries in an `RCLike` field `𝕜` (`ℝ`, `ℂ`), norms / singular values / tolerance in `ℝ`, with the model's
`RealLike ℝ 𝕜 = ⟨(↑), re⟩`.  Exact field arithmetic; IEEE rounding is not modelled.

Kernel contracts (hypotheses, never axioms):
* `C01.QRKernel dqr`          : `np.linalg.qr(·, mode='reduced')` (contract of C11 + real diagonal of `R`);
* `SvdKernel k`               : `np.linalg.svd(·, full_matrices=False)` satisfies `C12.SVDContract` for all matrices,
                                `np.linalg.norm` satisfies `C12.NormContract` and `np.argsort` satisfies
                                `C12.SortContract` for all real vectors (`k = ⟨dsvd, dnorm, dargsort⟩`);
* `AbsContract dabs divR`     : `abs z = ‖z‖` and `z / r` is the division by the embedded real.

Vocabulary (`PtnModel/Proofs/Ortho*.lean`, `Compress*.lean`): `Admissible ψ` (well-formed, `d ≥ 1`, `L ≥ 1`, bond
dimensions `≥ 1`, boundary bonds one), `digitsU d L`, `ψ.amp s`, `LeftIso`/`RightIso` as in C01.

In exact arithmetic none of the statements needs the hypothesis "non-zero": for the zero state the QR pass returns
`nrm = 0` and a normalised dummy state, which is then compressed.  The tolerance ranges over `0 ≤ tol < 1`; the bound
`sqrt(1 - L·tol) ≤ scale` is informative for `tol < 1/L`.
-/
namespace Ptn.C13
open Ptn.Ortho Ptn.Env Ptn.BondOps Ptn.Compress Finset

variable {𝕜 : Type} [RCLike 𝕜] [DecidableEq 𝕜]
attribute [local instance] rcRealLike

variable {dqr : Mat 𝕜 → Mat 𝕜 × Mat 𝕜} {k : MPS.SvdKernels 𝕜 ℝ} {dabs : 𝕜 → ℝ} {divR : 𝕜 → ℝ → 𝕜}
  {ψ ψ' : MPS 𝕜} {tol nrm scale : ℝ} {left : Bool}

/-- Bernoulli-type product bound: `∏ (1 - εᵢ) ≥ 1 - Σ εᵢ` for `0 ≤ εᵢ ≤ 1`. -/
theorem prod_one_sub_ge (εs : List ℝ) (h : ∀ ε ∈ εs, 0 ≤ ε ∧ ε ≤ 1) :
    1 - εs.sum ≤ (εs.map fun ε => 1 - ε).prod := by
  suffices H : 0 ≤ εs.sum ∧ 0 ≤ (εs.map fun ε => 1 - ε).prod ∧ 1 - εs.sum ≤ (εs.map fun ε => 1 - ε).prod from H.2.2
  induction εs with
  | nil => simp
  | cons ε εs ih =>
    obtain ⟨hS, hP, hle⟩ := ih (fun x hx => h x (List.mem_cons_of_mem _ hx))
    obtain ⟨h0, h1⟩ := h ε (by simp)
    simp only [List.sum_cons, List.map_cons, List.prod_cons]
    refine ⟨by linarith, mul_nonneg (by linarith) hP, ?_⟩
    nlinarith [mul_nonneg h0 hS]

/-- `(1 - tol)^L ≥ 1 - L·tol` for `0 ≤ tol ≤ 1` (the product bound with all `εᵢ = tol`). -/
theorem one_sub_mul_le_pow' {tol : ℝ} (h0 : 0 ≤ tol) (h1 : tol ≤ 1) (L : Nat) : 1 - L * tol ≤ (1 - tol) ^ L := by
  have := prod_one_sub_ge (List.replicate L tol) (fun ε hε => by rw [List.eq_of_mem_replicate hε]; exact ⟨h0, h1⟩)
  simpa using this

/-- **0.** No exception: on admissible input `compress` returns a triple `(ψ', nrm, scale)` in both modes (all
assertions of the code pass: sparsity of every new tensor, `T.shape == (1, 1, 1)`). -/
theorem compress_ok (hq : C01.QRKernel dqr) (hk : SvdKernel k) (hadm : Admissible ψ) (htol : 0 ≤ tol)
    (htol1 : tol < 1) (left : Bool) :
    ∃ ψ' nrm scale, MPS.compress dqr k dabs divR ψ tol left = .ok (ψ', nrm, scale) :=
  compress_ok' hq hk hadm htol htol1 left

/-- **1.** `compress` returns the norm of the original state: `nrm² = Σ_s |ψ[s]|²`, `nrm ≥ 0`
(the first, opposite-direction QR pass; C01). -/
theorem compress_returns_norm (hq : C01.QRKernel dqr) (hk : SvdKernel k) (ha : AbsContract dabs divR)
    (hadm : Admissible ψ) (htol : 0 ≤ tol) (htol1 : tol < 1)
    (hrun : MPS.compress dqr k dabs divR ψ tol left = .ok (ψ', nrm, scale)) :
    nrm ^ 2 = ∑ s ∈ digitsU ψ.qd.length ψ.A.length, ‖ψ.amp s‖ ^ 2 ∧ 0 ≤ nrm := by
  obtain ⟨ψ1, ho, -, -⟩ := compOf_of_run hq hk ha hadm htol htol1 hrun
  exact ⟨C01.ortho_norm_sq hq hadm ho, C01.ortho_nonneg ho⟩

/-- **2a.** The compressed state is admissible again (well formed w.r.t. the NEW bond charges: shapes consistent,
every tensor block sparse, boundary bonds one), with the same physical charges and length. -/
theorem compress_wf (hq : C01.QRKernel dqr) (hk : SvdKernel k) (ha : AbsContract dabs divR)
    (hadm : Admissible ψ) (htol : 0 ≤ tol) (htol1 : tol < 1)
    (hrun : MPS.compress dqr k dabs divR ψ tol left = .ok (ψ', nrm, scale)) :
    Admissible ψ' ∧ ψ'.qd = ψ.qd ∧ ψ'.A.length = ψ.A.length := by
  obtain ⟨ψ1, ho, hc, hr⟩ := compOf_of_run hq hk ha hadm htol htol1 hrun
  obtain ⟨-, e1, e2⟩ := C01.ortho_wf hq.contract.shape hadm ho
  obtain ⟨a, b, c⟩ := hr.adm hc
  exact ⟨a, b.trans e1, c.trans e2⟩

/-- **2b.** No bond dimension grows: `D'_i ≤ D_i` for every bond `0 ≤ i ≤ L` (the QR pass never increases a bond,
the truncated SVD keeps at most `min(m, n)` values). -/
theorem compress_bond_mono (hq : C01.QRKernel dqr) (hk : SvdKernel k) (ha : AbsContract dabs divR)
    (hadm : Admissible ψ) (htol : 0 ≤ tol) (htol1 : tol < 1)
    (hrun : MPS.compress dqr k dabs divR ψ tol left = .ok (ψ', nrm, scale)) {i : Nat} (hi : i ≤ ψ.A.length) :
    (ψ'.qD.getD i []).length ≤ (ψ.qD.getD i []).length := by
  obtain ⟨ψ1, ho, hc, hr⟩ := compOf_of_run hq hk ha hadm htol htol1 hrun
  obtain ⟨hadm1, e1, e2⟩ := C01.ortho_wf hq.contract.shape hadm ho
  refine le_trans (hr.bond hc (by rw [e2]; exact hi)) ?_
  -- the QR pass
  have hl : ψ.qD.length = ψ.A.length + 1 := ((wellFormed_iff_idx ψ).1 hadm.wf).1
  have hl1 : ψ1.qD.length = ψ1.A.length + 1 := ((wellFormed_iff_idx ψ1).1 hadm1.wf).1
  have first : ∀ φ : MPS 𝕜, Admissible φ → (φ.qD.getD 0 []).length = 1 := by
    intro φ h
    have := h.first
    cases hq : φ.qD with
    | nil => rw [hq] at this; simp at this
    | cons q qs => rw [hq] at this; simpa using this
  have last : ∀ φ : MPS 𝕜, Admissible φ → φ.qD.length = φ.A.length + 1 → (φ.qD.getD φ.A.length []).length = 1 := by
    intro φ h hlen
    have := h.last
    rw [List.getLast?_eq_getElem?, show φ.qD.length - 1 = φ.A.length by omega] at this
    rw [List.getD_eq_getElem?_getD]
    exact this
  cases left with
  | true =>
    -- QR pass in right mode: `D¹_i ≤ D_i` for `i < L`; the last bond is one on both sides
    rcases Nat.lt_or_ge i ψ.A.length with hlt | hge
    · have := C01.ortho_bond hq.contract.shape hadm ho hlt
      exact le_trans this (Nat.min_le_right _ _)
    · have hiL : i = ψ.A.length := by omega
      rw [hiL, last ψ hadm hl, ← e2, last ψ1 hadm1 hl1]
  | false =>
    -- QR pass in left mode: `D¹_{i+1} ≤ D_{i+1}` for `i < L`; the first bond is one on both sides
    cases i with
    | zero => rw [first ψ hadm, first ψ1 hadm1]
    | succ j =>
      have := C01.ortho_bond hq.contract.shape hadm ho (i := j) (by omega)
      exact le_trans this (Nat.min_le_right _ _)

/-- **3.** The scale factor: `0 ≤ scale ≤ 1` and `1 - L·tol ≤ scale²`, i.e. `sqrt(1 - L·tol) ≤ scale`
(`L` the number of sites).  More precisely `(1 - tol)^L ≤ scale²`: every site keeps a relative weight
`≥ 1 - tol` of the current state. -/
theorem compress_scale_bounds (hq : C01.QRKernel dqr) (hk : SvdKernel k) (ha : AbsContract dabs divR)
    (hadm : Admissible ψ) (htol : 0 ≤ tol) (htol1 : tol < 1)
    (hrun : MPS.compress dqr k dabs divR ψ tol left = .ok (ψ', nrm, scale)) :
    0 ≤ scale ∧ scale ≤ 1 ∧ (1 - tol) ^ ψ.A.length ≤ scale ^ 2 ∧ 1 - ψ.A.length * tol ≤ scale ^ 2 ∧
      Real.sqrt (1 - ψ.A.length * tol) ≤ scale := by
  obtain ⟨ψ1, ho, hc, hr⟩ := compOf_of_run hq hk ha hadm htol htol1 hrun
  obtain ⟨-, -, e2⟩ := C01.ortho_wf hq.contract.shape hadm ho
  obtain ⟨s0, s1, s2⟩ := hr.scale_bounds hc (le_of_lt htol1)
  rw [e2] at s2
  have hb := le_trans (one_sub_mul_le_pow' htol (le_of_lt htol1) ψ.A.length) s2
  refine ⟨s0, s1, s2, hb, ?_⟩
  calc Real.sqrt (1 - ψ.A.length * tol) ≤ Real.sqrt (scale ^ 2) := Real.sqrt_le_sqrt hb
    _ = scale := Real.sqrt_sq s0

/-- **4.** The compressed state is canonical in the sweep direction (every tensor a left isometry in left mode, a
right isometry in right mode) and normalised: `Σ_s |ψ'[s]|² = 1`. -/
theorem compress_canonical (hq : C01.QRKernel dqr) (hk : SvdKernel k) (ha : AbsContract dabs divR)
    (hadm : Admissible ψ) (htol : 0 ≤ tol) (htol1 : tol < 1)
    (hrun : MPS.compress dqr k dabs divR ψ tol left = .ok (ψ', nrm, scale)) :
    (∀ B ∈ ψ'.A, if left then LeftIso B else RightIso B) ∧
      ∑ s ∈ digitsU ψ.qd.length ψ.A.length, ‖ψ'.amp s‖ ^ 2 = 1 := by
  obtain ⟨ψ1, ho, hc, hr⟩ := compOf_of_run hq hk ha hadm htol htol1 hrun
  obtain ⟨-, e1, e2⟩ := C01.ortho_wf hq.contract.shape hadm ho
  refine ⟨hr.iso hc htol1, ?_⟩
  rw [← e1, ← e2]
  exact hr.unit hc htol1

/-- **5.** With zero tolerance compression is exact: `scale = 1` and `nrm · scale · ψ'[s] = ψ[s]` for every digit
list `s`. -/
theorem compress_tol0_exact (hq : C01.QRKernel dqr) (hk : SvdKernel k) (ha : AbsContract dabs divR)
    (hadm : Admissible ψ)
    (hrun : MPS.compress dqr k dabs divR ψ 0 left = .ok (ψ', nrm, scale)) :
    scale = 1 ∧ ∀ s ∈ digitsU ψ.qd.length ψ.A.length, ((nrm * scale : ℝ) : 𝕜) * ψ'.amp s = ψ.amp s := by
  obtain ⟨ψ1, ho, hc, hr⟩ := compOf_of_run hq hk ha hadm (le_refl 0) zero_lt_one hrun
  obtain ⟨-, e1, e2⟩ := C01.ortho_wf hq.contract.shape hadm ho
  obtain ⟨s0, s1, s2⟩ := hr.scale_bounds hc zero_le_one
  have hs : scale = 1 := by
    simp only [sub_zero, one_pow] at s2
    nlinarith
  refine ⟨hs, fun s hs' => ?_⟩
  rw [RCLike.ofReal_mul, mul_assoc, hr.dense0 hc rfl (by rw [e1, e2]; exact hs')]
  exact C01.ortho_dense hq hadm ho hs'

/-- **6.** Truncation error identity: `nrm · scale · ψ'` differs from `ψ` (as dense vectors, 2-norm) by exactly
`nrm · sqrt(1 - scale²)`, hence by at most `nrm · sqrt(L · tol)`:
`Σ_s |nrm·scale·ψ'[s] - ψ[s]|² = nrm² (1 - scale²) ≤ nrm² · L · tol`.
(The discarded pieces of successive sites are mutually orthogonal and orthogonal to the result: `⟨ψ', ψ/nrm⟩ = scale`.) -/
theorem compress_error_identity (hq : C01.QRKernel dqr) (hk : SvdKernel k) (ha : AbsContract dabs divR)
    (hadm : Admissible ψ) (htol : 0 ≤ tol) (htol1 : tol < 1)
    (hrun : MPS.compress dqr k dabs divR ψ tol left = .ok (ψ', nrm, scale)) :
    ∑ s ∈ digitsU ψ.qd.length ψ.A.length, ‖((nrm * scale : ℝ) : 𝕜) * ψ'.amp s - ψ.amp s‖ ^ 2 =
        nrm ^ 2 * (1 - scale ^ 2) ∧
      Real.sqrt (∑ s ∈ digitsU ψ.qd.length ψ.A.length, ‖((nrm * scale : ℝ) : 𝕜) * ψ'.amp s - ψ.amp s‖ ^ 2) =
        nrm * Real.sqrt (1 - scale ^ 2) ∧
      Real.sqrt (∑ s ∈ digitsU ψ.qd.length ψ.A.length, ‖((nrm * scale : ℝ) : 𝕜) * ψ'.amp s - ψ.amp s‖ ^ 2) ≤
        nrm * Real.sqrt (ψ.A.length * tol) := by
  obtain ⟨ψ1, ho, hc, hr⟩ := compOf_of_run hq hk ha hadm htol htol1 hrun
  obtain ⟨-, e1, e2⟩ := C01.ortho_wf hq.contract.shape hadm ho
  have hunit := C01.ortho_unit hq hadm ho
  have hnn := C01.ortho_nonneg ho
  have herr := hr.error hc htol1 (by rw [e1, e2]; exact hunit)
  rw [e1, e2] at herr
  have hsb := compress_scale_bounds hq hk ha hadm htol htol1 hrun
  have h1 : ∑ s ∈ digitsU ψ.qd.length ψ.A.length, ‖((nrm * scale : ℝ) : 𝕜) * ψ'.amp s - ψ.amp s‖ ^ 2 =
      nrm ^ 2 * (1 - scale ^ 2) := by
    rw [← herr, Finset.mul_sum]
    refine Finset.sum_congr rfl fun s hs => ?_
    rw [← C01.ortho_dense hq hadm ho hs, RCLike.ofReal_mul, mul_assoc, ← mul_sub, norm_mul, mul_pow,
      RCLike.norm_ofReal, sq_abs]
  have h2 : Real.sqrt (nrm ^ 2 * (1 - scale ^ 2)) = nrm * Real.sqrt (1 - scale ^ 2) := by
    rw [Real.sqrt_mul (sq_nonneg nrm), Real.sqrt_sq hnn]
  refine ⟨h1, by rw [h1, h2], ?_⟩
  rw [h1, h2]
  refine mul_le_mul_of_nonneg_left (Real.sqrt_le_sqrt ?_) hnn
  linarith [hsb.2.2.2.1]

/-- **7 (left mode).** The first truncated bond keeps exactly the Schmidt values prescribed by the tolerance rule.
Let `φ` be the normalised state (`nrm · φ = ψ`, `‖φ‖ = 1`; it is the intermediate right-canonical state).  There is a
list `spec` of non-negative reals with `Σ spec² = 1` such that
* `SchmidtDecomp d ρ spec`: the reduced density matrix of the first site `ρ[s,s'] = Σ_σ φ[s σ] conj(φ[s' σ])` is
  `Σ_p U[s,p] spec_p² conj(U[s',p])` for some `U` with orthonormal columns, i.e. `spec` are the Schmidt values of `φ`
  across the first bond (`spec` is the concatenated spectrum of the block SVD performed by the first local step);
* `FirstBondRule k tol spec D'₁` with `D'₁ = len(ψ'.qD[1])` the new first bond dimension: `D'₁` is the number of
  indices retained by `retained_bond_indices(spec, tol)`, `np.linalg.norm(spec) = 1`, the discarded weight
  `Σ_{discarded} spec_i²` is `≤ tol`, no kept value is smaller than a discarded one, discarding one more kept value
  would exceed `tol`, and kept values are positive (the clauses of C12's truncation rule). -/
theorem compress_first_bond_schmidt_left (hq : C01.QRKernel dqr) (hk : SvdKernel k) (ha : AbsContract dabs divR)
    (hadm : Admissible ψ) (htol : 0 ≤ tol) (htol1 : tol < 1)
    (hrun : MPS.compress dqr k dabs divR ψ tol true = .ok (ψ', nrm, scale)) :
    ∃ (φ : MPS 𝕜) (spec : List ℝ),
      (∀ s ∈ digitsU ψ.qd.length ψ.A.length, (nrm : 𝕜) * φ.amp s = ψ.amp s) ∧
      ∑ s ∈ digitsU ψ.qd.length ψ.A.length, ‖φ.amp s‖ ^ 2 = 1 ∧
      SchmidtDecomp ψ.qd.length (fun s s' => ∑ σ ∈ digitsU ψ.qd.length (ψ.A.length - 1),
        φ.amp (s :: σ) * star (φ.amp (s' :: σ))) spec ∧
      FirstBondRule k tol spec (ψ'.qD.getD 1 []).length := by
  obtain ⟨ψ1, spec, ho, h1, h2⟩ := first_bond_left hq hk ha hadm htol htol1 hrun
  exact ⟨ψ1, spec, fun s hs => C01.ortho_dense hq hadm ho hs, C01.ortho_unit hq hadm ho, h1, h2⟩

/-- **7 (right mode).** The same for the first truncated bond of a right sweep, the LAST bond (index `L - 1`): the
reduced density matrix of the last site `ρ[s,s'] = Σ_σ φ[σ s] conj(φ[σ s'])` of the normalised state has the spectral
decomposition `U diag(spec²) Uᴴ`, and `D'_{L-1} = len(ψ'.qD[L-1])` is the number of indices of `spec` retained by the
tolerance rule. -/
theorem compress_first_bond_schmidt_right (hq : C01.QRKernel dqr) (hk : SvdKernel k) (ha : AbsContract dabs divR)
    (hadm : Admissible ψ) (htol : 0 ≤ tol) (htol1 : tol < 1)
    (hrun : MPS.compress dqr k dabs divR ψ tol false = .ok (ψ', nrm, scale)) :
    ∃ (φ : MPS 𝕜) (spec : List ℝ),
      (∀ s ∈ digitsU ψ.qd.length ψ.A.length, (nrm : 𝕜) * φ.amp s = ψ.amp s) ∧
      ∑ s ∈ digitsU ψ.qd.length ψ.A.length, ‖φ.amp s‖ ^ 2 = 1 ∧
      SchmidtDecomp ψ.qd.length (fun s s' => ∑ σ ∈ digitsU ψ.qd.length (ψ.A.length - 1),
        φ.amp (σ ++ [s]) * star (φ.amp (σ ++ [s']))) spec ∧
      FirstBondRule k tol spec (ψ'.qD.getD (ψ.A.length - 1) []).length := by
  obtain ⟨ψ1, spec, ho, h1, h2⟩ := first_bond_right hq hk ha hadm htol htol1 hrun
  exact ⟨ψ1, spec, fun s hs => C01.ortho_dense hq hadm ho hs, C01.ortho_unit hq hadm ho, h1, h2⟩

/-- **8.** `MPS.from_vector(d, nsites, v, tol)` (TT-SVD, model `MPS.fromVector`) has relative error at most
`sqrt(L · tol)`: whenever it returns `ψ`,
`Σ_s |ψ[s] - v[flat s]|² ≤ L · tol · Σ_c |v[c]|²` (`flat d s` the row-major position of the digit list `s`, `L = nsites`),
i.e. `‖ψ - v‖ ≤ sqrt(L · tol) · ‖v‖`.  No hypothesis on `v` is needed (`0 ≤ tol`). -/
theorem from_vector_bound (hk : SvdKernel k) (htol : 0 ≤ tol) {d n : Nat} {v : List 𝕜} {ψ : MPS 𝕜}
    (h : MPS.fromVector k d n v tol = .ok ψ) :
    ∑ s ∈ digitsU d n, ‖ψ.amp s - v.getD (flat d s) 0‖ ^ 2 ≤ n * tol * ∑ c ∈ range v.length, ‖v.getD c 0‖ ^ 2 ∧
    Real.sqrt (∑ s ∈ digitsU d n, ‖ψ.amp s - v.getD (flat d s) 0‖ ^ 2) ≤
      Real.sqrt (n * tol) * Real.sqrt (∑ c ∈ range v.length, ‖v.getD c 0‖ ^ 2) := by
  have hb := fromVector_bound hk htol h
  refine ⟨hb, ?_⟩
  rw [← Real.sqrt_mul (mul_nonneg (Nat.cast_nonneg n) htol)]
  exact Real.sqrt_le_sqrt hb

/-- **8'.** `from_vector` with `0 ≤ tol < 1` raises no exception on a non-zero vector of length `d^nsites`
(`d, nsites ≥ 1`). -/
theorem from_vector_ok (hk : SvdKernel k) (htol : 0 ≤ tol) (htol1 : tol < 1) {d n : Nat} (hd : 0 < d) (hn : 0 < n)
    {v : List 𝕜} (hvl : v.length = d ^ n) (hne : ∃ c, c < v.length ∧ v.getD c 0 ≠ 0) :
    ∃ ψ, MPS.fromVector k d n v tol = .ok ψ :=
  fromVector_ok hk htol htol1 hd hn hvl hne

/-- **8b.** (after the repair of F12) `MPS.from_vector` returns for EVERY vector of length `d^nsites` (`d, nsites ≥ 1`)
and every tolerance `0 ≤ tol < 1`: also for the zero vector -- every singular value is then zero and the code keeps a dummy bond
of dimension one. -/
theorem from_vector_total (hk : SvdKernel k) (htol : 0 ≤ tol) (htol1 : tol < 1) {d n : Nat} (hd : 0 < d) (hn : 0 < n)
    {v : List 𝕜} (hvl : v.length = d ^ n) : ∃ ψ, MPS.fromVector k d n v tol = .ok ψ :=
  fromVector_total hk htol htol1 hd hn hvl

/-- **8c.** zero tolerance, every vector (zero vector included): the call returns and reproduces the vector exactly. -/
theorem from_vector_tol0_total (hk : SvdKernel k) {d n : Nat} (hd : 0 < d) (hn : 0 < n) {v : List 𝕜}
    (hvl : v.length = d ^ n) :
    ∃ ψ, MPS.fromVector k d n v (0 : ℝ) = .ok ψ ∧ ∀ s ∈ digitsU d n, ψ.amp s = v.getD (flat d s) 0 := by
  obtain ⟨ψ, h⟩ := fromVector_total (tol := (0 : ℝ)) hk (le_refl 0) zero_lt_one hd hn hvl
  refine ⟨ψ, h, ?_⟩
  have hb := fromVector_bound hk (le_refl (0 : ℝ)) h
  rw [mul_zero, zero_mul] at hb
  have h0 : ∀ s ∈ digitsU d n, ‖ψ.amp s - v.getD (flat d s) 0‖ ^ 2 = 0 :=
    (Finset.sum_eq_zero_iff_of_nonneg (fun s _ => by positivity)).1
      (le_antisymm hb (Finset.sum_nonneg fun s _ => by positivity))
  intro s hs
  have := h0 s hs
  rw [pow_eq_zero_iff (by norm_num), norm_eq_zero, sub_eq_zero] at this
  exact this

/-! ## Non-vacuity

Kernels: `QrExists.fullQR` over `ℝ` / `Ortho.realQR` over `ℂ` satisfy `C01.QRKernel` (see C01);
`Compress.exKernels 𝕜 = ⟨fullSVD, normK, sortK⟩` satisfies `SvdKernel` over every `RCLike` field (`fullSVD`: a reduced
SVD of EVERY matrix, obtained from the spectral theorem of `BᴴB`; `normK = sqrt(Σ x²)`; `sortK`: insertion sort of
the indices by key); `(‖·‖, z ↦ z / r)` satisfies `AbsContract`.  Input: `Ortho.exψ = |01⟩ + |10⟩` (two sites,
physical charges `[0, 1]`, bond charges `[0], [0, 1], [1]`, `‖ψ‖² = 2`) and its complex variant
`exψC = |01⟩ + i|10⟩`. -/

omit [DecidableEq 𝕜] in
/-- the kernel contracts of C13 are satisfiable over every `RCLike` field -/
theorem exKernels_kernel : SvdKernel (exKernels 𝕜) := exKernels_ok

omit [DecidableEq 𝕜] in
/-- `abs` and the division by a real satisfy `AbsContract` -/
theorem exAbs_contract : AbsContract (fun z : 𝕜 => ‖z‖) (fun z r => z / (r : 𝕜)) := exAbs_ok

/-- non-vacuity of `compress_ok`, `compress_returns_norm`, `compress_wf`, `compress_bond_mono`,
`compress_scale_bounds`, `compress_canonical`, `compress_error_identity`, `compress_first_bond_schmidt_left/right`: in both modes all hypotheses (kernel contracts, admissible non-zero
input, `0 ≤ tol < 1` with `tol = 1/4 < 1/L`, and the successful run) hold for `exψ` over `ℝ`; `nrm² = 2`. -/
example (left : Bool) : ∃ (ψ' : MPS ℝ) (nrm scale : ℝ),
    C01.QRKernel (QrExists.fullQR : Mat ℝ → Mat ℝ × Mat ℝ) ∧ SvdKernel (exKernels ℝ) ∧
    AbsContract (fun z : ℝ => ‖z‖) (fun z r => z / (r : ℝ)) ∧ Admissible exψ ∧ (0 : ℝ) ≤ 1 / 4 ∧ (1 / 4 : ℝ) < 1 ∧
    (1 / 4 : ℝ) * exψ.A.length < 1 ∧
    MPS.compress QrExists.fullQR (exKernels ℝ) (fun z : ℝ => ‖z‖) (fun z r => z / (r : ℝ)) exψ (1 / 4) left =
      .ok (ψ', nrm, scale) ∧ nrm ^ 2 = 2 ∧ 1 ≤ exψ.A.length := by
  obtain ⟨ψ', nrm, scale, hrun⟩ := compress_ok (dabs := fun z : ℝ => ‖z‖) (divR := fun z r => z / (r : ℝ))
    C01.fullQR_kernel (exKernels_kernel (𝕜 := ℝ)) exψ_adm (by norm_num : (0 : ℝ) ≤ 1 / 4) (by norm_num) left
  refine ⟨ψ', nrm, scale, C01.fullQR_kernel, exKernels_kernel, exAbs_contract, exψ_adm, by norm_num, by norm_num,
    ?_, hrun, ?_, by decide⟩
  · have : exψ.A.length = 2 := by decide
    rw [this]; norm_num
  · rw [(compress_returns_norm C01.fullQR_kernel exKernels_kernel exAbs_contract exψ_adm (by norm_num) (by norm_num)
      hrun).1, exψ_normsq]

/-- non-vacuity of `compress_tol0_exact`: zero tolerance, both modes, `exψ` over `ℝ`; the digit list `[0, 1]` is in
range and the state is non-zero (`nrm² = 2`). -/
example (left : Bool) : ∃ (ψ' : MPS ℝ) (nrm scale : ℝ),
    C01.QRKernel (QrExists.fullQR : Mat ℝ → Mat ℝ × Mat ℝ) ∧ SvdKernel (exKernels ℝ) ∧
    AbsContract (fun z : ℝ => ‖z‖) (fun z r => z / (r : ℝ)) ∧ Admissible exψ ∧
    MPS.compress QrExists.fullQR (exKernels ℝ) (fun z : ℝ => ‖z‖) (fun z r => z / (r : ℝ)) exψ 0 left =
      .ok (ψ', nrm, scale) ∧ [0, 1] ∈ digitsU exψ.qd.length exψ.A.length ∧ nrm ^ 2 = 2 := by
  obtain ⟨ψ', nrm, scale, hrun⟩ := compress_ok (dabs := fun z : ℝ => ‖z‖) (divR := fun z r => z / (r : ℝ))
    C01.fullQR_kernel (exKernels_kernel (𝕜 := ℝ)) exψ_adm (le_refl (0 : ℝ)) zero_lt_one left
  refine ⟨ψ', nrm, scale, C01.fullQR_kernel, exKernels_kernel, exAbs_contract, exψ_adm, hrun, by decide, ?_⟩
  rw [(compress_returns_norm C01.fullQR_kernel exKernels_kernel exAbs_contract exψ_adm (le_refl 0) zero_lt_one
    hrun).1, exψ_normsq]

/-- non-vacuity with complex entries: `exψC = |01⟩ + i|10⟩` over `ℂ` with the kernels `realQR`, `exKernels ℂ`,
both modes, `tol = 1/4` -/
example (left : Bool) : ∃ (ψ' : MPS ℂ) (nrm scale : ℝ),
    C01.QRKernel (realQR : Mat ℂ → Mat ℂ × Mat ℂ) ∧ SvdKernel (exKernels ℂ) ∧
    AbsContract (fun z : ℂ => ‖z‖) (fun z r => z / (r : ℂ)) ∧ Admissible exψC ∧
    MPS.compress realQR (exKernels ℂ) (fun z : ℂ => ‖z‖) (fun z r => z / (r : ℂ)) exψC (1 / 4) left =
      .ok (ψ', nrm, scale) ∧ nrm ^ 2 = 2 := by
  obtain ⟨ψ', nrm, scale, hrun⟩ := compress_ok (dabs := fun z : ℂ => ‖z‖) (divR := fun z r => z / (r : ℂ))
    (C01.realQR_kernel (𝕜 := ℂ)) (exKernels_kernel (𝕜 := ℂ)) exψC_adm (by norm_num : (0 : ℝ) ≤ 1 / 4)
    (by norm_num) left
  refine ⟨ψ', nrm, scale, C01.realQR_kernel, exKernels_kernel, exAbs_contract, exψC_adm, hrun, ?_⟩
  rw [(compress_returns_norm C01.realQR_kernel exKernels_kernel exAbs_contract exψC_adm (by norm_num) (by norm_num)
    hrun).1, exψC_normsq]

/-- non-vacuity of `from_vector_bound`, `from_vector_ok`: `v = [3, 0, 0, 4]` on two sites of dimension two over `ℝ`,
`tol = 1/4`, kernels `exKernels ℝ`; the vector is non-zero, and the run returns -/
example : ∃ ψ : MPS ℝ, SvdKernel (exKernels ℝ) ∧ (0 : ℝ) ≤ 1 / 4 ∧ (1 / 4 : ℝ) < 1 ∧
    ([3, 0, 0, 4] : List ℝ).length = 2 ^ 2 ∧ (∃ c, c < ([3, 0, 0, 4] : List ℝ).length ∧ ([3, 0, 0, 4] : List ℝ).getD c 0 ≠ 0) ∧
    MPS.fromVector (exKernels ℝ) 2 2 ([3, 0, 0, 4] : List ℝ) (1 / 4) = .ok ψ := by
  have hne : ∃ c, c < ([3, 0, 0, 4] : List ℝ).length ∧ ([3, 0, 0, 4] : List ℝ).getD c 0 ≠ 0 :=
    ⟨0, by simp, by simp⟩
  obtain ⟨ψ, hψ⟩ := from_vector_ok (exKernels_kernel (𝕜 := ℝ)) (by norm_num : (0 : ℝ) ≤ 1 / 4) (by norm_num)
    (d := 2) (n := 2) (by norm_num) (by norm_num) (v := [3, 0, 0, 4]) (by simp) hne
  exact ⟨ψ, exKernels_kernel, by norm_num, by norm_num, by simp, hne, hψ⟩

/-- non-vacuity of `prod_one_sub_ge` -/
example : (∀ ε ∈ ([1 / 4, 1 / 2] : List ℝ), 0 ≤ ε ∧ ε ≤ 1) := by
  intro ε hε
  simp only [List.mem_cons, List.mem_nil_iff, or_false] at hε
  rcases hε with rfl | rfl <;> constructor <;> norm_num

/-- non-vacuity of `from_vector_total`, `from_vector_tol0_total`: the ZERO vector on two sites of dimension two over `ℝ`
(the input on which the unrepaired code raised `AssertionError`, F12), kernels `exKernels ℝ` -/
example : ∃ ψ : MPS ℝ, MPS.fromVector (exKernels ℝ) 2 2 ([0, 0, 0, 0] : List ℝ) (0 : ℝ) = .ok ψ ∧
    ∀ s ∈ digitsU 2 2, ψ.amp s = 0 := by
  obtain ⟨ψ, h, hv⟩ := from_vector_tol0_total (exKernels_kernel (𝕜 := ℝ)) (d := 2) (n := 2) (by norm_num) (by norm_num)
    (v := [0, 0, 0, 0]) (by simp)
  refine ⟨ψ, h, fun s hs => ?_⟩
  rw [hv s hs]
  have : ∀ c, ([0, 0, 0, 0] : List ℝ).getD c 0 = 0 := by
    intro c
    rcases c with _ | _ | _ | _ | c <;> simp
  exact this _

end Ptn.C13

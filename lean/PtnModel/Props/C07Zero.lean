import PtnModel.Props.C07Total
/-!
# Property C07 on all-zero coefficient tensors: the negative statement (known finding F14, C07 part)

`molecular_zero_operator_raises`: the bond-optimized spinless construction does not return when no hopping coefficient and no
antisymmetrised interaction coefficient is non-zero (in particular for all-zero tensors: the Python raises a bare
`AssertionError` from the empty chain list), although the documented operator is the zero operator.  Corollary of
`C07.optimized_returns`.
-/
set_option linter.unusedSectionVars false
namespace Ptn.C07
open Ptn Ptn.Og Ptn.Ham

variable {κ : Type} [CommRing κ] [DecidableEq κ]

theorem molecular_zero_operator_raises (c : Consts κ) (tkin : List (List κ)) (vint : List (List (List (List κ))))
    (hL : 1 ≤ tkin.length) (hz : ¬ MolNonzero c tkin vint) : ¬ ∃ b, molBuildOpt c tkin vint = .ok b := by
  rw [(optimized_returns c tkin vint hL).1]
  exact fun h => hz h.2

theorem spin_molecular_zero_operator_raises (c : Consts κ) (tkin : List (List κ)) (vint : List (List (List (List κ))))
    (hL : 1 ≤ tkin.length) (hz : ¬ SpinMolNonzero c tkin vint) : ¬ ∃ b, spinMolBuildOpt c tkin vint = .ok b := by
  rw [(optimized_returns c tkin vint hL).2]
  exact fun h => hz h.2

end Ptn.C07

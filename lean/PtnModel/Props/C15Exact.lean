import PtnModel.Proofs.KryExpExample
import PtnModel.Proofs.KryExpPoly
import PtnModel.Proofs.EvoExample
/-!
# C15 — exactness clauses: the Krylov exponential equals the exact matrix exponential once the Krylov space is exhausted

Continuation of `Props/C15.lean` (`expm_exact_partial`: Hermitian branch in spectral form for ONE eigen-decomposition).
Clause of the property: *whenever the iteration count reaches the dimension of the Krylov space, the exponential equals
the exact matrix exponential applied to the vector, for both the Hermitian and the general branch.*

"The Krylov space is exhausted" is the exact breakdown: the last Lanczos residual (`C15.Exhausted`), resp. the last Arnoldi
Gram–Schmidt residual (`Krylov.ExhaustedA`), has norm zero — which always happens at the latest when the number of returned
vectors is the dimension of the Krylov space.  Model: `Ptn.Krylov.expmKrylov` (`PtnModel/Model/Krylov.lean`); scalars
`RCLike 𝕜`, exact arithmetic.

**Hermitian branch** (`hermitian=True`: Lanczos, `eigh_tridiagonal`, `np.exp`):
* `expm_hermitian_exact`        : the result is `∑_f dexp(dt μ_f) b_f w_f` for EVERY decomposition `v = ∑ b_f w_f` of the start
  vector into eigenvectors `w_f` of `A` (eigenvalues `μ_f`), and such a decomposition exists — i.e. the result is the
  spectral function `dexp(dt ·)` of `A` applied to `v`, well defined independently of the decomposition
  (`Evo.spectral_unique`); every complex `dt`, every scalar oracle `dexp`;
* `expm_hermitian_exact_linear` : the result is `G v` for every linear map `G` that multiplies each eigenvector of `A` with
  eigenvalue `θ` by `dexp(dt θ)` — the defining property of `exp(dt A)` on the Krylov space for any definition of the
  matrix exponential;
* `expm_hermitian_matrix_exp`   : for `dexp = NormedSpace.exp` (on `ℂ`: `Complex.exp`, `Complex.exp_eq_exp_ℂ`) the result is
  **Mathlib's matrix exponential** (`NormedSpace.exp` on `Matrix (Fin n) (Fin n) 𝕜`, the power series): `exp(dt • A) *ᵥ v`.

* `krylov_poly_exact`           : the mechanism — on an exhausted Krylov space `A V = V T`, hence `p(A) v = ‖v‖ · V p(T) e₀`
  for every polynomial `p` (Mathlib matrices; `V`, `T` the returned Lanczos data); the code evaluates `‖v‖ · V f(T) e₀`
  with `f(T) = U diag(dexp(dt θ)) Uᵀ`.

**General branch** (`hermitian=False`: Arnoldi, `scipy.linalg.expm`):
* `expm_general_exact_partial`  : relative to the contract `Krylov.ExpmContract dexpm` of `scipy.linalg.expm` — square output of
  the size of the input, and the intertwining property `M V = V N ⟹ expm(M) V = V expm(N)` for square `M`, `N` and
  rectangular `V` — the result is `expm(dt A) @ v` for the explicit `n × n` matrix `A` (arbitrary, not necessarily normal).
  "Partial": the oracle is identified with the true exponential only through the contract;
* `expm_contract_of_exact`      : the power-series exponential satisfies that contract (`ExpmExact dexpm → ExpmContract dexpm`;
  `expmTrue_exact`: the contract is satisfiable);
* `expm_general_matrix_exp`     : if the oracle IS the power-series exponential (`ExpmExact dexpm`), the result is Mathlib's
  `exp(dt • A) *ᵥ v`.

`general_returns` : the general branch returns whenever the start vector has positive norm and `numiter ≥ 1` (shape clause
of the contract only).
-/
set_option linter.unusedSectionVars false

namespace Ptn.C15
open Ptn Ptn.Krylov Ptn.Evo Finset Matrix

variable {𝕜 : Type} [RCLike 𝕜]
local notation "conj" => starRingEnd 𝕜

variable {Afun : List 𝕜 → List 𝕜} {dnorm : List 𝕜 → ℝ} {deigh : List ℝ → List ℝ → List ℝ × Mat ℝ}
  {dexp : 𝕜 → 𝕜} {dexpm : Mat 𝕜 → Mat 𝕜}

/-! ## Hermitian branch -/

/-- **Hermitian branch, exhausted Krylov space: the result is the spectral exponential of `A` applied to `v`.**
For a linear Hermitian map (acting as the Hermitian matrix `M`), if the last Lanczos residual vanishes, then for every
complex `dt`:
* the result has the length of `v`;
* `v` has a decomposition into eigenvectors of `A` with real eigenvalues;
* for EVERY decomposition `v = ∑_{f<K} b_f w_f` into eigenvectors `A w_f = μ_f w_f` (any number, any normalisation,
  repeated eigenvalues allowed) the result is `∑_f dexp(dt μ_f) b_f w_f`. -/
theorem expm_hermitian_exact (hN : NormContract dnorm) {v : List 𝕜} {numiter : Nat} {M : Nat → Nat → 𝕜}
    (hM : ActsAs v.length Afun M) (hH : ∀ i j, i < v.length → j < v.length → conj (M i j) = M j i)
    (hE : EighAt Afun dnorm deigh v numiter) (hX : Exhausted Afun dnorm v numiter) {dt : 𝕜} {r : List 𝕜}
    (h : expmKrylov Afun dnorm deigh dexp dexpm v dt numiter true = .ok r) :
    r.length = v.length ∧
    (∃ (k : Nat) (θ : Nat → ℝ) (c : Nat → 𝕜) (u : Nat → List 𝕜),
      (∀ e, e < k → IsEigen v.length Afun (θ e) (u e)) ∧
      (∀ i, i < v.length → vget v i = ∑ e ∈ range k, c e * vget (u e) i)) ∧
    ∀ (K : Nat) (μ : Nat → ℝ) (b : Nat → 𝕜) (w : Nat → List 𝕜),
      (∀ f, f < K → IsEigen v.length Afun (μ f) (w f)) →
      (∀ i, i < v.length → vget v i = ∑ f ∈ range K, b f * vget (w f) i) →
      ∀ i, i < v.length → vget r i = ∑ f ∈ range K, dexp (dt * ((μ f : ℝ) : 𝕜)) * b f * vget (w f) i :=
  expm_spectral hN hM hH hE hX h

/-- **Hermitian branch: the result is `G v` for every "matrix exponential" `G`.**  Under the same hypotheses, for every
linear map `G` (acting as some matrix `N` on vectors of length `n`) that multiplies each eigenvector of `A` with real
eigenvalue `θ` by `dexp(dt θ)`: the result equals `G v` entrywise. -/
theorem expm_hermitian_exact_linear (hN : NormContract dnorm) {v : List 𝕜} {numiter : Nat} {M : Nat → Nat → 𝕜}
    (hM : ActsAs v.length Afun M) (hH : ∀ i j, i < v.length → j < v.length → conj (M i j) = M j i)
    (hE : EighAt Afun dnorm deigh v numiter) (hX : Exhausted Afun dnorm v numiter) {dt : 𝕜} {r : List 𝕜}
    (h : expmKrylov Afun dnorm deigh dexp dexpm v dt numiter true = .ok r)
    {G : List 𝕜 → List 𝕜} {N : Nat → Nat → 𝕜} (hG : ActsAs v.length G N)
    (hGe : ∀ (θ : ℝ) (u : List 𝕜), IsEigen v.length Afun θ u →
      ∀ i, i < v.length → vget (G u) i = dexp (dt * ((θ : ℝ) : 𝕜)) * vget u i) :
    ∀ i, i < v.length → vget r i = vget (G v) i :=
  expm_linear hN hM hH hE hX h hG hGe

/-- **Hermitian branch = the power-series matrix exponential.**  If moreover the scalar oracle is the exponential
(`dexp = NormedSpace.exp`), the result is `Matrix.exp (dt • A) *ᵥ v` with Mathlib's `NormedSpace.exp` on
`Matrix (Fin n) (Fin n) 𝕜`; `toMatrix n M`, `toVec n v` read the model's index function / list as a Mathlib matrix /
vector. -/
theorem expm_hermitian_matrix_exp (hN : NormContract dnorm) {v : List 𝕜} {numiter : Nat} {M : Nat → Nat → 𝕜}
    (hM : ActsAs v.length Afun M) (hH : ∀ i j, i < v.length → j < v.length → conj (M i j) = M j i)
    (hE : EighAt Afun dnorm deigh v numiter) (hX : Exhausted Afun dnorm v numiter)
    (hexp : ∀ z : 𝕜, dexp z = NormedSpace.exp z) {dt : 𝕜} {r : List 𝕜}
    (h : expmKrylov Afun dnorm deigh dexp dexpm v dt numiter true = .ok r) :
    r.length = v.length ∧
    ∀ i : Fin v.length, vget r i = (NormedSpace.exp (dt • toMatrix v.length M) *ᵥ toVec v.length v) i :=
  expm_herm_matrix hN hM hH hE hX hexp h

/-- **Polynomials are exact on an exhausted Krylov space.**  If the last Lanczos residual vanishes then `A V = V T`
(`tridiagMatrix`: the returned `alpha`, `beta` as a `k × k` matrix) and for every polynomial `p = ∑_{j<d} a_j X^j`:
`p(A) v = ‖v‖ · V (p(T) e₀)`. -/
theorem krylov_poly_exact (hN : NormContract dnorm) {v : List 𝕜} {numiter : Nat} {M : Nat → Nat → 𝕜}
    (hM : ActsAs v.length Afun M) (hH : ∀ i j, i < v.length → j < v.length → conj (M i j) = M j i)
    (hX : Exhausted Afun dnorm v numiter) {alpha beta : List ℝ} {V : Mat 𝕜}
    (hl : lanczos Afun dnorm v numiter = .ok (alpha, beta, V)) :
    toMatrix v.length M * toRect v.length V.n V.f = toRect v.length V.n V.f * tridiagMatrix V.n alpha beta ∧
    ∀ (d : Nat) (a : Nat → 𝕜),
      (∑ j ∈ range d, a j • toMatrix v.length M ^ j) *ᵥ toVec v.length v =
        ((dnorm v : ℝ) : 𝕜) • (toRect v.length V.n V.f *ᵥ
          ((∑ j ∈ range d, a j • tridiagMatrix V.n alpha beta ^ j) *ᵥ e0 V.n)) :=
  ⟨(lanczos_intertwine hN hM hH hX hl).1, fun d a => lanczos_poly hN hM hH hX hl d a⟩

/-! ## general branch -/

/-- **General branch, exhausted Krylov space (partial: relative to the contract of `expm`).**  For a map acting as the
`n × n` matrix `A` (arbitrary), if the last Arnoldi residual vanishes (`A V = V H` exactly, from `C14.arnoldi_relations`
and the vanishing residual) and `scipy.linalg.expm` satisfies `ExpmContract` (square shape, intertwining), the result of
`expm_krylov(…, hermitian=False)` is `expm(dt A) @ v`: `r[i] = ∑_j expm(dt A)[i, j] v[j]`.
Missing for the full clause: that the oracle is the true exponential — see `expm_general_matrix_exp`. -/
theorem expm_general_exact_partial (hN : NormContract dnorm) (hC : ExpmContract dexpm)
    {v : List 𝕜} {numiter : Nat} {A : Mat 𝕜} (hAm : A.m = v.length) (hAn : A.n = v.length)
    (hM : ActsAs v.length Afun A.f) (hX : ExhaustedA Afun dnorm v numiter) {dt : 𝕜} {r : List 𝕜}
    (h : expmKrylov Afun dnorm deigh dexp dexpm v dt numiter false = .ok r) :
    r.length = v.length ∧
    ∀ i, i < v.length → vget r i = ∑ j ∈ range v.length, (dexpm (Mat.scale dt A)).f i j * vget v j :=
  expm_general hN hC hAm hAn hM hX h

/-- **The power-series exponential satisfies the contract**: an oracle that returns Mathlib's `NormedSpace.exp` of the
(square) input matrix has the shape and intertwining properties of `ExpmContract`. -/
theorem expm_contract_of_exact (h : ExpmExact dexpm) : ExpmContract dexpm := h.contract

/-- **General branch = the power-series matrix exponential.**  If `scipy.linalg.expm` is the power-series exponential
(`ExpmExact dexpm`) and the Krylov space is exhausted, the result is `Matrix.exp (dt • A) *ᵥ v`. -/
theorem expm_general_matrix_exp (hN : NormContract dnorm) (hC : ExpmExact dexpm)
    {v : List 𝕜} {numiter : Nat} {A : Mat 𝕜} (hAm : A.m = v.length) (hAn : A.n = v.length)
    (hM : ActsAs v.length Afun A.f) (hX : ExhaustedA Afun dnorm v numiter) {dt : 𝕜} {r : List 𝕜}
    (h : expmKrylov Afun dnorm deigh dexp dexpm v dt numiter false = .ok r) :
    r.length = v.length ∧
    ∀ i : Fin v.length, vget r i = (NormedSpace.exp (dt • toMatrix v.length A.f) *ᵥ toVec v.length v) i :=
  expm_gen_matrix hN hC hAm hAn hM hX h

/-- **The general branch returns** whenever the start vector has positive norm (norm contract: then it is not empty, and the
capped iteration count `min numiter (len v)` of F11 is at least one) and `numiter ≥ 1` (only the shape clause of
the `expm` contract is used); an exhausted Krylov space never makes the call fail. -/
theorem general_returns {v : List 𝕜} {numiter : Nat} (hN : NormContract dnorm) (hpos : 0 < dnorm v) (hm : 1 ≤ numiter)
    (hC : ExpmContract dexpm) (dt : 𝕜) : ∃ r, expmKrylov Afun dnorm deigh dexp dexpm v dt numiter false = .ok r :=
  expm_gen_isOk hN hpos hm hC dt

/-! ## non-vacuity

Hermitian branch: the complex Hermitian matrix `exHerm = [[2, i], [-i, 2]]`, start vector `(1, -i)` (an eigenvector for the
eigenvalue `3`, so one iteration exhausts the Krylov space: `exhausted_one_of_eigen`), the 2-norm, the eigen-decomposition
of `1 × 1` matrices, `dexp = NormedSpace.exp`, `dt = i`.  General branch: the non-normal Jordan block
`exJordan = [[1, 1], [0, 1]]`, start vector `(1, 0)`, `dexpm = expmTrue` (Mathlib's exponential). -/

/-- all hypotheses of `expm_hermitian_exact`, `expm_hermitian_exact_linear`, `expm_hermitian_matrix_exp` hold and the call
returns; consequence: the result is `exp(3 i) • v` and equals `Matrix.exp (i • A) *ᵥ v` -/
example : ∃ r : List ℂ,
    NormContract (sqrtNorm (𝕜 := ℂ)) ∧ ActsAs exHermV.length (matvec exHerm) exHerm.f ∧
    (∀ i j, i < exHermV.length → j < exHermV.length → (starRingEnd ℂ) (exHerm.f i j) = exHerm.f j i) ∧
    EighAt (matvec exHerm) sqrtNorm triv1 exHermV 1 ∧ Exhausted (matvec exHerm) sqrtNorm exHermV 1 ∧
    expmKrylov (matvec exHerm) sqrtNorm triv1 (fun z => NormedSpace.exp z) id exHermV Complex.I 1 true = .ok r ∧
    (∀ i, i < 2 → vget r i = NormedSpace.exp (Complex.I * ((3 : ℝ) : ℂ)) * vget exHermV i) ∧
    ∀ i : Fin 2, vget r i = (NormedSpace.exp (Complex.I • toMatrix 2 exHerm.f) *ᵥ toVec 2 exHermV) i := by
  have hM : ActsAs exHermV.length (matvec exHerm) exHerm.f := actsAs_matvec exHerm rfl rfl
  have hA : IsHermitian exHermV.length (matvec exHerm) := hM.isHermitian exHerm_herm
  have hE : EighAt (matvec exHerm) sqrtNorm triv1 exHermV 1 := eighAt_one _ _ _
  have hX : Exhausted (matvec exHerm) sqrtNorm exHermV 1 := exhausted_one_of_eigen sqrtNorm_contract hM hA exHerm_eigen
  obtain ⟨r, hr⟩ := expm_herm_isOk (dexp := fun z : ℂ => NormedSpace.exp z) (dexpm := id) sqrtNorm_contract exHermV_pos (le_refl 1) hE
    Complex.I
  refine ⟨r, sqrtNorm_contract, hM, exHerm_herm, hE, hX, hr, ?_, ?_⟩
  · obtain ⟨_, _, hall⟩ := expm_hermitian_exact sqrtNorm_contract hM exHerm_herm hE hX hr
    intro i hi
    have := hall 1 (fun _ => 3) (fun _ => 1) (fun _ => exHermV) (fun f _ => ⟨rfl, exHerm_eigen⟩)
      (fun j _ => by simp) i hi
    rw [this]; simp
  · exact (expm_hermitian_matrix_exp sqrtNorm_contract hM exHerm_herm hE hX (fun _ => rfl) hr).2

/-- the hypotheses of `krylov_poly_exact` hold (a Lanczos run that exhausts the Krylov space exists) -/
example : ∃ (alpha beta : List ℝ) (V : Mat ℂ), NormContract (sqrtNorm (𝕜 := ℂ)) ∧
    ActsAs exHermV.length (matvec exHerm) exHerm.f ∧ Exhausted (matvec exHerm) sqrtNorm exHermV 1 ∧
    lanczos (matvec exHerm) sqrtNorm exHermV 1 = .ok (alpha, beta, V) := by
  have hM : ActsAs exHermV.length (matvec exHerm) exHerm.f := actsAs_matvec exHerm rfl rfl
  obtain ⟨⟨alpha, beta, V⟩, hl⟩ := lanczos_isOk (matvec exHerm) (sqrtNorm (𝕜 := ℂ)) (vstart := exHermV) (numiter := 1)
    exHermV_pos (le_refl 1) (by simp [exHermV])
  exact ⟨alpha, beta, V, sqrtNorm_contract, hM,
    exhausted_one_of_eigen sqrtNorm_contract hM (hM.isHermitian exHerm_herm) exHerm_eigen, hl⟩

/-- the hypothesis on `G` of `expm_hermitian_exact_linear` is satisfiable: `G = ` multiplication by Mathlib's
`exp(dt • A)` -/
example : ∃ (G : List ℂ → List ℂ) (N : Nat → Nat → ℂ), ActsAs 2 G N ∧
    ∀ (θ : ℝ) (u : List ℂ), IsEigen 2 (matvec exHerm) θ u →
      ∀ i, i < 2 → vget (G u) i = NormedSpace.exp (Complex.I * ((θ : ℝ) : ℂ)) * vget u i := by
  let E : Matrix (Fin 2) (Fin 2) ℂ := NormedSpace.exp (Complex.I • toMatrix 2 exHerm.f)
  let N : Nat → Nat → ℂ := fun i j => if h : i < 2 ∧ j < 2 then E ⟨i, h.1⟩ ⟨j, h.2⟩ else 0
  have hN : toRect 2 2 N = E := by
    funext i j
    show (if h : (i : Nat) < 2 ∧ (j : Nat) < 2 then E ⟨i, h.1⟩ ⟨j, h.2⟩ else 0) = E i j
    rw [dif_pos ⟨i.isLt, j.isLt⟩]
  refine ⟨matvec ⟨2, 2, N⟩, N, actsAs_matvec ⟨2, 2, N⟩ rfl rfl, ?_⟩
  intro θ u hu i hi
  have hM : ActsAs 2 (matvec exHerm) exHerm.f := actsAs_matvec exHerm rfl rfl
  have h1 := exp_mulVec_eigen _ _ _ (IsEigen.toVec hM hu Complex.I)
  have h2 := congrFun h1 ⟨i, hi⟩
  rw [vget_matvec (⟨2, 2, N⟩ : Mat ℂ) u (by exact hi)]
  have h3 := mulVec_toVec 2 2 N u ⟨i, hi⟩
  rw [← h3, hN]
  exact h2

/-- the contract `ExpmContract` (and `ExpmExact`) is satisfiable: Mathlib's exponential as an oracle -/
example : ExpmExact (expmTrue : Mat ℂ → Mat ℂ) ∧ ExpmContract (expmTrue : Mat ℂ → Mat ℂ) :=
  ⟨expmTrue_exact, expm_contract_of_exact expmTrue_exact⟩

/-- all hypotheses of `expm_general_exact_partial`, `expm_general_matrix_exp`, `general_returns` hold for the non-normal
Jordan block and the call returns; the result is `Matrix.exp (i • A) *ᵥ v` -/
example : ∃ r : List ℂ,
    NormContract (sqrtNorm (𝕜 := ℂ)) ∧ ExpmExact (expmTrue : Mat ℂ → Mat ℂ) ∧ ExpmContract (expmTrue : Mat ℂ → Mat ℂ) ∧
    ActsAs ([1, 0] : List ℂ).length (matvec exJordan) exJordan.f ∧
    ExhaustedA (matvec exJordan) sqrtNorm ([1, 0] : List ℂ) 1 ∧
    expmKrylov (matvec exJordan) sqrtNorm triv1 id expmTrue [1, 0] Complex.I 1 false = .ok r ∧
    ∀ i : Fin 2, vget r i = (NormedSpace.exp (Complex.I • toMatrix 2 exJordan.f) *ᵥ toVec 2 ([1, 0] : List ℂ)) i := by
  have hM : ActsAs ([1, 0] : List ℂ).length (matvec exJordan) exJordan.f := actsAs_matvec exJordan rfl rfl
  have hX : ExhaustedA (matvec exJordan) sqrtNorm ([1, 0] : List ℂ) 1 :=
    exhaustedA_one_of_eigen sqrtNorm_contract hM exJordan_eigen
  have hC := expm_contract_of_exact (expmTrue_exact (𝕜 := ℂ))
  obtain ⟨r, hr⟩ := general_returns (Afun := matvec exJordan) (deigh := triv1) (dexp := id) sqrtNorm_contract exJordanV_pos (le_refl 1) hC
    Complex.I
  exact ⟨r, sqrtNorm_contract, expmTrue_exact, hC, hM, hX, hr,
    (expm_general_matrix_exp sqrtNorm_contract expmTrue_exact rfl rfl hM hX hr).2⟩

end Ptn.C15

import PtnModel.Props.C02Evo
import PtnModel.Proofs.HistX
import PtnModel.Proofs.ChainExamples
/-!
# Property C02, creating operations: every history that starts from NOTHING keeps the invariant

`Props/C02.lean` / `Props/C02Evo.lean` prove that the *updating and combining* operations keep `poolWF` and had to assume a
well-formed initial pool.  This file closes that gap: the operations that *create* objects (`Model/OpsX.lean`) produce
well-formed objects, so every pool reachable **from the empty pool** by any sequence of creating and updating operations
satisfies the invariant of C02 ("after any sequence of public operations that create or update an MPS or MPO
(construction, ..., graph-to-MPO conversion, Hamiltonian constructors, tensor splitting, ...)").

* `new_mps_wf`, `new_mpo_wf`     : `MPS(qd, qD, fill=x)`, `MPO(qd, qD, fill=x)` for every number `x`, every charge layout;
* `identity_wf`                  : `MPO.identity(qd, L, scale)`;
* `from_opgraph_wf`              : EVERY MPO returned by `MPO.from_opgraph` (any graph, operator map, charges);
* `hamiltonian_wf`               : every MPO returned by a constructor of `hamiltonian.py` (translated local chains: XXZ spin-1/2
                                   and spin-1, Bose-Hubbard, Fermi-Hubbard; Ising automaton; linear fermionic; both molecular
                                   constructions, spinless and spin-orbital), and `hamiltonian_is_from_opgraph`: such an MPO
                                   is the result of the history operation `fromOpGraph` on the constructor's graph;
* `resplit_wf`                   : merging two neighbouring tensors and splitting them again (`split_mps_tensor`), every
                                   tolerance and singular-value distribution;
* `xstep_wf`, `xrun_wf`          : one call / any history of creating and updating operations keeps `poolWF`;
* `xrun_wf_from_empty`           : ... in particular every pool reachable from `[]`.

Side conditions (`XOK`): those of `Props/C02Evo.lean` for evolution calls (`EvoOK`), and for `resplit` a non-empty physical
charge list and a non-empty left bond (a merged matrix without rows is the only input on which `split_matrix_svd` returns
an ill-formed triple; every object built by the constructors above from non-empty charge lists satisfies it).
-/
set_option linter.unusedSectionVars false
namespace Ptn.C02
open Ptn.Hist Ptn.HistWf Ptn.BondOps Ptn.Ortho Ptn.Krylov Ptn.Evo

/-! ## the creating operations -/

section ctor
variable {κ : Type} [CommRing κ] [DecidableEq κ]

/-- **`MPS(qd, qD, fill=x)`** is well formed: the sparsity mask of the constructor. -/
theorem new_mps_wf {qd : List Int} {qD : List (List Int)} {x : κ} {ψ : MPS κ} (h : MPS.filled qd qD x = .ok ψ) :
    ψ.wellFormed = true := filledMps_wf h

/-- **`MPO(qd, qD, fill=x)`** is well formed. -/
theorem new_mpo_wf {qd : List Int} {qD : List (List Int)} {x : κ} {o : MPO κ} (h : MPO.filled qd qD x = .ok o) :
    o.wellFormed = true := filledMpo_wf h

/-- **`MPO.identity(qd, L, scale)`** is well formed (every `qd`, `L`, `scale`). -/
theorem identity_wf (qd : List Int) (L : Nat) (scale : κ) : (MPO.identity qd L scale).wellFormed = true :=
  HistWf.identity_wf qd L scale

/-- **`MPO.from_opgraph`**: every MPO it returns is well formed -- charge lists of the right lengths (layer walk) and block
sparsity (the code's own final assertion); no hypothesis on the graph, the operator map or the charges. -/
theorem from_opgraph_wf {qd : List Int} {g : Og.Graph κ} {opmap : Og.OpMap κ} {on : Bool} {out : Og.MpoOut κ}
    (h : Og.fromOpgraph qd g opmap on = .ok out) : (mpoOfOut qd out).wellFormed = true := fromOpgraph_wf h

/-- **Hamiltonian constructors**: whenever a constructor of `hamiltonian.py` returns, its MPO is well formed. -/
theorem hamiltonian_wf :
    (∀ (lat : Ham.Lattice κ) (L : Int) (b : Ham.Built κ), Ham.localOpchainsToMpo lat L = .ok b →
      (mpoOfOut b.qd b.mpo).wellFormed = true) ∧
    (∀ (L : Int) (J h g : κ) (b : Ham.Built κ), Ham.isingBuild L J h g = .ok b → (mpoOfOut b.qd b.mpo).wellFormed = true) ∧
    (∀ (coeff : List κ) (create : Bool) (b : Ham.Built κ), Ham.linFermiBuild coeff create = .ok b →
      (mpoOfOut b.qd b.mpo).wellFormed = true) ∧
    (∀ (c : Ham.Consts κ) (tkin : List (List κ)) (vint : List (List (List (List κ)))) (b : Ham.Built κ),
      Ham.molBuildOpt c tkin vint = .ok b → (mpoOfOut b.qd b.mpo).wellFormed = true) ∧
    (∀ (c : Ham.Consts κ) (tkin : List (List κ)) (vint : List (List (List (List κ)))) (b : Ham.Built κ),
      Ham.spinMolBuildOpt c tkin vint = .ok b → (mpoOfOut b.qd b.mpo).wellFormed = true) ∧
    (∀ (c : Ham.Consts κ) (tkin : List (List κ)) (vint : List (List (List (List κ)))) (r : Ham.MolNodes × Ham.Built κ),
      Ham.molBuildExplicit c tkin vint = .ok r → (mpoOfOut r.2.qd r.2.mpo).wellFormed = true) ∧
    (∀ (c : Ham.Consts κ) (tkin : List (List κ)) (vint : List (List (List (List κ)))) (r : Ham.SpinNodes × Ham.Built κ),
      Ham.spinMolBuildExplicit c tkin vint = .ok r → (mpoOfOut r.2.qd r.2.mpo).wellFormed = true) :=
  ⟨fun _ _ _ h => localOpchainsToMpo_wf h, fun _ _ _ _ _ h => isingBuild_wf h, fun _ _ _ h => linFermiBuild_wf h,
   fun _ _ _ _ h => molBuildOpt_wf h, fun _ _ _ _ h => spinMolBuildOpt_wf h, fun _ _ _ _ h => molBuildExplicit_wf h,
   fun _ _ _ _ h => spinMolBuildExplicit_wf h⟩

end ctor

/-! ## histories of creating and updating operations -/

variable {𝕂 : Type} [RCLike 𝕂] [DecidableEq 𝕂]

/-- **tensor splitting**: `resplit` keeps well-formedness (SVD shape clause; non-empty physical charges and left bond). -/
theorem resplit_wf {k : StepKernels 𝕂 ℝ} (hsvd : ∀ B, SvdShapeAt k.svd.dsvd B) {ψ ψ' : MPS 𝕂} {site distr : Nat}
    {tol : ℝ} (hψ : ψ.wellFormed = true) (hd : 0 < ψ.qd.length) (ha : 0 < (ψ.qD.getD site []).length)
    (h : resplitMps k ψ site distr tol = .ok ψ') : ψ'.wellFormed = true :=
  HistWf.resplit_wf hsvd hψ hd ha h

/-- side condition of a call: `EvoOK` for the operations of `Model/Ops.lean`; for `resplit` the merged matrix has rows -/
def XOK (p : Pool 𝕂) : XOp 𝕂 ℝ → Prop
  | .base op => EvoOK p op
  | .resplit i site _ _ => ∀ ψ, p[i]? = some (.mps ψ) → 0 < ψ.qd.length ∧ 0 < (ψ.qD.getD site []).length
  | _ => True

/-- output condition of a call (`ScaleOK` for a left-mode `compress`) -/
def XScaleOK : XOp 𝕂 ℝ → List ℝ → Prop
  | .base op, out => ScaleOK op out
  | _, _ => True

/-- **one call of ANY creating or updating operation keeps the invariant.** -/
theorem xstep_wf {k : StepKernels 𝕂 ℝ} (hk : KernelShapes k) (habs : k.dabs 0 = 0) (hn0 : ¬ 0 < k.cnorm [])
    {p p' : Pool 𝕂} {op : XOp 𝕂 ℝ} {out : List ℝ} (hp : poolWF p = true) (hc : XOK p op)
    (h : xstep k p op = .ok (p', out)) (hsc : XScaleOK op out) : poolWF p' = true := by
  cases op with
  | base op => exact step_wf_all hk habs hn0 hp hc h hsc
  | newMps qd qD x =>
    simp only [xstep, Dense.bind_ok, Dense.pure_ok, Prod.mk.injEq] at h
    obtain ⟨ψ, hψ, rfl, _⟩ := h
    exact poolWF_append hp (o := .mps ψ) (new_mps_wf hψ)
  | newMpo qd qD x =>
    simp only [xstep, Dense.bind_ok, Dense.pure_ok, Prod.mk.injEq] at h
    obtain ⟨o, ho, rfl, _⟩ := h
    exact poolWF_append hp (o := .mpo o) (new_mpo_wf ho)
  | identity qd L scale =>
    simp only [xstep, Except.ok.injEq, Prod.mk.injEq] at h
    obtain ⟨rfl, _⟩ := h
    exact poolWF_append hp (o := .mpo (MPO.identity qd L scale)) (identity_wf qd L scale)
  | fromOpGraph qd g opmap =>
    simp only [xstep, Dense.bind_ok, Dense.pure_ok, Prod.mk.injEq] at h
    obtain ⟨out', ho, rfl, _⟩ := h
    exact poolWF_append hp (o := .mpo (mpoOfOut qd out')) (from_opgraph_wf ho)
  | resplit i site distr tol =>
    simp only [xstep] at h
    split at h
    · rename_i ψ hi
      simp only [Dense.bind_ok, Dense.pure_ok, Prod.mk.injEq] at h
      obtain ⟨ψ', hr, rfl, _⟩ := h
      obtain ⟨hd, ha⟩ := hc ψ hi
      exact poolWF_set hp i (o := .mps ψ') (resplit_wf hk.svd (poolWF_get hp hi) hd ha hr)
    · cases h

theorem xrun_cons_ok {p p' : Pool 𝕂} {k : StepKernels 𝕂 ℝ} {op : XOp 𝕂 ℝ} {h : XHistory 𝕂 ℝ} :
    xrun p ((k, op) :: h) = .ok p' ↔ ∃ p1 out, xstep k p op = .ok (p1, out) ∧ xrun p1 h = .ok p' := by
  simp only [xrun]
  cases hs : xstep k p op with
  | error e => simp
  | ok r =>
    obtain ⟨p1, out⟩ := r
    simp

/-- the side conditions along a history -/
def AllOKXRun : Pool 𝕂 → XHistory 𝕂 ℝ → Prop
  | _, [] => True
  | p, (k, op) :: h => XOK p op ∧ ∀ p1 out, xstep k p op = .ok (p1, out) → XScaleOK op out ∧ AllOKXRun p1 h

/-- **every pool reached by a history of creating and updating operations satisfies the invariant.** -/
theorem xrun_wf {p p' : Pool 𝕂} {h : XHistory 𝕂 ℝ}
    (hk : ∀ kop ∈ h, KernelShapes kop.1 ∧ kop.1.dabs 0 = 0 ∧ ¬ 0 < kop.1.cnorm [])
    (hp : poolWF p = true) (hr : xrun p h = .ok p') (hok : AllOKXRun p h) : poolWF p' = true := by
  induction h generalizing p with
  | nil =>
    simp only [xrun, Except.ok.injEq] at hr
    rw [← hr]; exact hp
  | cons kop h ih =>
    obtain ⟨k, op⟩ := kop
    obtain ⟨p1, out, hs, hr'⟩ := xrun_cons_ok.1 hr
    obtain ⟨hc, hrest⟩ := hok
    obtain ⟨n1, n2⟩ := hrest p1 out hs
    obtain ⟨k1, k2, k3⟩ := hk (k, op) List.mem_cons_self
    exact ih (fun kop hk' => hk kop (List.mem_cons_of_mem _ hk')) (xstep_wf k1 k2 k3 hp hc hs n1) hr' n2

/-- **C02 from nothing**: every pool reachable from the EMPTY pool is well formed -- no assumption on initial objects. -/
theorem xrun_wf_from_empty {p' : Pool 𝕂} {h : XHistory 𝕂 ℝ}
    (hk : ∀ kop ∈ h, KernelShapes kop.1 ∧ kop.1.dabs 0 = 0 ∧ ¬ 0 < kop.1.cnorm [])
    (hr : xrun ([] : Pool 𝕂) h = .ok p') (hok : AllOKXRun ([] : Pool 𝕂) h) : poolWF p' = true :=
  xrun_wf hk rfl hr hok

/-- the operations of `Model/Ops.lean` embed: a history of `base` operations is a history of `Hist.run` -/
theorem xrun_base {p : Pool 𝕂} (h : History 𝕂 ℝ) :
    xrun p (h.map fun kop => (kop.1, XOp.base kop.2)) = run p h := by
  induction h generalizing p with
  | nil => rfl
  | cons kop h ih =>
    obtain ⟨k, op⟩ := kop
    simp only [List.map_cons, xrun, run, xstep]
    cases step k p op with
    | error e => rfl
    | ok r => exact ih

/-! ## A.3 for `compress`, contracts: the hypotheses `nrm ≠ 0`, `scale ≠ 0` of `boundary_kept_compress_partial` discharged -/

/-- **A.3 (compress, full)** `boundary_kept_compress`: for a NON-ZERO admissible state, `0 ≤ tol < 1` and the kernel contracts
of C13, `compress` in either mode keeps the leading and trailing bond charges `qD[0]`, `qD[L]`.  (`nrm ≠ 0` because
`nrm² = Σ |ψ_s|²`, C13.compress_returns_norm; `scale ≠ 0` because `(1 - tol)^L ≤ scale²`, C13.compress_scale_bounds.) -/
theorem boundary_kept_compress [HasConj 𝕂] {dqr : Mat 𝕂 → Mat 𝕂 × Mat 𝕂} {ks : MPS.SvdKernels 𝕂 ℝ} {dabs : 𝕂 → ℝ}
    {divR : 𝕂 → ℝ → 𝕂} (hq : C01.QRKernel dqr) (hs : Compress.SvdKernel ks) (ha : Compress.AbsContract dabs divR)
    (hre : RealLike.re (0 : 𝕂) = (0 : ℝ)) (habs : dabs 0 = 0)
    {ψ ψ' : MPS 𝕂} {tol nrm sc : ℝ} {left : Bool} (hadm : Admissible ψ) (h0 : 0 ≤ tol) (h1 : tol < 1)
    (h : MPS.compress dqr ks dabs divR ψ tol left = .ok (ψ', nrm, sc))
    {σ : List Nat} (hσ : σ ∈ Env.digitsU ψ.qd.length ψ.A.length) (hne : ψ.amp σ ≠ 0) :
    ψ'.qD.head? = ψ.qD.head? ∧ ψ'.qD.getLast? = ψ.qD.getLast? := by
  have hn : nrm ≠ 0 := by
    intro hz
    obtain ⟨e, -⟩ := C13.compress_returns_norm hq hs ha hadm h0 h1 h
    rw [hz] at e
    have hsum : ∑ s ∈ Env.digitsU ψ.qd.length ψ.A.length, ‖ψ.amp s‖ ^ 2 = 0 := by
      rw [← e]; norm_num
    have := (Finset.sum_eq_zero_iff_of_nonneg (fun s _ => by positivity)).1 hsum σ hσ
    rw [pow_eq_zero_iff (by norm_num), norm_eq_zero] at this
    exact hne this
  have hsc : sc ≠ 0 := by
    intro hz
    obtain ⟨-, -, s2, -, -⟩ := C13.compress_scale_bounds hq hs ha hadm h0 h1 h
    rw [hz] at s2
    have : 0 < (1 - tol) ^ ψ.A.length := pow_pos (by linarith) _
    simp at s2
    linarith
  exact boundary_kept_compress_partial hq.contract.shape (fun B => hs.svd.shape B) hre habs h hn hsc

/-- non-vacuity of `boundary_kept_compress` including the run: `exψ = |01⟩ + |10⟩` over `ℝ`, `tol = 1/4`, both modes -/
example (left : Bool) : ∃ (ψ' : MPS ℝ) (nrm sc : ℝ),
    MPS.compress QrExists.fullQR (Compress.exKernels ℝ) (fun z : ℝ => ‖z‖) (fun z r => z / (r : ℝ)) exψ (1 / 4) left =
      .ok (ψ', nrm, sc) ∧ ψ'.qD.head? = exψ.qD.head? ∧ ψ'.qD.getLast? = exψ.qD.getLast? := by
  obtain ⟨ψ', nrm, sc, hrun⟩ := C13.compress_ok (dabs := fun z : ℝ => ‖z‖) (divR := fun z r => z / (r : ℝ))
    C01.fullQR_kernel (C13.exKernels_kernel (𝕜 := ℝ)) exψ_adm (by norm_num : (0 : ℝ) ≤ 1 / 4) (by norm_num) left
  have hne : ∑ s ∈ Env.digitsU exψ.qd.length exψ.A.length, ‖exψ.amp s‖ ^ 2 ≠ 0 := by
    rw [exψ_normsq]; norm_num
  obtain ⟨σ, hσ, h0⟩ := Finset.exists_ne_zero_of_sum_ne_zero hne
  have hamp : exψ.amp σ ≠ 0 := fun h => h0 (by rw [h]; simp)
  exact ⟨ψ', nrm, sc, hrun, boundary_kept_compress C01.fullQR_kernel C13.exKernels_kernel C13.exAbs_contract
    (by simp [RealLike.re]) (by simp) exψ_adm (by norm_num) (by norm_num) hrun hσ hamp⟩

/-! ## Non-vacuity: a history from the empty pool over `ℂ`

`MPS([0, 1], [[0], [0, 1], [1]], fill=1)`, `MPO.identity([0, 1], 2, 1)`, `MPO([0, 1], [[0], [0], [0]], fill=2)`, a copy, and
`zero_qnumbers()` on the copy -- kernels `exKS` of `Props/C02Evo.lean`.  (Runs with QR / SVD / Krylov steps are witnessed
by the correspondence check, whose histories now start from the empty pool in a share of the cases.) -/

noncomputable def exXHist : XHistory ℂ ℝ :=
  [(exKS, .newMps [0, 1] [[0], [0, 1], [1]] 1), (exKS, .identity [0, 1] 2 1), (exKS, .newMpo [0, 1] [[0], [0], [0]] 2),
   (exKS, .base (.copy 0)), (exKS, .base (.zeroQ 3))]

example : ∃ p', xrun ([] : Pool ℂ) exXHist = .ok p' ∧ p'.length = 4 ∧ poolWF p' = true := by
  have h1 : ∃ ψ, MPS.filled [0, 1] [[0], [0, 1], [1]] (1 : ℂ) = .ok ψ := ⟨_, rfl⟩
  obtain ⟨ψ, hψ⟩ := h1
  have h2 : ∃ o, MPO.filled [0, 1] [[0], [0], [0]] (2 : ℂ) = .ok o := ⟨_, rfl⟩
  obtain ⟨o, ho⟩ := h2
  have s1 : xstep exKS ([] : Pool ℂ) (.newMps [0, 1] [[0], [0, 1], [1]] 1) = .ok ([.mps ψ], []) := by
    simp only [xstep, hψ]; rfl
  have s2 : xstep exKS [.mps ψ] (.identity [0, 1] 2 1) = .ok ([.mps ψ, .mpo (MPO.identity [0, 1] 2 1)], []) := rfl
  have s3 : xstep exKS [.mps ψ, .mpo (MPO.identity [0, 1] 2 1)] (.newMpo [0, 1] [[0], [0], [0]] 2) =
      .ok ([.mps ψ, .mpo (MPO.identity [0, 1] 2 1), .mpo o], []) := by
    simp only [xstep, ho]; rfl
  have s4 : xstep exKS [.mps ψ, .mpo (MPO.identity [0, 1] 2 1), .mpo o] (.base (.copy 0)) =
      .ok ([.mps ψ, .mpo (MPO.identity [0, 1] 2 1), .mpo o, .mps ψ], []) := rfl
  have s5 : xstep exKS [.mps ψ, .mpo (MPO.identity [0, 1] 2 1), .mpo o, .mps ψ] (.base (.zeroQ 3)) =
      .ok ([.mps ψ, .mpo (MPO.identity [0, 1] 2 1), .mpo o, (Obj.mps ψ).zeroQ], []) := rfl
  have hr : xrun ([] : Pool ℂ) exXHist = .ok [.mps ψ, .mpo (MPO.identity [0, 1] 2 1), .mpo o, (Obj.mps ψ).zeroQ] :=
    xrun_cons_ok.2 ⟨_, _, s1, xrun_cons_ok.2 ⟨_, _, s2, xrun_cons_ok.2 ⟨_, _, s3, xrun_cons_ok.2 ⟨_, _, s4,
      xrun_cons_ok.2 ⟨_, _, s5, rfl⟩⟩⟩⟩⟩
  refine ⟨_, hr, rfl, xrun_wf_from_empty ?_ hr ?_⟩
  · intro kop hk
    simp only [exXHist, List.mem_cons, List.not_mem_nil, or_false] at hk
    rcases hk with rfl | rfl | rfl | rfl | rfl <;> exact ⟨exKS_shapes, by simp [exKS], exKS_norm0⟩
  · exact ⟨trivial, fun _ _ _ => ⟨trivial, trivial, fun _ _ _ => ⟨trivial, trivial, fun _ _ _ => ⟨trivial, trivial,
      fun _ _ _ => ⟨trivial, trivial, fun _ _ _ => ⟨trivial, trivial⟩⟩⟩⟩⟩⟩

/-- non-vacuity of `from_opgraph_wf` / `hamiltonian_wf`: the graph of the single chain `3 · op₅` on one site with a diagonal
operator (the example of `Props/C05Total.lean`) -/
example : ∃ out, Og.fromOpgraph [0, 0] Ch.exGraph ([(5, [[1, 0], [0, 4]])] : Og.OpMap Int) false = .ok out ∧
    (mpoOfOut [0, 0] out).wellFormed = true :=
  ⟨_, rfl, from_opgraph_wf (κ := Int) (qd := [0, 0]) (g := Ch.exGraph) (opmap := [(5, [[1, 0], [0, 4]])]) (on := false) rfl⟩

end Ptn.C02

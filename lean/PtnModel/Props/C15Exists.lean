import PtnModel.Proofs.SpecEigh
import PtnModel.Proofs.SpecEighCtx
import PtnModel.Props.C15Exact
/-!
# C15 — an `eigh_tridiagonal` kernel satisfying the contract exists

The theorems of `Props/C15.lean`, `Props/C15Exact.lean` (and the sweeps of C08/C09/C10 through `Evo.SweepCtx.eigh`) take
the contract of `scipy.linalg.eigh_tridiagonal` as a hypothesis: `C15.EighContract deigh` (for all symmetric tridiagonal
inputs) or its per-call form `C15.EighAt …`: eigenvalues `w` ascending, `U` real orthogonal (`UᵀU = UUᵀ = 1`),
`T = U diag(w) Uᵀ`, shapes `k`, `k × k`.

Here: such a kernel EXISTS (spectral theorem for real symmetric matrices, Mathlib's
`Matrix.IsHermitian.spectral_theorem`, columns re-ordered with `Tuple.sort` so that the eigenvalues ascend), so none of
those theorems is vacuous because of that hypothesis, and for the (noncomputable) kernel `eighExact` the hypothesis
disappears:

* `eigh_spec_exists`        : every `alpha beta : List ℝ` has an output satisfying `EighSpec alpha beta`;
* `eigh_contract_exists`    : `∃ deigh, EighContract deigh` (even without the side condition `|beta| = |alpha| − 1`);
* `eighExact` (`Proofs/SpecEigh.lean`), `eighExact_contract`, `eighExact_at` : a chosen kernel; `eighExact_at` is literally
  the field `eigh` of `Evo.SweepCtx` for any kernel record with `deigh = eighExact`;
* `sweepCtx_eighExact`      : for such a record the context `Evo.SweepCtx` of the sweep theorems of C08/C09/C10 holds for
  EVERY number of Lanczos iterations (the concrete kernels `Evo.exKE` over `ℂ`: `Evo.exKE_ctx`), whereas the example
  kernels `Evo.exK` used so far satisfy it for `numiter = 1` only;
* `ritz_bounds_exists_kernel` : ∃ kernel satisfying the contract such that for EVERY scalar field, Hermitian linear map,
  norm oracle, start vector, iteration count: `μ ≤ θ₀ ≤ ⟪v, A v⟫ / ‖v‖²` for every lower bound `μ` of the quadratic form;
* `ritz_bounds_eighExact`, `ritz_vectors_eighExact`, `expm_norm_eighExact`, `ritz_exact_eighExact`,
  `expm_hermitian_matrix_exp_eighExact` : the theorems of C15 / C15Exact for the model run with `eighExact`, no `EighAt`
  hypothesis;
* `hermitian_returns_eighExact` : with `eighExact` both `eigh_krylov` and the Hermitian `expm_krylov` return whenever the
  start vector has positive norm and `numiter ≥ 1` (the shape checks of the model never fail).

`eighExact` is noncomputable (`Classical.choose`): this is an existence statement about the contract, not a model of
LAPACK's `stemr`.
-/
set_option linter.unusedSectionVars false

namespace Ptn.C15
open Ptn Ptn.Krylov Finset Matrix

/-- for EVERY input some output satisfies the per-input contract of `eigh_tridiagonal` -/
theorem eigh_spec_exists (alpha beta : List ℝ) : ∃ res : List ℝ × Mat ℝ, EighSpec alpha beta res :=
  eighSpec_exists alpha beta

/-- **Existence of the kernel.**  There is a function `deigh` with `EighContract deigh`: for all real `alpha` (length
`m`) and `beta` (length `m − 1`) it returns `(w, U)` with `|w| = m`, `U` of shape `m × m`, `w` ascending,
`UᵀU = UUᵀ = 1` and `tridiag alpha beta = U diag(w) Uᵀ`. -/
theorem eigh_contract_exists : ∃ deigh : List ℝ → List ℝ → List ℝ × Mat ℝ, EighContract deigh :=
  ⟨eighExact, eighExact_contract⟩

variable {𝕜 : Type} [RCLike 𝕜]
local notation "conj" => starRingEnd 𝕜

/-- the per-call contract for `eighExact` — the field `eigh` of `Evo.SweepCtx` when `k.deigh = eighExact` -/
theorem eighExact_at (Afun : List 𝕜 → List 𝕜) (dnorm : List 𝕜 → ℝ) (vstart : List 𝕜) (numiter : Nat) :
    EighAt Afun dnorm eighExact vstart numiter :=
  eighExact_contract.at Afun dnorm vstart numiter

/-- **The context of the sweep theorems, every iteration count.**  For a kernel record whose `eigh_tridiagonal` oracle is
`eighExact`, the QR and norm contracts and the hypotheses on the Hamiltonian give `Evo.SweepCtx k H qd numiter` for every
`numiter` — the `eigh` hypothesis of the theorems of C08/C09/C10 is discharged. -/
theorem sweepCtx_eighExact [DecidableEq 𝕜] {k : Evo.EvoKernels 𝕜 ℝ} {H : MPO 𝕜} {qd : List Int}
    (hk : k.deigh = eighExact) (hqr : C01.QRKernel k.dqr) (hn : NormContract k.cnorm)
    (hH : C04.MPO.Shaped H qd.length) (hh : C04.MPO.DenseHermitian H qd.length) (hd : 0 < qd.length) (numiter : Nat) :
    Evo.SweepCtx k H qd numiter :=
  Evo.sweepCtx_of_eighExact hk hqr hn hH hh hd numiter

/-- **Two-sided Ritz bound, no kernel hypothesis.**  For the model run with `eighExact`: every lower bound `μ` of the
quadratic form of a linear Hermitian map is `≤` the lowest Ritz value, which is `≤` the Rayleigh quotient of the start
vector; every iteration count. -/
theorem ritz_bounds_eighExact {Afun : List 𝕜 → List 𝕜} {dnorm : List 𝕜 → ℝ}
    (hN : NormContract dnorm) {vstart : List 𝕜} {numiter numeig : Nat} {M : Nat → Nat → 𝕜}
    (hM : ActsAs vstart.length Afun M)
    (hH : ∀ i j, i < vstart.length → j < vstart.length → conj (M i j) = M j i) (hne : 1 ≤ numeig) {μ : ℝ}
    (hμ : ∀ x : List 𝕜, x.length = vstart.length → μ * sqNorm x ≤ RCLike.re (vdot vstart.length x (Afun x)))
    {ws : List ℝ} {u : Mat 𝕜} (h : eighKrylov Afun dnorm eighExact vstart numiter numeig = .ok (ws, u)) :
    μ ≤ ws.getD 0 0 ∧ 0 < sqNorm vstart ∧
    ws.getD 0 0 ≤ RCLike.re (vdot vstart.length vstart (Afun vstart)) / sqNorm vstart :=
  have hu := ritz_upper hN (hM.isHermitian hH) (eighExact_at Afun dnorm vstart numiter) hne h
  ⟨ritz_lower hN hM hH (eighExact_at Afun dnorm vstart numiter) hne hμ h, hu.1, hu.2.2⟩

/-- **Two-sided Ritz bound with an existentially quantified kernel.**  There is a kernel satisfying the contract of
`eigh_tridiagonal` such that for every scalar field `𝕜` (`ℝ` or `ℂ`), every linear Hermitian map, norm oracle, start
vector, iteration count and every lower bound `μ` of the quadratic form: whenever the model's `eigh_krylov` returns,
`μ ≤ θ₀ ≤ ⟪v, A v⟫ / ‖v‖²`. -/
theorem ritz_bounds_exists_kernel : ∃ deigh : List ℝ → List ℝ → List ℝ × Mat ℝ, EighContract deigh ∧
    ∀ (𝕜 : Type) [RCLike 𝕜] (Afun : List 𝕜 → List 𝕜) (dnorm : List 𝕜 → ℝ), NormContract dnorm →
    ∀ (vstart : List 𝕜) (numiter numeig : Nat) (M : Nat → Nat → 𝕜), ActsAs vstart.length Afun M →
    (∀ i j, i < vstart.length → j < vstart.length → (starRingEnd 𝕜) (M i j) = M j i) → 1 ≤ numeig →
    ∀ μ : ℝ, (∀ x : List 𝕜, x.length = vstart.length →
      μ * sqNorm x ≤ RCLike.re (vdot vstart.length x (Afun x))) →
    ∀ (ws : List ℝ) (u : Mat 𝕜), eighKrylov Afun dnorm deigh vstart numiter numeig = .ok (ws, u) →
      μ ≤ ws.getD 0 0 ∧ 0 < sqNorm vstart ∧
      ws.getD 0 0 ≤ RCLike.re (vdot vstart.length vstart (Afun vstart)) / sqNorm vstart :=
  ⟨eighExact, eighExact_contract, fun _ _ _ _ hN _ _ _ _ hM hH hne _ hμ _ _ h =>
    ritz_bounds_eighExact hN hM hH hne hμ h⟩

/-- `ritz_vectors` for the model run with `eighExact` -/
theorem ritz_vectors_eighExact {Afun : List 𝕜 → List 𝕜} {dnorm : List 𝕜 → ℝ}
    (hN : NormContract dnorm) {vstart : List 𝕜} {numiter numeig : Nat} {M : Nat → Nat → 𝕜}
    (hM : ActsAs vstart.length Afun M)
    (hH : ∀ i j, i < vstart.length → j < vstart.length → conj (M i j) = M j i)
    {ws : List ℝ} {u : Mat 𝕜} (h : eighKrylov Afun dnorm eighExact vstart numiter numeig = .ok (ws, u)) :
    u.m = vstart.length ∧ ws.length = u.n ∧
    ∀ e e', e < u.n → e' < u.n →
      vdot u.m (matCol u e) (matCol u e') = (if e = e' then 1 else 0) ∧
      vdot u.m (matCol u e) (Afun (matCol u e')) = if e = e' then ((ws.getD e 0 : ℝ) : 𝕜) else 0 :=
  ritz_vectors hN hM hH (eighExact_at Afun dnorm vstart numiter) h

/-- `expm_norm` for the model run with `eighExact` -/
theorem expm_norm_eighExact {Afun : List 𝕜 → List 𝕜} {dnorm : List 𝕜 → ℝ} {dexp : 𝕜 → 𝕜} {dexpm : Mat 𝕜 → Mat 𝕜}
    (hN : NormContract dnorm) {v : List 𝕜} {numiter : Nat} (hA : IsHermitian v.length Afun)
    (hexp : ∀ x : ℝ, ‖dexp (RCLike.I * (x : 𝕜))‖ = 1) {t : ℝ}
    {r : List 𝕜} (h : expmKrylov Afun dnorm eighExact dexp dexpm v (RCLike.I * (t : 𝕜)) numiter true = .ok r) :
    r.length = v.length ∧ sqNorm r = sqNorm v ∧ dnorm r = dnorm v :=
  expm_norm hN hA (eighExact_at Afun dnorm v numiter) hexp h

/-- `ritz_exact` for the model run with `eighExact` -/
theorem ritz_exact_eighExact {Afun : List 𝕜 → List 𝕜} {dnorm : List 𝕜 → ℝ}
    (hN : NormContract dnorm) {vstart : List 𝕜} {numiter numeig : Nat} {M : Nat → Nat → 𝕜}
    (hM : ActsAs vstart.length Afun M)
    (hH : ∀ i j, i < vstart.length → j < vstart.length → conj (M i j) = M j i)
    (hX : Exhausted Afun dnorm vstart numiter) (hne : 1 ≤ numeig)
    {ws : List ℝ} {u : Mat 𝕜} (h : eighKrylov Afun dnorm eighExact vstart numiter numeig = .ok (ws, u)) :
    (∀ e, e < u.n → ∀ i, i < vstart.length →
      vget (Afun (matCol u e)) i = ((ws.getD e 0 : ℝ) : 𝕜) * vget (matCol u e) i) ∧
    (∀ (x : List 𝕜) (lam : 𝕜), x.length = vstart.length →
      (∀ i, i < vstart.length → vget (Afun x) i = lam * vget x i) → vdot vstart.length x vstart ≠ 0 →
      ∃ r : ℝ, lam = (r : 𝕜) ∧ ws.getD 0 0 ≤ r) ∧
    0 < u.n ∧ vdot vstart.length (matCol u 0) vstart ≠ 0 :=
  ritz_exact hN hM hH (eighExact_at Afun dnorm vstart numiter) hX hne h

/-- `expm_hermitian_matrix_exp` for the model run with `eighExact`: exhausted Krylov space, `dexp = NormedSpace.exp` ⟹ the
Hermitian branch returns Mathlib's `exp(dt • A) *ᵥ v` -/
theorem expm_hermitian_matrix_exp_eighExact {Afun : List 𝕜 → List 𝕜} {dnorm : List 𝕜 → ℝ} {dexp : 𝕜 → 𝕜}
    {dexpm : Mat 𝕜 → Mat 𝕜} (hN : NormContract dnorm) {v : List 𝕜} {numiter : Nat} {M : Nat → Nat → 𝕜}
    (hM : ActsAs v.length Afun M) (hH : ∀ i j, i < v.length → j < v.length → conj (M i j) = M j i)
    (hX : Exhausted Afun dnorm v numiter)
    (hexp : ∀ z : 𝕜, dexp z = NormedSpace.exp z) {dt : 𝕜} {r : List 𝕜}
    (h : expmKrylov Afun dnorm eighExact dexp dexpm v dt numiter true = .ok r) :
    r.length = v.length ∧
    ∀ i : Fin v.length, vget r i = (NormedSpace.exp (dt • toMatrix v.length M) *ᵥ toVec v.length v) i :=
  expm_hermitian_matrix_exp hN hM hH (eighExact_at Afun dnorm v numiter) hX hexp h

/-- **The Hermitian calls return.**  With `eighExact`, `eigh_krylov` and the Hermitian branch of `expm_krylov` return for
every map, every norm oracle satisfying its contract, every start vector of positive norm (hence not empty: F11 caps the
iteration count at `len v`) and every `numiter ≥ 1`: the shape checks on the output of
`eigh_tridiagonal` never fail. -/
theorem hermitian_returns_eighExact (Afun : List 𝕜 → List 𝕜) (dnorm : List 𝕜 → ℝ) (dexp : 𝕜 → 𝕜)
    (dexpm : Mat 𝕜 → Mat 𝕜) {v : List 𝕜} {numiter : Nat} (hN : NormContract dnorm) (hpos : 0 < dnorm v)
    (hm : 1 ≤ numiter) (numeig : Nat) (dt : 𝕜) :
    (∃ r, eighKrylov Afun dnorm eighExact v numiter numeig = .ok r) ∧
    ∃ r, expmKrylov Afun dnorm eighExact dexp dexpm v dt numiter true = .ok r := by
  obtain ⟨⟨alpha, beta, V⟩, hl⟩ := lanczos_isOk Afun dnorm hpos hm (hN.pos_dim hpos)
  have hE' := eighExact_spec alpha beta
  obtain ⟨h1, _, _, _, hVn⟩ := lanczos_sizes _ _ hl
  constructor
  · unfold eighKrylov
    rw [hl]
    simp only [bind, Except.bind]
    rw [if_neg (by rw [hVn, hE'.Um]; simp)]
    exact ⟨_, rfl⟩
  · unfold expmKrylov
    simp only [if_true]
    rw [hl]
    simp only [bind, Except.bind]
    rw [if_neg (by rw [hE'.Um]; omega), if_neg (by rw [hE'.wlen, hE'.Un]; simp), if_neg (by rw [hVn, hE'.Um]; simp)]
    exact ⟨_, rfl⟩

/-! ### non-vacuity -/

/-- the hypotheses of `ritz_bounds_eighExact` are jointly satisfiable with a non-trivial lower bound, the call returns, and
the conclusion applies: the Hermitian matrix `[[2, 1], [1, 2]]` (quadratic form `≥ 1 · ‖x‖²`), start vector `(1, 0)`, two
iterations (a genuine `2 × 2` eigenproblem for `eighExact`). -/
example : ∃ (Afun : List ℝ → List ℝ) (M : Nat → Nat → ℝ) (dnorm : List ℝ → ℝ) (vstart : List ℝ) (μ : ℝ),
    NormContract dnorm ∧ ActsAs vstart.length Afun M ∧
    (∀ i j, i < vstart.length → j < vstart.length → (starRingEnd ℝ) (M i j) = M j i) ∧
    (∀ x : List ℝ, x.length = vstart.length → μ * sqNorm x ≤ RCLike.re (vdot vstart.length x (Afun x))) ∧
    ∃ ws u, eighKrylov Afun dnorm eighExact vstart 2 1 = .ok (ws, u) ∧ μ ≤ ws.getD 0 0 := by
  let A : Mat ℝ := ⟨2, 2, fun i k => if i = k then 2 else 1⟩
  have hH : ∀ i j, i < 2 → j < 2 → (starRingEnd ℝ) (A.f i j) = A.f j i := by
    intro i k _ _
    simp only [A, RCLike.conj_to_real]
    by_cases h : i = k
    · subst h; rfl
    · rw [if_neg h, if_neg (Ne.symm h)]
  have hM : ActsAs 2 (matvec A) A.f := actsAs_matvec A rfl rfl
  have hμ : ∀ x : List ℝ, x.length = 2 → (1 : ℝ) * sqNorm x ≤ RCLike.re (vdot 2 x (matvec A x)) := by
    intro x hx
    match x, hx with
    | [a, b], _ =>
      have h1 : sqNorm [a, b] = a * a + b * b := by
        have := vdot_self (𝕜 := ℝ) [a, b]
        simp [vdot_eq_sum, Finset.sum_range_succ, vget] at this
        linarith
      have h2 : vdot 2 [a, b] (matvec A [a, b]) = a * (2 * a + b) + b * (a + 2 * b) := by
        rw [vdot_eq_sum]
        simp only [Finset.sum_range_succ, Finset.sum_range_zero, hM [a, b] rfl 0 (by omega), hM [a, b] rfl 1 (by omega)]
        simp [vget, A]
      rw [h1, h2]
      simp only [RCLike.re_to_real]
      nlinarith [sq_nonneg (a + b)]
  obtain ⟨⟨ws, u⟩, h⟩ := (hermitian_returns_eighExact (matvec A) (sqrtNorm (𝕜 := ℝ)) id id (v := [1, 0]) (numiter := 2)
    sqrtNorm_contract ((sqrtNorm_contract.pos_iff _).2 ⟨1, by simp, one_ne_zero⟩) (by omega) 1 0).1
  exact ⟨matvec A, A.f, sqrtNorm, [1, 0], 1, sqrtNorm_contract, hM, hH, hμ, ws, u, h,
    (ritz_bounds_eighExact (vstart := [1, 0]) sqrtNorm_contract hM hH (le_refl 1) hμ h).1⟩

/-- the hypotheses of `sweepCtx_eighExact` are satisfiable: the kernels `Evo.exKE` over `ℂ` (real-diagonal QR, 2-norm,
`eighExact`) with the Hermitian MPO `Z ⊗ 1 + 1 ⊗ Z` give the sweep context for every number of Lanczos iterations -/
example (numiter : Nat) : Evo.exKE.deigh = eighExact ∧ Evo.SweepCtx Evo.exKE Evo.exOC [0, 1] numiter :=
  ⟨rfl, Evo.exKE_ctx numiter⟩

end Ptn.C15

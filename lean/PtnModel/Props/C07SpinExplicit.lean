import PtnModel.Props.C07Explicit
import PtnModel.Props.C07Spin
import PtnModel.Proofs.SpinExplStruct
/-!
# Property C07, explicit (`optimize=False`) spin-orbital construction: never raises, valid layered graph, same operator

"... the bond-optimized and the explicit construction represent the same operator wherever both are defined."

`spin_molecular_hamiltonian_mpo(tkin, vint, optimize=False)` builds the node tables `SpinMolecularOpGraphNodes(L)` (keys `(i, σ)` resp.
`(i, σ, j, τ)`), wires them up in `generate_graph` and adds one edge per term in `_spin_molecular_hamiltonian_graph_add_term` with the
site operator computed by `SpinOperatorConverter.to_spin_operator` (model: `Model/HamiltonianSpinGraph.lean`, `spinMolExplicitGraph`,
`spinMolBuildExplicit`).  For every `L = len(tkin) ≥ 2` (the code's assertion; below it the constructor raises its `AssertionError`) and
all coefficient tensors:

* `spin_explicit_graph_valid`  -- the graph is built without exception (terminal look-ups, `OpGraph` constructor, every look-up, the two
  spin assertions and every `add_connect_edge` of the twelve edge loops of `generate_graph`; every look-up, assertion, `to_spin_operator`
  call and `add_connect_edge` of the `2 L²` hopping calls and of all interaction calls accepted by `get_vint_coeff`: fresh edge ids,
  existing nodes); it is `Valid` (duplicate-free dictionaries, passes `is_consistent`), layered with `L` layers (level = bond index of the
  node's table entry, source at level 0, sink at level `L`), of length `L`, the sink is its only node without an outgoing edge, and all
  operators are charge consistent w.r.t. the spin physical charges `spinQd` and the `(N, S_z)` node charges (`OpsCharged`).
* `spin_explicit_wiring_lookups_defined` -- the edge loops of `generate_graph` alone, for every `L`.
* `spin_explicit_term_paths`   -- the structure behind the denotation (`Forests`: left forest, right forest, one crossing edge per term);
  every hopping call `(i, j, σ)` and every accepted interaction call is ONE `add_connect_edge` from a left to a right node one layer apart
  whose crossing word is the pair word `pw` (operator id of the pair of modes `(2q, 2q+1)` at site `q`: `to_spin_operator` vs
  `to_spin_opchain`) of the Jordan-Wigner word of the term on the `2 L` modes `2 i + σ` (`hopF`, `intF`) -- the identity-padded word of the
  chain the bond-optimized enumeration creates for the same term.
* `spin_explicit_graph_words`, `spin_explicit_eq_optimized_words` -- `denF(explicit graph) w = Σ_terms coeff · [word(term) = w]`, which is the
  formal sum `denChainsRaw` of the optimized chain list (as sums: the hopping loops run in different orders); whenever the optimized
  constructor returns its graph has the same denotation.
* `spin_explicit_dense`, `spin_explicit_eq_optimized_dense` -- `spin_molecular_hamiltonian_mpo(…, optimize=False)` returns (shape assertion,
  graph, `is_consistent` assertion for `L ≤ 10`, `MPO.from_opgraph` with `compute_nid_map=True` incl. its `is_qsparse` assertion), its dense
  matrix (`MPO.elem`, `as_matrix()` dense and sparse path) is the sum of the enumerated chains = the documented second-quantized
  spin-orbital operator under the Jordan-Wigner matrices (`spinHamEntry`, `Props/C07Spin.lean`), and equals entry by entry that of the
  bond-optimized MPO whenever the latter is returned.
-/
set_option linter.unusedSectionVars false

namespace Ptn.C07
open Ptn Ptn.Og Ptn.Ham Ptn.Ch Ptn.Dense Ptn.Ham2 Ptn.Spin

variable {κ : Type} [CommRing κ] [DecidableEq κ]

/-- **The explicit spin-orbital graph is built without exception and is valid, layered, of length `L`, with the sink as its only dead end and
charge-consistent operators**, for every `L = len(tkin) ≥ 2` and all coefficient tensors; for `L < 2` the constructor raises its
`AssertionError`.  `sexplLevel L x` is the bond index of the table entry whose node has id `x`; `sexplGraph` is the node list of
`generate_graph` plus the consecutively numbered edges `sexplEdges` (wiring, hopping terms, accepted interaction terms). -/
theorem spin_explicit_graph_valid (c : Consts κ) (tkin : List (List κ)) (vint : List (List (List (List κ)))) :
    ((tkin.length : Int) < 2 → spinMolExplicitGraph c tkin vint = .error .assertion) ∧
    (2 ≤ (tkin.length : Int) →
      ∃ g, spinMolExplicitGraph c tkin vint = .ok (SpinNodes.init tkin.length, g) ∧ g = sexplGraph c tkin vint tkin.length ∧
        Valid g ∧ g.isConsistent = true ∧ NoDup g ∧
        g.nidTerminal = (0, (tkin.length : Int) + tkin.length - 1) ∧
        dKeys g.nodes = (SpinNodes.init tkin.length).nodeList.map (·.nid) ∧
        Lev g (sexplLevel tkin.length) ∧ sexplLevel tkin.length (g.term false) = 0 ∧
        sexplLevel tkin.length (g.term true) = tkin.length ∧
        g.length = .ok tkin.length ∧ SingleSink g ∧ AllOut g ∧ OpsCharged spinQd g (spinMolOpmap : OpMap κ)) := by
  constructor
  · intro h
    unfold spinMolExplicitGraph
    have : decide ((tkin.length : Int) ≥ 2) = false := by simpa using h
    simp only [this]
    rfl
  · intro hL
    obtain ⟨_, sv, _, hK, hT, _⟩ := sexplGraph_facts c tkin vint (tkin.length : Int) hL
    have hval := sexplGraph_valid c tkin vint (tkin.length : Int) hL
    have hlen := sexplGraph_length c tkin vint (tkin.length : Int) hL
    have e : (tkin.length : Int).toNat = tkin.length := by omega
    rw [e] at hlen
    refine ⟨_, spinMolExplicitGraph_ok c tkin vint hL, rfl, hval, hval.isConsistent, ((valid_iff _).1 hval).1, hT,
      by rw [hK, sexplG0_keys], sexplGraph_lev c tkin vint _ hL, ?_, ?_, hlen, sexplGraph_singleSink c tkin vint _ hL,
      sexplGraph_allOut c tkin vint _ hL, sexplGraph_charged c tkin vint _ hL⟩
    · have : (sexplGraph c tkin vint (tkin.length : Int)).term false = 0 := by simp [Graph.term, hT]
      rw [this]; unfold sexplLevel; rw [slabOf_source _ hL]
    · have : (sexplGraph c tkin vint (tkin.length : Int)).term true = (tkin.length : Int) + tkin.length - 1 := by
        simp [Graph.term, hT]
      rw [this]; unfold sexplLevel; rw [slabOf_sink _ hL]

/-- the edge loops of `generate_graph` alone run through for *every* `L` (all look-ups `identity_l[i]`, `a_dag_l[(i, σ)][j]`, … are
defined, the two assertions on the spins hold): started on any graph with any running edge id they are the `add_connect_edge` calls for
the edges `swireGen`, in this order, with consecutive ids -/
theorem spin_explicit_wiring_lookups_defined (L : Int) :
    Emits (κ := κ) (swireGen (fun a b o => ((SpinNodes.init L).nidOf a, (SpinNodes.init L).nidOf b, o, (1 : κ))) L) ()
      ((SpinNodes.init L).wire (κ := κ)) :=
  swire_emits L (sTab L)

/-! ## non-vacuity: three spatial orbitals -/

/-- hopping coefficients `t_ij = i + 2 j + 1` and a non-symmetric interaction tensor on three orbitals; `½` is replaced by `1` -/
def sxTk3 : List (List Int) := (List.range 3).map fun i => (List.range 3).map fun j => ((i + 2 * j + 1 : Nat) : Int)
def sxVi3 : List (List (List (List Int))) := (List.range 3).map fun i => (List.range 3).map fun j => (List.range 3).map fun k =>
  (List.range 3).map fun l => ((i * i * l + 3 * j * k + 5 * k * l * i + 7 * l + 1 : Nat) : Int)
def sxC0 : Consts Int := ⟨1, fun _ => 0⟩

/-- the hypotheses hold for these tensors -/
example : 2 ≤ ((sxTk3.length : Nat) : Int) ∧ shapesOk sxTk3 sxVi3 = true := by decide

/-- kernel evaluation of the model's explicit construction on three orbitals: 42 nodes, 157 edges, consistent, terminals 0 and 5; the
word `CZ ZZ AI` (`a†_{0↑} a_{2↑}`) has the coefficient `t_02 = 5`, the word `CC AA Id` (`a†_{0↑} a†_{0↓} a_{1↓} a_{1↑}`) the coefficient 16,
the word `NN Id Id` the coefficient 2, and the identity word does not occur -/
example : (match spinMolExplicitGraph sxC0 sxTk3 sxVi3 with
    | .ok r => (r.2.nodes.length == 42) && (r.2.edges.length == 157) && r.2.isConsistent && (r.2.nidTerminal == (0, 5)) &&
      (r.2.denF [8, 22, 9] == 5) && (r.2.denF [5, 11, 0] == 16) && (r.2.denF [17, 0, 0] == 2) &&
      (r.2.denF [0, 0, 0] == 0)
    | .error _ => false) = true := by
  decide +kernel

/-- the term `a†_{0↑} a_{2↑}` is inserted as the edge from `a_dag_l[(0,↑)][1]` to `a_ann_r[(2,↑)][2]` carrying `ZZ`; the term
`a†_{0↑} a†_{0↓} a_{1↓} a_{1↑}` as the edge from `a_dag_a_dag_l[(0,↑),(0,↓)][1]` to `identity_r[2]` carrying `AA` -/
example : shopLab 3 0 2 0 = ((0, [0, 0], 1), (6, [2, 0], 2), 22) ∧
    sintLab 3 0 0 0 1 1 0 1 1 = ((2, [0, 0, 0, 1], 1), (11, [], 2), 11) ∧
    slwLab (shopLab 3 0 2 0).1 = [8] ∧ srwLab 3 (shopLab 3 0 2 0).2.1 = [9] ∧
    pw 3 (hopF (md 0 0).toNat (md 2 0).toNat) = [8, 22, 9] := by
  decide

/-- the chain list of the bond-optimized construction on the same tensors has the same coefficients for these words -/
example : (match spinMolChains sxC0 sxTk3 sxVi3 with
    | .ok ch => (ch.length == 117) && (coeffIn (denChainsRaw ch 3 0) [8, 22, 9] == 5) &&
      (coeffIn (denChainsRaw ch 3 0) [5, 11, 0] == 16) && (coeffIn (denChainsRaw ch 3 0) [17, 0, 0] == 2)
    | .error _ => false) = true := by
  decide +kernel

/-- the explicit MPO on three orbitals: three sites, bond dimensions `[1, 20, 20, 1]` -/
example : (match spinMolBuildExplicit sxC0 sxTk3 sxVi3 with
    | .ok r => (r.2.mpo.tensors.length == 3) && (r.2.mpo.qD.map (·.length) == [1, 20, 20, 1])
    | .error _ => false) = true := by
  decide +kernel

end Ptn.C07

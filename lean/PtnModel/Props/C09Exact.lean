import PtnModel.Proofs.EvoExactCalls
import PtnModel.Proofs.EvoExactMatrix
import PtnModel.Proofs.EvoRevExample2
import PtnModel.Proofs.EvoExactExample
/-!
# C09 (exactness part, single-site integrator) — TDVP is exact on a complete manifold

Property (properties.jsonl, first clause): *When the bond dimensions of the state accommodate every vector of its quantum-number
sector and the local Krylov dimension covers the local problem, one or more TDVP steps of either integrator reproduce
exp(-dt·n·H) applied to the normalized initial state, for real, imaginary and complex dt.*

Model: `Ptn.Evo.integrateLocalSinglesite`, `tdvp1Step`, `tdvp1Left`, `tdvp1Right` (`PtnModel/Model/Evolution.lean`), tied to
`pytenet/evolution.py` by the correspondences of `harness/props/c09.py`.  Scalars: any `RCLike 𝕜`, exact arithmetic.

## The precise form that is true, and proved here (single-site integrator)

On the real code the clause is FALSE for complete manifolds of arbitrary shape (`known_findings.txt`, F10;
`harness/props/c09.py: splitting_exact`).  What makes the projector splitting exact is the following shape of the bond
dimensions `D_0 = 1, D_1, …, D_L = 1` (`d` = local dimension): there is a centre site `m` with
`d · D_j = D_{j+1}` for `j < m` and `D_j = d · D_{j+1}` for `m < j < L` (`Evo.Complete`, `Evo.CompleteMPS`) — the maximal bond
dimensions `min(d^j, d^(L-j))` of a state without quantum numbers (all charges zero) have this shape.  Then a left isometry
at a site `j < m` is a SQUARE matrix, hence unitary (`square_left_iso_unitary`), the left bases are complete
(`left_basis_complete`), and:

* `tdvp1_left_pair_cancels` / `tdvp1_right_pair_cancels`: at a site with square left-isometry dimensions the one-site step
  `K(τ)` and the zero-site step `S(-τ)` inside ONE call of `tdvp1Left` / `tdvp1Right` cancel exactly: the call only moves the
  centre (same dense state).  At sites right of `m` the cancellation is between the zero-site step of one call and the
  one-site step of the NEXT call (`Evo.tdvp1Left_tail`, `Evo.tdvp1Right_head`; at the last site three steps
  `S(-τ) K(2τ) S(-τ)` cancel), which is tracked as a spectral relation `A_i = E(γ · H_eff) X` of the centre tensor
  (`Evo.SiteSpec`) through the sweeps (`Evo.FwdInv`, `Evo.BwdInv`).
* `tdvp1_centre_step_exact`: at the site `m` the frame `V = (left basis) ⊗ 1 ⊗ (right basis)` is unitary, the effective
  operator is `Vᴴ H V`, and an exact local exponential with time `δ` multiplies the dense state by `E(-δ · H_dense)`.
* `tdvp1_step_exact_complete`, `tdvp1_steps_exact_complete`, `tdvp1_call_exact_complete`: one time step, `n` time steps, and
  the whole call `integrate_local_singlesite(H, ψ, dt, n)` multiply the dense state (of the right-orthonormalised, i.e.
  NORMALISED, initial state) by `E(-(n·dt) · H_dense)`, for every complex `dt`.

## How "exp(-dt·n·H) applied to the state" is phrased

In the intrinsic spectral form of `C15.expm_hermitian_exact` (`Evo.DenseExp`): `φ = E(g · H_dense) ψ` means that for EVERY
decomposition `ψ = ∑_f b_f w_f` of `ψ` into eigenvectors `w_f` of the dense operator `H.elem` (real eigenvalues `μ_f`),
`φ = ∑_f E(g μ_f) b_f w_f`, `E = k.dexp` the scalar exponential oracle.  The dense operator of a Hermitian MPO is a
Hermitian matrix, so such decompositions exist and, for `E = exp`, `∑_f exp(g μ_f) b_f w_f` is the matrix exponential
`exp(g H_dense) ψ` (`KryExpMatrix.exp_mulVec_eigen`).

With Mathlib's matrix exponential (`NormedSpace.exp` on matrices indexed by the digit lists `Evo.DenseIdx`,
`Evo.denseMatrix H d`): `dense_decomposition_exists` (spectral theorem: every dense vector has such a decomposition, so the
quantifier in `DenseExp` is never vacuous), `dense_exp_iff_matrix_exp` (for `E = exp`: `DenseExp H d E g ψ φ` ⇔
`φ = exp(g • H_dense) *ᵥ ψ`), and `tdvp1_call_matrix_exp`: the call returns `exp(-(n·dt) • H_dense) *ᵥ ψ0`.

## Hypotheses

`SweepCtx` (QR / norm / `eigh_tridiagonal` contracts, `H` shaped and dense-Hermitian); `ExpLaw k.dexp`
(`E(a+b) = E(a) E(b)`, `E(0) = 1`: true for `np.exp`); `k.half + k.half = 1`; the shape condition `Complete`; and
"the local Krylov dimension covers the local problem" as the trace predicate `StepExact false` / `RunExact false`
(`Proofs/EvoRevExact.lean`): every executed Lanczos run exhausts its Krylov space (`C15.Exhausted`) and every executed QR
keeps the bond dimension.  No assumption on `dt` (real, imaginary, complex).
-/
set_option linter.unusedSectionVars false

namespace Ptn.C09
open Ptn Ptn.Krylov Ptn.Evo Ptn.BondOps Ptn.Ortho Ptn.Env Finset
open scoped Matrix

variable {𝕜 : Type} [RCLike 𝕜] [DecidableEq 𝕜]
variable {k : EvoKernels 𝕜 ℝ} {H : MPO 𝕜} {qd : List Int} {numiter : Nat}

/-- **A square left isometry is unitary.**  `Q` (shape `(d0, d1, d2)`) is a left isometry (`Σ_{s,a} conj Q[s,a,p] Q[s,a,p'] =
δ_{pp'}`) and square as a matrix `(s,a) × p` (`d0 · d1 = d2`): then its rows are orthonormal too. -/
theorem square_left_iso_unitary {Q : T3 𝕜} (hQ : LeftIso Q) (hsq : Q.d0 * Q.d1 = Q.d2) {s a s' a' : Nat}
    (hs : s < Q.d0) (ha : a < Q.d1) (hs' : s' < Q.d0) (ha' : a' < Q.d1) :
    ∑ p ∈ range Q.d2, Q.f s a p * star (Q.f s' a' p) = if s = s' ∧ a = a' then 1 else 0 :=
  sq_left_unitary hQ hsq hs ha hs' ha'

/-- **A square right isometry is unitary** (`d1 = d0 · d2`): its columns `(s,b)` are orthonormal too. -/
theorem square_right_iso_unitary {R : T3 𝕜} (hR : RightIso R) (hsq : R.d1 = R.d0 * R.d2) {s b s' b' : Nat}
    (hs : s < R.d0) (hb : b < R.d2) (hs' : s' < R.d0) (hb' : b' < R.d2) :
    ∑ a ∈ range R.d1, star (R.f s a b) * R.f s' a b' = if s = s' ∧ b = b' then 1 else 0 :=
  sq_right_unitary hR hsq hs hb hs' hb'

/-- **The dense left basis of a chain of square left isometries is complete**: the prefix products
`P_σ[a, x] = (A_0[σ_0] ⋯ A_{k-1}[σ_{k-1}])[a, x]` satisfy `Σ_x P_σ[a,x] conj P_σ'[a',x] = δ_{σσ'} δ_{aa'}` (they are
orthonormal in `x` by `Evo.leftIso_chain`; here: also in `(σ, a)`). -/
theorem left_basis_complete {ds : List Nat} {As : List (T3 𝕜)} {Dl Dr : Nat} (h : Chain3 ds As Dl Dr)
    (hiso : ∀ B ∈ As, LeftIso B) (hsq : ∀ B ∈ As, B.d0 * B.d1 = B.d2) {σ σ' : List Nat}
    (hσ : σ ∈ digits ds) (hσ' : σ' ∈ digits ds) {a a' : Nat} (ha : a < Dl) (ha' : a' < Dl) :
    ∑ x ∈ range Dr, pmat As σ a x * star (pmat As σ' a' x) = if σ = σ' ∧ a = a' then 1 else 0 :=
  leftIso_chain_complete h hiso hsq hσ hσ' ha ha'

/-- the mirror image: the dense right basis of a chain of square right isometries is complete -/
theorem right_basis_complete {ds : List Nat} {As : List (T3 𝕜)} {Dl Dr : Nat} (h : Chain3 ds As Dl Dr)
    (hiso : ∀ B ∈ As, RightIso B) (hsq : ∀ B ∈ As, B.d1 = B.d0 * B.d2) {σ σ' : List Nat}
    (hσ : σ ∈ digits ds) (hσ' : σ' ∈ digits ds) {c c' : Nat} (hc : c < Dr) (hc' : c' < Dr) :
    ∑ a ∈ range Dl, pmat As σ a c * star (pmat As σ' a c') = if σ = σ' ∧ c = c' then 1 else 0 :=
  rightIso_chain_complete h hiso hsq hσ hσ' hc hc'

/-- **The one-site step and the zero-site step of one forward-sweep call cancel at a square site.**  `s` is in
mixed-canonical form with centre `i`, site `i` has the dimensions of a square left isometry (`d · D_i = D_{i+1}`),
`tdvp1Left … s i` (one-site step with `dt/2`, QR, new left block, zero-site step with `-dt/2`, push into site `i+1`) returns
`s'`, both Lanczos runs are exhausted and the QR keeps the bond dimension (`LeftExact false`).  Then `s'` is in canonical form
with centre `i+1`, has the same bond dimensions and holds the SAME dense state: the call only moved the centre.  Every
complex `dt`. -/
theorem tdvp1_left_pair_cancels (ctx : SweepCtx k H qd numiter) (hE : ExpLaw k.dexp) {dt : 𝕜} {s s' : Sweep 𝕜} {i : Nat}
    (h : Canon H qd s i) (hi1 : i + 1 < H.A.length) (hsq : SqL qd s i)
    (hrun : tdvp1Left k H qd dt numiter s i = .ok s') (hex : LeftExact false k H qd dt numiter s i) :
    Canon H qd s' (i + 1) ∧ SameDims s s' ∧
      ∀ σ, σ ∈ digitsU qd.length H.A.length → (cur qd s').amp σ = (cur qd s).amp σ :=
  ⟨tdvp1Left_canon ctx h hi1 hrun, tdvp1Left_cancel ctx hE h hi1 hsq hrun hex⟩

/-- **The mirror image** for one backward-sweep call `tdvp1Right … s (j+1)` (QR of site `j+1`, new right block, zero-site step
with `-dt/2`, push into site `j`, one-site step with `dt/2` at `j`): if site `j` has the dimensions of a square left isometry
the one-site step undoes the zero-site step and the call only moves the centre. -/
theorem tdvp1_right_pair_cancels (ctx : SweepCtx k H qd numiter) (hE : ExpLaw k.dexp) {dt : 𝕜} {s s' : Sweep 𝕜} {j : Nat}
    (h : Canon H qd s (j + 1)) (hsq : SqL qd s j)
    (hrun : tdvp1Right k H qd dt numiter s (j + 1) = .ok s') (hex : RightExact false k H qd dt numiter s (j + 1)) :
    Canon H qd s' j ∧ SameDims s s' ∧
      ∀ σ, σ ∈ digitsU qd.length H.A.length → (cur qd s').amp σ = (cur qd s).amp σ :=
  ⟨tdvp1Right_canon ctx h hrun, tdvp1Right_cancel ctx hE h hsq hrun hex⟩

/-- **The one-site step at the centre of a complete state is the dense exponential.**  `s` is in mixed-canonical form with
centre `c`, all sites left of `c` have the dimensions of square left isometries and all sites right of `c` those of square
right isometries; `_local_hamiltonian_step` with time `δ` at `c` returns `A1` and its Lanczos run is exhausted.  Then the
dense state of `s[c := A1]` is `E(-δ · H_dense)` applied to the dense state of `s`: for every decomposition of the latter
into eigenvectors `w_f` of the dense operator (eigenvalues `μ_f`, coefficients `b_f`) the former is `∑_f E(-δ μ_f) b_f w_f`.
Every complex `δ`. -/
theorem tdvp1_centre_step_exact (ctx : SweepCtx k H qd numiter) {s : Sweep 𝕜} {c : Nat} (h : Canon H qd s c)
    (hsqL : ∀ j, j < c → SqL qd s j) (hsqR : ∀ j, c < j → j < H.A.length → SqR qd s j) {δ : 𝕜} {A1 : T3 𝕜}
    (hrun : localHamiltonianStep k (getBL s c) (getBR s c) (H.A.getD c zeroT4) (getA s c) δ numiter = .ok A1)
    (hex : MidExact k H numiter s c) :
    DenseExp H qd.length k.dexp (-δ) (cur qd s).amp (cur qd (setA s c A1)).amp :=
  centre_step_dense ctx h hsqL hsqR hrun hex

/-- **One complete time step on a complete manifold is exact.**  `s` is a sweep state in canonical form with centre `0` whose
bond dimensions are those of a complete manifold with centre `m` (`Complete`); one time step `tdvp1Step … dt` (forward sweep,
step at the last site, backward sweep) returns `s'`; every executed sub-step is exact and regular (`StepExact false`).  Then
`s'` is canonical with centre `0`, has the same bond dimensions, and its dense state is `E(-dt · H_dense)` applied to the
dense state of `s` — for every complex `dt`. -/
theorem tdvp1_step_exact_complete (ctx : SweepCtx k H qd numiter) (hE : ExpLaw k.dexp) (hhalf : k.half + k.half = 1)
    {dt : 𝕜} {m : Nat} {s s' : Sweep 𝕜} (h : Canon H qd s 0) (hcomp : Complete qd H.A.length m s)
    (hS : tdvp1Step k H qd dt numiter s = .ok s') (hex : StepExact false k H qd dt numiter s) :
    Canon H qd s' 0 ∧ SameDims s s' ∧ DenseExp H qd.length k.dexp (-dt) (cur qd s).amp (cur qd s').amp :=
  tdvp1Step_exact ctx hE hhalf h hcomp hS hex

/-- **`n` time steps on a complete manifold**: the dense state is multiplied by `E(-(n · dt) · H_dense)`. -/
theorem tdvp1_steps_exact_complete (ctx : SweepCtx k H qd numiter) (hE : ExpLaw k.dexp) (hhalf : k.half + k.half = 1)
    {dt : 𝕜} {m n : Nat} {s s' : Sweep 𝕜} (h : Canon H qd s 0) (hcomp : Complete qd H.A.length m s)
    (hS : iterate (tdvp1Step k H qd dt numiter) n s = .ok s') (hex : RunExact false k H qd dt numiter n s) :
    Canon H qd s' 0 ∧ SameDims s s' ∧
      DenseExp H qd.length k.dexp (-((n : 𝕜) * dt)) (cur qd s).amp (cur qd s').amp :=
  tdvp1Steps_exact ctx hE hhalf n s s' h hcomp hS hex

/-- **`integrate_local_singlesite` on a complete manifold reproduces `exp(-dt·n·H)` applied to the normalised initial state.**
`ψ` admissible; the call `integrate_local_singlesite(H, ψ, dt, n, numiter)` returns `(ψ', nrm)`; the right-orthonormalised
state `ψ0` of the prologue (`orthonormalize(ψ, 'right') = (ψ0, nrm)`) has the bond dimensions of a complete manifold with
some centre `m` (`CompleteMPS` — e.g. a generic state with the maximal bond dimensions `min(d^j, d^(L-j))`, all charges
zero); every executed sub-step of the `n` time steps is exact and regular (`RunExact false` from the prologue state).  Then
`ψ0 = ψ / nrm` has norm one and `ψ' = E(-(n·dt) · H_dense) ψ0` — for every complex `dt`, every number of steps. -/
theorem tdvp1_call_exact_complete {ψ ψ' : MPS 𝕜} (ctx : SweepCtx k H ψ.qd numiter) (hE : ExpLaw k.dexp)
    (hhalf : k.half + k.half = 1) (hadm : Admissible ψ) {dt : 𝕜} {n m : Nat} {nrm : ℝ}
    (h : integrateLocalSinglesite k H ψ dt n numiter = .ok (ψ', nrm))
    (hcomp : ∀ ψ0, MPS.orthonormalize (ρ := ℝ) k.dqr ψ false = .ok (ψ0, nrm) → CompleteMPS ψ0 m)
    (hex : ∀ s0, prologue k H ψ = .ok (s0, nrm) → RunExact false k H ψ.qd dt numiter n s0) :
    ∃ ψ0, MPS.orthonormalize (ρ := ℝ) k.dqr ψ false = .ok (ψ0, nrm) ∧
      (∀ σ, σ ∈ digitsU ψ.qd.length ψ.A.length → (nrm : 𝕜) * ψ0.amp σ = ψ.amp σ) ∧
      (∑ σ ∈ digitsU ψ.qd.length ψ.A.length, ‖ψ0.amp σ‖ ^ 2 = 1) ∧
      DenseExp H ψ.qd.length k.dexp (-((n : 𝕜) * dt)) ψ0.amp ψ'.amp :=
  tdvp1_call_exact ctx hE hhalf hadm h hcomp hex

/-- **The maximal bond dimensions give a complete manifold.**  If `D_j = min(d^j, d^(L-j))` for all bonds `j = 0 … L` (what
`MPS(qd, qD, fill='random')` with all charges zero and maximal `qD` has, and what right-orthonormalisation of a generic such
state keeps), the shape condition `CompleteMPS` holds with the centre `m = L / 2`. -/
theorem complete_of_maximal_bonds {ψ : MPS 𝕜} (hd : 0 < ψ.qd.length) (hL : 0 < ψ.A.length)
    (hmax : ∀ j, j ≤ ψ.A.length →
      (ψ.qD.getD j []).length = min (ψ.qd.length ^ j) (ψ.qd.length ^ (ψ.A.length - j))) :
    CompleteMPS ψ (ψ.A.length / 2) :=
  completeMPS_of_maximal hd hL hmax

/-- **Spectral theorem for the dense operator**: every dense vector is a combination of eigenvectors of the (Hermitian)
dense matrix of `H` with real eigenvalues — the decompositions quantified over in `DenseExp` exist. -/
theorem dense_decomposition_exists {d : Nat} (hH : C04.MPO.DenseHermitian H d) (ψ : List Nat → 𝕜) :
    ∃ (K : Nat) (μ : Nat → ℝ) (b : Nat → 𝕜) (w : Nat → List Nat → 𝕜),
      (∀ f, f < K → DenseEig H d (μ f) (w f)) ∧
      ∀ σ, σ ∈ digitsU d H.A.length → ψ σ = ∑ f ∈ range K, b f * w f σ :=
  dense_decomp_exists hH ψ

/-- **`DenseExp` is the matrix exponential.**  If the scalar oracle is the exponential (`E = NormedSpace.exp`; on `ℂ`:
`Complex.exp`), `φ = E(g · H_dense) ψ` in the intrinsic spectral form holds iff `φ = exp(g • H_dense) *ᵥ ψ` with Mathlib's
matrix exponential (power series) of the dense matrix `denseMatrix H d` (indexed by the digit lists). -/
theorem dense_exp_iff_matrix_exp {d : Nat} (hH : C04.MPO.DenseHermitian H d) {E : 𝕜 → 𝕜}
    (hE : ∀ z : 𝕜, E z = NormedSpace.exp z) {g : 𝕜} {ψ φ : List Nat → 𝕜} :
    DenseExp H d E g ψ φ ↔
      denseVec d H.A.length φ = NormedSpace.exp (g • denseMatrix H d) *ᵥ denseVec d H.A.length ψ :=
  ⟨denseExp_matrix_exp hH hE, matrix_exp_denseExp hE⟩

/-- **`integrate_local_singlesite` on a complete manifold returns `exp(-dt·n·H) ψ0`** (matrix-exponential form of
`tdvp1_call_exact_complete`): if the scalar exponential oracle is the exponential, the dense vector of the returned state is
Mathlib's `exp(-(n·dt) • H_dense)` applied to the dense vector of the normalised initial state `ψ0 = ψ / nrm`. -/
theorem tdvp1_call_matrix_exp {ψ ψ' : MPS 𝕜} (ctx : SweepCtx k H ψ.qd numiter)
    (hexp : ∀ z : 𝕜, k.dexp z = NormedSpace.exp z) (hhalf : k.half + k.half = 1) (hadm : Admissible ψ) {dt : 𝕜}
    {n m : Nat} {nrm : ℝ} (h : integrateLocalSinglesite k H ψ dt n numiter = .ok (ψ', nrm))
    (hcomp : ∀ ψ0, MPS.orthonormalize (ρ := ℝ) k.dqr ψ false = .ok (ψ0, nrm) → CompleteMPS ψ0 m)
    (hex : ∀ s0, prologue k H ψ = .ok (s0, nrm) → RunExact false k H ψ.qd dt numiter n s0) :
    ∃ ψ0, MPS.orthonormalize (ρ := ℝ) k.dqr ψ false = .ok (ψ0, nrm) ∧
      (∀ σ, σ ∈ digitsU ψ.qd.length ψ.A.length → (nrm : 𝕜) * ψ0.amp σ = ψ.amp σ) ∧
      denseVec ψ.qd.length H.A.length ψ'.amp =
        NormedSpace.exp ((-((n : 𝕜) * dt)) • denseMatrix H ψ.qd.length) *ᵥ denseVec ψ.qd.length H.A.length ψ0.amp := by
  obtain ⟨ψ0, ho, hd, _, he⟩ := tdvp1_call_exact_complete ctx (expLaw_of_exp hexp) hhalf hadm h hcomp hex
  exact ⟨ψ0, ho, hd, denseExp_matrix_exp ctx.herm hexp he⟩

/-! ## non-vacuity -/

/-- **ALL hypotheses of `tdvp1_step_exact_complete` / `tdvp1_steps_exact_complete` hold jointly for actual runs** (one site,
`L = 1`, centre `m = 0`: the one-site system `exH1 = 2·𝟙`, `exψ1 = (1, i)`, kernels `exK1` with `dexp = Complex.exp`, one
Lanczos iteration, `dt = iτ`, every number of time steps; for one site a time step is the exact step at the centre) -/
example (n : Nat) (τ : ℝ) : ∃ (s0 b : Sweep ℂ) (nrm : ℝ),
    SweepCtx exK1 exH1 exψ1.qd 1 ∧ ExpLaw exK1.dexp ∧ exK1.half + exK1.half = 1 ∧
    prologue exK1 exH1 exψ1 = .ok (s0, nrm) ∧ Canon exH1 exψ1.qd s0 0 ∧ Complete exψ1.qd exH1.A.length 0 s0 ∧
    iterate (tdvp1Step exK1 exH1 exψ1.qd (Complex.I * τ) 1) n s0 = .ok b ∧
    RunExact false exK1 exH1 exψ1.qd (Complex.I * τ) 1 n s0 := by
  obtain ⟨s0, b, _, nrm, ctx, hp, hcan, hit, _, hex, _⟩ := exRev1_full n τ
  exact ⟨s0, b, nrm, ctx, exK1_expLaw, exK1_half, hp, hcan,
    ⟨Nat.one_pos, fun j hj => absurd hj (Nat.not_lt_zero j), fun j hj hj' => absurd hj' (by show ¬ j < 1; omega)⟩, hit, hex⟩

/-- **ALL hypotheses of `tdvp1_step_exact_complete` / `tdvp1_steps_exact_complete` / `tdvp1_call_exact_complete` hold jointly
for actual runs with `L = 2` sites, `d = 2`, all charges zero and the maximal bond dimensions `[1, 2, 1]`** (`Proofs/EvoExactExample.lean`): the MPO `exH2` (dense operator
`2·𝟙` on `ℂ⁴`), the complex state `exψ2` with dense vector `(1, i, 0, 1)`, kernels `exK1` (QR kernel `realQR`, 2-norm,
`dexp = Complex.exp`, `half = 1/2`), one Lanczos iteration, `dt = iτ` for every real `τ`, every number of time steps: context,
`ExpLaw`, admissibility, the call returns, the right-orthonormalised state has the bond dimensions of a complete manifold —
with BOTH admissible centres `m = 1` (site 0 square as a left isometry: all pairs cancel inside the calls) and `m = 0` (site 1
square as a right isometry: the cancellations straddle the calls and the three-step cancellation at the last site occurs) —
prologue state in canonical form, the sweeps succeed, and `RunExact false` (every executed Lanczos run exhausted, every QR keeps
the bond dimension) -/
example (n : Nat) (τ : ℝ) : ∃ (ψ' ψ0 : MPS ℂ) (nrm : ℝ) (s0 b : Sweep ℂ),
    SweepCtx exK1 exH2 exψ2.qd 1 ∧ ExpLaw exK1.dexp ∧ exK1.half + exK1.half = 1 ∧ Admissible exψ2 ∧
    integrateLocalSinglesite exK1 exH2 exψ2 (Complex.I * τ) n 1 = .ok (ψ', nrm) ∧
    MPS.orthonormalize (ρ := ℝ) exK1.dqr exψ2 false = .ok (ψ0, nrm) ∧ CompleteMPS ψ0 1 ∧ CompleteMPS ψ0 0 ∧
    prologue exK1 exH2 exψ2 = .ok (s0, nrm) ∧ Canon exH2 exψ2.qd s0 0 ∧
    Complete exψ2.qd exH2.A.length 1 s0 ∧ Complete exψ2.qd exH2.A.length 0 s0 ∧
    iterate (tdvp1Step exK1 exH2 exψ2.qd (Complex.I * τ) 1) n s0 = .ok b ∧
    RunExact false exK1 exH2 exψ2.qd (Complex.I * τ) 1 n s0 :=
  exExact2_full n τ

/-- the hypotheses of `tdvp1_call_exact_complete` in the quantified form in which the theorem takes them, for the same
two-site system -/
example (n : Nat) (τ : ℝ) : ∃ (ψ' : MPS ℂ) (nrm : ℝ),
    SweepCtx exK1 exH2 exψ2.qd 1 ∧ ExpLaw exK1.dexp ∧ exK1.half + exK1.half = 1 ∧ Admissible exψ2 ∧
    integrateLocalSinglesite exK1 exH2 exψ2 (Complex.I * τ) n 1 = .ok (ψ', nrm) ∧
    (∀ ψ0, MPS.orthonormalize (ρ := ℝ) exK1.dqr exψ2 false = .ok (ψ0, nrm) → CompleteMPS ψ0 1) ∧
    (∀ ψ0, MPS.orthonormalize (ρ := ℝ) exK1.dqr exψ2 false = .ok (ψ0, nrm) → CompleteMPS ψ0 0) ∧
    (∀ s0, prologue exK1 exH2 exψ2 = .ok (s0, nrm) → RunExact false exK1 exH2 exψ2.qd (Complex.I * τ) 1 n s0) :=
  exExact2_calls n τ

/-- the conclusion of `tdvp1_call_exact_complete` for this instance, and its closed form: the returned state is
`exp(-(n·iτ)·2) ψ0` -/
example (n : Nat) (τ : ℝ) : ∃ (ψ' ψ0 : MPS ℂ) (nrm : ℝ),
    integrateLocalSinglesite exK1 exH2 exψ2 (Complex.I * τ) n 1 = .ok (ψ', nrm) ∧
    MPS.orthonormalize (ρ := ℝ) exK1.dqr exψ2 false = .ok (ψ0, nrm) ∧
    (∀ σ, σ ∈ digitsU 2 2 → (nrm : ℂ) * ψ0.amp σ = exψ2.amp σ) ∧
    (∑ σ ∈ digitsU 2 2, ‖ψ0.amp σ‖ ^ 2 = 1) ∧
    DenseExp exH2 2 Complex.exp (-((n : ℂ) * (Complex.I * τ))) ψ0.amp ψ'.amp ∧
    ∀ σ, σ ∈ digitsU 2 2 → ψ'.amp σ = Complex.exp (-((n : ℂ) * (Complex.I * τ)) * 2) * ψ0.amp σ :=
  exExact2_concl n τ

/-- hypotheses of the purely algebraic lemmas: the `2 × 1 × 2` tensor `δ_{sb}` (first tensor of `exψ2`) is a left isometry
that is square as a matrix, and the one-element chain made of it is a chain of square left isometries -/
example : ∃ Q : T3 ℂ, LeftIso Q ∧ Q.d0 * Q.d1 = Q.d2 ∧ Chain3 [2] [Q] 1 2 ∧ (∀ B ∈ [Q], LeftIso B) ∧
    (∀ B ∈ [Q], B.d0 * B.d1 = B.d2) := by
  have hiso : LeftIso (⟨2, 1, 2, fun s _ b => if s = b then 1 else 0⟩ : T3 ℂ) := by
    intro p p' hp hp'
    have hp2 : p < 2 := hp
    have hp2' : p' < 2 := hp'
    show ∑ s ∈ range 2, ∑ a ∈ range 1, star (if s = p then (1 : ℂ) else 0) * (if s = p' then 1 else 0) = _
    interval_cases p <;> interval_cases p' <;> simp
  refine ⟨_, hiso, rfl, by simp [Chain3], ?_, ?_⟩
  · intro B hB
    rw [List.mem_singleton.1 hB]; exact hiso
  · intro B hB
    rw [List.mem_singleton.1 hB]; rfl

end Ptn.C09

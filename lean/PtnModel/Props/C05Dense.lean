import PtnModel.Props.C05
import PtnModel.Proofs.BridgeChains
import PtnModel.Proofs.BridgeTerms
/-!
# Property C05, last step: the dense matrix of the MPO handed back by `MPO.from_opgraph`

`Props/C05.lean` describes the tensors of `from_opgraph` through the bond-index contraction `tn` with weight 1 on the position
of the end node in the last layer.  Here that contraction is tied to the MPO model of `Model/MPO.lean` (properties C03):

* `out.toMPO qd`  (`Proofs/BridgeElem.lean`) : the value `MPO(qd, qD, A)` for the output `out` of the `from_opgraph` model:
  `qD = out.qD`, and the `k`-th tensor is the nested list `out.tensors[k]` read as a NumPy array: dimensions
  `(len(A), len(A[0]), len(A[0][0]), len(A[0][0][0]))`, entry `A[s][t][a][b]` (`to_mpo_entries`);
* `SingleSink g`  : the end node is the only node of `g` without outgoing edges (decidable; `from_opchains_single_sink`:
  it holds for every graph built by `from_opchains`).  `is_consistent()` alone does not exclude dead ends, and with a dead end
  in the last layer the last bond dimension exceeds 1 and `as_matrix()` fails its final assertion;
* `MPO.DenseIs o d n F` (`Proofs/BridgeTerms.lean`) : `o` is `MPO.Shaped` with `n` sites of physical dimension `d`;
  `o.elem s t = F s t` for all digit lists `s, t ∈ {0..d-1}^n`; `o.asMatrix` (dense path of `as_matrix()`) and
  `o.asMatrixSparse` (sparse path) both return a `d^n × d^n` matrix whose entry at the row-major positions
  `(flat d s, flat d t)` is `F s t` (via `C03.as_matrix_elem`, `C03.as_matrix_sparse_elem`);
* `wordWeight opmap w s t = Π_k opmap[w_k][s_k][t_k]` (0 if the lengths differ).

For a consistent single-sink graph the last layer visited by `from_opgraph` is `[end node]` (`Ch.run_last`), so the weight
`finOf` of `from_opgraph_dense` is the indicator of bond index 0 and `tn … 0` is the plain contraction `(Π_k A_k[s_k, t_k])₀₀`
(`Ch.tn_elemRow`); the number of tensors is `graph.length` (`Ch.fromOpgraph_elem`).
-/
set_option linter.unusedSectionVars false

namespace Ptn.C05
open Ptn Ptn.Og Ptn.Ch List

variable {κ : Type} [CommRing κ] [DecidableEq κ]

/-- what `out.toMPO qd` is: the charges are taken over, and tensor `k` has the dimensions and entries of the nested list
`out.tensors[k]` -/
theorem to_mpo_entries (qd : List Int) (out : MpoOut κ) :
    (out.toMPO qd).qd = qd ∧ (out.toMPO qd).qD = out.qD ∧ (out.toMPO qd).A.length = out.tensors.length ∧
    ∀ (k : Nat) (A : Tensor κ), out.tensors[k]? = some A → ∃ T : T4 κ, (out.toMPO qd).A[k]? = some T ∧
      T.d0 = A.length ∧ T.d1 = (A.getD 0 []).length ∧ T.d2 = ((A.getD 0 []).getD 0 []).length ∧
      T.d3 = (((A.getD 0 []).getD 0 []).getD 0 []).length ∧
      ∀ s t a b, T.f s t a b = (((A.getD s []).getD t []).getD a []).getD b 0 := by
  refine ⟨rfl, rfl, by simp [MpoOut.toMPO], ?_⟩
  intro k A hk
  exact ⟨toT4 A, by simp [MpoOut.toMPO, hk], rfl, rfl, rfl, rfl, fun _ _ _ _ => rfl⟩

/-- **`MPO.from_opgraph` returns an MPO whose dense matrix is the operator denoted by the graph.**  For every consistent
graph of length `n ≥ 1` whose only sink is the end node, every `d × d` operator map (`d = len(qd)`) and every duplicate-free
list `ids` containing the operator ids of the graph: if the conversion returns, the MPO has `n` sites, is shaped, and
`elem s t = Σ_{w ∈ ids^n} denF(g)(w) · Π_k opmap[w_k][s_k][t_k]`; both paths of `as_matrix()` return exactly these entries. -/
theorem from_opgraph_elem (qd : List Int) (g : Graph κ) (opmap : OpMap κ) (on : Bool) (out : MpoOut κ)
    (h : fromOpgraph qd g opmap on = .ok out) (hc : g.isConsistent = true) (hs : SingleSink g)
    (n : Nat) (hlen : g.length = .ok n) (hn : 1 ≤ n) (hw : OpMapWF opmap qd.length)
    (ids : List Int) (hids : ∀ p ∈ g.edges, ∀ q ∈ p.2.opics, q.1 ∈ ids) (hnd : ids.Nodup) :
    MPO.DenseIs (out.toMPO qd) qd.length n
      (fun s t => ((wordsOver ids n).map fun w => g.denF w * wordWeight opmap w s t).sum) :=
  fromOpgraph_denseIs_words qd g opmap on out h hc hs n hlen hn hw ids hids hnd

/-- the same with the denotation given, on words of length `n`, as a list of terms `(word, coefficient)`:
`elem s t = Σ_{(v, c) ∈ terms} c · Π_k opmap[v_k][s_k][t_k]` (`= termsEntry opmap terms s t`) -/
theorem from_opgraph_elem_terms (qd : List Int) (g : Graph κ) (opmap : OpMap κ) (on : Bool) (out : MpoOut κ)
    (h : fromOpgraph qd g opmap on = .ok out) (hc : g.isConsistent = true) (hs : SingleSink g)
    (n : Nat) (hlen : g.length = .ok n) (hn : 1 ≤ n) (hw : OpMapWF opmap qd.length)
    (terms : List (Word × κ))
    (hden : ∀ w : Word, w.length = n → g.denF w = (terms.map fun p => if p.1 = w then p.2 else 0).sum) :
    MPO.DenseIs (out.toMPO qd) qd.length n
      (fun s t => (terms.map fun p => p.2 * wordWeight opmap p.1 s t).sum) :=
  fromOpgraph_denseIs qd g opmap on out h hc hs n hlen hn hw terms hden

/-- the last layer visited by `from_opgraph` on a consistent single-sink graph is `[end node]`: the last bond has dimension 1
and carries the charge of the end node -/
theorem from_opgraph_last_bond (qd : List Int) (g : Graph κ) (opmap : OpMap κ) (on : Bool) (out : MpoOut κ)
    (h : fromOpgraph qd g opmap on = .ok out) (hc : g.isConsistent = true) (hs : SingleSink g) :
    out.qD.getLast? = some (layerQ g [g.term true]) := by
  obtain ⟨_, t0, Ls, Ts, ht0, hrun, _, hq, _⟩ := fromOpgraph_spec qd g opmap on out h
  have hlast := run_last g opmap qd.length hc hs Ls Ts hrun
  have hq' : out.qD = ([g.term false] :: Ls).map (layerQ g) := by simp [hq, layerQ, ht0]
  have hg := lastLayer_getLast [g.term false] Ls
  rw [hq', getLast?_eq_getElem?, length_map, length_cons, Nat.add_sub_cancel, getElem?_map, hg, hlast]
  rfl

/-- non-vacuity of `from_opgraph_elem` / `_terms` / `_last_bond`: the graph of the single chain `3 · op₅` on one site and a
`2 × 2` operator map; the element at `([1], [0])` is `3 · opmap[5][1][0] = 9` -/
example : ∃ out, fromOpgraph [0, 0] exGraph [(5, [[1, 2], [3, 4]])] true = .ok out ∧ exGraph.isConsistent = true ∧
    SingleSink exGraph ∧ exGraph.length = .ok 1 ∧ OpMapWF ([(5, [[1, 2], [3, 4]])] : OpMap Int) 2 ∧
    (∀ p ∈ exGraph.edges, ∀ q ∈ p.2.opics, q.1 ∈ [5]) ∧
    (∀ w : Word, w.length = 1 → exGraph.denF w = (([([5], 3)] : List (Word × Int)).map fun p => if p.1 = w then p.2 else 0).sum) ∧
    (out.toMPO [0, 0]).elem [1] [0] = 9 := by
  refine ⟨_, rfl, by decide, by decide, by decide, ?_, by decide, ?_, by decide⟩
  · intro p hp; simp at hp; subst hp; exact ⟨rfl, by simp⟩
  · intro w _
    rw [from_opchains_sem exChains 1 0 exGraph ex_from (le_refl _) (by decide) w]
    have hp : (⟨[5], [0, 0], 3, 0⟩ : OpChain Int).paddedWord 1 0 = [5] := by decide
    simp [chainsDen, exChains, hp]

/-- why `SingleSink` is a hypothesis of its own: a graph that passes `is_consistent()` but has a dead end (node 2) next to the end
node (node 1); `from_opgraph` gives it a last bond of dimension 2 -/
example : (⟨[(0, ⟨0, [], [0, 1], 0⟩), (1, ⟨1, [0], [], 0⟩), (2, ⟨2, [1], [], 0⟩)],
      [(0, ⟨0, (0, 1), [(5, 3)]⟩), (1, ⟨1, (0, 2), [(5, 1)]⟩)], (0, 1)⟩ : Graph Int).isConsistent = true ∧
    ¬ SingleSink (⟨[(0, ⟨0, [], [0, 1], 0⟩), (1, ⟨1, [0], [], 0⟩), (2, ⟨2, [1], [], 0⟩)],
      [(0, ⟨0, (0, 1), [(5, 3)]⟩), (1, ⟨1, (0, 2), [(5, 1)]⟩)], (0, 1)⟩ : Graph Int) ∧
    (fromOpgraph [0, 0] (⟨[(0, ⟨0, [], [0, 1], 0⟩), (1, ⟨1, [0], [], 0⟩), (2, ⟨2, [1], [], 0⟩)],
      [(0, ⟨0, (0, 1), [(5, 3)]⟩), (1, ⟨1, (0, 2), [(5, 1)]⟩)], (0, 1)⟩ : Graph Int) [(5, [[1, 2], [3, 4]])] false).toOption.map
      (fun out => out.qD) = some [[0], [0, 0]] := by
  refine ⟨by decide, by decide, by decide⟩

/-- **The graph built by `from_opchains` has the end node as its only sink** (well-formed chain lists): every node created by
the sweep before the last site gets an outgoing edge, and the last site creates exactly the end node. -/
theorem from_opchains_single_sink (chains : List (OpChain κ)) (L id : Int) (hwf : ChainsWF chains L) (g : Graph κ)
    (h : fromOpchains chains L id = .ok g) : SingleSink g :=
  fromOpchains_singleSink chains L id hwf g h

/-- non-vacuity of `from_opchains_single_sink` -/
example : ChainsWF exChains 1 ∧ fromOpchains exChains 1 0 = .ok exGraph ∧ SingleSink exGraph :=
  ⟨by decide, ex_from, by decide⟩

/-- `from_opchains` only returns when some chain has a non-zero coefficient (otherwise `assert len(vlist_next) == 1` fails),
so once it has returned for `L ≥ 1`, the per-chain guards give `ChainsWF` -/
theorem from_opchains_returns_wf (chains : List (OpChain κ)) (L id : Int) (g : Graph κ)
    (h : fromOpchains chains L id = .ok g) (hL : 1 ≤ L)
    (hch : ∀ c ∈ chains, c.coeff ≠ 0 →
      0 ≤ c.istart ∧ c.istart + (c.oids.length : Int) ≤ L ∧ c.qnums.length = c.oids.length + 1 ∧
      c.qnums.head? = some 0 ∧ c.qnums.getLast? = some 0) : ChainsWF chains L :=
  chainsWF_of_ok chains L id g h hL hch

/-- **Chains to MPO, end to end, dense.**  For a well-formed chain list on `L` sites and a `d × d` operator map: if
`MPO.from_opgraph(qd, OpGraph.from_opchains(chains, L, id), opmap)` returns, the MPO has `L` sites, is shaped, and
`elem s t = Σ_{c ∈ chains} c.coeff · Π_k opmap[padded(c)_k][s_k][t_k]`, the dense matrix of the sum of the identity-padded
chains (repeated chains add up, cancelling chains cancel); `as_matrix()` returns exactly these entries (both paths). -/
theorem chains_to_mpo_elem (chains : List (OpChain κ)) (L id : Int) (hwf : ChainsWF chains L) (g : Graph κ)
    (hg : fromOpchains chains L id = .ok g) (qd : List Int) (opmap : OpMap κ) (on : Bool) (out : MpoOut κ)
    (h : fromOpgraph qd g opmap on = .ok out) (hw : OpMapWF opmap qd.length) :
    MPO.DenseIs (out.toMPO qd) qd.length L.toNat
      (fun s t => (chains.map fun c => c.coeff * wordWeight opmap (c.paddedWord L id) s t).sum) := by
  have hc := from_opchains_consistent chains L id g hg
  have hs := fromOpchains_singleSink chains L id hwf g hg
  have hlen := from_opchains_length chains L id g hwf hg
  have hL := hwf.1
  have hd := fromOpgraph_denseIs qd g opmap on out h hc hs L.toNat hlen (by omega) hw
    (chains.map fun c => (c.paddedWord L id, c.coeff)) (by
      intro w _
      rw [from_opchains_sem chains L id g hg hwf.1 (fun c hc' hc0 => (hwf.2.2 c hc' hc0).1) w]
      simp [chainsDen, map_map, Function.comp_def])
  apply hd.congr
  intro s t _ _
  simp [termsEntry, map_map, Function.comp_def]

/-- non-vacuity of `chains_to_mpo_elem`: two cancelling chains `±2 · op₁ ⊗ id` and `5 · op₃ ⊗ op₄` on two sites are well formed -/
example : ChainsWF ([⟨[1], [0, 0], 2, 0⟩, ⟨[1], [0, 0], -2, 0⟩, ⟨[3, 4], [0, 1, 0], 5, 0⟩] : List (OpChain Int)) 2 := by
  decide

/-- non-vacuity, all hypotheses together on the evaluated run of `Proofs/ChainExamples.lean` -/
example : ∃ out, ChainsWF exChains 1 ∧ fromOpchains exChains 1 0 = .ok exGraph ∧
    fromOpgraph [0, 0] exGraph [(5, [[1, 2], [3, 4]])] true = .ok out ∧ OpMapWF ([(5, [[1, 2], [3, 4]])] : OpMap Int) 2 ∧
    (out.toMPO [0, 0]).elem [1] [0] = 9 :=
  ⟨_, by decide, ex_from, rfl, by intro p hp; simp at hp; subst hp; exact ⟨rfl, by simp⟩, by decide⟩

end Ptn.C05

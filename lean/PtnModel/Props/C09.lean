import PtnModel.Proofs.EvoCancel
import PtnModel.Proofs.EvoExample
/-!
# C09 — TDVP is exact on a complete manifold and exactly time-reversible

Property (properties.jsonl): *When the bond dimensions of the state admit every vector of its quantum-number sector and
the local Krylov dimension covers the local problem, one or more TDVP steps of either integrator reproduce
exp(-dt·n·H) applied to the normalized initial state, for real, imaginary and complex dt.  With exact local exponentials,
single-site steps with dt followed by the same number of steps with -dt return the initial state for any bond dimension
and any complex dt, once the result is multiplied by the norm reported by the second call (which is one for purely
imaginary dt), because the integrator is symmetric.*

Model: `Ptn.Evo.localHamiltonianStep` (`_local_hamiltonian_step`, `PtnModel/Model/Evolution.lean`) and
`Ptn.Krylov.expmKrylov` (`PtnModel/Model/Krylov.lean`), tied to `pytenet/evolution.py`, `pytenet/krylov.py` by the
correspondences of `harness/props/c09.py`, `c15.py`.  Scalars: any `RCLike 𝕜`, exact arithmetic.

Proved here is the *local* mechanism behind reversibility, for every complex `dt`:
* `krylov_cancel` : for a linear Hermitian map, if both Lanczos runs exhaust their Krylov spaces (the local exponentials
  are exact), `expm_krylov(A, expm_krylov(A, v, dt), -dt) = v`;
* `step_cancel`   : the same for `_local_hamiltonian_step` on site tensors with a Hermitian effective operator
  (`LocalFits`, `LocalHermitian`, see `Props/C08.lean`): a forward step with `dt` followed by a backward step with `-dt`
  and the same effective operator returns the start tensor.
Contracts (hypotheses): `NormContract k.cnorm`; `C15.EighAt` for the two Lanczos runs; `C15.Exhausted` for the two runs
(last Lanczos residual has norm exactly zero — "exact local exponentials"); `E(a) E(-a) = 1` for the scalar exponential
oracle on the arguments `a = dt·θ`, `θ` real.
The global clauses (exactness of complete TDVP steps on a complete manifold, reversibility of complete sweeps) are not
proved, see `obligations/C09.json`.
-/
set_option linter.unusedSectionVars false

namespace Ptn.C09
open Ptn Ptn.Krylov Ptn.Evo Finset

variable {𝕜 : Type} [RCLike 𝕜] [DecidableEq 𝕜]
local notation "conj" => starRingEnd 𝕜

omit [DecidableEq 𝕜] in
/-- **A forward and a backward Krylov exponential cancel.**  `Afun` acts as the Hermitian matrix `M`; the run on
`(v, dt, m)` returns `r`, the run on `(r, -dt, m')` returns `r'`; both runs exhaust their Krylov spaces; the scalar
exponential oracle satisfies `E(-dt x) E(dt x) = 1` for real `x`.  Then `r' = v` (same length, same entries). -/
theorem krylov_cancel {Afun : List 𝕜 → List 𝕜} {dnorm : List 𝕜 → ℝ} {deigh : List ℝ → List ℝ → List ℝ × Mat ℝ}
    {dexp : 𝕜 → 𝕜} {dexpm : Mat 𝕜 → Mat 𝕜} (hN : NormContract dnorm) {v r r' : List 𝕜} {m m' : Nat}
    {M : Nat → Nat → 𝕜} (hM : ActsAs v.length Afun M)
    (hH : ∀ i j, i < v.length → j < v.length → conj (M i j) = M j i) {dt : 𝕜}
    (hE : C15.EighAt Afun dnorm deigh v m) (hX : C15.Exhausted Afun dnorm v m)
    (h : expmKrylov Afun dnorm deigh dexp dexpm v dt m true = .ok r)
    (hE' : C15.EighAt Afun dnorm deigh r m') (hX' : C15.Exhausted Afun dnorm r m')
    (h' : expmKrylov Afun dnorm deigh dexp dexpm r (-dt) m' true = .ok r')
    (hexp : ∀ x : ℝ, dexp (-dt * (x : 𝕜)) * dexp (dt * (x : 𝕜)) = 1) :
    r'.length = v.length ∧ ∀ i, i < v.length → vget r' i = vget v i :=
  expm_cancel hN hM hH hE hX h hE' hX' h' hexp

omit [RCLike 𝕜] [DecidableEq 𝕜] in
/-- non-vacuity of `krylov_cancel`: all hypotheses hold jointly for a run that really changes the vector (the map
`x ↦ 2x` on `ℝ²`, one iteration in both directions, `dt = 1`, `E(y) = y + √(1 + y²)`); proof in
`Proofs/EvoSpectral.lean` -/
example : ∃ (Afun : List ℝ → List ℝ) (M : Nat → Nat → ℝ) (dnorm : List ℝ → ℝ)
    (deigh : List ℝ → List ℝ → List ℝ × Mat ℝ) (dexp : ℝ → ℝ) (v r r' : List ℝ) (dt : ℝ),
    NormContract dnorm ∧ ActsAs v.length Afun M ∧
    (∀ i j, i < v.length → j < v.length → (starRingEnd ℝ) (M i j) = M j i) ∧
    C15.EighAt Afun dnorm deigh v 1 ∧ C15.Exhausted Afun dnorm v 1 ∧
    expmKrylov Afun dnorm deigh dexp id v dt 1 true = .ok r ∧
    C15.EighAt Afun dnorm deigh r 1 ∧ C15.Exhausted Afun dnorm r 1 ∧
    expmKrylov Afun dnorm deigh dexp id r (-dt) 1 true = .ok r' ∧
    (∀ x : ℝ, dexp (-dt * (RCLike.ofReal x : ℝ)) * dexp (dt * (RCLike.ofReal x : ℝ)) = 1) ∧ vget r 0 ≠ vget v 0 :=
  expm_cancel_nonvacuous

/-- **A forward and a backward local step cancel.**  `_local_hamiltonian_step(L, R, W, A, dt, m)` returns `A1`,
`_local_hamiltonian_step(L, R, W, A1, -dt, m')` returns `A2`; the effective operator is Hermitian; both Lanczos runs
exhaust their Krylov spaces; `E(a) E(-a) = 1`.  Then `A2` has the shape and the entries of `A` — for every complex `dt`
and every bond dimension. -/
theorem step_cancel {k : EvoKernels 𝕜 ℝ} {L R : T3 𝕜} {W : T4 𝕜} {A A1 A2 : T3 𝕜} {dt : 𝕜} {m m' : Nat}
    (hN : NormContract k.cnorm) (hF : LocalFits L R W A.d0 A.d1 A.d2) (hH : LocalHermitian L R W A.d0 A.d1 A.d2)
    (hE : C15.EighAt (localHFun L R W A.d0 A.d1 A.d2) k.cnorm k.deigh (flat3 A) m)
    (hX : C15.Exhausted (localHFun L R W A.d0 A.d1 A.d2) k.cnorm (flat3 A) m)
    (h1 : localHamiltonianStep k L R W A dt m = .ok A1)
    (hE' : C15.EighAt (localHFun L R W A.d0 A.d1 A.d2) k.cnorm k.deigh (flat3 A1) m')
    (hX' : C15.Exhausted (localHFun L R W A.d0 A.d1 A.d2) k.cnorm (flat3 A1) m')
    (h2 : localHamiltonianStep k L R W A1 (-dt) m' = .ok A2)
    (hexp : ∀ x : ℝ, k.dexp (dt * (x : 𝕜)) * k.dexp (-dt * (x : 𝕜)) = 1) :
    A2.d0 = A.d0 ∧ A2.d1 = A.d1 ∧ A2.d2 = A.d2 ∧
      ∀ s a b, s < A.d0 → a < A.d1 → b < A.d2 → A2.f s a b = A.f s a b :=
  localStep_cancel hN hF hH hE hX h1 hE' hX' h2 hexp

/-- non-vacuity of `step_cancel`, all hypotheses except `C15.Exhausted` (whose satisfiability together with successful
forward and backward runs is shown on the vector level by the example for `krylov_cancel` above): the Hermitian
one-site operator `exW = [[1, i], [-i, -1]]` between trivial blocks, start tensor `exA = (1, 0)`, kernels `exK`
(`dexp ≡ 1`, so `E(a) E(-a) = 1`), one Lanczos iteration; both local steps return. -/
example : ∃ A1 A2 : T3 ℂ, NormContract exK.cnorm ∧
    LocalFits (ones111 : T3 ℂ) ones111 exW exA.d0 exA.d1 exA.d2 ∧
    LocalHermitian (ones111 : T3 ℂ) ones111 exW exA.d0 exA.d1 exA.d2 ∧
    C15.EighAt (localHFun (ones111 : T3 ℂ) ones111 exW exA.d0 exA.d1 exA.d2) exK.cnorm exK.deigh (flat3 exA) 1 ∧
    localHamiltonianStep exK ones111 ones111 exW exA Complex.I 1 = .ok A1 ∧
    C15.EighAt (localHFun (ones111 : T3 ℂ) ones111 exW exA.d0 exA.d1 exA.d2) exK.cnorm exK.deigh (flat3 A1) 1 ∧
    localHamiltonianStep exK ones111 ones111 exW A1 (-Complex.I) 1 = .ok A2 ∧
    ∀ x : ℝ, exK.dexp (Complex.I * (x : ℂ)) * exK.dexp (-Complex.I * (x : ℂ)) = 1 := by
  obtain ⟨A1, h1⟩ := localStep_ok_one (k := exK) rfl (L := ones111) (R := ones111) (W := exW) sqrtNorm_contract exA_pos Complex.I
  -- the evolved tensor has the norm of the start tensor (`C08.local_step_unitary`), hence positive norm
  obtain ⟨a0, a1, a2, hfr⟩ := localStep_norm (t := -1) sqrtNorm_contract exLocal_fits exLocal_herm (eighAt_one _ _ _)
    exK_exp (by simp) h1
  have hpos : 0 < exK.cnorm (flat3 A1) := by
    show 0 < sqrtNorm (flat3 A1)
    have h0 : 0 < sqrtNorm (flat3 exA) := exA_pos
    unfold sqrtNorm at h0 ⊢
    rw [sqNorm_flat3] at h0 ⊢
    rw [hfr]; exact h0
  obtain ⟨A2, h2⟩ := localStep_ok_one (k := exK) rfl (L := ones111) (R := ones111) (W := exW) sqrtNorm_contract hpos (-Complex.I)
  exact ⟨A1, A2, sqrtNorm_contract, exLocal_fits, exLocal_herm, eighAt_one _ _ _, h1, eighAt_one _ _ _, h2,
    fun _ => by simp [exK]⟩

end Ptn.C09

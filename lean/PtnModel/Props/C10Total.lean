import PtnModel.Proofs.EvoTotDmrg
import PtnModel.Props.C10
import PtnModel.Props.C02Evo
/-!
# C10 — totality of single-site DMRG (the run returns), and the unconditional form of the energy clauses

`Props/C10.lean` proves consistency, the variational bounds and monotonicity *conditional on the run returning `.ok`*.
Here the condition is removed for `calculate_ground_state_local_singlesite` (model `Ptn.Evo.dmrgSinglesite`).

Exception paths of the model and why they are excluded (as for C08, see `Props/C08Total.lean`):
* prologue (`assert L == psi.nsites`, `orthonormalize`, `compute_right_operator_blocks`, `assert is_qsparse(BR[i], …)`):
  `Evo.prologue_ok` — needs the trailing MPO bond charge to be zero (asserted by the code on `BR[L-1]`);
* `eigh_krylov` → `lanczos_iteration`: `assert nrmv > 0` — the start tensor is the centre tensor of a normalised
  mixed-canonical state (Frobenius norm one); `numiter = 0` raises (`np.zeros(-1)`), so `numiter ≥ 1` is assumed;
  **`numiter = 1` is fine**: the Lanczos loop is empty, `alpha = [⟨v₀, A v₀⟩]`, the `1 × 1` eigenproblem returns the
  normalised start tensor and its Rayleigh quotient (the Python code returns as well: `eigh_tridiagonal` accepts a `1 × 1` problem);
  `w_hess[0]`, `u_ritz[:, 0]`, `V @ u_hess` — shape clauses of the `eigh_tridiagonal` contract;
* `local_orthonormalize_left_qr` / `_right_qr` (block QR assertions, the `einsum` with the neighbour): the optimised tensor
  is block sparse w.r.t. the current charges (`HistWf.EvoSparse` of C02, `minimize_sparse`), all dimensions positive;
* `contraction_operator_step_left/right`: shapes of `Canon`;
* the final `local_orthonormalize_right_qr(psi.A[0], [[[1]]], …)`: leading bond of dimension one.

The chain length is arbitrary (`L ≥ 1`) for totality: for `L = 1` both half sweeps are empty, every sweep reports the
initial value `en = 0` (model and Python) and only normalises; the energy clauses of C10 need `L ≥ 2`.
The state need not be non-zero (exact arithmetic: the right-orthonormalised state has norm one unconditionally).
-/
set_option linter.unusedSectionVars false

namespace Ptn.C10
open Ptn Ptn.Krylov Ptn.Evo Ptn.BondOps Ptn.Ortho Ptn.Env Finset

variable {𝕜 : Type} [RCLike 𝕜] [DecidableEq 𝕜]

/-- **Totality of single-site DMRG.**  For a well-formed (block-sparse), shaped, dense-Hermitian MPO `H` compatible with
the admissible state `ψ` (`C02.EvoCompat`) whose trailing bond charge is zero, every chain length `L ≥ 1`, `numiter ≥ 1`
(in particular `numiter = 1`), any number of sweeps, under the kernel contracts (`SweepCtx`: `C01.QRKernel`,
`NormContract`, `C15.EighAt` at all Lanczos runs): `calculate_ground_state_local_singlesite` returns. -/
theorem dmrg1_total {k : EvoKernels 𝕜 ℝ} {H : MPO 𝕜} {ψ : MPS 𝕜} {numiter : Nat}
    (ctx : SweepCtx k H ψ.qd numiter) (hm : 1 ≤ numiter)
    (hHwf : H.wellFormed = true) (hc : C02.EvoCompat H ψ) (hlast : (H.qD.getD H.A.length []).getD 0 0 = 0)
    (hadm : Admissible ψ) (hlen : H.A.length = ψ.A.length) (numsweeps : Nat) :
    ∃ ψ' en, dmrgSinglesite k H ψ numsweeps numiter = .ok (ψ', en) :=
  dmrg1_ok ctx hm (HistWf.hOk_of_wf hHwf hc.1 hc.2) hlast hadm hlen numsweeps

/-- **Consistency — unconditional form** (`L ≥ 2`, `numsweeps ≥ 1`): the call returns `(ψ', en)`, one reported energy per
sweep, `Σ_σ |ψ'[σ]|² = 1`, and `⟨ψ'|H|ψ'⟩` is the last reported energy. -/
theorem dmrg1_energy_consistent_total {k : EvoKernels 𝕜 ℝ} {H : MPO 𝕜} {ψ : MPS 𝕜} {numiter : Nat}
    (ctx : SweepCtx k H ψ.qd numiter) (hm : 1 ≤ numiter)
    (hHwf : H.wellFormed = true) (hc : C02.EvoCompat H ψ) (hlast : (H.qD.getD H.A.length []).getD 0 0 = 0)
    (hadm : Admissible ψ) (hlen : H.A.length = ψ.A.length) (hL2 : 2 ≤ H.A.length) {numsweeps : Nat}
    (hns : 1 ≤ numsweeps) :
    ∃ ψ' en, dmrgSinglesite k H ψ numsweeps numiter = .ok (ψ', en) ∧
      en.length = numsweeps ∧ ∑ σ ∈ digitsU ψ.qd.length ψ'.A.length, ‖ψ'.amp σ‖ ^ 2 = 1 ∧
      ∃ elast, en.getLast? = some elast ∧ energy ψ' H ψ.qd.length = ((elast : ℝ) : 𝕜) := by
  obtain ⟨ψ', en, h⟩ := dmrg1_total ctx hm hHwf hc hlast hadm hlen numsweeps
  exact ⟨ψ', en, h, dmrg1_energy_consistent ctx hL2 hadm hns h⟩

/-- **Variational bounds and monotonicity — unconditional form** (`L ≥ 2`): the call returns `(ψ', en)` and every reported
energy `e` satisfies `μ ≤ e` for every lower bound `μ` of the dense operator and `e ‖ψ‖² ≤ ⟨ψ|H|ψ⟩`; the reported energies
are non-increasing. -/
theorem dmrg1_variational_total {k : EvoKernels 𝕜 ℝ} {H : MPO 𝕜} {ψ : MPS 𝕜} {numiter : Nat}
    (ctx : SweepCtx k H ψ.qd numiter) (hm : 1 ≤ numiter)
    (hHwf : H.wellFormed = true) (hc : C02.EvoCompat H ψ) (hlast : (H.qD.getD H.A.length []).getD 0 0 = 0)
    (hadm : Admissible ψ) (hlen : H.A.length = ψ.A.length) (hL2 : 2 ≤ H.A.length) (numsweeps : Nat) :
    ∃ ψ' en, dmrgSinglesite k H ψ numsweeps numiter = .ok (ψ', en) ∧
      (∀ e ∈ en, (∀ μ, DenseLower H ψ.qd.length μ → μ ≤ e) ∧
        e * ∑ σ ∈ digitsU ψ.qd.length ψ.A.length, ‖ψ.amp σ‖ ^ 2 ≤ RCLike.re (energy ψ H ψ.qd.length)) ∧
      en.Pairwise (· ≥ ·) := by
  obtain ⟨ψ', en, h⟩ := dmrg1_total ctx hm hHwf hc hlast hadm hlen numsweeps
  exact ⟨ψ', en, h, dmrg1_variational ctx hL2 hadm h⟩

/-! ## non-vacuity

The kernels `Evo.exK` over `ℂ` with one Lanczos iteration, the Hermitian block-sparse two-site MPO `exOC = Z ⊗ 1 + 1 ⊗ Z`
and the admissible state `exψC = |01⟩ + i|10⟩` satisfy all hypotheses; by the theorems the two-site driver-level run
returns for every number of sweeps, with the stated properties. -/

example : SweepCtx exK exOC exψC.qd 1 ∧ 1 ≤ 1 ∧ exOC.wellFormed = true ∧ C02.EvoCompat exOC exψC ∧
    (exOC.qD.getD exOC.A.length []).getD 0 0 = 0 ∧ Admissible exψC ∧ exOC.A.length = exψC.A.length ∧
    2 ≤ exOC.A.length :=
  ⟨exK_ctx, le_refl 1, C02.exOC_wf, C02.exCompat, rfl, exψC_adm, rfl, by decide⟩

/-- an actual two-site driver-level run (`numiter = 1`), every number of sweeps `≥ 1` -/
example (numsweeps : Nat) (hns : 1 ≤ numsweeps) : ∃ ψ' en, dmrgSinglesite exK exOC exψC numsweeps 1 = .ok (ψ', en) ∧
    en.length = numsweeps ∧ ∑ σ ∈ digitsU exψC.qd.length ψ'.A.length, ‖ψ'.amp σ‖ ^ 2 = 1 ∧ en.Pairwise (· ≥ ·) := by
  obtain ⟨ψ', en, h, h1, h2, _⟩ := dmrg1_energy_consistent_total (k := exK) (H := exOC) (ψ := exψC) exK_ctx (le_refl 1)
    C02.exOC_wf C02.exCompat rfl exψC_adm rfl (by decide) hns
  exact ⟨ψ', en, h, h1, h2, (dmrg1_variational exK_ctx (by decide) exψC_adm h).2⟩

end Ptn.C10

import PtnModel.Props.C05Dense
import PtnModel.Proofs.SmallKron
import PtnModel.Proofs.DenseFromVectorShape
/-!
# C05 (kron helper) — `mpoAsMatrix` of `Model/OpGraph.lean` equals `MPO.asMatrix` of the MPO model

The dense theorems of `Props/C05Dense.lean` are about `MPO.elem` / `MPO.asMatrix` / `MPO.asMatrixSparse` of
`Model/MPO.lean` applied to the `from_opgraph` output (`MpoOut.toMPO`).  The driver op that the correspondence compares
numerically with `MPO.as_matrix()` of the real code uses another, `numpy.kron`-style helper: `Ptn.Og.mpoAsMatrix`
(nested lists; for every right bond index `j` it keeps `Σ_i kron(cur_i, A[:, :, i, j])`).  This file proves the two
equal, entry by entry:

* `mpoAsMatrix_eq_asMatrix`        -- for every list of nested-list tensors that is shaped as an MPO (`MPO.Shaped` of the value
  `(qd, qD, tensors.map toT4)`), rectangular in the physical indices and with positive bond dimensions: `mpoAsMatrix`
  returns a `d^L × d^L` matrix, `MPO.asMatrix` returns one too, and all entries agree;
* `from_opgraph_mpoAsMatrix`       -- these hypotheses hold for every output of `MPO.from_opgraph` on a consistent single-sink
  graph of length `n ≥ 1`; so the matrix the driver hands to the correspondence is `MPO.asMatrix (out.toMPO qd)`.
-/
set_option linter.unusedSectionVars false
namespace Ptn.C05
open Ptn Ptn.Og Ptn.Ch List

variable {κ : Type} [CommRing κ] [DecidableEq κ]

/-- **`mpoAsMatrix` = `MPO.asMatrix`, entrywise.**  `Ts` are nested-list tensors `A[s][t][i][j]`; the MPO value read off them
(`toT4`: dimensions as NumPy reports them) is shaped with physical dimension `d`; every tensor has `d` rows of `d`
columns (`RectPhys`) and a positive right bond dimension.  Then both functions return, the results are `d^L × d^L`, and
`M[i][j] = m.f i j` for all `i, j < d^L`. -/
theorem mpoAsMatrix_eq_asMatrix (d : Nat) (qd : List Int) (qD : List (List Int)) (Ts : List (Tensor κ))
    (hsh : MPO.Shaped (⟨qd, qD, Ts.map toT4⟩ : MPO κ) d) (hrect : ∀ A ∈ Ts, RectPhys d A)
    (hpos : ∀ A ∈ Ts, 0 < D1of A) :
    ∃ (M : Og.Mat κ) (m : Ptn.Mat κ), mpoAsMatrix Ts = .ok M ∧ (⟨qd, qD, Ts.map toT4⟩ : MPO κ).asMatrix = .ok m ∧
      IsMat M (d ^ Ts.length) (d ^ Ts.length) ∧ m.m = d ^ Ts.length ∧ m.n = d ^ Ts.length ∧
      ∀ i j, i < d ^ Ts.length → j < d ^ Ts.length → M.entry i j = m.f i j := by
  have hne : Ts ≠ [] := by
    intro h
    exact hsh.nonempty (by simp [h])
  obtain ⟨k1, k2, k3⟩ := kronFold_spec d Ts 1 1 1 [Og.Mat.identity 1] hsh.chain hrect (by omega) hpos rfl
    (by intro m hm; rw [mem_singleton] at hm; subst hm; exact identity_isMat 1)
  obtain ⟨m, hm⟩ := MPO.asMatrix_ok _ d hsh
  obtain ⟨m1, m2, m3⟩ := MPO.asMatrix_elem _ d hsh m hm
  simp only [length_map] at m1 m2 m3
  have hfold : mpoAsMatrix Ts = .ok ((Ts.foldl kronStep [Og.Mat.identity 1]).getD 0 []) := by
    unfold mpoAsMatrix
    have e0 : Ts.isEmpty = false := by
      cases Ts with
      | nil => exact absurd rfl hne
      | cons _ _ => rfl
    simp only [e0, Bool.false_eq_true, if_false]
    show (do
      Ptn.pyAssert ((Ts.foldl kronStep [Og.Mat.identity 1]).length == 1)
      pyIdx (Ts.foldl kronStep [Og.Mat.identity 1]) 0) = _
    rw [k1]
    simp only [beq_self_eq_true, Ptn.pyAssert, if_true]
    show pyIdx (Ts.foldl kronStep [Og.Mat.identity 1]) 0 = _
    unfold pyIdx
    have : 0 < (Ts.foldl kronStep [Og.Mat.identity 1]).length := by rw [k1]; omega
    simp [List.getD_eq_getElem?_getD, List.getElem?_eq_getElem this]
  refine ⟨_, m, hfold, hm, ?_, m1, m2, ?_⟩
  · have hmem : (Ts.foldl kronStep [Og.Mat.identity 1]).getD 0 [] ∈ Ts.foldl kronStep [Og.Mat.identity 1] := by
      have : 0 < (Ts.foldl kronStep [Og.Mat.identity 1]).length := by rw [k1]; omega
      rw [List.getD_eq_getElem?_getD, List.getElem?_eq_getElem this]
      exact getElem_mem _
    simpa using k2 _ hmem
  · intro i j hi hj
    obtain ⟨s, hs, rfl⟩ := flat_surj d Ts.length i hi
    obtain ⟨t, ht, rfl⟩ := flat_surj d Ts.length j hj
    rw [m3 s t hs ht]
    have := k3 0 0 s t hs ht 0 (by omega)
    rw [show flat d s = flatFrom d 0 s from rfl, show flat d t = flatFrom d 0 t from rfl, this]
    unfold MPO.elem
    apply MPO.elemRow_congr d (Ts.map toT4) s t 1 1 _ _ hsh.chain (by simpa using hs.1) (by simpa using ht.1) _ 0 (by omega)
    intro a ha
    have : a = 0 := by omega
    subst this
    simp [identity_one_entry]

/-- **The matrix the driver reports for a `from_opgraph` output is `MPO.asMatrix` of the MPO value.**  For every
consistent graph of length `n ≥ 1` whose only sink is the end node and every `d × d` operator map (`d = len(qd)`): if the
conversion returns `out`, then `mpoAsMatrix out.tensors` returns a `d^n × d^n` matrix whose entries are those of
`(out.toMPO qd).asMatrix`. -/
theorem from_opgraph_mpoAsMatrix (qd : List Int) (g : Graph κ) (opmap : OpMap κ) (on : Bool) (out : MpoOut κ)
    (h : fromOpgraph qd g opmap on = .ok out) (hc : g.isConsistent = true) (hs : SingleSink g)
    (n : Nat) (hlen : g.length = .ok n) (hn : 1 ≤ n) (hw : OpMapWF opmap qd.length) :
    ∃ (M : Og.Mat κ) (m : Ptn.Mat κ), mpoAsMatrix out.tensors = .ok M ∧ (out.toMPO qd).asMatrix = .ok m ∧
      IsMat M (qd.length ^ n) (qd.length ^ n) ∧ m.m = qd.length ^ n ∧ m.n = qd.length ^ n ∧
      ∀ i j, i < qd.length ^ n → j < qd.length ^ n → M.entry i j = m.f i j := by
  have hD := from_opgraph_elem qd g opmap on out h hc hs n hlen hn hw
    ((g.edges.flatMap fun p => p.2.opics.map (·.1)).dedup)
    (fun p hp q hq => mem_dedup.2 (mem_flatMap.2 ⟨p, hp, mem_map_of_mem hq⟩)) (nodup_dedup _)
  obtain ⟨hd, t0, Ls, Ts, _, hrun, hT, _, _⟩ := fromOpgraph_spec qd g opmap on out h
  have hrp := run_rect g opmap qd.length hd Ls Ts [g.term false] hrun (by simp)
  have hsites : out.tensors.length = n := by
    have := hD.sites
    simpa [MpoOut.toMPO] using this
  have hsh : MPO.Shaped (⟨qd, out.qD, out.tensors.map toT4⟩ : MPO κ) qd.length := hD.shaped
  obtain ⟨M, m, h1, h2, h3, h4, h5, h6⟩ := mpoAsMatrix_eq_asMatrix qd.length qd out.qD out.tensors hsh
    (fun A hA => (hrp A (hT ▸ hA)).1) (fun A hA => (hrp A (hT ▸ hA)).2)
  rw [hsites] at h3 h4 h5 h6
  exact ⟨M, m, h1, h2, h3, h4, h5, h6⟩

/-! ### non-vacuity -/

/-- a two-site graph: `Z ⊗ B + 3·X ⊗ 2·Z` with `B = [[1,2],[3,4]]` (operator ids 1 = Z, 2 = X, 5 = B) -/
def exKronGraph : Graph ℤ :=
  { nodes := [(0, ⟨0, [], [30, 31], 0⟩), (1, ⟨1, [30], [20], 0⟩), (2, ⟨2, [31], [21], 0⟩), (3, ⟨3, [20, 21], [], 0⟩)],
    edges := [(30, ⟨30, (0, 1), [(1, 1)]⟩), (31, ⟨31, (0, 2), [(2, 3)]⟩), (20, ⟨20, (1, 3), [(5, 1)]⟩),
      (21, ⟨21, (2, 3), [(1, 2)]⟩)],
    nidTerminal := (0, 3) }

def exKronOps : OpMap ℤ := [(1, [[1, 0], [0, -1]]), (2, [[0, 1], [1, 0]]), (5, [[1, 2], [3, 4]])]

/-- all hypotheses of `from_opgraph_mpoAsMatrix` hold, the conversion returns, and `mpoAsMatrix` gives the `4 × 4` matrix
`Z ⊗ B + 6·X ⊗ Z` -/
example : exKronGraph.isConsistent = true ∧ SingleSink exKronGraph ∧ exKronGraph.length = .ok 2 ∧ OpMapWF exKronOps 2 ∧
    (do let out ← fromOpgraph [0, 0] exKronGraph exKronOps false; mpoAsMatrix out.tensors)
      = .ok [[1, 2, 6, 0], [3, 4, 0, -6], [6, 0, -1, -2], [0, -6, -3, -4]] := by
  refine ⟨by decide, by decide, by decide, ?_, by decide⟩
  intro p hp
  simp only [exKronOps, List.mem_cons, List.mem_nil_iff, or_false] at hp
  rcases hp with rfl | rfl | rfl <;> simp [IsShape]

end Ptn.C05


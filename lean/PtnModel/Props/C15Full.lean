import PtnModel.Proofs.KryFullExample
import PtnModel.Props.C15Exact
import PtnModel.Props.C15Exists
import PtnModel.Props.C15Cap
/-!
# C15 / C14 — a full-length Krylov run IS an exhausted run (the clause "in particular the full dimension")

Property C15 (properties.jsonl): *… Whenever the iteration count reaches the dimension of the Krylov space (in particular the
full dimension), the exponential equals the exact matrix exponential applied to the vector, for both the Hermitian and the
general branch, and the lowest Ritz value equals the smallest eigenvalue reachable from the starting vector …*

The exactness theorems of `Props/C15.lean`, `Props/C15Exact.lean` take "the Krylov space is exhausted" as the hypothesis
`Exhausted` / `ExhaustedA` (the norm oracle returns exactly `0` on the last residual).  Here that hypothesis is DERIVED for a
full-length run: if the (capped, F11) iteration returned `n = len(v)` vectors, these are `n` orthonormal vectors of length
`n` (C14 `lanczos_relations` / `arnoldi_relations`), so the square matrix `V` satisfies `Vᴴ V = 1`, hence `V Vᴴ = 1`
(`Matrix.mul_eq_one_comm`), and the last residual — orthogonal to all columns by the three-term recurrence and Hermiticity
(Lanczos; linearity is not needed), resp. by construction (Gram–Schmidt, Arnoldi, arbitrary map) — is `V Vᴴ r = 0`.

* `FullRun` / `FullRunA` : whatever the call returns has `len(v)` columns (checkable on the output: `V.shape[1] == len(v)`;
  equivalently `len(alpha) == len(v)`: `fullRun_iff_alpha`);
* `exhausted_of_full`, `exhaustedA_of_full` : `FullRun → Exhausted`, `FullRunA → ExhaustedA`;
* `lanczos_full_residual_zero`, `arnoldi_full_residual_zero` : the same per call (the C14 form: "the `n`-th residual of a run
  with `n` orthonormal vectors vanishes");
* `lanczos_last_residual_dichotomy`, `arnoldi_last_residual_dichotomy` : for `numiter ≥ len(v)` a returned run either has `n`
  columns and an exactly vanishing last residual, or fewer columns and a last residual below the threshold `100 n 2^-52`
  (an early return by the threshold test does NOT give an exactly vanishing residual — for it only the bounds of
  `Props/C15.lean` are claimed);
* `fullRun_of_no_breakdown` : `numiter ≥ len(v)` and "a shortened result never has a last residual below the threshold"
  (i.e. no breakdown happened) give `FullRun`;
* corollaries without `Exhausted` hypothesis: `ritz_exact_full`, `expm_hermitian_exact_full`,
  `expm_hermitian_matrix_exp_full`, `expm_general_exact_full`, `expm_general_matrix_exp_full`, and the forms
  `ritz_exact_full_eighExact`, `expm_hermitian_matrix_exp_full_eighExact` for the model run with the kernel `eighExact`.
-/
set_option linter.unusedSectionVars false

namespace Ptn.C15
open Ptn Ptn.Krylov Ptn.Evo Finset Matrix

variable {𝕜 : Type} [RCLike 𝕜]
local notation "conj" => starRingEnd 𝕜

variable {Afun : List 𝕜 → List 𝕜} {dnorm : List 𝕜 → ℝ} {deigh : List ℝ → List ℝ → List ℝ × Mat ℝ}
  {dexp : 𝕜 → 𝕜} {dexpm : Mat 𝕜 → Mat 𝕜}

/-- **full-length Lanczos run**: whatever `lanczos_iteration(Afunc, v, numiter)` returns has `len(v)` columns -/
def FullRun (Afun : List 𝕜 → List 𝕜) (dnorm : List 𝕜 → ℝ) (v : List 𝕜) (numiter : Nat) : Prop :=
  ∀ alpha beta V, lanczos Afun dnorm v numiter = .ok (alpha, beta, V) → V.n = v.length

/-- **full-length Arnoldi run** -/
def FullRunA (Afun : List 𝕜 → List 𝕜) (dnorm : List 𝕜 → ℝ) (v : List 𝕜) (numiter : Nat) : Prop :=
  ∀ H V, arnoldi Afun dnorm v numiter = .ok (H, V) → V.n = v.length

/-- the same condition read off `alpha` -/
theorem fullRun_iff_alpha (Afun : List 𝕜 → List 𝕜) (dnorm : List 𝕜 → ℝ) (v : List 𝕜) (numiter : Nat) :
    FullRun Afun dnorm v numiter ↔
      ∀ alpha beta V, lanczos Afun dnorm v numiter = .ok (alpha, beta, V) → alpha.length = v.length := by
  constructor
  · intro h alpha beta V hl
    rw [← (lanczos_sizes Afun dnorm hl).2.2.2.2]; exact h alpha beta V hl
  · intro h alpha beta V hl
    rw [(lanczos_sizes Afun dnorm hl).2.2.2.2]; exact h alpha beta V hl

/-- a full-length run needs `numiter ≥ len(v)` (when the call returns at all) -/
theorem FullRun.le_numiter (hF : FullRun Afun dnorm v numiter) {alpha beta : List ℝ} {V : Mat 𝕜}
    (hl : lanczos Afun dnorm v numiter = .ok (alpha, beta, V)) : v.length ≤ numiter := by
  obtain ⟨_, h2, _, _, h5⟩ := lanczos_sizes Afun dnorm hl
  have := hF alpha beta V hl
  omega

theorem fullRun_capped (Afun : List 𝕜 → List 𝕜) (dnorm : List 𝕜 → ℝ) (v : List 𝕜) (numiter : Nat) :
    FullRun Afun dnorm v numiter ↔ FullRun Afun dnorm v (min numiter v.length) := by
  unfold FullRun
  rw [lanczos_capped' Afun dnorm v numiter]

theorem fullRunA_capped (Afun : List 𝕜 → List 𝕜) (dnorm : List 𝕜 → ℝ) (v : List 𝕜) (numiter : Nat) :
    FullRunA Afun dnorm v numiter ↔ FullRunA Afun dnorm v (min numiter v.length) := by
  unfold FullRunA
  rw [arnoldi_capped' Afun dnorm v numiter]

/-- **The `n`-th residual of a Lanczos run with `n` vectors vanishes** (C14 form).  Norm contract, Hermitian map (w.r.t.
`vdot`; linearity is not needed): if the call returned `n = len(v)` columns, the norm oracle returns exactly `0` on the last
residual `A v_{n-1} - alpha_{n-1} v_{n-1} - beta_{n-2} v_{n-2}`, and all its entries vanish. -/
theorem lanczos_full_residual_zero (hN : NormContract dnorm) {v : List 𝕜} {numiter : Nat}
    (hA : IsHermitian v.length Afun) {alpha beta : List ℝ} {V : Mat 𝕜}
    (hl : lanczos Afun dnorm v numiter = .ok (alpha, beta, V)) (hfull : V.n = v.length) :
    dnorm (lanczosResidual Afun alpha beta V (V.n - 1)) = 0 ∧
      ∀ i, vget (lanczosResidual Afun alpha beta V (V.n - 1)) i = 0 := by
  obtain ⟨st, hc, rfl, rfl, rfl⟩ := lanczos_ok Afun dnorm hl
  obtain ⟨k, _, hf⟩ := lanczosCore_fin hN hA hc
  have hVn : (colsMat v.length st.V).n = k := hf.sized.2.2
  have hk : k = v.length := by rw [← hVn]; exact hfull
  subst hk
  rw [hVn, lanczosResidual_eq hf]
  have h0 := hf.res_norm_zero_of_full hN hA
  exact ⟨h0, fun i => hN.vget_eq_zero h0 i⟩

/-- **The `n`-th Gram–Schmidt residual of an Arnoldi run with `n` vectors vanishes** (arbitrary map). -/
theorem arnoldi_full_residual_zero (hN : NormContract dnorm) {v : List 𝕜} {numiter : Nat} {H V : Mat 𝕜}
    (hl : arnoldi Afun dnorm v numiter = .ok (H, V)) (hfull : V.n = v.length) :
    dnorm (C14.arnoldiResidual Afun V (V.n - 1)) = 0 ∧ ∀ i, vget (C14.arnoldiResidual Afun V (V.n - 1)) i = 0 := by
  obtain ⟨st, hc, rfl, rfl⟩ := arnoldi_ok Afun dnorm hl
  obtain ⟨k, _, hf⟩ := arnoldiCore_fin hN hc
  have hVn : (colsMat v.length st.V).n = k := hf.sized.2.2
  have hk : k = v.length := by rw [← hVn]; exact hfull
  subst hk
  rw [hVn, arnoldiResidual_eq hf]
  have h0 := hf.res_norm_zero_of_full hN
  exact ⟨h0, fun i => hN.vget_eq_zero h0 i⟩

/-- **A full-length Lanczos run is exhausted.**  Norm contract, Hermitian map: `FullRun → Exhausted`. -/
theorem exhausted_of_full (hN : NormContract dnorm) {v : List 𝕜} {numiter : Nat} (hA : IsHermitian v.length Afun)
    (hF : FullRun Afun dnorm v numiter) : Exhausted Afun dnorm v numiter :=
  fun alpha beta V hl => (lanczos_full_residual_zero hN hA hl (hF alpha beta V hl)).1

/-- **A full-length Arnoldi run is exhausted** (arbitrary map): `FullRunA → ExhaustedA`. -/
theorem exhaustedA_of_full (hN : NormContract dnorm) {v : List 𝕜} {numiter : Nat}
    (hF : FullRunA Afun dnorm v numiter) : ExhaustedA Afun dnorm v numiter :=
  fun H V hl => (arnoldi_full_residual_zero hN hl (hF H V hl)).1

/-- **With `numiter ≥ len(v)` the last residual is always small, and exactly zero unless the threshold test ended the run.**
A returned run has either `n = len(v)` columns and a last residual of norm exactly `0`, or fewer columns and a last residual
of norm below `100 n 2^-52` (breakdown).  In the second case the residual need not vanish. -/
theorem lanczos_last_residual_dichotomy (hN : NormContract dnorm) {v : List 𝕜} {numiter : Nat}
    (hA : IsHermitian v.length Afun) (hge : v.length ≤ numiter) {alpha beta : List ℝ} {V : Mat 𝕜}
    (hl : lanczos Afun dnorm v numiter = .ok (alpha, beta, V)) :
    (V.n = v.length ∧ dnorm (lanczosResidual Afun alpha beta V (V.n - 1)) = 0) ∨
    (V.n < v.length ∧ dnorm (lanczosResidual Afun alpha beta V (V.n - 1)) < breakdownThr ℝ v.length) := by
  have hle := (lanczos_le_length Afun dnorm hl).1
  rcases Nat.lt_or_eq_of_le hle with hlt | heq
  · exact Or.inr ⟨hlt, C14.lanczos_full hN hA hl (by omega)⟩
  · exact Or.inl ⟨heq, (lanczos_full_residual_zero hN hA hl heq).1⟩

theorem arnoldi_last_residual_dichotomy (hN : NormContract dnorm) {v : List 𝕜} {numiter : Nat}
    (hge : v.length ≤ numiter) {H V : Mat 𝕜} (hl : arnoldi Afun dnorm v numiter = .ok (H, V)) :
    (V.n = v.length ∧ dnorm (C14.arnoldiResidual Afun V (V.n - 1)) = 0) ∨
    (V.n < v.length ∧ dnorm (C14.arnoldiResidual Afun V (V.n - 1)) < breakdownThr ℝ v.length) := by
  have hle := (arnoldi_le_length Afun dnorm hl).1
  rcases Nat.lt_or_eq_of_le hle with hlt | heq
  · exact Or.inr ⟨hlt, C14.arnoldi_full hN hl (by omega)⟩
  · exact Or.inl ⟨heq, (arnoldi_full_residual_zero hN hl heq).1⟩

/-- **No breakdown ⟹ full-length run.**  If `numiter ≥ len(v)` and a shortened result never has a last residual below the
threshold (the only way the iteration ends early: `C14.lanczos_full`), the run is full-length. -/
theorem fullRun_of_no_breakdown (hN : NormContract dnorm) {v : List 𝕜} {numiter : Nat}
    (hA : IsHermitian v.length Afun) (hge : v.length ≤ numiter)
    (hnb : ∀ alpha beta V, lanczos Afun dnorm v numiter = .ok (alpha, beta, V) → V.n < v.length →
      breakdownThr ℝ v.length ≤ dnorm (lanczosResidual Afun alpha beta V (V.n - 1))) :
    FullRun Afun dnorm v numiter := by
  intro alpha beta V hl
  rcases lanczos_last_residual_dichotomy hN hA hge hl with h | h
  · exact h.1
  · exact absurd h.2 (not_lt.2 (hnb alpha beta V hl h.1))

theorem fullRunA_of_no_breakdown (hN : NormContract dnorm) {v : List 𝕜} {numiter : Nat} (hge : v.length ≤ numiter)
    (hnb : ∀ H V, arnoldi Afun dnorm v numiter = .ok (H, V) → V.n < v.length →
      breakdownThr ℝ v.length ≤ dnorm (C14.arnoldiResidual Afun V (V.n - 1))) :
    FullRunA Afun dnorm v numiter := by
  intro H V hl
  rcases arnoldi_last_residual_dichotomy hN hge hl with h | h
  · exact h.1
  · exact absurd h.2 (not_lt.2 (hnb H V hl h.1))

/-! ## corollaries: the exactness clauses without `Exhausted` hypothesis -/

/-- **Full-length run: the Ritz pairs are exact and the lowest Ritz value is the smallest reachable eigenvalue.**
`ritz_exact` with the hypothesis `Exhausted` replaced by the checkable `FullRun` (the Lanczos run returned `len(v)`
vectors; this needs `numiter ≥ len(v)`). -/
theorem ritz_exact_full (hN : NormContract dnorm) {vstart : List 𝕜} {numiter numeig : Nat} {M : Nat → Nat → 𝕜}
    (hM : ActsAs vstart.length Afun M)
    (hH : ∀ i j, i < vstart.length → j < vstart.length → conj (M i j) = M j i)
    (hE : EighAt Afun dnorm deigh vstart numiter) (hF : FullRun Afun dnorm vstart numiter) (hne : 1 ≤ numeig)
    {ws : List ℝ} {u : Mat 𝕜} (h : eighKrylov Afun dnorm deigh vstart numiter numeig = .ok (ws, u)) :
    (∀ e, e < u.n → ∀ i, i < vstart.length →
      vget (Afun (matCol u e)) i = ((ws.getD e 0 : ℝ) : 𝕜) * vget (matCol u e) i) ∧
    (∀ (x : List 𝕜) (lam : 𝕜), x.length = vstart.length →
      (∀ i, i < vstart.length → vget (Afun x) i = lam * vget x i) → vdot vstart.length x vstart ≠ 0 →
      ∃ r : ℝ, lam = (r : 𝕜) ∧ ws.getD 0 0 ≤ r) ∧
    0 < u.n ∧ vdot vstart.length (matCol u 0) vstart ≠ 0 :=
  ritz_exact hN hM hH hE (exhausted_of_full hN (hM.isHermitian hH) hF) hne h

/-- `ritz_exact_full` for the model run with the kernel `eighExact` (no `EighAt` hypothesis) -/
theorem ritz_exact_full_eighExact (hN : NormContract dnorm) {vstart : List 𝕜} {numiter numeig : Nat}
    {M : Nat → Nat → 𝕜} (hM : ActsAs vstart.length Afun M)
    (hH : ∀ i j, i < vstart.length → j < vstart.length → conj (M i j) = M j i)
    (hF : FullRun Afun dnorm vstart numiter) (hne : 1 ≤ numeig)
    {ws : List ℝ} {u : Mat 𝕜} (h : eighKrylov Afun dnorm eighExact vstart numiter numeig = .ok (ws, u)) :
    (∀ e, e < u.n → ∀ i, i < vstart.length →
      vget (Afun (matCol u e)) i = ((ws.getD e 0 : ℝ) : 𝕜) * vget (matCol u e) i) ∧
    (∀ (x : List 𝕜) (lam : 𝕜), x.length = vstart.length →
      (∀ i, i < vstart.length → vget (Afun x) i = lam * vget x i) → vdot vstart.length x vstart ≠ 0 →
      ∃ r : ℝ, lam = (r : 𝕜) ∧ ws.getD 0 0 ≤ r) ∧
    0 < u.n ∧ vdot vstart.length (matCol u 0) vstart ≠ 0 :=
  ritz_exact_full hN hM hH (eighExact_at Afun dnorm vstart numiter) hF hne h

/-- **Full-length run, Hermitian branch: the result is the spectral exponential of `A` applied to `v`**
(`expm_hermitian_exact` without `Exhausted`): for EVERY decomposition of `v` into eigenvectors of `A` (one exists) the result
is `∑_f dexp(dt μ_f) b_f w_f`; every complex `dt`, every scalar oracle. -/
theorem expm_hermitian_exact_full (hN : NormContract dnorm) {v : List 𝕜} {numiter : Nat} {M : Nat → Nat → 𝕜}
    (hM : ActsAs v.length Afun M) (hH : ∀ i j, i < v.length → j < v.length → conj (M i j) = M j i)
    (hE : EighAt Afun dnorm deigh v numiter) (hF : FullRun Afun dnorm v numiter) {dt : 𝕜} {r : List 𝕜}
    (h : expmKrylov Afun dnorm deigh dexp dexpm v dt numiter true = .ok r) :
    r.length = v.length ∧
    (∃ (k : Nat) (θ : Nat → ℝ) (c : Nat → 𝕜) (u : Nat → List 𝕜),
      (∀ e, e < k → IsEigen v.length Afun (θ e) (u e)) ∧
      (∀ i, i < v.length → vget v i = ∑ e ∈ range k, c e * vget (u e) i)) ∧
    ∀ (K : Nat) (μ : Nat → ℝ) (b : Nat → 𝕜) (w : Nat → List 𝕜),
      (∀ f, f < K → IsEigen v.length Afun (μ f) (w f)) →
      (∀ i, i < v.length → vget v i = ∑ f ∈ range K, b f * vget (w f) i) →
      ∀ i, i < v.length → vget r i = ∑ f ∈ range K, dexp (dt * ((μ f : ℝ) : 𝕜)) * b f * vget (w f) i :=
  expm_hermitian_exact hN hM hH hE (exhausted_of_full hN (hM.isHermitian hH) hF) h

/-- **Full-length run, Hermitian branch = the power-series matrix exponential**: with `dexp = NormedSpace.exp` the result is
Mathlib's `exp(dt • A) *ᵥ v` — no `Exhausted` hypothesis. -/
theorem expm_hermitian_matrix_exp_full (hN : NormContract dnorm) {v : List 𝕜} {numiter : Nat} {M : Nat → Nat → 𝕜}
    (hM : ActsAs v.length Afun M) (hH : ∀ i j, i < v.length → j < v.length → conj (M i j) = M j i)
    (hE : EighAt Afun dnorm deigh v numiter) (hF : FullRun Afun dnorm v numiter)
    (hexp : ∀ z : 𝕜, dexp z = NormedSpace.exp z) {dt : 𝕜} {r : List 𝕜}
    (h : expmKrylov Afun dnorm deigh dexp dexpm v dt numiter true = .ok r) :
    r.length = v.length ∧
    ∀ i : Fin v.length, vget r i = (NormedSpace.exp (dt • toMatrix v.length M) *ᵥ toVec v.length v) i :=
  expm_hermitian_matrix_exp hN hM hH hE (exhausted_of_full hN (hM.isHermitian hH) hF) hexp h

/-- the same for the model run with the kernel `eighExact` -/
theorem expm_hermitian_matrix_exp_full_eighExact (hN : NormContract dnorm) {v : List 𝕜} {numiter : Nat}
    {M : Nat → Nat → 𝕜} (hM : ActsAs v.length Afun M)
    (hH : ∀ i j, i < v.length → j < v.length → conj (M i j) = M j i) (hF : FullRun Afun dnorm v numiter)
    (hexp : ∀ z : 𝕜, dexp z = NormedSpace.exp z) {dt : 𝕜} {r : List 𝕜}
    (h : expmKrylov Afun dnorm eighExact dexp dexpm v dt numiter true = .ok r) :
    r.length = v.length ∧
    ∀ i : Fin v.length, vget r i = (NormedSpace.exp (dt • toMatrix v.length M) *ᵥ toVec v.length v) i :=
  expm_hermitian_matrix_exp_full hN hM hH (eighExact_at Afun dnorm v numiter) hF hexp h

/-- **Full-length run, general branch** (relative to the contract of `scipy.linalg.expm`): the result is `expm(dt A) @ v` for
the explicit (arbitrary) matrix `A` — no `ExhaustedA` hypothesis. -/
theorem expm_general_exact_full (hN : NormContract dnorm) (hC : ExpmContract dexpm)
    {v : List 𝕜} {numiter : Nat} {A : Mat 𝕜} (hAm : A.m = v.length) (hAn : A.n = v.length)
    (hM : ActsAs v.length Afun A.f) (hF : FullRunA Afun dnorm v numiter) {dt : 𝕜} {r : List 𝕜}
    (h : expmKrylov Afun dnorm deigh dexp dexpm v dt numiter false = .ok r) :
    r.length = v.length ∧
    ∀ i, i < v.length → vget r i = ∑ j ∈ range v.length, (dexpm (Mat.scale dt A)).f i j * vget v j :=
  expm_general_exact_partial hN hC hAm hAn hM (exhaustedA_of_full hN hF) h

/-- **Full-length run, general branch = the power-series matrix exponential** (`ExpmExact dexpm`). -/
theorem expm_general_matrix_exp_full (hN : NormContract dnorm) (hC : ExpmExact dexpm)
    {v : List 𝕜} {numiter : Nat} {A : Mat 𝕜} (hAm : A.m = v.length) (hAn : A.n = v.length)
    (hM : ActsAs v.length Afun A.f) (hF : FullRunA Afun dnorm v numiter) {dt : 𝕜} {r : List 𝕜}
    (h : expmKrylov Afun dnorm deigh dexp dexpm v dt numiter false = .ok r) :
    r.length = v.length ∧
    ∀ i : Fin v.length, vget r i = (NormedSpace.exp (dt • toMatrix v.length A.f) *ᵥ toVec v.length v) i :=
  expm_general_matrix_exp hN hC hAm hAn hM (exhaustedA_of_full hN hF) h

/-! ## non-vacuity -/

/-- **an actual full-length Lanczos run in dimension 2**: `A = [[2, 1], [1, 2]]`, `v = (1, 0)`, the 2-norm, every
`numiter ≥ 2` (the first residual `(0, 1)` has norm `1`, far above the threshold, so two vectors are returned): all hypotheses
of `exhausted_of_full`, `ritz_exact_full_eighExact`, `expm_hermitian_matrix_exp_full_eighExact` hold, the calls return, and the
run is exhausted although `A` has two distinct eigenvalues both reachable from `v` -/
example (numiter : Nat) (h2 : 2 ≤ numiter) : ∃ (ws : List ℝ) (u : Mat ℝ) (r : List ℝ),
    NormContract (sqrtNorm (𝕜 := ℝ)) ∧ ActsAs ([1, 0] : List ℝ).length (matvec exSym) exSym.f ∧
    (∀ i j, i < 2 → j < 2 → (starRingEnd ℝ) (exSym.f i j) = exSym.f j i) ∧
    FullRun (matvec exSym) sqrtNorm ([1, 0] : List ℝ) numiter ∧
    Exhausted (matvec exSym) sqrtNorm ([1, 0] : List ℝ) numiter ∧
    eighKrylov (matvec exSym) sqrtNorm eighExact ([1, 0] : List ℝ) numiter 1 = .ok (ws, u) ∧
    expmKrylov (matvec exSym) sqrtNorm eighExact (fun z : ℝ => NormedSpace.exp z) id ([1, 0] : List ℝ) 1 numiter true
      = .ok r := by
  have hM : ActsAs ([1, 0] : List ℝ).length (matvec exSym) exSym.f := actsAs_matvec exSym rfl rfl
  have hF : FullRun (matvec exSym) sqrtNorm ([1, 0] : List ℝ) numiter := fun alpha beta V hl => exSym_full h2 hl
  have hpos : 0 < sqrtNorm ([1, 0] : List ℝ) := (sqrtNorm_contract.pos_iff _).2 ⟨1, by simp, one_ne_zero⟩
  obtain ⟨⟨⟨ws, u⟩, h1⟩, ⟨r, hr⟩⟩ := hermitian_returns_eighExact (matvec exSym) (sqrtNorm (𝕜 := ℝ))
    (fun z : ℝ => NormedSpace.exp z) id sqrtNorm_contract hpos (by omega : 1 ≤ numiter) 1 (1 : ℝ)
  exact ⟨ws, u, r, sqrtNorm_contract, hM, exSym_herm, hF,
    exhausted_of_full sqrtNorm_contract (hM.isHermitian exSym_herm) hF, h1, hr⟩

/-- the hypotheses of `fullRun_of_no_breakdown` hold for the same run (no shortened result exists, so "no breakdown" holds) -/
example (numiter : Nat) (h2 : 2 ≤ numiter) :
    ([1, 0] : List ℝ).length ≤ numiter ∧
    ∀ alpha beta V, lanczos (matvec exSym) sqrtNorm ([1, 0] : List ℝ) numiter = .ok (alpha, beta, V) →
      V.n < ([1, 0] : List ℝ).length →
      breakdownThr ℝ ([1, 0] : List ℝ).length ≤
        sqrtNorm (lanczosResidual (matvec exSym) alpha beta V (V.n - 1)) := by
  refine ⟨h2, fun alpha beta V hl hlt => ?_⟩
  have := exSym_full h2 hl
  omega

/-- the conclusion of `ritz_exact_full_eighExact` for this run: the eigenvalue `1` of `[[2, 1], [1, 2]]` (eigenvector
`(1, -1)`, which overlaps the start vector `(1, 0)`) is reachable, hence the lowest Ritz value is at most `1`; with
`ritz_lower` (`1` is a lower bound of the quadratic form `2a² + 2ab + 2b²`) it EQUALS `1`, the smallest eigenvalue — exactly, for
every `numiter ≥ 2` -/
example (numiter : Nat) (h2 : 2 ≤ numiter) {ws : List ℝ} {u : Mat ℝ}
    (h : eighKrylov (matvec exSym) sqrtNorm eighExact ([1, 0] : List ℝ) numiter 1 = .ok (ws, u)) :
    ws.getD 0 0 = 1 := by
  have hM : ActsAs ([1, 0] : List ℝ).length (matvec exSym) exSym.f := actsAs_matvec exSym rfl rfl
  have hlow : 1 ≤ ws.getD 0 0 := by
    refine ritz_lower sqrtNorm_contract hM exSym_herm (eighExact_at _ _ _ _) (le_refl 1) ?_ h
    intro x hx
    match x, hx with
    | [a, b], _ =>
      have e1 : sqNorm ([a, b] : List ℝ) = a ^ 2 + b ^ 2 := by simp [sqNorm]
      have e2 : vdot ([1, 0] : List ℝ).length [a, b] (matvec exSym [a, b]) = a * (2 * a + b) + b * (a + 2 * b) := by
        simp [vdot_eq_sum, matvec, exSym, vget, sumRange_eq_sum, Finset.sum_range_succ, List.range, List.range.loop]
      rw [e1, e2]
      simp only [RCLike.re_to_real]
      nlinarith [sq_nonneg (a + b)]
  have hF : FullRun (matvec exSym) sqrtNorm ([1, 0] : List ℝ) numiter := fun alpha beta V hl => exSym_full h2 hl
  obtain ⟨_, hreach, _, _⟩ := ritz_exact_full_eighExact sqrtNorm_contract hM exSym_herm hF (le_refl 1) h
  obtain ⟨r, hr, hle⟩ := hreach [1, -1] 1 rfl
    (by
      intro i hi
      have hi2 : i < 2 := hi
      interval_cases i <;>
        simp [matvec, exSym, vget, sumRange_eq_sum, Finset.sum_range_succ, List.range, List.range.loop] <;> norm_num)
    (by simp [vdot_eq_sum, Finset.sum_range_succ, vget])
  have : r = 1 := by exact_mod_cast hr.symm
  rw [this] at hle
  exact le_antisymm hle hlow

/-- the same run for the Arnoldi iteration with the non-normal Jordan block `[[1, 1], [0, 1]]` and `v = (0, 1)`:
`FullRunA` holds, hence `ExhaustedA` -/
example (numiter : Nat) (h2 : 2 ≤ numiter) :
    FullRunA (matvec exJordanR) sqrtNorm ([0, 1] : List ℝ) numiter ∧
    ExhaustedA (matvec exJordanR) sqrtNorm ([0, 1] : List ℝ) numiter ∧
    ∃ r, arnoldi (matvec exJordanR) sqrtNorm ([0, 1] : List ℝ) numiter = .ok r := by
  have hF : FullRunA (matvec exJordanR) sqrtNorm ([0, 1] : List ℝ) numiter := fun H V hl => exJordanR_full h2 hl
  have hpos : 0 < sqrtNorm ([0, 1] : List ℝ) := (sqrtNorm_contract.pos_iff _).2 ⟨1, by simp, one_ne_zero⟩
  exact ⟨hF, exhaustedA_of_full sqrtNorm_contract hF,
    arnoldi_isOk _ _ hpos (by omega) (by simp)⟩

/-- in dimension one every returned run is full-length (one iteration suffices) -/
example : FullRun (matvec (⟨1, 1, fun _ _ => 3⟩ : Mat ℝ)) sqrtNorm ([1] : List ℝ) 1 := by
  intro alpha beta V hl
  obtain ⟨h1, h2, _, _, h5⟩ := lanczos_sizes _ _ hl
  have : alpha.length = 1 := by omega
  rw [h5, this]; rfl

end Ptn.C15

import PtnModel.Props.C05Dense
import PtnModel.Proofs.TotalOpgraph
import PtnModel.Proofs.TotalChainsCharged
/-!
# Property C05, totality: `MPO.from_opgraph` returns

`Props/C05.lean` / `C05Dense.lean` describe the output of `MPO.from_opgraph` *whenever it returns*.  Here the call is shown to
return for every consistent graph whose operators are charge consistent, so that those statements apply unconditionally.

Vocabulary (`Proofs/TotalOpgraph.lean`, namespace `Ptn.Ch`):
* `qOf g nid`               : the quantum number of the node stored under `nid`;
* `TableCharged qd dq om`   : the table `om` exists (`some m`), is `d × d` (`d = len(qd)`) and every non-zero entry `m[s][t]`
  satisfies `qd[s] - qd[t] + dq = 0`;
* `OpsCharged qd g opmap`   : for every edge `n0 → n1` in the edge dictionary of `g` and every `(oid, c)` on it,
  `TableCharged qd (qnum(n0) - qnum(n1)) opmap[oid]` -- the operator map is defined on every operator id occurring in the
  graph, with `d × d` matrices, and every operator shifts the physical charge by exactly the jump of the bond charges of
  its edge.  Decidable (`decide` evaluates it on concrete graphs).

* `ChainsCharged qd opmap id chains` (`Proofs/TotalChainsCharged.lean`, decidable): the identity `id` has a `d × d` table of
  charge 0, and for every chain with non-zero coefficient and every position `k`, `opmap[oids[k]]` is a `d × d` table whose
  non-zero entries `[s, t]` satisfy `qd[s] - qd[t] + qnums[k] - qnums[k+1] = 0`.

No hypothesis on the dictionaries beyond `is_consistent()` is needed (in particular no duplicate-freeness): the walk only ever
looks up ids, and `is_consistent()` already certifies everything it looks up.
-/
set_option linter.unusedSectionVars false

namespace Ptn.C05
open Ptn Ptn.Og Ptn.Ch List

variable {κ : Type} [CommRing κ] [DecidableEq κ]

/-- **`MPO.from_opgraph` returns.**  For every graph passing `is_consistent()`, every non-empty list `qd` of physical charges and
every operator map that is charge consistent on the graph (`OpsCharged`: defined on all operator ids of the graph, `d × d`, every
non-zero entry `[s, t]` of the operator on an edge `n0 → n1` has `qd[s] - qd[t] + qnum(n0) - qnum(n1) = 0`), the call
`MPO.from_opgraph(qd, graph, opmap, compute_nid_map)` returns: no `KeyError` for a node, edge or operator id, no `ValueError`
from `list.index`, the layer walk terminates within its fuel (at most one round per node), `len(A) + 1 == len(qD)`, and the final
`is_qsparse` assertion holds for every tensor -- also where several (parallel) edges contribute to the same block and their
contributions add up, since every single contribution vanishes outside the charge sector. -/
theorem from_opgraph_total (qd : List Int) (g : Graph κ) (opmap : OpMap κ) (on : Bool)
    (hc : g.isConsistent = true) (hd : 1 ≤ qd.length) (hch : OpsCharged qd g opmap) :
    ∃ out, fromOpgraph qd g opmap on = .ok out :=
  fromOpgraph_total qd g opmap on hc hd hch

/-- `OpsCharged` gives the shape hypothesis `OpMapWF` of the dense theorems for the part of the operator map that the graph
uses; for an operator map all of whose ids occur in the graph it is `OpMapWF` itself.  (The dense theorems of `C05Dense` ask
`OpMapWF` of the whole map, which is why it stays a separate hypothesis below.) -/
theorem ops_charged_shape (qd : List Int) (g : Graph κ) (opmap : OpMap κ) (hch : OpsCharged qd g opmap) :
    ∀ p ∈ g.edges, ∀ oc ∈ p.2.opics, ∃ m, opmap.lookup oc.1 = some m ∧ IsShape qd.length m := by
  intro p hp oc hoc
  have := hch p hp oc hoc
  cases hl : opmap.lookup oc.1 with
  | none => rw [hl] at this; exact this.elim
  | some m => rw [hl] at this; exact ⟨m, rfl, this.1⟩

/-- **Unconditional dense statement for `MPO.from_opgraph`.**  For a consistent graph of length `n ≥ 1` whose only sink is the end
node, charge-consistent `d × d` operators (`d ≥ 1`): the conversion returns an MPO with `n` sites whose dense matrix is
`Σ_w denF(g)(w) · Π_k opmap[w_k][s_k][t_k]` (`MPO.elem` and both paths of `as_matrix()`), and whose tensors are block sparse. -/
theorem from_opgraph_elem_total (qd : List Int) (g : Graph κ) (opmap : OpMap κ) (on : Bool)
    (hc : g.isConsistent = true) (hs : SingleSink g) (n : Nat) (hlen : g.length = .ok n) (hn : 1 ≤ n)
    (hd : 1 ≤ qd.length) (hch : OpsCharged qd g opmap) (hw : OpMapWF opmap qd.length)
    (ids : List Int) (hids : ∀ p ∈ g.edges, ∀ q ∈ p.2.opics, q.1 ∈ ids) (hnd : ids.Nodup) :
    ∃ out, fromOpgraph qd g opmap on = .ok out ∧
      MPO.DenseIs (out.toMPO qd) qd.length n
        (fun s t => ((wordsOver ids n).map fun w => g.denF w * wordWeight opmap w s t).sum) := by
  obtain ⟨out, h⟩ := fromOpgraph_total qd g opmap on hc hd hch
  exact ⟨out, h, from_opgraph_elem qd g opmap on out h hc hs n hlen hn hw ids hids hnd⟩

/-- non-vacuity of `from_opgraph_total` / `_elem_total`: the graph of the single chain `3 · op₅` on one site with a diagonal
(charge 0) operator -/
example : exGraph.isConsistent = true ∧ 1 ≤ ([0, 0] : List Int).length ∧
    OpsCharged [0, 0] exGraph ([(5, [[1, 0], [0, 4]])] : OpMap Int) ∧ SingleSink exGraph ∧ exGraph.length = .ok 1 ∧
    fromOpgraph [0, 0] exGraph ([(5, [[1, 0], [0, 4]])] : OpMap Int) false
      = .ok ⟨[[0], [0]], [[[[[3]], [[0]]], [[[0]], [[12]]]]], []⟩ := by
  refine ⟨by decide, by decide, by decide, by decide, by decide, rfl⟩

/-- non-vacuity with parallel edges whose contributions add up and with non-zero bond charges: two edges `0 → 1` carrying
`2 · σ⁺` and `5 · σ⁺` (`σ⁺ = [[0, 1], [0, 0]]` connects `s = 0`, `t = 1`; with `qd = [0, 1]`, `qnum(0) = 0` the end node
must carry charge `-1`); the tensor entry is `2 + 5 = 7` -/
example : (⟨[(0, ⟨0, [], [0, 1], 0⟩), (1, ⟨1, [0, 1], [], -1⟩)],
      [(0, ⟨0, (0, 1), [(5, 2)]⟩), (1, ⟨1, (0, 1), [(5, 5)]⟩)], (0, 1)⟩ : Graph Int).isConsistent = true ∧
    OpsCharged [0, 1] (⟨[(0, ⟨0, [], [0, 1], 0⟩), (1, ⟨1, [0, 1], [], -1⟩)],
      [(0, ⟨0, (0, 1), [(5, 2)]⟩), (1, ⟨1, (0, 1), [(5, 5)]⟩)], (0, 1)⟩ : Graph Int) ([(5, [[0, 1], [0, 0]])] : OpMap Int) ∧
    fromOpgraph [0, 1] (⟨[(0, ⟨0, [], [0, 1], 0⟩), (1, ⟨1, [0, 1], [], -1⟩)],
      [(0, ⟨0, (0, 1), [(5, 2)]⟩), (1, ⟨1, (0, 1), [(5, 5)]⟩)], (0, 1)⟩ : Graph Int) ([(5, [[0, 1], [0, 0]])] : OpMap Int) false
      = .ok ⟨[[0], [-1]], [[[[[0]], [[7]]], [[[0]], [[0]]]]], []⟩ := by
  refine ⟨by decide, by decide, rfl⟩

/-- the hypothesis is sharp in the sense that a charge-violating operator makes the call fail its final assertion:
the same graph with end-node charge `0` -/
example : ¬ OpsCharged [0, 1] (⟨[(0, ⟨0, [], [0], 0⟩), (1, ⟨1, [0], [], 0⟩)],
      [(0, ⟨0, (0, 1), [(5, 2)]⟩)], (0, 1)⟩ : Graph Int) ([(5, [[0, 1], [0, 0]])] : OpMap Int) ∧
    fromOpgraph [0, 1] (⟨[(0, ⟨0, [], [0], 0⟩), (1, ⟨1, [0], [], 0⟩)],
      [(0, ⟨0, (0, 1), [(5, 2)]⟩)], (0, 1)⟩ : Graph Int) ([(5, [[0, 1], [0, 0]])] : OpMap Int) false = .error .assertion := by
  refine ⟨by decide, rfl⟩

/-! ## chains → graph → MPO -/

/-- **`from_opchains` turns charge-consistent chains into a charge-consistent graph.**  If `from_opchains(chains, L, id)`
returns `g` for a well-formed chain list (`ChainsWF`) that is charge consistent (`ChainsCharged`), then every operator on every
edge of `g` is compatible with the quantum numbers of the two nodes the edge connects (`OpsCharged`) -- the sweep creates each
node with the bond charge of the half-chains attached to it, and neither the trailing-coefficient scaling nor the removal of the
dummy node touches operator ids or charges. -/
theorem from_opchains_ops_charged (qd : List Int) (opmap : OpMap κ) (chains : List (OpChain κ)) (L id : Int) (g : Graph κ)
    (h : fromOpchains chains L id = .ok g) (hwf : ChainsWF chains L) (hcc : ChainsCharged qd opmap id chains) :
    OpsCharged qd g opmap :=
  fromOpchains_opsCharged_wf qd opmap chains L id g h hwf hcc

/-- **Chains to MPO, unconditionally.**  For every well-formed (`ChainsWF`: `L ≥ 1`, some non-zero coefficient, chains fit, leading
and trailing charge 0) and charge-consistent (`ChainsCharged`) chain list and every `d = len(qd) ≥ 1`, both
`OpGraph.from_opchains(chains, L, id)` and `MPO.from_opgraph(qd, ·, opmap)` return; the graph is consistent, of length `L`, with
the end node as only sink; and if all tables of the operator map are `d × d`, the MPO has `L` sites and its dense matrix is
`Σ_c coeff_c · ⊗_k opmap[padded(c)_k]` (`MPO.elem` and both paths of `as_matrix()`). -/
theorem chains_to_mpo_total (chains : List (OpChain κ)) (L id : Int) (qd : List Int) (opmap : OpMap κ) (on : Bool)
    (hwf : ChainsWF chains L) (hd : 1 ≤ qd.length) (hcc : ChainsCharged qd opmap id chains) :
    ∃ g out, fromOpchains chains L id = .ok g ∧ fromOpgraph qd g opmap on = .ok out ∧
      g.isConsistent = true ∧ g.length = .ok L.toNat ∧ SingleSink g ∧
      (OpMapWF opmap qd.length →
        MPO.DenseIs (out.toMPO qd) qd.length L.toNat
          (fun s t => (chains.map fun c => c.coeff * wordWeight opmap (c.paddedWord L id) s t).sum)) := by
  obtain ⟨g, out, hg, hout, _⟩ := chains_pipeline_total qd opmap chains L id on hwf hd hcc
  exact ⟨g, out, hg, hout, from_opchains_consistent chains L id g hg, from_opchains_length chains L id g hwf hg,
    from_opchains_single_sink chains L id hwf g hg,
    fun hw => chains_to_mpo_elem chains L id hwf g hg qd opmap on out hout hw⟩

/-- non-vacuity of `chains_to_mpo_total`: `2 · σ⁺ ⊗ σ⁻ - 2 · σ⁺ ⊗ σ⁻ + 5 · σ⁻ ⊗ σ⁺` on two sites (two chains cancel), `qd = [0, 1]`:
`σ⁺ = [[0, 1], [0, 0]]` lowers the charge index by one, so the bond between the sites carries `-1` resp. `+1` -/
example : ChainsWF ([⟨[1, 2], [0, -1, 0], 2, 0⟩, ⟨[1, 2], [0, -1, 0], -2, 0⟩, ⟨[2, 1], [0, 1, 0], 5, 0⟩] : List (OpChain Int)) 2 ∧
    ChainsCharged [0, 1] ([(0, [[1, 0], [0, 1]]), (1, [[0, 1], [0, 0]]), (2, [[0, 0], [1, 0]])] : OpMap Int) 0
      ([⟨[1, 2], [0, -1, 0], 2, 0⟩, ⟨[1, 2], [0, -1, 0], -2, 0⟩, ⟨[2, 1], [0, 1, 0], 5, 0⟩] : List (OpChain Int)) := by
  constructor <;> decide

end Ptn.C05

import PtnModel.Props.C16
import PtnModel.Proofs.OgTotal
import PtnModel.Proofs.OgAddTotal
/-!
# C16 (totality) — the rewrites return on valid graphs

`Props/C16.lean` states what holds *whenever* a rewrite returns.  Here: `simplify` (and each `_simplify_step`) does
return on every valid graph -- no exception of any kind and no exhaustion of the fuel that the model gives to Python's
`while` loops -- so the clause "simplifying an operator graph leaves the denoted operator unchanged, the graph passes its
consistency check, node and edge counts never increase" holds unconditionally for valid graphs.
-/
set_option linter.unusedSectionVars false
namespace Ptn.C16
open Ptn.Og

variable {κ : Type} [CommRing κ] [DecidableEq κ]

/-- **`simplify` is total on valid graphs**, and its result is valid, has the same terminals and denotation and at most
as many nodes and edges.  (Every successful `_simplify_step` removes exactly one edge, so `edges.length + 1` resp.
`edges.length + 2` iterations of the two loops suffice; the layer walk of a step visits layer `i` of the level BFS in
round `i` and ends before round `nodes.length`; `merge_edges` raises none of its assertions on a pair `_simplify_step`
selects.) -/
theorem simplify_total (g : Graph κ) (h : Valid g) :
    ∃ g', g.simplify = .ok g' ∧ Valid g' ∧ g'.isConsistent = true ∧ g'.nidTerminal = g.nidTerminal ∧
      (∀ w : Word, g'.denF w = g.denF w) ∧ g'.nodes.length ≤ g.nodes.length ∧ g'.edges.length ≤ g.edges.length := by
  obtain ⟨g', hr⟩ := Ptn.Og.simplify_total h
  exact ⟨g', hr, simplify_sem g g' h hr⟩

/-- one `_simplify_step` is total on valid graphs: it either merges two different edges (removing exactly one edge,
keeping validity and denotation) or reports that nothing can be merged -/
theorem simplify_step_total (g : Graph κ) (h : Valid g) (d : Bool) :
    g.simplifyStep d = .ok none ∨
    ∃ g', g.simplifyStep d = .ok (some g') ∧ Valid g' ∧ (∀ w : Word, g'.denF w = g.denF w) ∧
      g'.edges.length + 1 = g.edges.length := by
  obtain ⟨r, hr⟩ := simplifyStep_total h d
  cases r with
  | none => exact Or.inl hr
  | some g' =>
    obtain ⟨_, hrel, hcnt⟩ := simplifyStep_sem h.1 hr
    exact Or.inr ⟨g', hr, simplifyStep_valid h hr, hrel.den, hcnt⟩

/-- non-vacuity: the hypothesis holds for `exampleGraph2`, and `simplify` indeed returns there -/
example : Valid exampleGraph2 ∧ (exampleGraph2.simplify).toOption.isSome = true :=
  ⟨(valid_iff _).2 ⟨NoDup.of_noDupB (by decide), by decide⟩, by decide⟩

/-- **`add` is total**: for two valid graphs with two different terminals each and the same length, and iteration orders
that enumerate exactly the shared node resp. edge ids (what CPython's set iteration provides), `addWith` returns -- no
exception, no fuel exhaustion -- a valid graph that denotes exactly the sum of the two operators. -/
theorem add_total (g other : Graph κ) (sn se : List Int) (hg : Valid g) (ho : Valid other)
    (htg : g.term false ≠ g.term true) (hto : other.term false ≠ other.term true)
    (hsn : sn.Nodup ∧ ∀ k, k ∈ sn ↔ (k ∈ dKeys g.nodes ∧ k ∈ dKeys other.nodes))
    (hse : se.Nodup ∧ ∀ k, k ∈ se ↔ (k ∈ dKeys g.edges ∧ k ∈ dKeys other.edges))
    (hlen : ∀ d j j', ReachFrom g d (g.term d) j (g.term (!d)) →
      ReachFrom other d (other.term d) j' (other.term (!d)) → j = j') :
    ∃ g', g.addWith other sn se = .ok g' ∧ Valid g' ∧ g'.isConsistent = true ∧
      ∀ w : Word, g'.denF w = g.denF w + other.denF w := by
  obtain ⟨g', hr⟩ := addWith_total hg ho htg hto hsn hse hlen
  exact ⟨g', hr, add_sem g other g' sn se hg ho htg hto (fun k h1 h2 => (hsn.2 k).2 ⟨h1, h2⟩)
    (fun k h1 h2 => (hse.2 k).2 ⟨h1, h2⟩) hlen hr⟩

/-- **`rename_edge_id` is total** under its documented precondition (the current id exists, the new one does not) -/
theorem rename_edge_total (g : Graph κ) (cur new : Int) (h : Valid g) (hcur : cur ∈ dKeys g.edges)
    (hnew : new ∉ dKeys g.edges) :
    ∃ g', g.renameEdgeId cur new = .ok g' ∧ Valid g' ∧ ∀ w : Word, g'.denF w = g.denF w := by
  obtain ⟨g', hr⟩ := renameEdgeId_total h.1 hcur hnew
  obtain ⟨hv, _, hd⟩ := rename_edge_sem g g' cur new h hr
  exact ⟨g', hr, hv, hd⟩

/-- **`rename_node_id` is total** under its documented precondition -/
theorem rename_node_total (g : Graph κ) (cur new : Int) (h : Valid g) (hcur : cur ∈ dKeys g.nodes)
    (hnew : new ∉ dKeys g.nodes) :
    ∃ g', g.renameNodeId cur new = .ok g' ∧ Valid g' ∧ ∀ w : Word, g'.denF w = g.denF w := by
  obtain ⟨g', hr⟩ := renameNodeId_total h.1 hcur hnew
  obtain ⟨hv, _, hd⟩ := rename_node_sem g g' cur new h hr
  exact ⟨g', hr, hv, hd⟩

/-- non-vacuity of `add_total`: all hypotheses hold for `exampleGraph2` + `exampleGraph3` with the ascending orders -/
example : Valid exampleGraph2 ∧ Valid exampleGraph3 ∧
    ([0, 1] : List Int).Nodup ∧ (∀ k, k ∈ ([0, 1] : List Int) ↔ (k ∈ dKeys exampleGraph2.nodes ∧ k ∈ dKeys exampleGraph3.nodes)) ∧
    (exampleGraph2.addWith exampleGraph3 [0, 1] [30]).toOption.isSome = true := by
  refine ⟨(valid_iff _).2 ⟨NoDup.of_noDupB (by decide), by decide⟩,
    (valid_iff _).2 ⟨NoDup.of_noDupB (by decide), by decide⟩, by decide, ?_, by decide⟩
  intro k
  simp only [exampleGraph2, exampleGraph3, dKeys, List.map_cons, List.map_nil, List.mem_cons, List.mem_nil_iff, or_false]
  omega

end Ptn.C16

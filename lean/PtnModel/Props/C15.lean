import PtnModel.Proofs.KryExact
/-!
# C15 — Krylov approximations are bounded, and exact once the Krylov space is exhausted

Property (properties.jsonl): *For every Hermitian map, starting vector and iteration count, the lowest Ritz value lies
between the smallest eigenvalue and the Rayleigh quotient of the starting vector, and the Hermitian Krylov exponential
with imaginary time argument preserves the norm of the vector.  Whenever the iteration count reaches the dimension of
the Krylov space (in particular the full dimension), the exponential equals the exact matrix exponential applied to the
vector, for both the Hermitian and the general branch, and the lowest Ritz value equals the smallest eigenvalue reachable
from the starting vector; below that point the Ritz vectors are orthonormal with the Ritz values as Rayleigh quotients.*

Model: `Ptn.Krylov.eighKrylov`, `Ptn.Krylov.expmKrylov` (`PtnModel/Model/Krylov.lean`), tied to `pytenet/krylov.py` by
the correspondence of `harness/props/c15.py`.  Scalars: any `RCLike 𝕜`, exact arithmetic.

Kernel contracts (hypotheses, never axioms):
* `NormContract dnorm` (`np.linalg.norm`);
* `EighSpec alpha beta (deigh alpha beta)` (`eigh_tridiagonal`: eigenvalues ascending, `U` real orthogonal,
  `T = U diag(w) Uᵀ`), required only for the tridiagonal matrix the Lanczos run actually produces (`EighAt`);
* for `expm_norm`: `‖dexp (i x)‖ = 1` for real `x` (`np.exp` of a purely imaginary number has modulus one).
The map: `IsHermitian` (Hermitian w.r.t. `vdot`) for `ritz_upper` and `expm_norm`; in addition linear, expressed as
`ActsAs n Afun M` (on vectors of length `n` the map is the matrix `M`), for `ritz_vectors` and `ritz_lower`.

Proved here, for **every** iteration count (`numiter ≥ 1`, also beyond the Krylov dimension, full run or shortened
result): `ritz_upper`, `ritz_lower` (the two-sided bound), `ritz_vectors` (orthonormal Ritz vectors whose Rayleigh
quotients are the Ritz values; moreover `A` is diagonal on them), `expm_norm`.
`ritz_exact`: once the Krylov space is exhausted (last Lanczos residual zero) the Ritz pairs are exact eigenpairs and the
lowest Ritz value is the smallest eigenvalue reachable from the start vector.
Not proved (see `obligations/C15.json`): equality of the Krylov exponential with the exact matrix exponential.
-/
set_option linter.unusedSectionVars false

namespace Ptn.C15
open Ptn Ptn.Krylov Finset

variable {𝕜 : Type} [RCLike 𝕜]
local notation "conj" => starRingEnd 𝕜

/-- the contract of `eigh_tridiagonal` at the tridiagonal matrix produced by the Lanczos run on `(vstart, numiter)` -/
def EighAt (Afun : List 𝕜 → List 𝕜) (dnorm : List 𝕜 → ℝ) (deigh : List ℝ → List ℝ → List ℝ × Mat ℝ)
    (vstart : List 𝕜) (numiter : Nat) : Prop :=
  ∀ alpha beta V, lanczos Afun dnorm vstart numiter = .ok (alpha, beta, V) → EighSpec alpha beta (deigh alpha beta)

/-- the contract of `eigh_tridiagonal` for all symmetric tridiagonal matrices -/
def EighContract (deigh : List ℝ → List ℝ → List ℝ × Mat ℝ) : Prop :=
  ∀ alpha beta, beta.length = alpha.length - 1 → EighSpec alpha beta (deigh alpha beta)

theorem EighContract.at {deigh : List ℝ → List ℝ → List ℝ × Mat ℝ} (h : EighContract deigh)
    (Afun : List 𝕜 → List 𝕜) (dnorm : List 𝕜 → ℝ) (vstart : List 𝕜) (numiter : Nat) :
    EighAt Afun dnorm deigh vstart numiter := by
  intro alpha beta V hl
  obtain ⟨st, hc, rfl, rfl, rfl⟩ := lanczos_ok Afun dnorm hl
  obtain ⟨k, _, _, ha, hb, _⟩ := lanczosCore_sized Afun dnorm hc
  exact h _ _ (by rw [ha, hb])

theorem getD_take_zero {l : List ℝ} {m : Nat} (hm : 1 ≤ m) : (l.take m).getD 0 0 = l.getD 0 0 := by
  cases l with
  | nil => simp
  | cons a t =>
    obtain ⟨m, rfl⟩ : ∃ m', m = m' + 1 := ⟨m - 1, by omega⟩
    simp

theorem getD_take_lt {l : List ℝ} {m e : Nat} (he : e < m) : (l.take m).getD e 0 = l.getD e 0 := by
  simp [List.getD_eq_getElem?_getD, he]

/-- **Upper bound.**  The lowest Ritz value is at most the Rayleigh quotient of the start vector:
`θ₀ ‖v‖² ≤ ⟪v, A v⟫` (and `‖v‖² > 0`), for every Hermitian map, start vector and iteration count. -/
theorem ritz_upper {Afun : List 𝕜 → List 𝕜} {dnorm : List 𝕜 → ℝ} {deigh : List ℝ → List ℝ → List ℝ × Mat ℝ}
    (hN : NormContract dnorm) {vstart : List 𝕜} {numiter numeig : Nat} (hA : IsHermitian vstart.length Afun)
    (hE : EighAt Afun dnorm deigh vstart numiter) (hne : 1 ≤ numeig)
    {ws : List ℝ} {u : Mat 𝕜} (h : eighKrylov Afun dnorm deigh vstart numiter numeig = .ok (ws, u)) :
    0 < sqNorm vstart ∧
    ws.getD 0 0 * sqNorm vstart ≤ RCLike.re (vdot vstart.length vstart (Afun vstart)) ∧
    ws.getD 0 0 ≤ RCLike.re (vdot vstart.length vstart (Afun vstart)) / sqNorm vstart := by
  obtain ⟨alpha, beta, V, hl, _, rfl, _⟩ := eighKrylov_ok h
  have hE' := hE alpha beta V hl
  obtain ⟨st, hc, rfl, rfl, rfl⟩ := lanczos_ok Afun dnorm hl
  obtain ⟨k, _, hf⟩ := lanczosCore_fin hN hA hc
  obtain ⟨h0, _, _⟩ := lanczosCore_ok Afun dnorm hc
  have h0' : 0 < dnorm vstart := of_decide_eq_true h0
  have hk : 0 < st.alpha.length := by rw [hf.sized.1]; exact hf.kpos
  have ha0 := hf.alpha0 hN hA h0' (lanczosCore_first Afun dnorm hc)
  have hle := hE'.first_le hk
  have hsq : sqNorm vstart = dnorm vstart ^ 2 := (hN.sq vstart).symm
  have hpos : 0 < sqNorm vstart := by rw [hsq]; positivity
  rw [getD_take_zero hne]
  have h2 : (deigh st.alpha st.beta).1.getD 0 0 * sqNorm vstart ≤
      RCLike.re (vdot vstart.length vstart (Afun vstart)) := by
    rw [← ha0]; exact mul_le_mul_of_nonneg_right hle hpos.le
  exact ⟨hpos, h2, by rw [le_div_iff₀ hpos]; exact h2⟩

/-- **Ritz vectors.**  For a linear Hermitian map (acting as the Hermitian matrix `M`), every iteration count, the
returned Ritz vectors (columns of `u`) are orthonormal, their Rayleigh quotients are the returned Ritz values, and
`A` is diagonal on them: `⟪u_e, u_e'⟫ = δ`, `⟪u_e, A u_e'⟫ = θ_e δ`. -/
theorem ritz_vectors {Afun : List 𝕜 → List 𝕜} {dnorm : List 𝕜 → ℝ} {deigh : List ℝ → List ℝ → List ℝ × Mat ℝ}
    (hN : NormContract dnorm) {vstart : List 𝕜} {numiter numeig : Nat} {M : Nat → Nat → 𝕜}
    (hM : ActsAs vstart.length Afun M)
    (hH : ∀ i j, i < vstart.length → j < vstart.length → conj (M i j) = M j i)
    (hE : EighAt Afun dnorm deigh vstart numiter)
    {ws : List ℝ} {u : Mat 𝕜} (h : eighKrylov Afun dnorm deigh vstart numiter numeig = .ok (ws, u)) :
    u.m = vstart.length ∧ ws.length = u.n ∧
    ∀ e e', e < u.n → e' < u.n →
      vdot u.m (matCol u e) (matCol u e') = (if e = e' then 1 else 0) ∧
      vdot u.m (matCol u e) (Afun (matCol u e')) = if e = e' then ((ws.getD e 0 : ℝ) : 𝕜) else 0 := by
  have hA : IsHermitian vstart.length Afun := hM.isHermitian hH
  obtain ⟨alpha, beta, V, hl, _, rfl, rfl⟩ := eighKrylov_ok h
  have hE' := hE alpha beta V hl
  obtain ⟨st, hc, rfl, rfl, rfl⟩ := lanczos_ok Afun dnorm hl
  obtain ⟨k, _, hf⟩ := lanczosCore_fin hN hA hc
  have hk : st.alpha.length = k := hf.sized.1
  refine ⟨rfl, ?_, ?_⟩
  · show ((deigh st.alpha st.beta).1.take numeig).length = min numeig (deigh st.alpha st.beta).2.n
    rw [List.length_take, hE'.wlen, hE'.Un]
  · intro e e' he he'
    have he1 : e < min numeig (deigh st.alpha st.beta).2.n := he
    have he1' : e' < min numeig (deigh st.alpha st.beta).2.n := he'
    rw [hE'.Un, hk] at he1 he1'
    have hcol : ∀ c, matCol (⟨(colsMat vstart.length st.V).m, min numeig (deigh st.alpha st.beta).2.n,
        fun i e => sumRange (colsMat vstart.length st.V).n fun c =>
          (colsMat vstart.length st.V).f i c * RealLike.ofReal ((deigh st.alpha st.beta).2.f c e)⟩ : Mat 𝕜) c =
        ritzVec vstart.length st.V (deigh st.alpha st.beta).2 c := fun c => rfl
    rw [hcol e, hcol e']
    refine ⟨hf.ritz_orth hE' (by omega) (by omega), ?_⟩
    rw [getD_take_lt (by omega : e < numeig)]
    exact hf.ritz_rayleigh hA hM hE' (by omega) (by omega)

/-- **Lower bound.**  Every lower bound `μ` of the quadratic form (`μ ‖x‖² ≤ ⟪x, A x⟫` for all `x`; in particular
the smallest eigenvalue) is at most the lowest Ritz value, for every iteration count. -/
theorem ritz_lower {Afun : List 𝕜 → List 𝕜} {dnorm : List 𝕜 → ℝ} {deigh : List ℝ → List ℝ → List ℝ × Mat ℝ}
    (hN : NormContract dnorm) {vstart : List 𝕜} {numiter numeig : Nat} {M : Nat → Nat → 𝕜}
    (hM : ActsAs vstart.length Afun M)
    (hH : ∀ i j, i < vstart.length → j < vstart.length → conj (M i j) = M j i)
    (hE : EighAt Afun dnorm deigh vstart numiter) (hne : 1 ≤ numeig) {μ : ℝ}
    (hμ : ∀ x : List 𝕜, x.length = vstart.length → μ * sqNorm x ≤ RCLike.re (vdot vstart.length x (Afun x)))
    {ws : List ℝ} {u : Mat 𝕜} (h : eighKrylov Afun dnorm deigh vstart numiter numeig = .ok (ws, u)) :
    μ ≤ ws.getD 0 0 := by
  obtain ⟨hum, hwl, hr⟩ := ritz_vectors hN hM hH hE h
  -- at least one Ritz pair is returned
  have hun : 0 < u.n := by
    obtain ⟨alpha, beta, V, hl, _, rfl, rfl⟩ := eighKrylov_ok h
    have hE' := hE alpha beta V hl
    obtain ⟨h1, _⟩ := lanczos_sizes Afun dnorm hl
    show 0 < min numeig (deigh alpha beta).2.n
    rw [hE'.Un]; omega
  obtain ⟨h1, h2⟩ := hr 0 0 hun hun
  rw [if_pos rfl] at h1 h2
  have hlen : (matCol u 0).length = vstart.length := by simp [matCol, hum]
  have hx := hμ (matCol u 0) hlen
  have hs : sqNorm (matCol u 0) = 1 := by
    have := vdot_self (matCol u 0)
    rw [hlen, ← hum, h1] at this
    exact_mod_cast this.symm
  rw [hum] at h2
  rw [hs, mul_one, h2, RCLike.ofReal_re] at hx
  exact hx

/-- **Unitarity.**  The Hermitian Krylov exponential with purely imaginary time argument `dt = i t` preserves the norm
of the vector, for every iteration count: `∑ |r_i|² = ∑ |v_i|²`, hence `norm(r) = norm(v)`. -/
theorem expm_norm {Afun : List 𝕜 → List 𝕜} {dnorm : List 𝕜 → ℝ} {deigh : List ℝ → List ℝ → List ℝ × Mat ℝ}
    {dexp : 𝕜 → 𝕜} {dexpm : Mat 𝕜 → Mat 𝕜}
    (hN : NormContract dnorm) {v : List 𝕜} {numiter : Nat} (hA : IsHermitian v.length Afun)
    (hE : EighAt Afun dnorm deigh v numiter)
    (hexp : ∀ x : ℝ, ‖dexp (RCLike.I * (x : 𝕜))‖ = 1) {t : ℝ}
    {r : List 𝕜} (h : expmKrylov Afun dnorm deigh dexp dexpm v (RCLike.I * (t : 𝕜)) numiter true = .ok r) :
    r.length = v.length ∧ sqNorm r = sqNorm v ∧ dnorm r = dnorm v := by
  obtain ⟨alpha, beta, V, hl, _, _, _, rfl⟩ := expmKrylov_herm_ok h
  have hE' := hE alpha beta V hl
  obtain ⟨st, hc, rfl, rfl, rfl⟩ := lanczos_ok Afun dnorm hl
  obtain ⟨k, _, hf⟩ := lanczosCore_fin hN hA hc
  have hk : st.alpha.length = k := hf.sized.1
  have hv : st.V.length = k := hf.sized.2.2
  set U := (deigh st.alpha st.beta).2 with hU
  set w := (deigh st.alpha st.beta).1 with hw
  have hUm : U.m = k := by rw [hE'.Um, hk]
  have hUn : U.n = k := by rw [hE'.Un, hk]
  -- the coefficient vectors
  set cc : Nat → 𝕜 := fun a => RealLike.ofReal (dnorm v) * dexp (RCLike.I * (t : 𝕜) * RealLike.ofReal (w.getD a 0)) *
    RealLike.ofReal (U.f 0 a) with hcc
  set clist : List 𝕜 := (List.range U.n).map cc with hclist
  set yy : Nat → 𝕜 := fun c => ∑ a ∈ range k, ((U.f c a : ℝ) : 𝕜) * cc a with hyy
  set ylist : List 𝕜 := (List.range U.m).map fun r => sumRange U.n fun a => RealLike.ofReal (U.f r a) * vget clist a
    with hylist
  have hcl : ∀ a, a < k → vget clist a = cc a := fun a ha => by
    rw [hclist, vget_map_range, if_pos (by rw [hUn]; exact ha)]
  have hyl : ∀ c, c < k → vget ylist c = yy c := fun c hc' => by
    rw [hylist, vget_map_range, if_pos (by rw [hUm]; exact hc'), sumRange_eq_sum, hUn]
    exact sum_congr rfl fun a ha => by rw [hcl a (mem_range.1 ha), ofReal_eq]
  set res : List 𝕜 := (List.range (colsMat v.length st.V).m).map fun i =>
    sumRange (colsMat v.length st.V).n fun c => (colsMat v.length st.V).f i c * vget ylist c with hres
  have hrl : res.length = v.length := by simp [hres, colsMat]
  have hcomb : IsComb v.length k yy (fun c => st.V.getD c []) res := by
    intro i hi
    rw [hres, vget_map_range, if_pos (by simpa [colsMat] using hi), sumRange_eq_sum]
    show ∑ c ∈ range st.V.length, vget (st.V.getD c []) i * vget ylist c = _
    rw [hv]
    exact sum_congr rfl fun c hc' => by rw [hyl c (mem_range.1 hc'), mul_comm]
  have h1 := sqNorm_comb hrl hf.orth hcomb
  have h2 := sum_conj_mul_orth (𝕜 := 𝕜) (k := k) U.f
    (fun a b ha hb => by
      have := hE'.orthc a b (by rw [hk]; exact ha) (by rw [hk]; exact hb)
      rwa [hk] at this) cc
  rw [h2] at h1
  -- |c_a|² = nrm² U₀ₐ²
  have h3 : ∀ a ∈ range k, conj (cc a) * cc a = ((dnorm v ^ 2 * (U.f 0 a * U.f 0 a) : ℝ) : 𝕜) := by
    intro a _
    have hz : RCLike.I * (t : 𝕜) * RealLike.ofReal (w.getD a 0) = RCLike.I * ((t * w.getD a 0 : ℝ) : 𝕜) := by
      rw [ofReal_eq]; push_cast; ring
    have hn1 := hexp (t * w.getD a 0)
    rw [← hz] at hn1
    have hmc : conj (dexp (RCLike.I * (t : 𝕜) * RealLike.ofReal (w.getD a 0))) *
        dexp (RCLike.I * (t : 𝕜) * RealLike.ofReal (w.getD a 0)) = 1 := by
      rw [mul_comm, RCLike.mul_conj, hn1]; simp
    rw [hcc]
    simp only [map_mul, ofReal_eq, RCLike.conj_ofReal]
    calc _ = ((dnorm v : ℝ) : 𝕜) * ((dnorm v : ℝ) : 𝕜) * (((U.f 0 a : ℝ) : 𝕜) * ((U.f 0 a : ℝ) : 𝕜)) *
          (conj (dexp (RCLike.I * (t : 𝕜) * ((w.getD a 0 : ℝ) : 𝕜))) * dexp (RCLike.I * (t : 𝕜) * ((w.getD a 0 : ℝ) : 𝕜))) := by
            ring
      _ = _ := by
        have := hmc; rw [ofReal_eq] at this
        rw [this]; push_cast; ring
  rw [sum_congr rfl h3, ← RCLike.ofReal_sum, ← mul_sum] at h1
  have h4 := hE'.orthr 0 0 (by rw [hk]; exact hf.kpos) (by rw [hk]; exact hf.kpos)
  rw [if_pos rfl, hk] at h4
  rw [h4, mul_one, hN.sq v] at h1
  have hsq : sqNorm res = sqNorm v := by exact_mod_cast h1
  refine ⟨hrl, hsq, ?_⟩
  have ha := hN.sq res
  have hb := hN.sq v
  have hn1 := hN.nonneg res
  have hn2 := hN.nonneg v
  rw [hsq, ← hb] at ha
  exact (sq_eq_sq₀ hn1 hn2).1 ha

/-- the Krylov space is exhausted by the Lanczos run on `(vstart, numiter)`: the last residual
`A v_{k-1} - alpha_{k-1} v_{k-1} - beta_{k-2} v_{k-2}` has norm zero (so `A V = V T` exactly; this is what an exact
breakdown looks like, and it always happens at the latest for `k = dim` of the Krylov space) -/
def Exhausted (Afun : List 𝕜 → List 𝕜) (dnorm : List 𝕜 → ℝ) (vstart : List 𝕜) (numiter : Nat) : Prop :=
  ∀ alpha beta V, lanczos Afun dnorm vstart numiter = .ok (alpha, beta, V) →
    dnorm (lanczosResidual Afun alpha beta V (V.n - 1)) = 0

/-- **Exactness of the Ritz values once the Krylov space is exhausted.**  For a linear Hermitian map, if the last
Lanczos residual vanishes then
* every returned Ritz pair is an exact eigenpair of `A` (`A u_e = θ_e u_e`, `u_e` a unit vector),
* every eigenvalue `λ` of `A` *reachable* from the start vector (possessing an eigenvector `x` with `⟪x, v⟫ ≠ 0`) is
  real and at least the lowest Ritz value,
* the lowest Ritz vector itself overlaps the start vector (`⟪u_0, v⟫ ≠ 0`),
so the lowest Ritz value *is* the smallest eigenvalue reachable from the start vector. -/
theorem ritz_exact {Afun : List 𝕜 → List 𝕜} {dnorm : List 𝕜 → ℝ} {deigh : List ℝ → List ℝ → List ℝ × Mat ℝ}
    (hN : NormContract dnorm) {vstart : List 𝕜} {numiter numeig : Nat} {M : Nat → Nat → 𝕜}
    (hM : ActsAs vstart.length Afun M)
    (hH : ∀ i j, i < vstart.length → j < vstart.length → conj (M i j) = M j i)
    (hE : EighAt Afun dnorm deigh vstart numiter) (hX : Exhausted Afun dnorm vstart numiter) (hne : 1 ≤ numeig)
    {ws : List ℝ} {u : Mat 𝕜} (h : eighKrylov Afun dnorm deigh vstart numiter numeig = .ok (ws, u)) :
    (∀ e, e < u.n → ∀ i, i < vstart.length →
      vget (Afun (matCol u e)) i = ((ws.getD e 0 : ℝ) : 𝕜) * vget (matCol u e) i) ∧
    (∀ (x : List 𝕜) (lam : 𝕜), x.length = vstart.length →
      (∀ i, i < vstart.length → vget (Afun x) i = lam * vget x i) → vdot vstart.length x vstart ≠ 0 →
      ∃ r : ℝ, lam = (r : 𝕜) ∧ ws.getD 0 0 ≤ r) ∧
    0 < u.n ∧ vdot vstart.length (matCol u 0) vstart ≠ 0 := by
  have hA : IsHermitian vstart.length Afun := hM.isHermitian hH
  obtain ⟨alpha, beta, V, hl, _, rfl, rfl⟩ := eighKrylov_ok h
  have hE' := hE alpha beta V hl
  have hX' := hX alpha beta V hl
  obtain ⟨st, hc, rfl, rfl, rfl⟩ := lanczos_ok Afun dnorm hl
  obtain ⟨k, _, hf⟩ := lanczosCore_fin hN hA hc
  obtain ⟨h0, _, _⟩ := lanczosCore_ok Afun dnorm hc
  have h0' : 0 < dnorm vstart := of_decide_eq_true h0
  have hn : 0 < vstart.length := hN.pos_dim h0'
  have hk : st.alpha.length = k := hf.sized.1
  have hv : st.V.length = k := hf.sized.2.2
  have hfirst := lanczosCore_first Afun dnorm hc
  have hnrm : ((dnorm vstart : ℝ) : 𝕜) ≠ 0 := by exact_mod_cast h0'.ne'
  -- the residual vanishes entrywise
  have hz : ∀ i, i < vstart.length → vget (lzRes Afun vstart.length st (k - 1)) i = 0 := by
    intro i _
    have : (colsMat vstart.length st.V).n = k := hv
    rw [this, lanczosResidual_eq hf] at hX'
    exact hN.vget_eq_zero hX' i
  have hcol : ∀ c, matCol (⟨(colsMat vstart.length st.V).m, min numeig (deigh st.alpha st.beta).2.n,
      fun i e => sumRange (colsMat vstart.length st.V).n fun c =>
        (colsMat vstart.length st.V).f i c * RealLike.ofReal ((deigh st.alpha st.beta).2.f c e)⟩ : Mat 𝕜) c =
      ritzVec vstart.length st.V (deigh st.alpha st.beta).2 c := fun c => rfl
  have hun : 0 < min numeig (deigh st.alpha st.beta).2.n := by
    rw [hE'.Un, hk]; have := hf.kpos; omega
  -- `vstart = nrm • v_0` entrywise
  have hvs : ∀ i, i < vstart.length → vget vstart i = ((dnorm vstart : ℝ) : 𝕜) * vget (st.vec 0) i := by
    intro i hi
    show _ = _ * vget (st.V.getD 0 []) i
    rw [hfirst, vget_vdiv hi, ofReal_eq]
    field_simp
  have hdot : ∀ y, vdot vstart.length y vstart = ((dnorm vstart : ℝ) : 𝕜) * vdot vstart.length y (st.vec 0) := by
    intro y
    rw [vdot_eq_sum, vdot_eq_sum, mul_sum]
    exact sum_congr rfl fun i hi => by rw [hvs i (mem_range.1 hi)]; ring
  refine ⟨?_, ?_, hun, ?_⟩
  · intro e he i hi
    have he1 : e < min numeig (deigh st.alpha st.beta).2.n := he
    rw [hE'.Un, hk] at he1
    rw [hcol e, getD_take_lt (by omega : e < numeig)]
    exact hf.ritz_eigen hM hz hE' (by omega) hi
  · intro x lam hx heig hov
    have hov' : vdot vstart.length (st.vec 0) x ≠ 0 := by
      intro hc0
      apply hov
      rw [hdot x, ← vdot_conj, hc0, map_zero, mul_zero]
    obtain ⟨e, he, hlam⟩ := hf.reachable hA hz hE' hx heig hov'
    refine ⟨(deigh st.alpha st.beta).1.getD e 0, hlam, ?_⟩
    rw [getD_take_zero hne]
    exact hE'.asc 0 e (Nat.zero_le _) (by rw [hk]; exact he)
  · rw [hcol 0, hdot]
    have hcomb := ritzVec_comb vstart.length st.V (deigh st.alpha st.beta).2 0
    rw [vdot_comb hcomb (IsComb.self vstart.length (st.vec 0)), hv]
    have e1 : ∀ c ∈ range k, ∑ d ∈ range 1, conj (((deigh st.alpha st.beta).2.f c 0 : ℝ) : 𝕜) * 1 *
        vdot vstart.length (st.V.getD c []) (st.vec 0) =
        if c = 0 then (((deigh st.alpha st.beta).2.f 0 0 : ℝ) : 𝕜) else 0 := by
      intro c hc'
      rw [sum_range_one, mul_one, RCLike.conj_ofReal, hf.orth c 0 (mem_range.1 hc') hf.kpos]
      by_cases hc0 : c = 0
      · subst hc0; rw [if_pos rfl, if_pos rfl, mul_one]
      · rw [if_neg hc0, if_neg hc0, mul_zero]
    rw [sum_congr rfl e1, sum_ite_eq' (range k) 0, if_pos (mem_range.2 hf.kpos)]
    apply mul_ne_zero hnrm
    have hb : ∀ i, i + 1 < st.alpha.length → st.beta.getD i 0 ≠ 0 := by
      intro i hi hc0
      have h1 := hf.bpos i (by rw [hk] at hi; exact hi)
      have h2 := breakdownThr_pos (n := vstart.length) hn
      have h3 : st.be i = 0 := hc0
      rw [h3] at h1
      linarith
    have := hE'.first_ne_zero hb (e := 0) (by rw [hk]; exact hf.kpos)
    exact_mod_cast this

/-- **Exactness of the Hermitian Krylov exponential once the Krylov space is exhausted — spectral form (partial).**
For a linear Hermitian map, if the last Lanczos residual vanishes, the result of the Hermitian branch is the *spectral*
exponential applied to `v`: there are exact unit eigenvectors `u_e` of `A` with real eigenvalues `θ_e` and coefficients
`c_e` such that `v = ∑ c_e u_e` and the result is `∑ exp(dt θ_e) c_e u_e`, for every (complex) `dt`.

What is missing for the full clause of C15: (1) the identification of `x ↦ ∑ exp(dt θ_e) c_e u_e` with the matrix
exponential `expm(dt A) @ v` defined by the power series (no limit/`exp` of matrices is used here; `dexp` is an
uninterpreted oracle, so the statement holds for *every* scalar function in place of `exp`); (2) the general
(Arnoldi / `scipy.linalg.expm`) branch. -/
theorem expm_exact_partial {Afun : List 𝕜 → List 𝕜} {dnorm : List 𝕜 → ℝ} {deigh : List ℝ → List ℝ → List ℝ × Mat ℝ}
    {dexp : 𝕜 → 𝕜} {dexpm : Mat 𝕜 → Mat 𝕜}
    (hN : NormContract dnorm) {v : List 𝕜} {numiter : Nat} {M : Nat → Nat → 𝕜}
    (hM : ActsAs v.length Afun M)
    (hH : ∀ i j, i < v.length → j < v.length → conj (M i j) = M j i)
    (hE : EighAt Afun dnorm deigh v numiter) (hX : Exhausted Afun dnorm v numiter) {dt : 𝕜}
    {r : List 𝕜} (h : expmKrylov Afun dnorm deigh dexp dexpm v dt numiter true = .ok r) :
    ∃ (k : Nat) (θ : Nat → ℝ) (c : Nat → 𝕜) (u : Nat → List 𝕜),
      (∀ e, e < k → (u e).length = v.length ∧ vdot v.length (u e) (u e) = 1 ∧
        ∀ i, i < v.length → vget (Afun (u e)) i = ((θ e : ℝ) : 𝕜) * vget (u e) i) ∧
      (∀ i, i < v.length → vget v i = ∑ e ∈ range k, c e * vget (u e) i) ∧
      r.length = v.length ∧
      (∀ i, i < v.length → vget r i = ∑ e ∈ range k, dexp (dt * ((θ e : ℝ) : 𝕜)) * c e * vget (u e) i) := by
  have hA : IsHermitian v.length Afun := hM.isHermitian hH
  obtain ⟨alpha, beta, V, hl, _, _, _, rfl⟩ := expmKrylov_herm_ok h
  have hE' := hE alpha beta V hl
  have hX' := hX alpha beta V hl
  obtain ⟨st, hc, rfl, rfl, rfl⟩ := lanczos_ok Afun dnorm hl
  obtain ⟨k, _, hf⟩ := lanczosCore_fin hN hA hc
  obtain ⟨h0, _, _⟩ := lanczosCore_ok Afun dnorm hc
  have h0' : 0 < dnorm v := of_decide_eq_true h0
  have hk : st.alpha.length = k := hf.sized.1
  have hv : st.V.length = k := hf.sized.2.2
  have hfirst := lanczosCore_first Afun dnorm hc
  have hnrm : ((dnorm v : ℝ) : 𝕜) ≠ 0 := by exact_mod_cast h0'.ne'
  have hz : ∀ i, i < v.length → vget (lzRes Afun v.length st (k - 1)) i = 0 := by
    intro i _
    have : (colsMat v.length st.V).n = k := hv
    rw [this, lanczosResidual_eq hf] at hX'
    exact hN.vget_eq_zero hX' i
  set U := (deigh st.alpha st.beta).2 with hU
  set w := (deigh st.alpha st.beta).1 with hw
  have hUm : U.m = k := by rw [hE'.Um, hk]
  have hUn : U.n = k := by rw [hE'.Un, hk]
  set cc : Nat → 𝕜 := fun a => RealLike.ofReal (dnorm v) * dexp (dt * RealLike.ofReal (w.getD a 0)) *
    RealLike.ofReal (U.f 0 a) with hcc
  set clist : List 𝕜 := (List.range U.n).map cc with hclist
  set ylist : List 𝕜 := (List.range U.m).map fun r => sumRange U.n fun a => RealLike.ofReal (U.f r a) * vget clist a
    with hylist
  have hcl : ∀ a, a < k → vget clist a = cc a := fun a ha => by
    rw [hclist, vget_map_range, if_pos (by rw [hUn]; exact ha)]
  have hyl : ∀ c, c < k → vget ylist c = ∑ a ∈ range k, ((U.f c a : ℝ) : 𝕜) * cc a := fun c hc' => by
    rw [hylist, vget_map_range, if_pos (by rw [hUm]; exact hc'), sumRange_eq_sum, hUn]
    exact sum_congr rfl fun a ha => by rw [hcl a (mem_range.1 ha), ofReal_eq]
  set res : List 𝕜 := (List.range (colsMat v.length st.V).m).map fun i =>
    sumRange (colsMat v.length st.V).n fun c => (colsMat v.length st.V).f i c * vget ylist c with hres
  have hrl : res.length = v.length := by simp [hres, colsMat]
  -- entries of the Ritz vectors
  have hu : ∀ e i, i < v.length → vget (ritzVec v.length st.V U e) i =
      ∑ c ∈ range k, ((U.f c e : ℝ) : 𝕜) * vget (st.vec c) i := fun e i hi => by
    rw [ritzVec_comb v.length st.V U e i hi, hv]
  refine ⟨k, fun e => w.getD e 0, fun e => ((dnorm v : ℝ) : 𝕜) * ((U.f 0 e : ℝ) : 𝕜),
    fun e => ritzVec v.length st.V U e, ?_, ?_, hrl, ?_⟩
  · intro e he
    refine ⟨length_ritzVec _ _ _ _, ?_, fun i hi => hf.ritz_eigen hM hz hE' he hi⟩
    have := hf.ritz_orth hE' he he
    rwa [if_pos rfl] at this
  · intro i hi
    -- v = nrm v_0 and v_0 = ∑_e U[0, e] u_e
    have hvs : vget v i = ((dnorm v : ℝ) : 𝕜) * vget (st.vec 0) i := by
      show _ = _ * vget (st.V.getD 0 []) i
      rw [hfirst, vget_vdiv hi, ofReal_eq]
      field_simp
    have e1 : ∀ e ∈ range k, ((dnorm v : ℝ) : 𝕜) * ((U.f 0 e : ℝ) : 𝕜) * vget (ritzVec v.length st.V U e) i =
        ∑ c ∈ range k, ((dnorm v : ℝ) : 𝕜) * (((U.f 0 e * U.f c e : ℝ) : 𝕜) * vget (st.vec c) i) := by
      intro e _
      rw [hu e i hi, mul_sum]
      exact sum_congr rfl fun c _ => by push_cast; ring
    rw [sum_congr rfl e1, sum_comm]
    have e2 : ∀ c ∈ range k, ∑ e ∈ range k, ((dnorm v : ℝ) : 𝕜) * (((U.f 0 e * U.f c e : ℝ) : 𝕜) * vget (st.vec c) i) =
        if c = 0 then ((dnorm v : ℝ) : 𝕜) * vget (st.vec 0) i else 0 := by
      intro c hc'
      rw [← mul_sum, ← sum_mul, ← RCLike.ofReal_sum]
      have := hE'.orthr 0 c (by rw [hk]; exact hf.kpos) (by rw [hk]; exact mem_range.1 hc')
      rw [hk] at this
      rw [this]
      by_cases hc0 : c = 0
      · subst hc0; rw [if_pos rfl, if_pos rfl, RCLike.ofReal_one, one_mul]
      · rw [if_neg (Ne.symm hc0), if_neg hc0, RCLike.ofReal_zero, zero_mul, mul_zero]
    rw [sum_congr rfl e2, sum_ite_eq' (range k) 0, if_pos (mem_range.2 hf.kpos), hvs]
  · intro i hi
    rw [hres, vget_map_range, if_pos (by simpa [colsMat] using hi), sumRange_eq_sum]
    show ∑ c ∈ range st.V.length, vget (st.V.getD c []) i * vget ylist c = _
    rw [hv]
    have e1 : ∀ c ∈ range k, vget (st.V.getD c []) i * vget ylist c =
        ∑ a ∈ range k, cc a * (((U.f c a : ℝ) : 𝕜) * vget (st.vec c) i) := by
      intro c hc'
      rw [hyl c (mem_range.1 hc'), mul_sum]
      exact sum_congr rfl fun a _ => by ring
    rw [sum_congr rfl e1, sum_comm]
    refine sum_congr rfl fun a _ => ?_
    rw [← mul_sum, ← hu a i hi, hcc]
    simp only [ofReal_eq]
    ring

/-! ### non-vacuity -/

/-- `EighSpec` is satisfiable by a genuinely non-diagonal decomposition: `[[0, 1], [1, 0]] = U diag(-1, 1) Uᵀ` with
`U = [[s, s], [-s, s]]`, `s = √2/2`. -/
example : EighSpec [0, 0] [1] ([-1, 1], ⟨2, 2, fun r c => if r = 1 ∧ c = 0 then -(Real.sqrt 2 / 2) else Real.sqrt 2 / 2⟩) := by
  have hs : Real.sqrt 2 / 2 * (Real.sqrt 2 / 2) = 1 / 2 := by
    have := Real.mul_self_sqrt (show (0 : ℝ) ≤ 2 by norm_num)
    nlinarith
  have two : ∀ a : Nat, a < [(0 : ℝ), 0].length → a = 0 ∨ a = 1 := fun a ha => by
    have : a < 2 := ha
    omega
  refine ⟨rfl, rfl, rfl, ?_, ?_, ?_, ?_⟩
  · intro i j hij hj
    rcases two j hj with rfl | rfl
    · have : i = 0 := by omega
      subst this; simp
    · have : i = 0 ∨ i = 1 := by omega
      rcases this with rfl | rfl <;> simp
  · intro a b ha hb
    rcases two a ha with rfl | rfl <;> rcases two b hb with rfl | rfl <;>
      simp [Finset.sum_range_succ] <;> nlinarith
  · intro a b ha hb
    rcases two a ha with rfl | rfl <;> rcases two b hb with rfl | rfl <;>
      simp [Finset.sum_range_succ] <;> nlinarith
  · intro a b ha hb
    rcases two a ha with rfl | rfl <;> rcases two b hb with rfl | rfl <;>
      simp [tridiag, Finset.sum_range_succ] <;> nlinarith

/-- the hypotheses of `ritz_upper`, `ritz_vectors`, `ritz_lower` are jointly satisfiable and the call returns:
the 2-norm, the Hermitian matrix `[[2, 1], [1, 2]]` (with lower bound `μ = 0` of its quadratic form …), one iteration,
the exact eigen-decomposition of the resulting `1 × 1` matrix. -/
example : ∃ (Afun : List ℝ → List ℝ) (M : Nat → Nat → ℝ) (dnorm : List ℝ → ℝ)
    (deigh : List ℝ → List ℝ → List ℝ × Mat ℝ) (vstart : List ℝ),
    NormContract dnorm ∧ ActsAs vstart.length Afun M ∧
    (∀ i j, i < vstart.length → j < vstart.length → (starRingEnd ℝ) (M i j) = M j i) ∧
    IsHermitian vstart.length Afun ∧ EighAt Afun dnorm deigh vstart 1 ∧
    ∃ r, eighKrylov Afun dnorm deigh vstart 1 1 = .ok r := by
  let A : Mat ℝ := ⟨2, 2, fun i k => if i = k then 2 else 1⟩
  let deigh : List ℝ → List ℝ → List ℝ × Mat ℝ := fun al _ => (al, ⟨al.length, al.length, fun _ _ => 1⟩)
  have hH : ∀ i j, i < 2 → j < 2 → (starRingEnd ℝ) (A.f i j) = A.f j i := by
    intro i k _ _
    simp only [A, RCLike.conj_to_real]
    by_cases h : i = k
    · subst h; rfl
    · rw [if_neg h, if_neg (Ne.symm h)]
  have hAt : EighAt (matvec A) sqrtNorm deigh [1, 0] 1 := by
    intro alpha beta V hl
    obtain ⟨h1, h2, h3, _, _⟩ := lanczos_sizes _ _ hl
    have hlen : alpha.length = 1 := by omega
    have hb : beta = [] := List.eq_nil_of_length_eq_zero (by omega)
    obtain ⟨a, rfl⟩ : ∃ a, alpha = [a] := by
      match alpha, hlen with
      | [a], _ => exact ⟨a, rfl⟩
    subst hb
    refine ⟨rfl, rfl, rfl, ?_, ?_, ?_, ?_⟩
    · intro i j hij hj
      have : j = 0 := by simpa using hj
      subst this
      have : i = 0 := by omega
      subst this; exact le_refl _
    all_goals
      intro a' b' ha' hb'
      have ha'' : a' = 0 := by simpa using ha'
      have hb'' : b' = 0 := by simpa using hb'
      subst ha''; subst hb''
      simp [deigh, tridiag]
  refine ⟨matvec A, A.f, sqrtNorm, deigh, [1, 0], sqrtNorm_contract, actsAs_matvec A rfl rfl, hH,
    isHermitian_matvec A rfl rfl hH, hAt, ?_⟩
  obtain ⟨⟨alpha, beta, V⟩, hl⟩ := lanczos_isOk (matvec A) (sqrtNorm (𝕜 := ℝ)) (vstart := [1, 0]) (numiter := 1)
    ((sqrtNorm_contract.pos_iff _).2 ⟨1, by simp, one_ne_zero⟩) (by omega) (by simp)
  have hE' := hAt alpha beta V hl
  obtain ⟨_, _, _, _, hVn⟩ := lanczos_sizes _ _ hl
  unfold eighKrylov
  rw [hl]
  simp only [bind, Except.bind]
  rw [if_neg (by rw [hVn, hE'.Um]; simp)]
  exact ⟨_, rfl⟩

/-- the hypotheses of `ritz_exact` and `expm_exact_partial` (including `Exhausted`) are jointly satisfiable and both
calls return: the map
`x ↦ 2 x` on `ℝ²` (every vector is an eigenvector, so one iteration exhausts the Krylov space), the 2-norm, the exact
eigen-decomposition of the `1 × 1` matrix. -/
example : ∃ (Afun : List ℝ → List ℝ) (M : Nat → Nat → ℝ) (dnorm : List ℝ → ℝ)
    (deigh : List ℝ → List ℝ → List ℝ × Mat ℝ) (vstart : List ℝ),
    NormContract dnorm ∧ ActsAs vstart.length Afun M ∧
    (∀ i j, i < vstart.length → j < vstart.length → (starRingEnd ℝ) (M i j) = M j i) ∧
    EighAt Afun dnorm deigh vstart 1 ∧ Exhausted Afun dnorm vstart 1 ∧
    (∃ r, eighKrylov Afun dnorm deigh vstart 1 1 = .ok r) ∧
    ∃ r, expmKrylov Afun dnorm deigh (fun _ => 1) id vstart 1 1 true = .ok r := by
  let Afun : List ℝ → List ℝ := fun x => vscale 2 2 x
  let M : Nat → Nat → ℝ := fun i j => if i = j then 2 else 0
  let deigh : List ℝ → List ℝ → List ℝ × Mat ℝ := fun al _ => (al, ⟨al.length, al.length, fun _ _ => 1⟩)
  have hM : ActsAs 2 Afun M := by
    intro x _ i hi
    show vget (vscale 2 2 x) i = _
    rw [vget_vscale hi, Finset.sum_eq_single i]
    · simp [M]
    · intro j _ hne; simp [M, Ne.symm hne]
    · intro h; exact absurd (Finset.mem_range.2 hi) h
  have hH : ∀ i j, i < 2 → j < 2 → (starRingEnd ℝ) (M i j) = M j i := by
    intro i j _ _
    simp only [M, RCLike.conj_to_real]
    by_cases h : i = j
    · subst h; rfl
    · rw [if_neg h, if_neg (Ne.symm h)]
  have hA : IsHermitian 2 Afun := hM.isHermitian hH
  have hAt : EighAt Afun sqrtNorm deigh [1, 0] 1 := by
    intro alpha beta V hl
    obtain ⟨h1, h2, h3, _, _⟩ := lanczos_sizes _ _ hl
    have hlen : alpha.length = 1 := by omega
    have hb : beta = [] := List.eq_nil_of_length_eq_zero (by omega)
    obtain ⟨a, rfl⟩ : ∃ a, alpha = [a] := by
      match alpha, hlen with
      | [a], _ => exact ⟨a, rfl⟩
    subst hb
    refine ⟨rfl, rfl, rfl, ?_, ?_, ?_, ?_⟩
    · intro i j hij hj
      have : j = 0 := by simpa using hj
      subst this
      have : i = 0 := by omega
      subst this; exact le_refl _
    all_goals
      intro a' b' ha' hb'
      have ha'' : a' = 0 := by simpa using ha'
      have hb'' : b' = 0 := by simpa using hb'
      subst ha''; subst hb''
      simp [deigh, tridiag]
  have hEx : Exhausted Afun sqrtNorm [1, 0] 1 := by
    intro alpha beta V hl
    obtain ⟨st, hc, rfl, rfl, rfl⟩ := lanczos_ok Afun sqrtNorm hl
    obtain ⟨k, hk1, hf⟩ := lanczosCore_fin sqrtNorm_contract (vstart := [1, 0]) hA hc
    have hk : k = 1 := by have := hf.kpos; omega
    subst hk
    have hv : (colsMat ([1, 0] : List ℝ).length st.V).n = 1 := hf.sized.2.2
    rw [hv, lanczosResidual_eq hf]
    -- the residual `2 v_0 - alpha_0 v_0` vanishes entrywise because `alpha_0 = 2`
    have horth : vdot 2 (st.vec 0) (st.vec 0) = 1 := by
      have := hf.orth 0 0 (by omega) (by omega)
      rwa [if_pos rfl] at this
    have hal : st.al 0 = 2 := by
      have := hf.last
      rw [this]
      show RCLike.re (vdot 2 (vscale 2 2 (st.vec 0)) (st.vec 0)) = 2
      rw [vdot_vscale_left, horth]; simp
    have hzero : ∀ z ∈ lzRes Afun ([1, 0] : List ℝ).length st (1 - 1), z = 0 := by
      intro z hz
      unfold lzRes vsub at hz
      simp only [List.mem_map, List.mem_range] at hz
      obtain ⟨i, hi, rfl⟩ := hz
      have hi : i < 2 := hi
      rw [if_neg (by omega)]
      show vget (vscale 2 2 (st.vec 0)) i - vget (vscale 2 (RealLike.ofReal (st.al 0)) (st.vec 0)) i = 0
      rw [vget_vscale hi, vget_vscale hi, hal]
      show 2 * _ - (2 : ℝ) * _ = 0
      ring
    show Real.sqrt (sqNorm _) = 0
    rw [(sqNorm_eq_zero_iff _).2 hzero, Real.sqrt_zero]
  refine ⟨Afun, M, sqrtNorm, deigh, [1, 0], sqrtNorm_contract, hM, hH, hAt, hEx, ?_, ?_⟩
  all_goals
    obtain ⟨⟨alpha, beta, V⟩, hl⟩ := lanczos_isOk Afun (sqrtNorm (𝕜 := ℝ)) (vstart := [1, 0]) (numiter := 1)
      ((sqrtNorm_contract.pos_iff _).2 ⟨1, by simp, one_ne_zero⟩) (by omega) (by simp)
    have hE' := hAt alpha beta V hl
    obtain ⟨h1, _, _, _, hVn⟩ := lanczos_sizes _ _ hl
  · unfold eighKrylov
    rw [hl]
    simp only [bind, Except.bind]
    rw [if_neg (by rw [hVn, hE'.Um]; simp)]
    exact ⟨_, rfl⟩
  · unfold expmKrylov
    simp only [if_true]
    rw [hl]
    simp only [bind, Except.bind]
    rw [if_neg (by rw [hE'.Um]; omega), if_neg (by rw [hE'.wlen, hE'.Un]; simp), if_neg (by rw [hVn, hE'.Um]; simp)]
    exact ⟨_, rfl⟩

/-- the hypotheses of `expm_norm` are jointly satisfiable and the call returns (one iteration, `dexp ≡ 1`) -/
example : ∃ (Afun : List ℝ → List ℝ) (dnorm : List ℝ → ℝ) (deigh : List ℝ → List ℝ → List ℝ × Mat ℝ)
    (dexp : ℝ → ℝ) (v : List ℝ),
    NormContract dnorm ∧ IsHermitian v.length Afun ∧ EighAt Afun dnorm deigh v 1 ∧
    (∀ x : ℝ, ‖dexp (RCLike.I * (x : ℝ))‖ = 1) ∧
    ∃ r, expmKrylov Afun dnorm deigh dexp id v (RCLike.I * ((1 : ℝ) : ℝ)) 1 true = .ok r := by
  let A : Mat ℝ := ⟨2, 2, fun i k => if i = k then 2 else 1⟩
  let deigh : List ℝ → List ℝ → List ℝ × Mat ℝ := fun al _ => (al, ⟨al.length, al.length, fun _ _ => 1⟩)
  have hH : ∀ i j, i < 2 → j < 2 → (starRingEnd ℝ) (A.f i j) = A.f j i := by
    intro i k _ _
    simp only [A, RCLike.conj_to_real]
    by_cases h : i = k
    · subst h; rfl
    · rw [if_neg h, if_neg (Ne.symm h)]
  have hAt : EighAt (matvec A) sqrtNorm deigh [1, 0] 1 := by
    intro alpha beta V hl
    obtain ⟨h1, h2, h3, _, _⟩ := lanczos_sizes _ _ hl
    have hlen : alpha.length = 1 := by omega
    have hb : beta = [] := List.eq_nil_of_length_eq_zero (by omega)
    obtain ⟨a, rfl⟩ : ∃ a, alpha = [a] := by
      match alpha, hlen with
      | [a], _ => exact ⟨a, rfl⟩
    subst hb
    refine ⟨rfl, rfl, rfl, ?_, ?_, ?_, ?_⟩
    · intro i j hij hj
      have : j = 0 := by simpa using hj
      subst this
      have : i = 0 := by omega
      subst this; exact le_refl _
    all_goals
      intro a' b' ha' hb'
      have ha'' : a' = 0 := by simpa using ha'
      have hb'' : b' = 0 := by simpa using hb'
      subst ha''; subst hb''
      simp [deigh, tridiag]
  refine ⟨matvec A, sqrtNorm, deigh, fun _ => 1, [1, 0], sqrtNorm_contract,
    isHermitian_matvec A rfl rfl hH, hAt, fun _ => by simp, ?_⟩
  obtain ⟨⟨alpha, beta, V⟩, hl⟩ := lanczos_isOk (matvec A) (sqrtNorm (𝕜 := ℝ)) (vstart := [1, 0]) (numiter := 1)
    ((sqrtNorm_contract.pos_iff _).2 ⟨1, by simp, one_ne_zero⟩) (by omega) (by simp)
  have hE' := hAt alpha beta V hl
  obtain ⟨h1, _, _, _, hVn⟩ := lanczos_sizes _ _ hl
  unfold expmKrylov
  simp only [if_true]
  rw [hl]
  simp only [bind, Except.bind]
  rw [if_neg (by rw [hE'.Um]; omega), if_neg (by rw [hE'.wlen, hE'.Un]; simp), if_neg (by rw [hVn, hE'.Um]; simp)]
  exact ⟨_, rfl⟩

/-- the hypothesis on `dexp` of `expm_norm` is satisfiable: any function into the unit circle, e.g. the constant `1`
(the genuine `exp` satisfies it as well) -/
example : ∀ x : ℝ, ‖(fun _ : 𝕜 => (1 : 𝕜)) (RCLike.I * (x : 𝕜))‖ = 1 := by
  intro x; simp

end Ptn.C15

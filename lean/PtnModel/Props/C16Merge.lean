import PtnModel.Props.C16Total
import PtnModel.Proofs.SmallMerge
import PtnModel.Proofs.SmallLength
/-!
# C16 — `merge_edges` called directly, with the explicit "mergeable" predicate; `add` on `Graph.length`

`Props/C16.lean` (`merge_edges_sem`) says what holds whenever `merge_edges` returns, `Props/C16Total.lean` says that
`simplify` only calls it on pairs it accepts.  Here the precondition of a *direct* call is made explicit:
`Mergeable g eid1 eid2 d` lists, on the graph before the call, exactly the conditions that
`OpGraph.merge_edges(eid1, eid2, direction)` of `/repo/pytenet/opgraph.py` asserts (incl. the asserts added by the repairs
F6/F7: a terminal node is never absorbed and never acquires upstream edges).  On a valid graph the call returns iff the
pair is mergeable (`merge_edges_ok_iff`), it raises `AssertionError` iff both edge ids exist and the pair is not
mergeable (`merge_edges_raises_iff`), `KeyError` iff an edge id is missing (`merge_edges_keyerror_iff`), and the `int`
front end raises `ValueError` iff the direction is neither 0 nor 1 (`merge_edges_direction`).
`merge_edges_direct` combines totality with the semantic theorem.

Second part: the `add` theorems of `Props/C16.lean` / `Props/C16Total.lean` take "same length" as equality of all
terminal-to-terminal BFS distances (`ReachFrom`); for valid graphs without dead ends this is `g.length = other.length`
(`add_sem_length`, `add_total_length`).
-/
set_option linter.unusedSectionVars false
namespace Ptn.C16
open Ptn.Og

variable {κ : Type} [CommRing κ] [DecidableEq κ]

/-- **The precondition of `merge_edges(eid1, eid2, direction)`**, read off the code (`d = false` is direction 0,
`d = true` direction 1; `edge.nid d` is `edge.nids[direction]`, the common base node, and `edge.nid (!d)` is the
"upstream" node `edge.nids[1-direction]`):

* both edge ids exist (`self.edges[eid1]`, `self.edges.pop(eid2)`);
* `edge1.nids[direction] == edge2.nids[direction]` ("to-be merged edges must originate from same node");
* either the upstream nodes coincide (parallel edges: the operators are added; `eid1 = eid2` is accepted by the code
  and falls under this case), or all of
  - `edge1.opics == edge2.opics` ("can only merge edges with same logical operators"),
  - the upstream node of `edge2` is not a terminal node ("cannot merge a terminal node into another node"),
  - both upstream nodes have exactly one edge in direction `d` ("to-be merged upstream node can only have one input edge"),
  - they carry the same quantum number,
  - if the upstream node of `edge1` is a terminal node then the upstream node of `edge2` has no further upstream edges
    ("a terminal node cannot acquire upstream edges").

`N1`, `N2` are the node objects stored in the graph *before* the call (the code reads them after removing `eid2` from the
base node, which changes neither `eids[direction]` nor `qnum`; for the last condition see `Ptn.Og.eids_nil_of_erase`). -/
def Mergeable (g : Graph κ) (eid1 eid2 : Int) (d : Bool) : Prop :=
  ∃ edge1 edge2, dGet? g.edges eid1 = some edge1 ∧ dGet? g.edges eid2 = some edge2 ∧
    edge1.nid d = edge2.nid d ∧
    (edge1.nid (!d) = edge2.nid (!d) ∨
      (edge1.opics = edge2.opics ∧
       edge2.nid (!d) ≠ g.nidTerminal.1 ∧ edge2.nid (!d) ≠ g.nidTerminal.2 ∧
       ∃ N1 N2, dGet? g.nodes (edge1.nid (!d)) = some N1 ∧ dGet? g.nodes (edge2.nid (!d)) = some N2 ∧
         (N1.eids d).length = 1 ∧ (N2.eids d).length = 1 ∧ N1.qnum = N2.qnum ∧
         ((edge1.nid (!d) = g.nidTerminal.1 ∨ edge1.nid (!d) = g.nidTerminal.2) → N2.eids (!d) = [])))

/-- **`merge_edges` returns on every mergeable pair of a valid graph** (no exception of any kind) -/
theorem merge_edges_total (g : Graph κ) (eid1 eid2 : Int) (d : Bool) (h : Valid g) (hm : Mergeable g eid1 eid2 d) :
    ∃ g', g.mergeEdges eid1 eid2 d = .ok g' := by
  obtain ⟨edge1, edge2, h1, h2, hbase, hcase⟩ := hm
  rcases hcase with hpar | ⟨hop, hnt1, hnt2, N1, N2, hN1, hN2, hl1, hl2, hq, hacq⟩
  · exact mergeEdges_par_total h.1 h1 h2 hbase hpar
  · by_cases hpar : edge1.nid (!d) = edge2.nid (!d)
    · exact mergeEdges_par_total h.1 h1 h2 hbase hpar
    · exact mergeEdges_nodes_total h.1 h1 h2 hbase hpar hop hN1 hN2 hl1 hl2 hq ⟨hnt1, hnt2⟩ hacq

/-- **`merge_edges` returns exactly on the mergeable pairs** of a valid graph -/
theorem merge_edges_ok_iff (g : Graph κ) (eid1 eid2 : Int) (d : Bool) (h : Valid g) :
    (∃ g', g.mergeEdges eid1 eid2 d = .ok g') ↔ Mergeable g eid1 eid2 d := by
  refine ⟨?_, merge_edges_total g eid1 eid2 d h⟩
  rintro ⟨g', hr⟩
  obtain ⟨edge1, edge2, h1, h2⟩ := mergeEdges_lookups hr
  have hbase := mergeEdges_base hr h1 h2
  refine ⟨edge1, edge2, h1, h2, hbase, ?_⟩
  by_cases hpar : edge1.nid (!d) = edge2.nid (!d)
  · exact Or.inl hpar
  · obtain ⟨N1, N2, hN1, hN2, _, hop, hnt1, hnt2, hl1, hl2, hq, hacq, _⟩ := mergeEdges_nodes_spec h.1 hr h1 h2 hpar
    exact Or.inr ⟨hop, hnt1, hnt2, N1, N2, hN1, hN2, hl1, hl2, hq,
      fun ht => eids_nil_of_erase h.1 h1 h2 hbase hpar hN2 (hacq ht)⟩

/-- **`merge_edges` raises `KeyError` exactly if one of the edge ids does not exist** (valid graph) -/
theorem merge_edges_keyerror_iff (g : Graph κ) (eid1 eid2 : Int) (d : Bool) (h : Valid g) :
    g.mergeEdges eid1 eid2 d = .error .key ↔ (eid1 ∉ dKeys g.edges ∨ eid2 ∉ dKeys g.edges) := by
  constructor
  · intro he
    by_contra hc
    rw [not_or, not_not, not_not] at hc
    obtain ⟨e1, h1⟩ : ∃ e, dGet? g.edges eid1 = some e := by
      cases hq : dGet? g.edges eid1 with
      | none => exact absurd hc.1 (dGet?_eq_none_iff.1 hq)
      | some e => exact ⟨e, rfl⟩
    obtain ⟨e2, h2⟩ : ∃ e, dGet? g.edges eid2 = some e := by
      cases hq : dGet? g.edges eid2 with
      | none => exact absurd hc.2 (dGet?_eq_none_iff.1 hq)
      | some e => exact ⟨e, rfl⟩
    have := mergeEdges_okOrAssert h.1 (d := d) h1 h2 _ he
    cases this
  · intro hk
    unfold Graph.mergeEdges Graph.getEdge Graph.removeEdge dGet dPop
    by_cases h1 : eid1 ∈ dKeys g.edges
    · have h2 := hk.resolve_left (not_not.2 h1)
      have l2 : g.edges.lookup eid2 = none := dGet?_eq_none_iff.2 h2
      cases l1 : g.edges.lookup eid1 with
      | none => rfl
      | some e => simp only [l2]; rfl
    · have l1 : g.edges.lookup eid1 = none := dGet?_eq_none_iff.2 h1
      simp only [l1]; rfl

/-- **`merge_edges` raises an assertion exactly if both edge ids exist and the pair is not mergeable** (valid graph) -/
theorem merge_edges_raises_iff (g : Graph κ) (eid1 eid2 : Int) (d : Bool) (h : Valid g) :
    g.mergeEdges eid1 eid2 d = .error .assertion ↔
      (eid1 ∈ dKeys g.edges ∧ eid2 ∈ dKeys g.edges ∧ ¬ Mergeable g eid1 eid2 d) := by
  constructor
  · intro he
    refine ⟨?_, ?_, ?_⟩
    · by_contra hc
      have := (merge_edges_keyerror_iff g eid1 eid2 d h).2 (Or.inl hc)
      rw [he] at this; cases this
    · by_contra hc
      have := (merge_edges_keyerror_iff g eid1 eid2 d h).2 (Or.inr hc)
      rw [he] at this; cases this
    · intro hm
      obtain ⟨g', hg'⟩ := merge_edges_total g eid1 eid2 d h hm
      rw [he] at hg'; cases hg'
  · rintro ⟨k1, k2, hnm⟩
    obtain ⟨e1, h1⟩ : ∃ e, dGet? g.edges eid1 = some e := by
      cases hq : dGet? g.edges eid1 with
      | none => exact absurd k1 (dGet?_eq_none_iff.1 hq)
      | some e => exact ⟨e, rfl⟩
    obtain ⟨e2, h2⟩ : ∃ e, dGet? g.edges eid2 = some e := by
      cases hq : dGet? g.edges eid2 with
      | none => exact absurd k2 (dGet?_eq_none_iff.1 hq)
      | some e => exact ⟨e, rfl⟩
    cases hr : g.mergeEdges eid1 eid2 d with
    | ok g' => exact absurd ((merge_edges_ok_iff g eid1 eid2 d h).1 ⟨g', hr⟩) hnm
    | error e => rw [mergeEdges_okOrAssert h.1 h1 h2 e hr]

/-- the `int` front end: `ValueError` exactly if `direction not in (0, 1)`; otherwise the call above -/
theorem merge_edges_direction (g : Graph κ) (eid1 eid2 direction : Int) :
    (direction = 0 → g.mergeEdgesI eid1 eid2 direction = g.mergeEdges eid1 eid2 false) ∧
    (direction = 1 → g.mergeEdgesI eid1 eid2 direction = g.mergeEdges eid1 eid2 true) ∧
    (direction ≠ 0 → direction ≠ 1 → g.mergeEdgesI eid1 eid2 direction = .error .value) := by
  refine ⟨fun h => by simp [Graph.mergeEdgesI, h], fun h => by simp [Graph.mergeEdgesI, h],
    fun h0 h1 => by simp [Graph.mergeEdgesI, h0, h1]⟩

/-- **Merging two mergeable edges, one statement**: on a valid graph, for two different edge ids forming a mergeable
pair, `merge_edges` returns, and the result is valid again (it passes the consistency check), has the same terminals and
denotes the same operator. -/
theorem merge_edges_direct (g : Graph κ) (eid1 eid2 : Int) (d : Bool) (h : Valid g) (hne : eid1 ≠ eid2)
    (hm : Mergeable g eid1 eid2 d) :
    ∃ g', g.mergeEdges eid1 eid2 d = .ok g' ∧ Valid g' ∧ g'.isConsistent = true ∧
      g'.nidTerminal = g.nidTerminal ∧ ∀ w : Word, g'.denF w = g.denF w := by
  obtain ⟨g', hr⟩ := merge_edges_total g eid1 eid2 d h hm
  exact ⟨g', hr, merge_edges_sem g g' eid1 eid2 d h hne hr⟩

/-- the pair handed over by `_simplify_step` is mergeable: what `Ptn.Og.canMerge_total` proves, restated -/
theorem canMerge_mergeable (g : Graph κ) (h : Valid g) (d : Bool) (nid a b : Int) (L : Listed g d nid a b)
    (p : Int × Int) (hp : g.canMerge d a b = .ok (some p)) : Mergeable g p.1 p.2 d := by
  obtain ⟨r, hr, hacc⟩ := canMerge_total h.1 L
  rw [hp] at hr
  cases hr
  exact (merge_edges_ok_iff g p.1 p.2 d h).1 (hacc p rfl)

/-! ### non-vacuity -/

/-- the parallel edges 10, 11 of `exampleGraph` are mergeable in direction 1, and in direction 0 -/
example : Valid exampleGraph ∧ Mergeable exampleGraph 10 11 true ∧ Mergeable exampleGraph 10 11 false :=
  ⟨exampleGraph_valid, ⟨_, _, rfl, rfl, by decide, Or.inl (by decide)⟩, ⟨_, _, rfl, rfl, by decide, Or.inl (by decide)⟩⟩

/-- the node-merging case: edges 20, 21 of `exampleGraph2` (upstream nodes 1, 2 in direction 1) -/
example : Mergeable exampleGraph2 20 21 true :=
  ⟨_, _, rfl, rfl, by decide, Or.inr ⟨by decide, by decide, by decide, _, _, rfl, rfl, by decide, by decide, by decide,
    by decide⟩⟩

/-- a non-mergeable pair of existing edges (different operators on 30, 31): the call raises an assertion -/
example : ¬ Mergeable exampleGraph2 30 31 false ∧ exampleGraph2.mergeEdges 30 31 false = .error .assertion := by
  have hv : Valid exampleGraph2 := (valid_iff _).2 ⟨NoDup.of_noDupB (by decide), by decide⟩
  have he : exampleGraph2.mergeEdges 30 31 false = .error .assertion := by decide
  exact ⟨((merge_edges_raises_iff _ _ _ _ hv).1 he).2.2, he⟩

/-! ### `add` with the hypothesis on `Graph.length` -/

/-- **`add` on graphs of the same `length`**: for valid graphs without dead ends (every node but the end terminal has an
outgoing edge -- then `Graph.length`, which follows first outgoing edges, is the terminal-to-terminal distance,
`Ptn.Og.reach_eq_length`), two different terminals each, `g.length = other.length`: a successful `addWith` returns a
valid graph denoting the sum. -/
theorem add_sem_length (g other g' : Graph κ) (sn se : List Int) (hg : Valid g) (ho : Valid other)
    (ndg : NoDeadEnd g) (ndo : NoDeadEnd other)
    (htg : g.term false ≠ g.term true) (hto : other.term false ≠ other.term true)
    (hsn : ∀ k, k ∈ dKeys g.nodes → k ∈ dKeys other.nodes → k ∈ sn)
    (hse : ∀ k, k ∈ dKeys g.edges → k ∈ dKeys other.edges → k ∈ se)
    (hlen : g.length = other.length)
    (hr : g.addWith other sn se = .ok g') :
    Valid g' ∧ g'.isConsistent = true ∧ ∀ w : Word, g'.denF w = g.denF w + other.denF w :=
  add_sem g other g' sn se hg ho htg hto hsn hse (sameDist_of_length hg ho ndg ndo hlen) hr

/-- **`add` is total on graphs of the same `length`** (valid, no dead ends, two different terminals each) -/
theorem add_total_length (g other : Graph κ) (sn se : List Int) (hg : Valid g) (ho : Valid other)
    (ndg : NoDeadEnd g) (ndo : NoDeadEnd other)
    (htg : g.term false ≠ g.term true) (hto : other.term false ≠ other.term true)
    (hsn : sn.Nodup ∧ ∀ k, k ∈ sn ↔ (k ∈ dKeys g.nodes ∧ k ∈ dKeys other.nodes))
    (hse : se.Nodup ∧ ∀ k, k ∈ se ↔ (k ∈ dKeys g.edges ∧ k ∈ dKeys other.edges))
    (hlen : g.length = other.length) :
    ∃ g', g.addWith other sn se = .ok g' ∧ Valid g' ∧ g'.isConsistent = true ∧
      ∀ w : Word, g'.denF w = g.denF w + other.denF w :=
  add_total g other sn se hg ho htg hto hsn hse (sameDist_of_length hg ho ndg ndo hlen)

/-- `length` returns on valid graphs without dead ends and is the start-to-end BFS distance -/
theorem length_is_distance (g : Graph κ) (h : Valid g) (nd : NoDeadEnd g) :
    ∃ L, g.length = .ok L ∧ ReachFrom g false (g.term false) L (g.term true) ∧
      ∀ d j, ReachFrom g d (g.term d) j (g.term (!d)) → j = L := by
  obtain ⟨L, hL, hr⟩ := length_reach h nd
  exact ⟨L, hL, hr, fun d j r => reach_eq_length h nd hL r⟩

/-- non-vacuity: `exampleGraph2` and `exampleGraph3` have no dead ends and both have length 2 -/
example : Valid exampleGraph2 ∧ Valid exampleGraph3 ∧ NoDeadEnd exampleGraph2 ∧ NoDeadEnd exampleGraph3 ∧
    exampleGraph2.length = .ok 2 ∧ exampleGraph2.length = exampleGraph3.length := by
  refine ⟨(valid_iff _).2 ⟨NoDup.of_noDupB (by decide), by decide⟩,
    (valid_iff _).2 ⟨NoDup.of_noDupB (by decide), by decide⟩, ?_, ?_, by decide, by decide⟩
  · intro x n hn
    simp only [exampleGraph2, List.mem_cons, Prod.mk.injEq, List.mem_nil_iff, or_false] at hn
    rcases hn with ⟨rfl, rfl⟩ | ⟨rfl, rfl⟩ | ⟨rfl, rfl⟩ | ⟨rfl, rfl⟩ <;> simp [exampleGraph2, Graph.term]
  · intro x n hn
    simp only [exampleGraph3, List.mem_cons, Prod.mk.injEq, List.mem_nil_iff, or_false] at hn
    rcases hn with ⟨rfl, rfl⟩ | ⟨rfl, rfl⟩ | ⟨rfl, rfl⟩ <;> simp [exampleGraph3, Graph.term]

end Ptn.C16

import PtnModel.Proofs.Evo2TolBounds
import PtnModel.Props.C10Total2
/-!
# Property C10, two-site DMRG with a genuine truncation (`0 ≤ tol_split < 1`)

For `tol_split > 0` the clause "the energy of the returned state equals the last reported energy" is **false** on the real code
(known finding F13: the Ritz value is reported before the truncating split; monotonicity is only claimed for zero tolerance).
This file proves the clauses of C10 that survive every truncation, for every `0 ≤ tol_split < 1`, `L ≥ 2`, every number of
Lanczos iterations `≥ 1` and every number of sweeps:

* `dmrg2_truncated_lower_bound` : every reported energy is `≥` every lower bound of the dense operator, in particular `≥` the
  exact ground-state energy (each is a Ritz value of a compression `P† H P` of `H` by an isometry `P`: only the canonical
  form of the two-site window is used, not the norm of the state);
* `dmrg2_truncated_normalized`  : one energy is reported per sweep and, after at least one sweep, the returned state is
  normalised (the final `local_orthonormalize_right_qr` of the first tensor against right-isometric neighbours);
* `dmrg2_truncated_total`       : unconditional form (the call returns, and both statements hold).
-/
set_option linter.unusedSectionVars false

namespace Ptn.C10
open Ptn Ptn.Krylov Ptn.Evo Ptn.BondOps Ptn.Ortho Ptn.Env Finset

variable {𝕜 : Type} [RCLike 𝕜] [DecidableEq 𝕜]

/-- **Variational lower bound under truncation.** -/
theorem dmrg2_truncated_lower_bound {k : EvoKernels 𝕜 ℝ} {H : MPO 𝕜} {ψ ψ' : MPS 𝕜} {numiter : Nat}
    (ctx : SweepCtx k H ψ.qd numiter) (hk : Compress.SvdKernel k.svd) (hm : 1 ≤ numiter)
    (hHwf : H.wellFormed = true) (hc : C02.EvoCompat H ψ) (hlast : (H.qD.getD H.A.length []).getD 0 0 = 0)
    (hadm : Admissible ψ) (hlen : H.A.length = ψ.A.length) (hL2 : 2 ≤ H.A.length) {tol : ℝ} (ht0 : 0 ≤ tol) (ht1 : tol < 1)
    {numsweeps : Nat} {en : List ℝ} (h : dmrgTwosite k H ψ numsweeps numiter tol = .ok (ψ', en)) :
    ∀ e ∈ en, ∀ μ, DenseLower H ψ.qd.length μ → μ ≤ e :=
  (dmrg2_tol_bounds ctx hk hm (HistWf.hOk_of_wf hHwf hc.1 hc.2) hlast hadm hlen ht0 ht1 hL2 h).1

/-- **Normalised result, one energy per sweep, under truncation.** -/
theorem dmrg2_truncated_normalized {k : EvoKernels 𝕜 ℝ} {H : MPO 𝕜} {ψ ψ' : MPS 𝕜} {numiter : Nat}
    (ctx : SweepCtx k H ψ.qd numiter) (hk : Compress.SvdKernel k.svd) (hm : 1 ≤ numiter)
    (hHwf : H.wellFormed = true) (hc : C02.EvoCompat H ψ) (hlast : (H.qD.getD H.A.length []).getD 0 0 = 0)
    (hadm : Admissible ψ) (hlen : H.A.length = ψ.A.length) (hL2 : 2 ≤ H.A.length) {tol : ℝ} (ht0 : 0 ≤ tol) (ht1 : tol < 1)
    {numsweeps : Nat} (hns : 1 ≤ numsweeps) {en : List ℝ}
    (h : dmrgTwosite k H ψ numsweeps numiter tol = .ok (ψ', en)) :
    en.length = numsweeps ∧ ∑ σ ∈ digitsU ψ.qd.length ψ'.A.length, ‖ψ'.amp σ‖ ^ 2 = 1 := by
  obtain ⟨_, hl, hn⟩ := dmrg2_tol_bounds ctx hk hm (HistWf.hOk_of_wf hHwf hc.1 hc.2) hlast hadm hlen ht0 ht1 hL2 h
  refine ⟨hl, ?_⟩
  have := hn hns
  rw [normSq_real] at this
  exact_mod_cast this

/-- **Unconditional form.** -/
theorem dmrg2_truncated_total {k : EvoKernels 𝕜 ℝ} {H : MPO 𝕜} {ψ : MPS 𝕜} {numiter : Nat}
    (ctx : SweepCtx k H ψ.qd numiter) (hk : Compress.SvdKernel k.svd) (hm : 1 ≤ numiter)
    (hHwf : H.wellFormed = true) (hc : C02.EvoCompat H ψ) (hlast : (H.qD.getD H.A.length []).getD 0 0 = 0)
    (hadm : Admissible ψ) (hlen : H.A.length = ψ.A.length) (hL2 : 2 ≤ H.A.length) {tol : ℝ} (ht0 : 0 ≤ tol) (ht1 : tol < 1)
    {numsweeps : Nat} (hns : 1 ≤ numsweeps) :
    ∃ ψ' en, dmrgTwosite k H ψ numsweeps numiter tol = .ok (ψ', en) ∧ en.length = numsweeps ∧
      ∑ σ ∈ digitsU ψ.qd.length ψ'.A.length, ‖ψ'.amp σ‖ ^ 2 = 1 ∧
      ∀ e ∈ en, ∀ μ, DenseLower H ψ.qd.length μ → μ ≤ e := by
  obtain ⟨ψ', en, h⟩ := dmrg2_total ctx hk hm hHwf hc hlast hadm hlen ht0 ht1 numsweeps
  obtain ⟨h1, h2⟩ := dmrg2_truncated_normalized ctx hk hm hHwf hc hlast hadm hlen hL2 ht0 ht1 hns h
  exact ⟨ψ', en, h, h1, h2, dmrg2_truncated_lower_bound ctx hk hm hHwf hc hlast hadm hlen hL2 ht0 ht1 h⟩

/-- non-vacuity including the run: the kernels `Evo.exK2` over `ℂ`, `exOC = Z ⊗ 1 + 1 ⊗ Z`, `exψC = |01⟩ + i|10⟩`, a genuine
tolerance `1/2`, every number of sweeps `≥ 1` -/
example (numsweeps : Nat) (hns : 1 ≤ numsweeps) : ∃ ψ' en, dmrgTwosite exK2 exOC exψC numsweeps 1 (1 / 2 : ℝ) = .ok (ψ', en) ∧
    en.length = numsweeps ∧ ∑ σ ∈ digitsU exψC.qd.length ψ'.A.length, ‖ψ'.amp σ‖ ^ 2 = 1 ∧
    ∀ e ∈ en, ∀ μ, DenseLower exOC exψC.qd.length μ → μ ≤ e :=
  dmrg2_truncated_total (k := exK2) (H := exOC) (ψ := exψC) exK2_ctx exK2_svd (le_refl 1) C02.exOC_wf C02.exCompat rfl
    exψC_adm rfl (by decide) (by norm_num) (by norm_num) hns

end Ptn.C10

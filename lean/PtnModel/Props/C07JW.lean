import PtnModel.Props.C07Dense
import PtnModel.Proofs.Ham2JW5
/-!
# Property C07, Jordan-Wigner semantics of the bond-optimized spinless construction

"... `molecular_hamiltonian_mpo(tkin, vint)` represents `H = Σ_ij t_ij a†_i a_j + ½ Σ_ijkl v_ijkl a†_i a†_j a_l a_k` ..."

`Props/C07Dense.lean` (`optimized_dense`) shows that the MPO has the dense matrix of the sum of the enumerated chains.  Here the
chains are interpreted under the Jordan-Wigner tables `A = [[0,1],[0,0]]` (id -1), `I` (0), `C = [[0,0],[1,0]]` (1), `N = diag(0,1)` (2),
`Z = diag(1,-1)` (3), with pytenet's convention (`Z` string to the RIGHT of the fermionic operator):

  `a†_i = I^{⊗ i} ⊗ C ⊗ Z^{⊗ (L-1-i)}`  (`jwC L i`),   `a_j = I^{⊗ j} ⊗ A ⊗ Z^{⊗ (L-1-j)}`  (`jwA L j`).

Dense matrices are entry functions on digit lists (`wordWeight opmap w s t = Π_k opmap[w_k][s_k][t_k]`), the matrix product is the sum
over the intermediate digit list (`sumDigits 2 L`, the same notion as in the dense semantics of `MPO.multiply`, C03).

* `jordan_wigner_hop` -- `a†_i a_j`, as a product of dense matrices, is the product operator `I…I C Z…Z A I…I` for `i < j`,
  `I…I A Z…Z C I…I` for `i > j` and `I…I N I…I` for `i = j`, with sign `+1` in all three cases, for every `L` and all `i, j < L`.
* `kinetic_sem` -- the chain list of the enumeration is `hop ++ int` with `L²` hopping chains whose sum is exactly `Σ_ij t_ij a†_i a_j`.
* `jordan_wigner_int` -- for `i < j`, `k < l` (all 13 relative orders, coinciding sites included) the product of dense matrices
  `(a†_i a†_j)(a_l a_k)` is the product operator whose letter at site `x` is the local product of the letters of `C_i Z…Z C_j` and
  `A_k Z…Z A_l` (`intF`), with overall sign `+1` (`a†_i a†_j = -C_i Z…Z C_j`, `a_l a_k = -A_k Z…Z A_l`; the two signs cancel).
* `two_body_sem` -- every chain of the interaction loop has coefficient `gint_ijkl` and exactly that padded word (the case analysis of
  `molIntChain` on the sorted `(site, OID)` pairs, evaluated for all 13 orders); the interaction chains sum to
  `Σ_{i<j, k<l} gint_ijkl · a†_i a†_j a_l a_k`.
* `molecular_chain_sum_jw_partial` -- intermediate form: whenever the constructor returns (`L ≥ 1`), the dense matrix of the MPO is
  `Σ_ij t_ij a†_i a_j + Σ_{i<j, k<l} gint_ijkl a†_i a†_j a_l a_k`, `gint = ½ (v_ijkl - v_jikl - v_ijlk + v_jilk)`.
* `jordan_wigner_anticommute` -- `a†_j a†_i = -a†_i a†_j`, `a†_i a†_i = 0`, `a_i a_j = -a_j a_i`, `a_i a_i = 0` for the dense Jordan-Wigner
  matrices, every `L`.
* `molecular_chain_sum_jw` -- **the documented operator**: whenever the constructor returns (`L ≥ 1`), for all occupation digit lists
  `⟨s| MPO |t⟩ = Σ_ij t_ij ⟨s| a†_i a_j |t⟩ + Σ_ijkl ½ v_ijkl ⟨s| a†_i a†_j a_l a_k |t⟩`, all four indices running over `0..L-1`
  (`½` = the constant `0.5` of the code, `Consts.half`; no identity about it is needed).

Not covered: the spin-orbital construction (pairs of modes per site, `to_spin_opchain`, `get_vint_coeff`) and the explicit
(`optimize=False`) graphs.
-/
set_option linter.unusedSectionVars false

namespace Ptn.C07
open Ptn Ptn.Og Ptn.Ham Ptn.Ch Ptn.Dense Ptn.Ham2

variable {κ : Type} [CommRing κ] [DecidableEq κ]

/-- the Jordan-Wigner words, spelled out -/
theorem jordan_wigner_words (L i : Nat) :
    jwC L i = List.replicate i 0 ++ 1 :: List.replicate (L - 1 - i) 3 ∧
    jwA L i = List.replicate i 0 ++ (-1) :: List.replicate (L - 1 - i) 3 ∧
    (molOpmap : OpMap κ) =
      [(-1, [[0, 1], [0, 0]]), (0, [[1, 0], [0, 1]]), (1, [[0, 0], [1, 0]]), (2, [[0, 0], [0, 1]]), (3, [[1, 0], [0, -1]])] :=
  ⟨rfl, rfl, rfl⟩

/-- **`a†_i a_j` under the Jordan-Wigner tables.**  For all `i, j < L` and all digit lists `s, t` of length `L`:
`Σ_u ⟨s| a†_i |u⟩ ⟨u| a_j |t⟩ = ⟨s| W |t⟩` with `W = I^i C Z^{j-i-1} A I^{L-1-j}` (`i < j`), `W = I^j A Z^{i-j-1} C I^{L-1-i}` (`i > j`),
`W = I^i N I^{L-1-i}` (`i = j`): correct `Z` strings between the two sites, none outside, sign `+1`. -/
theorem jordan_wigner_hop (L i j : Nat) (hi : i < L) (hj : j < L) (s t : List Nat) (hs : s.length = L) (ht : t.length = L) :
    sumDigits 2 L (fun u => wordWeight (molOpmap : OpMap κ) (jwC L i) s u * wordWeight molOpmap (jwA L j) u t)
      = wordWeight molOpmap
          (if i < j then List.replicate i 0 ++ 1 :: (List.replicate (j - i - 1) 3 ++ (-1) :: List.replicate (L - 1 - j) 0)
           else if j < i then List.replicate j 0 ++ (-1) :: (List.replicate (i - j - 1) 3 ++ 1 :: List.replicate (L - 1 - i) 0)
           else List.replicate i 0 ++ 2 :: List.replicate (L - 1 - i) 0) s t :=
  jw_hop_dense L i j hi hj s t hs ht

/-- **The kinetic part of the enumeration.**  Whenever the chain enumeration of `molecular_hamiltonian_mpo(tkin, vint, optimize=True)`
returns `chains` (it does for every `L`, `molecular_chains_wf`), `chains = hop ++ int` where `hop` consists of the `L²` chains of the
hopping loop and `int` of the chains of the interaction loop (`molIntChain i j k l gint_ijkl` over `i < j`, `k < l`), and for all digit
lists `s, t` of length `L` the dense entry of the sum of the hopping chains is `Σ_i Σ_j t_ij · (a†_i a_j)[s, t]`. -/
theorem kinetic_sem (c : Consts κ) (tkin : List (List κ)) (vint : List (List (List (List κ)))) (chains : List (OpChain κ))
    (h : molChains c tkin vint = .ok chains) :
    ∃ hop int, chains = hop ++ int ∧ hop.length = tkin.length * tkin.length ∧
      (intTuples tkin.length).mapM (fun (q : Int × Int × Int × Int) =>
        molIntChain q.1 q.2.1 q.2.2.1 q.2.2.2 (gint c vint q.1 q.2.1 q.2.2.1 q.2.2.2)) = .ok int ∧
      ∀ s t : List Nat, s.length = tkin.length → t.length = tkin.length →
        termsEntry molOpmap (denChainsRaw hop (tkin.length : Int) 0) s t =
          ((List.range tkin.length).map fun (i : Nat) => ((List.range tkin.length).map fun (j : Nat) =>
            t2 tkin (i : Int) (j : Int) * sumDigits 2 tkin.length (fun u =>
              wordWeight molOpmap (jwC tkin.length i) s u * wordWeight molOpmap (jwA tkin.length j) u t)).sum).sum := by
  obtain ⟨hop, int, rfl, hhop, hint⟩ := molChains_split c tkin vint chains h
  exact ⟨hop, int, rfl, hop_length tkin hop hhop, hint, fun s t hs ht => (hop_kinetic tkin hop hhop s t hs ht).2⟩

/-- the letters of `C_i Z…Z C_j`, of `A_k Z…Z A_l`, the local products and the letters of `a†_i a†_j a_l a_k`, spelled out
(ids `A = -1, I = 0, C = 1, N = 2, Z = 3`) -/
theorem jordan_wigner_int_letters (i j k l x : Nat) :
    w1F i j x = (if x < i then 0 else if x = i then 1 else if x < j then 3 else if x = j then 1 else 0) ∧
    w2F k l x = (if x < k then 0 else if x = k then -1 else if x < l then 3 else if x = l then -1 else 0) ∧
    intF i j k l x = (sgnMul (w1F i j x) (w2F k l x)).2 ∧
    (sgnMul 0 0 = (1, 0) ∧ sgnMul 0 (-1) = (1, -1) ∧ sgnMul 0 3 = (1, 3) ∧ sgnMul 1 0 = (1, 1) ∧ sgnMul 1 (-1) = (1, 2) ∧
     sgnMul 1 3 = (1, 1) ∧ sgnMul 3 0 = (1, 3) ∧ sgnMul 3 (-1) = (1, -1) ∧ sgnMul 3 3 = (1, 0)) :=
  ⟨rfl, rfl, rfl, by decide⟩

/-- **`a†_i a†_j a_l a_k` under the Jordan-Wigner tables**, `i < j < L`, `k < l < L`, every relative order of the four sites:
`Σ_u (Σ_{u1} ⟨s|a†_i|u1⟩⟨u1|a†_j|u⟩)(Σ_{u3} ⟨u|a_l|u3⟩⟨u3|a_k|t⟩) = ⟨s| W |t⟩` for the product operator `W` with the letters `intF i j k l`:
`C`/`A` at the four sites (`N` where a creation and an annihilation site coincide), `Z` strings exactly between the first and second
and between the third and fourth site (in sorted order), identities elsewhere, sign `+1`. -/
theorem jordan_wigner_int (L i j k l : Nat) (hij : i < j) (hj : j < L) (hkl : k < l) (hl : l < L) (s t : List Nat)
    (hs : s.length = L) (ht : t.length = L) :
    jw4 (κ := κ) L i j k l s t = wordWeight molOpmap ((List.range L).map (intF i j k l)) s t :=
  jw_int_dense L i j k l hij hj hkl hl s t hs ht

/-- **The two-body part of the enumeration, chain by chain.**  For all `i < j < L`, `k < l < L` the chain created for the index tuple
has the coefficient it was given and the padded word of `a†_i a†_j a_l a_k`; hence, if the interaction loop returns the chains `int`,
their dense sum is `Σ_{(i,j,k,l) : i<j, k<l} gint_ijkl · (a†_i a†_j a_l a_k)[s, t]` (`intTuples L` lists exactly these tuples). -/
theorem two_body_sem (c : Consts κ) (L : Nat) (vint : List (List (List (List κ)))) :
    (∀ (i j k l : Nat) (coeff : κ), i < j → j < L → k < l → l < L →
      ∃ ch : OpChain κ, molIntChain (i : Int) (j : Int) (k : Int) (l : Int) coeff = .ok ch ∧ ch.coeff = coeff ∧
        ch.paddedWord (L : Int) 0 = (List.range L).map (intF i j k l)) ∧
    (∀ q : Int × Int × Int × Int, q ∈ intTuples L ↔
      0 ≤ q.1 ∧ q.1 < q.2.1 ∧ q.2.1 < L ∧ 0 ≤ q.2.2.1 ∧ q.2.2.1 < q.2.2.2 ∧ q.2.2.2 < L) ∧
    (∀ int : List (OpChain κ), (intTuples L).mapM (fun (q : Int × Int × Int × Int) =>
        molIntChain q.1 q.2.1 q.2.2.1 q.2.2.2 (gint c vint q.1 q.2.1 q.2.2.1 q.2.2.2)) = .ok int →
      ∀ s t : List Nat, s.length = L → t.length = L →
        termsEntry molOpmap (denChainsRaw int (L : Int) 0) s t =
          ((intTuples L).map fun q => gint c vint q.1 q.2.1 q.2.2.1 q.2.2.2 *
            jw4 L q.1.toNat q.2.1.toNat q.2.2.1.toNat q.2.2.2.toNat s t).sum) :=
  ⟨fun i j k l coeff h1 h2 h3 h4 => molInt_spec L i j k l h1 h2 h3 h4 coeff, mem_intTuples L,
    fun int h s t hs ht => int_two_body c L vint int h s t hs ht⟩

/-- **The dense matrix of the bond-optimized spinless MPO under the Jordan-Wigner matrices, antisymmetrised form.**  Whenever
`molecular_hamiltonian_mpo(tkin, vint, optimize=True)` returns for `L ≥ 1` orbitals: the MPO has `L` sites of dimension 2, and for all
occupation digit lists `s, t` the matrix element is
`Σ_ij t_ij (a†_i a_j)[s, t] + Σ_{i<j, k<l} gint_ijkl (a†_i a†_j a_l a_k)[s, t]` with `gint_ijkl = ½ (v_ijkl - v_jikl - v_ijlk + v_jilk)`.
(Intermediate form; `molecular_chain_sum_jw` below rewrites the second summand as `½ Σ_ijkl v_ijkl (a†_i a†_j a_l a_k)[s, t]`.) -/
theorem molecular_chain_sum_jw_partial (c : Consts κ) (tkin : List (List κ)) (vint : List (List (List (List κ))))
    (hL : 1 ≤ (tkin.length : Int)) (b : Built κ) (hb : molBuildOpt c tkin vint = .ok b) :
    (b.mpo.toMPO [0, 1]).A.length = tkin.length ∧
    ∀ s t : List Nat, Digits 2 tkin.length s → Digits 2 tkin.length t →
      (b.mpo.toMPO [0, 1]).elem s t =
        ((List.range tkin.length).map fun (i : Nat) => ((List.range tkin.length).map fun (j : Nat) =>
          t2 tkin (i : Int) (j : Int) * sumDigits 2 tkin.length (fun u =>
            wordWeight molOpmap (jwC tkin.length i) s u * wordWeight molOpmap (jwA tkin.length j) u t)).sum).sum +
        ((intTuples tkin.length).map fun q => gint c vint q.1 q.2.1 q.2.2.1 q.2.2.2 *
          jw4 tkin.length q.1.toNat q.2.1.toNat q.2.2.1.toNat q.2.2.2.toNat s t).sum := by
  obtain ⟨chains, hch, _, _, _, hd⟩ := (optimized_dense c tkin vint hL).1 b hb
  obtain ⟨hop, int, rfl, _, hint, hk⟩ := kinetic_sem c tkin vint chains hch
  refine ⟨hd.sites, ?_⟩
  intro s t hs ht
  rw [hd.elem s t hs ht, denChainsRaw, List.map_append, termsEntry_append, ← hk s t hs.1 ht.1,
    ← int_two_body c tkin.length vint int hint s t hs.1 ht.1]
  rfl

/-- **Anticommutation relations of the Jordan-Wigner matrices** (dense products, `jwP L i j = a†_i a†_j`, `jwQ L l k = a_l a_k`), for
every `L` and `i < j < L`: `a†_j a†_i = -a†_i a†_j`, `a†_i a†_i = 0`, `a_i a_j = -a_j a_i`, `a_i a_i = 0`. -/
theorem jordan_wigner_anticommute (L i j : Nat) (hij : i < j) (hj : j < L) (s t : List Nat) (hs : s.length = L) (ht : t.length = L) :
    (sumDigits 2 L fun u => wordWeight (molOpmap : OpMap κ) (jwC L j) s u * wordWeight molOpmap (jwC L i) u t)
      = -(sumDigits 2 L fun u => wordWeight (molOpmap : OpMap κ) (jwC L i) s u * wordWeight molOpmap (jwC L j) u t) ∧
    (sumDigits 2 L fun u => wordWeight (molOpmap : OpMap κ) (jwC L i) s u * wordWeight molOpmap (jwC L i) u t) = 0 ∧
    (sumDigits 2 L fun u => wordWeight (molOpmap : OpMap κ) (jwA L i) s u * wordWeight molOpmap (jwA L j) u t)
      = -(sumDigits 2 L fun u => wordWeight (molOpmap : OpMap κ) (jwA L j) s u * wordWeight molOpmap (jwA L i) u t) ∧
    (sumDigits 2 L fun u => wordWeight (molOpmap : OpMap κ) (jwA L i) s u * wordWeight molOpmap (jwA L i) u t) = 0 :=
  jw_anticommute L i j hij hj s t hs ht

/-- **The bond-optimized spinless MPO is the documented second-quantized operator under the Jordan-Wigner matrices.**  Whenever
`molecular_hamiltonian_mpo(tkin, vint, optimize=True)` returns for `L ≥ 1` orbitals, for all occupation digit lists `s, t ∈ {0,1}^L`:
`⟨s| MPO |t⟩ = Σ_{i,j<L} t_ij ⟨s| a†_i a_j |t⟩ + Σ_{i,j,k,l<L} ½ v_ijkl ⟨s| a†_i a†_j a_l a_k |t⟩`, where
`a†_i = I^i C Z^{L-1-i}`, `a_j = I^j A Z^{L-1-j}` and the products are products of dense `2^L × 2^L` matrices
(`jw4 L i j k l s t = Σ_u (Σ_{u1} ⟨s|a†_i|u1⟩⟨u1|a†_j|u⟩)(Σ_{u3} ⟨u|a_l|u3⟩⟨u3|a_k|t⟩)`).  Holds for all coefficient tensors (no symmetry
of `vint` is assumed); `as_matrix()` returns exactly these entries (`optimized_dense`). -/
theorem molecular_chain_sum_jw (c : Consts κ) (tkin : List (List κ)) (vint : List (List (List (List κ))))
    (hL : 1 ≤ (tkin.length : Int)) (b : Built κ) (hb : molBuildOpt c tkin vint = .ok b) :
    ∀ s t : List Nat, Digits 2 tkin.length s → Digits 2 tkin.length t →
      (b.mpo.toMPO [0, 1]).elem s t =
        ((List.range tkin.length).map fun (i : Nat) => ((List.range tkin.length).map fun (j : Nat) =>
          t2 tkin (i : Int) (j : Int) * sumDigits 2 tkin.length (fun u =>
            wordWeight molOpmap (jwC tkin.length i) s u * wordWeight molOpmap (jwA tkin.length j) u t)).sum).sum +
        ((List.range tkin.length).map fun (i : Nat) => ((List.range tkin.length).map fun (j : Nat) =>
          ((List.range tkin.length).map fun (k : Nat) => ((List.range tkin.length).map fun (l : Nat) =>
            (c.half * v4 vint (i : Int) (j : Int) (k : Int) (l : Int)) * jw4 tkin.length i j k l s t).sum).sum).sum).sum := by
  intro s t hs ht
  rw [(molecular_chain_sum_jw_partial c tkin vint hL b hb).2 s t hs ht, two_body_full c vint tkin.length s t hs.1 ht.1]
  rfl

/-- non-vacuity of `jordan_wigner_int`: `i = 0 < j = 2`, `k = 1 < l = 2` on three modes (`j = l` coincide): the word is `C A N`, and
`⟨1 0 1| a†_0 a†_2 a_2 a_1 |0 1 1⟩ = C[1,0] · A[0,1] · N[1,1] = 1` -/
example : (List.range 3).map (intF 0 2 1 2) = [1, -1, 2] ∧
    wordWeight (molOpmap : OpMap Int) [1, -1, 2] [1, 0, 1] [0, 1, 1] = 1 ∧ jw4 (κ := Int) 3 0 2 1 2 [1, 0, 1] [0, 1, 1] = 1 := by
  refine ⟨by decide, by decide, ?_⟩
  rw [jordan_wigner_int 3 0 2 1 2 (by decide) (by decide) (by decide) (by decide) _ _ rfl rfl]
  decide

/-- non-vacuity of `two_body_sem`: the index tuples on two orbitals are the single tuple `(0, 1, 0, 1)`, and its chain is `g · N N` -/
example : intTuples 2 = [(0, 1, 0, 1)] ∧ molIntChain 0 1 0 1 (7 : Int) = .ok ⟨[2, 2], [0, 0, 0], 7, 0⟩ := by
  constructor <;> decide

/-- non-vacuity of `jordan_wigner_hop` and of the sign: on three modes `⟨1 1 0| a†_0 a_2 |0 1 1⟩ = C[1,0] · Z[1,1] · A[0,1] = -1` -/
example : wordWeight (molOpmap : OpMap Int) [1, 3, -1] [1, 1, 0] [0, 1, 1] = -1 ∧
    sumDigits 2 3 (fun u => wordWeight (molOpmap : OpMap Int) (jwC 3 0) [1, 1, 0] u * wordWeight molOpmap (jwA 3 2) u [0, 1, 1]) = -1 := by
  constructor <;> decide

/-- non-vacuity of `kinetic_sem` / `molecular_chain_sum_jw_partial`: one orbital, `tkin = [[3]]`: the constructor returns and the
enumeration is the single hopping chain `3 · n_0` (no interaction chains) -/
example (c : Consts Int) : (∃ b, molBuildOpt c [[3]] [[[[9]]]] = .ok b) ∧ molChains c [[3]] [[[[9]]]] = .ok [⟨[2], [0, 0], 3, 0⟩] :=
  ⟨mol_L1_ok c, rfl⟩

end Ptn.C07

import PtnModel.Props.C07Dense
import PtnModel.Proofs.Ham2JW
/-!
# Property C07, Jordan-Wigner semantics of the bond-optimized spinless construction: the one-body part

"... `molecular_hamiltonian_mpo(tkin, vint)` represents `H = Σ_ij t_ij a†_i a_j + ½ Σ_ijkl v_ijkl a†_i a†_j a_l a_k` ..."

`Props/C07Dense.lean` (`optimized_dense`) shows that the MPO has the dense matrix of the sum of the enumerated chains.  Here the
chains are interpreted under the Jordan-Wigner tables `A = [[0,1],[0,0]]` (id -1), `I` (0), `C = [[0,0],[1,0]]` (1), `N = diag(0,1)` (2),
`Z = diag(1,-1)` (3), with pytenet's convention (`Z` string to the RIGHT of the fermionic operator):

  `a†_i = I^{⊗ i} ⊗ C ⊗ Z^{⊗ (L-1-i)}`  (`jwC L i`),   `a_j = I^{⊗ j} ⊗ A ⊗ Z^{⊗ (L-1-j)}`  (`jwA L j`).

Dense matrices are entry functions on digit lists (`wordWeight opmap w s t = Π_k opmap[w_k][s_k][t_k]`), the matrix product is the sum
over the intermediate digit list (`sumDigits 2 L`, the same notion as in the dense semantics of `MPO.multiply`, C03).

* `jordan_wigner_hop` -- `a†_i a_j`, as a product of dense matrices, is the product operator `I…I C Z…Z A I…I` for `i < j`,
  `I…I A Z…Z C I…I` for `i > j` and `I…I N I…I` for `i = j`, with sign `+1` in all three cases, for every `L` and all `i, j < L`.
* `kinetic_sem` -- the chain list of the enumeration is `hop ++ int` with `L²` hopping chains whose sum is exactly `Σ_ij t_ij a†_i a_j`.
* `molecular_chain_sum_jw_partial` -- whenever the constructor returns (`L ≥ 1`), the dense matrix of the MPO is
  `Σ_ij t_ij a†_i a_j + Σ_{chains of the interaction loop} coeff · padded word`.

*Partial*: the two-body part is not interpreted: that the interaction chain of `(i < j, k < l)` (coefficient `gint_ijkl`) is
`gint_ijkl · a†_i a†_j a_l a_k` and that `Σ_{i<j,k<l} gint_ijkl a†_i a†_j a_l a_k = ½ Σ_ijkl v_ijkl a†_i a†_j a_l a_k` (anticommutation).
-/
set_option linter.unusedSectionVars false

namespace Ptn.C07
open Ptn Ptn.Og Ptn.Ham Ptn.Ch Ptn.Dense Ptn.Ham2

variable {κ : Type} [CommRing κ] [DecidableEq κ]

/-- the Jordan-Wigner words, spelled out -/
theorem jordan_wigner_words (L i : Nat) :
    jwC L i = List.replicate i 0 ++ 1 :: List.replicate (L - 1 - i) 3 ∧
    jwA L i = List.replicate i 0 ++ (-1) :: List.replicate (L - 1 - i) 3 ∧
    (molOpmap : OpMap κ) =
      [(-1, [[0, 1], [0, 0]]), (0, [[1, 0], [0, 1]]), (1, [[0, 0], [1, 0]]), (2, [[0, 0], [0, 1]]), (3, [[1, 0], [0, -1]])] :=
  ⟨rfl, rfl, rfl⟩

/-- **`a†_i a_j` under the Jordan-Wigner tables.**  For all `i, j < L` and all digit lists `s, t` of length `L`:
`Σ_u ⟨s| a†_i |u⟩ ⟨u| a_j |t⟩ = ⟨s| W |t⟩` with `W = I^i C Z^{j-i-1} A I^{L-1-j}` (`i < j`), `W = I^j A Z^{i-j-1} C I^{L-1-i}` (`i > j`),
`W = I^i N I^{L-1-i}` (`i = j`): correct `Z` strings between the two sites, none outside, sign `+1`. -/
theorem jordan_wigner_hop (L i j : Nat) (hi : i < L) (hj : j < L) (s t : List Nat) (hs : s.length = L) (ht : t.length = L) :
    sumDigits 2 L (fun u => wordWeight (molOpmap : OpMap κ) (jwC L i) s u * wordWeight molOpmap (jwA L j) u t)
      = wordWeight molOpmap
          (if i < j then List.replicate i 0 ++ 1 :: (List.replicate (j - i - 1) 3 ++ (-1) :: List.replicate (L - 1 - j) 0)
           else if j < i then List.replicate j 0 ++ (-1) :: (List.replicate (i - j - 1) 3 ++ 1 :: List.replicate (L - 1 - i) 0)
           else List.replicate i 0 ++ 2 :: List.replicate (L - 1 - i) 0) s t :=
  jw_hop_dense L i j hi hj s t hs ht

/-- **The kinetic part of the enumeration.**  Whenever the chain enumeration of `molecular_hamiltonian_mpo(tkin, vint, optimize=True)`
returns `chains` (it does for every `L`, `molecular_chains_wf`), `chains = hop ++ int` where `hop` consists of the `L²` chains of the
hopping loop and `int` of the chains of the interaction loop (`molIntChain i j k l gint_ijkl` over `i < j`, `k < l`), and for all digit
lists `s, t` of length `L` the dense entry of the sum of the hopping chains is `Σ_i Σ_j t_ij · (a†_i a_j)[s, t]`. -/
theorem kinetic_sem (c : Consts κ) (tkin : List (List κ)) (vint : List (List (List (List κ)))) (chains : List (OpChain κ))
    (h : molChains c tkin vint = .ok chains) :
    ∃ hop int, chains = hop ++ int ∧ hop.length = tkin.length * tkin.length ∧
      (intTuples tkin.length).mapM (fun (q : Int × Int × Int × Int) =>
        molIntChain q.1 q.2.1 q.2.2.1 q.2.2.2 (gint c vint q.1 q.2.1 q.2.2.1 q.2.2.2)) = .ok int ∧
      ∀ s t : List Nat, s.length = tkin.length → t.length = tkin.length →
        termsEntry molOpmap (denChainsRaw hop (tkin.length : Int) 0) s t =
          ((List.range tkin.length).map fun (i : Nat) => ((List.range tkin.length).map fun (j : Nat) =>
            t2 tkin (i : Int) (j : Int) * sumDigits 2 tkin.length (fun u =>
              wordWeight molOpmap (jwC tkin.length i) s u * wordWeight molOpmap (jwA tkin.length j) u t)).sum).sum := by
  obtain ⟨hop, int, rfl, hhop, hint⟩ := molChains_split c tkin vint chains h
  exact ⟨hop, int, rfl, hop_length tkin hop hhop, hint, fun s t hs ht => (hop_kinetic tkin hop hhop s t hs ht).2⟩

/-- **The dense matrix of the bond-optimized spinless MPO, one-body part interpreted.**  Whenever
`molecular_hamiltonian_mpo(tkin, vint, optimize=True)` returns for `L ≥ 1` orbitals: the MPO has `L` sites of dimension 2, and for all
occupation digit lists `s, t` the matrix element is
`Σ_ij t_ij (a†_i a_j)[s, t] + Σ_{ch ∈ int} coeff(ch) · Π_k table[padded word(ch)_k][s_k, t_k]`, `int` the chains of the interaction
loop.  *Partial*: the second summand is not rewritten as `½ Σ_ijkl v_ijkl (a†_i a†_j a_l a_k)[s, t]`. -/
theorem molecular_chain_sum_jw_partial (c : Consts κ) (tkin : List (List κ)) (vint : List (List (List (List κ))))
    (hL : 1 ≤ (tkin.length : Int)) (b : Built κ) (hb : molBuildOpt c tkin vint = .ok b) :
    ∃ int : List (OpChain κ),
      (intTuples tkin.length).mapM (fun (q : Int × Int × Int × Int) =>
        molIntChain q.1 q.2.1 q.2.2.1 q.2.2.2 (gint c vint q.1 q.2.1 q.2.2.1 q.2.2.2)) = .ok int ∧
      (b.mpo.toMPO [0, 1]).A.length = tkin.length ∧
      ∀ s t : List Nat, Digits 2 tkin.length s → Digits 2 tkin.length t →
        (b.mpo.toMPO [0, 1]).elem s t =
          ((List.range tkin.length).map fun (i : Nat) => ((List.range tkin.length).map fun (j : Nat) =>
            t2 tkin (i : Int) (j : Int) * sumDigits 2 tkin.length (fun u =>
              wordWeight molOpmap (jwC tkin.length i) s u * wordWeight molOpmap (jwA tkin.length j) u t)).sum).sum +
          termsEntry molOpmap (denChainsRaw int (tkin.length : Int) 0) s t := by
  obtain ⟨chains, hch, _, _, _, hd⟩ := (optimized_dense c tkin vint hL).1 b hb
  obtain ⟨hop, int, rfl, _, hint, hk⟩ := kinetic_sem c tkin vint chains hch
  refine ⟨int, hint, hd.sites, ?_⟩
  intro s t hs ht
  rw [hd.elem s t hs ht, denChainsRaw, List.map_append, termsEntry_append, ← hk s t hs.1 ht.1]
  rfl

/-- non-vacuity of `jordan_wigner_hop` and of the sign: on three modes `⟨1 1 0| a†_0 a_2 |0 1 1⟩ = C[1,0] · Z[1,1] · A[0,1] = -1` -/
example : wordWeight (molOpmap : OpMap Int) [1, 3, -1] [1, 1, 0] [0, 1, 1] = -1 ∧
    sumDigits 2 3 (fun u => wordWeight (molOpmap : OpMap Int) (jwC 3 0) [1, 1, 0] u * wordWeight molOpmap (jwA 3 2) u [0, 1, 1]) = -1 := by
  constructor <;> decide

/-- non-vacuity of `kinetic_sem` / `molecular_chain_sum_jw_partial`: one orbital, `tkin = [[3]]`: the constructor returns and the
enumeration is the single hopping chain `3 · n_0` (no interaction chains) -/
example (c : Consts Int) : (∃ b, molBuildOpt c [[3]] [[[[9]]]] = .ok b) ∧ molChains c [[3]] [[[[9]]]] = .ok [⟨[2], [0, 0], 3, 0⟩] :=
  ⟨mol_L1_ok c, rfl⟩

end Ptn.C07

import PtnModel.Proofs.EvoTotMain
import PtnModel.Props.C08
import PtnModel.Props.C02Evo
/-!
# C08 — totality of single-site TDVP (the run returns), and the unconditional form of norm / energy conservation

`Props/C08.lean` proves norm and energy conservation *conditional on the run returning `.ok`*.  Here the condition is
removed: under the kernel contracts, for a block-sparse Hermitian MPO compatible with the state,
`integrate_local_singlesite` returns.

Model: `Ptn.Evo.integrateLocalSinglesite` (`PtnModel/Model/Evolution.lean`).  Every exception path of the model is
excluded:

* `assert L == psi.nsites`                       — hypothesis `H.A.length = ψ.A.length`;
* `psi.orthonormalize(mode='right')`             — `C01.ortho_ok` (admissible input, QR shape clause);
* `compute_right_operator_blocks`                — `C04.right_blocks_dense` (shaped state and operator);
* `assert is_qsparse(BR[i], …)` (prologue)       — `Evo.rightBlocks_sparse`: every `BR[i]` is the step
  `contraction_operator_step_right` of block-sparse tensors applied to `BR[i+1]`, and `BR[L-1] = [[[1]]]` is block sparse
  **iff the trailing MPO bond charge is zero** (hypothesis `hlast`; the code asserts it, it does not follow from the other
  hypotheses);
* `lanczos_iteration`: `assert nrmv > 0`         — the start tensor of every local Krylov step is the centre tensor of a
  normalised mixed-canonical state (`Evo.Canon` / `Evo.DInv` of C08), so it has Frobenius norm one (`Evo.centre_frob`) and
  `np.linalg.norm` of it is positive under `NormContract`; for the zero-site steps the bond matrix `C` (`Cᵀ`) has the norm
  of the centre tensor because `A = Q C` with `Q` an isometry; the norm-one property is carried along the whole sweep by
  the unitarity of the local steps (`local_step_unitary`, `bond_step_unitary`);
  `np.zeros(numiter-1)` with the capped count `min(numiter, len v) = 0` (ValueError; F11) — hypothesis `1 ≤ numiter`
  (necessary: `C14.lanczos_zero_raises`) and a non-empty local vector, which positive norm gives under `NormContract`;
* the index / shape errors of `expm_krylov` (`u_hess[0]`, products `V @ …`) — the shape clauses of the `eigh_tridiagonal`
  contract (`C15.EighAt`, field of `SweepCtx`);
* `qr(…)`: its three assertions                  — the matricised (evolved) centre tensor is block sparse w.r.t. the
  current charges: block sparsity is an invariant of the sweep (`HistWf.EvoSparse` of C02, which needs `EvoCompat H ψ`:
  MPO tensors sparse w.r.t. the physical charges *of the state*, leading MPO bond charge zero) and all dimensions are
  positive (`Canon`);
* `contraction_operator_step_left/right`, the `einsum` pushing `C` into the neighbour — shapes of `Canon`.

Hypotheses of `tdvp1_total` (all used): `SweepCtx k H ψ.qd numiter` (QR contract of C01, norm contract, `eigh_tridiagonal`
contract at the Lanczos runs, `H` shaped and dense-Hermitian, `d ≥ 1`); `|dexp(i x)| = 1`; `half` real; `dt` purely
imaginary (unitarity is what keeps the Krylov start vectors non-zero — for real `dt` and an oracle `dexp` with zeros the
evolved tensor could vanish); `numiter ≥ 1`; `H.wellFormed` and `EvoCompat H ψ`; trailing MPO bond charge zero; `ψ`
admissible; equal lengths.  The state need **not** be assumed non-zero: in the model (exact arithmetic) the
right-orthonormalised state has norm one unconditionally (`C01.ortho_unit`: for a zero input the block QR returns its
dummy isometries and `nrm = 0`).
-/
set_option linter.unusedSectionVars false

namespace Ptn.C08
open Ptn Ptn.Krylov Ptn.Evo Ptn.BondOps Ptn.Ortho Ptn.Env Finset

variable {𝕜 : Type} [RCLike 𝕜] [DecidableEq 𝕜]

/-- **Totality of single-site TDVP.**  For a well-formed (block-sparse), shaped, dense-Hermitian MPO `H` compatible with
the admissible state `ψ` (`C02.EvoCompat`: same physical charges, leading MPO bond charge zero) whose trailing bond charge
is zero, `numiter ≥ 1`, any number of steps, a purely imaginary time step, under the kernel contracts (`SweepCtx`:
`C01.QRKernel`, `NormContract`, `C15.EighAt` at all Lanczos runs; `|dexp(i x)| = 1`, real `half`):
`integrate_local_singlesite(H, psi, dt, numsteps, numiter)` returns — no assertion, value, index or shape error. -/
theorem tdvp1_total {k : EvoKernels 𝕜 ℝ} {H : MPO 𝕜} {ψ : MPS 𝕜} {numiter : Nat}
    (ctx : SweepCtx k H ψ.qd numiter) (hexp : ∀ x : ℝ, ‖k.dexp (RCLike.I * (x : 𝕜))‖ = 1)
    {hh τ : ℝ} (hhalf : k.half = ((hh : ℝ) : 𝕜)) {dt : 𝕜} (hdt : dt = RCLike.I * ((τ : ℝ) : 𝕜)) (hm : 1 ≤ numiter)
    (hHwf : H.wellFormed = true) (hc : C02.EvoCompat H ψ) (hlast : (H.qD.getD H.A.length []).getD 0 0 = 0)
    (hadm : Admissible ψ) (hlen : H.A.length = ψ.A.length) (numsteps : Nat) :
    ∃ ψ' nrm, integrateLocalSinglesite k H ψ dt numsteps numiter = .ok (ψ', nrm) :=
  tdvp1_ok ctx hexp hhalf hdt hm (HistWf.hOk_of_wf hHwf hc.1 hc.2) hlast hadm hlen numsteps

/-- **Single-site TDVP conserves norm and energy — unconditional form.**  Under the hypotheses of `tdvp1_total` the call
returns some `(ψ', nrm)` and `Σ_σ |ψ'[σ]|² = 1`, `⟨ψ'|H|ψ'⟩ = ⟨ψ1|H|ψ1⟩` for the normalised input `ψ1`
(`orthonormalize(ψ, 'right') = (ψ1, nrm)`), `⟨ψ|H|ψ⟩ = nrm² ⟨ψ'|H|ψ'⟩`, `nrm ≥ 0`, `nrm² = Σ_σ |ψ[σ]|²`. -/
theorem tdvp1_norm_energy_total {k : EvoKernels 𝕜 ℝ} {H : MPO 𝕜} {ψ : MPS 𝕜} {numiter : Nat}
    (ctx : SweepCtx k H ψ.qd numiter) (hexp : ∀ x : ℝ, ‖k.dexp (RCLike.I * (x : 𝕜))‖ = 1)
    {hh τ : ℝ} (hhalf : k.half = ((hh : ℝ) : 𝕜)) {dt : 𝕜} (hdt : dt = RCLike.I * ((τ : ℝ) : 𝕜)) (hm : 1 ≤ numiter)
    (hHwf : H.wellFormed = true) (hc : C02.EvoCompat H ψ) (hlast : (H.qD.getD H.A.length []).getD 0 0 = 0)
    (hadm : Admissible ψ) (hlen : H.A.length = ψ.A.length) (numsteps : Nat) :
    ∃ ψ' nrm, integrateLocalSinglesite k H ψ dt numsteps numiter = .ok (ψ', nrm) ∧
      ∑ σ ∈ digitsU ψ.qd.length ψ'.A.length, ‖ψ'.amp σ‖ ^ 2 = 1 ∧
      0 ≤ nrm ∧ nrm ^ 2 = ∑ s ∈ digitsU ψ.qd.length ψ.A.length, ‖ψ.amp s‖ ^ 2 ∧
      ∃ ψ1, MPS.orthonormalize (ρ := ℝ) k.dqr ψ false = .ok (ψ1, nrm) ∧
        energy ψ' H ψ.qd.length = energy ψ1 H ψ.qd.length ∧
        energy ψ H ψ.qd.length = ((nrm ^ 2 : ℝ) : 𝕜) * energy ψ' H ψ.qd.length := by
  obtain ⟨ψ', nrm, h⟩ := tdvp1_total ctx hexp hhalf hdt hm hHwf hc hlast hadm hlen numsteps
  obtain ⟨h1, h2⟩ := tdvp1_norm_energy ctx hexp hhalf hdt hadm h
  obtain ⟨_, h3, h4⟩ := tdvp1_returns_norm ctx.qr hadm h
  exact ⟨ψ', nrm, h, h1, h3, h4, h2⟩

/-- **`numiter ≥ 1` is necessary**: with `numiter = 0` the first Krylov step raises (`np.zeros(-1)`: ValueError) or, for a
start vector of norm zero, the assertion — the Lanczos iteration never returns. -/
theorem lanczos_zero_iter_raises {Afun : List 𝕜 → List 𝕜} {dnorm : List 𝕜 → ℝ} {v : List 𝕜} :
    ∀ r, lanczos Afun dnorm v 0 ≠ .ok r := by
  intro r hr
  obtain ⟨_, h2, _⟩ := lanczos_sizes _ _ (alpha := r.1) (beta := r.2.1) (V := r.2.2) hr
  omega

/-! ## non-vacuity

All hypotheses of `tdvp1_total` / `tdvp1_norm_energy_total` hold for the kernels `Evo.exK` over `ℂ` (QR kernel
`Ortho.realQR`, 2-norm, the eigen-decomposition of `1 × 1` matrices, `dexp ≡ 1`, `half = 1/2`) with one Lanczos iteration,
the Hermitian two-site MPO `exOC = Z ⊗ 1 + 1 ⊗ Z` (block sparse for the charges `[0, 1]`, bond charges `[0], [0,0], [0]`)
and the admissible two-site state `exψC = |01⟩ + i|10⟩`, time step `dt = i`; hence (by the theorem) the two-site
driver-level run returns for EVERY number of time steps. -/

example : SweepCtx exK exOC exψC.qd 1 ∧ (∀ x : ℝ, ‖exK.dexp (RCLike.I * (x : ℂ))‖ = 1) ∧
    exK.half = (((1 / 2 : ℝ) : ℝ) : ℂ) ∧ (Complex.I : ℂ) = RCLike.I * (((1 : ℝ) : ℝ) : ℂ) ∧ 1 ≤ 1 ∧
    exOC.wellFormed = true ∧ C02.EvoCompat exOC exψC ∧ (exOC.qD.getD exOC.A.length []).getD 0 0 = 0 ∧
    Admissible exψC ∧ exOC.A.length = exψC.A.length :=
  ⟨exK_ctx, exK_exp, rfl, by simp, le_refl 1, C02.exOC_wf, C02.exCompat, rfl, exψC_adm, rfl⟩

/-- an actual two-site driver-level run: every number of time steps -/
example (numsteps : Nat) : ∃ ψ' nrm, integrateLocalSinglesite exK exOC exψC Complex.I numsteps 1 = .ok (ψ', nrm) ∧
    ∑ σ ∈ digitsU exψC.qd.length ψ'.A.length, ‖ψ'.amp σ‖ ^ 2 = 1 ∧ nrm ^ 2 = 2 := by
  obtain ⟨ψ', nrm, h, h1, _, h3, _⟩ := tdvp1_norm_energy_total (k := exK) (H := exOC) (ψ := exψC) exK_ctx exK_exp
    (hh := 1 / 2) (τ := 1) rfl (dt := Complex.I) (by simp) (le_refl 1) C02.exOC_wf C02.exCompat rfl exψC_adm rfl numsteps
  exact ⟨ψ', nrm, h, h1, by rw [h3, exψC_normsq]⟩

example : ∀ r, lanczos (matvec (⟨1, 1, fun _ _ => (1 : ℝ)⟩ : Mat ℝ)) sqrtNorm [1] 0 ≠ .ok r :=
  lanczos_zero_iter_raises

end Ptn.C08

import PtnModel.Props.C06
import PtnModel.Props.C05Dense
import PtnModel.Proofs.BridgeHermModels
import PtnModel.Proofs.BridgeExamples
/-!
# Property C06, last step: the dense matrices of the lattice-model MPOs

"... the MPOs returned for the Ising, spin-1/2 and spin-1 XXZ Heisenberg, Bose-Hubbard and Fermi-Hubbard models ... have exactly
the dense matrix given by the documented formula ... The model Hamiltonians are Hermitian for real parameters ..."

`Props/C06.lean` shows that the operator graph each constructor hands to `MPO.from_opgraph` denotes the documented sum of local
terms (`*_graph_words`).  Here this is combined with the dense semantics of `from_opgraph` (`Props/C05Dense.lean`):

* `b.mpo.toMPO qd` : the `MPO(qd, qD, A)` value for the `from_opgraph` output stored in the constructor result `b`
  (`C05.to_mpo_entries`: same charges, tensors = the nested lists read as arrays);
* `termsEntry opmap terms s t = Σ_{(v, c) ∈ terms} c · Π_k opmap[v_k][s_k][t_k]` : the `(s, t)` entry (digit lists, one digit per
  site) of `Σ c · opmap[v_0] ⊗ opmap[v_1] ⊗ …`;
* `MPO.DenseIs o d n F` : `o` is shaped with `n` sites of dimension `d`, `o.elem s t = F s t` for all digit lists, and both paths
  of `as_matrix()` return the `d^n × d^n` matrix with entry `F s t` at row-major position `(flat d s, flat d t)`.

Every statement is conditional on the constructor returning (`… = .ok b`); that `from_opgraph`'s final `is_qsparse` assertion
cannot fire is not proved (see `obligations/C06.json`).
-/
set_option linter.unusedSectionVars false

namespace Ptn.C06
open Ptn Ptn.Og Ptn.Ham Ptn.Ch

variable {κ : Type} [CommRing κ] [DecidableEq κ]

/-- **Chain-template models, generic.**  Whenever `_local_opchains_to_mpo` returns on `L ≥ 1` sites for well-formed templates and
`d × d` tables, the MPO has `L` sites and its dense matrix is the sum over all translated templates of
`coeff · (identities ⊗ template operators ⊗ identities)`. -/
theorem lattice_dense (lat : Ham.Lattice κ) (L : Int) (b : Built κ) (h : localOpchainsToMpo lat L = .ok b) (hL : 1 ≤ L)
    (htw : ∀ t ∈ lat.lopchains, TemplateWF t) (hsq : ∀ p ∈ lat.opmap, IsSquare lat.qd.length p.2) :
    b.qd = lat.qd ∧ b.opmap = lat.opmap ∧
    MPO.DenseIs (b.mpo.toMPO lat.qd) lat.qd.length L.toNat
      (termsEntry lat.opmap (denChainsRaw (translateChains lat.lopchains L) L lat.oidIdentity)) :=
  lattice_denseIs lat L b h hL htw hsq

/-- `heisenberg_xxz_mpo(L, J, D, h)`: the dense matrix is
`Σ_i J/2 S⁺_i S⁻_{i+1} + J/2 S⁻_i S⁺_{i+1} + D Sᶻ_i Sᶻ_{i+1} - h Sᶻ_i` (ids `Sd=-1, Id=0, Su=1, Sz=2`), for every `L ≥ 1`. -/
theorem xxz_dense (c : Consts κ) (J D h : κ) (L : Int) (b : Built κ)
    (hb : localOpchainsToMpo (⟨[1, -1], xxzOpmap c, xxzTemplates c J D h, 0⟩ : Ham.Lattice κ) L = .ok b) (hL : 1 ≤ L) :
    MPO.DenseIs (b.mpo.toMPO [1, -1]) 2 L.toNat (termsEntry (xxzOpmap c)
      (((pyRange 0 (L - 1)).map fun i => (pyRepeat i 0 ++ [1, -1] ++ pyRepeat (L - 2 - i) 0, c.half * J)) ++
       ((pyRange 0 (L - 1)).map fun i => (pyRepeat i 0 ++ [-1, 1] ++ pyRepeat (L - 2 - i) 0, c.half * J)) ++
       ((pyRange 0 (L - 1)).map fun i => (pyRepeat i 0 ++ [2, 2] ++ pyRepeat (L - 2 - i) 0, D)) ++
       ((pyRange 0 L).map fun i => (pyRepeat i 0 ++ [2] ++ pyRepeat (L - 1 - i) 0, -h)))) := by
  have := (lattice_denseIs _ L b hb hL (xxz_templates c J D h) (xxz_charged c J D h).square).2.2
  rw [← Ham.xxz_words]
  exact this

/-- `heisenberg_xxz_spin1_mpo(L, J, D, h)`: the same terms over the spin-1 tables -/
theorem xxz1_dense (c : Consts κ) (J D h : κ) (L : Int) (b : Built κ)
    (hb : localOpchainsToMpo (⟨[1, 0, -1], xxz1Opmap c, xxz1Templates c J D h, 0⟩ : Ham.Lattice κ) L = .ok b) (hL : 1 ≤ L) :
    MPO.DenseIs (b.mpo.toMPO [1, 0, -1]) 3 L.toNat (termsEntry (xxz1Opmap c)
      (((pyRange 0 (L - 1)).map fun i => (pyRepeat i 0 ++ [1, -1] ++ pyRepeat (L - 2 - i) 0, c.half * J)) ++
       ((pyRange 0 (L - 1)).map fun i => (pyRepeat i 0 ++ [-1, 1] ++ pyRepeat (L - 2 - i) 0, c.half * J)) ++
       ((pyRange 0 (L - 1)).map fun i => (pyRepeat i 0 ++ [2, 2] ++ pyRepeat (L - 2 - i) 0, D)) ++
       ((pyRange 0 L).map fun i => (pyRepeat i 0 ++ [2] ++ pyRepeat (L - 1 - i) 0, -h)))) := by
  have := (lattice_denseIs _ L b hb hL (xxz1_templates c J D h) (xxz1_charged c J D h).square).2.2
  rw [← Ham.xxz1_words]
  exact this

/-- `bose_hubbard_mpo(d, L, t, U, mu)`, every local dimension `d`: the dense matrix is
`Σ_i -t b†_i b_{i+1} - t b_i b†_{i+1} - μ n_i + U n_i (n_i - 1)/2` (ids `B=-1, Id=0, Bd=1, N=2, NI=3`) -/
theorem bose_dense (c : Consts κ) (d : Nat) (t U mu : κ) (L : Int) (b : Built κ)
    (hb : localOpchainsToMpo (⟨boseQd d, boseOpmap c d, boseTemplates t U mu, 0⟩ : Ham.Lattice κ) L = .ok b) (hL : 1 ≤ L) :
    MPO.DenseIs (b.mpo.toMPO (boseQd d)) d L.toNat (termsEntry (boseOpmap c d)
      (((pyRange 0 (L - 1)).map fun i => (pyRepeat i 0 ++ [1, -1] ++ pyRepeat (L - 2 - i) 0, -t)) ++
       ((pyRange 0 (L - 1)).map fun i => (pyRepeat i 0 ++ [-1, 1] ++ pyRepeat (L - 2 - i) 0, -t)) ++
       ((pyRange 0 L).map fun i => (pyRepeat i 0 ++ [2] ++ pyRepeat (L - 1 - i) 0, -mu)) ++
       ((pyRange 0 L).map fun i => (pyRepeat i 0 ++ [3] ++ pyRepeat (L - 1 - i) 0, U)))) := by
  have := (lattice_denseIs _ L b hb hL (bose_templates t U mu) (bose_charged c d t U mu).square).2.2
  rw [← Ham.bose_words]
  have hd : (boseQd d).length = d := by simp [boseQd]
  simpa only [hd] using this

/-- `fermi_hubbard_mpo(L, t, U, mu)`: hopping of either spin with the Jordan-Wigner `Z` between the two modes
(`CZ·AI`, `AZ·CI`, `IC·ZA`, `IA·ZC`), `-μ (n_up + n_dn)`, `U (n_up - 1/2)(n_dn - 1/2)` over the 4-dimensional site tables -/
theorem fermi_hubbard_dense (c : Consts κ) (t U mu : κ) (L : Int) (b : Built κ)
    (hb : localOpchainsToMpo (⟨spinQd, fermiHubbardOpmap c, fhTemplates t U mu, 0⟩ : Ham.Lattice κ) L = .ok b) (hL : 1 ≤ L) :
    MPO.DenseIs (b.mpo.toMPO spinQd) 4 L.toNat (termsEntry (fermiHubbardOpmap c)
      (((pyRange 0 (L - 1)).map fun i => (pyRepeat i 0 ++ [3, 2] ++ pyRepeat (L - 2 - i) 0, -t)) ++
       ((pyRange 0 (L - 1)).map fun i => (pyRepeat i 0 ++ [4, 1] ++ pyRepeat (L - 2 - i) 0, -t)) ++
       ((pyRange 0 (L - 1)).map fun i => (pyRepeat i 0 ++ [5, 8] ++ pyRepeat (L - 2 - i) 0, -t)) ++
       ((pyRange 0 (L - 1)).map fun i => (pyRepeat i 0 ++ [6, 7] ++ pyRepeat (L - 2 - i) 0, -t)) ++
       ((pyRange 0 L).map fun i => (pyRepeat i 0 ++ [9] ++ pyRepeat (L - 1 - i) 0, -mu)) ++
       ((pyRange 0 L).map fun i => (pyRepeat i 0 ++ [10] ++ pyRepeat (L - 1 - i) 0, U)))) := by
  have := (lattice_denseIs _ L b hb hL (fh_templates t U mu) (fh_charged c t U mu).square).2.2
  rw [← fh_words]
  exact this

/-- `ising_mpo(L, J, h, g)`: whenever it returns, `L ≥ 1` and the dense matrix is `Σ_i J Z_i Z_{i+1} + h Z_i + g X_i`
(`isingTerms J h g n`: `(placedWord [1, 1] n i, J)` for `i + 2 ≤ n`, `(placedWord [1] n i, h)` and `(placedWord [2] n i, g)` for
`i < n`; ids `I = 0, Z = 1, X = 2`) -/
theorem ising_dense (L : Int) (J h g : κ) (b : Built κ) (hb : isingBuild L J h g = .ok b) :
    1 ≤ L ∧ MPO.DenseIs (b.mpo.toMPO isingQd) 2 L.toNat (termsEntry isingOpmap (isingTerms J h g L.toNat)) :=
  ⟨(ising_denseIs L J h g b hb).1, (ising_denseIs L J h g b hb).2.2.2⟩

/-- **Graphs unrolled from an automaton satisfy the hypotheses of `C05.from_opgraph_elem`**: for a well-formed automaton (C17), whenever
`OpGraph.from_automaton(a, L)` returns, `L ≥ 1`, the graph is consistent, has length `L`, and the end node is its only node without
outgoing edges (every other node is the copy of an active, hence co-reachable, state). -/
theorem automaton_graph_proper {a : AutOp κ} {L : Int} {g : Graph κ} (hwf : Ptn.C17.AutWellFormed a)
    (h : fromAutomaton a L = .ok g) :
    1 ≤ L ∧ g.isConsistent = true ∧ SingleSink g ∧ g.length = .ok L.toNat :=
  ⟨(Ptn.C17.automaton_length hwf h).2, fromAutomaton_isConsistent h, fromAutomaton_singleSink hwf.valid h,
    (Ptn.C17.automaton_length hwf h).1⟩

/-- non-vacuity of `automaton_graph_proper`: the Ising automaton unrolled over two sites -/
example : Ptn.C17.AutWellFormed (isingAut (2 : Int) 3 5) ∧ (fromAutomaton (isingAut (2 : Int) 3 5) 2).isOk = true :=
  ⟨isingAut_wf 2 3 5, by decide⟩

/-- non-vacuity of `xxz_dense` / `lattice_dense`: `heisenberg_xxz_mpo(1, 2, 3, -3)` returns -/
example (c : Consts Int) :
    ∃ b, localOpchainsToMpo (⟨[1, -1], xxzOpmap c, xxzTemplates c 2 3 (-3), 0⟩ : Ham.Lattice Int) 1 = .ok b ∧ (1 : Int) ≤ 1 := by
  obtain ⟨b, hb⟩ := xxz_L1_ok c
  exact ⟨b, hb, le_refl _⟩

/-- non-vacuity of `ising_dense`: `ising_mpo(2, 2, 3, 5)` returns; the terms on two sites -/
example : (isingBuild 2 (2 : Int) 3 5).isOk = true ∧
    isingTerms (2 : Int) 3 5 2 = [([1, 1], 2), ([1, 0], 3), ([0, 1], 3), ([2, 0], 5), ([0, 2], 5)] := by
  constructor <;> decide

/-- non-vacuity of `termsEntry`: the `(↑↓, ↓↑)` entry of `2 · S⁺ ⊗ S⁻` is `2` -/
example (c : Consts Int) : termsEntry (xxzOpmap c) [([1, -1], 2)] [0, 1] [1, 0] = 2 := by
  rfl

/-! ## Hermiticity -/

/-- **The dense matrix of an adjoint-closed chain-template model is Hermitian for real data.**  Let `adj` be an involution of the
operator ids with `opmap[adj o] = opmap[o]ᵀ` under which the template list is closed with equal coefficients (`AdjointClosed`, see
`*_hermitian_terms`), the templates having pairwise different operator lists; let `σ` be a ring endomorphism of the scalars fixing
every table entry and every template coefficient (complex conjugation, real tables and real parameters; or `σ = id`).  Whenever
the constructor returns (`L ≥ 1`): `elem s t = σ (elem t s)`. -/
theorem dense_hermitian {lat : Ham.Lattice κ} {adj : Int → Int} (h : AdjointClosed lat adj) (hch : LatticeCharged lat)
    (htw : ∀ t ∈ lat.lopchains, TemplateWF t) (hnd : (lat.lopchains.map (·.oids)).Nodup) (σ : κ →+* κ)
    (hσt : ∀ p ∈ lat.opmap, ∀ i j, σ (p.2.entry i j) = p.2.entry i j)
    (hσc : ∀ t ∈ lat.lopchains, σ t.coeff = t.coeff)
    (L : Int) (b : Built κ) (hb : localOpchainsToMpo lat L = .ok b) (hL : 1 ≤ L)
    (s t : List Nat) (hs : Digits lat.qd.length L.toNat s) (ht : Digits lat.qd.length L.toNat t) :
    (b.mpo.toMPO lat.qd).elem s t = σ ((b.mpo.toMPO lat.qd).elem t s) := by
  have hd := (lattice_denseIs lat L b hb hL htw hch.square).2.2
  rw [hd.elem s t hs ht, hd.elem t s ht hs]
  exact lattice_hermitian h hch hnd σ hσt hσc L s t hs.2 ht.2

/-- `heisenberg_xxz_mpo`: Hermitian for real parameters: `elem s t = σ (elem t s)` for every ring endomorphism `σ` (complex
conjugation) fixing `0.5`, `J`, `D`, `h`; with `σ = id`: the matrix is symmetric for all parameter values. -/
theorem xxz_dense_hermitian (c : Consts κ) (J D h : κ) (σ : κ →+* κ) (h5 : σ c.half = c.half) (hJ : σ J = J) (hD : σ D = D)
    (hh : σ h = h) (L : Int) (b : Built κ)
    (hb : localOpchainsToMpo (⟨[1, -1], xxzOpmap c, xxzTemplates c J D h, 0⟩ : Ham.Lattice κ) L = .ok b) (hL : 1 ≤ L)
    (s t : List Nat) (hs : Digits 2 L.toNat s) (ht : Digits 2 L.toNat t) :
    (b.mpo.toMPO [1, -1]).elem s t = σ ((b.mpo.toMPO [1, -1]).elem t s) := by
  refine dense_hermitian (xxz_adjoint c J D h) (xxz_charged c J D h) (xxz_templates c J D h)
    (by show ([[1, -1], [-1, 1], [2, 2], [2]] : List (List Int)).Nodup; decide) σ (xxz_fixed c σ h5) ?_ L b hb hL s t hs ht
  intro t0 ht0
  simp only [xxzTemplates, List.mem_cons, List.not_mem_nil, or_false] at ht0
  rcases ht0 with rfl | rfl | rfl | rfl <;> simp [h5, hJ, hD, hh]

/-- `heisenberg_xxz_spin1_mpo`: Hermitian for real parameters (`σ` fixes `0.5`, `√2`, `J`, `D`, `h`) -/
theorem xxz1_dense_hermitian (c : Consts κ) (J D h : κ) (σ : κ →+* κ) (h5 : σ c.half = c.half) (h2 : σ (c.sq 2) = c.sq 2)
    (hJ : σ J = J) (hD : σ D = D) (hh : σ h = h) (L : Int) (b : Built κ)
    (hb : localOpchainsToMpo (⟨[1, 0, -1], xxz1Opmap c, xxz1Templates c J D h, 0⟩ : Ham.Lattice κ) L = .ok b) (hL : 1 ≤ L)
    (s t : List Nat) (hs : Digits 3 L.toNat s) (ht : Digits 3 L.toNat t) :
    (b.mpo.toMPO [1, 0, -1]).elem s t = σ ((b.mpo.toMPO [1, 0, -1]).elem t s) := by
  refine dense_hermitian (xxz1_adjoint c J D h) (xxz1_charged c J D h) (xxz1_templates c J D h)
    (by show ([[1, -1], [-1, 1], [2, 2], [2]] : List (List Int)).Nodup; decide) σ (xxz1_fixed c σ h2) ?_ L b hb hL s t hs ht
  intro t0 ht0
  simp only [xxz1Templates, List.mem_cons, List.not_mem_nil, or_false] at ht0
  rcases ht0 with rfl | rfl | rfl | rfl <;> simp [h5, hJ, hD, hh]

/-- `bose_hubbard_mpo`, every `d`: Hermitian for real parameters (`σ` fixes all `√n`, `t`, `U`, `μ`) -/
theorem bose_dense_hermitian (c : Consts κ) (d : Nat) (t' U mu : κ) (σ : κ →+* κ) (hq : ∀ n, σ (c.sq n) = c.sq n)
    (ht' : σ t' = t') (hU : σ U = U) (hmu : σ mu = mu) (L : Int) (b : Built κ)
    (hb : localOpchainsToMpo (⟨boseQd d, boseOpmap c d, boseTemplates t' U mu, 0⟩ : Ham.Lattice κ) L = .ok b) (hL : 1 ≤ L)
    (s t : List Nat) (hs : Digits d L.toNat s) (ht : Digits d L.toNat t) :
    (b.mpo.toMPO (boseQd d)).elem s t = σ ((b.mpo.toMPO (boseQd d)).elem t s) := by
  have hd : (boseQd d).length = d := by simp [boseQd]
  refine dense_hermitian (bose_adjoint c d t' U mu) (bose_charged c d t' U mu) (bose_templates t' U mu)
    (by show ([[1, -1], [-1, 1], [2], [3]] : List (List Int)).Nodup; decide) σ (bose_fixed c d σ hq) ?_ L b hb hL s t
    (by rw [hd]; exact hs) (by rw [hd]; exact ht)
  intro t0 ht0
  simp only [boseTemplates, List.mem_cons, List.not_mem_nil, or_false] at ht0
  rcases ht0 with rfl | rfl | rfl | rfl <;> simp [ht', hU, hmu]

/-- `fermi_hubbard_mpo`: Hermitian for real parameters (`σ` fixes `0.5`, `t`, `U`, `μ`) -/
theorem fermi_hubbard_dense_hermitian (c : Consts κ) (t' U mu : κ) (σ : κ →+* κ) (h5 : σ c.half = c.half)
    (ht' : σ t' = t') (hU : σ U = U) (hmu : σ mu = mu) (L : Int) (b : Built κ)
    (hb : localOpchainsToMpo (⟨spinQd, fermiHubbardOpmap c, fhTemplates t' U mu, 0⟩ : Ham.Lattice κ) L = .ok b) (hL : 1 ≤ L)
    (s t : List Nat) (hs : Digits 4 L.toNat s) (ht : Digits 4 L.toNat t) :
    (b.mpo.toMPO spinQd).elem s t = σ ((b.mpo.toMPO spinQd).elem t s) := by
  refine dense_hermitian (fh_adjoint c t' U mu) (fh_charged c t' U mu) (fh_templates t' U mu)
    (by show ([[3, 2], [4, 1], [5, 8], [6, 7], [9], [10]] : List (List Int)).Nodup; decide) σ (fh_fixed c σ h5) ?_
    L b hb hL s t hs ht
  intro t0 ht0
  simp only [fhTemplates, List.mem_cons, List.not_mem_nil, or_false] at ht0
  rcases ht0 with rfl | rfl | rfl | rfl | rfl | rfl <;> simp [ht', hU, hmu]

/-- `ising_mpo`: Hermitian for real parameters (`σ` fixes `J`, `h`, `g`; the tables `I, Z, X` are symmetric with entries `0, ±1`) -/
theorem ising_dense_hermitian (L : Int) (J h g : κ) (σ : κ →+* κ) (hJ : σ J = J) (hh : σ h = h) (hg : σ g = g)
    (b : Built κ) (hb : isingBuild L J h g = .ok b) (s t : List Nat) (hs : Digits 2 L.toNat s) (ht : Digits 2 L.toNat t) :
    (b.mpo.toMPO isingQd).elem s t = σ ((b.mpo.toMPO isingQd).elem t s) := by
  have hd := (ising_denseIs L J h g b hb).2.2.2
  rw [hd.elem s t hs ht, hd.elem t s ht hs]
  exact termsEntry_symm isingOpmap σ 2 (ising_tables_symm σ) _ (ising_terms_fixed σ J h g hJ hh hg _) s t hs.2 ht.2

/-- non-vacuity of the Hermiticity statements: `σ = id` satisfies all hypotheses on `σ` (then the statement is symmetry of the
matrix); the constructor hypotheses are those of `xxz_dense` / `ising_dense` -/
example (c : Consts Int) : (RingHom.id Int) c.half = c.half ∧
    ∃ b, localOpchainsToMpo (⟨[1, -1], xxzOpmap c, xxzTemplates c 2 3 (-3), 0⟩ : Ham.Lattice Int) 1 = .ok b ∧
      Digits 2 (1 : Int).toNat [1] ∧ Digits 2 (1 : Int).toNat [0] := by
  obtain ⟨b, hb⟩ := xxz_L1_ok c
  exact ⟨rfl, b, hb, by decide, by decide⟩

end Ptn.C06

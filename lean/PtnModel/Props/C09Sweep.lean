import PtnModel.Proofs.EvoRevExample2
/-!
# C09 (reversibility over complete sweeps and time steps) — single-site TDVP is exactly time reversible

Property (properties.jsonl): *… With exact local exponentials, single-site steps with dt followed by the same number of
steps with -dt return the initial state for any bond dimension and any complex dt, once the result is multiplied by the
norm reported by the second call (which is one for purely imaginary dt), because the integrator is symmetric.*

Model: `Ptn.Evo.integrateLocalSinglesite`, `tdvp1Step`, `tdvp1Left`, `tdvp1Right` (`PtnModel/Model/Evolution.lean`), tied to
`pytenet/evolution.py` by the correspondences of `harness/props/c09.py`.  Scalars: any `RCLike 𝕜`, exact arithmetic.

## The argument

One time step is `S(dt) = LR(dt) ; M(dt) ; RL(dt)`: the left-to-right half sweep (`tdvp1Left` at the sites `0 … L-2`), the
full step at the last site, the right-to-left half sweep (`tdvp1Right` at the sites `L-1 … 1`).  In
`S(dt) ; S(-dt) = LR(dt); M(dt); RL(dt); LR(-dt); M(-dt); RL(-dt)` the sub-steps cancel **from the middle outwards**: the
last sub-step of `RL(dt)` against the first of `LR(-dt)`, then the next pair, …, then `M(dt)` against `M(-dt)`, then `LR(dt)`
against `RL(-dt)`.  After a pair has cancelled the sweep state of the second call equals the earlier state of the first
call only **up to unitary matrices on the virtual bonds** (the QR of the second call returns `Q' = Q · U`), and all later
sub-steps of the second call run on such gauge-transformed states.  `Props/C09Rev.lean` proved one pair from *equal*
states; here the gauge is carried through:

* `GaugeEq H qd s t c` (`Proofs/EvoRevDefs.lean`): both sweep states satisfy the sweep invariant `Canon` with centre `c`
  and `t.A[m] = U_mᴴ · s.A[m] · U_{m+1}` for unitaries `U_m` on the bonds (`U_0 = U_L = 1`).  Gauge-equivalent states hold
  the same dense state (`gauge_dense`); their environment blocks are conjugated by the same unitaries (derived from the
  dense characterisation of the blocks, `Proofs/EvoRevDense.lean`), so their effective one-site and zero-site operators
  are *intertwined* by the gauge and exact local exponentials cancel across it (`Proofs/EvoRevLocal.lean`).
* `tdvp1_pair_gauge`, `tdvp1_pair_gauge_mirror`, `tdvp1_mid_gauge`: a sub-step with `dt` from `s`, followed by the mirrored
  sub-step with `-dt` from ANY state gauge equivalent to the result, gives a state gauge equivalent to `s`.
* induction over the nested pairs: `tdvp1_halfsweep_reversible`, `tdvp1_step_reversible`, `tdvp1_steps_reversible`.

## Hypotheses (all are about sub-steps that are actually executed)

`StepExact inv` / `RunExact inv` (`Proofs/EvoRevExact.lean`) say that *every executed sub-step* of a time step / of
`numsteps` time steps is exact and regular: `LeftExact inv`, `RightExact inv` — both Lanczos runs of the sub-step exhaust
their Krylov spaces (`C15.Exhausted`: exact local exponentials), its QR keeps the bond dimension, and — only for
`inv = true` — the returned triangular factor has a right inverse (full rank); `MidExact` — the Lanczos run of the step at
the last site is exhausted.  The runs with `dt` need `inv = false`, the runs with `-dt` need `inv = true` (the full-rank
condition is what makes the QR of the second call unique up to a unitary).  Without the regularity of the QR steps reversibility is false in exact
arithmetic (see `obligations/C09.json`).  `E(a) E(-a) = 1` for the scalar exponential oracle.  `SweepCtx`: kernel
contracts (QR, norm, `eigh_tridiagonal`), `H` shaped and Hermitian.

## What is proved, and what is not

Proved: reversibility of the sweeps from a sweep state in canonical form — half sweep, one time step, `numsteps` time
steps (for every complex `dt`, every Hermitian MPO, every number of Lanczos iterations, every bond dimension subject to the
regularity above), including the start of the second run from a state that is only gauge equivalent to the end of the
first.  On the level of the two calls of `integrate_local_singlesite`:
* `tdvp1_calls_reversible` — **purely imaginary `dt`** (real-time evolution, the case in which the second call reports the
  norm one): the call with `-dt` on the result of the call with `dt` returns the normalised initial state and `nrm2 = 1`.  The
  prologue of the second call (right-orthonormalisation of the already right-canonical, normalised result, new environment
  blocks) is shown to be a pure gauge change (`Evo.prologue_gauge`: QR uniqueness site by site), under the regularity
  `OrthoRightRegular` of its QR steps (they keep the bond dimensions).
* `tdvp1_calls_reversible_partial` — arbitrary complex `dt`, still assuming that the prologue of the second call is a gauge
  change (`hpro`).  For `dt` that is not purely imaginary the second prologue divides the state by the reported norm `nrm2`;
  the statement `nrm2 · ψ2 = ψ0` additionally needs the homogeneity of the sweeps under positive rescaling — not proved.
Also: totality of the reversed call (`tdvp1_reverse_total`) and the sweep invariant for arbitrary complex `dt`
(`tdvp1_step_canonical`).
-/
set_option linter.unusedSectionVars false

namespace Ptn.C09
open Ptn Ptn.Krylov Ptn.Evo Ptn.BondOps Ptn.Ortho Ptn.Env Finset

variable {𝕜 : Type} [RCLike 𝕜] [DecidableEq 𝕜]
variable {k : EvoKernels 𝕜 ℝ} {H : MPO 𝕜} {qd : List Int} {numiter : Nat}

/-- **Gauge-equivalent sweep states hold the same dense state.**  If both states satisfy the sweep invariant with centre
`c` and the site tensors of `t` are `U_mᴴ · s.A[m] · U_{m+1}` for unitaries `U_m` on the bonds (`U_0 = U_L = 1`), every
amplitude of the dense state of `t` equals that of `s`. -/
theorem gauge_dense {s t : Sweep 𝕜} {c : Nat} (hg : GaugeEq H qd s t c) {σ : List Nat}
    (hσ : σ ∈ digitsU qd.length H.A.length) : (cur qd t).amp σ = (cur qd s).amp σ :=
  hg.amp hσ

/-- every state in canonical form is gauge equivalent to itself (identity gauge) -/
theorem gauge_refl {s : Sweep 𝕜} {c : Nat} (hs : Canon H qd s c) : GaugeEq H qd s s c :=
  GaugeEq.refl hs

/-- **The sweep invariant for arbitrary complex `dt`.**  One complete time step `tdvp1Step` (left-to-right half sweep,
step at the last site, right-to-left half sweep) maps a sweep state in mixed-canonical form with centre `0` (isometries,
environment blocks = partial contractions of the current tensors) to such a state — no assumption on `dt`. -/
theorem tdvp1_step_canonical (ctx : SweepCtx k H qd numiter) {dt : 𝕜} {s s' : Sweep 𝕜} (h : Canon H qd s 0)
    (hrun : tdvp1Step k H qd dt numiter s = .ok s') : Canon H qd s' 0 :=
  tdvp1Step_canon ctx h hrun

/-- **A backward-sweep step is undone, up to the gauge, by the mirrored forward-sweep step with negated time started from
any gauge-equivalent state.**  `s` is in canonical form with centre `j+1`; `tdvp1Right … dt` at site `j+1` returns `s'`; `t'`
is ANY state gauge equivalent to `s'` (centre `j`); `tdvp1Left … (-dt)` at site `j` applied to `t'` returns `t''`.  If both
calls are exact and regular (`RightExact` for the first, `LeftExact` for the second: exhausted Lanczos runs, QR keeps the
bond dimension, triangular factor of full rank) and `E(a) E(-a) = 1`, then `t''` is gauge equivalent to `s` (centre `j+1`)
— for every complex `dt`.  With `t' = s'` this is `tdvp1_reversible_partial` of `Props/C09Rev.lean`, strengthened by the
gauge relation of the result. -/
theorem tdvp1_pair_gauge (ctx : SweepCtx k H qd numiter) {s s' t' t'' : Sweep 𝕜} {j : Nat} {dt : 𝕜}
    (h : Canon H qd s (j + 1)) (hR : tdvp1Right k H qd dt numiter s (j + 1) = .ok s') (hg : GaugeEq H qd s' t' j)
    (hL : tdvp1Left k H qd (-dt) numiter t' j = .ok t'')
    (hexR : RightExact false k H qd dt numiter s (j + 1)) (hexL : LeftExact true k H qd (-dt) numiter t' j)
    (hexp : ∀ (a : 𝕜) (x : ℝ), k.dexp (a * (x : 𝕜)) * k.dexp (-a * (x : 𝕜)) = 1) :
    GaugeEq H qd s t'' (j + 1) :=
  pairRL_gauge ctx h hR hg hL hexR hexL hexp

/-- **The mirror image**: `tdvp1Left … dt` at site `i` from `s` (centre `i`), then `tdvp1Right … (-dt)` at site `i+1` from any
state gauge equivalent to the result, gives a state gauge equivalent to `s` (centre `i`). -/
theorem tdvp1_pair_gauge_mirror (ctx : SweepCtx k H qd numiter) {s s' t' t'' : Sweep 𝕜} {i : Nat} {dt : 𝕜}
    (h : Canon H qd s i) (hi1 : i + 1 < H.A.length) (hLr : tdvp1Left k H qd dt numiter s i = .ok s')
    (hg : GaugeEq H qd s' t' (i + 1)) (hRr : tdvp1Right k H qd (-dt) numiter t' (i + 1) = .ok t'')
    (hexL : LeftExact false k H qd dt numiter s i) (hexR : RightExact true k H qd (-dt) numiter t' (i + 1))
    (hexp : ∀ (a : 𝕜) (x : ℝ), k.dexp (a * (x : 𝕜)) * k.dexp (-a * (x : 𝕜)) = 1) :
    GaugeEq H qd s t'' i :=
  pairLR_gauge ctx h hi1 hLr hg hRr hexL hexR hexp

/-- **The step at the centre** (`_local_hamiltonian_step` with time `δ`, as at the last site of a time step) is undone, up to
the gauge, by the step with `-δ` at the centre of any gauge-equivalent state (both Lanczos runs exhausted). -/
theorem tdvp1_mid_gauge (ctx : SweepCtx k H qd numiter) {s t : Sweep 𝕜} {c : Nat} {δ : 𝕜} {Al Al' : T3 𝕜}
    (h : Canon H qd s c)
    (hrun : localHamiltonianStep k (getBL s c) (getBR s c) (H.A.getD c zeroT4) (getA s c) δ numiter = .ok Al)
    (hg : GaugeEq H qd (⟨s.A.setIfInBounds c Al, s.qD, s.BL, s.BR⟩ : Sweep 𝕜) t c)
    (hback : localHamiltonianStep k (getBL t c) (getBR t c) (H.A.getD c zeroT4) (getA t c) (-δ) numiter = .ok Al')
    (hex : MidExact k H numiter s c) (hex' : MidExact k H numiter t c)
    (hexp : ∀ (a : 𝕜) (x : ℝ), k.dexp (a * (x : 𝕜)) * k.dexp (-a * (x : 𝕜)) = 1) :
    GaugeEq H qd s (⟨t.A.setIfInBounds c Al', t.qD, t.BL, t.BR⟩ : Sweep 𝕜) c :=
  mid_gauge ctx h hrun hg hback hex hex' hexp

/-- **Half sweeps cancel** (`tdvp1_halfsweep_reversible`).  `s` is in canonical form with centre `n`.  The right-to-left
half sweep with `dt` (`tdvp1Right` at the sites `n, n-1, …, 1`, as in the second half of a time step) returns `r`; the
left-to-right half sweep with `-dt` (`tdvp1Left` at the sites `0, …, n-1`, as in the first half of the next time step)
started from ANY state `t` gauge equivalent to `r` (in particular from `r` itself) returns `t'`.  If every executed
sub-step of both half sweeps is exact and regular (`FoldAll … RightExact`, `FoldAll … LeftExact`) and `E(a) E(-a) = 1`, then
`t'` is gauge equivalent to `s`, and every amplitude of the dense state of `t'` equals that of `s` — for every complex `dt`,
every Hermitian MPO, every number of Lanczos iterations. -/
theorem tdvp1_halfsweep_reversible (ctx : SweepCtx k H qd numiter) {dt : 𝕜} {n : Nat} {s r t t' : Sweep 𝕜}
    (h : Canon H qd s n)
    (hR : foldIdx (tdvp1Right k H qd dt numiter) ((List.range n).reverse.map (· + 1)) s = .ok r)
    (hg : GaugeEq H qd r t 0)
    (hL : foldIdx (tdvp1Left k H qd (-dt) numiter) (List.range n) t = .ok t')
    (hexR : FoldAll (tdvp1Right k H qd dt numiter) (RightExact false k H qd dt numiter)
      ((List.range n).reverse.map (· + 1)) s)
    (hexL : FoldAll (tdvp1Left k H qd (-dt) numiter) (LeftExact true k H qd (-dt) numiter) (List.range n) t)
    (hexp : ∀ (a : 𝕜) (x : ℝ), k.dexp (a * (x : 𝕜)) * k.dexp (-a * (x : 𝕜)) = 1) :
    GaugeEq H qd s t' n ∧ ∀ σ, σ ∈ digitsU qd.length H.A.length → (cur qd t').amp σ = (cur qd s).amp σ := by
  have g := halfsweepRL_gauge ctx hexp n s r t t' h hR hg hL hexR hexL
  exact ⟨g, fun σ hσ => g.amp hσ⟩

/-- **One time step is reversible** (`tdvp1_step_reversible`).  `s` is a sweep state in canonical form with centre `0` (the
state of `integrate_local_singlesite` between time steps: right-orthonormal tensors, right environment blocks).  One complete
time step with `dt` returns `b`; one complete time step with `-dt` started from ANY state `t` gauge equivalent to `b` (in
particular from `b` itself: `gauge_refl`) returns `e`.  If every executed sub-step of both time steps is exact and regular
(`StepExact`: exhausted Lanczos runs, QR steps keep the bond dimensions, triangular factors of full rank) and
`E(a) E(-a) = 1`, then `e` is gauge equivalent to `s` and holds the same dense state: every amplitude of `e` equals that of
`s`.  For every complex `dt`, every Hermitian MPO, every number of sites and of Lanczos iterations, every bond profile
(subject to the regularity). -/
theorem tdvp1_step_reversible (ctx : SweepCtx k H qd numiter) {dt : 𝕜} {s b t e : Sweep 𝕜} (h : Canon H qd s 0)
    (hS : tdvp1Step k H qd dt numiter s = .ok b) (hg : GaugeEq H qd b t 0)
    (hS' : tdvp1Step k H qd (-dt) numiter t = .ok e)
    (hex : StepExact false k H qd dt numiter s) (hex' : StepExact true k H qd (-dt) numiter t)
    (hexp : ∀ (a : 𝕜) (x : ℝ), k.dexp (a * (x : 𝕜)) * k.dexp (-a * (x : 𝕜)) = 1) :
    GaugeEq H qd s e 0 ∧ ∀ σ, σ ∈ digitsU qd.length H.A.length → (cur qd e).amp σ = (cur qd s).amp σ := by
  have g := tdvp1Step_gauge ctx hexp h hS hg hS' hex hex'
  exact ⟨g, fun σ hσ => g.amp hσ⟩

/-- **`numsteps` time steps with `dt` followed by `numsteps` time steps with `-dt` return the initial dense state**
(`tdvp1_steps_reversible`): the sweep part of `integrate_local_singlesite(H, psi, dt, numsteps)` followed by the sweep part of
`integrate_local_singlesite(H, ·, -dt, numsteps)`.  `s` in canonical form with centre `0`; `iterate (tdvp1Step … dt) numsteps s`
returns `b`; `iterate (tdvp1Step … (-dt)) numsteps t` returns `e` for a state `t` gauge equivalent to `b` (e.g. `b` itself);
every executed sub-step of both runs exact and regular (`RunExact`); `E(a) E(-a) = 1`.  Then `e` is gauge equivalent to `s`
and every amplitude of the dense state of `e` equals that of `s`. -/
theorem tdvp1_steps_reversible (ctx : SweepCtx k H qd numiter) {dt : 𝕜} {numsteps : Nat} {s b t e : Sweep 𝕜}
    (h : Canon H qd s 0)
    (hS : iterate (tdvp1Step k H qd dt numiter) numsteps s = .ok b) (hg : GaugeEq H qd b t 0)
    (hS' : iterate (tdvp1Step k H qd (-dt) numiter) numsteps t = .ok e)
    (hex : RunExact false k H qd dt numiter numsteps s) (hex' : RunExact true k H qd (-dt) numiter numsteps t)
    (hexp : ∀ (a : 𝕜) (x : ℝ), k.dexp (a * (x : 𝕜)) * k.dexp (-a * (x : 𝕜)) = 1) :
    GaugeEq H qd s e 0 ∧ ∀ σ, σ ∈ digitsU qd.length H.A.length → (cur qd e).amp σ = (cur qd s).amp σ := by
  have g := tdvp1Steps_gauge ctx hexp numsteps s b t e h hS hg hS' hex hex'
  exact ⟨g, fun σ hσ => g.amp hσ⟩

/-- **Two calls of `integrate_local_singlesite` (partial).**  The call with `(dt, numsteps)` on an admissible state `ψ`
returns `(ψ1, nrm1)`, the call with `(-dt, numsteps)` on `ψ1` returns `(ψ2, nrm2)`; every executed sub-step of the sweeps of
both calls is exact and regular (`hex1`, `hex2`: `RunExact` from the respective prologue states); `E(a) E(-a) = 1`.  Then
every amplitude of `ψ2` is the amplitude of `ψ0`, the right-orthonormalised (normalised) input of the first call
(`orthonormalize(ψ, 'right') = (ψ0, nrm1)`), **provided** (`hpro`) the prologue of the second call — right-orthonormalisation
of the already right-canonical state `ψ1` and recomputation of the right blocks — returns a sweep state gauge equivalent to
the final sweep state `b` of the first call.
What is missing (`_partial`): `hpro` itself for `dt` that is not purely imaginary.  For purely imaginary `dt` it is proved
(`prologue_is_gauge`, giving `tdvp1_calls_reversible`); for other `dt` the prologue in addition divides the state by `nrm2`,
and the statement becomes `nrm2 · ψ2 = ψ0`, which needs the homogeneity of all sub-steps under a positive rescaling of the
centre tensor. -/
theorem tdvp1_calls_reversible_partial {ψ ψ1 ψ2 : MPS 𝕜} (ctx : SweepCtx k H ψ.qd numiter) (hadm : Admissible ψ) {dt : 𝕜}
    {numsteps : Nat} {nrm1 nrm2 : ℝ}
    (h1 : integrateLocalSinglesite k H ψ dt numsteps numiter = .ok (ψ1, nrm1))
    (h2 : integrateLocalSinglesite k H ψ1 (-dt) numsteps numiter = .ok (ψ2, nrm2))
    (hex1 : ∀ s0, prologue k H ψ = .ok (s0, nrm1) → RunExact false k H ψ.qd dt numiter numsteps s0)
    (hex2 : ∀ t0, prologue k H ψ1 = .ok (t0, nrm2) → RunExact true k H ψ.qd (-dt) numiter numsteps t0)
    (hpro : ∀ s0 b t0, prologue k H ψ = .ok (s0, nrm1) →
      iterate (tdvp1Step k H ψ.qd dt numiter) numsteps s0 = .ok b → prologue k H ψ1 = .ok (t0, nrm2) →
      GaugeEq H ψ.qd b t0 0)
    (hexp : ∀ (a : 𝕜) (x : ℝ), k.dexp (a * (x : 𝕜)) * k.dexp (-a * (x : 𝕜)) = 1) :
    ∃ ψ0, MPS.orthonormalize (ρ := ℝ) k.dqr ψ false = .ok (ψ0, nrm1) ∧
      ∀ σ, σ ∈ digitsU ψ.qd.length H.A.length → ψ2.amp σ = ψ0.amp σ :=
  tdvp1_calls_gauge ctx hadm h1 h2 hex1 hex2 hpro hexp

/-- **Two calls of `integrate_local_singlesite`, purely imaginary time step: exact time reversibility.**  `ψ` admissible, `H`
a well-formed (block-sparse), shaped, dense-Hermitian MPO compatible with `ψ`; `dt = iτ`; the call
`integrate_local_singlesite(H, ψ, dt, numsteps, numiter)` returns `(ψ1, nrm1)` and the call
`integrate_local_singlesite(H, ψ1, -dt, numsteps, numiter)` returns `(ψ2, nrm2)`.  Hypotheses: kernel contracts (`SweepCtx`),
`|E(ix)| = 1`, `half` real, `E(a) E(-a) = 1`; every executed sub-step of the sweeps of both calls is exact and regular
(`hex1`, `hex2`: `RunExact` from the respective prologue states — exhausted Lanczos runs, QR steps keep the bond dimensions,
and for the second call full-rank triangular factors); the QR steps of the right-orthonormalisation at the start of the
second call keep the bond dimensions (`OrthoRightRegular`).  Then **the second call reports the norm one and returns the
normalised initial state**: `nrm2 = 1` and every amplitude of `ψ2` equals that of `ψ0`, where
`orthonormalize(ψ, 'right') = (ψ0, nrm1)` — for every Hermitian MPO, every number of sites, time steps and Lanczos
iterations, every bond profile (subject to the regularity). -/
theorem tdvp1_calls_reversible {ψ ψ1 ψ2 : MPS 𝕜} (ctx : SweepCtx k H ψ.qd numiter)
    (hexpI : ∀ x : ℝ, ‖k.dexp (RCLike.I * (x : 𝕜))‖ = 1) {hh τ : ℝ} (hhalf : k.half = ((hh : ℝ) : 𝕜)) {dt : 𝕜}
    (hdt : dt = RCLike.I * ((τ : ℝ) : 𝕜)) (hHwf : H.wellFormed = true) (hc : C02.EvoCompat H ψ) (hadm : Admissible ψ)
    {numsteps : Nat} {nrm1 nrm2 : ℝ}
    (h1 : integrateLocalSinglesite k H ψ dt numsteps numiter = .ok (ψ1, nrm1))
    (h2 : integrateLocalSinglesite k H ψ1 (-dt) numsteps numiter = .ok (ψ2, nrm2))
    (hex1 : ∀ s0, prologue k H ψ = .ok (s0, nrm1) → RunExact false k H ψ.qd dt numiter numsteps s0)
    (hex2 : ∀ t0, prologue k H ψ1 = .ok (t0, nrm2) → RunExact true k H ψ.qd (-dt) numiter numsteps t0)
    (hreg : OrthoRightRegular k.dqr ψ1)
    (hexp : ∀ (a : 𝕜) (x : ℝ), k.dexp (a * (x : 𝕜)) * k.dexp (-a * (x : 𝕜)) = 1) :
    nrm2 = 1 ∧ ∃ ψ0, MPS.orthonormalize (ρ := ℝ) k.dqr ψ false = .ok (ψ0, nrm1) ∧
      ∀ σ, σ ∈ digitsU ψ.qd.length H.A.length → ψ2.amp σ = ψ0.amp σ :=
  tdvp1_calls_reversible_imag ctx hexpI hhalf hdt hHwf hc hadm h1 h2 hex1 hex2 hreg hexp

/-- **The prologue of a call on an already right-canonical, normalised state is a pure gauge change.**  `b` is a sweep state
in canonical form with centre `0` and norm one, `toMPS ψ b` the state written back from it (admissible); the prologue
(`orthonormalize(mode='right')`, right environment blocks) applied to it returns `(t0, nrm2)`; the QR steps of the
orthonormalisation keep the bond dimensions (`OrthoRightRegular`).  Then `t0` is gauge equivalent to `b` (unitaries on the
bonds, identity on the boundary bonds — the sign fix of `orthonormalize` absorbs the last factor) and `nrm2 = 1`. -/
theorem prologue_is_gauge (ctx : SweepCtx k H qd numiter) {ψ : MPS 𝕜} (hqd : ψ.qd = qd) {b t0 : Sweep 𝕜}
    (hb : Canon H qd b 0) (hadm : Admissible (toMPS ψ b)) {nrm2 : ℝ}
    (hp : prologue k H (toMPS ψ b) = .ok (t0, nrm2)) (hreg : OrthoRightRegular k.dqr (toMPS ψ b))
    (hnorm : normSq (cur qd b) qd.length = 1) : GaugeEq H qd b t0 0 ∧ nrm2 = 1 :=
  ⟨prologue_gauge ctx hqd hb hadm hp hreg hnorm, prologue_gauge_norm ctx hqd hb hadm hp hreg hnorm⟩

/-- **Totality of the reversed call** (`tdvp1_reverse_total`).  Under the hypotheses of `C08.tdvp1_total` (kernel contracts,
block-sparse Hermitian MPO compatible with the admissible state, trailing MPO bond charge zero, `numiter ≥ 1`): the state
`ψ1` returned by a call of `integrate_local_singlesite` is again admissible and compatible with `H`, so a second call on it
with any purely imaginary time step `dt'` — in particular `-dt` — and any number of steps returns. -/
theorem tdvp1_reverse_total {ψ ψ1 : MPS 𝕜} (ctx : SweepCtx k H ψ.qd numiter)
    (hexp : ∀ x : ℝ, ‖k.dexp (RCLike.I * (x : 𝕜))‖ = 1)
    {hh τ' : ℝ} (hhalf : k.half = ((hh : ℝ) : 𝕜)) {dt dt' : 𝕜} (hdt' : dt' = RCLike.I * ((τ' : ℝ) : 𝕜))
    (hm : 1 ≤ numiter) (hHwf : H.wellFormed = true) (hc : C02.EvoCompat H ψ)
    (hlast : (H.qD.getD H.A.length []).getD 0 0 = 0) (hadm : Admissible ψ) {n : Nat} {nrm1 : ℝ}
    (h1 : integrateLocalSinglesite k H ψ dt n numiter = .ok (ψ1, nrm1)) (n' : Nat) :
    Admissible ψ1 ∧ C02.EvoCompat H ψ1 ∧ H.A.length = ψ1.A.length ∧
      ∃ ψ2 nrm2, integrateLocalSinglesite k H ψ1 dt' n' numiter = .ok (ψ2, nrm2) :=
  tdvp1_reverse_ok ctx hexp hhalf hdt' hm hHwf hc hlast hadm h1 n'

/-! ## non-vacuity

Two witnesses.  (1) A complete one: the one-site system `exH1 = 2·𝟙`, `exψ1 = (1, i)`, kernels `exK1` (`dexp = Complex.exp`),
one Lanczos iteration, `dt = iτ`: ALL hypotheses of `tdvp1_steps_reversible` and of `tdvp1_calls_reversible`, including the
exactness predicates, hold for actual runs (`Proofs/EvoRevExample1.lean`, `EvoRevExample2.lean`); for one site no QR sub-step
occurs inside a time step.  (2) A two-site one with genuine sweeps: kernels `exK` over `ℂ` (QR kernel `realQR`, 2-norm,
eigen-decomposition of `1 × 1` matrices, `dexp ≡ 1`, one Lanczos iteration), Hermitian MPO `exOC = Z ⊗ 1 + 1 ⊗ Z`, admissible
state `exψC = |01⟩ + i|10⟩`, `dt = i`: all hypotheses other than the exactness predicates are exhibited for actual runs (as in
`Props/C09.lean` / `C09Rev.lean`, where joint satisfiability of successful runs with `C15.Exhausted` is exhibited on the
vector level). -/

/-- hypotheses of `tdvp1_step_reversible` / `tdvp1_steps_reversible` / `tdvp1_calls_reversible_partial` other than the
exactness predicates, for actual runs: both calls return (every number of steps), the prologue state `s0` and the final
sweep state `b` of the first call are in canonical form with centre `0` (`Canon`), the sweeps succeed from `s0`, `b` is gauge
equivalent to itself (a legitimate start `t = b` of the second run), `E(a) E(-a) = 1`, kernel contracts -/
example (n : Nat) : ∃ (ψ1 ψ2 : MPS ℂ) (nrm1 nrm2 : ℝ) (s0 b : Sweep ℂ),
    SweepCtx exK exOC exψC.qd 1 ∧ Admissible exψC ∧
    integrateLocalSinglesite exK exOC exψC Complex.I n 1 = .ok (ψ1, nrm1) ∧
    integrateLocalSinglesite exK exOC ψ1 (-Complex.I) n 1 = .ok (ψ2, nrm2) ∧
    prologue exK exOC exψC = .ok (s0, nrm1) ∧ Canon exOC exψC.qd s0 0 ∧
    iterate (tdvp1Step exK exOC exψC.qd Complex.I 1) n s0 = .ok b ∧ Canon exOC exψC.qd b 0 ∧
    GaugeEq exOC exψC.qd b b 0 ∧
    (∀ (a : ℂ) (x : ℝ), exK.dexp (a * (x : ℂ)) * exK.dexp (-a * (x : ℂ)) = 1) := by
  obtain ⟨ψ1, ψ2, nrm1, nrm2, s0, b, h1, h2, hp, hc0, hit, hcb, _, hg, _⟩ := exRev_calls n
  exact ⟨ψ1, ψ2, nrm1, nrm2, s0, b, exK_ctx, exψC_adm, h1, h2, hp, hc0, hit, hcb, hg, exRev_exp⟩

/-- **ALL hypotheses of `tdvp1_steps_reversible` — including both exactness predicates — hold jointly for actual runs**: the
one-site system `H = 2·𝟙` (`exH1`), `ψ = (1, i)` (`exψ1`), kernels `exK1` (`exK` with `dexp = Complex.exp`), one Lanczos
iteration, `dt = iτ` for every real `τ`, every number of time steps (for one site a time step is the step at the last site,
so `StepExact` reduces to `MidExact`; every tensor is an eigenvector of the effective operator `2·𝟙`) -/
example (n : Nat) (τ : ℝ) : ∃ (s0 b e : Sweep ℂ) (nrm : ℝ),
    SweepCtx exK1 exH1 exψ1.qd 1 ∧ prologue exK1 exH1 exψ1 = .ok (s0, nrm) ∧ Canon exH1 exψ1.qd s0 0 ∧
    iterate (tdvp1Step exK1 exH1 exψ1.qd (Complex.I * τ) 1) n s0 = .ok b ∧
    iterate (tdvp1Step exK1 exH1 exψ1.qd (-(Complex.I * τ)) 1) n b = .ok e ∧
    RunExact false exK1 exH1 exψ1.qd (Complex.I * τ) 1 n s0 ∧
    RunExact true exK1 exH1 exψ1.qd (-(Complex.I * τ)) 1 n b ∧
    GaugeEq exH1 exψ1.qd b b 0 ∧
    (∀ (a : ℂ) (x : ℝ), exK1.dexp (a * (x : ℂ)) * exK1.dexp (-a * (x : ℂ)) = 1) :=
  exRev1_full n τ

/-- **ALL hypotheses of `tdvp1_calls_reversible` hold jointly** for the same one-site system: both calls return, the
exactness predicates hold from both prologue states, the re-orthonormalisation is regular -/
example (n : Nat) (τ : ℝ) : ∃ (ψ1 ψ2 : MPS ℂ) (nrm1 nrm2 : ℝ),
    SweepCtx exK1 exH1 exψ1.qd 1 ∧ (∀ x : ℝ, ‖exK1.dexp (RCLike.I * (x : ℂ))‖ = 1) ∧
    exK1.half = (((1 / 2 : ℝ) : ℝ) : ℂ) ∧ exH1.wellFormed = true ∧ C02.EvoCompat exH1 exψ1 ∧ Admissible exψ1 ∧
    integrateLocalSinglesite exK1 exH1 exψ1 (Complex.I * τ) n 1 = .ok (ψ1, nrm1) ∧
    integrateLocalSinglesite exK1 exH1 ψ1 (-(Complex.I * τ)) n 1 = .ok (ψ2, nrm2) ∧
    (∀ s0, prologue exK1 exH1 exψ1 = .ok (s0, nrm1) → RunExact false exK1 exH1 exψ1.qd (Complex.I * τ) 1 n s0) ∧
    (∀ t0, prologue exK1 exH1 ψ1 = .ok (t0, nrm2) → RunExact true exK1 exH1 exψ1.qd (-(Complex.I * τ)) 1 n t0) ∧
    OrthoRightRegular exK1.dqr ψ1 ∧
    (∀ (a : ℂ) (x : ℝ), exK1.dexp (a * (x : ℂ)) * exK1.dexp (-a * (x : ℂ)) = 1) := by
  obtain ⟨ψ1, ψ2, nrm1, nrm2, h1, h2, hex1, hex2, hreg⟩ := exRev1_calls n τ
  exact ⟨ψ1, ψ2, nrm1, nrm2, exK1_ctx, exK1_exp, rfl, exH1_wf, exCompat1, exψ1_adm, h1, h2, hex1, hex2, hreg, exRev1_exp⟩

/-- hypotheses of `tdvp1_reverse_total` (those of `C08.tdvp1_total` plus a returned first call), and its conclusion for an
actual run -/
example (n n' : Nat) : ∃ (ψ1 : MPS ℂ) (nrm1 : ℝ), integrateLocalSinglesite exK exOC exψC Complex.I n 1 = .ok (ψ1, nrm1) ∧
    Admissible ψ1 ∧ ∃ ψ2 nrm2, integrateLocalSinglesite exK exOC ψ1 (-Complex.I) n' 1 = .ok (ψ2, nrm2) := by
  obtain ⟨ψ1, nrm1, h1⟩ := C08.tdvp1_total (k := exK) (H := exOC) (ψ := exψC) exK_ctx exK_exp (hh := 1 / 2) (τ := 1) rfl
    (dt := Complex.I) (by simp) (le_refl 1) C02.exOC_wf C02.exCompat rfl exψC_adm rfl n
  obtain ⟨hadm1, _, _, h2⟩ := tdvp1_reverse_total (k := exK) (H := exOC) (ψ := exψC) exK_ctx exK_exp (hh := 1 / 2)
    (τ' := -1) rfl (dt' := -Complex.I) (by simp) (le_refl 1) C02.exOC_wf C02.exCompat rfl exψC_adm h1 n'
  exact ⟨ψ1, nrm1, h1, hadm1, h2⟩

end Ptn.C09

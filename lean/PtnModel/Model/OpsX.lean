import PtnModel.Model.Ops
import PtnModel.Model.OpGraph
/-!
# Operation histories with constructors (C02: "create or update")

`Model/Ops.lean` models the operations that *update* or *combine* objects of a pool.  This file adds the operations that
*create* objects from plain data, so that a history can start from the EMPTY pool:

* `newMps qd qD x`        : `MPS(qd, qD, fill=x)` for a number `x`;
* `newMpo qd qD x`        : `MPO(qd, qD, fill=x)`;
* `identity qd L scale`   : `MPO.identity(qd, L, scale)`;
* `fromOpGraph qd g opmap`: `MPO.from_opgraph(qd, graph, opmap)` (the Hamiltonian constructors of `hamiltonian.py` all end in
                            this call: `Ham.Built.mpo` is its output);
* `resplit i site distr tol` : "tensor splitting": `A = merge_mps_tensor_pair(psi.A[site], psi.A[site+1])` followed by
                            `psi.A[site], psi.A[site+1], psi.qD[site+1] = split_mps_tensor(A, psi.qd, psi.qd,
                            [psi.qD[site], psi.qD[site+2]], svd_distr, tol)` on the MPS in slot `i`.

`xstep` wraps `Hist.step`; `xrun` folds a history.
-/
namespace Ptn.Hist

/-- the nested list `A[s][t][i][j]` produced by `from_opgraph` as an index function with the dimensions NumPy reports -/
def nestedT4 {κ : Type} [OfNat κ 0] (A : List (List (List (List κ)))) : T4 κ :=
  ⟨A.length, (A.getD 0 []).length, ((A.getD 0 []).getD 0 []).length, (((A.getD 0 []).getD 0 []).getD 0 []).length,
    fun s t a b => (((A.getD s []).getD t []).getD a []).getD b 0⟩

/-- the `MPO` object handed back by `MPO.from_opgraph` -/
def mpoOfOut {κ : Type} [OfNat κ 0] (qd : List Int) (out : Og.MpoOut κ) : MPO κ :=
  ⟨qd, out.qD, out.tensors.map nestedT4⟩

inductive XOp (α ρ : Type) where
  | base (op : HOp α ρ)
  | newMps (qd : List Int) (qD : List (List Int)) (x : α)
  | newMpo (qd : List Int) (qD : List (List Int)) (x : α)
  | identity (qd : List Int) (L : Nat) (scale : α)
  | fromOpGraph (qd : List Int) (g : Og.Graph α) (opmap : Og.OpMap α)
  | resplit (i site distr : Nat) (tol : ρ)

variable {α ρ : Type}

/-- slot overwritten by an operation (`none`: a new object is appended) -/
def XOp.target : XOp α ρ → Option Nat
  | .base op => op.target
  | .resplit i _ _ _ => some i
  | _ => none

variable [OfNat α 0] [OfNat α 1] [Add α] [Mul α] [Sub α] [Neg α] [Div α] [DecidableEq α] [HasConj α]
  [RealLike ρ α] [OfNat ρ 0] [OfNat ρ 1] [Add ρ] [Mul ρ] [Div ρ] [Neg ρ] [NatCast ρ] [LT ρ] [DecidableEq ρ] [DecidableLT ρ]

/-- the re-split of two neighbouring tensors of an MPS -/
def resplitMps (k : StepKernels α ρ) (ψ : MPS α) (site distr : Nat) (tol : ρ) : Except Err (MPS α) :=
  match ψ.A[site]?, ψ.A[site + 1]? with
  | some A0, some A1 => do
    let (B0, B1, qb) ← MPS.splitMpsTensor k.svd k.dsqrt (MPS.mergePair A0 A1) ψ.qd ψ.qd
      (ψ.qD.getD site []) (ψ.qD.getD (site + 2) []) distr tol
    return { ψ with A := (ψ.A.set site B0).set (site + 1) B1, qD := ψ.qD.set (site + 1) qb }
  | _, _ => .error .index

/-- one call of a creating or updating operation -/
def xstep (k : StepKernels α ρ) (p : Pool α) (op : XOp α ρ) : Except Err (Pool α × List ρ) :=
  match op with
  | .base op => step k p op
  | .newMps qd qD x => do
    let ψ ← MPS.filled qd qD x
    return (p ++ [.mps ψ], [])
  | .newMpo qd qD x => do
    let o ← MPO.filled qd qD x
    return (p ++ [.mpo o], [])
  | .identity qd L scale => .ok (p ++ [.mpo (MPO.identity qd L scale)], [])
  | .fromOpGraph qd g opmap => do
    let out ← Og.fromOpgraph qd g opmap false
    return (p ++ [.mpo (mpoOfOut qd out)], [])
  | .resplit i site distr tol =>
    match p[i]? with
    | some (.mps ψ) => do
      let ψ' ← resplitMps k ψ site distr tol
      return (p.set i (.mps ψ'), [])
    | _ => .error .type

abbrev XHistory (α ρ : Type) := List (StepKernels α ρ × XOp α ρ)

/-- fold a history of creating / updating operations -/
def xrun (p : Pool α) : XHistory α ρ → Except Err (Pool α)
  | [] => .ok p
  | (k, op) :: h =>
    match xstep k p op with
    | .ok (p', _) => xrun p' h
    | .error e => .error e

end Ptn.Hist

import PtnModel.Model.Symbolic
import PtnModel.Model.OpChain
import PtnModel.Model.OpTree
import PtnModel.Model.AutOp
import PtnModel.Model.Bipartite
/-!
# Model of `pytenet/opgraph.py` and of `MPO.from_opgraph`

A graph is two dictionaries (association lists in Python insertion order) and the pair of terminal ids.
Python mutates node and edge objects in place; here every mutation is an update of the dictionary entry
under which the object is stored (objects are never shared between entries).
Directions: `false` = 0 (upstream / incoming), `true` = 1 (downstream / outgoing).
Loops that do not terminate in Python on cyclic inputs take fuel and return `Err.fuel`.
-/
namespace Ptn.Og

/-! ## edges -/

structure Edge (κ : Type) where
  eid : Int
  nids : Int × Int
  opics : List (Int × κ)
  deriving Repr, DecidableEq

def Edge.nid {κ} (e : Edge κ) (d : Bool) : Int := if d then e.nids.2 else e.nids.1

def Edge.setNid {κ} (e : Edge κ) (d : Bool) (v : Int) : Edge κ :=
  if d then { e with nids := (e.nids.1, v) } else { e with nids := (v, e.nids.2) }

/-- `edge.flip()` -/
def Edge.flip {κ} (e : Edge κ) : Edge κ := { e with nids := (e.nids.2, e.nids.1) }

section
variable {κ : Type} [Add κ] [Mul κ] [OfNat κ 0] [OfNat κ 1] [DecidableEq κ]

/-- one round of the "ensure that each index is unique" loop: pop the entry with index `i` (if any)
and re-insert `(i, c + d)` at the end -/
def mergeOpic (acc : List (Int × κ)) (i : Int) (c : κ) : List (Int × κ) :=
  match acc.find? (fun p => p.1 == i) with
  | some p => acc.eraseP (fun p => p.1 == i) ++ [(i, c + p.2)]
  | none => acc ++ [(i, c)]

/-- stable insertion by operator id -/
def insertOpic (x : Int × κ) : List (Int × κ) → List (Int × κ)
  | [] => [x]
  | y :: ys => if x.1 ≤ y.1 then x :: y :: ys else y :: insertOpic x ys

/-- `sorted(opics)` (operator ids are pairwise different after merging, so the coefficient never decides) -/
def sortOpics (l : List (Int × κ)) : List (Int × κ) := l.foldr insertOpic []

/-- `OpGraphEdge.__init__` -/
def Edge.mk' (eid : Int) (nids : Int × Int) (opics : List (Int × κ)) : Edge κ :=
  ⟨eid, nids, sortOpics (opics.foldl (fun acc p => mergeOpic acc p.1 p.2) [])⟩

/-- `OpGraphEdge.add` -/
def Edge.add (e other : Edge κ) : Except Err (Edge κ) := do
  pyAssert (e.nids == other.nids)
  pure { e with opics := sortOpics (other.opics.foldl (fun acc p => mergeOpic acc p.1 p.2) e.opics) }

end

/-! ## graphs -/

structure Graph (κ : Type) where
  nodes : List (Int × Node)
  edges : List (Int × Edge κ)
  nidTerminal : Int × Int
  deriving Repr, DecidableEq

def Graph.term {κ} (g : Graph κ) (d : Bool) : Int := if d then g.nidTerminal.2 else g.nidTerminal.1

def Graph.setTerm {κ} (g : Graph κ) (d : Bool) (v : Int) : Graph κ :=
  if d then { g with nidTerminal := (g.nidTerminal.1, v) } else { g with nidTerminal := (v, g.nidTerminal.2) }

section
variable {κ : Type} [Add κ] [Mul κ] [OfNat κ 0] [OfNat κ 1] [DecidableEq κ]

def Graph.getNode (g : Graph κ) (nid : Int) : Except Err Node := dGet g.nodes nid
def Graph.getEdge (g : Graph κ) (eid : Int) : Except Err (Edge κ) := dGet g.edges eid

/-- in-place mutation of the node object stored under `nid` (`KeyError` if absent) -/
def Graph.modifyNode (g : Graph κ) (nid : Int) (f : Node → Except Err Node) : Except Err (Graph κ) := do
  let n ← dGet g.nodes nid
  let n' ← f n
  pure { g with nodes := dReplace g.nodes nid n' }

/-- in-place mutation of the edge object stored under `eid` (`KeyError` if absent) -/
def Graph.modifyEdge (g : Graph κ) (eid : Int) (f : Edge κ → Except Err (Edge κ)) : Except Err (Graph κ) := do
  let e ← dGet g.edges eid
  let e' ← f e
  pure { g with edges := dReplace g.edges eid e' }

/-- `add_node` -/
def Graph.addNode (g : Graph κ) (n : Node) : Except Err (Graph κ) :=
  if dHas g.nodes n.nid then .error .value else .ok { g with nodes := g.nodes ++ [(n.nid, n)] }

/-- `add_edge` -/
def Graph.addEdge (g : Graph κ) (e : Edge κ) : Except Err (Graph κ) :=
  if dHas g.edges e.eid then .error .value else .ok { g with edges := g.edges ++ [(e.eid, e)] }

/-- `remove_node` -/
def Graph.removeNode (g : Graph κ) (nid : Int) : Except Err (Node × Graph κ) := do
  let (n, ns) ← dPop g.nodes nid
  pure (n, { g with nodes := ns })

/-- `remove_edge` -/
def Graph.removeEdge (g : Graph κ) (eid : Int) : Except Err (Edge κ × Graph κ) := do
  let (e, es) ← dPop g.edges eid
  pure (e, { g with edges := es })

/-- `OpGraph.__init__` -/
def Graph.mk' (nodes : List Node) (edges : List (Edge κ)) (nidTerminal : List Int) : Except Err (Graph κ) := do
  let g0 : Graph κ := ⟨[], [], (0, 0)⟩
  let g ← nodes.foldlM (fun g n => g.addNode n) g0
  match nidTerminal with
  | [t0, t1] =>
    if !(dHas g.nodes t0) || !(dHas g.nodes t1) then .error .value
    else edges.foldlM (fun g e => g.addEdge e) { g with nidTerminal := (t0, t1) }
  | _ => .error .value

/-- `add_connect_edge` -/
def Graph.addConnectEdge (g : Graph κ) (e : Edge κ) : Except Err (Graph κ) := do
  let g ← g.addEdge e
  let g ← if dHas g.nodes e.nids.1 then g.modifyNode e.nids.1 (fun n => n.addEdgeId e.eid true) else pure g
  if dHas g.nodes e.nids.2 then g.modifyNode e.nids.2 (fun n => n.addEdgeId e.eid false) else pure g

/-- the `while node.eids[direction]` loop of `node_depth` -/
def Graph.nodeDepthLoop (g : Graph κ) (d : Bool) : Nat → Node → Nat → Except Err Nat
  | 0, _, _ => .error .fuel
  | fuel + 1, node, depth =>
    match node.eids d with
    | [] => .ok depth
    | eid :: _ => do
      let edge ← g.getEdge eid
      let node' ← g.getNode (edge.nid d)
      Graph.nodeDepthLoop g d fuel node' (depth + 1)

/-- `node_depth` -/
def Graph.nodeDepth (g : Graph κ) (nid : Int) (d : Bool) : Except Err Nat := do
  let node ← g.getNode nid
  g.nodeDepthLoop d (g.nodes.length + 1) node 0

/-- `length` -/
def Graph.length (g : Graph κ) : Except Err Nat := g.nodeDepth (g.term false) true

/-! ### consistency check -/

/-- the level BFS of `is_consistent` in one direction: queue of (node id, level), map of levels -/
def Graph.levelBfs (g : Graph κ) (d : Bool) : Nat → List (Int × Nat) → List (Int × Nat) → Bool
  | 0, _, _ => false
  | _ + 1, [], _ => true
  | fuel + 1, (nid, level) :: queue, levels =>
    match levels.lookup nid with
    | some l =>
      if level != l then false
      else
        match dGet? g.nodes nid with
        | none => false
        | some node =>
          Graph.levelBfs g d fuel
            (queue ++ (node.eids (!d)).map (fun eid =>
              match dGet? g.edges eid with
              | some e => (e.nid (!d), level + 1)
              | none => (nid, level + 1))) levels
    | none =>
      match dGet? g.nodes nid with
      | none => false
      | some node =>
        Graph.levelBfs g d fuel
          (queue ++ (node.eids (!d)).map (fun eid =>
            match dGet? g.edges eid with
            | some e => (e.nid (!d), level + 1)
            | none => (nid, level + 1))) (levels ++ [(nid, level)])

/-- enough fuel for the level BFS: it visits every walk from the start node until a level conflict
shows up, and without a conflict the walks have fewer edges than there are nodes -/
def Graph.bfsFuel (g : Graph κ) : Nat := (g.edges.length + 2) ^ (g.nodes.length + 1) + 2

/-- `is_consistent` -/
def Graph.isConsistent (g : Graph κ) : Bool :=
  g.nodes.all (fun (k, node) =>
    k == node.nid &&
    [false, true].all (fun d => (node.eids d).all (fun eid =>
      match dGet? g.edges eid with
      | none => false
      | some e => e.nid (!d) == node.nid))) &&
  g.edges.all (fun (k, e) =>
    k == e.eid &&
    [false, true].all (fun d =>
      match dGet? g.nodes (e.nid d) with
      | none => false
      | some node => (node.eids (!d)).contains e.eid) &&
    e.opics == sortOpics e.opics) &&
  [false, true].all (fun d =>
    match dGet? g.nodes (g.term d) with
    | none => false
    | some node => (node.eids d).isEmpty) &&
  [false, true].all (fun d => g.levelBfs d g.bfsFuel [(g.term d, 0)] [])

/-! ### rewrites -/

/-- `merge_edges(eid1, eid2, direction)` -/
def Graph.mergeEdges (g : Graph κ) (eid1 eid2 : Int) (d : Bool) : Except Err (Graph κ) := do
  let edge1 ← g.getEdge eid1
  let (edge2, g) ← g.removeEdge eid2
  pyAssert (edge1.nid d == edge2.nid d)
  -- remove reference to edge2 from base node
  let g ← g.modifyNode (edge2.nid d) (fun n => n.removeEdgeId edge2.eid (!d))
  if edge1.nid (!d) == edge2.nid (!d) then
    -- edges have same upstream node -> add operators (a no-op on the graph if edge1 was just popped)
    let e1 ← edge1.add edge2
    let g := { g with edges := dReplace g.edges eid1 e1 }
    g.modifyNode (edge2.nid (!d)) (fun n => n.removeEdgeId edge2.eid d)
  else do
    pyAssert (edge1.opics == edge2.opics)
    -- merge upstream nodes (never a terminal node into another node)
    pyAssert (!(edge2.nid (!d) == g.nidTerminal.1 || edge2.nid (!d) == g.nidTerminal.2))
    let node1 ← g.getNode (edge1.nid (!d))
    let (node2, g) ← g.removeNode (edge2.nid (!d))
    pyAssert ((node1.eids d).length == 1)
    pyAssert ((node2.eids d).length == 1)
    pyAssert (node1.qnum == node2.qnum)
    -- a terminal node cannot acquire upstream edges
    pyAssert (!((node1.nid == g.nidTerminal.1 || node1.nid == g.nidTerminal.2) && !(node2.eids (!d)).isEmpty))
    -- make former edges from node2 point to node1
    let g ← (node2.eids (!d)).foldlM
      (fun g eid => g.modifyEdge eid (fun e => pure (e.setNid d node1.nid))) g
    g.modifyNode (edge1.nid (!d)) (fun n => pure (n.setEids (!d) (n.eids (!d) ++ node2.eids (!d))))

/-- `merge_edges` with the direction as a Python int -/
def Graph.mergeEdgesI (g : Graph κ) (eid1 eid2 : Int) (direction : Int) : Except Err (Graph κ) :=
  if direction = 0 then g.mergeEdges eid1 eid2 false
  else if direction = 1 then g.mergeEdges eid1 eid2 true
  else .error .value

/-- `itertools.combinations(l, 2)` -/
def pairs2 {α : Type} : List α → List (α × α)
  | [] => []
  | x :: xs => xs.map (fun y => (x, y)) ++ pairs2 xs

/-- the test of `_simplify_step` whether the edge pair is merged; returns the pair handed to `merge_edges`
(with the roles swapped if the second upstream node is a terminal node) -/
def Graph.canMerge (g : Graph κ) (d : Bool) (eid1 eid2 : Int) : Except Err (Option (Int × Int)) := do
  let edge1 ← g.getEdge eid1
  let edge2 ← g.getEdge eid2
  if edge1.nid (!d) == edge2.nid (!d) then pure (some (eid1, eid2))
  else if edge1.opics != edge2.opics then pure none
  else do
    let node1 ← g.getNode (edge1.nid (!d))
    let node2 ← g.getNode (edge2.nid (!d))
    if (node1.eids d).length != 1 then pure none
    else if (node2.eids d).length != 1 then pure none
    else if node1.qnum != node2.qnum then pure none
    else
      -- a terminal node is never absorbed (roles swapped), and only absorbs a node without further upstream edges
      let isTerm := fun (n : Node) => n.nid == g.nidTerminal.1 || n.nid == g.nidTerminal.2
      let (p, n1, n2) := if isTerm node2 then ((eid2, eid1), node2, node1) else ((eid1, eid2), node1, node2)
      if isTerm n1 && !(n2.eids (!d)).isEmpty then pure none else pure (some p)

/-- first pair (in `combinations` order) that can be merged -/
def Graph.findPair (g : Graph κ) (d : Bool) : List (Int × Int) → Except Err (Option (Int × Int))
  | [] => .ok none
  | (e1, e2) :: rest => do
    match ← g.canMerge d e1 e2 with
    | some p => pure (some p)
    | none => Graph.findPair g d rest

/-- `for nid in nids0:` search of `_simplify_step` -/
def Graph.findPairLayer (g : Graph κ) (d : Bool) : List Int → Except Err (Option (Int × Int))
  | [] => .ok none
  | nid :: rest => do
    let node ← g.getNode nid
    match ← g.findPair d (pairs2 (node.eids (!d))) with
    | some p => pure (some p)
    | none => Graph.findPairLayer g d rest

/-- "collect node IDs at next bond site" -/
def Graph.nextLayer (g : Graph κ) (d : Bool) (nids0 : List Int) : Except Err (List Int) :=
  nids0.foldlM (fun acc nid => do
    let node ← g.getNode nid
    (node.eids (!d)).foldlM (fun acc eid => do
      let edge ← g.getEdge eid
      pyAssert (edge.nid d == nid)
      pure (if acc.contains (edge.nid (!d)) then acc else acc ++ [edge.nid (!d)])) acc) []

/-- the `while True` layer walk of `_simplify_step`; `none` = nothing merged -/
def Graph.simplifyWalk (g : Graph κ) (d : Bool) : Nat → List Int → Except Err (Option (Graph κ))
  | 0, _ => .error .fuel
  | fuel + 1, nids0 => do
    match ← g.findPairLayer d nids0 with
    | some (e1, e2) => do
      let g' ← g.mergeEdges e1 e2 d
      pure (some g')
    | none => do
      let nids1 ← g.nextLayer d nids0
      if nids1.isEmpty then pure none else Graph.simplifyWalk g d fuel nids1

/-- `_simplify_step(direction)` -/
def Graph.simplifyStep (g : Graph κ) (d : Bool) : Except Err (Option (Graph κ)) :=
  g.simplifyWalk d (g.nodes.length + 2) [g.term d]

/-- `while self._simplify_step(direction): changed = True`; returns the graph and whether a step succeeded -/
def Graph.simplifyDir (d : Bool) : Nat → Graph κ → Bool → Except Err (Graph κ × Bool)
  | 0, _, _ => .error .fuel
  | fuel + 1, g, changed => do
    match ← g.simplifyStep d with
    | some g' => Graph.simplifyDir d fuel g' true
    | none => pure (g, changed)

/-- the outer `while changed` loop of `simplify` -/
def Graph.simplifyLoop : Nat → Graph κ → Except Err (Graph κ)
  | 0, _ => .error .fuel
  | fuel + 1, g => do
    let (g0, c0) ← Graph.simplifyDir false (g.edges.length + 1) g false
    let (g1, c1) ← Graph.simplifyDir true (g0.edges.length + 1) g0 false
    if c0 || c1 then Graph.simplifyLoop fuel g1 else pure g1

/-- `simplify()` -/
def Graph.simplify (g : Graph κ) : Except Err (Graph κ) := Graph.simplifyLoop (g.edges.length + 2) g

/-- `flip()` -/
def Graph.flip (g : Graph κ) : Graph κ :=
  { nodes := g.nodes.map (fun (k, n) => (k, n.flip)),
    edges := g.edges.map (fun (k, e) => (k, e.flip)),
    nidTerminal := (g.nidTerminal.2, g.nidTerminal.1) }

/-- `rename_node_id(nid_cur, nid_new)` -/
def Graph.renameNodeId (g : Graph κ) (nidCur nidNew : Int) : Except Err (Graph κ) :=
  if !(dHas g.nodes nidCur) then .error .value
  else if dHas g.nodes nidNew then .error .value
  else do
    let (node, g) ← g.removeNode nidCur
    pyAssert (node.nid == nidCur)
    let g ← [false, true].foldlM (fun g d => do
      let g ← (node.eids d).foldlM (fun g eid =>
        g.modifyEdge eid (fun e => do
          pyAssert (e.nid (!d) == nidCur)
          pure (e.setNid (!d) nidNew))) g
      pure (if g.term d == nidCur then g.setTerm d nidNew else g)) g
    g.addNode { node with nid := nidNew }

/-- `rename_edge_id(eid_cur, eid_new)` -/
def Graph.renameEdgeId (g : Graph κ) (eidCur eidNew : Int) : Except Err (Graph κ) :=
  if !(dHas g.edges eidCur) then .error .value
  else if dHas g.edges eidNew then .error .value
  else do
    let (edge, g) ← g.removeEdge eidCur
    pyAssert (edge.eid == eidCur)
    let g ← [false, true].foldlM (fun g d =>
      g.modifyNode (edge.nid d) (fun n => n.renameEdgeId eidCur eidNew (!d))) g
    g.addEdge { edge with eid := eidNew }

/-- ids shared by two dictionaries, ascending -/
def sharedKeys {α β : Type} (a : List (Int × α)) (b : List (Int × β)) : List Int :=
  sortAsc ((dKeys a).filter (fun k => dHas b k))

/-- `max(max(a.keys()), max(b.keys()))`; `ValueError` on an empty dictionary -/
def maxKeys2 {α β : Type} (a : List (Int × α)) (b : List (Int × β)) : Except Err Int :=
  match maxInt? (dKeys a), maxInt? (dKeys b) with
  | some x, some y => .ok (max x y)
  | _, _ => .error .value

/-- `max(d.keys(), default=0)` -/
def maxKeysD {α : Type} (a : List (Int × α)) : Int := (maxInt? (dKeys a)).getD 0

/-- `add(other)` with an explicit iteration order of the two shared-id sets (CPython iterates sets in
hash-table order); `other` is a value here, so the deep copy is implicit. -/
def Graph.addWith (g other : Graph κ) (sharedNids sharedEids : List Int) : Except Err (Graph κ) := do
  -- ensure that node IDs in the two graphs are disjoint
  let nextNid ← maxKeys2 g.nodes other.nodes
  let (other, _) ← sharedNids.foldlM (fun (acc : Graph κ × Int) nid => do
    let o ← acc.1.renameNodeId nid acc.2
    pure (o, acc.2 + 1)) (other, nextNid + 1)
  -- ensure that edge IDs in the two graphs are disjoint
  let nextEid := max (maxKeysD g.edges) (maxKeysD other.edges) + 1
  let (other, _) ← sharedEids.foldlM (fun (acc : Graph κ × Int) eid => do
    let o ← acc.1.renameEdgeId eid acc.2
    pure (o, acc.2 + 1)) (other, nextEid)
  -- use same identifiers for terminal nodes
  let other ← [false, true].foldlM (fun (o : Graph κ) d => o.renameNodeId (o.term d) (g.term d)) other
  -- integrate terminal nodes from 'other' graph
  let (g, other) ← [false, true].foldlM (fun (acc : Graph κ × Graph κ) d => do
    let (tnode, o) ← acc.2.removeNode (acc.2.term d)
    pyAssert (tnode.eids d).isEmpty
    let g' ← acc.1.modifyNode (acc.1.term d) (fun n => pure (n.setEids (!d) (n.eids (!d) ++ tnode.eids (!d))))
    pure (g', o)) (g, other)
  let g := { g with nodes := dUpdate g.nodes other.nodes, edges := dUpdate g.edges other.edges }
  g.simplify

/-- `add(other)`, iterating the shared ids in ascending order -/
def Graph.add (g other : Graph κ) : Except Err (Graph κ) :=
  g.addWith other (sharedKeys g.nodes other.nodes) (sharedKeys g.edges other.edges)

/-! ### symbolic meaning -/

/-- raw path enumeration in `direction` from node `nid` to the terminal node of that direction,
mirroring `_subgraph_as_matrix` (words are built from the left for direction 1, from the right for direction 0) -/
def Graph.pathsFrom (g : Graph κ) (d : Bool) : Nat → Int → Sym κ
  | 0, _ => []
  | fuel + 1, nid =>
    if nid = g.term d then [([], 1)]
    else
      match dGet? g.nodes nid with
      | none => []
      | some node =>
        (node.eids d).flatMap fun eid =>
          match dGet? g.edges eid with
          | none => []
          | some e =>
            e.opics.flatMap fun p =>
              (Graph.pathsFrom g d fuel (e.nid d)).map fun q =>
                (if d then p.1 :: q.1 else q.1 ++ [p.1], p.2 * q.2)

/-- symbolic meaning of the graph as seen from direction `d` (normal form) -/
def Graph.denDir (g : Graph κ) (d : Bool) : Sym κ :=
  symNormalize (g.pathsFrom d (g.nodes.length + 1) (g.term (!d)))

/-- symbolic meaning of the graph: paths from terminal 0 to terminal 1 (normal form) -/
def Graph.den (g : Graph κ) : Sym κ := g.denDir true

/-- path-sum denotation as a function: the coefficient of the word `w` on paths from `nid` to terminal 1 -/
def Graph.denFrom (g : Graph κ) : Word → Int → κ
  | [], nid => if nid = g.term true then 1 else 0
  | o :: w, nid =>
    if nid = g.term true then 0
    else
      match dGet? g.nodes nid with
      | none => 0
      | some node =>
        sumList (node.eidsOut.map fun eid =>
          match dGet? g.edges eid with
          | none => 0
          | some e => sumList (e.opics.map fun p => if p.1 = o then p.2 * Graph.denFrom g w e.nids.2 else 0))

/-- `denF g w`: the coefficient of the word `w` in the operator denoted by `g` -/
def Graph.denF (g : Graph κ) (w : Word) : κ := g.denFrom w (g.term false)

/-! ### `from_opchains` -/

/-- `OpHalfchain` -/
structure HalfChain where
  oids : List Int
  qnums : List Int
  nidl : Int
  deriving Repr, DecidableEq

/-- `OpHalfchain.__init__` -/
def HalfChain.mk' (oids qnums : List Int) (nidl : Int) : Except Err HalfChain :=
  if oids.length + 1 != qnums.length then .error .value else .ok ⟨oids, qnums, nidl⟩

/-- `UNode` -/
structure UNode where
  oid : Int
  qnum0 : Int
  qnum1 : Int
  nidl : Int
  deriving Repr, DecidableEq

/-- `l[i]` -/
def pyIdx {α : Type} (l : List α) (i : Nat) : Except Err α :=
  match l[i]? with
  | some x => .ok x
  | none => .error .index

/-- `l.remove(x)` -/
def pyRemove {α : Type} [BEq α] (l : List α) (x : α) : Except Err (List α) :=
  if l.contains x then .ok (l.erase x) else .error .value

structure Partition (κ : Type) where
  ulist : List UNode
  vlist : List HalfChain
  edges : List (Nat × Nat)
  gamma : List ((Nat × Nat) × κ)

/-- one round of the loop of `_site_partition_halfchains` -/
def partitionStep (p : Partition κ) (chain : HalfChain) (coeff : κ) : Except Err (Partition κ) := do
  let oid0 ← pyIdx chain.oids 0
  let q0 ← pyIdx chain.qnums 0
  let q1 ← pyIdx chain.qnums 1
  let u : UNode := ⟨oid0, q0, q1, chain.nidl⟩
  let (ulist, i) := if p.ulist.contains u then (p.ulist, p.ulist.idxOf u) else (p.ulist ++ [u], p.ulist.length)
  let v ← HalfChain.mk' (chain.oids.drop 1) (chain.qnums.drop 1) (-1)
  let (vlist, j) := if p.vlist.contains v then (p.vlist, p.vlist.idxOf v) else (p.vlist ++ [v], p.vlist.length)
  let edge := (i, j)
  if p.edges.contains edge then
    pure ⟨ulist, vlist, p.edges, p.gamma.map (fun (e, c) => if e == edge then (e, c + coeff) else (e, c))⟩
  else
    pure ⟨ulist, vlist, p.edges ++ [edge], p.gamma ++ [(edge, coeff)]⟩

/-- `_site_partition_halfchains` -/
def sitePartition (chains : List HalfChain) (coeffs : List κ) : Except Err (Partition κ) :=
  (chains.zip coeffs).foldlM (fun p (cc : HalfChain × κ) => partitionStep p cc.1 cc.2) ⟨[], [], [], []⟩

/-- `gamma[(i, j)]` -/
def gammaGet (gamma : List ((Nat × Nat) × κ)) (e : Nat × Nat) : Except Err κ :=
  match gamma.lookup e with
  | some c => .ok c
  | none => .error .key

/-- loop state of `from_opchains` -/
structure ChState (κ : Type) where
  graph : Graph κ
  nidNext : Int
  eidNext : Int
  vlistNext : List HalfChain
  coeffsNext : List κ
  edges : List (Nat × Nat)

/-- body of `for i in u_cover` -/
def uCoverStep (ulist : List UNode) (vlist : List HalfChain) (gamma : List ((Nat × Nat) × κ))
    (adjU : List (List Nat)) (s : ChState κ) (i : Nat) : Except Err (ChState κ) := do
  let u ← pyIdx ulist i
  -- add a new operator edge
  let g ← s.graph.addEdge (Edge.mk' s.eidNext (u.nidl, s.nidNext) [(u.oid, (1 : κ))])
  -- connect edge to previous node
  let nodePrev ← g.getNode u.nidl
  let nodePrev' ← nodePrev.addEdgeId s.eidNext true
  let g := { g with nodes := dReplace g.nodes u.nidl nodePrev' }
  pyAssert (nodePrev'.qnum == u.qnum0)
  -- add a new node
  let node ← Node.mk' s.nidNext [s.eidNext] [] u.qnum1
  let g ← g.addNode node
  let s : ChState κ := { s with graph := g, nidNext := s.nidNext + 1, eidNext := s.eidNext + 1 }
  -- assemble operator half-chains for next iteration
  let adj ← pyIdx adjU i
  adj.foldlM (fun (s : ChState κ) j => do
    let v ← pyIdx vlist j
    let h ← HalfChain.mk' v.oids v.qnums node.nid
    let c ← gammaGet gamma (i, j)
    let edges ← pyRemove s.edges (i, j)
    pure { s with vlistNext := s.vlistNext ++ [h], coeffsNext := s.coeffsNext ++ [c], edges := edges }) s

/-- body of `for j in v_cover` -/
def vCoverStep (ulist : List UNode) (vlist : List HalfChain) (gamma : List ((Nat × Nat) × κ))
    (adjV : List (List Nat)) (s : ChState κ) (j : Nat) : Except Err (ChState κ) := do
  let v ← pyIdx vlist j
  let q ← pyIdx v.qnums 0
  -- add a new node
  let node ← Node.mk' s.nidNext [] [] q
  let g ← s.graph.addNode node
  let h ← HalfChain.mk' v.oids v.qnums node.nid
  let s : ChState κ := { s with graph := g, nidNext := s.nidNext + 1,
                                vlistNext := s.vlistNext ++ [h], coeffsNext := s.coeffsNext ++ [(1 : κ)] }
  -- create a "complementary operator"
  let adj ← pyIdx adjV j
  adj.foldlM (fun (s : ChState κ) i => do
    if !(s.edges.contains (i, j)) then pure s
    else do
      let u ← pyIdx ulist i
      let c ← gammaGet gamma (i, j)
      let g ← s.graph.addEdge (Edge.mk' s.eidNext (u.nidl, node.nid) [(u.oid, c)])
      let nodeCur ← g.getNode node.nid
      pyAssert (u.qnum1 == nodeCur.qnum)
      -- keep track of handled edges
      let edges ← pyRemove s.edges (i, j)
      -- connect edge to previous node
      let g ← g.modifyNode u.nidl (fun n => n.addEdgeId s.eidNext true)
      let nodePrev ← g.getNode u.nidl
      pyAssert (nodePrev.qnum == u.qnum0)
      -- connect edge to new node
      let g ← g.modifyNode node.nid (fun n => n.addEdgeId s.eidNext false)
      pure { s with graph := g, eidNext := s.eidNext + 1, edges := edges }) s

/-- body of the sweep `for _ in range(length)` -/
def siteStep (s : ChState κ) : Except Err (ChState κ) := do
  let p ← sitePartition s.vlistNext s.coeffsNext
  let bigraph ← Ptn.Bip.BGraph.mk' p.ulist.length p.vlist.length
    (p.edges.map fun e => ((e.1 : Int), (e.2 : Int)))
  let (uCover, vCover) ← Ptn.Bip.minimumVertexCover bigraph
  let s : ChState κ := { s with vlistNext := [], coeffsNext := [], edges := p.edges }
  let s ← uCover.foldlM (uCoverStep p.ulist p.vlist p.gamma bigraph.adjU) s
  let s ← vCover.foldlM (vCoverStep p.ulist p.vlist p.gamma bigraph.adjV) s
  pyAssert s.edges.isEmpty
  pure s

/-- `OpGraph.from_opchains(chains, length, oid_identity)` -/
def fromOpchains (chains : List (OpChain κ)) (length : Int) (oidIdentity : Int) : Except Err (Graph κ) := do
  if chains.isEmpty then throw .value
  -- construct graph with start node and dummy end node
  let nodeStart ← Node.mk' 0 [] [] 0
  let nodeDummy ← Node.mk' (-1) [] [] 0
  let graph ← Graph.mk' [nodeStart, nodeDummy] ([] : List (Edge κ)) [0, -1]
  -- pad identities and filter out chains with zero coefficients
  let chains ← (chains.filter (fun c => c.coeff != 0)).mapM (fun c => c.padded length oidIdentity)
  -- convert to half-chains and add a dummy identity operator
  let vlistNext ← chains.mapM (fun c => HalfChain.mk' (c.oids ++ [oidIdentity]) (c.qnums ++ [0]) nodeStart.nid)
  let coeffsNext := chains.map (·.coeff)
  let s0 : ChState κ := ⟨graph, 1, 0, vlistNext, coeffsNext, []⟩
  -- sweep from left to right
  let s ← (List.range length.toNat).foldlM (fun s _ => siteStep s) s0
  -- dummy trailing half-chain
  pyAssert (s.vlistNext.length == 1)
  let last ← pyIdx s.vlistNext 0
  let c0 ← pyIdx s.coeffsNext 0
  let g ←
    if c0 != 1 then do
      let nodeEnd ← s.graph.getNode last.nidl
      nodeEnd.eidsIn.foldlM (fun (g : Graph κ) eid =>
        g.modifyEdge eid (fun e => pure { e with opics := e.opics.map (fun p => (p.1, p.2 * c0)) })) s.graph
    else pure s.graph
  -- make left node the new end node of the graph
  let g := g.setTerm true last.nidl
  let (_, g) ← g.removeNode (-1)
  pyAssert g.isConsistent
  pure g

/-! ### `_insert_opchain`, `_insert_subtree`, `from_optrees` -/

/-- `zip(oids[:-1], coeffs[:-1], qnums)` loop of `_insert_opchain`; returns the graph, the current node id
and the next free ids -/
def insertOpchainLoop (direction : Bool) :
    List (Int × κ × Int) → Graph κ → Int → Int → Int → Except Err (Graph κ × Int × Int)
  | [], g, nidCur, _, eidNext => .ok (g, nidCur, eidNext)
  | (oid, coeff, qnum) :: rest, g, nidCur, nidNext, eidNext => do
    let edge := Edge.mk' eidNext (if direction then (nidCur, nidNext) else (nidNext, nidCur)) [(oid, coeff)]
    let node ← Node.mk' nidNext [] [] qnum
    let g ← g.addNode node
    let g ← g.addConnectEdge edge
    insertOpchainLoop direction rest g nidNext (nidNext + 1) (eidNext + 1)

/-- `l[:-1]` -/
def dropLast' {α : Type} (l : List α) : List α := l.dropLast

/-- `_insert_opchain(nid_start, nid_end, oids, coeffs, qnums, direction)` -/
def Graph.insertOpchain (g : Graph κ) (nidStart nidEnd : Int) (oids : List Int) (coeffs : List κ)
    (qnums : List Int) (direction : Bool) : Except Err (Graph κ) := do
  pyAssert (dHas g.nodes nidStart)
  pyAssert (dHas g.nodes nidEnd)
  pyAssert (oids.length == coeffs.length)
  pyAssert (oids.length == qnums.length + 1)
  -- next available node and edge ID
  let nidNext ← match maxInt? (dKeys g.nodes) with
    | some m => pure (m + 1)
    | none => throw Err.value
  let eidNext := maxKeysD g.edges + 1
  let node ← g.getNode nidStart
  let triples := (oids.dropLast.zip (coeffs.dropLast.zip qnums))
  let (g, nidCur, eidNext) ← insertOpchainLoop direction triples g node.nid nidNext eidNext
  -- last step
  match oids.getLast?, coeffs.getLast? with
  | some oidLast, some cLast =>
    g.addConnectEdge (Edge.mk' eidNext (if direction then (nidCur, nidEnd) else (nidEnd, nidCur)) [(oidLast, cLast)])
  | _, _ => .error .index

mutual
/-- `_insert_subtree(tree_root, nid_root, terminal_dist, oid_identity)` -/
def Graph.insertSubtree (oidIdentity : Int) : TNode κ → Int → Int → Graph κ → Except Err (Graph κ)
  | .mk qnum children, nidRoot, terminalDist, g => do
    if terminalDist < 0 then throw .value
    -- operator graph node
    let node ← g.getNode nidRoot
    if node.qnum != qnum then throw .runtime
    match children with
    | [] =>
      -- arrived at leaf node
      if terminalDist > 0 then
        g.insertOpchain nidRoot (g.term true) (pyRepeat terminalDist oidIdentity)
          (pyRepeat terminalDist (1 : κ)) (pyRepeat (terminalDist - 1) (0 : Int)) true
      else do
        pyAssert (nidRoot == g.term true)
        pure g
    | c :: cs => Graph.insertChildren oidIdentity (c :: cs) nidRoot node.nid terminalDist g
/-- `for edge in tree_root.children` (the Python variable `node` is the object stored under `nid_root`) -/
def Graph.insertChildren (oidIdentity : Int) :
    List (Int × κ × TNode κ) → Int → Int → Int → Graph κ → Except Err (Graph κ)
  | [], _, _, _, g => .ok g
  | (oid, coeff, child) :: rest, nidRoot, nodeNid, terminalDist, g => do
    -- next available node and edge ID
    let nidNext ← if terminalDist > 1 then
        match maxInt? (dKeys g.nodes) with
        | some m => pure (m + 1)
        | none => throw Err.value
      else pure (g.term true)
    let eidNext := maxKeysD g.edges + 1
    let g ← g.modifyNode nidRoot (fun n => n.addEdgeId eidNext true)
    let g ← g.addEdge (Edge.mk' eidNext (nodeNid, nidNext) [(oid, coeff)])
    let g ← if terminalDist > 1 then do
        let n ← Node.mk' nidNext [eidNext] [] child.qnum
        g.addNode n
      else g.modifyNode nidNext (fun n => n.addEdgeId eidNext false)
    let g ← Graph.insertSubtree oidIdentity child nidNext (terminalDist - 1) g
    Graph.insertChildren oidIdentity rest nidRoot nodeNid terminalDist g
end

/-- the `for tree in trees` loop of `from_optrees` -/
def fromOptreesLoop (length : Int) (oidIdentity : Int) (g : Graph κ) (tree : OpTree κ) : Except Err (Graph κ) := do
  let nidStart : Int := 0
  if tree.istart > 0 then do
    -- insert identities between start node and beginning of tree
    let nidRoot ← match maxInt? (dKeys g.nodes) with
      | some m => pure (m + 1)
      | none => throw Err.value
    let n ← Node.mk' nidRoot [] [] tree.root.qnum
    let g ← g.addNode n
    let g ← g.insertOpchain nidStart nidRoot (pyRepeat tree.istart oidIdentity)
      (pyRepeat tree.istart (1 : κ)) (pyRepeat (tree.istart - 1) (0 : Int)) true
    Graph.insertSubtree oidIdentity tree.root nidRoot (length - tree.istart) g
  else
    Graph.insertSubtree oidIdentity tree.root nidStart (length - tree.istart) g

/-- `OpGraph.from_optrees(trees, length, oid_identity)` -/
def fromOptrees (trees : List (OpTree κ)) (length : Int) (oidIdentity : Int) : Except Err (Graph κ) := do
  let n0 ← Node.mk' 0 [] [] 0
  let n1 ← Node.mk' 1 [] [] 0
  let g ← Graph.mk' [n0, n1] ([] : List (Edge κ)) [0, 1]
  let g ← trees.foldlM (fromOptreesLoop length oidIdentity) g
  g.simplify

/-! ### `from_automaton` -/

/-- nodes reached from the set `prev` along edges active at site `i` in `direction` (ascending, duplicate-free) -/
def AutOp.stepActive (a : AutOp κ) (d : Bool) (i : Nat) (prev : List Int) : Except Err (List Int) :=
  prev.foldlM (fun acc nid => do
    let node ← dGet a.nodes nid
    (node.eids d).foldlM (fun acc eid => do
      let edge ← dGet a.edges eid
      pure (if edge.active i then insertAsc (edge.nid d) acc else acc)) acc) []

/-- forward reachability: layers 0..length from terminal 0 -/
def AutOp.forwardLayers (a : AutOp κ) (length : Nat) : Except Err (List (List Int)) :=
  (List.range length).foldlM (fun (layers : List (List Int)) i => do
    let cur ← a.stepActive true i (layers.getLastD [])
    pure (layers ++ [cur])) [[a.term false]]

/-- backward reachability: layers 0..length towards terminal 1 -/
def AutOp.backwardLayers (a : AutOp κ) (length : Nat) : Except Err (List (List Int)) :=
  (List.range length).reverse.foldlM (fun (layers : List (List Int)) i => do
    let cur ← a.stepActive false i (layers.headD [])
    pure (cur :: layers)) [[a.term true]]

/-- loop state of the left-to-right sweep of `from_automaton` -/
structure AutState (κ : Type) where
  graph : Graph κ
  nidNext : Int
  eidNext : Int

/-- `for edge_autop in [...]` for one new node -/
def autEdgesStep (activePrev : List Int) (mapPrev : List Int) (i : Nat) (nodeNid : Int)
    (s : AutState κ) (e : AEdge κ) : Except Err (AutState κ) := do
  if !(e.active i) then pure s
  else if !(activePrev.contains e.nids.1) then pure s
  else do
    let nidPrev ← pyIdx mapPrev (activePrev.idxOf e.nids.1)
    -- add a new edge
    let g ← s.graph.addConnectEdge (Edge.mk' s.eidNext (nidPrev, nodeNid) (e.opics i))
    pure { s with graph := g, eidNext := s.eidNext + 1 }

/-- `for node_autop in [...]` for one layer; returns the state and `nids_map_layer` -/
def autLayerStep (a : AutOp κ) (activePrev : List Int) (mapPrev : List Int) (i : Nat)
    (acc : AutState κ × List Int) (nodeAut : Node) : Except Err (AutState κ × List Int) := do
  let s := acc.1
  let node ← Node.mk' s.nidNext [] [] nodeAut.qnum
  let g ← s.graph.addNode node
  let s : AutState κ := { s with graph := g, nidNext := s.nidNext + 1 }
  -- insert edges connected to the node on the left
  let es ← nodeAut.eidsIn.mapM (fun eid => dGet a.edges eid)
  let s ← es.foldlM (autEdgesStep activePrev mapPrev i node.nid) s
  pure (s, acc.2 ++ [node.nid])

/-- `OpGraph.from_automaton(autop, length)` -/
def fromAutomaton (a : AutOp κ) (length : Int) : Except Err (Graph κ) := do
  if length < 1 then throw .value
  let len := length.toNat
  -- determine active nodes at each layer
  let back ← a.backwardLayers len
  let fwd ← a.forwardLayers len
  let nidsActive := List.zipWith (fun s0 s1 => s0.filter (fun x => s1.contains x)) back fwd
  pyAssert (nidsActive.length == len + 1)
  pyAssert (nidsActive.headD [] == [a.term false])
  pyAssert (nidsActive.getLastD [] == [a.term true])
  -- construct graph with start node and dummy end node
  let term0 ← dGet a.nodes (a.term false)
  let nodeStart ← Node.mk' 0 [] [] term0.qnum
  let nodeDummy ← Node.mk' (-1) [] [] 0
  let graph ← Graph.mk' [nodeStart, nodeDummy] ([] : List (Edge κ)) [0, -1]
  -- sweep from left to right and add nodes and edges
  let (s, _) ← (List.range len).foldlM (fun (acc : AutState κ × List (List Int)) i => do
    let layer := nidsActive.getD (i + 1) []
    let nodesAut ← layer.mapM (fun nid => dGet a.nodes nid)
    let (s, mapLayer) ← nodesAut.foldlM
      (autLayerStep a (nidsActive.getD i []) (acc.2.getD i []) i) (acc.1, [])
    pure (s, acc.2 ++ [mapLayer])) ((⟨graph, 1, 0⟩ : AutState κ), [[nodeStart.nid]])
  -- make last node the new end node of the graph
  let g := s.graph
  let last ← match maxInt? (dKeys g.nodes) with
    | some m => pure m
    | none => throw Err.value
  let g := g.setTerm true last
  let (_, g) ← g.removeNode (-1)
  pyAssert g.isConsistent
  pure g

/-! ### `MPO.from_opgraph` -/

/-- result of `MPO.from_opgraph`: bond quantum numbers, tensors `A[site][a][b][i][j]`, node map in dictionary order -/
structure MpoOut (κ : Type) where
  qD : List (List Int)
  tensors : List (List (List (List (List κ))))
  nidMap : List (Int × (Nat × Nat))

/-- `sum(c * opmap[i] for i, c in edge.opics)` as a `d × d` matrix -/
def opicsDense (opmap : OpMap κ) (d : Nat) (opics : List (Int × κ)) : Except Err (Mat κ) :=
  opics.foldlM (fun acc p => do
    let m ← opmap.get p.1
    pure (Mat.add acc (Mat.scale p.2 m))) (Mat.zero d d)

/-- node ids at the next bond (order of first occurrence) -/
def Graph.nextBond (g : Graph κ) (nids0 : List Int) : Except Err (List Int) :=
  nids0.foldlM (fun acc nid => do
    let node ← g.getNode nid
    node.eidsOut.foldlM (fun acc eid => do
      let edge ← g.getEdge eid
      pyAssert (edge.nids.1 == nid)
      pure (if acc.contains edge.nids.2 then acc else acc ++ [edge.nids.2])) acc) []

/-- the contributions `(i, j, local operator)` of all edges between two neighbouring bonds -/
def Graph.bondContribs (g : Graph κ) (opmap : OpMap κ) (d : Nat) (nids0 nids1 : List Int) :
    Except Err (List (Nat × Nat × Mat κ)) :=
  (nids0.zipIdx).foldlM (fun acc (ni : Int × Nat) => do
    let node ← g.getNode ni.1
    node.eidsOut.foldlM (fun acc eid => do
      let edge ← g.getEdge eid
      if !(nids1.contains edge.nids.2) then throw Err.value
      let j := nids1.idxOf edge.nids.2
      let m ← opicsDense opmap d edge.opics
      pure (acc ++ [(ni.2, j, m)])) acc) []

/-- assemble `A[a][b][i][j]` from the contributions -/
def assembleTensor (d D0 D1 : Nat) (contribs : List (Nat × Nat × Mat κ)) : List (List (List (List κ))) :=
  (List.range d).map fun a => (List.range d).map fun b =>
    (List.range D0).map fun i => (List.range D1).map fun j =>
      sumList ((contribs.filter (fun c => c.1 == i && c.2.1 == j)).map fun c => c.2.2.entry a b)

/-- `sorted(l)` for ints, keeping duplicates -/
def sortInts (l : List Int) : List Int :=
  l.foldr (fun x acc => (acc.takeWhile (· < x)) ++ [x] ++ (acc.dropWhile (· < x))) []

/-- the `while True` layer walk of `from_opgraph` -/
def fromOpgraphLoop (g : Graph κ) (opmap : OpMap κ) (d : Nat) (nidMapOn : Bool) :
    Nat → List Int → Nat → MpoOut κ → Except Err (MpoOut κ)
  | 0, _, _, _ => .error .fuel
  | fuel + 1, nids0, l, out => do
    let nids1 ← g.nextBond nids0
    if nids1.isEmpty then pure out
    else do
      let nids1 := sortInts nids1
      let qDl ← nids1.mapM (fun nid => do let n ← g.getNode nid; pure n.qnum)
      let nidMap := if nidMapOn then
          (nids1.zipIdx).foldl (fun m (ni : Int × Nat) => dSet m ni.1 (l, ni.2)) out.nidMap
        else out.nidMap
      let contribs ← g.bondContribs opmap d nids0 nids1
      let A := assembleTensor d nids0.length nids1.length contribs
      fromOpgraphLoop g opmap d nidMapOn fuel nids1 (l + 1)
        ⟨out.qD ++ [qDl], out.tensors ++ [A], nidMap⟩

/-- `is_qsparse(A, [qd, -qd, qD0, -qD1])` -/
def isQsparse (qd : List Int) (qD0 qD1 : List Int) (A : List (List (List (List κ)))) : Bool :=
  (A.zipIdx).all fun (Aa, a) => (Aa.zipIdx).all fun (Aab, b) =>
    (Aab.zipIdx).all fun (Aabi, i) => (Aabi.zipIdx).all fun (x, j) =>
      (qd.getD a 0 - qd.getD b 0 + qD0.getD i 0 - qD1.getD j 0 == 0) || x == 0

/-- `MPO.from_opgraph(qd, graph, opmap, compute_nid_map)` -/
def fromOpgraph (qd : List Int) (g : Graph κ) (opmap : OpMap κ) (computeNidMap : Bool) : Except Err (MpoOut κ) := do
  let d := qd.length
  if d == 0 then throw .value
  let t0 ← g.getNode (g.term false)
  let out0 : MpoOut κ := ⟨[[t0.qnum]], [], if computeNidMap then [(g.term false, (0, 0))] else []⟩
  let out ← fromOpgraphLoop g opmap d computeNidMap (g.nodes.length + 2) [g.term false] 1 out0
  pyAssert (out.tensors.length + 1 == out.qD.length)
  -- consistency check
  pyAssert ((out.tensors.zipIdx).all fun (A, i) => isQsparse qd (out.qD.getD i []) (out.qD.getD (i + 1) []) A)
  pure out

/-- the matrix `A[:, :, i, j]` -/
def tensorSlice (A : List (List (List (List κ)))) (i j : Nat) : Mat κ :=
  A.map fun Aa => Aa.map fun Aab => (Aab.getD i []).getD j 0

/-- `MPO.as_matrix()` of the tensors produced by `from_opgraph` (left bond dimension 1):
a vector of matrices indexed by the right bond index -/
def mpoAsMatrix (tensors : List (List (List (List (List κ))))) : Except Err (Mat κ) := do
  if tensors.isEmpty then throw .index
  let cur := tensors.foldl (fun (cur : List (Mat κ)) A =>
    let D1 := (((A.getD 0 []).getD 0 []).getD 0 []).length
    let dim := (cur.headD []).length * A.length
    (List.range D1).map fun j =>
      (cur.zipIdx).foldl (fun acc (mi : Mat κ × Nat) => Mat.add acc (Mat.kron mi.1 (tensorSlice A mi.2 j)))
        (Mat.zero dim dim)) [Mat.identity 1]
  pyAssert (cur.length == 1)
  pyIdx cur 0

end
end Ptn.Og

/-!
# Basic helpers shared by all model files

Core Lean only (no Mathlib): everything under `PtnModel/Model` and `PtnModel/Driver`
is linked into the compiled driver `ptndriver`.
-/
namespace Ptn

/-- Python exception kinds the model distinguishes (`fuel` = model fuel exhausted, never a Python outcome). -/
inductive Err where
  | assertion | value | key | type | runtime | index | fuel
  deriving DecidableEq, Repr, Inhabited

def Err.toString : Err → String
  | .assertion => "assertion" | .value => "value" | .key => "key" | .type => "type"
  | .runtime => "runtime" | .index => "index" | .fuel => "fuel"

instance : ToString Err := ⟨Err.toString⟩

/-- `assert c` of Python. -/
def pyAssert (c : Bool) : Except Err Unit := if c then .ok () else .error .assertion

/-- Sum of `g i` for `i < k` (a `List.range` fold; bridged to `Finset.sum` in proofs). -/
def sumRange {α} [Add α] [OfNat α 0] (k : Nat) (g : Nat → α) : α :=
  (List.range k).foldl (fun acc i => acc + g i) 0

/-- Sum of a list (left fold starting from 0, as Python's `sum`). -/
def sumList {α} [Add α] [OfNat α 0] (l : List α) : α := l.foldl (· + ·) 0

end Ptn

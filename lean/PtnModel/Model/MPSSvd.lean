import PtnModel.Model.MPS
/-!
# Model of the SVD-based parts of `pytenet/mps.py`:
`local_orthonormalize_{left,right}_svd`, `MPS.compress`, `split_mps_tensor`, `MPS.from_vector`.
Oracles: `dsvd`, `dnorm`, `dargsort` (see `BondOps`), `dabs : α → ρ` (`abs` of a scalar), `dsqrt : ρ → ρ` (`np.sqrt`).
-/
namespace Ptn.MPS
open BondOps

variable {α ρ : Type} [OfNat α 0] [OfNat α 1] [Add α] [Mul α] [Neg α] [DecidableEq α]
  [RealLike ρ α] [OfNat ρ 0] [OfNat ρ 1] [Add ρ] [Mul ρ] [Div ρ] [Neg ρ] [LT ρ] [DecidableEq ρ] [DecidableLT ρ]

structure SvdKernels (α ρ : Type) where
  dsvd : Mat α → Mat α × List ρ × Mat α
  dnorm : List ρ → ρ
  dargsort : List ρ → List Nat

/-- `local_orthonormalize_left_svd(A, Anext, qd, [qD0, qD1], tol)` -/
def localOrthoLeftSvd (k : SvdKernels α ρ) (A Anext : T3 α) (qd qD0 qD1 : List Int) (tol : ρ) :
    Except Err (T3 α × T3 α × List Int) := do
  let q0 := QN.flatten2 qd qD0
  let (U, sigma, V, qbond) ← splitMatrixSvd k.dsvd k.dnorm k.dargsort A.flattenLeft.tab q0 qD1 tol
  let A' := (T3.ofFlattenLeft U A.d0 A.d1).tab
  if V.n ≠ Anext.d1 then throw .value
  let sg := sigma.toArray
  -- np.tensordot(sigma[:, None] * V, Anext, (1, 1)).transpose((1, 0, 2))
  let SV : Mat α := (⟨V.m, V.n, fun p b => RealLike.ofReal (sg.getD p 0) * V.f p b⟩ : Mat α).tab
  let Anext' : T3 α := ⟨Anext.d0, SV.m, Anext.d2, fun s p c => sumRange SV.n fun b => SV.f p b * Anext.f s b c⟩
  return (A', Anext'.tab, qbond)

/-- `local_orthonormalize_right_svd(A, Aprev, qd, [qD0, qD1], tol)` -/
def localOrthoRightSvd (k : SvdKernels α ρ) (A Aprev : T3 α) (qd qD0 qD1 : List Int) (tol : ρ) :
    Except Err (T3 α × T3 α × List Int) := do
  let At := A.swap01
  let q1 := QN.flatten2 (QN.neg qd) qD1
  let (U, sigma, V, qbond) ← splitMatrixSvd k.dsvd k.dnorm k.dargsort At.flattenRight.tab qD0 q1 tol
  let A' := (T3.ofFlattenRight V At.d1 At.d2).swap01.tab
  if U.m ≠ Aprev.d2 then throw .value
  let sg := sigma.toArray
  -- np.tensordot(Aprev, U * sigma, (2, 0))
  let US : Mat α := (⟨U.m, U.n, fun b p => U.f b p * RealLike.ofReal (sg.getD p 0)⟩ : Mat α).tab
  let Aprev' : T3 α := ⟨Aprev.d0, Aprev.d1, US.n, fun s a p => sumRange US.m fun b => Aprev.f s a b * US.f b p⟩
  return (A', Aprev'.tab, qbond)

def sweepLeftSvd (k : SvdKernels α ρ) (qd : List Int) (tol : ρ) :
    T3 α → List Int → List (T3 α) → List (List Int) → Except Err (List (T3 α) × List (List Int) × T3 α)
  | A, qL, [], [qR] => do
      let (A', T, qb) ← localOrthoLeftSvd k A ones111 qd qL qR tol
      pyAssert (QN.isSparseT3 A' qd qL qb)
      return ([A'], [qb], T)
  | A, qL, Anext :: rest, qR :: qRest => do
      let (A', Anext', qb) ← localOrthoLeftSvd k A Anext qd qL qR tol
      pyAssert (QN.isSparseT3 A' qd qL qb)
      let (As, qs, T) ← sweepLeftSvd k qd tol Anext' qb rest qRest
      return (A' :: As, qb :: qs, T)
  | _, _, _, _ => .error .index

def sweepRightSvd (k : SvdKernels α ρ) (qd : List Int) (tol : ρ) :
    T3 α → List Int → List (T3 α) → List (List Int) → Except Err (List (T3 α) × List (List Int) × T3 α)
  | A, qR, [], [qL] => do
      let (A', T, qb) ← localOrthoRightSvd k A ones111 qd qL qR tol
      pyAssert (QN.isSparseT3 A' qd qb qR)
      return ([A'], [qb], T)
  | A, qR, Aprev :: rest, qL :: qRest => do
      let (A', Aprev', qb) ← localOrthoRightSvd k A Aprev qd qL qR tol
      pyAssert (QN.isSparseT3 A' qd qb qR)
      let (As, qs, T) ← sweepRightSvd k qd tol Aprev' qb rest qRest
      return (A' :: As, qb :: qs, T)
  | _, _, _, _ => .error .index

/-- `MPS.compress(tol, mode)`: updated state, original norm, scale.  `phase z r` models `z / r` for real `r = abs z`. -/
def compress (dqr : Mat α → Mat α × Mat α) (k : SvdKernels α ρ) (dabs : α → ρ) (divR : α → ρ → α)
    (ψ : MPS α) (tol : ρ) (left : Bool) : Except Err (MPS α × ρ × ρ) := do
  if left then
    let (ψ1, nrm) ← orthonormalize (ρ := ρ) dqr ψ false
    match ψ1.A, ψ1.qD with
    | A0 :: rest, q0 :: qrest =>
      let (As, qs, T) ← sweepLeftSvd k ψ1.qd tol A0 q0 rest qrest
      pyAssert (T.d0 == 1 && T.d1 == 1 && T.d2 == 1)
      let t := T.f 0 0 0
      let ph := divR t (dabs t)
      let n := As.length
      let As' := As.take (n - 1) ++ (As.drop (n - 1)).map (fun X => (scaleT3 ph X).tab)
      return ({ ψ1 with A := As', qD := q0 :: qs }, nrm, dabs t)
    | _, _ => throw .index
  else
    let (ψ1, nrm) ← orthonormalize (ρ := ρ) dqr ψ true
    match ψ1.A.reverse, ψ1.qD.reverse with
    | Al :: rrest, ql :: qrrest =>
      let (As, qs, T) ← sweepRightSvd k ψ1.qd tol Al ql rrest qrrest
      pyAssert (T.d0 == 1 && T.d1 == 1 && T.d2 == 1)
      let t := T.f 0 0 0
      let ph := divR t (dabs t)
      let n := As.length
      let As' := As.take (n - 1) ++ (As.drop (n - 1)).map (fun X => (scaleT3 ph X).tab)
      return ({ ψ1 with A := As'.reverse, qD := (ql :: qs).reverse }, nrm, dabs t)
    | _, _ => throw .index

/-- `split_mps_tensor(A, qd0, qd1, [qD0, qD2], svd_distr, tol)`; `distr` is 0 = left, 1 = right, 2 = sqrt. -/
def splitMpsTensor (k : SvdKernels α ρ) (dsqrt : ρ → ρ) (A : T3 α) (qd0 qd1 qD0 qD2 : List Int) (distr : Nat) (tol : ρ) :
    Except Err (T3 α × T3 α × List Int) := do
  let d0 := qd0.length; let d1 := qd1.length
  pyAssert (d0 * d1 == A.d0)
  -- A.reshape((d0, d1, D0, D2)).transpose((0, 2, 1, 3)).reshape((d0*D0, d1*D2))
  let M : Mat α := ⟨d0 * A.d1, d1 * A.d2, fun r c => A.f ((r / A.d1) * d1 + c / A.d2) (r % A.d1) (c % A.d2)⟩
  let q0 := QN.flatten2 qd0 qD0
  let q1 := QN.flatten2 (QN.neg qd1) qD2
  let (A0, sigma, A1, qbond) ← splitMatrixSvd k.dsvd k.dnorm k.dargsort M.tab q0 q1 tol
  let sg := sigma.toArray
  let ns := sigma.length
  if distr > 2 then throw .value
  let wl : Nat → α := fun p => match distr with
    | 0 => RealLike.ofReal (sg.getD p 0) | 1 => 1 | _ => RealLike.ofReal (dsqrt (sg.getD p 0))
  let wr : Nat → α := fun p => match distr with
    | 0 => 1 | 1 => RealLike.ofReal (sg.getD p 0) | _ => RealLike.ofReal (dsqrt (sg.getD p 0))
  let B0 : T3 α := ⟨d0, A.d1, ns, fun s a p => if distr = 1 then A0.f (s * A.d1 + a) p else A0.f (s * A.d1 + a) p * wl p⟩
  let B1 : T3 α := ⟨d1, ns, A.d2, fun s p c => if distr = 0 then A1.f p (s * A.d2 + c) else A1.f p (s * A.d2 + c) * wr p⟩
  return (B0.tab, B1.tab, qbond)

/-- integer power -/
def ipow (d : Nat) : Nat → Nat
  | 0 => 1
  | n + 1 => d * ipow d n

/-- `from_vector` keeps a dummy bond of dimension 1 (index 0) when every singular value is zero (zero vector):
`if len(idx) == 0 and len(s) > 0 and not np.any(s): idx = np.array([0])` -/
def fvKeep {ρ : Type} [OfNat ρ 0] [DecidableEq ρ] (idx0 : List Nat) (s : List ρ) : List Nat :=
  if idx0.isEmpty && !s.isEmpty && s.all (fun x => decide (x = 0)) then [0] else idx0

/-- loop of `MPS.from_vector`: `v` is the current `(Dleft, d^(n-i))` matrix. -/
def fromVectorLoop (k : SvdKernels α ρ) (d : Nat) : Nat → Mat α → ρ → Except Err (List (T3 α) × Mat α)
  | 0, v, _ => .ok ([], v)
  | rem + 1, v, tol => do
      pyAssert (v.n == ipow d (rem + 1))
      let Dleft := v.m
      let cols := ipow d rem
      -- v.reshape((Dleft*d, d**(nsites-i-1)))
      let M : Mat α := ⟨Dleft * d, cols, fun r c => v.f (r / d) ((r % d) * cols + c)⟩
      let (u, s, vv) := k.dsvd M.tab
      let idx := fvKeep (retainedBondIndices k.dnorm k.dargsort s tol) s
      let u := (u.selectCols idx).tab
      let vv := (vv.selectRows idx).tab
      let sa := s.toArray
      let sk := (idx.map fun i => sa.getD i 0).toArray
      let v' : Mat α := (⟨vv.m, vv.n, fun p c => vv.f p c * RealLike.ofReal (sk.getD p 0)⟩ : Mat α).tab
      -- u.reshape((Dleft, d, len(s))).transpose((1, 0, 2))
      let A : T3 α := ⟨d, Dleft, idx.length, fun sp a p => u.f (a * d + sp) p⟩
      let (As, vend) ← fromVectorLoop k d rem v' tol
      return (A.tab :: As, vend)

/-- `MPS.from_vector(d, nsites, v, tol)` -/
def fromVector (k : SvdKernels α ρ) (d nsites : Nat) (v : List α) (tol : ρ) : Except Err (MPS α) := do
  pyAssert (v.length == ipow d nsites)
  let va := v.toArray
  let v0 : Mat α := ⟨1, v.length, fun _ c => va.getD c 0⟩
  let (As, vend) ← fromVectorLoop k d nsites v0 tol
  pyAssert (vend.m == 1 && vend.n == 1)
  let n := As.length
  if n = 0 then throw .index
  let As' := As.take (n - 1) ++ (As.drop (n - 1)).map (fun X => (scaleT3 (vend.f 0 0) X).tab)
  let qD := (List.range (nsites + 1)).map fun i => List.replicate (if i = 0 then 1 else (As'.getD (i - 1) ones111).d2) (0 : Int)
  return ⟨List.replicate d 0, qD, As'⟩

end Ptn.MPS

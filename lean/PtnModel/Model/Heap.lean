import PtnModel.Model.Basic
/-!
# Ownership discipline of the public API (C19)

A functional model has no object identity.  This file records, per public function, which positional arguments the
call may overwrite (`writes`) and whether the returned object may alias an argument (`aliases`): the table is read off the
source (explicit `.copy()`, `np.array(..)`, `np.block`, `np.concatenate`, `np.tensordot`, fancy indexing create fresh arrays;
in-place algorithms rebind list slots of their target only) and is compared with the running code on every check
(byte snapshots and `np.shares_memory`).  On top of it an abstract allocation model: every array of every pool object has an
allocation id; results get fresh ids.
-/
namespace Ptn.Heap

structure CallSpec where
  writes : List Nat
  aliases : Bool
  deriving Repr, DecidableEq

/-- in-place algorithms overwrite exactly their documented target (argument 0 for methods, `psi` for TDVP/DMRG, `self` for `OpGraph.add`) -/
def spec (fn : String) : CallSpec :=
  if fn ∈ ["MPS.orthonormalize", "MPO.orthonormalize", "MPS.compress", "MPS.zero_qnumbers", "MPO.zero_qnumbers", "OpGraph.add",
           "OpGraph.simplify", "OpGraph.flip", "OpGraph.merge_edges", "OpGraph.rename_node_id", "OpGraph.rename_edge_id"] then ⟨[0], false⟩
  else if fn ∈ ["integrate_local_singlesite", "integrate_local_twosite",
                "calculate_ground_state_local_singlesite", "calculate_ground_state_local_twosite"] then ⟨[1], false⟩
  else ⟨[], false⟩

/-- allocation ids owned by one object -/
structure HObj where
  arrays : List Nat
  deriving Repr, DecidableEq

structure HState where
  pool : List HObj
  next : Nat
  deriving Repr

/-- a call returning a new object with `n` arrays: all fresh -/
def allocNew (s : HState) (n : Nat) : HState :=
  { pool := s.pool ++ [⟨List.range' s.next n⟩], next := s.next + n }

/-- an in-place call on slot `i` that rebinds `n` arrays of the target: the target owns `n` fresh arrays afterwards (plus kept ones) -/
def rebind (s : HState) (i n : Nat) (keep : List Nat → List Nat) : HState :=
  { pool := s.pool.modify i (fun o => ⟨keep o.arrays ++ List.range' s.next n⟩), next := s.next + n }

end Ptn.Heap

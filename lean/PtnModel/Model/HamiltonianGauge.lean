import PtnModel.Model.HamiltonianMolGraph
import PtnModel.Model.Scalar
/-!
# Model of `pytenet/hamiltonian.py`, part 5: `molecular_hamiltonian_orbital_gauge_transform(h, u, i)`

The function reads from the MPO `h` (as returned by `molecular_hamiltonian_mpo(..., optimize=False)`)
* `h.nsites`, `h.bond_dims`,
* `h.nid_map` (node id ↦ `(site, index)`; only the index is used),
* the ten node-id tables `h.nids_a_dag_l`, ... copied over by `MolecularOpGraphNodes.copy_nids` (the model keeps the
  node tables `MolNodes` themselves; `nids_x[key][k] = x[key][k].nid`),
and fills two identity matrices with `2 × 2` blocks `u` / `conj u`, `1 × 1` blocks `det u` / `conj det u` and one `4 × 4`
block `u ⊗ conj u` at the positions found in these tables.

Faithfulness notes
* every `if key in table:` / `if k in table[key]:` membership test, every look-up and every assignment is modelled in the
  order of the Python text (`KeyError` = `.key`, an out-of-range assignment = `.index`);
* the Python text consists of two copies of the same sequence of statements (left matrix: the five `..._r` tables, inner key `i`,
  size `bond_dims[i]`; right matrix: the five `..._l` tables, inner key `i + 2`, size `bond_dims[i + 2]`): `gaugeSide` is
  that sequence, called twice;
* `np.allclose(x.conj().T @ x, identity)` is modelled exactly: `xᴴ x = 1` (the correspondence only uses exactly representable
  unitaries and distinctly non-unitary matrices);
* `abs(z)**2` is modelled as `z * conj z` (exact for `z ∈ {0, ±1, ±i}`);
* `u` is a rectangular list of rows (`np.asarray` of a ragged list is not modelled).
-/
namespace Ptn.Ham
open Ptn.Og

/-- what `molecular_hamiltonian_orbital_gauge_transform` reads from the MPO `h` -/
structure GaugeH where
  nsites : Nat
  bondDims : List Nat
  nidMap : List (Int × (Nat × Nat))
  nodes : MolNodes

/-- the attributes of the MPO returned by `molecular_hamiltonian_mpo(tkin, vint, optimize=False)` -/
def GaugeH.ofBuilt {κ : Type} (r : MolNodes × Built κ) : GaugeH :=
  ⟨r.2.mpo.tensors.length, r.2.mpo.qD.map (·.length), r.2.mpo.nidMap, r.1⟩

section build
variable {κ : Type} [Add κ] [Mul κ] [Neg κ] [OfNat κ 0] [OfNat κ 1] [DecidableEq κ]

/-- `h = molecular_hamiltonian_mpo(tkin, vint, optimize=False)` for all-zero coefficient tensors on `L` orbitals
(the explicit construction keeps every edge whatever its coefficient: tables, `nid_map` and bond dimensions only depend on `L`) -/
def molGaugeH (c : Consts κ) (L : Nat) : Except Err GaugeH :=
  let z : List κ := List.replicate L 0
  let tkin := List.replicate L z
  let vint := List.replicate L (List.replicate L tkin)
  match molBuildExplicit c tkin vint with
  | .ok r => .ok (GaugeH.ofBuilt r)
  | .error e => .error e

end build

section
variable {α : Type} [Add α] [Mul α] [Sub α] [OfNat α 0] [OfNat α 1] [HasConj α] [DecidableEq α]

/-- `v[r, c] = x` (non-negative indices into a 2-d array) -/
def matSet (v : Mat α) (r c : Nat) (x : α) : Except Err (Mat α) :=
  if r < v.length ∧ c < (v.getD r []).length then .ok (v.set r ((v.getD r []).set c x)) else .error .index

/-- a sequence of assignments `v[r, c] = x` -/
def matAssign (v : Mat α) : List (Nat × Nat × α) → Except Err (Mat α)
  | [] => .ok v
  | (r, c, x) :: rest =>
    match matSet v r c x with
    | .ok v' => matAssign v' rest
    | .error e => .error e

/-- `x.conj().T @ x` for an array with `rows` rows and `cols` columns -/
def gram (x : Mat α) (rows cols : Nat) : Mat α :=
  (List.range cols).map fun a => (List.range cols).map fun b =>
    sumRange rows fun c => HasConj.conj (x.entry c a) * x.entry c b

/-- `np.allclose(x.conj().T @ x, np.identity(x.shape[1]))`, exactly -/
def isUnitary (x : Mat α) : Bool :=
  gram x x.length (x.headD []).length == Mat.identity (x.headD []).length

/-- `_, j = h.nid_map[nid]` -/
def GaugeH.col (h : GaugeH) (nid : Int) : Except Err Nat :=
  match h.nidMap.lookup nid with
  | some p => .ok p.2
  | none => .error .key

/-- `_, j = h.nid_map[h.nids_x[key][k]]` -/
def GaugeH.tabCol (h : GaugeH) (f : Fam) (key : List Int) (k : Int) : Except Err Nat :=
  match f.get2 key k with
  | .ok n => h.col n.nid
  | .error e => .error e

/-- `if key in h.nids_x: if k in h.nids_x[key]:` -/
def famHas (f : Fam) (key : List Int) (k : Int) : Bool :=
  match f.lookup key with
  | some d => dHas d k
  | none => false

/-- the statement
```
if key0 in h.nids_x:
    if k in h.nids_x[key0]:
        _, j0 = h.nid_map[h.nids_x[key0][k]]
        _, j1 = h.nid_map[h.nids_x[key1][k]]
        v[j0, j0] = m00; v[j0, j1] = m01; v[j1, j0] = m10; v[j1, j1] = m11
``` -/
def pairStep (h : GaugeH) (f : Fam) (key0 key1 : List Int) (k : Int) (m : α × α × α × α) (v : Mat α) : Except Err (Mat α) :=
  if famHas f key0 k then
    match h.tabCol f key0 k with
    | .error e => .error e
    | .ok j0 =>
      match h.tabCol f key1 k with
      | .error e => .error e
      | .ok j1 => matAssign v [(j0, j0, m.1), (j0, j1, m.2.1), (j1, j0, m.2.2.1), (j1, j1, m.2.2.2)]
  else .ok v

/-- the statement
```
if key in h.nids_x:
    if k in h.nids_x[key]:
        _, j = h.nid_map[h.nids_x[key][k]]
        v[j, j] = x
``` -/
def oneStep (h : GaugeH) (f : Fam) (key : List Int) (k : Int) (x : α) (v : Mat α) : Except Err (Mat α) :=
  if famHas f key k then
    match h.tabCol f key k with
    | .error e => .error e
    | .ok j => matAssign v [(j, j, x)]
  else .ok v

/-- the sixteen assignments of the `a†_i a_{i+1}` block in the order of the Python text -/
def quadEntries (u00 u01 u10 u11 : α) (j00 j01 j10 j11 : Nat) : List (Nat × Nat × α) :=
  let c := fun (x : α) => HasConj.conj x
  [ (j00, j00, u00 * c u00), (j00, j01, u00 * c u01), (j00, j10, u01 * c u00), (j00, j11, u01 * c u01),
    (j01, j00, u00 * c u10), (j01, j01, u00 * c u11), (j01, j10, u01 * c u10), (j01, j11, u01 * c u11),
    (j10, j00, u10 * c u00), (j10, j01, u10 * c u01), (j10, j10, u11 * c u00), (j10, j11, u11 * c u01),
    (j11, j00, u10 * c u10), (j11, j01, u10 * c u11), (j11, j10, u11 * c u10), (j11, j11, u11 * c u11) ]

/-- the statement
```
if (i, i + 1) in h.nids_x:
    if k in h.nids_x[i, i + 1]:
        _, j00 = h.nid_map[h.nids_x[i, i][k]]; _, j01 = ...[i, i + 1][k]; _, j10 = ...[i + 1, i][k]; _, j11 = ...[i + 1, i + 1][k]
        v[j00, j00] = abs(u[0, 0])**2; ...
``` -/
def quadStep (h : GaugeH) (f : Fam) (i k : Int) (u00 u01 u10 u11 : α) (v : Mat α) : Except Err (Mat α) :=
  if famHas f [i, i + 1] k then
    match h.tabCol f [i, i] k with
    | .error e => .error e
    | .ok j00 =>
      match h.tabCol f [i, i + 1] k with
      | .error e => .error e
      | .ok j01 =>
        match h.tabCol f [i + 1, i] k with
        | .error e => .error e
        | .ok j10 =>
          match h.tabCol f [i + 1, i + 1] k with
          | .error e => .error e
          | .ok j11 => matAssign v (quadEntries u00 u01 u10 u11 j00 j01 j10 j11)
  else .ok v

/-- `for k in ks: v = step k v` -/
def forSteps (ks : List Int) (step : Int → Mat α → Except Err (Mat α)) (v : Mat α) : Except Err (Mat α) :=
  match ks with
  | [] => .ok v
  | k :: rest =>
    match step k v with
    | .ok v' => forSteps rest step v'
    | .error e => .error e

/-- body of the loop over `k` for the `a†_i a_k` / `a†_k a_i` table: the two `if` statements one after the other -/
def daBody (h : GaugeH) (f : Fam) (i kk : Int) (U Uc : α × α × α × α) (k : Int) (v : Mat α) : Except Err (Mat α) :=
  match pairStep h f [i, k] [i + 1, k] kk U v with
  | .ok v' => pairStep h f [k, i] [k, i + 1] kk Uc v'
  | .error e => .error e

/-- one half of the function: the matrix for the five tables `a_dag_x`, `a_ann_x`, `a_dag_a_dag_x`, `a_ann_a_ann_x`, `a_dag_a_ann_x`
(`x = r` with inner key `kk = i`: left matrix; `x = l` with `kk = i + 2`: right matrix), starting from `np.identity(dim)`,
up to and including the closing unitarity assertion -/
def gaugeSide (h : GaugeH) (fD fA fDD fAA fDA : Fam) (kk : Int) (dim : Nat) (u : Mat α) (i : Int) : Except Err (Mat α) :=
  let u00 := u.entry 0 0
  let u01 := u.entry 0 1
  let u10 := u.entry 1 0
  let u11 := u.entry 1 1
  let c := fun (x : α) => HasConj.conj x
  let U : α × α × α × α := (u00, u01, u10, u11)
  let Uc : α × α × α × α := (c u00, c u01, c u10, c u11)
  let det := u00 * u11 - u01 * u10
  let n : Int := h.nsites
  let steps : List (Mat α → Except Err (Mat α)) := [
    -- a^{\dagger}_i operators
    pairStep h fD [i] [i + 1] kk U,
    -- a_i operators
    pairStep h fA [i] [i + 1] kk Uc,
    -- a^{\dagger}_i a^{\dagger}_j operators
    forSteps (pyRange 0 i) (fun k => pairStep h fDD [k, i] [k, i + 1] kk U),
    forSteps (pyRange (i + 2) n) (fun k => pairStep h fDD [i, k] [i + 1, k] kk U),
    oneStep h fDD [i, i + 1] kk det,
    -- a_i a_j operators
    forSteps (pyRange 0 i) (fun k => pairStep h fAA [i, k] [i + 1, k] kk Uc),
    forSteps (pyRange (i + 2) n) (fun k => pairStep h fAA [k, i] [k, i + 1] kk Uc),
    oneStep h fAA [i + 1, i] kk (c det),
    -- a^{\dagger}_i a_j operators
    forSteps (pyRange 0 i ++ pyRange (i + 2) n) (daBody h fDA i kk U Uc),
    quadStep h fDA i kk u00 u01 u10 u11 ]
  match steps.foldlM (fun v s => s v) (Mat.identity dim) with
  | .error e => .error e
  | .ok v => if isUnitary v then .ok v else .error .assertion

/-- `molecular_hamiltonian_orbital_gauge_transform(h, u, i)`: `(v_l, v_r)` -/
def gaugeTransform (h : GaugeH) (u : Mat α) (i : Int) : Except Err (Mat α × Mat α) :=
  -- assert u.shape == (2, 2)
  if !(u.length == 2 && u.all (·.length == 2)) then .error .assertion
  -- assert np.allclose(u.conj().T @ u, np.identity(2))
  else if !(isUnitary u) then .error .assertion
  -- assert 0 <= i < h.nsites - 1
  else if !(decide (0 ≤ i) && decide (i < (h.nsites : Int) - 1)) then .error .assertion
  else
    let nd := h.nodes
    -- left gauge transformation matrix
    match pyIdx h.bondDims i.toNat with
    | .error e => .error e
    | .ok dl =>
      match gaugeSide h nd.aDagR nd.aAnnR nd.aDagADagR nd.aAnnAAnnR nd.aDagAAnnR i dl u i with
      | .error e => .error e
      | .ok vl =>
        -- right gauge transformation matrix
        match pyIdx h.bondDims (i.toNat + 2) with
        | .error e => .error e
        | .ok dr =>
          match gaugeSide h nd.aDagL nd.aAnnL nd.aDagADagL nd.aAnnAAnnL nd.aDagAAnnL (i + 2) dr u i with
          | .error e => .error e
          | .ok vr => .ok (vl, vr)

/-! ## the bookkeeping the function relies on, as an executable predicate -/

/-- all `(inner key, node id)` pairs of a table -/
def Fam.entries (f : Fam) : List (Int × Int) := f.flatMap fun e => e.2.map fun kn => (kn.1, kn.2.nid)

/-- the ten tables the function reads -/
def GaugeH.tables (h : GaugeH) : List Fam :=
  [h.nodes.aDagL, h.nodes.aAnnL, h.nodes.aDagADagL, h.nodes.aAnnAAnnL, h.nodes.aDagAAnnL,
   h.nodes.aDagR, h.nodes.aAnnR, h.nodes.aDagADagR, h.nodes.aAnnAAnnR, h.nodes.aDagAAnnR]

/-- `nid_map` places every table node `x[key][k]` on bond `k` at an index below `bond_dims[k]`, and different node ids on the same
bond at different indices -/
def GaugeH.wf (h : GaugeH) : Bool :=
  (h.tables.all fun f => f.entries.all fun (k, nid) =>
    match h.nidMap.lookup nid with
    | some (s, j) => decide ((s : Int) = k) && decide (j < h.bondDims.getD s 0)
    | none => false) &&
  (h.nidMap.all fun p => h.nidMap.all fun q => p.1 == q.1 || p.2 != q.2)

/-- `len(h.bond_dims) == h.nsites + 1` -/
def GaugeH.dimsOk (h : GaugeH) : Bool := h.bondDims.length == h.nsites + 1

end
end Ptn.Ham

import PtnModel.Model.Symbolic
/-!
# Model of `pytenet/autop.py`

Nodes of automata and of operator graphs have the same shape (`Node`), so it is defined here.
The `active` / `opics` attributes of an automaton edge (a constant or a callable of the site index in Python)
are per-site tables: `active : Nat → Bool`, `opics : Nat → List (Int × κ)`.
Dictionaries are association lists in Python insertion order.
-/
namespace Ptn.Og

/-! ## dictionaries in insertion order -/

section Dict
variable {β : Type}

def dGet? (d : List (Int × β)) (k : Int) : Option β := d.lookup k

def dHas (d : List (Int × β)) (k : Int) : Bool := (d.lookup k).isSome

/-- `d[k]` -/
def dGet (d : List (Int × β)) (k : Int) : Except Err β :=
  match d.lookup k with
  | some v => .ok v
  | none => .error .key

/-- replace the value of the first entry with key `k` (no-op if absent) -/
def dReplace (d : List (Int × β)) (k : Int) (v : β) : List (Int × β) :=
  match d with
  | [] => []
  | (k', v') :: rest => if k' == k then (k', v) :: rest else (k', v') :: dReplace rest k v

/-- `d[k] = v`: in place when the key exists, appended otherwise -/
def dSet (d : List (Int × β)) (k : Int) (v : β) : List (Int × β) :=
  if dHas d k then dReplace d k v else d ++ [(k, v)]

/-- remove the first entry with key `k` -/
def dErase (d : List (Int × β)) (k : Int) : List (Int × β) :=
  match d with
  | [] => []
  | (k', v') :: rest => if k' == k then rest else (k', v') :: dErase rest k

/-- `d.pop(k)` -/
def dPop (d : List (Int × β)) (k : Int) : Except Err (β × List (Int × β)) :=
  match d.lookup k with
  | some v => .ok (v, dErase d k)
  | none => .error .key

/-- `d.update(other)` -/
def dUpdate (d other : List (Int × β)) : List (Int × β) := other.foldl (fun acc p => dSet acc p.1 p.2) d

def dKeys (d : List (Int × β)) : List Int := d.map (·.1)

/-- `max(l)` (`none` for the empty list, where Python raises `ValueError`) -/
def maxInt? : List Int → Option Int
  | [] => none
  | x :: xs => some (xs.foldl max x)

end Dict

/-- does a list contain a repeated element (`len(l) != len(set(l))`) -/
def hasDup : List Int → Bool
  | [] => false
  | x :: xs => xs.contains x || hasDup xs

/-- `sorted(set(l))`-style insertion into an ascending duplicate-free list -/
def insertAsc (x : Int) : List Int → List Int
  | [] => [x]
  | y :: ys => if x < y then x :: y :: ys else if x == y then y :: ys else y :: insertAsc x ys

def sortAsc (l : List Int) : List Int := l.foldl (fun acc x => insertAsc x acc) []

/-! ## nodes -/

/-- `OpGraphNode` / `AutOpNode`; `eids = (eidsIn, eidsOut)` -/
structure Node where
  nid : Int
  eidsIn : List Int
  eidsOut : List Int
  qnum : Int
  deriving Repr, DecidableEq, Inhabited

/-- `node.eids[direction]` (direction 0 = `false`, 1 = `true`) -/
def Node.eids (n : Node) (d : Bool) : List Int := if d then n.eidsOut else n.eidsIn

def Node.setEids (n : Node) (d : Bool) (l : List Int) : Node :=
  if d then { n with eidsOut := l } else { n with eidsIn := l }

/-- `OpGraphNode.__init__` -/
def Node.mk' (nid : Int) (eidsIn eidsOut : List Int) (qnum : Int) : Except Err Node := do
  pyAssert (!hasDup eidsIn)
  pyAssert (!hasDup eidsOut)
  pure ⟨nid, eidsIn, eidsOut, qnum⟩

/-- `add_edge_id` -/
def Node.addEdgeId (n : Node) (eid : Int) (d : Bool) : Except Err Node := do
  pyAssert (!(n.eids d).contains eid)
  pure (n.setEids d (n.eids d ++ [eid]))

/-- `remove_edge_id` (`list.remove`) -/
def Node.removeEdgeId (n : Node) (eid : Int) (d : Bool) : Except Err Node :=
  if (n.eids d).contains eid then .ok (n.setEids d ((n.eids d).erase eid)) else .error .value

/-- `rename_edge_id` -/
def Node.renameEdgeId (n : Node) (eidCur eidNew : Int) (d : Bool) : Except Err Node := do
  let n ← n.removeEdgeId eidCur d
  n.addEdgeId eidNew d

/-- `flip` -/
def Node.flip (n : Node) : Node := { n with eidsIn := n.eidsOut, eidsOut := n.eidsIn, qnum := -n.qnum }

/-! ## automata -/

structure AEdge (κ : Type) where
  eid : Int
  nids : Int × Int
  opics : Nat → List (Int × κ)
  active : Nat → Bool

def AEdge.nid {κ} (e : AEdge κ) (d : Bool) : Int := if d then e.nids.2 else e.nids.1

structure AutOp (κ : Type) where
  nodes : List (Int × Node)
  edges : List (Int × AEdge κ)
  nidTerminal : Int × Int

def AutOp.term {κ} (a : AutOp κ) (d : Bool) : Int := if d then a.nidTerminal.2 else a.nidTerminal.1

section
variable {κ : Type} [Add κ] [Mul κ] [OfNat κ 0] [OfNat κ 1] [DecidableEq κ]

/-- `AutOp.__init__` -/
def AutOp.mk' (nodes : List Node) (edges : List (AEdge κ)) (nidTerminal : List Int) : Except Err (AutOp κ) := do
  let ns ← nodes.foldlM (fun (acc : List (Int × Node)) n =>
    if dHas acc n.nid then .error .value else .ok (acc ++ [(n.nid, n)])) []
  match nidTerminal with
  | [t0, t1] =>
    if !(dHas ns t0) || !(dHas ns t1) then .error .value
    else
      let es ← edges.foldlM (fun (acc : List (Int × AEdge κ)) e =>
        if dHas acc e.eid then .error .value else .ok (acc ++ [(e.eid, e)])) []
      pure ⟨ns, es, (t0, t1)⟩
  | _ => .error .value

/-- `AutOp.is_consistent` -/
def AutOp.isConsistent (a : AutOp κ) : Bool :=
  a.nodes.all (fun (k, node) =>
    k == node.nid &&
    [false, true].all (fun d => (node.eids d).all (fun eid =>
      match dGet? a.edges eid with
      | none => false
      | some e => e.nid (!d) == node.nid))) &&
  a.edges.all (fun (k, e) =>
    k == e.eid &&
    [false, true].all (fun d =>
      match dGet? a.nodes (e.nid d) with
      | none => false
      | some node => (node.eids (!d)).contains e.eid)) &&
  [false, true].all (fun d => dHas a.nodes (a.term d))

/-- Path sum of the automaton: the coefficient of the word `w` read from site `i` on, starting in
state `nid`: sum over all paths along active outgoing edges that end in the terminal state `term 1`
when the word is exhausted. -/
def AutOp.denFrom (a : AutOp κ) : Word → Nat → Int → κ
  | [], _, nid => if nid = a.term true then 1 else 0
  | o :: w, i, nid =>
    match dGet? a.nodes nid with
    | none => 0
    | some node =>
      sumList (node.eidsOut.map fun eid =>
        match dGet? a.edges eid with
        | none => 0
        | some e =>
          if e.active i then
            sumList ((e.opics i).map fun p => if p.1 = o then p.2 * AutOp.denFrom a w (i + 1) e.nids.2 else 0)
          else 0)

/-- `denF` of an automaton: coefficient of a word (its length is the number of sites) -/
def AutOp.denF (a : AutOp κ) (w : Word) : κ := a.denFrom w 0 (a.term false)

/-- all paths of `n` further sites from state `nid` at site `i` to the terminal, as a raw formal sum -/
def AutOp.pathsFrom (a : AutOp κ) : Nat → Nat → Int → Sym κ
  | 0, _, nid => if nid = a.term true then [([], 1)] else []
  | n + 1, i, nid =>
    match dGet? a.nodes nid with
    | none => []
    | some node =>
      node.eidsOut.flatMap fun eid =>
        match dGet? a.edges eid with
        | none => []
        | some e =>
          if e.active i then
            (e.opics i).flatMap fun p =>
              (AutOp.pathsFrom a n (i + 1) e.nids.2).map fun q => (p.1 :: q.1, p.2 * q.2)
          else []

/-- symbolic meaning of the automaton on `length` sites (normal form) -/
def denAutomaton (a : AutOp κ) (length : Nat) : Sym κ :=
  symNormalize (a.pathsFrom length 0 (a.term false))

end
end Ptn.Og

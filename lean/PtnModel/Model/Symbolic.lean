import PtnModel.Model.Basic
/-!
# Symbolic meaning of the operator layer: words, formal sums, exact dense matrices

A *word* is the list of local operator ids of one term, one id per lattice site.
A formal sum `Sym κ` is a list of (word, coefficient) pairs; `symNormalize` brings it into the
canonical normal form used by the correspondence (sorted by word as Python compares lists,
coefficients of equal words summed, zero coefficients dropped).

The dense meaning under an operator map is computed with exact matrices over `κ`
(`Mat κ = List (List κ)`, row major), mirroring `numpy.kron`.
-/
namespace Ptn.Og

abbrev Word := List Int
abbrev Sym (κ : Type) := List (Word × κ)

/-- lexicographic order of Python lists of ints -/
def wordLt : Word → Word → Bool
  | [], [] => false
  | [], _ :: _ => true
  | _ :: _, [] => false
  | a :: as, b :: bs => if a < b then true else if b < a then false else wordLt as bs

section
variable {κ : Type} [Add κ] [Mul κ] [OfNat κ 0] [OfNat κ 1] [DecidableEq κ]

/-- add `c·w` to a formal sum kept sorted by word -/
def symInsert (w : Word) (c : κ) : Sym κ → Sym κ
  | [] => [(w, c)]
  | (v, d) :: rest =>
    if w = v then (v, d + c) :: rest
    else if wordLt w v then (w, c) :: (v, d) :: rest
    else (v, d) :: symInsert w c rest

/-- sorted by word, coefficients summed (zero coefficients kept) -/
def symCollect (s : Sym κ) : Sym κ := s.foldl (fun acc p => symInsert p.1 p.2 acc) []

/-- canonical normal form of a formal sum -/
def symNormalize (s : Sym κ) : Sym κ := (symCollect s).filter (fun p => p.2 != 0)

/-- coefficient of a word in a formal sum (sum over all occurrences) -/
def symCoeff (s : Sym κ) (w : Word) : κ :=
  s.foldr (fun p acc => if p.1 = w then p.2 + acc else acc) 0

def symScale (c : κ) (s : Sym κ) : Sym κ := s.map (fun p => (p.1, c * p.2))

/-- reverse the site order of every term -/
def symReverse (s : Sym κ) : Sym κ := s.map (fun p => (p.1.reverse, p.2))

/-! ## exact matrices -/

abbrev Mat (κ : Type) := List (List κ)

def Mat.identity (n : Nat) : Mat κ :=
  (List.range n).map fun i => (List.range n).map fun j => if i = j then (1 : κ) else 0

def Mat.zero (n m : Nat) : Mat κ := List.replicate n (List.replicate m (0 : κ))

def Mat.add (A B : Mat κ) : Mat κ := List.zipWith (fun r s => List.zipWith (· + ·) r s) A B

def Mat.scale (c : κ) (A : Mat κ) : Mat κ := A.map (·.map (c * ·))

/-- `numpy.kron(A, B)` -/
def Mat.kron (A B : Mat κ) : Mat κ :=
  A.flatMap fun ra => B.map fun rb => ra.flatMap fun a => rb.map fun b => a * b

def Mat.entry (A : Mat κ) (i j : Nat) : κ := (A.getD i []).getD j 0

/-- operator map: ids to (square) matrices; a missing id is Python's `KeyError` -/
abbrev OpMap (κ : Type) := List (Int × Mat κ)

def OpMap.get (opmap : OpMap κ) (oid : Int) : Except Err (Mat κ) :=
  match opmap.lookup oid with
  | some m => .ok m
  | none => .error .key

/-- `kron` of the operators of a word, starting from the 1×1 identity -/
def wordDense (opmap : OpMap κ) : Word → Except Err (Mat κ)
  | [] => .ok (Mat.identity 1)
  | o :: w => do
    let m ← opmap.get o
    let r ← wordDense opmap w
    pure (Mat.kron m r)

/-- dense meaning of a formal sum: Σ coeff · kron_k opmap[w_k], as a `dim × dim` matrix -/
def denseOfSym (opmap : OpMap κ) (dim : Nat) (s : Sym κ) : Except Err (Mat κ) :=
  s.foldlM (fun acc p => do
    let m ← wordDense opmap p.1
    pure (Mat.add acc (Mat.scale p.2 m))) (Mat.zero dim dim)

end
end Ptn.Og

import PtnModel.Model.MPO
/-!
# Model of `MPO.as_matrix(sparse_format=True)` (`pytenet/mpo.py`)

The sparse path contracts the MPO by a different route than the dense path: the running operator is a 2-D array whose
column index is the right virtual bond, and every site is absorbed by `d` matrix products (one per physical output
index `j`), flat-index reshapes and a column concatenation.  scipy's `csr_array` / `csc_array` are plain matrices here
(the storage format has no influence on the values); what is modelled exactly is the *index arithmetic*:
row-major `reshape` of 2-D arrays, `hstack`, matrix product, and the exceptions NumPy / scipy raise on impossible shapes.

```
n = len(self.qd)
op = self.A[0]                                     # IndexError for an empty MPO
assert op.shape[2] == 1
op = csr(op.reshape((-1, op.shape[3])))            # ValueError if op.shape[3] == 0 (size 0, unknown dimension)
for i in range(1, len(self.A)):
    T = self.A[i]
    assert T.shape[0] == len(self.qd)
    op_next_list = []
    for j in range(len(self.qd)):
        Tj = csc(T[j].transpose((1, 0, 2)).reshape(T.shape[2], -1))   # ValueError if T.shape[2] == 0
        op_next_list.append((op @ Tj).reshape((n, -1)))               # ValueError: dimension mismatch / reshape
    op = csr(hstack(op_next_list))                 # IndexError for an empty list (len(qd) == 0)
    n *= len(self.qd)
    op = op.reshape((n**2, -1))                    # ValueError if the size is not a multiple of n**2
assert op.shape[1] == 1
op = csr(op.reshape((n, n)))                       # ValueError if the size is not n**2
```
-/
namespace Ptn
namespace MPO

section
variable {α : Type} [OfNat α 0] [Add α] [Mul α]

/-- row-major `M.reshape((m, n))` of a 2-D array (meaningful when `m * n = M.m * M.n`):
the entry at `(i, j)` is the entry of `M` at flat position `i * n + j`. -/
def reshape2 (M : Mat α) (m n : Nat) : Mat α :=
  ⟨m, n, fun i j => M.f ((i * n + j) / M.n) ((i * n + j) % M.n)⟩

/-- `M.reshape((m, -1))`: `ValueError` unless `m ≥ 1` divides the size of `M`. -/
def reshapeRows (M : Mat α) (m : Nat) : Except Err (Mat α) :=
  if m = 0 ∨ (M.m * M.n) % m ≠ 0 then .error .value else .ok (reshape2 M m (M.m * M.n / m))

/-- `T[j].transpose((1, 0, 2)).reshape(T.shape[2], -1)`: entry `(a, t * D' + b)` is `T[j, t, a, b]`. -/
def sparseSlice (T : T4 α) (j : Nat) : Mat α :=
  ⟨T.d2, T.d1 * T.d3, fun a c => T.f j (c / T.d3) a (c % T.d3)⟩

/-- `hstack` of the `d` blocks `B 0, …, B (d-1)`, all of shape `rows × cols`: entry `(i, j * cols + c)` is `B j [i, c]`. -/
def hstackBlocks (d rows cols : Nat) (B : Nat → Mat α) : Mat α :=
  ⟨rows, d * cols, fun i c => (B (c / cols)).f i (c % cols)⟩

/-- one pass of the site loop: absorbs the tensor `T` into `op`; `n` is the value of the Python variable `n` on entry
(the row count `len(qd) ** i`); on exit `n` is `n * d`. -/
def sparseStep (d n : Nat) (op : Mat α) (T : T4 α) : Except Err (Mat α) :=
  -- `assert T.shape[0] == len(self.qd)`
  if T.d0 ≠ d then .error .assertion
  -- `hstack([])`
  else if d = 0 then .error .index
  -- `T[j].transpose((1, 0, 2)).reshape(T.shape[2], -1)` of an empty array with `T.shape[2] == 0`
  else if T.d2 = 0 then .error .value
  -- `op @ Tj`: dimension mismatch
  else if op.n ≠ T.d2 then .error .value
  -- `(op @ Tj).reshape((n, -1))`; all `d` products have the shape `op.m × (T.d1 * T.d3)`
  else if n = 0 ∨ (op.m * (T.d1 * T.d3)) % n ≠ 0 then .error .value
  else
    let cols := op.m * (T.d1 * T.d3) / n
    let H := (hstackBlocks d n cols fun j => reshape2 (op.mul (sparseSlice T j)) n cols).tab
    -- `n *= len(self.qd)`; `op.reshape((n**2, -1))`
    reshapeRows H ((n * d) * (n * d))

/-- the site loop `for i in range(1, len(self.A))`; returns the final `n` and `op`. -/
def sparseLoop (d : Nat) : List (T4 α) → Nat → Mat α → Except Err (Nat × Mat α)
  | [], n, op => .ok (n, op)
  | T :: rest, n, op =>
      match sparseStep d n op T with
      | .error e => .error e
      | .ok op' => sparseLoop d rest (n * d) op'

/-- `MPO.as_matrix(sparse_format=True)` (the returned sparse array converted with `.toarray()`) -/
def asMatrixSparse (o : MPO α) : Except Err (Mat α) :=
  match o.A with
  | [] => .error .index
  | A0 :: rest =>
    -- `assert op.shape[2] == 1`
    if A0.d2 ≠ 1 then .error .assertion
    -- `op.reshape((-1, op.shape[3]))` of an array of size 0
    else if A0.d3 = 0 then .error .value
    else
      match sparseLoop o.qd.length rest o.qd.length (flattenLeft A0) with
      | .error e => .error e
      | .ok (n, op) =>
        -- `assert op.shape[1] == 1`
        if op.n ≠ 1 then .error .assertion
        -- `op.reshape((n, n))`
        else if op.m * op.n ≠ n * n then .error .value
        else .ok (reshape2 op n n)

end
end MPO
end Ptn

import PtnModel.Model.MPSSvd
import PtnModel.Model.Operation
import PtnModel.Model.Krylov
/-!
# Model of `pytenet/evolution.py` (single-site and two-site TDVP) and `pytenet/minimization.py` (single-site and two-site DMRG)

Sweeps are index loops over arrays of site tensors, bond charges and environment blocks, exactly as in the Python.
Dense kernels (QR, SVD, norms, sorting, tridiagonal eigensolver, scalar exponential, abs, sqrt) are oracle arguments.
-/
namespace Ptn.Evo
open BondOps

structure EvoKernels (α ρ : Type) where
  dqr : Mat α → Mat α × Mat α
  svd : MPS.SvdKernels α ρ
  dsqrt : ρ → ρ
  /-- `np.linalg.norm` of a complex vector (Krylov) -/
  cnorm : List α → ρ
  deigh : List ρ → List ρ → List ρ × Mat ρ
  dexp : α → α
  dexpm : Mat α → Mat α
  /-- the scalar `0.5` -/
  half : α

variable {α ρ : Type} [OfNat α 0] [OfNat α 1] [Add α] [Mul α] [Sub α] [Neg α] [Div α] [DecidableEq α] [HasConj α]
  [RealLike ρ α] [OfNat ρ 0] [OfNat ρ 1] [Add ρ] [Mul ρ] [Div ρ] [Neg ρ] [NatCast ρ] [LT ρ] [DecidableEq ρ] [DecidableLT ρ]

/-- `A.reshape(-1)` -/
def flat3 (A : T3 α) : List α :=
  (List.range (A.d0 * A.d1 * A.d2)).map fun k => A.f (k / (A.d1 * A.d2)) (k / A.d2 % A.d1) (k % A.d2)

/-- `x.reshape((d0, d1, d2))` -/
def unflat3 (x : List α) (d0 d1 d2 : Nat) : T3 α :=
  let a := x.toArray
  ⟨d0, d1, d2, fun i j k => a.getD ((i * d1 + j) * d2 + k) 0⟩

def flat2 (C : Mat α) : List α := (List.range (C.m * C.n)).map fun k => C.f (k / C.n) (k % C.n)

def unflat2 (x : List α) (m n : Nat) : Mat α :=
  let a := x.toArray
  ⟨m, n, fun i j => a.getD (i * n + j) 0⟩

/-- the local map `x ↦ apply_local_hamiltonian(L, R, W, x.reshape(A.shape)).reshape(-1)` -/
def localHFun (L R : T3 α) (W : T4 α) (d0 d1 d2 : Nat) (x : List α) : List α :=
  match Op.applyLocalHamiltonian L R W (unflat3 x d0 d1 d2) with
  | .ok T => flat3 T
  | .error _ => []

def localBondFun (L R : T3 α) (m n : Nat) (x : List α) : List α :=
  match Op.applyLocalBondContraction L R (unflat2 x m n) with
  | .ok T => flat2 T
  | .error _ => []

/-- `_local_hamiltonian_step(L, R, W, A, dt, numiter)` -/
def localHamiltonianStep (k : EvoKernels α ρ) (L R : T3 α) (W : T4 α) (A : T3 α) (dt : α) (numiter : Nat) : Except Err (T3 α) := do
  let y ← Krylov.expmKrylov (localHFun L R W A.d0 A.d1 A.d2) k.cnorm k.deigh k.dexp k.dexpm (flat3 A) (-dt) numiter true
  return (unflat3 y A.d0 A.d1 A.d2).tab

/-- `_local_bond_step(L, R, C, dt, numiter)` -/
def localBondStep (k : EvoKernels α ρ) (L R : T3 α) (C : Mat α) (dt : α) (numiter : Nat) : Except Err (Mat α) := do
  let y ← Krylov.expmKrylov (localBondFun L R C.m C.n) k.cnorm k.deigh k.dexp k.dexpm (flat2 C) (-dt) numiter true
  return (unflat2 y C.m C.n).tab

/-- mutable state of a sweep -/
structure Sweep (α : Type) where
  A : Array (T3 α)
  qD : Array (List Int)
  BL : Array (T3 α)
  BR : Array (T3 α)

def ones111 : T3 α := ⟨1, 1, 1, fun _ _ _ => 1⟩
def emptyT3 : T3 α := ⟨0, 0, 0, fun _ _ _ => 0⟩

def getA (s : Sweep α) (i : Nat) : T3 α := s.A.getD i emptyT3
def getBL (s : Sweep α) (i : Nat) : T3 α := s.BL.getD i emptyT3
def getBR (s : Sweep α) (i : Nat) : T3 α := s.BR.getD i emptyT3
def getQ (s : Sweep α) (i : Nat) : List Int := s.qD.getD i []

/-- `is_qsparse(BR[i], [psi.qD[i+1], H.qD[i+1], -psi.qD[i+1]])` -/
def blockSparse (B : T3 α) (qa qw : List Int) : Bool :=
  B.all fun a w b x => decide (qa.getD a 0 + qw.getD w 0 - qa.getD b 0 = 0) || decide (x = 0)

/-- common prologue of TDVP / DMRG: right-orthonormalize, build environments, consistency check -/
def prologue (k : EvoKernels α ρ) (H : MPO α) (ψ : MPS α) : Except Err (Sweep α × ρ) := do
  pyAssert (H.A.length == ψ.A.length)
  let (ψ1, nrm) ← MPS.orthonormalize (ρ := ρ) k.dqr ψ false
  let BR ← Op.rightBlocks ψ1 H
  let L := H.A.length
  let BL : Array (T3 α) := (Array.replicate L emptyT3).setIfInBounds 0 ones111
  for i in List.range BR.length do
    pyAssert (blockSparse (BR.getD i emptyT3) (ψ1.qD.getD (i + 1) []) (H.qD.getD (i + 1) []))
  return (⟨ψ1.A.toArray, ψ1.qD.toArray, BL, BR.toArray⟩, nrm)

/-- left-to-right half of a single-site TDVP step at site `i < L-1` -/
def tdvp1Left (k : EvoKernels α ρ) (H : MPO α) (qd : List Int) (dt : α) (numiter : Nat) (s : Sweep α) (i : Nat) :
    Except Err (Sweep α) := do
  let W := H.A.getD i ⟨0, 0, 0, 0, fun _ _ _ _ => 0⟩
  let A1 ← localHamiltonianStep k (getBL s i) (getBR s i) W (getA s i) (k.half * dt) numiter
  let (Q, C, qb) ← qr k.dqr A1.flattenLeft.tab (QN.flatten2 qd (getQ s i)) (getQ s (i + 1))
  let Ai := (T3.ofFlattenLeft Q A1.d0 A1.d1).tab
  let BLn ← Op.opStepLeft Ai Ai W (getBL s i)
  let C1 ← localBondStep k BLn (getBR s i) C (-(k.half * dt)) numiter
  let An := getA s (i + 1)
  if C1.n ≠ An.d1 then throw .value
  -- einsum(A[i+1], (0,3,2), C, (1,3), (0,1,2))
  let An' : T3 α := ⟨An.d0, C1.m, An.d2, fun sp p c => sumRange An.d1 fun b => An.f sp b c * C1.f p b⟩
  return { s with A := (s.A.setIfInBounds i Ai).setIfInBounds (i + 1) An'.tab,
                  qD := s.qD.setIfInBounds (i + 1) qb, BL := s.BL.setIfInBounds (i + 1) BLn }

/-- right-to-left half of a single-site TDVP step at site `i ≥ 1` -/
def tdvp1Right (k : EvoKernels α ρ) (H : MPO α) (qd : List Int) (dt : α) (numiter : Nat) (s : Sweep α) (i : Nat) :
    Except Err (Sweep α) := do
  let W := H.A.getD i ⟨0, 0, 0, 0, fun _ _ _ _ => 0⟩
  let At := (getA s i).swap12
  let (Q, C, qb) ← qr k.dqr At.flattenLeft.tab (QN.flatten2 qd (QN.neg (getQ s (i + 1)))) (QN.neg (getQ s i))
  let Ai := (T3.ofFlattenLeft Q At.d0 At.d1).swap12.tab
  let BRn ← Op.opStepRight Ai Ai W (getBR s i)
  let Ct := C.transpose.tab
  let C1 ← localBondStep k (getBL s i) BRn Ct (-(k.half * dt)) numiter
  let Ap := getA s (i - 1)
  if C1.m ≠ Ap.d2 then throw .value
  -- einsum(A[i-1], (0,1,3), C, (3,2), (0,1,2))
  let Ap' : T3 α := (⟨Ap.d0, Ap.d1, C1.n, fun sp a p => sumRange Ap.d2 fun b => Ap.f sp a b * C1.f b p⟩ : T3 α).tab
  let Wp := H.A.getD (i - 1) ⟨0, 0, 0, 0, fun _ _ _ _ => 0⟩
  let s1 : Sweep α := { s with A := s.A.setIfInBounds i Ai, qD := s.qD.setIfInBounds i (QN.neg qb), BR := s.BR.setIfInBounds (i - 1) BRn }
  let Ap2 ← localHamiltonianStep k (getBL s1 (i - 1)) BRn Wp Ap' (k.half * dt) numiter
  return { s1 with A := s1.A.setIfInBounds (i - 1) Ap2 }

def foldIdx {σ : Type} (f : σ → Nat → Except Err σ) (idx : List Nat) (s : σ) : Except Err σ := idx.foldlM f s

/-- one full single-site TDVP time step -/
def tdvp1Step (k : EvoKernels α ρ) (H : MPO α) (qd : List Int) (dt : α) (numiter : Nat) (s : Sweep α) : Except Err (Sweep α) := do
  let L := H.A.length
  let s1 ← foldIdx (tdvp1Left k H qd dt numiter) (List.range (L - 1)) s
  let i := L - 1
  let W := H.A.getD i ⟨0, 0, 0, 0, fun _ _ _ _ => 0⟩
  let Al ← localHamiltonianStep k (getBL s1 i) (getBR s1 i) W (getA s1 i) dt numiter
  let s2 : Sweep α := { s1 with A := s1.A.setIfInBounds i Al }
  foldIdx (tdvp1Right k H qd dt numiter) ((List.range (L - 1)).reverse.map (· + 1)) s2

def iterate {σ : Type} (f : σ → Except Err σ) : Nat → σ → Except Err σ
  | 0, s => .ok s
  | n + 1, s => do
    let s' ← f s
    iterate f n s'

def toMPS (ψ : MPS α) (s : Sweep α) : MPS α := { ψ with A := s.A.toList, qD := s.qD.toList }

/-- `integrate_local_singlesite(H, psi, dt, numsteps, numiter_lanczos)`: updated state and returned norm -/
def integrateLocalSinglesite (k : EvoKernels α ρ) (H : MPO α) (ψ : MPS α) (dt : α) (numsteps numiter : Nat) :
    Except Err (MPS α × ρ) := do
  let (s0, nrm) ← prologue k H ψ
  if H.A.length = 0 then throw .index
  let s ← iterate (tdvp1Step k H ψ.qd dt numiter) numsteps s0
  return (toMPS ψ s, nrm)

def zeroT4 : T4 α := ⟨0, 0, 0, 0, fun _ _ _ _ => 0⟩

/-- merge sites `i, i+1`, evolve by `tau`, split with distribution `distr` (0 = left, 1 = right): the shared part of the two-site sweeps -/
def twoSiteUpdate (k : EvoKernels α ρ) (H : MPO α) (qd : List Int) (tau : α) (numiter : Nat) (tol : ρ) (distr : Nat)
    (s : Sweep α) (i : Nat) : Except Err (Sweep α) := do
  let Am := (MPS.mergePair (getA s i) (getA s (i + 1))).tab
  let Hm := (MPO.mergePair (H.A.getD i zeroT4) (H.A.getD (i + 1) zeroT4)).tab
  let Am1 ← localHamiltonianStep k (getBL s i) (getBR s (i + 1)) Hm Am tau numiter
  let (A0, A1, qb) ← MPS.splitMpsTensor k.svd k.dsqrt Am1 qd qd (getQ s i) (getQ s (i + 2)) distr tol
  return { s with A := (s.A.setIfInBounds i A0).setIfInBounds (i + 1) A1, qD := s.qD.setIfInBounds (i + 1) qb }

def tdvp2Left (k : EvoKernels α ρ) (H : MPO α) (qd : List Int) (dt : α) (numiter : Nat) (tol : ρ) (s : Sweep α) (i : Nat) :
    Except Err (Sweep α) := do
  let s1 ← twoSiteUpdate k H qd (k.half * dt) numiter tol 1 s i
  let BLn ← Op.opStepLeft (getA s1 i) (getA s1 i) (H.A.getD i zeroT4) (getBL s1 i)
  let s2 : Sweep α := { s1 with BL := s1.BL.setIfInBounds (i + 1) BLn }
  let An ← localHamiltonianStep k BLn (getBR s2 (i + 1)) (H.A.getD (i + 1) zeroT4) (getA s2 (i + 1)) (-(k.half * dt)) numiter
  return { s2 with A := s2.A.setIfInBounds (i + 1) An }

def tdvp2Right (k : EvoKernels α ρ) (H : MPO α) (qd : List Int) (dt : α) (numiter : Nat) (tol : ρ) (s : Sweep α) (i : Nat) :
    Except Err (Sweep α) := do
  let An ← localHamiltonianStep k (getBL s (i + 1)) (getBR s (i + 1)) (H.A.getD (i + 1) zeroT4) (getA s (i + 1)) (-(k.half * dt)) numiter
  let s0 : Sweep α := { s with A := s.A.setIfInBounds (i + 1) An }
  let s1 ← twoSiteUpdate k H qd (k.half * dt) numiter tol 0 s0 i
  let BRn ← Op.opStepRight (getA s1 (i + 1)) (getA s1 (i + 1)) (H.A.getD (i + 1) zeroT4) (getBR s1 (i + 1))
  return { s1 with BR := s1.BR.setIfInBounds i BRn }

def tdvp2Step (k : EvoKernels α ρ) (H : MPO α) (qd : List Int) (dt : α) (numiter : Nat) (tol : ρ) (s : Sweep α) : Except Err (Sweep α) := do
  let L := H.A.length
  let s1 ← foldIdx (tdvp2Left k H qd dt numiter tol) (List.range (L - 2)) s
  let i := L - 2
  let s2 ← twoSiteUpdate k H qd dt numiter tol 0 s1 i
  let BRn ← Op.opStepRight (getA s2 (i + 1)) (getA s2 (i + 1)) (H.A.getD (i + 1) zeroT4) (getBR s2 (i + 1))
  let s3 : Sweep α := { s2 with BR := s2.BR.setIfInBounds i BRn }
  foldIdx (tdvp2Right k H qd dt numiter tol) (List.range (L - 2)).reverse s3

/-- `integrate_local_twosite(H, psi, dt, numsteps, numiter_lanczos, tol_split)` -/
def integrateLocalTwosite (k : EvoKernels α ρ) (H : MPO α) (ψ : MPS α) (dt : α) (numsteps numiter : Nat) (tol : ρ) :
    Except Err (MPS α × ρ) := do
  pyAssert (H.A.length == ψ.A.length)
  pyAssert (decide (H.A.length ≥ 2))
  let (s0, nrm) ← prologue k H ψ
  let s ← iterate (tdvp2Step k H ψ.qd dt numiter tol) numsteps s0
  return (toMPS ψ s, nrm)

/-- `_minimize_local_energy(L, R, W, Astart, numiter)` -/
def minimizeLocalEnergy (k : EvoKernels α ρ) (L R : T3 α) (W : T4 α) (A : T3 α) (numiter : Nat) : Except Err (ρ × T3 α) := do
  let (w, u) ← Krylov.eighKrylov (localHFun L R W A.d0 A.d1 A.d2) k.cnorm k.deigh (flat3 A) numiter 1
  match w with
  | [] => throw .index
  | w0 :: _ =>
    if u.n = 0 then throw .index
    let col : List α := (List.range u.m).map fun i => u.f i 0
    return (w0, (unflat3 col A.d0 A.d1 A.d2).tab)

def dmrg1Left (k : EvoKernels α ρ) (H : MPO α) (qd : List Int) (numiter : Nat) (se : Sweep α × ρ) (i : Nat) :
    Except Err (Sweep α × ρ) := do
  let s := se.1
  let W := H.A.getD i zeroT4
  let (en, Aopt) ← minimizeLocalEnergy k (getBL s i) (getBR s i) W (getA s i) numiter
  let (Ai, An, qb) ← MPS.localOrthoLeftQr k.dqr Aopt (getA s (i + 1)) qd (getQ s i) (getQ s (i + 1))
  let BLn ← Op.opStepLeft Ai Ai W (getBL s i)
  return ({ s with A := (s.A.setIfInBounds i Ai).setIfInBounds (i + 1) An, qD := s.qD.setIfInBounds (i + 1) qb,
                   BL := s.BL.setIfInBounds (i + 1) BLn }, en)

def dmrg1Right (k : EvoKernels α ρ) (H : MPO α) (qd : List Int) (numiter : Nat) (se : Sweep α × ρ) (i : Nat) :
    Except Err (Sweep α × ρ) := do
  let s := se.1
  let W := H.A.getD i zeroT4
  let (en, Aopt) ← minimizeLocalEnergy k (getBL s i) (getBR s i) W (getA s i) numiter
  let (Ai, Ap, qb) ← MPS.localOrthoRightQr k.dqr Aopt (getA s (i - 1)) qd (getQ s i) (getQ s (i + 1))
  let BRn ← Op.opStepRight Ai Ai W (getBR s i)
  return ({ s with A := (s.A.setIfInBounds i Ai).setIfInBounds (i - 1) Ap, qD := s.qD.setIfInBounds i qb,
                   BR := s.BR.setIfInBounds (i - 1) BRn }, en)

/-- final `local_orthonormalize_right_qr(psi.A[0], ones, qd, qD[:2])` of both DMRG drivers -/
def dmrgNormalizeFirst (k : EvoKernels α ρ) (qd : List Int) (s : Sweep α) : Except Err (Sweep α) := do
  let (A0, _, qb) ← MPS.localOrthoRightQr k.dqr (getA s 0) MPS.ones111 qd (getQ s 0) (getQ s 1)
  return { s with A := s.A.setIfInBounds 0 A0, qD := s.qD.setIfInBounds 0 qb }

def dmrg1Sweep (k : EvoKernels α ρ) (H : MPO α) (qd : List Int) (numiter : Nat) (se : Sweep α × List ρ) : Except Err (Sweep α × List ρ) := do
  let L := H.A.length
  let (s1, e1) ← foldIdx (dmrg1Left k H qd numiter) (List.range (L - 1)) (se.1, (0 : ρ))
  let (s2, e2) ← foldIdx (dmrg1Right k H qd numiter) ((List.range (L - 1)).reverse.map (· + 1)) (s1, e1)
  let s3 ← dmrgNormalizeFirst k qd s2
  return (s3, se.2 ++ [e2])

/-- `calculate_ground_state_local_singlesite(H, psi, numsweeps, numiter_lanczos)` -/
def dmrgSinglesite (k : EvoKernels α ρ) (H : MPO α) (ψ : MPS α) (numsweeps numiter : Nat) : Except Err (MPS α × List ρ) := do
  let (s0, _) ← prologue k H ψ
  let (s, en) ← iterate (dmrg1Sweep k H ψ.qd numiter) numsweeps (s0, [])
  return (toMPS ψ s, en)

/-- merge, minimise, split (shared by both halves of the two-site DMRG sweep) -/
def dmrg2Update (k : EvoKernels α ρ) (H : MPO α) (qd : List Int) (numiter : Nat) (tol : ρ) (distr : Nat) (s : Sweep α) (i : Nat) :
    Except Err (Sweep α × ρ) := do
  let Am := (MPS.mergePair (getA s i) (getA s (i + 1))).tab
  let Hm := (MPO.mergePair (H.A.getD i zeroT4) (H.A.getD (i + 1) zeroT4)).tab
  let (en, Aopt) ← minimizeLocalEnergy k (getBL s i) (getBR s (i + 1)) Hm Am numiter
  let (A0, A1, qb) ← MPS.splitMpsTensor k.svd k.dsqrt Aopt qd qd (getQ s i) (getQ s (i + 2)) distr tol
  return ({ s with A := (s.A.setIfInBounds i A0).setIfInBounds (i + 1) A1, qD := s.qD.setIfInBounds (i + 1) qb }, en)

def dmrg2Left (k : EvoKernels α ρ) (H : MPO α) (qd : List Int) (numiter : Nat) (tol : ρ) (se : Sweep α × ρ) (i : Nat) :
    Except Err (Sweep α × ρ) := do
  let (s1, en) ← dmrg2Update k H qd numiter tol 1 se.1 i
  let BLn ← Op.opStepLeft (getA s1 i) (getA s1 i) (H.A.getD i zeroT4) (getBL s1 i)
  return ({ s1 with BL := s1.BL.setIfInBounds (i + 1) BLn }, en)

def dmrg2Right (k : EvoKernels α ρ) (H : MPO α) (qd : List Int) (numiter : Nat) (tol : ρ) (se : Sweep α × ρ) (i : Nat) :
    Except Err (Sweep α × ρ) := do
  let (s1, en) ← dmrg2Update k H qd numiter tol 0 se.1 i
  let BRn ← Op.opStepRight (getA s1 (i + 1)) (getA s1 (i + 1)) (H.A.getD (i + 1) zeroT4) (getBR s1 (i + 1))
  return ({ s1 with BR := s1.BR.setIfInBounds i BRn }, en)

def dmrg2Sweep (k : EvoKernels α ρ) (H : MPO α) (qd : List Int) (numiter : Nat) (tol : ρ) (se : Sweep α × List ρ) : Except Err (Sweep α × List ρ) := do
  let L := H.A.length
  let (s1, e1) ← foldIdx (dmrg2Left k H qd numiter tol) (List.range (L - 2)) (se.1, (0 : ρ))
  let (s2, e2) ← foldIdx (dmrg2Right k H qd numiter tol) (List.range (L - 1)).reverse (s1, e1)
  let s3 ← dmrgNormalizeFirst k qd s2
  return (s3, se.2 ++ [e2])

/-- `calculate_ground_state_local_twosite(H, psi, numsweeps, numiter_lanczos, tol_split)` -/
def dmrgTwosite (k : EvoKernels α ρ) (H : MPO α) (ψ : MPS α) (numsweeps numiter : Nat) (tol : ρ) : Except Err (MPS α × List ρ) := do
  let (s0, _) ← prologue k H ψ
  let (s, en) ← iterate (dmrg2Sweep k H ψ.qd numiter tol) numsweeps (s0, [])
  return (toMPS ψ s, en)

end Ptn.Evo

import PtnModel.Model.Tensor
/-!
# Model of `pytenet/qnumber.py`

`qnumber_flatten([a, b])` is the row-major flattening of the outer sum, `is_qsparse` the mask test.
-/
namespace Ptn.QN

/-- `qnumber_flatten([a, b])`: entry `i * len b + j` is `a[i] + b[j]`. -/
def flatten2 (a b : List Int) : List Int := a.flatMap fun x => b.map fun y => x + y

/-- `qnumber_flatten([a, b, c])` -/
def flatten3 (a b c : List Int) : List Int := flatten2 (flatten2 a b) c

def neg (a : List Int) : List Int := a.map (fun x => -x)

variable {α : Type} [OfNat α 0] [DecidableEq α]

/-- `is_qsparse(A, [q0, -q1])` for a matrix: non-zero entries only where `q0[i] = q1[j]`. -/
def isSparseMat (A : Mat α) (q0 q1 : List Int) : Bool :=
  (List.range A.m).all fun i => (List.range A.n).all fun j =>
    decide (q0.getD i 0 - q1.getD j 0 = 0) || decide (A.f i j = 0)

/-- `is_qsparse(A, [qd, qD0, -qD1])` for an MPS tensor. -/
def isSparseT3 (A : T3 α) (qd qD0 qD1 : List Int) : Bool :=
  A.all fun i j k x => decide (qd.getD i 0 + qD0.getD j 0 - qD1.getD k 0 = 0) || decide (x = 0)

/-- `is_qsparse(A, [qd, -qd, qD0, -qD1])` for an MPO tensor. -/
def isSparseT4 (A : T4 α) (qd qD0 qD1 : List Int) : Bool :=
  A.all fun i j k l x => decide (qd.getD i 0 - qd.getD j 0 + qD0.getD k 0 - qD1.getD l 0 = 0) || decide (x = 0)

end Ptn.QN

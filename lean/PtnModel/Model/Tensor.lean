import PtnModel.Model.Scalar
/-!
# Matrices and tensors as index functions with explicit dimensions

`reshape`, `transpose`, `tensordot`, `np.block`, slicing of NumPy are read as index formulas.
Equalities in theorems are pointwise on in-range indices.  `tab` stores the entries in an `Array`
(read back with bounds check) so that execution stays linear; it is the identity on in-range indices.
Row-major (C order) flattening everywhere, as NumPy's default.
-/
namespace Ptn

structure Mat (α : Type) where
  m : Nat
  n : Nat
  f : Nat → Nat → α

structure T3 (α : Type) where
  d0 : Nat
  d1 : Nat
  d2 : Nat
  f : Nat → Nat → Nat → α

structure T4 (α : Type) where
  d0 : Nat
  d1 : Nat
  d2 : Nat
  d3 : Nat
  f : Nat → Nat → Nat → Nat → α

section
variable {α : Type}

namespace Mat

/-- entries as nested lists (rows) -/
def toLists (A : Mat α) : List (List α) :=
  (List.range A.m).map fun i => (List.range A.n).map fun j => A.f i j

def ofLists [OfNat α 0] (m n : Nat) (l : List (List α)) : Mat α :=
  let arr : Array (Array α) := (l.map List.toArray).toArray
  ⟨m, n, fun i j => (arr.getD i #[]).getD j 0⟩

/-- memoise the entries (identity on in-range indices, `0` outside). -/
def tab [OfNat α 0] (A : Mat α) : Mat α :=
  let arr : Array α := Array.ofFn (n := A.m * A.n) fun k => A.f (k.val / A.n) (k.val % A.n)
  ⟨A.m, A.n, fun i j => if i < A.m ∧ j < A.n then arr.getD (i * A.n + j) 0 else 0⟩

def zero [OfNat α 0] (m n : Nat) : Mat α := ⟨m, n, fun _ _ => 0⟩

def mul [Add α] [Mul α] [OfNat α 0] (A B : Mat α) : Mat α :=
  ⟨A.m, B.n, fun i j => sumRange A.n fun k => A.f i k * B.f k j⟩

def transpose (A : Mat α) : Mat α := ⟨A.n, A.m, fun i j => A.f j i⟩

/-- `A[i0:i1, j0:j1]` -/
def slice (A : Mat α) (i0 i1 j0 j1 : Nat) : Mat α := ⟨i1 - i0, j1 - j0, fun i j => A.f (i0 + i) (j0 + j)⟩

/-- `A[idx, :]` (fancy row indexing) -/
def selectRows [OfNat α 0] (A : Mat α) (idx : List Nat) : Mat α :=
  let a := idx.toArray
  ⟨idx.length, A.n, fun i j => if h : i < a.size then A.f a[i] j else 0⟩

/-- `A[:, idx]` -/
def selectCols [OfNat α 0] (A : Mat α) (idx : List Nat) : Mat α :=
  let a := idx.toArray
  ⟨A.m, idx.length, fun i j => if h : j < a.size then A.f i a[j] else 0⟩

/-- `Z[i0:i0+B.m, j0:j0+B.n] = B` on a copy of `Z`. -/
def setBlock (Z : Mat α) (i0 j0 : Nat) (B : Mat α) : Mat α :=
  ⟨Z.m, Z.n, fun i j => if i0 ≤ i ∧ i < i0 + B.m ∧ j0 ≤ j ∧ j < j0 + B.n then B.f (i - i0) (j - j0) else Z.f i j⟩

def all (A : Mat α) (p : α → Bool) : Bool :=
  (List.range A.m).all fun i => (List.range A.n).all fun j => p (A.f i j)

def beq [DecidableEq α] (A B : Mat α) : Bool :=
  A.m == B.m && A.n == B.n && (List.range A.m).all fun i => (List.range A.n).all fun j => decide (A.f i j = B.f i j)

def map {β : Type} (A : Mat α) (g : α → β) : Mat β := ⟨A.m, A.n, fun i j => g (A.f i j)⟩

end Mat

namespace T3

def toLists (A : T3 α) : List (List (List α)) :=
  (List.range A.d0).map fun i => (List.range A.d1).map fun j => (List.range A.d2).map fun k => A.f i j k

def ofLists [OfNat α 0] (d0 d1 d2 : Nat) (l : List (List (List α))) : T3 α :=
  let arr : Array (Array (Array α)) := (l.map fun r => (r.map List.toArray).toArray).toArray
  ⟨d0, d1, d2, fun i j k => ((arr.getD i #[]).getD j #[]).getD k 0⟩

def tab [OfNat α 0] (A : T3 α) : T3 α :=
  let arr : Array α := Array.ofFn (n := A.d0 * A.d1 * A.d2) fun k =>
    A.f (k.val / (A.d1 * A.d2)) (k.val / A.d2 % A.d1) (k.val % A.d2)
  ⟨A.d0, A.d1, A.d2, fun i j k =>
    if i < A.d0 ∧ j < A.d1 ∧ k < A.d2 then arr.getD ((i * A.d1 + j) * A.d2 + k) 0 else 0⟩

/-- `A.reshape((d0*d1, d2))` -/
def flattenLeft (A : T3 α) : Mat α := ⟨A.d0 * A.d1, A.d2, fun r c => A.f (r / A.d1) (r % A.d1) c⟩

/-- `A.reshape((d0, d1*d2))` -/
def flattenRight (A : T3 α) : Mat α := ⟨A.d0, A.d1 * A.d2, fun r c => A.f r (c / A.d2) (c % A.d2)⟩

/-- `M.reshape((d0, d1, M.n))` -/
def ofFlattenLeft (M : Mat α) (d0 d1 : Nat) : T3 α := ⟨d0, d1, M.n, fun i j k => M.f (i * d1 + j) k⟩

/-- `M.reshape((M.m, d1, d2))` -/
def ofFlattenRight (M : Mat α) (d1 d2 : Nat) : T3 α := ⟨M.m, d1, d2, fun i j k => M.f i (j * d2 + k)⟩

/-- `A.transpose((0, 2, 1))` -/
def swap12 (A : T3 α) : T3 α := ⟨A.d0, A.d2, A.d1, fun i j k => A.f i k j⟩

/-- `A.transpose((1, 0, 2))` -/
def swap01 (A : T3 α) : T3 α := ⟨A.d1, A.d0, A.d2, fun i j k => A.f j i k⟩

def map {β : Type} (A : T3 α) (g : α → β) : T3 β := ⟨A.d0, A.d1, A.d2, fun i j k => g (A.f i j k)⟩

def all (A : T3 α) (p : Nat → Nat → Nat → α → Bool) : Bool :=
  (List.range A.d0).all fun i => (List.range A.d1).all fun j => (List.range A.d2).all fun k => p i j k (A.f i j k)

end T3

namespace T4

def toLists (A : T4 α) : List (List (List (List α))) :=
  (List.range A.d0).map fun i => (List.range A.d1).map fun j => (List.range A.d2).map fun k =>
    (List.range A.d3).map fun l => A.f i j k l

def ofLists [OfNat α 0] (d0 d1 d2 d3 : Nat) (l : List (List (List (List α)))) : T4 α :=
  let arr : Array (Array (Array (Array α))) :=
    (l.map fun r => (r.map fun s => (s.map List.toArray).toArray).toArray).toArray
  ⟨d0, d1, d2, d3, fun i j k l => (((arr.getD i #[]).getD j #[]).getD k #[]).getD l 0⟩

def tab [OfNat α 0] (A : T4 α) : T4 α :=
  let arr : Array α := Array.ofFn (n := A.d0 * A.d1 * A.d2 * A.d3) fun k =>
    A.f (k.val / (A.d1 * A.d2 * A.d3)) (k.val / (A.d2 * A.d3) % A.d1) (k.val / A.d3 % A.d2) (k.val % A.d3)
  ⟨A.d0, A.d1, A.d2, A.d3, fun i j k l =>
    if i < A.d0 ∧ j < A.d1 ∧ k < A.d2 ∧ l < A.d3 then arr.getD (((i * A.d1 + j) * A.d2 + k) * A.d3 + l) 0 else 0⟩

def map {β : Type} (A : T4 α) (g : α → β) : T4 β := ⟨A.d0, A.d1, A.d2, A.d3, fun i j k l => g (A.f i j k l)⟩

def all (A : T4 α) (p : Nat → Nat → Nat → Nat → α → Bool) : Bool :=
  (List.range A.d0).all fun i => (List.range A.d1).all fun j => (List.range A.d2).all fun k =>
    (List.range A.d3).all fun l => p i j k l (A.f i j k l)

end T4

end
end Ptn

import PtnModel.Model.QNumber
/-!
# Model of `pytenet/bond_ops.py`

Dense kernels are oracle arguments:
* `dqr  : Mat α → Mat α × Mat α`            (`np.linalg.qr(·, mode='reduced')`)
* `dsvd : Mat α → Mat α × List ρ × Mat α`   (`np.linalg.svd(·, full_matrices=False)`)
* `dnorm : List ρ → ρ`                      (`np.linalg.norm` of the singular-value vector)
* `dargsort : List ρ → List Nat`            (`np.argsort` of the normalised squares; default kind, *not* stable)

`np.argsort(q, kind='mergesort')` of the quantum numbers is the (unique) stable sorting permutation and is
computed by the model itself (`stableArgsort`).  `np.linalg.norm(A) == 0` in the disjoint-charge branch is
modelled as "all entries are zero".
-/
namespace Ptn.BondOps

/-- insert `x` into a sorted duplicate-free list -/
def insertUnique (x : Int) : List Int → List Int
  | [] => [x]
  | y :: ys => if x < y then x :: y :: ys else if x = y then y :: ys else y :: insertUnique x ys

/-- `np.unique` -/
def sortedUnique (l : List Int) : List Int := l.foldl (fun acc x => insertUnique x acc) []

/-- `np.intersect1d(a, b)`: sorted unique common values -/
def intersect1d (a b : List Int) : List Int := (sortedUnique a).filter fun x => b.contains x

/-- insert index `i` behind all indices whose key is `≤ key i` -/
def insertStable (key : Nat → Int) (i : Nat) : List Nat → List Nat
  | [] => [i]
  | j :: js => if key i < key j then i :: j :: js else j :: insertStable key i js

/-- `np.argsort(q, kind='mergesort')`: the stable sorting permutation -/
def stableArgsort (q : List Int) : List Nat :=
  let a := q.toArray
  (List.range q.length).foldl (fun acc i => insertStable (fun k => a.getD k 0) i acc) []

/-- `np.any(idx - np.arange(len(idx)))` negated: is the permutation the identity? -/
def isIdPerm (σ : List Nat) : Bool := σ == List.range σ.length

/-- `np.argsort(idx)` for a permutation `idx`: its inverse -/
def invPerm (σ : List Nat) : List Nat := stableArgsort (σ.map Int.ofNat)

/-- `q[idx]` -/
def permuteList (q : List Int) (σ : List Nat) : List Int := σ.map fun i => q.getD i 0

/-- first index with value `v` (`np.where(q == v)[0][0]`) -/
def firstIdx (q : List Int) (v : Int) : Nat := (q.findIdx? (· == v)).getD 0

/-- last index with value `v`, plus one (`np.where(q == v)[0][-1] + 1`) -/
def lastIdxSucc (q : List Int) (v : Int) : Nat :=
  q.length - ((q.reverse.findIdx? (· == v)).getD 0)

section qr
variable {α : Type} [OfNat α 0] [OfNat α 1] [DecidableEq α]

structure QRState (α : Type) where
  D : Nat
  Q : Mat α
  R : Mat α
  qinterm : List Int

/-- one iteration of `for qn in qis` of `qr` -/
def qrStep (dqr : Mat α → Mat α × Mat α) (A : Mat α) (q0 q1 : List Int) (st : QRState α) (qn : Int) : QRState α :=
  let i0 := firstIdx q0 qn; let i1 := lastIdxSucc q0 qn
  let j0 := firstIdx q1 qn; let j1 := lastIdxSucc q1 qn
  let (Qsub, Rsub) := dqr (A.slice i0 i1 j0 j1).tab
  let Dprev := st.D
  let D := st.D + Qsub.n
  { D := D, Q := st.Q.setBlock i0 Dprev Qsub, R := st.R.setBlock Dprev j0 Rsub,
    qinterm := st.qinterm ++ List.replicate Qsub.n qn }

/-- `qr(A, q0, q1)` -/
def qr (dqr : Mat α → Mat α × Mat α) (A : Mat α) (q0 q1 : List Int) :
    Except Err (Mat α × Mat α × List Int) := do
  pyAssert (q0.length == A.m)
  pyAssert (q1.length == A.n)
  pyAssert (QN.isSparseMat A q0 q1)
  let qis := intersect1d q0 q1
  if qis.isEmpty then
    -- `assert np.linalg.norm(A) == 0`
    pyAssert (A.all fun x => decide (x = 0))
    if A.m = 0 then throw .index
    let Q : Mat α := ⟨A.m, 1, fun i _ => if i = 0 then 1 else 0⟩
    let R : Mat α := Mat.zero 1 A.n
    return (Q, R, q0.take 1)
  let idx0 := stableArgsort q0
  let idx1 := stableArgsort q1
  let (q0s, A1) := if !isIdPerm idx0 then (permuteList q0 idx0, (A.selectRows idx0).tab) else (q0, A)
  let (q1s, A2) := if !isIdPerm idx1 then (permuteList q1 idx1, (A1.selectCols idx1).tab) else (q1, A1)
  let maxdim := min A2.m A2.n
  let st0 : QRState α := ⟨0, Mat.zero A2.m maxdim, Mat.zero maxdim A2.n, []⟩
  let st := qis.foldl (qrStep dqr A2 q0s q1s) st0
  pyAssert (st.D ≤ maxdim)
  let Q := (st.Q.slice 0 A2.m 0 st.D).tab
  let R := (st.R.slice 0 st.D 0 A2.n).tab
  let Q := if !isIdPerm idx0 then (Q.selectRows (invPerm idx0)).tab else Q
  let R := if !isIdPerm idx1 then (R.selectCols (invPerm idx1)).tab else R
  return (Q, R, st.qinterm)

end qr

section svd
variable {ρ : Type} [OfNat ρ 0] [Add ρ] [Mul ρ] [Div ρ] [LT ρ] [DecidableEq ρ] [DecidableLT ρ]

/-- `s[sort_idx] = np.cumsum(s[sort_idx])`: value at index `σ[p]` becomes the sum of `s[σ[0..p]]`. -/
def cumsumAlong (s : List ρ) (σ : List Nat) : List ρ :=
  let a := s.toArray
  let (_, out) := σ.foldl (fun (st : ρ × Array ρ) i =>
      let c := st.1 + a.getD i 0
      (c, st.2.setIfInBounds i c)) ((0 : ρ), a)
  out.toList

/-- `retained_bond_indices(s, tol)` -/
def retainedBondIndices (dnorm : List ρ → ρ) (dargsort : List ρ → List Nat) (s : List ρ) (tol : ρ) : List Nat :=
  let w := dnorm s
  if w = 0 then [] else
  let s2 := s.map fun x => (x / w) * (x / w)
  let c := cumsumAlong s2 (dargsort s2)
  (List.range c.length).filter fun i => decide (tol < c.getD i 0)

variable {α : Type} [OfNat α 0] [OfNat α 1] [DecidableEq α]

structure SVDState (α ρ : Type) where
  D : Nat
  u : Mat α
  v : Mat α
  s : List ρ
  q : List Int

/-- one iteration of `for qn in qis` of `split_matrix_svd` -/
def svdStep (dsvd : Mat α → Mat α × List ρ × Mat α) (A : Mat α) (q0 q1 : List Int)
    (st : SVDState α ρ) (qn : Int) : SVDState α ρ :=
  let i0 := firstIdx q0 qn; let i1 := lastIdxSucc q0 qn
  let j0 := firstIdx q1 qn; let j1 := lastIdxSucc q1 qn
  let (usub, ssub, vsub) := dsvd (A.slice i0 i1 j0 j1).tab
  let Dprev := st.D
  let D := st.D + ssub.length
  { D := D, u := st.u.setBlock i0 Dprev usub, v := st.v.setBlock Dprev j0 vsub,
    s := st.s ++ ssub, q := st.q ++ List.replicate ssub.length qn }

/-- `split_matrix_svd(A, q0, q1, tol)` -/
def splitMatrixSvd (dsvd : Mat α → Mat α × List ρ × Mat α) (dnorm : List ρ → ρ) (dargsort : List ρ → List Nat)
    (A : Mat α) (q0 q1 : List Int) (tol : ρ) : Except Err (Mat α × List ρ × Mat α × List Int) := do
  pyAssert (q0.length == A.m)
  pyAssert (q1.length == A.n)
  pyAssert (QN.isSparseMat A q0 q1)
  let qis := intersect1d q0 q1
  if qis.isEmpty || (A.all fun x => decide (x = 0)) then
    pyAssert (A.all fun x => decide (x = 0))
    let u : Mat α := ⟨A.m, 1, fun i _ => if i = 0 then 1 else 0⟩
    let v : Mat α := Mat.zero 1 A.n
    return (u, [0], v, q0.take 1)
  let idx0 := stableArgsort q0
  let idx1 := stableArgsort q1
  let (q0s, A1) := if !isIdPerm idx0 then (permuteList q0 idx0, (A.selectRows idx0).tab) else (q0, A)
  let (q1s, A2) := if !isIdPerm idx1 then (permuteList q1 idx1, (A1.selectCols idx1).tab) else (q1, A1)
  let maxdim := min A2.m A2.n
  let st0 : SVDState α ρ := ⟨0, Mat.zero A2.m maxdim, Mat.zero maxdim A2.n, [], []⟩
  let st := qis.foldl (svdStep dsvd A2 q0s q1s) st0
  pyAssert (st.D ≤ maxdim)
  -- use actual intermediate dimension (slices), then truncate small singular values
  let idx := retainedBondIndices dnorm dargsort st.s tol
  let u := (st.u.selectCols idx).tab
  let v := (st.v.selectRows idx).tab
  let sa := st.s.toArray
  let s := idx.map fun i => sa.getD i 0
  let qa := st.q.toArray
  let q := idx.map fun i => qa.getD i 0
  let u := if !isIdPerm idx0 then (u.selectRows (invPerm idx0)).tab else u
  let v := if !isIdPerm idx1 then (v.selectCols (invPerm idx1)).tab else v
  return (u, s, v, q)

end svd
end Ptn.BondOps

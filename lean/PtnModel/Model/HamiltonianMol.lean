import PtnModel.Model.Hamiltonian
/-!
# Model of `pytenet/hamiltonian.py`, part 2: molecular Hamiltonians, bond-optimized construction

The chain enumeration of `molecular_hamiltonian_mpo(tkin, vint, optimize=True)` and
`spin_molecular_hamiltonian_mpo(tkin, vint, optimize=True)`: sorted (site, OID) pairs, the case analysis on coinciding
sites, the charge lists, the antisymmetrised coefficients `gint`, `SpinOperatorConverter.to_spin_opchain`
and `get_vint_coeff`, plus the operator tables.

Coefficient tensors are nested lists (`tkin[i][j]`, `vint[i][j][k][l]`); `L = len(tkin)`.
-/
namespace Ptn.Ham
open Ptn.Og

/-! ## `MolecularOID` -/
def mA : Int := -1
def mI : Int := 0
def mC : Int := 1
def mN : Int := 2
def mZ : Int := 3

/-- comparison of `(site, OID)` tuples -/
def pairLe (x y : Int × Int) : Bool := x.1 < y.1 || (x.1 == y.1 && x.2 ≤ y.2)

def insertPair (x : Int × Int) : List (Int × Int) → List (Int × Int)
  | [] => [x]
  | y :: ys => if pairLe x y then x :: y :: ys else y :: insertPair x ys

/-- `sorted(list of (site, OID))` -/
def sortPairs (l : List (Int × Int)) : List (Int × Int) := l.foldr insertPair []

/-- `SpinOperatorConverter.oid_single_pair_map` (in dictionary order; values are `SpinMolecularOID`s 0..22) -/
def oidSinglePairMap : List ((Int × Int) × Int) :=
  [((mI, mI), 0), ((mI, mC), 1), ((mI, mA), 2), ((mI, mN), 3),
   ((mC, mI), 4), ((mC, mC), 5), ((mC, mA), 6), ((mC, mN), 7), ((mC, mZ), 8),
   ((mA, mI), 9), ((mA, mC), 10), ((mA, mA), 11), ((mA, mN), 12), ((mA, mZ), 13),
   ((mN, mI), 14), ((mN, mC), 15), ((mN, mA), 16), ((mN, mN), 17), ((mN, mZ), 18),
   ((mZ, mC), 19), ((mZ, mA), 20), ((mZ, mN), 21), ((mZ, mZ), 22)]

/-- `oid_single_pair_map[pair]` -/
def pairMapGet (p : Int × Int) : Except Err Int :=
  match oidSinglePairMap.lookup p with
  | some v => .ok v
  | none => .error .key

/-- `zip(l[0::2], l[1::2])` -/
def evenOddPairs : List Int → List (Int × Int)
  | a :: b :: rest => (a, b) :: evenOddPairs rest
  | _ => []

section
variable {κ : Type} [Add κ] [Mul κ] [Neg κ] [OfNat κ 0] [OfNat κ 1] [DecidableEq κ]

/-! ## coefficient tensors -/

def t2 (t : List (List κ)) (i j : Int) : κ := (t.getD i.toNat []).getD j.toNat 0

def v4 (v : List (List (List (List κ)))) (i j k l : Int) : κ :=
  ((((v.getD i.toNat []).getD j.toNat []).getD k.toNat []).getD l.toNat 0)

/-- `tkin.shape == (L, L)` and `vint.shape == (L, L, L, L)` for `L = len(tkin)` -/
def shapesOk (tkin : List (List κ)) (vint : List (List (List (List κ)))) : Bool :=
  let L := tkin.length
  tkin.all (fun r => r.length == L) &&
  vint.length == L && vint.all (fun a => a.length == L && a.all (fun b => b.length == L && b.all (fun c => c.length == L)))

/-- `gint = 0.5 * (vint - vint.transpose(1,0,2,3) - vint.transpose(0,1,3,2) + vint.transpose(1,0,3,2))` -/
def gint (c : Consts κ) (v : List (List (List (List κ)))) (i j k l : Int) : κ :=
  c.half * (v4 v i j k l + -(v4 v j i k l) + -(v4 v i j l k) + v4 v j i l k)

/-- `gint0 = 0.5 * (vint + vint.transpose(1,0,3,2))` -/
def gint0 (c : Consts κ) (v : List (List (List (List κ)))) (i j k l : Int) : κ :=
  c.half * (v4 v i j k l + v4 v j i l k)

/-- `gint1 = 0.5 * (vint.transpose(1,0,2,3) + vint.transpose(0,1,3,2))` -/
def gint1 (c : Consts κ) (v : List (List (List (List κ)))) (i j k l : Int) : κ :=
  c.half * (v4 v j i k l + v4 v i j l k)

/-- `get_vint_coeff(spatial_idx, spin_idx)` -/
def getVintCoeff (c : Consts κ) (v : List (List (List (List κ)))) (sp : Int × Int × Int × Int) (s : Int × Int × Int × Int) : κ × Bool :=
  let (i, j, k, l) := sp
  let (s0, s1, s2, s3) := s
  let r : κ × Bool := (0, false)
  let r := if s0 == s2 && s1 == s3 then (r.1 + gint0 c v i j k l, true) else r
  let r := if s0 == s3 && s1 == s2 then (r.1 + -(gint1 c v i j k l), true) else r
  r

/-! ## chains on the level of single fermionic modes -/

/-- the chain of a hopping term `t a†_i a_j`, `i ≠ j` -/
def molHopChain (i j : Int) (coeff : κ) : Except Err (OpChain κ) :=
  match sortPairs [(i, mC), (j, mA)] with
  | [(a, p), (b, q)] =>
    OpChain.mk' ([p] ++ pyRepeat (b - a - 1) mZ ++ [q]) ([0] ++ pyRepeat (b - a) p ++ [0]) coeff a
  | _ => .error .value

/-- the chain of an interaction term `g a†_i a†_j a_l a_k` (`i < j`, `k < l`) -/
def molIntChain (i j k l : Int) (coeff : κ) : Except Err (OpChain κ) :=
  match sortPairs [(i, mC), (j, mC), (l, mA), (k, mA)] with
  | [(a, p), (b, q), (c, r), (d, s)] =>
    if a == b then do
      pyAssert (decide (b < c))
      if c == d then
        -- two number operators
        OpChain.mk' ([mN] ++ pyRepeat (c - b - 1) mI ++ [mN]) (pyRepeat (c - b + 2) 0) coeff a
      else
        -- number operator at the beginning
        OpChain.mk' ([mN] ++ pyRepeat (c - b - 1) mI ++ [r] ++ pyRepeat (d - c - 1) mZ ++ [s])
          (pyRepeat (c - b + 1) 0 ++ pyRepeat (d - c) r ++ [0]) coeff a
    else if b == c then
      -- number operator in the middle
      OpChain.mk' ([p] ++ pyRepeat (b - a - 1) mZ ++ [mN] ++ pyRepeat (d - c - 1) mZ ++ [s])
        ([0] ++ pyRepeat (d - a) p ++ [0]) coeff a
    else if c == d then
      -- number operator at the end
      OpChain.mk' ([p] ++ pyRepeat (b - a - 1) mZ ++ [q] ++ pyRepeat (c - b - 1) mI ++ [mN])
        ([0] ++ pyRepeat (b - a) p ++ pyRepeat (c - b + 1) 0) coeff a
    else
      -- generic case
      OpChain.mk' ([p] ++ pyRepeat (b - a - 1) mZ ++ [q] ++ pyRepeat (c - b - 1) mI ++ [r] ++ pyRepeat (d - c - 1) mZ ++ [s])
        ([0] ++ pyRepeat (b - a) p ++ pyRepeat (c - b) (p + q) ++ pyRepeat (d - c) (-s) ++ [0]) coeff a
  | _ => .error .value

/-! ## spinless molecular Hamiltonian, `optimize=True` -/

/-- the chain list handed to `OpGraph.from_opchains(opchains, L, 0)` -/
def molChains (c : Consts κ) (tkin : List (List κ)) (vint : List (List (List (List κ)))) : Except Err (List (OpChain κ)) := do
  let L : Int := tkin.length
  let hop ← ((pyRange 0 L).flatMap fun i => (pyRange 0 L).map fun j => (i, j)).mapM fun (i, j) =>
    if i == j then OpChain.mk' [mN] [0, 0] (t2 tkin i i) i
    else molHopChain i j (t2 tkin i j)
  let int ← ((pyRange 0 L).flatMap fun i => (pyRange (i + 1) L).flatMap fun j =>
      (pyRange 0 L).flatMap fun k => (pyRange (k + 1) L).map fun l => (i, j, k, l)).mapM fun (i, j, k, l) =>
    molIntChain i j k l (gint c vint i j k l)
  pure (hop ++ int)

/-- `_molecular_hamiltonian_generate_operator_map` -/
def molOpmap : OpMap κ := [(mA, fermiA), (mI, Mat.identity 2), (mC, fermiC), (mN, fermiN), (mZ, pauliZ)]

/-- `molecular_hamiltonian_mpo(tkin, vint, optimize=True)` -/
def molBuildOpt (c : Consts κ) (tkin : List (List κ)) (vint : List (List (List (List κ)))) : Except Err (Built κ) := do
  pyAssert (shapesOk tkin vint)
  let L : Int := tkin.length
  let chains ← molChains c tkin vint
  let graph ← fromOpchains chains L 0
  if L ≤ 12 then pyAssert graph.isConsistent
  let mpo ← fromOpgraph [0, 1] graph molOpmap false
  pure ⟨[0, 1], molOpmap, graph, mpo⟩

/-! ## spin-orbital basis -/

/-- the loop of `to_spin_opchain` computing the combined quantum numbers -/
def spinQnumsLoop (qn : List Int) : List Int → Int → List Int → Except Err (List Int)
  | [], _, acc => .ok acc
  | i :: rest, qspin, acc => do
    let a ← pyIdx qn (2 * i).toNat
    let b ← pyIdx qn (2 * i + 1).toNat
    let c ← pyIdx qn (2 * i + 2).toNat
    let qspin := qspin - (a - 2 * b + c)
    spinQnumsLoop qn rest qspin (acc ++ [encPair c qspin])

/-- `SpinOperatorConverter.to_spin_opchain` -/
def toSpinOpchain (ch : OpChain κ) : Except Err (OpChain κ) := do
  let q0 ← pyIdx ch.qnums 0
  pyAssert (q0 == 0)
  let ql ← match ch.qnums.getLast? with
    | some x => pure x
    | none => throw Err.index
  pyAssert (ql == 0)
  let ch : OpChain κ := if ch.istart % 2 == 1 then
      { ch with oids := mI :: ch.oids, qnums := 0 :: ch.qnums, istart := ch.istart - 1 } else ch
  let ch : OpChain κ := if ch.length % 2 == 1 then
      { ch with oids := ch.oids ++ [mI], qnums := ch.qnums ++ [0] } else ch
  pyAssert (ch.length % 2 == 0)
  let oids ← (evenOddPairs ch.oids).mapM pairMapGet
  let qnums ← spinQnumsLoop ch.qnums (pyRange 0 ((ch.length / 2 : Nat) : Int)) 0 [0]
  let qe ← match qnums.getLast? with
    | some x => pure x
    | none => throw Err.index
  pyAssert (qe == 0)
  OpChain.mk' oids qnums ch.coeff (ch.istart / 2)

/-- the chain list handed to `OpGraph.from_opchains(opchains, L, SpinMolecularOID.Id)` -/
def spinMolChains (c : Consts κ) (tkin : List (List κ)) (vint : List (List (List (List κ)))) : Except Err (List (OpChain κ)) := do
  let L : Int := tkin.length
  let hop ← (((pyRange 0 (2 * L)).flatMap fun i => (pyRange 0 (2 * L)).map fun j => (i, j)).filter
      fun (i, j) => (i - j) % 2 == 0).mapM fun (i, j) => do
    let single ← if i == j then OpChain.mk' [mN] [0, 0] (t2 tkin (i / 2) (i / 2)) i
      else molHopChain i j (t2 tkin (i / 2) (j / 2))
    toSpinOpchain single
  let cands := (pyRange 0 (2 * L)).flatMap fun i => (pyRange (i + 1) (2 * L)).flatMap fun j =>
      (pyRange 0 (2 * L)).flatMap fun k => (pyRange (k + 1) (2 * L)).map fun l => (i, j, k, l)
  let int ← cands.foldlM (fun (acc : List (OpChain κ)) (ijkl : Int × Int × Int × Int) => do
    let (i, j, k, l) := ijkl
    let (coeff, valid) := getVintCoeff c vint (i / 2, j / 2, k / 2, l / 2) (i % 2, j % 2, k % 2, l % 2)
    if !valid then pure acc
    else do
      let single ← molIntChain i j k l coeff
      let sc ← toSpinOpchain single
      pure (acc ++ [sc])) []
  pure (hop ++ int)

/-- `_spin_molecular_hamiltonian_generate_operator_map` -/
def spinMolOpmap : OpMap κ :=
  oidSinglePairMap.map fun (pr, oid) =>
    (oid, Mat.kron ((molOpmap.lookup pr.1).getD []) ((molOpmap.lookup pr.2).getD []))

/-- `spin_molecular_hamiltonian_mpo(tkin, vint, optimize=True)` -/
def spinMolBuildOpt (c : Consts κ) (tkin : List (List κ)) (vint : List (List (List (List κ)))) : Except Err (Built κ) := do
  pyAssert (shapesOk tkin vint)
  let L : Int := tkin.length
  let chains ← spinMolChains c tkin vint
  let graph ← fromOpchains chains L 0
  if L ≤ 10 then pyAssert graph.isConsistent
  let mpo ← fromOpgraph spinQd graph spinMolOpmap false
  pure ⟨spinQd, spinMolOpmap, graph, mpo⟩

end
end Ptn.Ham

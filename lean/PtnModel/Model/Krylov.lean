import PtnModel.Model.Tensor
/-!
# Model of `pytenet/krylov.py`

`lanczos_iteration`, `arnoldi_iteration`, `eigh_krylov`, `expm_krylov`.

Vectors are `List α` read through `vget` (entry `i`, `0` outside) with the explicit length `n = len(vstart)`;
NumPy's elementwise operations are index formulas over `range n`.  The "matrix free" map is a parameter
`Afun : List α → List α`.  Dense kernels are oracle arguments:

* `dnorm : List α → ρ`                      (`np.linalg.norm` of a (complex) vector)
* `deigh : List ρ → List ρ → List ρ × Mat ρ` (`scipy.linalg.eigh_tridiagonal(alpha, beta)` → `(w, U)`)
* `dexpm : Mat α → Mat α`                   (`scipy.linalg.expm`)
* `dexp  : α → α`                           (`np.exp`, applied entry by entry)

The preallocated arrays `alpha`, `beta`, `V`, `H` of the Python code are filled front to back; the model keeps the
filled prefixes as growing lists (`alpha`, `beta`, rows of `V`, columns of `H` above the subdiagonal, subdiagonal
of `H`) and builds the returned slices `alpha[:k]`, `beta[:k-1]`, `V[:k].T`, `H[:k,:k]` from them.
`100*len(vstart)*np.finfo(float).eps` is the exact rational `100*n/2^52`.
-/
namespace Ptn.Krylov

section vec
variable {α : Type} [OfNat α 0]

/-- entry `i` of a vector (`0` outside its range) -/
def vget (x : List α) (i : Nat) : α := x.getD i 0

variable [Add α] [Mul α] [Sub α]

/-- `x + y` (length `n`) -/
def vadd (n : Nat) (x y : List α) : List α := (List.range n).map fun i => vget x i + vget y i

/-- `x - y` (length `n`) -/
def vsub (n : Nat) (x y : List α) : List α := (List.range n).map fun i => vget x i - vget y i

/-- `c * x` (length `n`) -/
def vscale (n : Nat) (c : α) (x : List α) : List α := (List.range n).map fun i => c * vget x i

/-- `x / c` (length `n`) -/
def vdiv [Div α] (n : Nat) (x : List α) (c : α) : List α := (List.range n).map fun i => vget x i / c

/-- `np.vdot(x, y)`: the *first* argument is conjugated -/
def vdot [HasConj α] (n : Nat) (x y : List α) : α := sumRange n fun i => HasConj.conj (vget x i) * vget y i

/-- `A @ x` for an explicit matrix (the driver's instance of `Afunc`) -/
def matvec (A : Mat α) (x : List α) : List α :=
  (List.range A.m).map fun i => sumRange A.n fun k => A.f i k * vget x k

/-- the matrix whose columns are the given vectors (`V[:k].T` for the rows `V[0..k-1]`) -/
def colsMat (n : Nat) (cols : List (List α)) : Mat α := ⟨n, cols.length, fun i c => vget (cols.getD c []) i⟩

end vec

section iter
variable {α ρ : Type} [OfNat α 0] [Add α] [Mul α] [Sub α] [Div α] [HasConj α] [RealLike ρ α]
  [OfNat ρ 0] [NatCast ρ] [Div ρ] [LT ρ] [DecidableLT ρ]

/-- `100*len(vstart)*np.finfo(float).eps` with `eps = 2^-52` -/
def breakdownThr (ρ : Type) [NatCast ρ] [Div ρ] (n : Nat) : ρ := ((100 * n : Nat) : ρ) / ((2 ^ 52 : Nat) : ρ)

/-- filled parts of `alpha`, `beta` and the rows of `V` -/
structure LState (α ρ : Type) where
  alpha : List ρ
  beta : List ρ
  V : List (List α)

/-- body of `for j in range(numiter-1)` of `lanczos_iteration`; the flag reports the premature end -/
def lanczosStep (Afun : List α → List α) (dnorm : List α → ρ) (n j : Nat) (st : LState α ρ) : LState α ρ × Bool :=
  let vj := st.V.getD j []
  let w := Afun vj
  let a : ρ := RealLike.re (vdot n w vj)
  let c := if 0 < j then
      vadd n (vscale n (RealLike.ofReal a) vj) (vscale n (RealLike.ofReal (st.beta.getD (j - 1) 0)) (st.V.getD (j - 1) []))
    else vscale n (RealLike.ofReal a) vj
  let w := vsub n w c
  let b := dnorm w
  if b < breakdownThr ρ n then
    -- `(alpha[:j+1], beta[:j], V[:j+1, :].T)`
    ({ alpha := st.alpha ++ [a], beta := st.beta, V := st.V }, true)
  else
    ({ alpha := st.alpha ++ [a], beta := st.beta ++ [b], V := st.V ++ [vdiv n w (RealLike.ofReal b)] }, false)

/-- `k` further iterations of the loop starting at index `j` -/
def lanczosLoop (Afun : List α → List α) (dnorm : List α → ρ) (n : Nat) : Nat → Nat → LState α ρ → LState α ρ × Bool
  | 0, _, st => (st, false)
  | k + 1, j, st =>
    let r := lanczosStep Afun dnorm n j st
    if r.2 then r else lanczosLoop Afun dnorm n k (j + 1) r.1

/-- the final half iteration `alpha[numiter-1] = np.vdot(Afunc(V[j]), V[j]).real` -/
def lanczosFinish (Afun : List α → List α) (n j : Nat) (st : LState α ρ) : LState α ρ :=
  let vj := st.V.getD j []
  let w := Afun vj
  { st with alpha := st.alpha ++ [RealLike.re (vdot n w vj)] }

/-- `lanczos_iteration` without the cap on the number of iterations (the code before the repair F11), up to the packaging
of the result: the filled `alpha`, `beta`, rows of `V` -/
def lanczosCoreU (Afun : List α → List α) (dnorm : List α → ρ) (vstart : List α) (numiter : Nat) :
    Except Err (LState α ρ) := do
  let n := vstart.length
  let nrmv := dnorm vstart
  pyAssert (decide (0 < nrmv))
  let v0 := vdiv n vstart (RealLike.ofReal nrmv)
  -- `np.zeros(numiter-1)` with `numiter = 0`
  if numiter = 0 then throw .value
  let r := lanczosLoop Afun dnorm n (numiter - 1) 0 { alpha := [], beta := [], V := [v0] }
  if r.2 then return r.1
  return lanczosFinish Afun n (numiter - 1) r.1

/-- `lanczos_iteration` up to the packaging of the result.  `numiter = min(numiter, len(vstart))` (F11: the Krylov space
cannot have a larger dimension than the vector space) sits between the assertion on the norm and the allocation of
`alpha`, `beta`, so the order of the possible exceptions is that of `lanczosCoreU` at the capped count. -/
def lanczosCore (Afun : List α → List α) (dnorm : List α → ρ) (vstart : List α) (numiter : Nat) :
    Except Err (LState α ρ) :=
  lanczosCoreU Afun dnorm vstart (min numiter vstart.length)

/-- `lanczos_iteration(Afunc, vstart, numiter)` → `(alpha, beta, V)` with `V` of shape `len(vstart) × len(alpha)` -/
def lanczos (Afun : List α → List α) (dnorm : List α → ρ) (vstart : List α) (numiter : Nat) :
    Except Err (List ρ × List ρ × Mat α) := do
  let st ← lanczosCore Afun dnorm vstart numiter
  return (st.alpha, st.beta, colsMat vstart.length st.V)

/-- filled columns of `H` (entries `H[0..j, j]`), its subdiagonal `H[j+1, j]`, and the rows of `V` -/
structure AState (α ρ : Type) where
  cols : List (List α)
  sub : List ρ
  V : List (List α)

/-- `for k in range(j+1): H[k, j] = np.vdot(V[k], w); w -= H[k, j]*V[k]` → `(w, H[0..j, j])` -/
def mgs (n : Nat) (rows : List (List α)) (w : List α) : List α × List α :=
  rows.foldl (fun (s : List α × List α) vk =>
    let c := vdot n vk s.1
    (vsub n s.1 (vscale n c vk), s.2 ++ [c])) (w, [])

/-- body of `for j in range(numiter-1)` of `arnoldi_iteration`.  `H[j+1, j]` is stored as a complex number with
zero imaginary part; its comparison with the (real) threshold is the comparison of the real parts. -/
def arnoldiStep (Afun : List α → List α) (dnorm : List α → ρ) (n j : Nat) (st : AState α ρ) : AState α ρ × Bool :=
  let w := Afun (st.V.getD j [])
  let r := mgs n (st.V.take (j + 1)) w
  let b := dnorm r.1
  if b < breakdownThr ρ n then
    -- `H[:j+1, :j+1], V[:j+1, :].T`
    ({ cols := st.cols ++ [r.2], sub := st.sub, V := st.V }, true)
  else
    ({ cols := st.cols ++ [r.2], sub := st.sub ++ [b], V := st.V ++ [vdiv n r.1 (RealLike.ofReal b)] }, false)

def arnoldiLoop (Afun : List α → List α) (dnorm : List α → ρ) (n : Nat) : Nat → Nat → AState α ρ → AState α ρ × Bool
  | 0, _, st => (st, false)
  | k + 1, j, st =>
    let r := arnoldiStep Afun dnorm n j st
    if r.2 then r else arnoldiLoop Afun dnorm n k (j + 1) r.1

/-- the final half iteration (last column of `H`) -/
def arnoldiFinish (Afun : List α → List α) (n j : Nat) (st : AState α ρ) : AState α ρ :=
  let w := Afun (st.V.getD j [])
  let r := mgs n (st.V.take (j + 1)) w
  { st with cols := st.cols ++ [r.2] }

/-- `arnoldi_iteration` without the cap on the number of iterations -/
def arnoldiCoreU (Afun : List α → List α) (dnorm : List α → ρ) (vstart : List α) (numiter : Nat) :
    Except Err (AState α ρ) := do
  let n := vstart.length
  let nrmv := dnorm vstart
  pyAssert (decide (0 < nrmv))
  let v0 := vdiv n vstart (RealLike.ofReal nrmv)
  -- `V[0] = vstart` with `numiter = 0`
  if numiter = 0 then throw .index
  let r := arnoldiLoop Afun dnorm n (numiter - 1) 0 { cols := [], sub := [], V := [v0] }
  if r.2 then return r.1
  return arnoldiFinish Afun n (numiter - 1) r.1

/-- `arnoldi_iteration` up to the packaging of the result, with `numiter = min(numiter, len(vstart))` (F11) -/
def arnoldiCore (Afun : List α → List α) (dnorm : List α → ρ) (vstart : List α) (numiter : Nat) :
    Except Err (AState α ρ) :=
  arnoldiCoreU Afun dnorm vstart (min numiter vstart.length)

/-- the `k × k` upper Hessenberg matrix with the given columns above and on the diagonal and the given subdiagonal -/
def hessMat (cols : List (List α)) (sub : List ρ) : Mat α :=
  ⟨cols.length, cols.length, fun r c =>
    if r ≤ c then vget (cols.getD c []) r else if r = c + 1 then RealLike.ofReal (sub.getD c 0) else 0⟩

/-- `arnoldi_iteration(Afunc, vstart, numiter)` → `(H, V)` -/
def arnoldi (Afun : List α → List α) (dnorm : List α → ρ) (vstart : List α) (numiter : Nat) :
    Except Err (Mat α × Mat α) := do
  let st ← arnoldiCore Afun dnorm vstart numiter
  return (hessMat st.cols st.sub, colsMat vstart.length st.V)

/-- `eigh_krylov(Afunc, vstart, numiter, numeig)` → `(w_hess[0:numeig], V @ u_hess[:, 0:numeig])` -/
def eighKrylov (Afun : List α → List α) (dnorm : List α → ρ) (deigh : List ρ → List ρ → List ρ × Mat ρ)
    (vstart : List α) (numiter numeig : Nat) : Except Err (List ρ × Mat α) := do
  let (alpha, beta, V) ← lanczos Afun dnorm vstart numiter
  let (w, U) := deigh alpha beta
  -- `V @ u_hess[:, 0:numeig]`
  if V.n ≠ U.m then throw .value
  let u : Mat α := ⟨V.m, min numeig U.n, fun i e => sumRange V.n fun c => V.f i c * RealLike.ofReal (U.f c e)⟩
  return (w.take numeig, u)

/-- `expm_krylov(Afunc, v, dt, numiter, hermitian)` -/
def expmKrylov (Afun : List α → List α) (dnorm : List α → ρ) (deigh : List ρ → List ρ → List ρ × Mat ρ)
    (dexp : α → α) (dexpm : Mat α → Mat α) (v : List α) (dt : α) (numiter : Nat) (hermitian : Bool) :
    Except Err (List α) := do
  if hermitian then
    let (alpha, beta, V) ← lanczos Afun dnorm v numiter
    let (w, U) := deigh alpha beta
    let nrm := dnorm v
    -- `np.linalg.norm(v) * np.exp(dt*w_hess) * u_hess[0]`
    if U.m = 0 then throw .index
    if w.length ≠ U.n then throw .value
    let c : List α := (List.range U.n).map fun k =>
      RealLike.ofReal nrm * dexp (dt * RealLike.ofReal (w.getD k 0)) * RealLike.ofReal (U.f 0 k)
    -- `u_hess @ (...)`
    let y : List α := (List.range U.m).map fun r => sumRange U.n fun k => RealLike.ofReal (U.f r k) * vget c k
    -- `V @ (...)`
    if V.n ≠ U.m then throw .value
    return (List.range V.m).map fun i => sumRange V.n fun c => V.f i c * vget y c
  else
    let (H, V) ← arnoldi Afun dnorm v numiter
    let E := dexpm ⟨H.m, H.n, fun r c => dt * H.f r c⟩
    let nrm := dnorm v
    -- `np.linalg.norm(v) * expm(dt*H)[:, 0]`
    if E.n = 0 then throw .index
    let y : List α := (List.range E.m).map fun r => RealLike.ofReal nrm * E.f r 0
    if V.n ≠ E.m then throw .value
    return (List.range V.m).map fun i => sumRange V.n fun c => V.f i c * vget y c

end iter
end Ptn.Krylov

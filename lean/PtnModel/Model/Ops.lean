import PtnModel.Model.MPSSvd
import PtnModel.Model.Operation
/-!
# Operation histories (C02, C19)

A `Pool` is a list of MPS/MPO objects; an `HOp` is one public pytenet operation applied to pool slots.
In-place operations overwrite their target slot; operations returning a new object append it to the pool.
`step` is the model of one call; `run` folds a history.  The frame discipline of C19 is visible in the types:
`step` only ever writes `target op` or appends.
-/
namespace Ptn.Hist

inductive Obj (α : Type) where
  | mps (ψ : MPS α)
  | mpo (o : MPO α)

abbrev Pool (α : Type) := List (Obj α)

/-- kernels available to one step -/
structure StepKernels (α ρ : Type) where
  dqr : Mat α → Mat α × Mat α
  svd : MPS.SvdKernels α ρ
  dabs : α → ρ
  divR : α → ρ → α

inductive HOp (α ρ : Type) where
  | orthoMps (i : Nat) (left : Bool)
  | orthoMpo (i : Nat) (left : Bool)
  | compress (i : Nat) (tol : ρ) (left : Bool)
  | addMps (i j : Nat) (alpha : α)
  | addMpo (i j : Nat) (alpha : α)
  | mulMpo (i j : Nat)
  | apply (i j : Nat)            -- apply_operator(pool[i] : MPO, pool[j] : MPS)
  | zeroQ (i : Nat)              -- zero_qnumbers()
  | copy (i : Nat)               -- deep copy (harness helper)

variable {α ρ : Type}

/-- slot overwritten by an operation (`none`: a new object is appended) -/
def HOp.target : HOp α ρ → Option Nat
  | .orthoMps i _ | .orthoMpo i _ | .compress i _ _ | .zeroQ i => some i
  | _ => none

def Obj.zeroQ : Obj α → Obj α
  | .mps ψ => .mps { ψ with qd := ψ.qd.map fun _ => 0, qD := ψ.qD.map fun q => q.map fun _ => 0 }
  | .mpo o => .mpo { o with qd := o.qd.map fun _ => 0, qD := o.qD.map fun q => q.map fun _ => 0 }

variable [OfNat α 0] [OfNat α 1] [Add α] [Mul α] [Neg α] [DecidableEq α] [HasConj α]
  [RealLike ρ α] [OfNat ρ 0] [OfNat ρ 1] [Add ρ] [Mul ρ] [Div ρ] [Neg ρ] [LT ρ] [DecidableEq ρ] [DecidableLT ρ]

/-- result of one step: the new pool and the scalar outputs of the call (norm, scale) -/
def step (k : StepKernels α ρ) (p : Pool α) (op : HOp α ρ) : Except Err (Pool α × List ρ) :=
  match op with
  | .orthoMps i left =>
    match p[i]? with
    | some (.mps ψ) => do
      let (ψ', nrm) ← MPS.orthonormalize (ρ := ρ) k.dqr ψ left
      return (p.set i (.mps ψ'), [nrm])
    | _ => .error .type
  | .orthoMpo i left =>
    match p[i]? with
    | some (.mpo o) => do
      let (o', nrm) ← MPO.orthonormalize (ρ := ρ) k.dqr o left
      return (p.set i (.mpo o'), [nrm])
    | _ => .error .type
  | .compress i tol left =>
    match p[i]? with
    | some (.mps ψ) => do
      let (ψ', nrm, sc) ← MPS.compress k.dqr k.svd k.dabs k.divR ψ tol left
      return (p.set i (.mps ψ'), [nrm, sc])
    | _ => .error .type
  | .addMps i j alpha =>
    match p[i]?, p[j]? with
    | some (.mps a), some (.mps b) => do
      let r ← MPS.add a b alpha
      return (p ++ [.mps r], [])
    | _, _ => .error .type
  | .addMpo i j alpha =>
    match p[i]?, p[j]? with
    | some (.mpo a), some (.mpo b) => do
      let r ← MPO.add a b alpha
      return (p ++ [.mpo r], [])
    | _, _ => .error .type
  | .mulMpo i j =>
    match p[i]?, p[j]? with
    | some (.mpo a), some (.mpo b) => do
      let r ← MPO.multiply a b
      return (p ++ [.mpo r], [])
    | _, _ => .error .type
  | .apply i j =>
    match p[i]?, p[j]? with
    | some (.mpo a), some (.mps b) => do
      let r ← Op.applyOperator a b
      return (p ++ [.mps r], [])
    | _, _ => .error .type
  | .zeroQ i =>
    match p[i]? with
    | some o => .ok (p.set i o.zeroQ, [])
    | none => .error .index
  | .copy i =>
    match p[i]? with
    | some o => .ok (p ++ [o], [])
    | none => .error .index

def Obj.wellFormed : Obj α → Bool
  | .mps ψ => ψ.wellFormed
  | .mpo o => o.wellFormed

/-- the invariant of C02 -/
def poolWF (p : Pool α) : Bool := p.all Obj.wellFormed

end Ptn.Hist

import PtnModel.Model.MPSSvd
import PtnModel.Model.Operation
import PtnModel.Model.Evolution
/-!
# Operation histories (C02, C19)

A `Pool` is a list of MPS/MPO objects; an `HOp` is one public pytenet operation applied to pool slots.
In-place operations overwrite their target slot; operations returning a new object append it to the pool.
`step` is the model of one call; `run` folds a history.  The frame discipline of C19 is visible in the types:
`step` only ever writes `target op` or appends.
-/
namespace Ptn.Hist

inductive Obj (α : Type) where
  | mps (ψ : MPS α)
  | mpo (o : MPO α)

abbrev Pool (α : Type) := List (Obj α)

/-- kernels available to one step -/
structure StepKernels (α ρ : Type) where
  dqr : Mat α → Mat α × Mat α
  svd : MPS.SvdKernels α ρ
  dabs : α → ρ
  divR : α → ρ → α
  -- additional kernels of TDVP / DMRG (`Model/Evolution.lean`)
  dsqrt : ρ → ρ
  cnorm : List α → ρ
  deigh : List ρ → List ρ → List ρ × Mat ρ
  dexp : α → α
  dexpm : Mat α → Mat α
  half : α

/-- the kernels of `Model/Evolution.lean` (QR and SVD kernels are shared with the MPS methods) -/
def StepKernels.evo {α ρ : Type} (k : StepKernels α ρ) : Evo.EvoKernels α ρ :=
  ⟨k.dqr, k.svd, k.dsqrt, k.cnorm, k.deigh, k.dexp, k.dexpm, k.half⟩

inductive HOp (α ρ : Type) where
  | orthoMps (i : Nat) (left : Bool)
  | orthoMpo (i : Nat) (left : Bool)
  | compress (i : Nat) (tol : ρ) (left : Bool)
  | addMps (i j : Nat) (alpha : α)
  | addMpo (i j : Nat) (alpha : α)
  | mulMpo (i j : Nat)
  | apply (i j : Nat)            -- apply_operator(pool[i] : MPO, pool[j] : MPS)
  | zeroQ (i : Nat)              -- zero_qnumbers()
  | copy (i : Nat)               -- deep copy (harness helper)
  | fromVector (d nsites : Nat) (v : List α) (tol : ρ)            -- MPS.from_vector(d, nsites, v, tol): appends
  | tdvp1 (iH iψ : Nat) (dt : α) (numsteps numiter : Nat)         -- integrate_local_singlesite(pool[iH], pool[iψ], …)
  | tdvp2 (iH iψ : Nat) (dt : α) (numsteps numiter : Nat) (tol : ρ)
  | dmrg1 (iH iψ : Nat) (numsweeps numiter : Nat)                 -- calculate_ground_state_local_singlesite
  | dmrg2 (iH iψ : Nat) (numsweeps numiter : Nat) (tol : ρ)

variable {α ρ : Type}

/-- slot overwritten by an operation (`none`: a new object is appended) -/
def HOp.target : HOp α ρ → Option Nat
  | .orthoMps i _ | .orthoMpo i _ | .compress i _ _ | .zeroQ i => some i
  | .tdvp1 _ i _ _ _ | .tdvp2 _ i _ _ _ _ | .dmrg1 _ i _ _ | .dmrg2 _ i _ _ _ => some i
  | _ => none

def Obj.zeroQ : Obj α → Obj α
  | .mps ψ => .mps { ψ with qd := ψ.qd.map fun _ => 0, qD := ψ.qD.map fun q => q.map fun _ => 0 }
  | .mpo o => .mpo { o with qd := o.qd.map fun _ => 0, qD := o.qD.map fun q => q.map fun _ => 0 }

variable [OfNat α 0] [OfNat α 1] [Add α] [Mul α] [Sub α] [Neg α] [Div α] [DecidableEq α] [HasConj α]
  [RealLike ρ α] [OfNat ρ 0] [OfNat ρ 1] [Add ρ] [Mul ρ] [Div ρ] [Neg ρ] [NatCast ρ] [LT ρ] [DecidableEq ρ] [DecidableLT ρ]

/-- result of one step: the new pool and the scalar outputs of the call (norm, scale) -/
def step (k : StepKernels α ρ) (p : Pool α) (op : HOp α ρ) : Except Err (Pool α × List ρ) :=
  match op with
  | .orthoMps i left =>
    match p[i]? with
    | some (.mps ψ) => do
      let (ψ', nrm) ← MPS.orthonormalize (ρ := ρ) k.dqr ψ left
      return (p.set i (.mps ψ'), [nrm])
    | _ => .error .type
  | .orthoMpo i left =>
    match p[i]? with
    | some (.mpo o) => do
      let (o', nrm) ← MPO.orthonormalize (ρ := ρ) k.dqr o left
      return (p.set i (.mpo o'), [nrm])
    | _ => .error .type
  | .compress i tol left =>
    match p[i]? with
    | some (.mps ψ) => do
      let (ψ', nrm, sc) ← MPS.compress k.dqr k.svd k.dabs k.divR ψ tol left
      return (p.set i (.mps ψ'), [nrm, sc])
    | _ => .error .type
  | .addMps i j alpha =>
    match p[i]?, p[j]? with
    | some (.mps a), some (.mps b) => do
      let r ← MPS.add a b alpha
      return (p ++ [.mps r], [])
    | _, _ => .error .type
  | .addMpo i j alpha =>
    match p[i]?, p[j]? with
    | some (.mpo a), some (.mpo b) => do
      let r ← MPO.add a b alpha
      return (p ++ [.mpo r], [])
    | _, _ => .error .type
  | .mulMpo i j =>
    match p[i]?, p[j]? with
    | some (.mpo a), some (.mpo b) => do
      let r ← MPO.multiply a b
      return (p ++ [.mpo r], [])
    | _, _ => .error .type
  | .apply i j =>
    match p[i]?, p[j]? with
    | some (.mpo a), some (.mps b) => do
      let r ← Op.applyOperator a b
      return (p ++ [.mps r], [])
    | _, _ => .error .type
  | .zeroQ i =>
    match p[i]? with
    | some o => .ok (p.set i o.zeroQ, [])
    | none => .error .index
  | .copy i =>
    match p[i]? with
    | some o => .ok (p ++ [o], [])
    | none => .error .index
  | .fromVector d nsites v tol => do
    let r ← MPS.fromVector k.svd d nsites v tol
    return (p ++ [.mps r], [])
  | .tdvp1 iH iψ dt numsteps numiter =>
    match p[iH]?, p[iψ]? with
    | some (.mpo H), some (.mps ψ) => do
      let (ψ', nrm) ← Evo.integrateLocalSinglesite k.evo H ψ dt numsteps numiter
      return (p.set iψ (.mps ψ'), [nrm])
    | _, _ => .error .type
  | .tdvp2 iH iψ dt numsteps numiter tol =>
    match p[iH]?, p[iψ]? with
    | some (.mpo H), some (.mps ψ) => do
      let (ψ', nrm) ← Evo.integrateLocalTwosite k.evo H ψ dt numsteps numiter tol
      return (p.set iψ (.mps ψ'), [nrm])
    | _, _ => .error .type
  | .dmrg1 iH iψ numsweeps numiter =>
    match p[iH]?, p[iψ]? with
    | some (.mpo H), some (.mps ψ) => do
      let (ψ', en) ← Evo.dmrgSinglesite k.evo H ψ numsweeps numiter
      return (p.set iψ (.mps ψ'), en)
    | _, _ => .error .type
  | .dmrg2 iH iψ numsweeps numiter tol =>
    match p[iH]?, p[iψ]? with
    | some (.mpo H), some (.mps ψ) => do
      let (ψ', en) ← Evo.dmrgTwosite k.evo H ψ numsweeps numiter tol
      return (p.set iψ (.mps ψ'), en)
    | _, _ => .error .type

def Obj.wellFormed : Obj α → Bool
  | .mps ψ => ψ.wellFormed
  | .mpo o => o.wellFormed

/-- the invariant of C02 -/
def poolWF (p : Pool α) : Bool := p.all Obj.wellFormed

end Ptn.Hist

import PtnModel.Model.OpGraph
/-!
# Model of `pytenet/hamiltonian.py`, part 1: lattice models

What the constructors `ising_mpo`, `heisenberg_xxz_mpo`, `heisenberg_xxz_spin1_mpo`, `bose_hubbard_mpo`,
`fermi_hubbard_mpo`, `linear_fermionic_mpo` compute themselves before they hand over to
`OpGraph.from_opchains` / `OpGraph.from_automaton` / `MPO.from_opgraph`:
the physical charges `qd`, the operator tables `opmap`, the local chain templates with their coefficients
as functions of the parameters, the translation over the lattice of `_local_opchains_to_mpo`,
the Ising automaton and the hand-built graph of `linear_fermionic_mpo`.

Scalars: an arbitrary `κ` with `+ * - 0 1`; the constants `0.5` and `√n` that occur in tables and coefficients
are supplied through `Consts` (theorems assume `half + half = 1` and `sq n * sq n = n`).
-/
namespace Ptn.Ham
open Ptn.Og

/-- the non-ring constants of `hamiltonian.py`: `0.5` and `np.sqrt(n)` -/
structure Consts (κ : Type) where
  half : κ
  sq : Nat → κ

/-- `range(a, b)` for Python ints -/
def pyRange (a b : Int) : List Int := (List.range (b - a).toNat).map fun (k : Nat) => a + (k : Int)

/-- `_encode_quantum_number_pair`: `(qa << 16) + qb` -/
def encPair (qa qb : Int) : Int := qa * 65536 + qb

/-- result of the part of a lattice constructor that precedes `_local_opchains_to_mpo` -/
structure Lattice (κ : Type) where
  qd : List Int
  opmap : OpMap κ
  lopchains : List (OpChain κ)
  oidIdentity : Int

/-- everything a constructor produces: the graph handed to `MPO.from_opgraph` and the MPO data -/
structure Built (κ : Type) where
  qd : List Int
  opmap : OpMap κ
  graph : Graph κ
  mpo : MpoOut κ

section
variable {κ : Type} [Add κ] [Mul κ] [Neg κ] [OfNat κ 0] [OfNat κ 1] [DecidableEq κ]

/-- a natural number as a scalar (`float(n)`) -/
def ofN : Nat → κ
  | 0 => 0
  | 1 => 1
  | n + 1 => ofN n + 1

/-- `np.diag(v)` for the list of diagonal entries -/
def diagMat (v : List κ) : Mat κ :=
  (List.range v.length).map fun i => (List.range v.length).map fun j => if i = j then v.getD i 0 else 0

/-- a `d × d` matrix from an entry function -/
def matOf (d : Nat) (f : Nat → Nat → κ) : Mat κ :=
  (List.range d).map fun i => (List.range d).map fun j => f i j

/-! ## operator tables -/

def pauliX : Mat κ := [[0, 1], [1, 0]]
def pauliZ : Mat κ := [[1, 0], [0, -1]]
/-- `a_dag = [[0, 0], [1, 0]]` -/
def fermiC : Mat κ := [[0, 0], [1, 0]]
/-- `a_ann = [[0, 1], [0, 0]]` -/
def fermiA : Mat κ := [[0, 1], [0, 0]]
def fermiN : Mat κ := [[0, 0], [0, 1]]
def id2 : Mat κ := Mat.identity 2

/-! ## Ising: automaton -/

/-- `AutOp.add_connect_edge` -/
def autAddConnectEdge (a : AutOp κ) (e : AEdge κ) : Except Err (AutOp κ) := do
  if dHas a.edges e.eid then throw .value
  let a : AutOp κ := { a with edges := a.edges ++ [(e.eid, e)] }
  let a : AutOp κ ←
    if dHas a.nodes e.nids.1 then do
      let n ← dGet a.nodes e.nids.1
      let n' ← n.addEdgeId e.eid true
      pure { a with nodes := dReplace a.nodes e.nids.1 n' }
    else pure a
  if dHas a.nodes e.nids.2 then do
    let n ← dGet a.nodes e.nids.2
    let n' ← n.addEdgeId e.eid false
    pure { a with nodes := dReplace a.nodes e.nids.2 n' }
  else pure a

/-- `AutOpEdge(eid, nids, opics)` with constant `opics` and `active=True` -/
def constEdge (eid : Int) (n0 n1 : Int) (opics : List (Int × κ)) : AEdge κ :=
  ⟨eid, (n0, n1), fun _ => opics, fun _ => true⟩

def isingQd : List Int := [0, 0]

/-- `OID.I = 0, OID.Z = 1, OID.X = 2` -/
def isingOpmap : OpMap κ := [(0, Mat.identity 2), (1, pauliZ), (2, pauliX)]

/-- the automaton of `ising_mpo` as built by the constructor calls and the six `add_connect_edge` calls -/
def isingAutomatonRaw (J h g : κ) : Except Err (AutOp κ) := do
  let t0 ← Node.mk' 0 [] [] 0
  let t1 ← Node.mk' 1 [] [] 0
  let nz ← Node.mk' 2 [] [] 0
  let a ← AutOp.mk' [t0, t1, nz] ([] : List (AEdge κ)) [t0.nid, t1.nid]
  let a ← autAddConnectEdge a (constEdge 0 t0.nid t0.nid [(0, 1)])
  let a ← autAddConnectEdge a (constEdge 1 t1.nid t1.nid [(0, 1)])
  let a ← autAddConnectEdge a (constEdge 2 t0.nid nz.nid [(1, J)])
  let a ← autAddConnectEdge a (constEdge 3 nz.nid t1.nid [(1, 1)])
  let a ← autAddConnectEdge a (constEdge 4 t0.nid t1.nid [(1, h)])
  autAddConnectEdge a (constEdge 5 t0.nid t1.nid [(2, g)])

/-- the automaton of `ising_mpo` (including its `assert autop.is_consistent()`) -/
def isingAutomaton (J h g : κ) : Except Err (AutOp κ) := do
  let a ← isingAutomatonRaw J h g
  pyAssert a.isConsistent
  pure a

/-- `ising_mpo(L, J, h, g)` -/
def isingBuild (L : Int) (J h g : κ) : Except Err (Built κ) := do
  let a ← isingAutomaton J h g
  let graph ← fromAutomaton a L
  let mpo ← fromOpgraph isingQd graph isingOpmap false
  pure ⟨isingQd, isingOpmap, graph, mpo⟩

/-! ## chain-template models -/

/-- XXZ spin-1/2: `OID.Sd = -1, Id = 0, Su = 1, Sz = 2` -/
def xxzOpmap (c : Consts κ) : OpMap κ :=
  [(-1, [[0, 0], [1, 0]]), (0, Mat.identity 2), (1, [[0, 1], [0, 0]]), (2, [[c.half, 0], [0, -c.half]])]

def xxzLattice (c : Consts κ) (J D h : κ) : Except Err (Lattice κ) := do
  let c0 ← OpChain.mk' [1, -1] [0, 2, 0] (c.half * J) 0
  let c1 ← OpChain.mk' [-1, 1] [0, -2, 0] (c.half * J) 0
  let c2 ← OpChain.mk' [2, 2] [0, 0, 0] D 0
  let c3 ← OpChain.mk' [2] [0, 0] (-h) 0
  pure ⟨[1, -1], xxzOpmap c, [c0, c1, c2, c3], 0⟩

/-- XXZ spin-1 tables (`sq2 = np.sqrt(2.)`) -/
def xxz1Opmap (c : Consts κ) : OpMap κ :=
  let s := c.sq 2
  [(-1, [[0, 0, 0], [s, 0, 0], [0, s, 0]]), (0, Mat.identity 3),
   (1, [[0, s, 0], [0, 0, s], [0, 0, 0]]), (2, [[1, 0, 0], [0, 0, 0], [0, 0, -1]])]

def xxz1Lattice (c : Consts κ) (J D h : κ) : Except Err (Lattice κ) := do
  let c0 ← OpChain.mk' [1, -1] [0, 1, 0] (c.half * J) 0
  let c1 ← OpChain.mk' [-1, 1] [0, -1, 0] (c.half * J) 0
  let c2 ← OpChain.mk' [2, 2] [0, 0, 0] D 0
  let c3 ← OpChain.mk' [2] [0, 0] (-h) 0
  pure ⟨[1, 0, -1], xxz1Opmap c, [c0, c1, c2, c3], 0⟩

/-- Bose-Hubbard tables: `OID.B = -1, Id = 0, Bd = 1, N = 2, NI = 3`;
`b_dag = np.diag(np.sqrt(np.arange(1, d)), -1)`, `b_ann = np.diag(..., 1)`, `numop @ (numop - id) / 2` -/
def boseOpmap (c : Consts κ) (d : Nat) : OpMap κ :=
  [(-1, matOf d fun i j => if j = i + 1 then c.sq j else 0),
   (0, Mat.identity d),
   (1, matOf d fun i j => if i = j + 1 then c.sq i else 0),
   (2, matOf d fun i j => if i = j then ofN i else 0),
   (3, matOf d fun i j => if i = j then ofN (i * (i - 1) / 2) else 0)]

def boseLattice (c : Consts κ) (d : Nat) (t U mu : κ) : Except Err (Lattice κ) := do
  let c0 ← OpChain.mk' [1, -1] [0, 1, 0] (-t) 0
  let c1 ← OpChain.mk' [-1, 1] [0, -1, 0] (-t) 0
  let c2 ← OpChain.mk' [2] [0, 0] (-mu) 0
  let c3 ← OpChain.mk' [3] [0, 0] U 0
  pure ⟨(List.range d).map fun (k : Nat) => (k : Int), boseOpmap c d, [c0, c1, c2, c3], 0⟩

/-- physical charges of a spinful fermionic site: `qN = [0, 1, 1, 2]`, `qS = [0, -1, 1, 0]` -/
def spinQd : List Int := [encPair 0 0, encPair 1 (-1), encPair 1 1, encPair 2 0]

/-- Fermi-Hubbard tables, ids `Id=0, CI, AI, CZ, AZ, IC, IA, ZC, ZA, Nt, NI=10` -/
def fermiHubbardOpmap (c : Consts κ) : OpMap κ :=
  let q := c.half * c.half
  [(0, Mat.identity 4),
   (1, Mat.kron fermiC id2), (2, Mat.kron fermiA id2),
   (3, Mat.kron fermiC pauliZ), (4, Mat.kron fermiA pauliZ),
   (5, Mat.kron id2 fermiC), (6, Mat.kron id2 fermiA),
   (7, Mat.kron pauliZ fermiC), (8, Mat.kron pauliZ fermiA),
   (9, Mat.add (Mat.kron fermiN id2) (Mat.kron id2 fermiN)),
   (10, diagMat [q, -q, -q, q])]

def fermiHubbardLattice (c : Consts κ) (t U mu : κ) : Except Err (Lattice κ) := do
  let c0 ← OpChain.mk' [3, 2] [0, encPair 1 1, 0] (-t) 0
  let c1 ← OpChain.mk' [4, 1] [0, encPair (-1) (-1), 0] (-t) 0
  let c2 ← OpChain.mk' [5, 8] [0, encPair 1 (-1), 0] (-t) 0
  let c3 ← OpChain.mk' [6, 7] [0, encPair (-1) 1, 0] (-t) 0
  let c4 ← OpChain.mk' [9] [0, 0] (-mu) 0
  let c5 ← OpChain.mk' [10] [0, 0] U 0
  pure ⟨spinQd, fermiHubbardOpmap c, [c0, c1, c2, c3, c4, c5], 0⟩

/-- the chain list `_local_opchains_to_mpo` hands to `from_opchains`:
every template shifted to the start sites `range(size - length + 1)` -/
def translateChains (lopchains : List (OpChain κ)) (size : Int) : List (OpChain κ) :=
  lopchains.flatMap fun l => (pyRange 0 (size - (l.length : Int) + 1)).map fun i => { l with istart := i }

/-- `_local_opchains_to_mpo(qd, lopchains, size, opmap, oid_identity)` -/
def localOpchainsToMpo (lat : Lattice κ) (size : Int) : Except Err (Built κ) := do
  let graph ← fromOpchains (translateChains lat.lopchains size) size lat.oidIdentity
  let mpo ← fromOpgraph lat.qd graph lat.opmap false
  pure ⟨lat.qd, lat.opmap, graph, mpo⟩

/-! ## `linear_fermionic_mpo` -/

/-- `OID.A = -1, I = 0, C = 1, Z = 2` -/
def linFermiOpmap : OpMap κ := [(-1, fermiA), (0, Mat.identity 2), (1, fermiC), (2, pauliZ)]

/-- the hand-built graph of `linear_fermionic_mpo(coeff, ftype)`, `create = ftype in ['c', 'create', 'creation']` -/
def linFermiGraph (coeff : List κ) (create : Bool) : Except Err (Graph κ) := do
  let L : Int := coeff.length
  -- identity and Z strings from the left and right
  let identityL : List (Int × Node) := (pyRange 0 L).map fun i => (i, ⟨i, [], [], 0⟩)
  let zStringR : List (Int × Node) := (pyRange 1 (L + 1)).map fun i => (i, ⟨L + i - 1, [], [], if create then 1 else -1⟩)
  let t0 ← dGet identityL 0
  let t1 ← dGet zStringR L
  let g ← Graph.mk' (identityL.map (·.2) ++ zStringR.map (·.2)) ([] : List (Edge κ)) [t0.nid, t1.nid]
  -- identities
  let (g, eid) ← (pyRange 0 (L - 1)).foldlM (fun (acc : Graph κ × Int) i => do
    let a ← dGet identityL i
    let b ← dGet identityL (i + 1)
    let g ← acc.1.addConnectEdge (Edge.mk' acc.2 (a.nid, b.nid) [(0, 1)])
    pure (g, acc.2 + 1)) (g, (0 : Int))
  -- Z strings
  let (g, eid) ← (pyRange 1 L).foldlM (fun (acc : Graph κ × Int) i => do
    let a ← dGet zStringR i
    let b ← dGet zStringR (i + 1)
    let g ← acc.1.addConnectEdge (Edge.mk' acc.2 (a.nid, b.nid) [(2, 1)])
    pure (g, acc.2 + 1)) (g, eid)
  -- creation or annihilation operators
  let (g, _) ← (pyRange 0 L).foldlM (fun (acc : Graph κ × Int) i => do
    let a ← dGet identityL i
    let b ← dGet zStringR (i + 1)
    let ci ← pyIdx coeff i.toNat
    let g ← acc.1.addConnectEdge (Edge.mk' acc.2 (a.nid, b.nid) [(if create then 1 else -1, ci)])
    pure (g, acc.2 + 1)) (g, eid)
  pyAssert g.isConsistent
  pure g

def linFermiBuild (coeff : List κ) (create : Bool) : Except Err (Built κ) := do
  let g ← linFermiGraph coeff create
  let mpo ← fromOpgraph [0, 1] g linFermiOpmap false
  pure ⟨[0, 1], linFermiOpmap, g, mpo⟩

/-! ## bond dimensions -/

/-- the `while True` walk of `from_opgraph`, recording only the layer sizes -/
def widthsLoop (g : Graph κ) : Nat → List Int → List Nat → Except Err (List Nat)
  | 0, _, _ => .error .fuel
  | fuel + 1, nids0, acc => do
    let nids1 ← g.nextBond nids0
    if nids1.isEmpty then pure acc else widthsLoop g fuel nids1 (acc ++ [nids1.length])

/-- layer widths of a graph = `bond_dims` of the MPO compiled from it -/
def graphWidths (g : Graph κ) : Except Err (List Nat) :=
  widthsLoop g (g.nodes.length + 2) [g.term false] [1]

/-- `from_opchains` up to the start of the sweep: the chains with non-zero coefficient, padded with identities,
as half-chains attached to the start node (the state before the first `for _ in range(length)` round) -/
def chainsInitState (chains : List (OpChain κ)) (length : Int) (oidIdentity : Int) : Except Err (ChState κ) := do
  if chains.isEmpty then throw .value
  let nodeStart ← Node.mk' 0 [] [] 0
  let nodeDummy ← Node.mk' (-1) [] [] 0
  let graph ← Graph.mk' [nodeStart, nodeDummy] ([] : List (Edge κ)) [0, -1]
  let chains ← (chains.filter (fun c => c.coeff != 0)).mapM (fun c => c.padded length oidIdentity)
  let vlistNext ← chains.mapM (fun c => HalfChain.mk' (c.oids ++ [oidIdentity]) (c.qnums ++ [0]) nodeStart.nid)
  pure ⟨graph, 1, 0, vlistNext, chains.map (·.coeff), []⟩

/-- the first `n` rounds of the sweep of `from_opchains`, recording how many nodes every round creates
(the increments of `nid_next`): the bond dimensions at the cuts `1, 2, ..., n` -/
def sweepCounts (s0 : ChState κ) : Nat → Except Err (ChState κ × List Nat)
  | 0 => .ok (s0, [])
  | n + 1 => do
    let (s, cs) ← sweepCounts s0 n
    let s' ← siteStep s
    pure (s', cs ++ [(s'.nidNext - s.nidNext).toNat])

/-- number of nodes created by each site step of `from_opchains(chains, length, oid_identity)` -/
def siteNodeCounts (chains : List (OpChain κ)) (length : Int) (oidIdentity : Int) : Except Err (List Nat) := do
  let s0 ← chainsInitState chains length oidIdentity
  let (_, counts) ← sweepCounts s0 length.toNat
  pure counts

end
end Ptn.Ham

import PtnModel.Model.HamiltonianMolGraph
/-!
# Model of `pytenet/hamiltonian.py`, part 4: spin-orbital molecular Hamiltonian, explicit construction

`SpinMolecularOpGraphNodes` (`__init__`, `get`, `generate_graph`), `SpinOperatorConverter.to_spin_operator`,
`_spin_molecular_hamiltonian_graph_add_term` and the `optimize=False` branch of `spin_molecular_hamiltonian_mpo`.
Outer keys of the node families are the tuples `(i, sigma)` resp. `(i, sigma, j, tau)`.
-/
namespace Ptn.Ham
open Ptn.Og

/-! ## `SpinMolecularOID` -/
def sId : Int := 0
def sIC : Int := 1
def sIA : Int := 2
def sIN : Int := 3
def sCI : Int := 4
def sCC : Int := 5
def sCA : Int := 6
def sCZ : Int := 8
def sAI : Int := 9
def sAC : Int := 10
def sAA : Int := 11
def sAZ : Int := 13
def sNI : Int := 14
def sNN : Int := 17
def sNZ : Int := 18
def sZC : Int := 19
def sZA : Int := 20
def sZN : Int := 21
def sZZ : Int := 22

/-- `[1, -1][sigma]` -/
def sgn (s : Int) : Int := if s == 0 then 1 else -1

/-- `[x, y][sigma]` -/
def pick (x y : Int) (s : Int) : Int := if s == 0 then x else y

/-- `itertools.product(range(a, b), (0, 1))` -/
def prodRS (a b : Int) : List (Int × Int) := (pyRange a b).flatMap fun i => [(i, 0), (i, 1)]

/-- `(i, sigma) < (j, tau)` -/
def pLt (x y : Int × Int) : Bool := x.1 < y.1 || (x.1 == y.1 && x.2 < y.2)

/-- `SpinMolecularOpGraphNodes` -/
structure SpinNodes where
  L : Int
  identityL : List (Int × Node)
  identityR : List (Int × Node)
  aDagL : Fam
  aAnnL : Fam
  aDagADagL : Fam
  aAnnAAnnL : Fam
  aDagAAnnL : Fam
  aDagR : Fam
  aAnnR : Fam
  aDagADagR : Fam
  aAnnAAnnR : Fam
  aDagAAnnR : Fam

/-- the ten node families of `SpinMolecularOpGraphNodes.__init__` in creation order: (outer key, inner keys, charge) -/
def spinSpecs (L : Int) : List (List (List Int × List Int × Int)) :=
  let h := L / 2
  [ (prodRS 0 (L - 1)).map fun (i, s) => ([i, s], pyRange (i + 1) L, encPair 1 (sgn s)),
    (prodRS 0 (L - 1)).map fun (i, s) => ([i, s], pyRange (i + 1) L, encPair (-1) (-sgn s)),
    (prodRS 0 h).flatMap fun (i, s) =>
      ((prodRS i h).filter fun jt => pLt (i, s) jt).map fun (j, t) =>
        ([i, s, j, t], pyRange (j + 1) (h + 1), encPair 2 (sgn s + sgn t)),
    (prodRS 0 h).flatMap fun (i, s) =>
      ((prodRS 0 (i + 1)).filter fun jt => pLt jt (i, s)).map fun (j, t) =>
        ([i, s, j, t], pyRange (i + 1) (h + 1), encPair (-2) (-sgn s + -sgn t)),
    (prodRS 0 h).flatMap fun (i, s) =>
      (prodRS 0 h).map fun (j, t) =>
        ([i, s, j, t], pyRange (max i j + 1) (h + 1), encPair 0 (sgn s + -sgn t)),
    (prodRS 1 L).map fun (i, s) => ([i, s], pyRange 1 (i + 1), encPair (-1) (-sgn s)),
    (prodRS 1 L).map fun (i, s) => ([i, s], pyRange 1 (i + 1), encPair 1 (sgn s)),
    (prodRS (h + 1) L).flatMap fun (i, s) =>
      ((prodRS i L).filter fun jt => pLt (i, s) jt).map fun (j, t) =>
        ([i, s, j, t], pyRange (h + 1) (i + 1), encPair (-2) (-sgn s + -sgn t)),
    (prodRS (h + 1) L).flatMap fun (i, s) =>
      ((prodRS (h + 1) (i + 1)).filter fun jt => pLt jt (i, s)).map fun (j, t) =>
        ([i, s, j, t], pyRange (h + 1) (j + 1), encPair 2 (sgn s + sgn t)),
    (prodRS (h + 1) L).flatMap fun (i, s) =>
      (prodRS (h + 1) L).map fun (j, t) =>
        ([i, s, j, t], pyRange (h + 1) (min i j + 1), encPair 0 (-sgn s + sgn t)) ]

/-- `SpinMolecularOpGraphNodes.__init__` -/
def SpinNodes.init (L : Int) : SpinNodes :=
  let identityL : List (Int × Node) := (pyRange 0 L).map fun i => (i, ⟨i, [], [], 0⟩)
  let identityR : List (Int × Node) := (pyRange 1 (L + 1)).map fun i => (i, ⟨L + i - 1, [], [], 0⟩)
  let nid : Int := ((identityL.length + identityR.length : Nat) : Int)
  let fams := (mkFams (spinSpecs L) nid).1
  ⟨L, identityL, identityR, fams.getD 0 [], fams.getD 1 [], fams.getD 2 [], fams.getD 3 [], fams.getD 4 [],
   fams.getD 5 [], fams.getD 6 [], fams.getD 7 [], fams.getD 8 [], fams.getD 9 []⟩

/-- `SpinMolecularOpGraphNodes.get(oplist, connection)`; `oplist` entries are `(site, spin, OID)` -/
def SpinNodes.get (n : SpinNodes) (oplist : List (Int × Int × Int)) (left : Bool) : Except Err (List (Int × Node)) :=
  match oplist with
  | [(i, s, oid)] =>
    if oid == mC then (if left then n.aDagL else n.aDagR).get [i, s]
    else if oid == mA then (if left then n.aAnnL else n.aAnnR).get [i, s]
    else .error .key
  | [(i, s, oid0), (j, t, oid1)] =>
    if oid0 == mC && oid1 == mC then
      let (a, b) := if pLt (j, t) (i, s) then ((j, t), (i, s)) else ((i, s), (j, t))
      (if left then n.aDagADagL else n.aDagADagR).get [a.1, a.2, b.1, b.2]
    else if oid0 == mA && oid1 == mA then
      let (a, b) := if pLt (i, s) (j, t) then ((j, t), (i, s)) else ((i, s), (j, t))
      (if left then n.aAnnAAnnL else n.aAnnAAnnR).get [a.1, a.2, b.1, b.2]
    else if oid0 == mC && oid1 == mA then (if left then n.aDagAAnnL else n.aDagAAnnR).get [i, s, j, t]
    else if oid0 == mA && oid1 == mC then (if left then n.aDagAAnnL else n.aDagAAnnR).get [j, t, i, s]
    else .error .key
  | _ => .error .key

/-- is `(oa, ob)` one of `(C, A)`, `(A, C)` -/
def isCAorAC (oa ob : Int) : Bool := (oa == mC && ob == mA) || (oa == mA && ob == mC)

/-- `SpinOperatorConverter.to_spin_operator(oplist, even_parity_left, even_parity_right)`; entries `(spin, OID)` -/
def toSpinOperator (oplist : List (Int × Int)) (evenL evenR : Bool) : Except Err Int :=
  match sortPairs oplist with
  | [(spin, oid)] =>
    if spin == 0 then pairMapGet (oid, if evenR then mI else mZ)
    else if spin == 1 then pairMapGet (if evenL then mI else mZ, oid)
    else .error .value
  | [(sa, oa), (sb, ob)] =>
    if sa == sb then do
      pyAssert (isCAorAC oa ob)
      if sa == 0 then pure (if evenR then sNI else sNZ)
      else if sa == 1 then pure (if evenL then sIN else sZN)
      else throw Err.value
    else do
      pyAssert (sa == 0 && sb == 1)
      pairMapGet (oa, ob)
  | [(sa, oa), (sb, ob), (sc, oc)] =>
    if sa == 0 && sb == 0 && sc == 1 then do
      pyAssert (isCAorAC oa ob)
      pairMapGet (mN, oc)
    else if sa == 0 && sb == 1 && sc == 1 then do
      pyAssert (isCAorAC ob oc)
      pairMapGet (oa, mN)
    else .error .value
  | [(sa, oa), (sb, ob), (sc, oc), (sd, od)] => do
    pyAssert (sa == 0 && sb == 0 && sc == 1 && sd == 1)
    pyAssert (isCAorAC oa ob)
    pyAssert (isCAorAC oc od)
    pure sNN
  | _ => .error .value

/-- comparison of `(site, spin, OID)` tuples -/
def tripLe (x y : Int × Int × Int) : Bool :=
  x.1 < y.1 || (x.1 == y.1 && (x.2.1 < y.2.1 || (x.2.1 == y.2.1 && x.2.2 ≤ y.2.2)))

def insertTrip (x : Int × Int × Int) : List (Int × Int × Int) → List (Int × Int × Int)
  | [] => [x]
  | y :: ys => if tripLe x y then x :: y :: ys else y :: insertTrip x ys

/-- `sorted(list of (site, spin, OID))` -/
def sortTrips (l : List (Int × Int × Int)) : List (Int × Int × Int) := l.foldr insertTrip []

section
variable {κ : Type} [Add κ] [Mul κ] [Neg κ] [OfNat κ 0] [OfNat κ 1] [DecidableEq κ]

/-- the edge loops of `SpinMolecularOpGraphNodes.generate_graph` -/
def SpinNodes.wire (n : SpinNodes) : GB κ Unit := do
  let L := n.L
  let h := L / 2
  let idL := fun (i : Int) => liftE (κ := κ) (dGet n.identityL i)
  let idR := fun (i : Int) => liftE (κ := κ) (dGet n.identityR i)
  let g2 := fun (f : Fam) (key : List Int) (k : Int) => liftE (κ := κ) (f.get2 key k)
  -- identities connected to left and right terminals
  for i in pyRange 0 (L - 1) do
    addE (← idL i) (← idL (i + 1)) sId 1
  for i in pyRange 1 L do
    addE (← idR i) (← idR (i + 1)) sId 1
  -- a^{\dagger}_{i,\sigma} operators connected to left terminal
  for (i, s) in prodRS 0 (L - 1) do
    addE (← idL i) (← g2 n.aDagL [i, s] (i + 1)) (pick sCZ sIC s) 1
    for j in pyRange (i + 1) (L - 1) do
      addE (← g2 n.aDagL [i, s] j) (← g2 n.aDagL [i, s] (j + 1)) sZZ 1
  -- a_{i,\sigma} operators connected to left terminal
  for (i, s) in prodRS 0 (L - 1) do
    addE (← idL i) (← g2 n.aAnnL [i, s] (i + 1)) (pick sAZ sIA s) 1
    for j in pyRange (i + 1) (L - 1) do
      addE (← g2 n.aAnnL [i, s] j) (← g2 n.aAnnL [i, s] (j + 1)) sZZ 1
  -- a^{\dagger}_{i,\sigma} a^{\dagger}_{j,\tau} operators connected to left terminal
  for (i, s) in prodRS 0 h do
    for (j, t) in prodRS i h do
      if !(pLt (i, s) (j, t)) then continue
      if i < j then
        addE (← g2 n.aDagL [i, s] j) (← g2 n.aDagADagL [i, s, j, t] (j + 1)) (pick sCI sZC t) 1
      else
        liftE (pyAssert (s == 0 && t == 1))
        addE (← idL j) (← g2 n.aDagADagL [i, s, j, t] (j + 1)) sCC 1
      for k in pyRange (j + 1) h do
        addE (← g2 n.aDagADagL [i, s, j, t] k) (← g2 n.aDagADagL [i, s, j, t] (k + 1)) sId 1
  -- a_{i,\sigma} a_{j,\tau} operators connected to left terminal
  for (i, s) in prodRS 0 h do
    for (j, t) in prodRS 0 (i + 1) do
      if !(pLt (j, t) (i, s)) then continue
      if i > j then
        addE (← g2 n.aAnnL [j, t] i) (← g2 n.aAnnAAnnL [i, s, j, t] (i + 1)) (pick sAI sZA s) 1
      else
        liftE (pyAssert (s == 1 && t == 0))
        addE (← idL i) (← g2 n.aAnnAAnnL [i, s, j, t] (i + 1)) sAA 1
      for k in pyRange (i + 1) h do
        addE (← g2 n.aAnnAAnnL [i, s, j, t] k) (← g2 n.aAnnAAnnL [i, s, j, t] (k + 1)) sId 1
  -- a^{\dagger}_{i,\sigma} a_{j,\tau} operators connected to left terminal
  for (i, s) in prodRS 0 h do
    for (j, t) in prodRS 0 h do
      if i < j then
        addE (← g2 n.aDagL [i, s] j) (← g2 n.aDagAAnnL [i, s, j, t] (j + 1)) (pick sAI sZA t) 1
      else if i == j then
        let oid := if s < t then sCA else if s == t then pick sNI sIN s else sAC
        addE (← idL i) (← g2 n.aDagAAnnL [i, s, j, t] (i + 1)) oid 1
      else
        addE (← g2 n.aAnnL [j, t] i) (← g2 n.aDagAAnnL [i, s, j, t] (i + 1)) (pick sCI sZC s) 1
      for k in pyRange (max i j + 1) h do
        addE (← g2 n.aDagAAnnL [i, s, j, t] k) (← g2 n.aDagAAnnL [i, s, j, t] (k + 1)) sId 1
  -- a^{\dagger}_{i,\sigma} operators connected to right terminal
  for (i, s) in prodRS 1 L do
    for j in pyRange 1 i do
      addE (← g2 n.aDagR [i, s] j) (← g2 n.aDagR [i, s] (j + 1)) sZZ 1
    addE (← g2 n.aDagR [i, s] i) (← idR (i + 1)) (pick sCI sZC s) 1
  -- a_{i,\sigma} operators connected to right terminal
  for (i, s) in prodRS 1 L do
    for j in pyRange 1 i do
      addE (← g2 n.aAnnR [i, s] j) (← g2 n.aAnnR [i, s] (j + 1)) sZZ 1
    addE (← g2 n.aAnnR [i, s] i) (← idR (i + 1)) (pick sAI sZA s) 1
  -- a^{\dagger}_{i,\sigma} a^{\dagger}_{j,\tau} operators connected to right terminal
  for (i, s) in prodRS (h + 1) L do
    for (j, t) in prodRS i L do
      if !(pLt (i, s) (j, t)) then continue
      for k in pyRange (h + 1) i do
        addE (← g2 n.aDagADagR [i, s, j, t] k) (← g2 n.aDagADagR [i, s, j, t] (k + 1)) sId 1
      if i < j then
        addE (← g2 n.aDagADagR [i, s, j, t] i) (← g2 n.aDagR [j, t] (i + 1)) (pick sCZ sIC s) 1
      else
        liftE (pyAssert (s == 0 && t == 1))
        addE (← g2 n.aDagADagR [i, s, j, t] i) (← idR (i + 1)) sCC 1
  -- a_{i,\sigma} a_{j,\tau} operators connected to right terminal
  for (i, s) in prodRS (h + 1) L do
    for (j, t) in prodRS (h + 1) (i + 1) do
      if !(pLt (j, t) (i, s)) then continue
      for k in pyRange (h + 1) j do
        addE (← g2 n.aAnnAAnnR [i, s, j, t] k) (← g2 n.aAnnAAnnR [i, s, j, t] (k + 1)) sId 1
      if i > j then
        addE (← g2 n.aAnnAAnnR [i, s, j, t] j) (← g2 n.aAnnR [i, s] (j + 1)) (pick sAZ sIA t) 1
      else
        liftE (pyAssert (s == 1 && t == 0))
        addE (← g2 n.aAnnAAnnR [i, s, j, t] j) (← idR (j + 1)) sAA 1
  -- a^{\dagger}_{i,\sigma} a_{j,\tau} operators connected to right terminal
  for (i, s) in prodRS (h + 1) L do
    for (j, t) in prodRS (h + 1) L do
      for k in pyRange (h + 1) (min i j) do
        addE (← g2 n.aDagAAnnR [i, s, j, t] k) (← g2 n.aDagAAnnR [i, s, j, t] (k + 1)) sId 1
      if i < j then
        addE (← g2 n.aDagAAnnR [i, s, j, t] i) (← g2 n.aAnnR [j, t] (i + 1)) (pick sCZ sIC s) 1
      else if i == j then
        let oid := if s < t then sCA else if s == t then pick sNI sIN s else sAC
        addE (← g2 n.aDagAAnnR [i, s, j, t] i) (← idR (i + 1)) oid 1
      else
        addE (← g2 n.aDagAAnnR [i, s, j, t] j) (← g2 n.aDagR [i, s] (j + 1)) (pick sAZ sIA t) 1

/-- the node list of `generate_graph` (note: not the creation order) -/
def SpinNodes.nodeList (n : SpinNodes) : List Node :=
  n.identityL.map (·.2) ++ n.identityR.map (·.2) ++
  n.aDagL.nodes ++ n.aAnnL.nodes ++ n.aDagR.nodes ++ n.aAnnR.nodes ++
  n.aDagADagL.nodes ++ n.aAnnAAnnL.nodes ++ n.aDagAAnnL.nodes ++
  n.aDagADagR.nodes ++ n.aAnnAAnnR.nodes ++ n.aDagAAnnR.nodes

/-- `SpinMolecularOpGraphNodes.generate_graph` -/
def SpinNodes.generateGraph (n : SpinNodes) : Except Err (Graph κ) := do
  let t0 ← dGet n.identityL 0
  let t1 ← dGet n.identityR n.L
  let g ← Graph.mk' n.nodeList ([] : List (Edge κ)) [t0.nid, t1.nid]
  let (_, (g, _)) ← (n.wire (κ := κ)).run (g, 0)
  pure g

/-- `_spin_molecular_hamiltonian_graph_add_term(graph, nodes, oplist, coeff)` -/
def spinAddTerm (g : Graph κ) (n : SpinNodes) (oplist : List (Int × Int × Int)) (coeff : κ) : Except Err (Graph κ) := do
  let eid ← match maxInt? (dKeys g.edges) with
    | some m => pure (m + 1)
    | none => throw Err.value
  let L := n.L
  let h := L / 2
  let add := fun (n0 n1 : Node) (oid : Int) => g.addConnectEdge (Edge.mk' eid (n0.nid, n1.nid) [(oid, coeff)])
  match sortTrips oplist with
  | [o0, o1] =>
    let (i, s, oid0) := o0
    let (j, t, oid1) := o1
    if i == j then do
      let so ← toSpinOperator [(s, oid0), (t, oid1)] true true
      add (← dGet n.identityL i) (← dGet n.identityR (i + 1)) so
    else do
      pyAssert (decide (i < j))
      if j ≤ h then do
        let nl ← n.get [o0] true
        let so ← toSpinOperator [(t, oid1)] false true
        add (← dGet nl j) (← dGet n.identityR (j + 1)) so
      else if i ≥ h then do
        let nr ← n.get [o1] false
        let so ← toSpinOperator [(s, oid0)] true false
        add (← dGet n.identityL i) (← dGet nr (i + 1)) so
      else do
        let nl ← n.get [o0] true
        let nr ← n.get [o1] false
        add (← dGet nl h) (← dGet nr (h + 1)) sZZ
  | [o0, o1, o2, o3] =>
    let (i, s, oid0) := o0
    let (j, t, oid1) := o1
    let (k, m, oid2) := o2
    let (l, u, oid3) := o3
    if i == j && j == k && k == l then do
      let so ← toSpinOperator [(s, oid0), (t, oid1), (m, oid2), (u, oid3)] true true
      add (← dGet n.identityL i) (← dGet n.identityR (i + 1)) so
    else if i == j && j == k then do
      let nr ← n.get [o3] false
      let so ← toSpinOperator [(s, oid0), (t, oid1), (m, oid2)] true false
      add (← dGet n.identityL i) (← dGet nr (i + 1)) so
    else if j == k && k == l then do
      let nl ← n.get [o0] true
      let so ← toSpinOperator [(t, oid1), (m, oid2), (u, oid3)] false true
      add (← dGet nl j) (← dGet n.identityR (j + 1)) so
    else if j == k then do
      let nl ← n.get [o0] true
      let nr ← n.get [o3] false
      let so ← toSpinOperator [(t, oid1), (m, oid2)] false false
      add (← dGet nl j) (← dGet nr (j + 1)) so
    else if k ≤ h then do
      let nl ← n.get [o0, o1] true
      if k == l then do
        let so ← toSpinOperator [(m, oid2), (u, oid3)] true true
        add (← dGet nl k) (← dGet n.identityR (k + 1)) so
      else do
        let nr ← n.get [o3] false
        let so ← toSpinOperator [(m, oid2)] true false
        add (← dGet nl k) (← dGet nr (k + 1)) so
    else if j ≥ h then do
      let nr ← n.get [o2, o3] false
      if i == j then do
        let so ← toSpinOperator [(s, oid0), (t, oid1)] true true
        add (← dGet n.identityL j) (← dGet nr (j + 1)) so
      else do
        let nl ← n.get [o0] true
        let so ← toSpinOperator [(t, oid1)] false true
        add (← dGet nl j) (← dGet nr (j + 1)) so
    else do
      let nl ← n.get [o0, o1] true
      let nr ← n.get [o2, o3] false
      add (← dGet nl h) (← dGet nr (h + 1)) sId
  | _ => .error .runtime

/-- the graph of `spin_molecular_hamiltonian_mpo(tkin, vint, optimize=False)` handed to `MPO.from_opgraph` -/
def spinMolExplicitGraph (c : Consts κ) (tkin : List (List κ)) (vint : List (List (List (List κ)))) :
    Except Err (SpinNodes × Graph κ) := do
  let L : Int := tkin.length
  pyAssert (decide (L ≥ 2))
  let nodes := SpinNodes.init L
  let g ← nodes.generateGraph (κ := κ)
  -- kinetic hopping terms
  let g ← ((pyRange 0 L).flatMap fun i => (pyRange 0 L).flatMap fun j => [(i, j, (0 : Int)), (i, j, 1)]).foldlM
    (fun g (q : Int × Int × Int) =>
      let (i, j, s) := q
      spinAddTerm g nodes [(i, s, mC), (j, s, mA)] (t2 tkin i j)) g
  -- interaction terms
  let cands := (prodRS 0 L).flatMap fun (i, s) =>
    ((prodRS i L).filter fun jt => pLt (i, s) jt).flatMap fun (j, t) =>
      (prodRS 0 L).flatMap fun (k, m) =>
        ((prodRS k L).filter fun lu => pLt (k, m) lu).map fun (l, u) => ((i, s), (j, t), (k, m), (l, u))
  let g ← cands.foldlM (fun g (q : (Int × Int) × (Int × Int) × (Int × Int) × (Int × Int)) =>
      let ((i, s), (j, t), (k, m), (l, u)) := q
      let (coeff, valid) := getVintCoeff c vint (i, j, k, l) (s, t, m, u)
      if !valid then pure g
      else spinAddTerm g nodes [(i, s, mC), (j, t, mC), (l, u, mA), (k, m, mA)] coeff) g
  pure (nodes, g)

/-- `spin_molecular_hamiltonian_mpo(tkin, vint, optimize=False)` -/
def spinMolBuildExplicit (c : Consts κ) (tkin : List (List κ)) (vint : List (List (List (List κ)))) :
    Except Err (SpinNodes × Built κ) := do
  pyAssert (shapesOk tkin vint)
  let L : Int := tkin.length
  let (nodes, graph) ← spinMolExplicitGraph c tkin vint
  if L ≤ 10 then pyAssert graph.isConsistent
  let mpo ← fromOpgraph spinQd graph spinMolOpmap true
  pure (nodes, ⟨spinQd, spinMolOpmap, graph, mpo⟩)

end
end Ptn.Ham

import PtnModel.Model.Symbolic
import PtnModel.Model.OpChain
/-!
# Model of `pytenet/optree.py`

An `OpTreeNode` is a quantum number and a list of `OpTreeEdge`s (operator id, coefficient, child node).
`height`, `as_matrix` (`_subtree_as_matrix` with its `kron`-padding of subtrees of unequal height)
and the symbolic meaning (sum over root-to-leaf paths).
-/
namespace Ptn.Og

inductive TNode (κ : Type) where
  | mk (qnum : Int) (children : List (Int × κ × TNode κ))

def TNode.qnum {κ} : TNode κ → Int
  | .mk q _ => q

def TNode.children {κ} : TNode κ → List (Int × κ × TNode κ)
  | .mk _ c => c

def TNode.isLeaf {κ} (t : TNode κ) : Bool := t.children.isEmpty

/-- `OpTree` -/
structure OpTree (κ : Type) where
  root : TNode κ
  istart : Int

section
variable {κ : Type} [Add κ] [Mul κ] [OfNat κ 0] [OfNat κ 1] [DecidableEq κ]

mutual
/-- `_subtree_height` -/
def TNode.height : TNode κ → Nat
  | .mk _ [] => 0
  | .mk _ (c :: cs) => 1 + childrenMaxHeight (c :: cs)
/-- `max(_subtree_height(child.node) for child in children)` (0 for the empty list) -/
def childrenMaxHeight : List (Int × κ × TNode κ) → Nat
  | [] => 0
  | (_, _, t) :: cs => max t.height (childrenMaxHeight cs)
end

mutual
/-- symbolic meaning of a subtree: sum over all paths from this node to a leaf (raw, not normalised);
a leaf is the empty product. -/
def TNode.paths : TNode κ → Sym κ
  | .mk _ [] => [([], 1)]
  | .mk _ (c :: cs) => childrenPaths (c :: cs)
def childrenPaths : List (Int × κ × TNode κ) → Sym κ
  | [] => []
  | (oid, c, t) :: cs => (t.paths.map fun p => (oid :: p.1, c * p.2)) ++ childrenPaths cs
end

/-- pad a 2-dimensional operator on the right: `kron(op, identity(m))` -/
def padRight (op : Mat κ) (m : Nat) : Mat κ := Mat.kron op (Mat.identity m)

mutual
/-- `_subtree_as_matrix(node, opmap)`: a leaf is the empty product (the 1×1 identity) -/
def TNode.asMatrix (opmap : OpMap κ) : TNode κ → Except Err (Mat κ)
  | .mk _ [] => .ok (Mat.identity 1)
  | .mk _ (c :: cs) => childrenAsMatrix opmap (c :: cs) (Mat.zero 1 1)
/-- the `for edge in node.children` loop with accumulator `op_sum` -/
def childrenAsMatrix (opmap : OpMap κ) : List (Int × κ × TNode κ) → Mat κ → Except Err (Mat κ)
  | [], opSum => .ok opSum
  | (oid, c, t) :: cs, opSum => do
    let opSub ← TNode.asMatrix opmap t
    let m ← opmap.get oid
    let op := Mat.kron (Mat.scale c m) opSub
    -- subtrees can have different heights
    if opSum.length < op.length then do
      pyAssert (op.length % opSum.length == 0)
      childrenAsMatrix opmap cs (Mat.add (padRight opSum (op.length / opSum.length)) op)
    else if op.length < opSum.length then do
      pyAssert (opSum.length % op.length == 0)
      childrenAsMatrix opmap cs (Mat.add opSum (padRight op (opSum.length / op.length)))
    else
      childrenAsMatrix opmap cs (Mat.add opSum op)
end

/-- `OpTree.as_matrix` -/
def OpTree.asMatrix (t : OpTree κ) (opmap : OpMap κ) : Except Err (Mat κ) := t.root.asMatrix opmap

/-- symbolic meaning of a tree on `length` sites: every root-to-leaf path, padded with identities
before the start site and after its leaf (raw) -/
def denTreeRaw (t : OpTree κ) (length : Int) (oidIdentity : Int) : Sym κ :=
  t.root.paths.map fun p =>
    (pyRepeat t.istart oidIdentity ++ p.1 ++ pyRepeat (length - t.istart - (p.1.length : Int)) oidIdentity, p.2)

def denTreesRaw (ts : List (OpTree κ)) (length : Int) (oidIdentity : Int) : Sym κ :=
  ts.flatMap fun t => denTreeRaw t length oidIdentity

def denTrees (ts : List (OpTree κ)) (length : Int) (oidIdentity : Int) : Sym κ :=
  symNormalize (denTreesRaw ts length oidIdentity)

/-- the bare tree: paths padded after their leaf up to the tree height (the meaning of `as_matrix`
when `oidIdentity` is mapped to the identity matrix) -/
def denTreeBare (t : TNode κ) (oidIdentity : Int) : Sym κ :=
  t.paths.map fun p => (p.1 ++ List.replicate (t.height - p.1.length) oidIdentity, p.2)

end
end Ptn.Og

import PtnModel.Model.MPS
/-!
# Model of `pytenet/mpo.py` (without `from_opgraph`, which lives with the operator-graph model)

An MPO is `(qd, qD, A)` with `A[i] : T4` of shape `(d, d, D_i, D_{i+1})` (`f s t a b`).
-/
namespace Ptn

structure MPO (α : Type) where
  qd : List Int
  qD : List (List Int)
  A : List (T4 α)

namespace MPO
open BondOps

section
variable {α : Type} [OfNat α 0] [OfNat α 1] [Add α] [Mul α] [Neg α] [DecidableEq α]

def ones1111 : T4 α := ⟨1, 1, 1, 1, fun _ _ _ _ => 1⟩

/-- `A.reshape((s0*s1*s2, s3))` -/
def flattenLeft (A : T4 α) : Mat α :=
  ⟨A.d0 * A.d1 * A.d2, A.d3, fun r c => A.f (r / (A.d1 * A.d2)) (r / A.d2 % A.d1) (r % A.d2) c⟩

/-- `Q.reshape((d0, d1, d2, Q.n))` -/
def ofFlattenLeft (M : Mat α) (d0 d1 d2 : Nat) : T4 α := ⟨d0, d1, d2, M.n, fun s t a p => M.f ((s * d1 + t) * d2 + a) p⟩

/-- `A.transpose((0, 1, 3, 2))` -/
def swap23 (A : T4 α) : T4 α := ⟨A.d0, A.d1, A.d3, A.d2, fun s t a b => A.f s t b a⟩

/-- `local_orthonormalize_left_qr` of mpo.py -/
def localOrthoLeftQr (dqr : Mat α → Mat α × Mat α) (A Anext : T4 α) (qd qD0 qD1 : List Int) :
    Except Err (T4 α × T4 α × List Int) := do
  let q0 := QN.flatten3 qd (QN.neg qd) qD0
  let (Q, R, qbond) ← qr dqr (flattenLeft A).tab q0 qD1
  let A' := (ofFlattenLeft Q A.d0 A.d1 A.d2).tab
  if R.n ≠ Anext.d2 then throw .value
  -- np.tensordot(R, Anext, (1, 2)).transpose((1, 2, 0, 3))
  let Anext' : T4 α := ⟨Anext.d0, Anext.d1, R.m, Anext.d3, fun s t p c => sumRange R.n fun b => R.f p b * Anext.f s t b c⟩
  return (A', Anext'.tab, qbond)

/-- `local_orthonormalize_right_qr` of mpo.py -/
def localOrthoRightQr (dqr : Mat α → Mat α × Mat α) (A Aprev : T4 α) (qd qD0 qD1 : List Int) :
    Except Err (T4 α × T4 α × List Int) := do
  let At := swap23 A
  let q0 := QN.flatten3 qd (QN.neg qd) (QN.neg qD1)
  let (Q, R, qbond) ← qr dqr (flattenLeft At).tab q0 (QN.neg qD0)
  let A' := (swap23 (ofFlattenLeft Q At.d0 At.d1 At.d2)).tab
  if R.n ≠ Aprev.d3 then throw .value
  -- np.tensordot(Aprev, R, (3, 1))
  let Aprev' : T4 α := ⟨Aprev.d0, Aprev.d1, Aprev.d2, R.m, fun s t a p => sumRange R.n fun b => Aprev.f s t a b * R.f p b⟩
  return (A', Aprev'.tab, QN.neg qbond)

def sweepLeftQr (dqr : Mat α → Mat α × Mat α) (qd : List Int) :
    T4 α → List Int → List (T4 α) → List (List Int) → Except Err (List (T4 α) × List (List Int) × T4 α)
  | A, qL, [], [qR] => do
      let (A', T, qb) ← localOrthoLeftQr dqr A ones1111 qd qL qR
      return ([A'], [qb], T)
  | A, qL, Anext :: rest, qR :: qRest => do
      let (A', Anext', qb) ← localOrthoLeftQr dqr A Anext qd qL qR
      let (As, qs, T) ← sweepLeftQr dqr qd Anext' qb rest qRest
      return (A' :: As, qb :: qs, T)
  | _, _, _, _ => .error .index

def sweepRightQr (dqr : Mat α → Mat α × Mat α) (qd : List Int) :
    T4 α → List Int → List (T4 α) → List (List Int) → Except Err (List (T4 α) × List (List Int) × T4 α)
  | A, qR, [], [qL] => do
      let (A', T, qb) ← localOrthoRightQr dqr A ones1111 qd qL qR
      return ([A'], [qb], T)
  | A, qR, Aprev :: rest, qL :: qRest => do
      let (A', Aprev', qb) ← localOrthoRightQr dqr A Aprev qd qL qR
      let (As, qs, T) ← sweepRightQr dqr qd Aprev' qb rest qRest
      return (A' :: As, qb :: qs, T)
  | _, _, _, _ => .error .index

def negT4 (A : T4 α) : T4 α := ⟨A.d0, A.d1, A.d2, A.d3, fun i j k l => -(A.f i j k l)⟩

variable {ρ : Type} [RealLike ρ α] [OfNat ρ 0] [OfNat ρ 1] [Neg ρ] [LT ρ] [DecidableLT ρ]

/-- `MPO.orthonormalize(mode)` -/
def orthonormalize (dqr : Mat α → Mat α × Mat α) (o : MPO α) (left : Bool) : Except Err (MPO α × ρ) :=
  match o.A, o.qD with
  | [], _ => .ok (o, 1)
  | A0 :: rest, qD =>
    if left then
      match qD with
      | q0 :: qrest => do
        let (As, qs, T) ← sweepLeftQr dqr o.qd A0 q0 rest qrest
        pyAssert (T.d0 == 1 && T.d1 == 1 && T.d2 == 1 && T.d3 == 1)
        let nrm : ρ := RealLike.re (T.f 0 0 0 0)
        let n := As.length
        if nrm < 0 then
          return ({ o with A := As.take (n - 1) ++ (As.drop (n - 1)).map negT4, qD := q0 :: qs }, -nrm)
        else
          return ({ o with A := As, qD := q0 :: qs }, nrm)
      | [] => .error .index
    else
      match (A0 :: rest).reverse, qD.reverse with
      | Al :: rrest, ql :: qrrest => do
        let (As, qs, T) ← sweepRightQr dqr o.qd Al ql rrest qrrest
        pyAssert (T.d0 == 1 && T.d1 == 1 && T.d2 == 1 && T.d3 == 1)
        let nrm : ρ := RealLike.re (T.f 0 0 0 0)
        let n := As.length
        let As' := if nrm < 0 then As.take (n - 1) ++ (As.drop (n - 1)).map negT4 else As
        return ({ o with A := As'.reverse, qD := (ql :: qs).reverse }, if nrm < 0 then -nrm else nrm)
      | _, _ => .error .index

/-- `merge_mpo_tensor_pair(A0, A1)` -/
def mergePair (A0 A1 : T4 α) : T4 α :=
  ⟨A0.d0 * A1.d0, A0.d1 * A1.d1, A0.d2, A1.d3, fun s t a c =>
    sumRange A0.d3 fun b => A0.f (s / A1.d0) (t / A1.d1) a b * A1.f (s % A1.d0) (t % A1.d1) b c⟩

/-- `MPO.as_matrix()` (dense path) -/
def asMatrix (o : MPO α) : Except Err (Mat α) :=
  match o.A with
  | [] => .error .index
  | A0 :: rest => do
    let P := rest.foldl (fun acc A => (mergePair acc A).tab) A0
    pyAssert (P.d2 == 1 && P.d3 == 1)
    return ⟨P.d0, P.d1, fun s t => P.f s t 0 0⟩

/-- matrix element at digit lists `(s, t)`: `(∏ A_k[s_k, t_k])₀₀`. -/
def elemRow : List (T4 α) → List Nat → List Nat → (Nat → α) → (Nat → α)
  | A :: As, s :: ss, t :: ts, v => elemRow As ss ts (fun b => sumRange A.d2 fun a => v a * A.f s t a b)
  | _, _, _, v => v

def elem (o : MPO α) (s t : List Nat) : α := elemRow o.A s t (fun a => if a = 0 then 1 else 0) 0

end

section construct
variable {α : Type} [OfNat α 0] [OfNat α 1] [Mul α]

/-- `MPO(qd, qD, fill=x)` -/
def filled (qd : List Int) (qD : List (List Int)) (x : α) : Except Err (MPO α) := do
  if qD.isEmpty then throw .index
  let d := qd.length
  let As := (List.range (qD.length - 1)).map fun i =>
    let qa := qD.getD i []; let qb := qD.getD (i + 1) []
    (⟨d, d, qa.length, qb.length, fun s t a b =>
      if qd.getD s 0 - qd.getD t 0 + qa.getD a 0 - qb.getD b 0 = 0 then x else 0⟩ : T4 α)
  return ⟨qd, qD, As⟩

/-- `MPO.identity(qd, L, scale)` -/
def identity (qd : List Int) (L : Nat) (scale : α) : MPO α :=
  let d := qd.length
  ⟨qd, List.replicate (L + 1) [0], List.replicate L ⟨d, d, 1, 1, fun s t _ _ => if s = t then scale * 1 else scale * 0⟩⟩

def wellFormed [DecidableEq α] (o : MPO α) : Bool :=
  o.qD.length == o.A.length + 1 &&
  (List.range o.A.length).all fun i =>
    match o.A[i]? with
    | none => false
    | some A =>
      let qa := o.qD.getD i []; let qb := o.qD.getD (i + 1) []
      A.d0 == o.qd.length && A.d1 == o.qd.length && A.d2 == qa.length && A.d3 == qb.length && QN.isSparseT4 A o.qd qa qb

end construct

section arith
variable {α : Type} [OfNat α 0] [Add α] [Mul α] [DecidableEq α]

def catLast (X Y : T4 α) : T4 α := ⟨X.d0, X.d1, X.d2, X.d3 + Y.d3, fun s t a b => if b < X.d3 then X.f s t a b else Y.f s t a (b - X.d3)⟩
def catMid (X Y : T4 α) : T4 α := ⟨X.d0, X.d1, X.d2 + Y.d2, X.d3, fun s t a b => if a < X.d2 then X.f s t a b else Y.f s t (a - X.d2) b⟩
def blockDiag (X Y : T4 α) : T4 α :=
  ⟨X.d0, X.d1, X.d2 + Y.d2, X.d3 + Y.d3, fun s t a b =>
    if a < X.d2 then (if b < X.d3 then X.f s t a b else 0) else (if b < X.d3 then 0 else Y.f s t (a - X.d2) (b - X.d3))⟩
def scaleT4 (c : α) (X : T4 α) : T4 α := ⟨X.d0, X.d1, X.d2, X.d3, fun s t a b => c * X.f s t a b⟩

def addInterior : List (T4 α) → List (T4 α) → Except Err (List (T4 α))
  | [X], [Y] => if X.d0 = Y.d0 ∧ X.d1 = Y.d1 ∧ X.d3 = Y.d3 then .ok [(catMid X Y).tab] else .error .value
  | X :: Xs, Y :: Ys => do
      if X.d0 ≠ Y.d0 ∨ X.d1 ≠ Y.d1 then throw .value
      let r ← addInterior Xs Ys
      return (blockDiag X Y).tab :: r
  | _, _ => .error .index

/-- `add_mpo(op0, op1, alpha)` -/
def add (o0 o1 : MPO α) (alpha : α) : Except Err (MPO α) := do
  pyAssert (o0.A.length == o1.A.length)
  pyAssert (o0.qd == o1.qd)
  let L := o0.A.length
  match o0.A, o1.A with
  | [], _ => return ⟨o0.qd, [[0]], []⟩
  | [X], [Y] =>
    pyAssert (o0.qD.getD 0 [] == o1.qD.getD 0 [])
    pyAssert (o0.qD.getD 1 [] == o1.qD.getD 1 [])
    if X.d0 ≠ Y.d0 ∨ X.d1 ≠ Y.d1 ∨ X.d2 ≠ Y.d2 ∨ X.d3 ≠ Y.d3 then throw .value
    let A : T4 α := ⟨X.d0, X.d1, X.d2, X.d3, fun s t a b => X.f s t a b + alpha * Y.f s t a b⟩
    let qa := o0.qD.getD 0 []; let qb := o0.qD.getD 1 []
    pyAssert (QN.isSparseT4 A o0.qd qa qb)
    return ⟨o0.qd, [qa, qb], [A.tab]⟩
  | X :: Xs, Y :: Ys =>
    pyAssert (o0.qD.getD 0 [] == o1.qD.getD 0 [])
    pyAssert (o0.qD.getD L [] == o1.qD.getD L [])
    let qD := (List.range (L + 1)).map fun i =>
      if i = 0 ∨ i = L then o0.qD.getD i [] else o0.qD.getD i [] ++ o1.qD.getD i []
    if X.d0 ≠ Y.d0 ∨ X.d1 ≠ Y.d1 ∨ X.d2 ≠ Y.d2 then throw .value
    let first := (catLast X (scaleT4 alpha Y)).tab
    let rest ← addInterior Xs Ys
    let As := first :: rest
    for i in List.range L do
      if i ≥ 1 then
        match As[i]? with
        | some A => pyAssert (QN.isSparseT4 A o0.qd (qD.getD i []) (qD.getD (i + 1) []))
        | none => throw .index
    return ⟨o0.qd, qD, As⟩
  | _, _ => throw .index

/-- `multiply_mpo(op0, op1)` -/
def multiply (o0 o1 : MPO α) : Except Err (MPO α) := do
  pyAssert (o0.A.length == o1.A.length)
  pyAssert (o0.qd == o1.qd)
  let L := o0.A.length
  let qD := (List.range (L + 1)).map fun i => QN.flatten2 (o0.qD.getD i []) (o1.qD.getD i [])
  let mut As : List (T4 α) := []
  for i in List.range L do
    match o0.A[i]?, o1.A[i]? with
    | some X, some Y =>
      if X.d1 ≠ Y.d0 then throw .value
      let A : T4 α := ⟨X.d0, Y.d1, X.d2 * Y.d2, X.d3 * Y.d3, fun s t a b =>
        sumRange X.d1 fun u => X.f s u (a / Y.d2) (b / Y.d3) * Y.f u t (a % Y.d2) (b % Y.d3)⟩
      let A := A.tab
      pyAssert (QN.isSparseT4 A o0.qd (qD.getD i []) (qD.getD (i + 1) []))
      As := As ++ [A]
    | _, _ => throw .index
  return ⟨o0.qd, qD, As⟩

end arith
end MPO
end Ptn

import PtnModel.Model.Basic
/-!
# Model of `pytenet/bipartite_graph.py`

`BipartiteGraph.__init__`, `HopcroftKarp` (BFS `__connect_unmatched_vertices`,
DFS `__add_augmenting_path`, the phase loop `__call__`), `minimum_vertex_cover`
and `_explore_alternating_paths`.

Conventions: vertices are `Nat`; the NIL vertex `-1` of the Python code is `none`
(`Option Nat`) in `mu`/`mv`, and the `dist` dictionary (keys `0..num_u-1` and `-1`)
is the pair `du : List Nat`, `dnil : Nat`.  `while` loops and recursions take fuel;
`Err.fuel` is returned if it runs out (never a Python outcome).
-/
namespace Ptn.Bip

structure BGraph where
  numU : Nat
  numV : Nat
  adjU : List (List Nat)
  adjV : List (List Nat)
  deriving Repr, DecidableEq

/-- `adj[u].append(v)` unless present. -/
def addAdj (adj : List (List Nat)) (u v : Nat) : List (List Nat) :=
  adj.modify u (fun l => if l.contains v then l else l ++ [v])

/-- `BipartiteGraph.__init__` (edges as given by the caller, possibly out of range / negative / duplicated). -/
def BGraph.mk' (numU numV : Int) (edges : List (Int × Int)) : Except Err BGraph := do
  pyAssert (decide (numU ≥ 1))
  pyAssert (decide (numV ≥ 1))
  let nu := numU.toNat
  let nv := numV.toNat
  let init : BGraph := ⟨nu, nv, List.replicate nu [], List.replicate nv []⟩
  edges.foldlM (fun g (e : Int × Int) => do
    pyAssert (decide (0 ≤ e.1 ∧ e.1 < numU))
    pyAssert (decide (0 ≤ e.2 ∧ e.2 < numV))
    let u := e.1.toNat
    let v := e.2.toNat
    pure { g with adjU := addAdj g.adjU u v, adjV := addAdj g.adjV v u }) init

/-- Mutable state of a `HopcroftKarp` object. -/
structure HK where
  mu : List (Option Nat)      -- matched_pairs_u  (none = NIL = -1)
  mv : List (Option Nat)      -- matched_pairs_v
  du : List Nat               -- dist[u], u < num_u
  dnil : Nat                  -- dist[-1]
  deriving Repr, DecidableEq

def HK.init (g : BGraph) : HK :=
  ⟨List.replicate g.numU none, List.replicate g.numV none, List.replicate g.numU 0, 0⟩

/-- `self.dist[x]` for `x` a vertex of `U` or NIL. -/
def HK.dist (s : HK) : Option Nat → Nat
  | none => s.dnil
  | some u => s.du.getD u 0

def HK.setDist (s : HK) (x : Option Nat) (d : Nat) : HK :=
  match x with
  | none => { s with dnil := d }
  | some u => { s with du := s.du.set u d }

/-- `self.matched_pairs_v[v]` -/
def HK.mateV (s : HK) (v : Nat) : Option Nat := (s.mv.getD v none)

def infDist (g : BGraph) : Nat := g.numU + 1

/-- Initialisation part of the BFS: distances of free vertices 0 and enqueue, others `inf`. -/
def bfsInit (g : BGraph) (s : HK) : HK × List (Option Nat) :=
  let inf := infDist g
  let (du, q) := (List.range g.numU).foldl
    (fun (acc : List Nat × List (Option Nat)) u =>
      if (s.mu.getD u none).isNone then (acc.1 ++ [0], acc.2 ++ [some u]) else (acc.1 ++ [inf], acc.2))
    ([], [])
  ({ s with du := du, dnil := inf }, q)

/-- Inner `for v in adj_u[u]` loop of the BFS. -/
def bfsNeighbours (g : BGraph) (u : Nat) : List Nat → HK → List (Option Nat) → HK × List (Option Nat)
  | [], s, q => (s, q)
  | v :: vs, s, q =>
    let x := s.mateV v
    if s.dist x = infDist g then
      bfsNeighbours g u vs (s.setDist x (s.dist (some u) + 1)) (q ++ [x])
    else
      bfsNeighbours g u vs s q

/-- `while not queue.empty()` loop of the BFS. -/
def bfsLoop (g : BGraph) : Nat → HK → List (Option Nat) → Except Err HK
  | _, s, [] => .ok s
  | 0, _, _ :: _ => .error .fuel
  | fuel + 1, s, x :: q =>
    if s.dist x < s.dnil then
      match x with
      | some u =>
        let (s', q') := bfsNeighbours g u (g.adjU.getD u []) s q
        bfsLoop g fuel s' q'
      | none => bfsLoop g fuel s q     -- unreachable: dist[-1] < dist[-1] is false
    else bfsLoop g fuel s q

def bfsFuel (g : BGraph) : Nat := (g.numU + 2) * (g.numU + 2) + g.numU * g.numV + 2

/-- `__connect_unmatched_vertices`: returns the new state and whether NIL was reached. -/
def connectUnmatched (g : BGraph) (s : HK) : Except Err (HK × Bool) := do
  let (s0, q) := bfsInit g s
  let s1 ← bfsLoop g (bfsFuel g) s0 q
  pure (s1, s1.dnil != infDist g)

mutual
/-- `__add_augmenting_path(u)` for `u` a vertex of `U` or NIL. -/
def dfs (g : BGraph) : Nat → Option Nat → HK → Except Err (HK × Bool)
  | _, none, s => .ok (s, true)
  | 0, some _, _ => .error .fuel
  | fuel + 1, some u, s => dfsNeighbours g fuel u (g.adjU.getD u []) s
/-- the `for v in adj_u[u]` loop of the DFS (with the trailing `dist[u] = inf; return False`). -/
def dfsNeighbours (g : BGraph) : Nat → Nat → List Nat → HK → Except Err (HK × Bool)
  | _, u, [], s => .ok (s.setDist (some u) (infDist g), false)
  | fuel, u, v :: vs, s =>
    if s.dist (s.mateV v) = s.dist (some u) + 1 then
      match dfs g fuel (s.mateV v) s with
      | .error e => .error e
      | .ok (s', true) => .ok ({ s' with mv := s'.mv.set v (some u), mu := s'.mu.set u (some v) }, true)
      | .ok (s', false) => dfsNeighbours g fuel u vs s'
    else dfsNeighbours g fuel u vs s
end

def dfsFuel (g : BGraph) : Nat := g.numU + 3

/-- `for u in range(num_u): if matched_pairs_u[u] == -1: add_augmenting_path(u)` -/
def augmentAll (g : BGraph) : List Nat → HK → Except Err HK
  | [], s => .ok s
  | u :: us, s =>
    if (s.mu.getD u none).isNone then
      match dfs g (dfsFuel g) (some u) s with
      | .error e => .error e
      | .ok (s', _) => augmentAll g us s'
    else augmentAll g us s

/-- outer `while self.__connect_unmatched_vertices()` loop. -/
def phaseLoop (g : BGraph) : Nat → HK → Except Err HK
  | 0, _ => .error .fuel
  | fuel + 1, s =>
    match connectUnmatched g s with
    | .error e => .error e
    | .ok (s1, false) => .ok s1
    | .ok (s1, true) =>
      match augmentAll g (List.range g.numU) s1 with
      | .error e => .error e
      | .ok s2 => phaseLoop g fuel s2

def phaseFuel (g : BGraph) : Nat := g.numU + 2

def matchingOf (s : HK) : List (Nat × Nat) :=
  (List.range s.mu.length).filterMap (fun u => (s.mu.getD u none).map (fun v => (u, v)))

/-- `HopcroftKarp.__call__`: final internal state. -/
def hopcroftKarpState (g : BGraph) : Except Err HK := phaseLoop g (phaseFuel g) (HK.init g)

/-- `HopcroftKarp.__call__` -/
def hopcroftKarp (g : BGraph) : Except Err (List (Nat × Nat)) := do
  let s ← hopcroftKarpState g
  pure (matchingOf s)

mutual
/-- `_explore_alternating_paths(u_start, …)`; returns the updated `(u_visited, v_visited)`. -/
def explore (g : BGraph) (m : List (Nat × Nat)) : Nat → Nat → List Nat × List Nat → Except Err (List Nat × List Nat)
  | 0, _, _ => .error .fuel
  | fuel + 1, u, (uvis, vvis) =>
    if uvis.contains u then .ok (uvis, vvis)
    else exploreV g m fuel u (g.adjU.getD u []) (uvis ++ [u], vvis)
/-- `for v in graph.adj_u[u_start]` -/
def exploreV (g : BGraph) (m : List (Nat × Nat)) : Nat → Nat → List Nat → List Nat × List Nat → Except Err (List Nat × List Nat)
  | _, _, [], st => .ok st
  | fuel, u, v :: vs, (uvis, vvis) =>
    if !(m.contains (u, v)) then
      if vvis.contains v then exploreV g m fuel u vs (uvis, vvis)
      else
        match exploreU g m fuel v (g.adjV.getD v []) (uvis, vvis ++ [v]) with
        | .error e => .error e
        | .ok st' => exploreV g m fuel u vs st'
    else exploreV g m fuel u vs (uvis, vvis)
/-- `for u in graph.adj_v[v]` -/
def exploreU (g : BGraph) (m : List (Nat × Nat)) : Nat → Nat → List Nat → List Nat × List Nat → Except Err (List Nat × List Nat)
  | _, _, [], st => .ok st
  | fuel, v, u :: us, st =>
    if m.contains (u, v) then
      match explore g m fuel u st with
      | .error e => .error e
      | .ok st' => exploreU g m fuel v us st'
    else exploreU g m fuel v us st
end

def exploreFuel (g : BGraph) : Nat := g.numU + 2

/-- insertion sort of a duplicate-free list of naturals (`sorted(list(set))`). -/
def sortNat (l : List Nat) : List Nat := l.foldl (fun acc x => (acc.filter (· < x)) ++ [x] ++ (acc.filter (fun y => decide (x < y)))) []

/-- `minimum_vertex_cover` -/
def minimumVertexCover (g : BGraph) : Except Err (List Nat × List Nat) := do
  let m ← hopcroftKarp g
  let alist := (List.range g.numU).filter (fun u => !(m.any (fun p => p.1 == u)))
  let (ucover, vcover) ← alist.foldlM (fun (acc : List Nat × List Nat) u => do
      let (uvis, vvis) ← explore g m (exploreFuel g) u ([], [])
      pure (acc.1.filter (fun x => !(uvis.contains x)), acc.2 ++ vvis.filter (fun x => !(acc.2.contains x))))
    (List.range g.numU, [])
  pyAssert (ucover.length + vcover.length == m.length)
  pure (sortNat ucover, sortNat vcover)

end Ptn.Bip

import PtnModel.Model.BondOps
/-!
# Model of `pytenet/mps.py`

An MPS is `(qd, qD, A)` with `A[i] : T3` of shape `(d, D_i, D_{i+1})` (`f s a b`).
In-place methods of the Python class return the updated object here.
-/
namespace Ptn

structure MPS (α : Type) where
  qd : List Int
  qD : List (List Int)
  A : List (T3 α)

namespace MPS
open BondOps

section
variable {α : Type} [OfNat α 0] [OfNat α 1] [Add α] [Mul α] [Neg α] [DecidableEq α]

/-- `np.array([[[1]]])` -/
def ones111 : T3 α := ⟨1, 1, 1, fun _ _ _ => 1⟩

/-- `local_orthonormalize_left_qr(A, Anext, qd, [qD0, qD1])` -/
def localOrthoLeftQr (dqr : Mat α → Mat α × Mat α) (A Anext : T3 α) (qd qD0 qD1 : List Int) :
    Except Err (T3 α × T3 α × List Int) := do
  let q0 := QN.flatten2 qd qD0
  let (Q, R, qbond) ← qr dqr A.flattenLeft.tab q0 qD1
  let A' := (T3.ofFlattenLeft Q A.d0 A.d1).tab
  -- np.tensordot(R, Anext, (1, 1)).transpose((1, 0, 2))
  if R.n ≠ Anext.d1 then throw .value
  let Anext' : T3 α := ⟨Anext.d0, R.m, Anext.d2, fun s p c => sumRange R.n fun b => R.f p b * Anext.f s b c⟩
  return (A', Anext'.tab, qbond)

/-- `local_orthonormalize_right_qr(A, Aprev, qd, [qD0, qD1])` -/
def localOrthoRightQr (dqr : Mat α → Mat α × Mat α) (A Aprev : T3 α) (qd qD0 qD1 : List Int) :
    Except Err (T3 α × T3 α × List Int) := do
  let At := A.swap12
  let q0 := QN.flatten2 qd (QN.neg qD1)
  let (Q, R, qbond) ← qr dqr At.flattenLeft.tab q0 (QN.neg qD0)
  let A' := (T3.ofFlattenLeft Q At.d0 At.d1).swap12.tab
  -- np.tensordot(Aprev, R, (2, 1))
  if R.n ≠ Aprev.d2 then throw .value
  let Aprev' : T3 α := ⟨Aprev.d0, Aprev.d1, R.m, fun s a p => sumRange R.n fun b => Aprev.f s a b * R.f p b⟩
  return (A', Aprev'.tab, QN.neg qbond)

/-- left-to-right QR sweep: current tensor `A` with left charges `qL`, remaining tensors and their right charges. -/
def sweepLeftQr (dqr : Mat α → Mat α × Mat α) (qd : List Int) :
    T3 α → List Int → List (T3 α) → List (List Int) → Except Err (List (T3 α) × List (List Int) × T3 α)
  | A, qL, [], [qR] => do
      let (A', T, qb) ← localOrthoLeftQr dqr A ones111 qd qL qR
      return ([A'], [qb], T)
  | A, qL, Anext :: rest, qR :: qRest => do
      let (A', Anext', qb) ← localOrthoLeftQr dqr A Anext qd qL qR
      let (As, qs, T) ← sweepLeftQr dqr qd Anext' qb rest qRest
      return (A' :: As, qb :: qs, T)
  | _, _, _, _ => .error .index

/-- right-to-left QR sweep on reversed lists: current tensor `A` with right charges `qR`,
remaining tensors (reversed order) and their left charges (reversed order). -/
def sweepRightQr (dqr : Mat α → Mat α × Mat α) (qd : List Int) :
    T3 α → List Int → List (T3 α) → List (List Int) → Except Err (List (T3 α) × List (List Int) × T3 α)
  | A, qR, [], [qL] => do
      let (A', T, qb) ← localOrthoRightQr dqr A ones111 qd qL qR
      return ([A'], [qb], T)
  | A, qR, Aprev :: rest, qL :: qRest => do
      let (A', Aprev', qb) ← localOrthoRightQr dqr A Aprev qd qL qR
      let (As, qs, T) ← sweepRightQr dqr qd Aprev' qb rest qRest
      return (A' :: As, qb :: qs, T)
  | _, _, _, _ => .error .index

def negT3 (A : T3 α) : T3 α := ⟨A.d0, A.d1, A.d2, fun i j k => -(A.f i j k)⟩

variable {ρ : Type} [RealLike ρ α] [OfNat ρ 0] [OfNat ρ 1] [Neg ρ] [LT ρ] [DecidableLT ρ]

/-- `MPS.orthonormalize(mode)`; returns the updated state and the normalisation factor. -/
def orthonormalize (dqr : Mat α → Mat α × Mat α) (ψ : MPS α) (left : Bool) : Except Err (MPS α × ρ) :=
  match ψ.A, ψ.qD with
  | [], _ => .ok (ψ, 1)
  | A0 :: rest, qD =>
    if left then
      match qD with
      | q0 :: qrest => do
        let (As, qs, T) ← sweepLeftQr dqr ψ.qd A0 q0 rest qrest
        pyAssert (T.d0 == 1 && T.d1 == 1 && T.d2 == 1)
        let nrm : ρ := RealLike.re (T.f 0 0 0)
        let n := As.length
        if nrm < 0 then
          return ({ ψ with A := As.take (n - 1) ++ (As.drop (n - 1)).map negT3, qD := q0 :: qs }, -nrm)
        else
          return ({ ψ with A := As, qD := q0 :: qs }, nrm)
      | [] => .error .index
    else
      match (A0 :: rest).reverse, qD.reverse with
      | Al :: rrest, ql :: qrrest => do
        let (As, qs, T) ← sweepRightQr dqr ψ.qd Al ql rrest qrrest
        pyAssert (T.d0 == 1 && T.d1 == 1 && T.d2 == 1)
        let nrm : ρ := RealLike.re (T.f 0 0 0)
        let n := As.length
        let As' := if nrm < 0 then As.take (n - 1) ++ (As.drop (n - 1)).map negT3 else As
        return ({ ψ with A := As'.reverse, qD := (ql :: qs).reverse }, if nrm < 0 then -nrm else nrm)
      | _, _ => .error .index

/-- `merge_mps_tensor_pair(A0, A1)` -/
def mergePair (A0 A1 : T3 α) : T3 α :=
  ⟨A0.d0 * A1.d0, A0.d1, A1.d2, fun s a c => sumRange A0.d2 fun b => A0.f (s / A1.d0) a b * A1.f (s % A1.d0) b c⟩

/-- `MPS.as_vector()` (row-major: first site most significant) -/
def asVector (ψ : MPS α) : Except Err (List α) :=
  match ψ.A with
  | [] => .error .index
  | A0 :: rest => do
    let P := rest.foldl (fun acc A => (mergePair acc A).tab) A0
    pyAssert (P.d1 == 1 && P.d2 == 1)
    return (List.range P.d0).map fun s => P.f s 0 0

/-- amplitude at a digit list: `(∏ A_k[s_k])₀₀` computed as a row vector moving right (digit-indexed dense meaning). -/
def ampRow : List (T3 α) → List Nat → (Nat → α) → (Nat → α)
  | A :: As, s :: ss, v => ampRow As ss (fun b => sumRange A.d1 fun a => v a * A.f s a b)
  | _, _, v => v

def amp (ψ : MPS α) (s : List Nat) : α := ampRow ψ.A s (fun a => if a = 0 then 1 else 0) 0

end

section construct
variable {α : Type} [OfNat α 0]

/-- `MPS(qd, qD, fill=x)` for a number `x`: entries `x` where the charges add up, else `0`. -/
def filled (qd : List Int) (qD : List (List Int)) (x : α) : Except Err (MPS α) := do
  match qD with
  | [] => throw .index
  | q0 :: _ =>
    pyAssert (q0.length == 1 && (qD.getLast?.map List.length) == some 1)
    let d := qd.length
    let As := (List.range (qD.length - 1)).map fun i =>
      let qa := qD.getD i []; let qb := qD.getD (i + 1) []
      (⟨d, qa.length, qb.length, fun s a b => if qd.getD s 0 + qa.getD a 0 - qb.getD b 0 = 0 then x else 0⟩ : T3 α)
    return ⟨qd, qD, As⟩

/-- all tensors block sparse and all charge lists of the right length (the invariant of C02). -/
def wellFormed [DecidableEq α] (ψ : MPS α) : Bool :=
  ψ.qD.length == ψ.A.length + 1 &&
  (List.range ψ.A.length).all fun i =>
    match ψ.A[i]? with
    | none => false
    | some A =>
      let qa := ψ.qD.getD i []; let qb := ψ.qD.getD (i + 1) []
      A.d0 == ψ.qd.length && A.d1 == qa.length && A.d2 == qb.length && QN.isSparseT3 A ψ.qd qa qb

end construct

section addsub
variable {α : Type} [OfNat α 0] [Add α] [Mul α] [DecidableEq α]

/-- concatenate along the last axis: `np.block([X, Y])` -/
def catLast (X Y : T3 α) : T3 α := ⟨X.d0, X.d1, X.d2 + Y.d2, fun s a b => if b < X.d2 then X.f s a b else Y.f s a (b - X.d2)⟩
/-- concatenate along the middle axis: `np.block([[X], [Y]])` -/
def catMid (X Y : T3 α) : T3 α := ⟨X.d0, X.d1 + Y.d1, X.d2, fun s a b => if a < X.d1 then X.f s a b else Y.f s (a - X.d1) b⟩
/-- block diagonal in the two bond axes -/
def blockDiag (X Y : T3 α) : T3 α :=
  ⟨X.d0, X.d1 + Y.d1, X.d2 + Y.d2, fun s a b =>
    if a < X.d1 then (if b < X.d2 then X.f s a b else 0) else (if b < X.d2 then 0 else Y.f s (a - X.d1) (b - X.d2))⟩

def scaleT3 (c : α) (X : T3 α) : T3 α := ⟨X.d0, X.d1, X.d2, fun s a b => c * X.f s a b⟩

/-- interior tensors of `add_mps` (sites `1 … L-2`) and the last one -/
def addInterior : List (T3 α) → List (T3 α) → Except Err (List (T3 α))
  | [X], [Y] => if X.d0 = Y.d0 ∧ X.d2 = Y.d2 then .ok [(catMid X Y).tab] else .error .value
  | X :: Xs, Y :: Ys => do
      if X.d0 ≠ Y.d0 then throw .value
      let r ← addInterior Xs Ys
      return (blockDiag X Y).tab :: r
  | _, _ => .error .index

/-- `add_mps(mps0, mps1, alpha)` -/
def add (ψ0 ψ1 : MPS α) (alpha : α) : Except Err (MPS α) := do
  pyAssert (ψ0.A.length == ψ1.A.length)
  pyAssert (ψ0.qd == ψ1.qd)
  let L := ψ0.A.length
  match ψ0.A, ψ1.A with
  | [], _ => return ⟨ψ0.qd, [[0]], []⟩
  | [X], [Y] =>
    pyAssert (ψ0.qD.getD 0 [] == ψ1.qD.getD 0 [])
    pyAssert (ψ0.qD.getD 1 [] == ψ1.qD.getD 1 [])
    if X.d0 ≠ Y.d0 ∨ X.d1 ≠ Y.d1 ∨ X.d2 ≠ Y.d2 then throw .value
    let A : T3 α := ⟨X.d0, X.d1, X.d2, fun s a b => X.f s a b + alpha * Y.f s a b⟩
    let qa := ψ0.qD.getD 0 []; let qb := ψ0.qD.getD 1 []
    pyAssert (QN.isSparseT3 A ψ0.qd qa qb)
    return ⟨ψ0.qd, [qa, qb], [A.tab]⟩
  | X :: Xs, Y :: Ys =>
    pyAssert (ψ0.qD.getD 0 [] == ψ1.qD.getD 0 [])
    pyAssert (ψ0.qD.getD L [] == ψ1.qD.getD L [])
    let qD := (List.range (L + 1)).map fun i =>
      if i = 0 ∨ i = L then ψ0.qD.getD i [] else ψ0.qD.getD i [] ++ ψ1.qD.getD i []
    if X.d0 ≠ Y.d0 ∨ X.d1 ≠ Y.d1 then throw .value
    let first := (catLast X (scaleT3 alpha Y)).tab
    let rest ← addInterior Xs Ys
    let As := first :: rest
    -- consistency check for i in 1..L-1
    for i in List.range L do
      if i ≥ 1 then
        match As[i]? with
        | some A => pyAssert (QN.isSparseT3 A ψ0.qd (qD.getD i []) (qD.getD (i + 1) []))
        | none => throw .index
    return ⟨ψ0.qd, qD, As⟩
  | _, _ => throw .index

end addsub
end MPS
end Ptn

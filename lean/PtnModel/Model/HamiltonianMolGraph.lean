import PtnModel.Model.HamiltonianMol
/-!
# Model of `pytenet/hamiltonian.py`, part 3: spinless molecular Hamiltonian, explicit construction

`MolecularOpGraphNodes` (`__init__`, `get`, `generate_graph`), `_molecular_hamiltonian_graph_add_term`
and the `optimize=False` branch of `molecular_hamiltonian_mpo`.

A node family is a dictionary of dictionaries (`a_dag_l[i][j]`, `a_dag_a_dag_l[i, j][k]`): an association list from the
outer key (a tuple, here a `List Int`) to the inner dictionary, both in Python insertion order. Node ids are
handed out by the running counter `nid_next` in creation order.
-/
namespace Ptn.Ham
open Ptn.Og

/-- family of nodes: outer key ↦ (inner key ↦ node) -/
abbrev Fam := List (List Int × List (Int × Node))

/-- create the nodes of a family: for every `(outer key, inner keys, charge)` in order, consecutive node ids -/
def mkFam (spec : List (List Int × List Int × Int)) (nid0 : Int) : Fam × Int :=
  spec.foldl (fun (acc : Fam × Int) (s : List Int × List Int × Int) =>
    let inner := s.2.1.zipIdx.map fun (k, idx) => (k, (⟨acc.2 + (idx : Int), [], [], s.2.2⟩ : Node))
    (acc.1 ++ [(s.1, inner)], acc.2 + (s.2.1.length : Int))) ([], nid0)

/-- `fam[key]` -/
def Fam.get (f : Fam) (key : List Int) : Except Err (List (Int × Node)) :=
  match f.lookup key with
  | some d => .ok d
  | none => .error .key

/-- `fam[key][k]` -/
def Fam.get2 (f : Fam) (key : List Int) (k : Int) : Except Err Node := do
  let d ← f.get key
  dGet d k

/-- `[node for nodes in fam.values() for node in nodes.values()]` -/
def Fam.nodes (f : Fam) : List Node := f.flatMap fun e => e.2.map (·.2)

/-- create several families one after the other with one running node-id counter -/
def mkFams : List (List (List Int × List Int × Int)) → Int → List Fam × Int
  | [], n => ([], n)
  | spec :: rest, n =>
    let r := mkFam spec n
    let rs := mkFams rest r.2
    (r.1 :: rs.1, rs.2)

/-- `MolecularOpGraphNodes` -/
structure MolNodes where
  L : Int
  identityL : List (Int × Node)
  identityR : List (Int × Node)
  aDagL : Fam
  aAnnL : Fam
  aDagADagL : Fam
  aAnnAAnnL : Fam
  aDagAAnnL : Fam
  aDagR : Fam
  aAnnR : Fam
  aDagADagR : Fam
  aAnnAAnnR : Fam
  aDagAAnnR : Fam

/-- the ten node families of `MolecularOpGraphNodes.__init__` in creation order: (outer key, inner keys, charge) -/
def molSpecs (L : Int) : List (List (List Int × List Int × Int)) :=
  let h := L / 2
  [ -- a^{\dagger}_i operators connected to left terminal
    (pyRange 0 (L - 2)).map fun i => ([i], pyRange (i + 1) (L - 1), 1),
    -- a_i operators connected to left terminal
    (pyRange 0 (L - 2)).map fun i => ([i], pyRange (i + 1) (L - 1), -1),
    -- a^{\dagger}_i a^{\dagger}_j operators connected to left terminal
    (pyRange 0 (h - 1)).flatMap fun i => (pyRange (i + 1) h).map fun j => ([i, j], pyRange (j + 1) (h + 1), 2),
    -- a_i a_j operators connected to left terminal
    (pyRange 0 h).flatMap fun i => (pyRange 0 i).map fun j => ([i, j], pyRange (i + 1) (h + 1), -2),
    -- a^{\dagger}_i a_j operators connected to left terminal
    (pyRange 0 h).flatMap fun i => (pyRange 0 h).map fun j => ([i, j], pyRange (max i j + 1) (h + 1), 0),
    -- a^{\dagger}_i operators connected to right terminal
    (pyRange 2 L).map fun i => ([i], pyRange 2 (i + 1), -1),
    -- a_i operators connected to right terminal
    (pyRange 2 L).map fun i => ([i], pyRange 2 (i + 1), 1),
    -- a^{\dagger}_i a^{\dagger}_j operators connected to right terminal
    (pyRange (h + 1) (L - 1)).flatMap fun i => (pyRange (i + 1) L).map fun j => ([i, j], pyRange (h + 1) (i + 1), -2),
    -- a_i a_j operators connected to right terminal
    (pyRange (h + 1) L).flatMap fun i => (pyRange (h + 1) i).map fun j => ([i, j], pyRange (h + 1) (j + 1), 2),
    -- a^{\dagger}_i a_j operators connected to right terminal
    (pyRange (h + 1) L).flatMap fun i => (pyRange (h + 1) L).map fun j => ([i, j], pyRange (h + 1) (min i j + 1), 0) ]

/-- `MolecularOpGraphNodes.__init__`: identity chains first, then the families, with one running `nid_next` -/
def MolNodes.init (L : Int) : MolNodes :=
  let identityL : List (Int × Node) := (pyRange 0 L).map fun i => (i, ⟨i, [], [], 0⟩)
  let identityR : List (Int × Node) := (pyRange 1 (L + 1)).map fun i => (i, ⟨L + i - 1, [], [], 0⟩)
  let nid : Int := ((identityL.length + identityR.length : Nat) : Int)
  let fams := (mkFams (molSpecs L) nid).1
  ⟨L, identityL, identityR, fams.getD 0 [], fams.getD 1 [], fams.getD 2 [], fams.getD 3 [], fams.getD 4 [],
   fams.getD 5 [], fams.getD 6 [], fams.getD 7 [], fams.getD 8 [], fams.getD 9 []⟩

/-- `sorted((i, j))` -/
def sort2 (i j : Int) : Int × Int := if i ≤ j then (i, j) else (j, i)

/-- `MolecularOpGraphNodes.get(oplist, connection)`; `oplist` entries are `(site, OID)` -/
def MolNodes.get (n : MolNodes) (oplist : List (Int × Int)) (left : Bool) : Except Err (List (Int × Node)) :=
  match oplist with
  | [(i, oid)] =>
    if oid == mC then (if left then n.aDagL else n.aDagR).get [i]
    else if oid == mA then (if left then n.aAnnL else n.aAnnR).get [i]
    else .error .key
  | [(i, oid0), (j, oid1)] =>
    if oid0 == mC && oid1 == mC then
      let (a, b) := sort2 i j
      (if left then n.aDagADagL else n.aDagADagR).get [a, b]
    else if oid0 == mA && oid1 == mA then
      let (a, b) := sort2 i j
      (if left then n.aAnnAAnnL else n.aAnnAAnnR).get [b, a]
    else if oid0 == mC && oid1 == mA then (if left then n.aDagAAnnL else n.aDagAAnnR).get [i, j]
    else if oid0 == mA && oid1 == mC then (if left then n.aDagAAnnL else n.aDagAAnnR).get [j, i]
    else .error .key
  | _ => .error .key

section
variable {κ : Type} [Add κ] [Mul κ] [Neg κ] [OfNat κ 0] [OfNat κ 1] [DecidableEq κ]

/-- graph under construction and the running edge id `eid_next` -/
abbrev GB (κ : Type) := StateT (Graph κ × Int) (Except Err)

/-- `graph.add_connect_edge(OpGraphEdge(eid_next, [n0, n1], [(oid, c)])); eid_next += 1` -/
def addE (n0 n1 : Node) (oid : Int) (c : κ) : GB κ Unit := do
  let (g, eid) ← get
  let g ← (g.addConnectEdge (Edge.mk' eid (n0.nid, n1.nid) [(oid, c)]) : Except Err (Graph κ))
  set (g, eid + 1)

def liftE {α : Type} (x : Except Err α) : GB κ α := liftM (m := Except Err) x

/-- the edge loops of `MolecularOpGraphNodes.generate_graph` -/
def MolNodes.wire (n : MolNodes) : GB κ Unit := do
  let L := n.L
  let h := L / 2
  let idL := fun (i : Int) => liftE (κ := κ) (dGet n.identityL i)
  let idR := fun (i : Int) => liftE (κ := κ) (dGet n.identityR i)
  let g2 := fun (f : Fam) (key : List Int) (k : Int) => liftE (κ := κ) (f.get2 key k)
  -- identities connected to left and right terminals
  for i in pyRange 0 (L - 1) do
    addE (← idL i) (← idL (i + 1)) mI 1
  for i in pyRange 1 L do
    addE (← idR i) (← idR (i + 1)) mI 1
  -- a^{\dagger}_i operators connected to left terminal
  for i in pyRange 0 (L - 2) do
    addE (← idL i) (← g2 n.aDagL [i] (i + 1)) mC 1
    for j in pyRange (i + 1) (L - 2) do
      addE (← g2 n.aDagL [i] j) (← g2 n.aDagL [i] (j + 1)) mZ 1
  -- a_i operators connected to left terminal
  for i in pyRange 0 (L - 2) do
    addE (← idL i) (← g2 n.aAnnL [i] (i + 1)) mA 1
    for j in pyRange (i + 1) (L - 2) do
      addE (← g2 n.aAnnL [i] j) (← g2 n.aAnnL [i] (j + 1)) mZ 1
  -- a^{\dagger}_i a^{\dagger}_j operators connected to left terminal
  for i in pyRange 0 (h - 1) do
    for j in pyRange (i + 1) h do
      addE (← g2 n.aDagL [i] j) (← g2 n.aDagADagL [i, j] (j + 1)) mC 1
      for k in pyRange (j + 1) h do
        addE (← g2 n.aDagADagL [i, j] k) (← g2 n.aDagADagL [i, j] (k + 1)) mI 1
  -- a_i a_j operators connected to left terminal
  for i in pyRange 0 h do
    for j in pyRange 0 i do
      addE (← g2 n.aAnnL [j] i) (← g2 n.aAnnAAnnL [i, j] (i + 1)) mA 1
      for k in pyRange (i + 1) h do
        addE (← g2 n.aAnnAAnnL [i, j] k) (← g2 n.aAnnAAnnL [i, j] (k + 1)) mI 1
  -- a^{\dagger}_i a_j operators connected to left terminal
  for i in pyRange 0 h do
    for j in pyRange 0 h do
      if i < j then
        addE (← g2 n.aDagL [i] j) (← g2 n.aDagAAnnL [i, j] (j + 1)) mA 1
      else if i == j then
        addE (← idL i) (← g2 n.aDagAAnnL [i, j] (i + 1)) mN 1
      else
        addE (← g2 n.aAnnL [j] i) (← g2 n.aDagAAnnL [i, j] (i + 1)) mC 1
      for k in pyRange (max i j + 1) h do
        addE (← g2 n.aDagAAnnL [i, j] k) (← g2 n.aDagAAnnL [i, j] (k + 1)) mI 1
  -- a^{\dagger}_i operators connected to right terminal
  for i in pyRange 2 L do
    for j in pyRange 2 i do
      addE (← g2 n.aDagR [i] j) (← g2 n.aDagR [i] (j + 1)) mZ 1
    addE (← g2 n.aDagR [i] i) (← idR (i + 1)) mC 1
  -- a_i operators connected to right terminal
  for i in pyRange 2 L do
    for j in pyRange 2 i do
      addE (← g2 n.aAnnR [i] j) (← g2 n.aAnnR [i] (j + 1)) mZ 1
    addE (← g2 n.aAnnR [i] i) (← idR (i + 1)) mA 1
  -- a^{\dagger}_i a^{\dagger}_j operators connected to right terminal
  for i in pyRange (h + 1) (L - 1) do
    for j in pyRange (i + 1) L do
      for k in pyRange (h + 1) i do
        addE (← g2 n.aDagADagR [i, j] k) (← g2 n.aDagADagR [i, j] (k + 1)) mI 1
      addE (← g2 n.aDagADagR [i, j] i) (← g2 n.aDagR [j] (i + 1)) mC 1
  -- a_i a_j operators connected to right terminal
  for i in pyRange (h + 1) L do
    for j in pyRange (h + 1) i do
      for k in pyRange (h + 1) j do
        addE (← g2 n.aAnnAAnnR [i, j] k) (← g2 n.aAnnAAnnR [i, j] (k + 1)) mI 1
      addE (← g2 n.aAnnAAnnR [i, j] j) (← g2 n.aAnnR [i] (j + 1)) mA 1
  -- a^{\dagger}_i a_j operators connected to right terminal
  for i in pyRange (h + 1) L do
    for j in pyRange (h + 1) L do
      for k in pyRange (h + 1) (min i j) do
        addE (← g2 n.aDagAAnnR [i, j] k) (← g2 n.aDagAAnnR [i, j] (k + 1)) mI 1
      if i < j then
        addE (← g2 n.aDagAAnnR [i, j] i) (← g2 n.aAnnR [j] (i + 1)) mC 1
      else if i == j then
        addE (← g2 n.aDagAAnnR [i, j] i) (← idR (i + 1)) mN 1
      else
        addE (← g2 n.aDagAAnnR [i, j] j) (← g2 n.aDagR [i] (j + 1)) mA 1

/-- the node list of `generate_graph` (note: not the creation order) -/
def MolNodes.nodeList (n : MolNodes) : List Node :=
  n.identityL.map (·.2) ++ n.identityR.map (·.2) ++
  n.aDagL.nodes ++ n.aAnnL.nodes ++ n.aDagR.nodes ++ n.aAnnR.nodes ++
  n.aDagADagL.nodes ++ n.aAnnAAnnL.nodes ++ n.aDagAAnnL.nodes ++
  n.aDagADagR.nodes ++ n.aAnnAAnnR.nodes ++ n.aDagAAnnR.nodes

/-- `MolecularOpGraphNodes.generate_graph` -/
def MolNodes.generateGraph (n : MolNodes) : Except Err (Graph κ) := do
  let t0 ← dGet n.identityL 0
  let t1 ← dGet n.identityR n.L
  let g ← Graph.mk' n.nodeList ([] : List (Edge κ)) [t0.nid, t1.nid]
  let (_, (g, _)) ← (n.wire (κ := κ)).run (g, 0)
  pure g

/-- `_molecular_hamiltonian_graph_add_term(graph, nodes, oplist, coeff)` -/
def molAddTerm (g : Graph κ) (n : MolNodes) (oplist : List (Int × Int)) (coeff : κ) : Except Err (Graph κ) := do
  let eid ← match maxInt? (dKeys g.edges) with
    | some m => pure (m + 1)
    | none => throw Err.value
  let L := n.L
  let h := L / 2
  let add := fun (n0 n1 : Node) (oid : Int) => g.addConnectEdge (Edge.mk' eid (n0.nid, n1.nid) [(oid, coeff)])
  match sortPairs oplist with
  | [(i, oid0), (j, oid1)] =>
    if i == j then do
      -- expecting number operator
      pyAssert (oid0 == mA && oid1 == mC)
      add (← dGet n.identityL i) (← dGet n.identityR (i + 1)) mN
    else do
      pyAssert (decide (i < j))
      if j ≤ h then do
        let nl ← n.get [(i, oid0)] true
        add (← dGet nl j) (← dGet n.identityR (j + 1)) oid1
      else if i ≥ h then do
        let nr ← n.get [(j, oid1)] false
        add (← dGet n.identityL i) (← dGet nr (i + 1)) oid0
      else do
        let nl ← n.get [(i, oid0)] true
        let nr ← n.get [(j, oid1)] false
        add (← dGet nl h) (← dGet nr (h + 1)) mZ
  | [(i, oid0), (j, oid1), (k, oid2), (l, oid3)] =>
    if j == k then do
      -- expecting number operator
      pyAssert (oid1 == mA && oid2 == mC)
      let nl ← n.get [(i, oid0)] true
      let nr ← n.get [(l, oid3)] false
      add (← dGet nl j) (← dGet nr (j + 1)) mN
    else if k ≤ h then do
      let nl ← n.get [(i, oid0), (j, oid1)] true
      if k == l then do
        pyAssert (oid2 == mA && oid3 == mC)
        add (← dGet nl k) (← dGet n.identityR (k + 1)) mN
      else do
        let nr ← n.get [(l, oid3)] false
        add (← dGet nl k) (← dGet nr (k + 1)) oid2
    else if j ≥ h then do
      let nr ← n.get [(k, oid2), (l, oid3)] false
      if i == j then do
        pyAssert (oid0 == mA && oid1 == mC)
        add (← dGet n.identityL j) (← dGet nr (j + 1)) mN
      else do
        let nl ← n.get [(i, oid0)] true
        add (← dGet nl j) (← dGet nr (j + 1)) oid1
    else do
      let nl ← n.get [(i, oid0), (j, oid1)] true
      let nr ← n.get [(k, oid2), (l, oid3)] false
      add (← dGet nl h) (← dGet nr (h + 1)) mI
  | _ => .error .runtime

/-- the graph of `molecular_hamiltonian_mpo(tkin, vint, optimize=False)` handed to `MPO.from_opgraph` -/
def molExplicitGraph (c : Consts κ) (tkin : List (List κ)) (vint : List (List (List (List κ)))) :
    Except Err (MolNodes × Graph κ) := do
  let L : Int := tkin.length
  pyAssert (decide (L ≥ 4))
  let nodes := MolNodes.init L
  let g ← nodes.generateGraph (κ := κ)
  -- kinetic hopping terms
  let g ← ((pyRange 0 L).flatMap fun i => (pyRange 0 L).map fun j => (i, j)).foldlM
    (fun g (ij : Int × Int) => molAddTerm g nodes [(ij.1, mC), (ij.2, mA)] (t2 tkin ij.1 ij.2)) g
  -- interaction terms
  let g ← ((pyRange 0 L).flatMap fun i => (pyRange (i + 1) L).flatMap fun j =>
      (pyRange 0 L).flatMap fun k => (pyRange (k + 1) L).map fun l => (i, j, k, l)).foldlM
    (fun g (q : Int × Int × Int × Int) =>
      let (i, j, k, l) := q
      molAddTerm g nodes [(i, mC), (j, mC), (l, mA), (k, mA)] (gint c vint i j k l)) g
  pure (nodes, g)

/-- `molecular_hamiltonian_mpo(tkin, vint, optimize=False)` -/
def molBuildExplicit (c : Consts κ) (tkin : List (List κ)) (vint : List (List (List (List κ)))) :
    Except Err (MolNodes × Built κ) := do
  pyAssert (shapesOk tkin vint)
  let L : Int := tkin.length
  let (nodes, graph) ← molExplicitGraph c tkin vint
  if L ≤ 12 then pyAssert graph.isConsistent
  let mpo ← fromOpgraph [0, 1] graph molOpmap true
  pure (nodes, ⟨[0, 1], molOpmap, graph, mpo⟩)

end
end Ptn.Ham

import PtnModel.Model.Basic
/-!
# Scalars

Model definitions are polymorphic in the scalar type `α` (tensor entries) and, where needed, the real type `ρ`
(norms, singular values), using core type classes only.  They are
* reasoned about over Mathlib's abstract fields in `Proofs/` and `Props/`,
* executed over exact Gaussian rationals `GRat` (entries) and `Rat` (reals) in the driver.
-/
namespace Ptn

/-- complex conjugation / real part / embedding of reals, as far as the model needs them. -/
class HasConj (α : Type) where
  conj : α → α

/-- Gaussian rationals: exact stand-in for `complex128` on exactly representable data. -/
structure GRat where
  re : Rat
  im : Rat
  deriving DecidableEq, Repr, Inhabited

namespace GRat
instance : OfNat GRat 0 := ⟨⟨0, 0⟩⟩
instance : OfNat GRat 1 := ⟨⟨1, 0⟩⟩
instance : Add GRat := ⟨fun a b => ⟨a.re + b.re, a.im + b.im⟩⟩
instance : Sub GRat := ⟨fun a b => ⟨a.re - b.re, a.im - b.im⟩⟩
instance : Neg GRat := ⟨fun a => ⟨-a.re, -a.im⟩⟩
instance : Mul GRat := ⟨fun a b => ⟨a.re * b.re - a.im * b.im, a.re * b.im + a.im * b.re⟩⟩
instance : HasConj GRat := ⟨fun a => ⟨a.re, -a.im⟩⟩
def ofRat (r : Rat) : GRat := ⟨r, 0⟩
def ofInt (i : Int) : GRat := ⟨i, 0⟩
/-- division by a real. -/
def divR (a : GRat) (r : Rat) : GRat := ⟨a.re / r, a.im / r⟩
def smulR (r : Rat) (a : GRat) : GRat := ⟨r * a.re, r * a.im⟩
end GRat

instance : HasConj Rat := ⟨id⟩
instance : HasConj Int := ⟨id⟩

end Ptn

namespace Ptn
/-- embedding of the real type `ρ` into the entry type `α`, and real part. -/
class RealLike (ρ α : Type) where
  ofReal : ρ → α
  re : α → ρ

instance : RealLike Rat GRat := ⟨GRat.ofRat, GRat.re⟩
instance : RealLike Rat Rat := ⟨id, id⟩
end Ptn

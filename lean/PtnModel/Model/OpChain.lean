import PtnModel.Model.Symbolic
/-!
# Model of `pytenet/opchain.py`

`OpChain.__init__` (the two `ValueError` checks), `length`, `padded`, `as_matrix`,
and the symbolic meaning of a chain / of an identity-padded chain list.
-/
namespace Ptn.Og

structure OpChain (κ : Type) where
  oids : List Int
  qnums : List Int
  coeff : κ
  istart : Int
  deriving Repr, DecidableEq

section
variable {κ : Type} [Add κ] [Mul κ] [OfNat κ 0] [OfNat κ 1] [DecidableEq κ]

/-- `OpChain.__init__` -/
def OpChain.mk' (oids qnums : List Int) (coeff : κ) (istart : Int) : Except Err (OpChain κ) :=
  if oids.length + 1 != qnums.length then .error .value
  else if istart < 0 then .error .value
  else .ok ⟨oids, qnums, coeff, istart⟩

def OpChain.length (c : OpChain κ) : Nat := c.oids.length

/-- `n * [x]` of Python for an `int` n (empty for n ≤ 0) -/
def pyRepeat {α : Type} (n : Int) (x : α) : List α := List.replicate n.toNat x

/-- `OpChain.padded` -/
def OpChain.padded (c : OpChain κ) (length : Int) (oidIdentity : Int) : Except Err (OpChain κ) := do
  let npadRight : Int := length - (c.length : Int) - c.istart
  pyAssert (decide (npadRight ≥ 0))
  OpChain.mk' (pyRepeat c.istart oidIdentity ++ c.oids ++ pyRepeat npadRight oidIdentity)
              (pyRepeat c.istart (0 : Int) ++ c.qnums ++ pyRepeat npadRight (0 : Int))
              c.coeff 0

/-- `OpChain.as_matrix`: `coeff * identity(1)` then `kron` with every local operator from the left to the right -/
def OpChain.asMatrix (c : OpChain κ) (opmap : OpMap κ) : Except Err (Mat κ) :=
  c.oids.foldlM (fun op oid => do
    let m ← opmap.get oid
    pure (Mat.kron op m)) (Mat.scale c.coeff (Mat.identity 1))

/-- symbolic meaning of the bare chain (no padding) -/
def denChain (c : OpChain κ) : Sym κ := [(c.oids, c.coeff)]

/-- the word of the chain padded with identities to `length` sites -/
def OpChain.paddedWord (c : OpChain κ) (length : Int) (oidIdentity : Int) : Word :=
  pyRepeat c.istart oidIdentity ++ c.oids ++ pyRepeat (length - (c.length : Int) - c.istart) oidIdentity

/-- symbolic meaning of a chain list on `length` sites: Σ coeff · padded word (raw, not normalised) -/
def denChainsRaw (chains : List (OpChain κ)) (length : Int) (oidIdentity : Int) : Sym κ :=
  chains.map fun c => (c.paddedWord length oidIdentity, c.coeff)

def denChains (chains : List (OpChain κ)) (length : Int) (oidIdentity : Int) : Sym κ :=
  symNormalize (denChainsRaw chains length oidIdentity)

end
end Ptn.Og

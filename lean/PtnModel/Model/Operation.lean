import PtnModel.Model.MPO
/-!
# Model of `pytenet/operation.py`

Environment blocks: 2-index blocks are `Mat` (`f ket bra`), 3-index blocks are `T3` (`f ket mpo bra`).
-/
namespace Ptn.Op

variable {α : Type} [OfNat α 0] [OfNat α 1] [Add α] [Mul α] [HasConj α]

open HasConj in
/-- `contraction_step_right(A, B, R)`: `Rnext[a,a'] = Σ_{s,b,b'} A[s,a,b] R[b,b'] conj(B[s,a',b'])` -/
def stepRight (A B : T3 α) (R : Mat α) : Except Err (Mat α) := do
  if A.d2 ≠ R.m ∨ A.d0 ≠ B.d0 ∨ R.n ≠ B.d2 then throw .value
  let T : T3 α := (⟨A.d0, A.d1, R.n, fun s a r => sumRange A.d2 fun b => A.f s a b * R.f b r⟩ : T3 α).tab
  return (⟨A.d1, B.d1, fun a a' => sumRange A.d0 fun s => sumRange R.n fun r => T.f s a r * conj (B.f s a' r)⟩ : Mat α).tab

open HasConj in
/-- `contraction_step_left(A, B, L)`: `Lnext[b,b'] = Σ_{s,a,a'} A[s,a,b] L[a,a'] conj(B[s,a',b'])` -/
def stepLeft (A B : T3 α) (L : Mat α) : Except Err (Mat α) := do
  if L.n ≠ B.d1 ∨ A.d0 ≠ B.d0 ∨ A.d1 ≠ L.m then throw .value
  let T : T3 α := (⟨L.m, B.d0, B.d2, fun a s b' => sumRange L.n fun a' => L.f a a' * conj (B.f s a' b')⟩ : T3 α).tab
  return (⟨A.d2, B.d2, fun b b' => sumRange A.d0 fun s => sumRange A.d1 fun a => A.f s a b * T.f a s b'⟩ : Mat α).tab

def identMat (n : Nat) : Mat α := ⟨n, n, fun i j => if i = j then 1 else 0⟩

/-- `vdot(chi, psi)` -/
def vdot (χ ψ : MPS α) : Except Err α := do
  pyAssert (ψ.A.length == χ.A.length)
  match ψ.A.getLast? with
  | none => return 0
  | some Al =>
    let T0 : Mat α := identMat Al.d2
    let T ← (List.zip ψ.A χ.A).foldrM (fun (p : T3 α × T3 α) T => stepRight p.1 p.2 T) T0
    pyAssert (T.m == 1 && T.n == 1)
    return T.f 0 0

open HasConj in
/-- `contraction_operator_step_right(A, B, W, R)`:
`Rnext[a,w,a'] = Σ W[s',s,w,w'] A[s,a,b] R[b,w',b'] conj(B[s',a',b'])` -/
def opStepRight (A B : T3 α) (W : T4 α) (R : T3 α) : Except Err (T3 α) := do
  if A.d2 ≠ R.d0 ∨ W.d1 ≠ A.d0 ∨ W.d3 ≠ R.d1 ∨ W.d0 ≠ B.d0 ∨ R.d2 ≠ B.d2 then throw .value
  -- T1[s,a,w',b'] = Σ_b A[s,a,b] R[b,w',b']
  let T1 : T4 α := (⟨A.d0, A.d1, R.d1, R.d2, fun s a w' b' => sumRange A.d2 fun b => A.f s a b * R.f b w' b'⟩ : T4 α).tab
  -- T2[s',w,a,b'] = Σ_{s,w'} W[s',s,w,w'] T1[s,a,w',b']
  let T2 : T4 α := (⟨W.d0, W.d2, A.d1, R.d2, fun s' w a b' =>
      sumRange W.d1 fun s => sumRange W.d3 fun w' => W.f s' s w w' * T1.f s a w' b'⟩ : T4 α).tab
  return (⟨A.d1, W.d2, B.d1, fun a w a' =>
      sumRange W.d0 fun s' => sumRange R.d2 fun b' => T2.f s' w a b' * conj (B.f s' a' b')⟩ : T3 α).tab

open HasConj in
/-- `contraction_operator_step_left(A, B, W, L)`:
`Lnext[b,w',b'] = Σ A[s,a,b] W[s',s,w,w'] L[a,w,a'] conj(B[s',a',b'])` -/
def opStepLeft (A B : T3 α) (W : T4 α) (L : T3 α) : Except Err (T3 α) := do
  if L.d2 ≠ B.d1 ∨ W.d0 ≠ B.d0 ∨ W.d2 ≠ L.d1 ∨ A.d0 ≠ W.d1 ∨ A.d1 ≠ L.d0 then throw .value
  -- T1[a,w,s',b'] = Σ_{a'} L[a,w,a'] conj(B[s',a',b'])
  let T1 : T4 α := (⟨L.d0, L.d1, B.d0, B.d2, fun a w s' b' => sumRange L.d2 fun a' => L.f a w a' * conj (B.f s' a' b')⟩ : T4 α).tab
  -- T2[s,w',a,b'] = Σ_{s',w} W[s',s,w,w'] T1[a,w,s',b']
  let T2 : T4 α := (⟨W.d1, W.d3, L.d0, B.d2, fun s w' a b' =>
      sumRange W.d0 fun s' => sumRange W.d2 fun w => W.f s' s w w' * T1.f a w s' b'⟩ : T4 α).tab
  return (⟨A.d2, W.d3, B.d2, fun b w' b' =>
      sumRange A.d0 fun s => sumRange A.d1 fun a => A.f s a b * T2.f s w' a b'⟩ : T3 α).tab

/-- identity reshaped to `(D, 1, D)` -/
def identBlock (n : Nat) : T3 α := ⟨n, 1, n, fun i _ j => if i = j then 1 else 0⟩

/-- `operator_inner_product(chi, op, psi)` -/
def operatorInnerProduct (χ : MPS α) (o : MPO α) (ψ : MPS α) : Except Err α := do
  pyAssert (χ.A.length == o.A.length)
  pyAssert (ψ.A.length == o.A.length)
  match ψ.A.getLast?, χ.A.getLast? with
  | some Al, some Cl =>
    pyAssert (Cl.d2 == Al.d2)
    let T0 : T3 α := identBlock Al.d2
    let T ← (List.zip (List.zip ψ.A χ.A) o.A).foldrM (fun (p : (T3 α × T3 α) × T4 α) T => opStepRight p.1.1 p.1.2 p.2 T) T0
    pyAssert (T.d0 == 1 && T.d1 == 1 && T.d2 == 1)
    return T.f 0 0 0
  | _, _ => return 0

/-- `operator_average(psi, op)` -/
def operatorAverage (ψ : MPS α) (o : MPO α) : Except Err α := do
  pyAssert (ψ.A.length == o.A.length)
  match ψ.A.getLast? with
  | none => return 0
  | some Al =>
    let T0 : T3 α := identBlock Al.d2
    let T ← (List.zip ψ.A o.A).foldrM (fun (p : T3 α × T4 α) T => opStepRight p.1 p.1 p.2 T) T0
    pyAssert (T.d0 == 1 && T.d1 == 1 && T.d2 == 1)
    return T.f 0 0 0

/-- `contraction_operator_density_step_right(A, W, R)`: `Rnext[a,w] = Σ A[s,t,a,b] R[b,b'] W[t,s,w,b']` -/
def densityStepRight (A W : T4 α) (R : Mat α) : Except Err (Mat α) := do
  if A.d3 ≠ R.m ∨ A.d1 ≠ W.d0 ∨ A.d0 ≠ W.d1 ∨ R.n ≠ W.d3 then throw .value
  let T1 : T4 α := (⟨A.d0, A.d1, A.d2, R.n, fun s t a r => sumRange A.d3 fun b => A.f s t a b * R.f b r⟩ : T4 α).tab
  return (⟨A.d2, W.d2, fun a w =>
      sumRange A.d1 fun t => sumRange A.d0 fun s => sumRange R.n fun r => T1.f s t a r * W.f t s w r⟩ : Mat α).tab

/-- `operator_density_average(rho, op)` -/
def operatorDensityAverage (rho o : MPO α) : Except Err α := do
  pyAssert (rho.A.length == o.A.length)
  if rho.A.isEmpty then return 0
  let T ← (List.zip rho.A o.A).foldrM (fun (p : T4 α × T4 α) T => densityStepRight p.1 p.2 T) (identMat 1)
  pyAssert (T.m == 1 && T.n == 1)
  return T.f 0 0

/-- `apply_operator(op, psi)` -/
def applyOperator [DecidableEq α] (o : MPO α) (ψ : MPS α) : Except Err (MPS α) := do
  pyAssert (ψ.qd == o.qd)
  pyAssert (ψ.A.length == o.A.length)
  let L := ψ.A.length
  let qD := (List.range (L + 1)).map fun i => QN.flatten2 (o.qD.getD i []) (ψ.qD.getD i [])
  -- `MPS(psi.qd, qD, fill='postpone')`: leading and trailing bond dimensions must be 1
  pyAssert ((qD.head?.map List.length) == some 1 && (qD.getLast?.map List.length) == some 1)
  let mut As : List (T3 α) := []
  for i in List.range L do
    match o.A[i]?, ψ.A[i]? with
    | some W, some P =>
      if W.d1 ≠ P.d0 then throw .value
      let A : T3 α := ⟨W.d0, W.d2 * P.d1, W.d3 * P.d2, fun s' x y =>
        sumRange W.d1 fun s => W.f s' s (x / P.d1) (y / P.d2) * P.f s (x % P.d1) (y % P.d2)⟩
      let A := A.tab
      pyAssert (QN.isSparseT3 A ψ.qd (qD.getD i []) (qD.getD (i + 1) []))
      As := As ++ [A]
    | _, _ => throw .index
  return ⟨ψ.qd, qD, As⟩

/-- `compute_right_operator_blocks(psi, op)`: list `BR[0..L-1]` -/
def rightBlocks (ψ : MPS α) (o : MPO α) : Except Err (List (T3 α)) := do
  pyAssert (ψ.A.length == o.A.length)
  match List.zip ψ.A o.A with
  | [] => throw .index      -- `BR[L-1] = …` with L = 0 raises IndexError
  | _ :: rest =>
    let last : T3 α := ⟨1, 1, 1, fun _ _ _ => 1⟩
    -- BR[i] = step(A[i+1], A[i+1], W[i+1], BR[i+1]) for i = L-2 … 0
    let r ← rest.foldrM (fun (p : T3 α × T4 α) (acc : List (T3 α)) =>
      match acc with
      | [] => throw Err.index
      | B :: _ => do
        let Bn ← opStepRight p.1 p.1 p.2 B
        return Bn :: acc) [last]
    return r

/-- `apply_local_hamiltonian(L, R, W, A)`:
`out[s',a',b'] = Σ L[a,w,a'] W[s',s,w,w'] A[s,a,b] R[b,w',b']` -/
def applyLocalHamiltonian (L R : T3 α) (W : T4 α) (A : T3 α) : Except Err (T3 α) := do
  if A.d2 ≠ R.d0 ∨ W.d1 ≠ A.d0 ∨ W.d3 ≠ R.d1 ∨ A.d1 ≠ L.d0 ∨ W.d2 ≠ L.d1 then throw .value
  let T1 : T4 α := (⟨A.d0, A.d1, R.d1, R.d2, fun s a w' b' => sumRange A.d2 fun b => A.f s a b * R.f b w' b'⟩ : T4 α).tab
  let T2 : T4 α := (⟨W.d0, W.d2, A.d1, R.d2, fun s' w a b' =>
      sumRange W.d1 fun s => sumRange W.d3 fun w' => W.f s' s w w' * T1.f s a w' b'⟩ : T4 α).tab
  return (⟨W.d0, L.d2, R.d2, fun s' a' b' =>
      sumRange A.d1 fun a => sumRange W.d2 fun w => T2.f s' w a b' * L.f a w a'⟩ : T3 α).tab

/-- `apply_local_bond_contraction(L, R, C)`: `out[a',b'] = Σ L[a,w,a'] C[a,b] R[b,w,b']` -/
def applyLocalBondContraction (L R : T3 α) (C : Mat α) : Except Err (Mat α) := do
  if C.n ≠ R.d0 ∨ L.d0 ≠ C.m ∨ L.d1 ≠ R.d1 then throw .value
  let T : T3 α := (⟨C.m, R.d1, R.d2, fun a w b' => sumRange C.n fun b => C.f a b * R.f b w b'⟩ : T3 α).tab
  return (⟨L.d2, R.d2, fun a' b' => sumRange L.d0 fun a => sumRange L.d1 fun w => L.f a w a' * T.f a w b'⟩ : Mat α).tab

end Ptn.Op

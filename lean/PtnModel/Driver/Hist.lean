import PtnModel.Driver.MPS
import PtnModel.Driver.Evolution
import PtnModel.Model.OpsX
import PtnModel.Driver.OpGraph
open Lean
namespace Ptn.Drv.HistDrv
open Ptn.Hist Ptn.Drv.MPSDrv Ptn.Drv.Krylov

local instance : Div GRat := ⟨fun a b =>
  let d := b.re * b.re + b.im * b.im
  ⟨(a.re * b.re + a.im * b.im) / d, (a.im * b.re - a.re * b.im) / d⟩⟩

def parseObj (j : Json) : R (Obj GRat) := do
  match (← fStr j "cls") with
  | "MPS" => pure (.mps (← parseMPS (← fld j "obj")))
  | "MPO" => pure (.mpo (← parseMPO (← fld j "obj")))
  | c => throw s!"unknown class {c}"

def jObjOf : Obj GRat → Json
  | .mps ψ => jObj [("cls", Json.str "MPS"), ("obj", jMPS ψ)]
  | .mpo o => jObj [("cls", Json.str "MPO"), ("obj", jMPO o)]

def parseHOp (j : Json) : R (HOp GRat Rat) := do
  let left := match fOpt j "mode" with
    | some m => (m.getStr?.toOption == some "left")
    | none => true
  match (← fStr j "h") with
  | "ortho_mps" => pure (.orthoMps (← fNat j "i") left)
  | "ortho_mpo" => pure (.orthoMpo (← fNat j "i") left)
  | "compress" => pure (.compress (← fNat j "i") (← parseRat (← fld j "tol")) left)
  | "add_mps" => pure (.addMps (← fNat j "i") (← fNat j "j") (← parseGRat (← fld j "alpha")))
  | "add_mpo" => pure (.addMpo (← fNat j "i") (← fNat j "j") (← parseGRat (← fld j "alpha")))
  | "mul_mpo" => pure (.mulMpo (← fNat j "i") (← fNat j "j"))
  | "apply" => pure (.apply (← fNat j "i") (← fNat j "j"))
  | "zero_q" => pure (.zeroQ (← fNat j "i"))
  | "copy" => pure (.copy (← fNat j "i"))
  | "from_vector" => pure (.fromVector (← fNat j "d") (← fNat j "nsites") (← fList j "v" parseGRat) (← parseRat (← fld j "tol")))
  | "tdvp1" => pure (.tdvp1 (← fNat j "iH") (← fNat j "i") (← parseGRat (← fld j "dt")) (← fNat j "numsteps") (← fNat j "numiter"))
  | "tdvp2" => pure (.tdvp2 (← fNat j "iH") (← fNat j "i") (← parseGRat (← fld j "dt")) (← fNat j "numsteps") (← fNat j "numiter")
      (← parseRat (← fld j "tol")))
  | "dmrg1" => pure (.dmrg1 (← fNat j "iH") (← fNat j "i") (← fNat j "numsteps") (← fNat j "numiter"))
  | "dmrg2" => pure (.dmrg2 (← fNat j "iH") (← fNat j "i") (← fNat j "numsteps") (← fNat j "numiter") (← parseRat (← fld j "tol")))
  | h => throw s!"unknown history op {h}"

/-- a graph with `GRat` coefficients, built through the Python constructors (`Driver/OpGraph.buildGraph` over `GRat`) -/
def buildGraphG (r : Ptn.Drv.OpGraph.RawGraph) : Except Err (Og.Graph GRat) := do
  let ns ← r.nodes.mapM fun (nid, ein, eout, q) => Og.Node.mk' nid ein eout q
  let es ← r.edges.mapM fun (eid, nids, opics) =>
    match nids with
    | [a, b] => pure (Og.Edge.mk' eid (a, b) (opics.map fun p => (p.1, (⟨p.2, 0⟩ : GRat))))
    | _ => throw Err.value
  Og.Graph.mk' ns es r.term

/-- creating operations (`Model/OpsX.lean`); everything else is an operation of `Model/Ops.lean` -/
def parseXOp (j : Json) : R (XOp GRat Rat) := do
  match (← fStr j "h") with
  | "new_mps" => pure (.newMps (← fList j "qd" getInt) (← fList j "qD" parseIntList) (← parseGRat (← fld j "fill")))
  | "new_mpo" => pure (.newMpo (← fList j "qd" getInt) (← fList j "qD" parseIntList) (← parseGRat (← fld j "fill")))
  | "identity" => pure (.identity (← fList j "qd" getInt) (← fNat j "L") (← parseGRat (← fld j "scale")))
  | "from_opgraph" => do
      let raw ← Ptn.Drv.OpGraph.getRawGraph (← fld j "graph")
      let g ← match buildGraphG raw with
        | .ok g => pure g
        | .error e => throw s!"graph constructor raised {e.toString}"
      let opmap ← fList j "opmap" fun p => do
        let a ← getArr p
        if a.size != 2 then throw "opmap arity"
        pure ((← getInt a[0]!), (← getList a[1]! fun r => getList r parseGRat))
      pure (.fromOpGraph (← fList j "qd" getInt) g opmap)
  | "resplit" => pure (.resplit (← fNat j "i") (← fNat j "site") (← fNat j "distr") (← parseRat (← fld j "tol")))
  | _ => pure (.base (← parseHOp j))

def kernelsOf (k : Kernels) (kk : KK) : StepKernels GRat Rat :=
  ⟨k.dqr, svdK k, dabs k, GRat.divR, k.drfun "sqrt", kk.dnorm, kk.deigh, kk.dexp, kk.dexpm, ⟨1 / 2, 0⟩⟩

/-- which slots differ between two pools (entrywise comparison of the JSON rendering) -/
def changedSlots (p q : Pool GRat) : List Nat :=
  (List.range (max p.length q.length)).filter fun i =>
    match p[i]?, q[i]? with
    | some a, some b => (jObjOf a).compress != (jObjOf b).compress
    | _, _ => true

def handle : Handler := fun op j =>
  match op with
  | "hist.run" => some do
      let pool ← fList j "pool" parseObj
      let steps ← fList j "steps" (fun s => do pure ((← parseXOp s), (← parseKernels s), (← parseKK s)))
      -- run step by step; stop at the first error
      let mut p := pool
      let mut out : Array Json := #[]
      let mut stop := false
      for (hop, k, kk) in steps do
        if !stop then
          match xstep (kernelsOf k kk) p hop with
          | .error e =>
            out := out.push (jObj [("ok", Json.bool false), ("err", Json.str e.toString)])
            stop := true
          | .ok (p', scal) =>
            let ch0 := changedSlots p p'
            -- the documented target always counts as changed (value-equal rewrites included)
            let ch := match hop.target with
              | some t => (List.range (max p.length p'.length)).filter fun i => i == t || ch0.contains i
              | none => ch0
            out := out.push (jObj [("ok", Json.bool true), ("scalars", jRatList scal), ("changed", jNatList ch),
              ("objs", jList ch fun i => match p'[i]? with | some o => jObjOf o | none => Json.null),
              ("wf", Json.bool (poolWF p'))])
            p := p'
      pure <| jObj [("ok", Json.bool true), ("steps", Json.arr out)]
  | _ => none

end Ptn.Drv.HistDrv

import PtnModel.Driver.Kernels
import PtnModel.Model.Krylov
/-!
Driver ops `kry.lanczos`, `kry.arnoldi`, `kry.eigh`, `kry.expm`: `Afunc` is `x ↦ A @ x` for an explicit matrix.
Kernel transcript entries (collected in `Kernels.other`), answers looked up *by input*:
  {"k":"cnorm","in":[scalar…],"out":real}                      np.linalg.norm of a (complex) vector
  {"k":"eigh","in":{"alpha":[…],"beta":[…]},"out":{"w":[…],"U":matrix}}
  {"k":"exp","in":scalar,"out":scalar}
  {"k":"expm","in":matrix,"out":matrix}
Unknown inputs give recognisable dummies (norm −1, zero factors).
-/
open Lean
namespace Ptn.Drv.Krylov
open Ptn.Krylov

/-- exact division of Gaussian rationals (only ever used with a real divisor) -/
local instance : Div GRat := ⟨fun a b =>
  let d := b.re * b.re + b.im * b.im
  ⟨(a.re * b.re + a.im * b.im) / d, (a.im * b.re - a.re * b.im) / d⟩⟩

structure KK where
  cnorm : List (List GRat × Rat) := []
  eigh : List (List Rat × List Rat × List Rat × Mat Rat) := []
  exp : List (GRat × GRat) := []
  expm : List (Mat GRat × Mat GRat) := []

def parseGList (j : Json) : R (List GRat) := getList j parseGRat

def parseKK (j : Json) : R KK := do
  let k ← parseKernels j
  let mut kk : KK := {}
  for (name, i, o) in k.other do
    match name with
    | "cnorm" => kk := { kk with cnorm := kk.cnorm ++ [(← parseGList i, ← parseRat o)] }
    | "eigh" =>
        let U ← parseMat (← fld o "U")
        kk := { kk with eigh := kk.eigh ++ [(← parseRatList (← fld i "alpha"), ← parseRatList (← fld i "beta"),
                                            ← parseRatList (← fld o "w"), (U.map GRat.re).tab)] }
    | "exp" => kk := { kk with exp := kk.exp ++ [(← parseGRat i, ← parseGRat o)] }
    | "expm" => kk := { kk with expm := kk.expm ++ [(← parseMat i, ← parseMat o)] }
    | _ => pure ()
  pure kk

def KK.dnorm (k : KK) (x : List GRat) : Rat :=
  match k.cnorm.find? (fun e => e.1 == x) with
  | some e => e.2
  | none => -1

def KK.deigh (k : KK) (a b : List Rat) : List Rat × Mat Rat :=
  match k.eigh.find? (fun e => e.1 == a && e.2.1 == b) with
  | some e => (e.2.2.1, e.2.2.2)
  | none => (List.replicate a.length 0, Mat.zero a.length a.length)

def KK.dexp (k : KK) (x : GRat) : GRat :=
  match k.exp.find? (fun e => e.1 == x) with
  | some e => e.2
  | none => 0

def KK.dexpm (k : KK) (M : Mat GRat) : Mat GRat :=
  match k.expm.find? (fun e => e.1.beq M) with
  | some e => e.2
  | none => Mat.zero M.m M.n

def jGList (l : List GRat) : Json := jList l jGRat

def handle : Handler := fun op j =>
  match op with
  | "kry.lanczos" => some do
      let A ← parseMat (← fld j "A")
      let v ← parseGList (← fld j "vstart")
      let m ← fNat j "numiter"
      let k ← parseKK j
      pure <| jExcept ((lanczos (matvec A) k.dnorm v m).map fun (al, be, V) =>
        [("alpha", jRatList al), ("beta", jRatList be), ("V", jMat V)])
  | "kry.arnoldi" => some do
      let A ← parseMat (← fld j "A")
      let v ← parseGList (← fld j "vstart")
      let m ← fNat j "numiter"
      let k ← parseKK j
      pure <| jExcept ((arnoldi (matvec A) k.dnorm v m).map fun (H, V) =>
        [("H", jMat H), ("V", jMat V)])
  | "kry.eigh" => some do
      let A ← parseMat (← fld j "A")
      let v ← parseGList (← fld j "vstart")
      let m ← fNat j "numiter"
      let ne ← fNat j "numeig"
      let k ← parseKK j
      pure <| jExcept ((eighKrylov (matvec A) k.dnorm k.deigh v m ne).map fun (w, u) =>
        [("w", jRatList w), ("u", jMat u)])
  | "kry.expm" => some do
      let A ← parseMat (← fld j "A")
      let v ← parseGList (← fld j "vstart")
      let m ← fNat j "numiter"
      let dt ← parseGRat (← fld j "dt")
      let h ← fBool j "hermitian"
      let k ← parseKK j
      pure <| jExcept ((expmKrylov (matvec A) k.dnorm k.deigh k.dexp k.dexpm v dt m h).map fun r =>
        [("v", jGList r)])
  | _ => none

end Ptn.Drv.Krylov

import PtnModel.Driver.Kernels
import PtnModel.Model.MPSSvd
import PtnModel.Model.Operation
import PtnModel.Model.MPOSparse
open Lean
namespace Ptn.Drv.MPSDrv

def parseMPS (j : Json) : R (MPS GRat) := do
  pure ⟨← parseIntList (← fld j "qd"), ← fList j "qD" parseIntList, ← fList j "A" parseT3⟩

def parseMPO (j : Json) : R (MPO GRat) := do
  pure ⟨← parseIntList (← fld j "qd"), ← fList j "qD" parseIntList, ← fList j "A" parseT4⟩

def jMPS (ψ : MPS GRat) : Json :=
  jObj [("qd", jIntList ψ.qd), ("qD", jList ψ.qD jIntList), ("A", jList ψ.A jT3)]

def jMPO (o : MPO GRat) : Json :=
  jObj [("qd", jIntList o.qd), ("qD", jList o.qD jIntList), ("A", jList o.A jT4)]

def svdK (k : Kernels) : MPS.SvdKernels GRat Rat := ⟨k.dsvd, k.dnorm, k.dargsort⟩

/-- `abs` of a scalar through the transcript (keyed by the real and imaginary parts as a 2-vector norm) -/
def dabs (k : Kernels) (z : GRat) : Rat :=
  match k.other.find? (fun e => e.1 == "cabs" && (parseGRat e.2.1).toOption == some z) with
  | some e => ((parseRat e.2.2).toOption).getD (-1)
  | none => if z.im == 0 then (if z.re < 0 then -z.re else z.re) else -1

def handle : Handler := fun op j =>
  match op with
  | "mps.orthonormalize" => some do
      let ψ ← parseMPS (← fld j "mps")
      let left := (← fStr j "mode") == "left"
      let k ← parseKernels j
      pure <| jExcept ((MPS.orthonormalize (ρ := Rat) k.dqr ψ left).map fun (ψ', nrm) =>
        [("mps", jMPS ψ'), ("nrm", jRat nrm), ("wf", Json.bool ψ'.wellFormed)])
  | "mpo.orthonormalize" => some do
      let o ← parseMPO (← fld j "mpo")
      let left := (← fStr j "mode") == "left"
      let k ← parseKernels j
      pure <| jExcept ((MPO.orthonormalize (ρ := Rat) k.dqr o left).map fun (o', nrm) =>
        [("mpo", jMPO o'), ("nrm", jRat nrm), ("wf", Json.bool o'.wellFormed)])
  | "mps.compress" => some do
      let ψ ← parseMPS (← fld j "mps")
      let left := (← fStr j "mode") == "left"
      let tol ← parseRat (← fld j "tol")
      let k ← parseKernels j
      pure <| jExcept ((MPS.compress k.dqr (svdK k) (dabs k) GRat.divR ψ tol left).map fun (ψ', nrm, sc) =>
        [("mps", jMPS ψ'), ("nrm", jRat nrm), ("scale", jRat sc), ("wf", Json.bool ψ'.wellFormed)])
  | "mps.split_tensor" => some do
      let A ← parseT3 (← fld j "A")
      let qd0 ← parseIntList (← fld j "qd0"); let qd1 ← parseIntList (← fld j "qd1")
      let qD0 ← parseIntList (← fld j "qD0"); let qD2 ← parseIntList (← fld j "qD2")
      let distr ← fNat j "distr"
      let tol ← parseRat (← fld j "tol")
      let k ← parseKernels j
      pure <| jExcept ((MPS.splitMpsTensor (svdK k) (k.drfun "sqrt") A qd0 qd1 qD0 qD2 distr tol).map fun (A0, A1, qb) =>
        [("A0", jT3 A0), ("A1", jT3 A1), ("qbond", jIntList qb), ("merged", jT3 (MPS.mergePair A0 A1))])
  | "mps.from_vector" => some do
      let d ← fNat j "d"; let n ← fNat j "nsites"
      let v ← fList j "v" parseGRat
      let tol ← parseRat (← fld j "tol")
      let k ← parseKernels j
      pure <| jExcept ((MPS.fromVector (svdK k) d n v tol).map fun ψ =>
        [("mps", jMPS ψ), ("vec", match ψ.asVector with | .ok l => jList l jGRat | .error _ => Json.null)])
  | "mps.filled" => some do
      let qd ← parseIntList (← fld j "qd"); let qD ← fList j "qD" parseIntList
      let x ← parseGRat (← fld j "fill")
      pure <| jExcept ((MPS.filled qd qD x).map fun ψ => [("mps", jMPS ψ)])
  | "mpo.filled" => some do
      let qd ← parseIntList (← fld j "qd"); let qD ← fList j "qD" parseIntList
      let x ← parseGRat (← fld j "fill")
      pure <| jExcept ((MPO.filled qd qD x).map fun o => [("mpo", jMPO o)])
  | "mps.as_vector" => some do
      let ψ ← parseMPS (← fld j "mps")
      let digits : List (List Nat) := match fOpt j "digits" with
        | some d => ((getList d (fun x => getList x getNat)).toOption).getD []
        | none => []
      pure <| jExcept (ψ.asVector.map fun l => [("vec", jList l jGRat), ("amps", jList (digits.map ψ.amp) jGRat)])
  | "mpo.as_matrix" => some do
      let o ← parseMPO (← fld j "mpo")
      let digits : List (List Nat × List Nat) := match fOpt j "digits" with
        | some d => ((getList d (fun x => do
            let a ← getArr x
            pure ((← getList a[0]! getNat), (← getList a[1]! getNat)))).toOption).getD []
        | none => []
      -- optional field "sparse": model of `as_matrix(sparse_format=True)` instead of the dense path
      let sparse : Bool := match fOpt j "sparse" with
        | some b => (getBool b).toOption.getD false
        | none => false
      let r := if sparse then o.asMatrixSparse else o.asMatrix
      pure <| jExcept (r.map fun M => [("mat", jMat M), ("elems", jList (digits.map fun p => o.elem p.1 p.2) jGRat)])
  | "mps.add" => some do
      let a ← parseMPS (← fld j "a"); let b ← parseMPS (← fld j "b")
      let alpha ← parseGRat (← fld j "alpha")
      pure <| jExcept ((MPS.add a b alpha).map fun ψ => [("mps", jMPS ψ), ("wf", Json.bool ψ.wellFormed)])
  | "mpo.add" => some do
      let a ← parseMPO (← fld j "a"); let b ← parseMPO (← fld j "b")
      let alpha ← parseGRat (← fld j "alpha")
      pure <| jExcept ((MPO.add a b alpha).map fun o => [("mpo", jMPO o), ("wf", Json.bool o.wellFormed)])
  | "mpo.mul" => some do
      let a ← parseMPO (← fld j "a"); let b ← parseMPO (← fld j "b")
      pure <| jExcept ((MPO.multiply a b).map fun o => [("mpo", jMPO o), ("wf", Json.bool o.wellFormed)])
  | "mpo.identity" => some do
      let qd ← parseIntList (← fld j "qd"); let L ← fNat j "L"
      let sc ← parseGRat (← fld j "scale")
      pure <| jObj [("ok", Json.bool true), ("mpo", jMPO (MPO.identity qd L sc))]
  | "op.apply" => some do
      let o ← parseMPO (← fld j "mpo"); let ψ ← parseMPS (← fld j "mps")
      pure <| jExcept ((Op.applyOperator o ψ).map fun φ => [("mps", jMPS φ), ("wf", Json.bool φ.wellFormed)])
  | "op.vdot" => some do
      let a ← parseMPS (← fld j "chi"); let b ← parseMPS (← fld j "psi")
      pure <| jExcept ((Op.vdot a b).map fun z => [("val", jGRat z)])
  | "op.average" => some do
      let ψ ← parseMPS (← fld j "psi"); let o ← parseMPO (← fld j "mpo")
      pure <| jExcept ((Op.operatorAverage ψ o).map fun z => [("val", jGRat z)])
  | "op.inner" => some do
      let χ ← parseMPS (← fld j "chi"); let ψ ← parseMPS (← fld j "psi"); let o ← parseMPO (← fld j "mpo")
      pure <| jExcept ((Op.operatorInnerProduct χ o ψ).map fun z => [("val", jGRat z)])
  | "op.density" => some do
      let r ← parseMPO (← fld j "rho"); let o ← parseMPO (← fld j "mpo")
      pure <| jExcept ((Op.operatorDensityAverage r o).map fun z => [("val", jGRat z)])
  | "op.right_blocks" => some do
      let ψ ← parseMPS (← fld j "psi"); let o ← parseMPO (← fld j "mpo")
      pure <| jExcept ((Op.rightBlocks ψ o).map fun l => [("blocks", jList l jT3)])
  | "op.step_right" => some do
      let A ← parseT3 (← fld j "A"); let B ← parseT3 (← fld j "B"); let W ← parseT4 (← fld j "W"); let Rb ← parseT3 (← fld j "R")
      pure <| jExcept ((Op.opStepRight A B W Rb).map fun T => [("T", jT3 T)])
  | "op.step_left" => some do
      let A ← parseT3 (← fld j "A"); let B ← parseT3 (← fld j "B"); let W ← parseT4 (← fld j "W"); let Lb ← parseT3 (← fld j "L")
      pure <| jExcept ((Op.opStepLeft A B W Lb).map fun T => [("T", jT3 T)])
  | "op.cstep_right" => some do
      let A ← parseT3 (← fld j "A"); let B ← parseT3 (← fld j "B"); let Rb ← parseMat (← fld j "R")
      pure <| jExcept ((Op.stepRight A B Rb).map fun T => [("T", jMat T)])
  | "op.cstep_left" => some do
      let A ← parseT3 (← fld j "A"); let B ← parseT3 (← fld j "B"); let Lb ← parseMat (← fld j "L")
      pure <| jExcept ((Op.stepLeft A B Lb).map fun T => [("T", jMat T)])
  | "op.local_h" => some do
      let Lb ← parseT3 (← fld j "L"); let Rb ← parseT3 (← fld j "R"); let W ← parseT4 (← fld j "W"); let A ← parseT3 (← fld j "A")
      pure <| jExcept ((Op.applyLocalHamiltonian Lb Rb W A).map fun T => [("T", jT3 T)])
  | "op.local_bond" => some do
      let Lb ← parseT3 (← fld j "L"); let Rb ← parseT3 (← fld j "R"); let C ← parseMat (← fld j "C")
      pure <| jExcept ((Op.applyLocalBondContraction Lb Rb C).map fun T => [("T", jMat T)])
  | "mps.merge_pair" => some do
      let A ← parseT3 (← fld j "A0"); let B ← parseT3 (← fld j "A1")
      pure <| jObj [("ok", Json.bool true), ("T", jT3 (MPS.mergePair A B).tab)]
  | "mpo.merge_pair" => some do
      let A ← parseT4 (← fld j "A0"); let B ← parseT4 (← fld j "A1")
      pure <| jObj [("ok", Json.bool true), ("T", jT4 (MPO.mergePair A B).tab)]
  | _ => none

end Ptn.Drv.MPSDrv

import PtnModel.Driver.Tensor
/-!
Oracles built from the kernel transcript recorded on the Python side.  Answers are looked up *by input*;
an unknown input yields a recognisable dummy answer (zero factors of the right shape), so the first
differing intermediate shows up as a result mismatch.
-/
open Lean
namespace Ptn.Drv

structure Kernels where
  qr : List (Mat GRat × Mat GRat × Mat GRat) := []
  svd : List (Mat GRat × Mat GRat × List Rat × Mat GRat) := []
  norm : List (List Rat × Rat) := []
  argsort : List (List Rat × List Nat) := []
  /-- scalar real functions (`sqrt`, `abs`) keyed by name and input -/
  rfun : List (String × Rat × Rat) := []
  /-- other named kernels with JSON payloads (used by Krylov etc.) -/
  other : List (String × Json × Json) := []

def parseKernels (j : Json) : R Kernels := do
  match fOpt j "kernels" with
  | none => pure {}
  | some ks =>
    let arr ← getArr ks
    let mut k : Kernels := {}
    for e in arr do
      let name ← fStr e "k"
      let i ← fld e "in"
      let o ← fld e "out"
      match name with
      | "qr" => k := { k with qr := k.qr ++ [(← parseMat i, ← parseMat (← fld o "Q"), ← parseMat (← fld o "R"))] }
      | "svd" => k := { k with svd := k.svd ++ [(← parseMat i, ← parseMat (← fld o "U"), ← parseRatList (← fld o "S"), ← parseMat (← fld o "V"))] }
      | "norm" => k := { k with norm := k.norm ++ [(← parseRatList i, ← parseRat o)] }
      | "argsort" => k := { k with argsort := k.argsort ++ [(← parseRatList i, ← getList o getNat)] }
      | "sqrt" | "abs" => k := { k with rfun := k.rfun ++ [(name, ← parseRat i, ← parseRat o)] }
      | _ => k := { k with other := k.other ++ [(name, i, o)] }
    pure k

def Kernels.dqr (k : Kernels) (B : Mat GRat) : Mat GRat × Mat GRat :=
  match k.qr.find? (fun e => e.1.beq B) with
  | some e => (e.2.1, e.2.2)
  | none => (Mat.zero B.m (min B.m B.n), Mat.zero (min B.m B.n) B.n)

def Kernels.dsvd (k : Kernels) (B : Mat GRat) : Mat GRat × List Rat × Mat GRat :=
  match k.svd.find? (fun e => e.1.beq B) with
  | some e => (e.2.1, e.2.2.1, e.2.2.2)
  | none => (Mat.zero B.m (min B.m B.n), List.replicate (min B.m B.n) 0, Mat.zero (min B.m B.n) B.n)

def Kernels.dnorm (k : Kernels) (s : List Rat) : Rat :=
  match k.norm.find? (fun e => e.1 == s) with
  | some e => e.2
  | none => -1

def Kernels.dargsort (k : Kernels) (s : List Rat) : List Nat :=
  match k.argsort.find? (fun e => e.1 == s) with
  | some e => e.2
  | none => []

def Kernels.drfun (k : Kernels) (name : String) (x : Rat) : Rat :=
  match k.rfun.find? (fun e => e.1 == name && e.2.1 == x) with
  | some e => e.2.2
  | none => -1

end Ptn.Drv

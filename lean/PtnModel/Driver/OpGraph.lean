import PtnModel.Driver.Util
import PtnModel.Model.OpGraph
/-!
Driver ops `og.*`: the symbolic operator layer (chains, trees, automata, graphs, `MPO.from_opgraph`)
executed over `Rat` coefficients.

Encodings: a coefficient is an integer or `[num, den]`; a graph is
`{"nodes": [[nid, eids_in, eids_out, qnum], ...], "edges": [[eid, [n0, n1], [[oid, coeff], ...]], ...], "term": [t0, t1]}`
on input (run through the constructors) and the same with the dictionary key in front of every entry on output.
-/
open Lean
namespace Ptn.Drv.OpGraph
open Ptn.Og

/-! ### decoding -/

def getRat (j : Json) : R Rat :=
  match j with
  | .arr a =>
    if a.size != 2 then throw "coefficient arity"
    else do
      let n ← getInt a[0]!
      let d ← getNat a[1]!
      if d == 0 then throw "zero denominator" else pure (mkRat n d)
  | _ => do
    let n ← getInt j
    pure (n : Rat)

def getIntList (j : Json) : R (List Int) := getList j getInt

def getOpics (j : Json) : R (List (Int × Rat)) :=
  getList j fun p => do
    let a ← getArr p
    if a.size != 2 then throw "opic arity"
    pure ((← getInt a[0]!), (← getRat a[1]!))

/-- `[nid, eids_in, eids_out, qnum]` -/
def getRawNode (j : Json) : R (Int × List Int × List Int × Int) := do
  let a ← getArr j
  if a.size != 4 then throw "node arity"
  pure ((← getInt a[0]!), (← getIntList a[1]!), (← getIntList a[2]!), (← getInt a[3]!))

/-- `[eid, nids, opics]` -/
def getRawEdge (j : Json) : R (Int × List Int × List (Int × Rat)) := do
  let a ← getArr j
  if a.size != 3 then throw "edge arity"
  pure ((← getInt a[0]!), (← getIntList a[1]!), (← getOpics a[2]!))

structure RawGraph where
  nodes : List (Int × List Int × List Int × Int)
  edges : List (Int × List Int × List (Int × Rat))
  term : List Int

def getRawGraph (j : Json) : R RawGraph := do
  pure ⟨(← fList j "nodes" getRawNode), (← fList j "edges" getRawEdge), (← fList j "term" getInt)⟩

/-- Python evaluation order: all node constructors, all edge constructors, then `OpGraph.__init__` -/
def buildGraph (r : RawGraph) : Except Err (Graph Rat) := do
  let ns ← r.nodes.mapM fun (nid, ein, eout, q) => Node.mk' nid ein eout q
  let es ← r.edges.mapM fun (eid, nids, opics) =>
    match nids with
    | [a, b] => pure (Edge.mk' eid (a, b) opics)
    | _ => throw Err.value
  Graph.mk' ns es r.term

def getMat (j : Json) : R (Mat Rat) := getList j fun r => getList r getRat

def getOpMap (j : Json) : R (OpMap Rat) :=
  getList j fun p => do
    let a ← getArr p
    if a.size != 2 then throw "opmap arity"
    pure ((← getInt a[0]!), (← getMat a[1]!))

def getChain (j : Json) : R (List Int × List Int × Rat × Int) := do
  let a ← getArr j
  if a.size != 4 then throw "chain arity"
  pure ((← getIntList a[0]!), (← getIntList a[1]!), (← getRat a[2]!), (← getInt a[3]!))

/-- `[qnum, [[oid, coeff, subtree], ...]]`; the recursion depth is bounded by fuel (JSON values are finite) -/
def getTree : Nat → Json → R (TNode Rat)
  | 0, _ => throw "tree too deep"
  | fuel + 1, j => do
    let a ← getArr j
    if a.size != 2 then throw "tree arity"
    let q ← getInt a[0]!
    let cs ← getList a[1]! fun c => do
      let b ← getArr c
      if b.size != 3 then throw "tree edge arity"
      pure ((← getInt b[0]!), (← getRat b[1]!), (← getTree fuel b[2]!))
    pure (.mk q cs)

/-- a per-site table `{"const": x}` or `{"table": [x0, x1, ...]}` (sites beyond the table repeat the last entry) -/
def getTable {α : Type} (j : Json) (f : Json → R α) (dflt : α) : R (Nat → α) :=
  match fOpt j "const" with
  | some c => do
    let x ← f c
    pure fun _ => x
  | none => do
    let l ← fList j "table" f
    pure fun i => l.getD i (l.getLastD dflt)

def getAutEdge (j : Json) : R (Option (AEdge Rat)) := do
  let a ← getArr j
  if a.size != 4 then throw "aut edge arity"
  let eid ← getInt a[0]!
  let nids ← getIntList a[1]!
  let opics ← getTable a[2]! getOpics []
  let active ← getTable a[3]! getBool false
  match nids with
  | [x, y] => pure (some ⟨eid, (x, y), opics, active⟩)
  | _ => pure none

/-! ### encoding -/

def jRat (q : Rat) : Json := if q.den == 1 then jInt q.num else Json.arr #[jInt q.num, jNat q.den]

def jIntList (l : List Int) : Json := jList l jInt

def jOpics (l : List (Int × Rat)) : Json := jList l fun p => Json.arr #[jInt p.1, jRat p.2]

def jGraph (g : Graph Rat) : Json :=
  jObj [("nodes", jList g.nodes fun (k, n) => Json.arr #[jInt k, jInt n.nid, jIntList n.eidsIn, jIntList n.eidsOut, jInt n.qnum]),
        ("edges", jList g.edges fun (k, e) => Json.arr #[jInt k, jInt e.eid, Json.arr #[jInt e.nids.1, jInt e.nids.2], jOpics e.opics]),
        ("term", Json.arr #[jInt g.nidTerminal.1, jInt g.nidTerminal.2])]

def jSym (s : Sym Rat) : Json := jList s fun p => Json.arr #[jIntList p.1, jRat p.2]

def jMat (m : Mat Rat) : Json := jList m fun r => jList r jRat

def jErr (e : Err) : Json := jObj [("err", Json.str e.toString)]

def jExceptVal {α : Type} (r : Except Err α) (f : α → Json) : Json :=
  match r with
  | .ok v => f v
  | .error e => jErr e

/-- everything observable about a graph state -/
def graphState (g : Graph Rat) : List (String × Json) :=
  [("graph", jGraph g), ("cons", Json.bool g.isConsistent), ("length", jExceptVal g.length jNat),
   ("den", jSym g.den)]

/-! ### branch signature of `from_opchains` (re-runs the site sweep of the model, recording the cover sizes) -/

def traceSites : Nat → ChState Rat → List String → List String
  | 0, s, acc =>
    match s.coeffsNext with
    | [c] => acc ++ [if c != 1 then "trailing-coeff" else "trailing-1"]
    | _ => acc
  | n + 1, s, acc =>
    match (do
      let p ← sitePartition s.vlistNext s.coeffsNext
      let bg ← Ptn.Bip.BGraph.mk' p.ulist.length p.vlist.length (p.edges.map fun e => ((e.1 : Int), (e.2 : Int)))
      let cov ← Ptn.Bip.minimumVertexCover bg
      let s' ← siteStep s
      pure (cov, s', p.edges.length) : Except Err _) with
    | .error _ => acc ++ ["site-error"]
    | .ok ((uc, vc), s', ne) =>
      let tag :=
        (if uc.isEmpty then "" else "U") ++ (if vc.isEmpty then "" else "V")
      let shared := if ne > uc.length + vc.length then "+gamma" else ""
      traceSites n s' (acc ++ [tag ++ shared])

def traceOpchains (chains : List (OpChain Rat)) (length : Int) (oidIdentity : Int) : List String :=
  match (do
    let chains ← (chains.filter (fun c => c.coeff != 0)).mapM (fun c => c.padded length oidIdentity)
    let vl ← chains.mapM (fun c => HalfChain.mk' (c.oids ++ [oidIdentity]) (c.qnums ++ [0]) 0)
    let n0 ← Node.mk' 0 [] [] 0
    let n1 ← Node.mk' (-1) [] [] 0
    let g ← Graph.mk' [n0, n1] ([] : List (Edge Rat)) [0, -1]
    pure (⟨g, 1, 0, vl, chains.map (·.coeff), []⟩ : ChState Rat) : Except Err _) with
  | .error _ => ["setup-error"]
  | .ok s0 => traceSites length.toNat s0 []

/-! ### rewrite steps -/

/-- apply one rewrite step (a JSON object with key `k`) -/
def applyStep (g : Graph Rat) (st : Json) : R (Except Err (Graph Rat)) := do
  let k ← fStr st "k"
  match k with
  | "merge_edges" => pure (g.mergeEdgesI (← fInt st "eid1") (← fInt st "eid2") (← fInt st "direction"))
  | "simplify" => pure g.simplify
  | "simplify_step" =>
    let d ← fInt st "direction"
    pure (do
      match ← g.simplifyStep (d != 0) with
      | some g' => pure g'
      | none => pure g)
  | "flip" => pure (.ok g.flip)
  | "rename_node" => pure (g.renameNodeId (← fInt st "cur") (← fInt st "new"))
  | "rename_edge" => pure (g.renameEdgeId (← fInt st "cur") (← fInt st "new"))
  | "add" =>
    let raw ← getRawGraph (← fld st "other")
    match fOpt st "shared_nids", fOpt st "shared_eids" with
    | some sn, some se =>
      let sn ← getIntList sn
      let se ← getIntList se
      match buildGraph raw with
      | .error e => pure (.error e)
      | .ok o =>
        -- the given orders must enumerate exactly the shared ids
        if sortAsc sn != sharedKeys g.nodes o.nodes || sn.length != (sharedKeys g.nodes o.nodes).length
           || sortAsc se != sharedKeys g.edges o.edges || se.length != (sharedKeys g.edges o.edges).length
        then throw "add: shared id orders are not permutations of the shared ids"
        else pure (g.addWith o sn se)
    | _, _ => pure (do
        let o ← buildGraph raw
        g.add o)
  | "insert_opchain" =>
    let oids ← fList st "oids" getInt
    let coeffs ← fList st "coeffs" getRat
    let qnums ← fList st "qnums" getInt
    let d ← fInt st "direction"
    pure (g.insertOpchain (← fInt st "nid_start") (← fInt st "nid_end") oids coeffs qnums (d != 0))
  | _ => throw s!"unknown rewrite step {k}"

/-- apply the steps in order; after the first error the history ends (Python leaves a half-mutated object) -/
def runSteps : Graph Rat → List Json → List Json → R (List Json)
  | _, [], acc => pure acc
  | g, st :: rest, acc => do
    let isAdd := (fStr st "k").toOption == some "add"
    -- the model's `add` takes `other` by value: it is untouched and nothing is shared, by construction
    let extra := if isAdd then [("other_unchanged", Json.bool true), ("shares_objects", Json.bool false)] else []
    match ← applyStep g st with
    | .ok g' => runSteps g' rest (acc ++ [jObj (graphState g' ++ extra)])
    | .error e => pure (acc ++ [jErr e])

/-! ### handler -/

def handle : Handler := fun op j =>
  match op with
  | "og.from_opchains" => some do
      let raw ← fList j "chains" getChain
      let length ← fInt j "length"
      let oid ← fInt j "oid_identity"
      let chainsE : Except Err (List (OpChain Rat)) := raw.mapM fun (o, q, c, i) => OpChain.mk' o q c i
      let br := match chainsE with
        | .ok cs => traceOpchains cs length oid
        | .error _ => ["ctor-error"]
      let res := jExcept (do
        let chains ← chainsE
        let g ← fromOpchains chains length oid
        pure (graphState g ++ [("den_ref", jSym (denChains chains length oid))]))
      pure (res.setObjVal! "branches" (jList br Json.str))
  | "og.from_optrees" => some do
      let trees ← fList j "trees" fun t => do
        let a ← getArr t
        if a.size != 2 then throw "tree entry arity"
        pure (⟨(← getTree 64 a[1]!), (← getInt a[0]!)⟩ : OpTree Rat)
      let length ← fInt j "length"
      let oid ← fInt j "oid_identity"
      pure <| jExcept (do
        let g ← fromOptrees trees length oid
        pure (graphState g ++ [("den_ref", jSym (denTrees trees length oid))]))
  | "og.from_automaton" => some do
      let nodes ← fList j "nodes" getRawNode
      let edges ← fList j "edges" getAutEdge
      let term ← fList j "term" getInt
      let length ← fInt j "length"
      pure <| jExcept (do
        let ns ← nodes.mapM fun (nid, ein, eout, q) => Node.mk' nid ein eout q
        let es ← edges.mapM fun e => match e with
          | some e => pure e
          | none => throw Err.value
        let a ← AutOp.mk' ns es term
        let g ← fromAutomaton a length
        pure (graphState g ++ [("den_ref", jSym (denAutomaton a length.toNat)),
                               ("aut_cons", Json.bool a.isConsistent)]))
  | "og.rewrite" => some do
      let raw ← getRawGraph (← fld j "graph")
      let steps ← fList j "steps" pure
      match buildGraph raw with
      | .error e => pure (jObj [("ok", Json.bool false), ("err", Json.str e.toString)])
      | .ok g =>
        let outs ← runSteps g steps []
        pure (jObj [("ok", Json.bool true), ("init", jObj (graphState g)), ("steps", Json.arr outs.toArray)])
  | "og.from_opgraph" => some do
      let raw ← getRawGraph (← fld j "graph")
      let qd ← fList j "qd" getInt
      let opmap ← getOpMap (← fld j "opmap")
      let nm ← fBool j "nid_map"
      -- optional: `graph.flip()` before the conversion (F18)
      let fl := match fOpt j "flip" with
        | some b => b.getBool?.toOption == some true
        | none => false
      pure <| jExcept (do
        let g0 ← buildGraph raw
        let g := if fl then g0.flip else g0
        let out ← fromOpgraph qd g opmap nm
        pure [("qD", jList out.qD jIntList),
              ("tensors", jList out.tensors fun A => jList A fun Aa => jList Aa fun Aab => jList Aab fun r => jList r jRat),
              ("nid_map", jList out.nidMap fun (nid, (l, i)) => Json.arr #[jInt nid, jNat l, jNat i]),
              ("dense", jExceptVal (mpoAsMatrix out.tensors) jMat)])
  | "og.den" => some do
      let raw ← getRawGraph (← fld j "graph")
      pure <| jExcept (do
        let g ← buildGraph raw
        let words := g.den.map (·.1)
        pure (graphState g ++ [("den0", jSym (g.denDir false)),
                               ("denF", jSym (symNormalize (words.map fun w => (w, g.denF w))))]))
  | "og.dense" => some do
      let raw ← getRawGraph (← fld j "graph")
      let opmap ← getOpMap (← fld j "opmap")
      let dim ← fNat j "dim"
      pure <| jExcept (do
        let g ← buildGraph raw
        pure [("dense1", jExceptVal (denseOfSym opmap dim g.den) jMat),
              ("dense0", jExceptVal (denseOfSym opmap dim (g.denDir false)) jMat)])
  | "og.chain" => some do
      let (o, q, c, i) ← getChain (← fld j "chain")
      let length ← fInt j "length"
      let oid ← fInt j "oid_identity"
      let opmap ← getOpMap (← fld j "opmap")
      pure <| jExcept (do
        let ch ← (OpChain.mk' o q c i : Except Err (OpChain Rat))
        let jc := fun (x : OpChain Rat) => Json.arr #[jIntList x.oids, jIntList x.qnums, jRat x.coeff, jInt x.istart]
        pure [("chain", jc ch), ("len", jNat ch.length),
              ("padded", jExceptVal (ch.padded length oid) jc),
              ("mat", jExceptVal (ch.asMatrix opmap) jMat),
              ("dense", jExceptVal (do
                  let m ← wordDense opmap ch.oids
                  pure (Mat.scale ch.coeff m)) jMat)])
  | "og.tree" => some do
      let t ← getTree 64 (← fld j "tree")
      let oid ← fInt j "oid_identity"
      let opmap ← getOpMap (← fld j "opmap")
      let d ← fNat j "d"
      pure <| jExcept (do
        pure [("height", jNat t.height),
              ("mat", jExceptVal (t.asMatrix opmap) jMat),
              ("paths", jSym (symNormalize t.paths)),
              ("dense", jExceptVal (denseOfSym opmap (d ^ t.height) (denTreeBare t oid)) jMat)])
  | _ => none

end Ptn.Drv.OpGraph

import Lean.Data.Json
import PtnModel.Model.Basic
/-! JSON helpers for the line-protocol driver. -/
open Lean
namespace Ptn.Drv

abbrev R := Except String

def fld (j : Json) (k : String) : R Json := j.getObjVal? k
def getInt (j : Json) : R Int := j.getInt?
def getNat (j : Json) : R Nat := j.getNat?
def getStr (j : Json) : R String := j.getStr?
def getBool (j : Json) : R Bool := j.getBool?
def getArr (j : Json) : R (Array Json) := j.getArr?
def getList (j : Json) (f : Json → R α) : R (List α) := do
  let a ← j.getArr?
  a.toList.mapM f
def fInt (j : Json) (k : String) : R Int := do getInt (← fld j k)
def fNat (j : Json) (k : String) : R Nat := do getNat (← fld j k)
def fStr (j : Json) (k : String) : R String := do getStr (← fld j k)
def fBool (j : Json) (k : String) : R Bool := do getBool (← fld j k)
def fList (j : Json) (k : String) (f : Json → R α) : R (List α) := do getList (← fld j k) f
def fOpt (j : Json) (k : String) : Option Json := (j.getObjVal? k).toOption

def jInt (i : Int) : Json := Json.num (JsonNumber.fromInt i)
def jNat (n : Nat) : Json := Json.num (JsonNumber.fromNat n)
def jList (l : List α) (f : α → Json) : Json := Json.arr (l.map f).toArray
def jOptNat : Option Nat → Json
  | none => jInt (-1)
  | some n => jNat n
def jPairNat (p : Nat × Nat) : Json := Json.arr #[jNat p.1, jNat p.2]
def jObj (kvs : List (String × Json)) : Json := Json.mkObj kvs

/-- Render a model result: `{"ok":true,...}` or `{"ok":false,"err":kind}`. -/
def jExcept (r : Except Ptn.Err (List (String × Json))) : Json :=
  match r with
  | .ok kvs => jObj (("ok", Json.bool true) :: kvs)
  | .error e => jObj [("ok", Json.bool false), ("err", Json.str e.toString)]

/-- A handler answers ops whose name it knows. -/
abbrev Handler := String → Json → Option (R Json)

end Ptn.Drv

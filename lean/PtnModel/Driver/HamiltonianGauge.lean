import PtnModel.Driver.Util
import PtnModel.Driver.OpGraph
import PtnModel.Model.HamiltonianGauge
/-!
Driver op `ham.gauge`: `molecular_hamiltonian_orbital_gauge_transform(h, u, i)` on the model's own explicit MPO for `L` orbitals
(`h = molecular_hamiltonian_mpo(0, 0, optimize=False)`: tables, `nid_map`, bond dimensions depend on `L` only), over exact
Gaussian rationals.

Request: `{"op":"ham.gauge","L":L,"cases":[[i, u], ...]}` with `u` a list of rows of scalars `[re, im]` (rationals `n` or `[n, d]`).
Reply: `{"ok":true,"nsites":..,"bond_dims":[..],"wf":bool,"results":[{"ok":true,"v_l":..,"v_r":..} | {"ok":false,"err":kind}, ...]}`
or `{"ok":false,"err":kind}` when the construction of `h` itself fails.
-/
open Lean
namespace Ptn.Drv.HamGauge
open Ptn.Og Ptn.Ham
open Ptn.Drv.OpGraph (getRat jRat)

def getG (j : Json) : R GRat := do
  let a ← getArr j
  if a.size != 2 then throw "scalar: expecting [re, im]"
  pure ⟨← getRat a[0]!, ← getRat a[1]!⟩

def jG (x : GRat) : Json := Json.arr #[jRat x.re, jRat x.im]

def jMatG (m : Mat GRat) : Json := jList m fun r => jList r jG

def getCase (j : Json) : R (Int × Mat GRat) := do
  let a ← getArr j
  if a.size != 2 then throw "case: expecting [i, u]"
  let i ← getInt a[0]!
  let u ← getList a[1]! fun r => getList r getG
  pure (i, u)

/-- `0.5`; square roots do not occur in the molecular constructions -/
def consts : Consts Rat := ⟨mkRat 1 2, fun _ => 0⟩

def handle : Handler := fun op j =>
  match op with
  | "ham.gauge" => some do
      let L ← fNat j "L"
      let cases ← fList j "cases" getCase
      match molGaugeH consts L with
      | .error e => pure <| jObj [("ok", Json.bool false), ("err", Json.str e.toString)]
      | .ok h =>
        pure <| jObj [("ok", Json.bool true), ("nsites", jNat h.nsites), ("bond_dims", jList h.bondDims jNat),
          ("wf", Json.bool (h.wf && h.dimsOk)),
          ("results", jList cases fun (i, u) =>
            jExcept ((gaugeTransform h u i).map fun r => [("v_l", jMatG r.1), ("v_r", jMatG r.2)]))]
  | _ => none

end Ptn.Drv.HamGauge

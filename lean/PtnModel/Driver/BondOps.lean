import PtnModel.Driver.Kernels
import PtnModel.Model.BondOps
open Lean
namespace Ptn.Drv.BondOps
open Ptn.BondOps

def handle : Handler := fun op j =>
  match op with
  | "bond.qr" => some do
      let A ← parseMat (← fld j "A")
      let q0 ← parseIntList (← fld j "q0")
      let q1 ← parseIntList (← fld j "q1")
      let k ← parseKernels j
      pure <| jExcept ((qr k.dqr A q0 q1).map fun (Q, Rm, qi) =>
        [("Q", jMat Q), ("R", jMat Rm), ("qinterm", jIntList qi)])
  | "bond.svd" => some do
      let A ← parseMat (← fld j "A")
      let q0 ← parseIntList (← fld j "q0")
      let q1 ← parseIntList (← fld j "q1")
      let tol ← parseRat (← fld j "tol")
      let k ← parseKernels j
      pure <| jExcept ((splitMatrixSvd k.dsvd k.dnorm k.dargsort A q0 q1 tol).map fun (u, s, v, q) =>
        [("u", jMat u), ("s", jRatList s), ("v", jMat v), ("q", jIntList q)])
  | "bond.rbi" => some do
      let s ← parseRatList (← fld j "s")
      let tol ← parseRat (← fld j "tol")
      let k ← parseKernels j
      pure <| jObj [("ok", Json.bool true), ("idx", jNatList (retainedBondIndices k.dnorm k.dargsort s tol))]
  | _ => none

end Ptn.Drv.BondOps

import PtnModel.Driver.Util
import PtnModel.Driver.OpGraph
import PtnModel.Model.HamiltonianSpinGraph
/-!
Driver ops `ham.*`: the model of `pytenet/hamiltonian.py` executed over the scalars `Q23 = ℚ(√2, √3)`
(rationals are embedded; `√2` occurs in the spin-1 tables, `√1, √2, √3` in the Bose-Hubbard tables for `d ≤ 4`).

Encoding of a scalar: a rational (`n` or `[n, d]`) or `{"q": [a, b, c, e]}` for `a + b√2 + c√3 + e√6`.
-/
open Lean
namespace Ptn.Drv.Ham
open Ptn.Og Ptn.Ham
open Ptn.Drv.OpGraph (getRat jRat jIntList getRawGraph buildGraph)

/-- `a + b√2 + c√3 + e√6` -/
structure Q23 where
  a : Rat
  b : Rat
  c : Rat
  e : Rat
  deriving DecidableEq

namespace Q23
def ofRat (r : Rat) : Q23 := ⟨r, 0, 0, 0⟩
instance : OfNat Q23 0 := ⟨ofRat 0⟩
instance : OfNat Q23 1 := ⟨ofRat 1⟩
instance : Add Q23 := ⟨fun x y => ⟨x.a + y.a, x.b + y.b, x.c + y.c, x.e + y.e⟩⟩
instance : Neg Q23 := ⟨fun x => ⟨-x.a, -x.b, -x.c, -x.e⟩⟩
instance : Mul Q23 := ⟨fun x y =>
  ⟨x.a * y.a + 2 * (x.b * y.b) + 3 * (x.c * y.c) + 6 * (x.e * y.e),
   x.a * y.b + x.b * y.a + 3 * (x.c * y.e + x.e * y.c),
   x.a * y.c + x.c * y.a + 2 * (x.b * y.e + x.e * y.b),
   x.a * y.e + x.e * y.a + x.b * y.c + x.c * y.b⟩⟩
end Q23

/-- `0.5` and `np.sqrt(n)` for `n ≤ 4` (and perfect squares up to 9); other radicands are not representable: 0 -/
def consts : Consts Q23 :=
  ⟨Q23.ofRat (mkRat 1 2), fun n =>
    match n with
    | 0 => 0
    | 1 => 1
    | 2 => ⟨0, 1, 0, 0⟩
    | 3 => ⟨0, 0, 1, 0⟩
    | 4 => Q23.ofRat 2
    | _ => 0⟩

/-! ### encoding -/

def jQ (x : Q23) : Json :=
  if x.b == 0 && x.c == 0 && x.e == 0 then jRat x.a
  else jObj [("q", Json.arr #[jRat x.a, jRat x.b, jRat x.c, jRat x.e])]

def getQ (j : Json) : R Q23 := do
  let r ← getRat j
  pure (Q23.ofRat r)

def jMatQ (m : Mat Q23) : Json := jList m fun r => jList r jQ

def jOpmap (o : OpMap Q23) : Json := jList o fun (oid, m) => Json.arr #[jInt oid, jMatQ m]

def jChain (c : OpChain Q23) : Json := Json.arr #[jIntList c.oids, jIntList c.qnums, jQ c.coeff, jInt c.istart]

def jOpicsQ (l : List (Int × Q23)) : Json := jList l fun p => Json.arr #[jInt p.1, jQ p.2]

def jNode (k : Int) (n : Node) : Json := Json.arr #[jInt k, jInt n.nid, jIntList n.eidsIn, jIntList n.eidsOut, jInt n.qnum]

def jGraphQ (g : Graph Q23) : Json :=
  jObj [("nodes", jList g.nodes fun (k, n) => jNode k n),
        ("edges", jList g.edges fun (k, e) => Json.arr #[jInt k, jInt e.eid, Json.arr #[jInt e.nids.1, jInt e.nids.2], jOpicsQ e.opics]),
        ("term", Json.arr #[jInt g.nidTerminal.1, jInt g.nidTerminal.2])]

def jMpo (m : MpoOut Q23) : Json :=
  jObj [("qD", jList m.qD jIntList),
        ("tensors", jList m.tensors fun A => jList A fun Aa => jList Aa fun Aab => jList Aab fun r => jList r jQ),
        ("nid_map", jList m.nidMap fun (nid, (l, i)) => Json.arr #[jInt nid, jNat l, jNat i])]

def jErrObj (e : Err) : Json := jObj [("err", Json.str e.toString)]

def jEx {α : Type} (r : Except Err α) (f : α → Json) : Json :=
  match r with
  | .ok v => f v
  | .error e => jErrObj e

def jWidths (g : Graph Q23) : Json := jEx (graphWidths g) fun w => jList w jNat

/-- the result of a constructor: graph handed to `from_opgraph`, the MPO, the bond dimensions -/
def jBuilt (b : Built Q23) : Json :=
  jObj [("graph", jGraphQ b.graph), ("mpo", jMpo b.mpo), ("widths", jWidths b.graph)]

def jFam (f : Fam) : Json :=
  jList f fun (key, inner) => Json.arr #[jIntList key, jList inner fun (k, n) => Json.arr #[jInt k, jInt n.nid]]

def jIdFam (d : List (Int × Node)) : Json := jList d fun (k, n) => Json.arr #[jInt k, jInt n.nid]

def jFams (idL idR : List (Int × Node)) (fs : List (String × Fam)) : Json :=
  jObj ([("identity_l", jIdFam idL), ("identity_r", jIdFam idR)] ++ fs.map fun (k, f) => (k, jFam f))

def jMolNodes (n : MolNodes) : Json :=
  jFams n.identityL n.identityR
    [("a_dag_l", n.aDagL), ("a_ann_l", n.aAnnL), ("a_dag_a_dag_l", n.aDagADagL), ("a_ann_a_ann_l", n.aAnnAAnnL),
     ("a_dag_a_ann_l", n.aDagAAnnL), ("a_dag_r", n.aDagR), ("a_ann_r", n.aAnnR), ("a_dag_a_dag_r", n.aDagADagR),
     ("a_ann_a_ann_r", n.aAnnAAnnR), ("a_dag_a_ann_r", n.aDagAAnnR)]

def jSpinNodes (n : SpinNodes) : Json :=
  jFams n.identityL n.identityR
    [("a_dag_l", n.aDagL), ("a_ann_l", n.aAnnL), ("a_dag_a_dag_l", n.aDagADagL), ("a_ann_a_ann_l", n.aAnnAAnnL),
     ("a_dag_a_ann_l", n.aDagAAnnL), ("a_dag_r", n.aDagR), ("a_ann_r", n.aAnnR), ("a_dag_a_dag_r", n.aDagADagR),
     ("a_ann_a_ann_r", n.aAnnAAnnR), ("a_dag_a_ann_r", n.aDagAAnnR)]

def jAut (a : AutOp Q23) : Json :=
  jObj [("nodes", jList a.nodes fun (k, n) => jNode k n),
        ("edges", jList a.edges fun (k, e) => Json.arr #[jInt k, jInt e.eid, Json.arr #[jInt e.nids.1, jInt e.nids.2],
                    jOpicsQ (e.opics 0), Json.bool (e.active 0)]),
        ("term", Json.arr #[jInt a.nidTerminal.1, jInt a.nidTerminal.2])]

/-! ### the constructors -/

/-- a chain-template model: templates, tables, translated chain list, and the compiled result -/
def latticeReply (lat : Except Err (Lattice Q23)) (L : Int) : Json :=
  match lat with
  | .error e => jObj [("ok", Json.bool false), ("err", Json.str e.toString)]
  | .ok lat =>
    jObj [("ok", Json.bool true), ("qd", jIntList lat.qd), ("opmap", jOpmap lat.opmap),
          ("lopchains", jList lat.lopchains jChain), ("oid_identity", jInt lat.oidIdentity),
          ("chains", jList (translateChains lat.lopchains L) jChain),
          ("res", jEx (localOpchainsToMpo lat L) jBuilt)]

def get3 (ps : List Q23) : R (Q23 × Q23 × Q23) :=
  match ps with
  | [x, y, z] => pure (x, y, z)
  | _ => throw "expecting three parameters"

def getT2 (j : Json) : R (List (List Q23)) := getList j fun r => getList r getQ
def getT4 (j : Json) : R (List (List (List (List Q23)))) :=
  getList j fun a => getList a fun b => getList b fun c => getList c getQ

def handle : Handler := fun op j =>
  match op with
  | "ham.build" => some do
      let model ← fStr j "model"
      match model with
      | "ising" =>
        let L ← fInt j "L"
        let (J, h, g) ← get3 (← fList j "params" getQ)
        pure <| jObj [("ok", Json.bool true), ("qd", jIntList isingQd), ("opmap", jOpmap (isingOpmap : OpMap Q23)),
          ("aut", jEx (isingAutomaton J h g) jAut),
          ("res", jEx (isingBuild L J h g) jBuilt)]
      | "xxz" =>
        let L ← fInt j "L"
        let (J, D, h) ← get3 (← fList j "params" getQ)
        pure (latticeReply (xxzLattice consts J D h) L)
      | "xxz1" =>
        let L ← fInt j "L"
        let (J, D, h) ← get3 (← fList j "params" getQ)
        pure (latticeReply (xxz1Lattice consts J D h) L)
      | "bose" =>
        let L ← fInt j "L"
        let d ← fNat j "d"
        if d > 4 then throw "bose: d > 4 not representable in the driver's scalar field"
        let (t, U, mu) ← get3 (← fList j "params" getQ)
        pure (latticeReply (boseLattice consts d t U mu) L)
      | "fermi_hubbard" =>
        let L ← fInt j "L"
        let (t, U, mu) ← get3 (← fList j "params" getQ)
        pure (latticeReply (fermiHubbardLattice consts t U mu) L)
      | "linfermi" =>
        let coeff ← fList j "coeff" getQ
        let create ← fBool j "create"
        pure <| jObj [("ok", Json.bool true), ("qd", jIntList [0, 1]), ("opmap", jOpmap (linFermiOpmap : OpMap Q23)),
          ("graph0", jEx (linFermiGraph coeff create) jGraphQ),
          ("res", jEx (linFermiBuild coeff create) jBuilt)]
      | "mol" =>
        let tkin ← getT2 (← fld j "tkin")
        let vint ← getT4 (← fld j "vint")
        let opt ← fBool j "optimize"
        if opt then
          pure <| jObj [("ok", Json.bool true), ("qd", jIntList [0, 1]), ("opmap", jOpmap (molOpmap : OpMap Q23)),
            ("chains", jEx (molChains consts tkin vint) fun cs => jList cs jChain),
            ("res", jEx (molBuildOpt consts tkin vint) jBuilt)]
        else
          pure <| jObj [("ok", Json.bool true), ("qd", jIntList [0, 1]), ("opmap", jOpmap (molOpmap : OpMap Q23)),
            ("fams", jEx (pyAssert (decide ((tkin.length : Int) ≥ 4))) fun _ => jMolNodes (MolNodes.init tkin.length)),
            ("graph0", jEx (molExplicitGraph consts tkin vint) fun r => jGraphQ r.2),
            ("res", jEx (molBuildExplicit consts tkin vint) fun r => jBuilt r.2)]
      | "spinmol" =>
        let tkin ← getT2 (← fld j "tkin")
        let vint ← getT4 (← fld j "vint")
        let opt ← fBool j "optimize"
        if opt then
          pure <| jObj [("ok", Json.bool true), ("qd", jIntList spinQd), ("opmap", jOpmap (spinMolOpmap : OpMap Q23)),
            ("chains", jEx (spinMolChains consts tkin vint) fun cs => jList cs jChain),
            ("res", jEx (spinMolBuildOpt consts tkin vint) jBuilt)]
        else
          pure <| jObj [("ok", Json.bool true), ("qd", jIntList spinQd), ("opmap", jOpmap (spinMolOpmap : OpMap Q23)),
            ("fams", jEx (pyAssert (decide ((tkin.length : Int) ≥ 2))) fun _ => jSpinNodes (SpinNodes.init tkin.length)),
            ("graph0", jEx (spinMolExplicitGraph consts tkin vint) fun r => jGraphQ r.2),
            ("res", jEx (spinMolBuildExplicit consts tkin vint) fun r => jBuilt r.2)]
      | _ => throw s!"ham.build: unknown model {model}"
  | "ham.chain_widths" => some do
      let raw ← fList j "chains" Ptn.Drv.OpGraph.getChain
      let length ← fInt j "length"
      let oid ← fInt j "oid_identity"
      pure <| jExcept (do
        let chains ← raw.mapM fun (o, q, c, i) => (OpChain.mk' o q (Q23.ofRat c) i : Except Err (OpChain Q23))
        let g ← fromOpchains chains length oid
        let w ← graphWidths g
        let counts ← siteNodeCounts chains length oid
        pure [("widths", jList w jNat), ("site_counts", jList counts jNat),
              ("nonzero", jNat (chains.filter (fun c => c.coeff != 0)).length)])
  | "ham.simplify_widths" => some do
      let raw ← getRawGraph (← fld j "graph")
      pure <| jExcept (do
        let g ← buildGraph raw
        pyAssert g.isConsistent
        let w0 ← graphWidths g
        let g' ← g.simplify
        let w1 ← graphWidths g'
        pure [("before", jList w0 jNat), ("after", jList w1 jNat)])
  | _ => none

end Ptn.Drv.Ham

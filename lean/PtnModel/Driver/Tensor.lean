import PtnModel.Driver.Util
import PtnModel.Model.Tensor
/-!
JSON encoding of exact scalars and tensors.
real  : integer | [num, den]
complex: {"re": real, "im": real}   (emitted only when im ≠ 0)
matrix/tensor: {"shape":[...], "data": nested lists}
-/
open Lean
namespace Ptn.Drv

def parseRat (j : Json) : R Rat :=
  match j with
  | .arr a => do
      if a.size != 2 then throw "rat: expected [num, den]"
      let n ← getInt a[0]!
      let d ← getInt a[1]!
      if d == 0 then throw "rat: zero denominator"
      pure ((n : Rat) / (d : Rat))
  | _ => do pure ((← getInt j) : Rat)

def parseGRat (j : Json) : R GRat :=
  match j with
  | .obj _ => do pure ⟨← parseRat (← fld j "re"), ← parseRat (← fld j "im")⟩
  | _ => do pure ⟨← parseRat j, 0⟩

def jRat (r : Rat) : Json :=
  if r.den == 1 then jInt r.num else Json.arr #[jInt r.num, jNat r.den]

def jGRat (z : GRat) : Json :=
  if z.im == 0 then jRat z.re else jObj [("re", jRat z.re), ("im", jRat z.im)]

def parseShape (j : Json) : R (List Nat) := fList j "shape" getNat

def parseMat (j : Json) : R (Mat GRat) := do
  let sh ← parseShape j
  match sh with
  | [m, n] =>
    let d ← fList j "data" (fun r => getList r parseGRat)
    pure (Mat.ofLists m n d)
  | _ => throw "matrix: expected 2 dims"

def parseT3 (j : Json) : R (T3 GRat) := do
  let sh ← parseShape j
  match sh with
  | [a, b, c] =>
    let d ← fList j "data" (fun r => getList r (fun s => getList s parseGRat))
    pure (T3.ofLists a b c d)
  | _ => throw "tensor3: expected 3 dims"

def parseT4 (j : Json) : R (T4 GRat) := do
  let sh ← parseShape j
  match sh with
  | [a, b, c, e] =>
    let d ← fList j "data" (fun r => getList r (fun s => getList s (fun t => getList t parseGRat)))
    pure (T4.ofLists a b c e d)
  | _ => throw "tensor4: expected 4 dims"

def jMat (A : Mat GRat) : Json :=
  jObj [("shape", jList [A.m, A.n] jNat), ("data", jList A.toLists (fun r => jList r jGRat))]

def jT3 (A : T3 GRat) : Json :=
  jObj [("shape", jList [A.d0, A.d1, A.d2] jNat),
        ("data", jList A.toLists (fun r => jList r (fun s => jList s jGRat)))]

def jT4 (A : T4 GRat) : Json :=
  jObj [("shape", jList [A.d0, A.d1, A.d2, A.d3] jNat),
        ("data", jList A.toLists (fun r => jList r (fun s => jList s (fun t => jList t jGRat))))]

def parseIntList (j : Json) : R (List Int) := getList j getInt
def parseRatList (j : Json) : R (List Rat) := getList j parseRat
def jIntList (l : List Int) : Json := jList l jInt
def jNatList (l : List Nat) : Json := jList l jNat
def jRatList (l : List Rat) : Json := jList l jRat

end Ptn.Drv

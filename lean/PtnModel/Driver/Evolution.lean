import PtnModel.Driver.MPS
import PtnModel.Driver.Krylov
import PtnModel.Model.Evolution
/-!
Driver ops `evo.tdvp1`, `evo.tdvp2`, `evo.dmrg1`, `evo.dmrg2` (whole calls of evolution.py / minimization.py under the kernel transcript).
-/
open Lean
namespace Ptn.Drv.EvoDrv
open Ptn.Drv.MPSDrv Ptn.Drv.Krylov

local instance : Div GRat := ⟨fun a b =>
  let d := b.re * b.re + b.im * b.im
  ⟨(a.re * b.re + a.im * b.im) / d, (a.im * b.re - a.re * b.im) / d⟩⟩

def evoKernels (k : Kernels) (kk : KK) : Evo.EvoKernels GRat Rat :=
  { dqr := k.dqr, svd := svdK k, dsqrt := k.drfun "sqrt", cnorm := kk.dnorm, deigh := kk.deigh, dexp := kk.dexp,
    dexpm := kk.dexpm, half := ⟨1 / 2, 0⟩ }

def handle : Handler := fun op j =>
  match op with
  | "evo.tdvp1" | "evo.tdvp2" | "evo.dmrg1" | "evo.dmrg2" => some do
      let H ← parseMPO (← fld j "H")
      let ψ ← parseMPS (← fld j "psi")
      let numiter ← fNat j "numiter"
      let nsteps ← fNat j "numsteps"
      let k ← parseKernels j
      let kk ← parseKK j
      let ek := evoKernels k kk
      match op with
      | "evo.tdvp1" =>
        let dt ← parseGRat (← fld j "dt")
        pure <| jExcept ((Evo.integrateLocalSinglesite ek H ψ dt nsteps numiter).map fun (ψ', nrm) =>
          [("mps", jMPS ψ'), ("nrm", jRat nrm), ("wf", Json.bool ψ'.wellFormed)])
      | "evo.tdvp2" =>
        let dt ← parseGRat (← fld j "dt")
        let tol ← parseRat (← fld j "tol")
        pure <| jExcept ((Evo.integrateLocalTwosite ek H ψ dt nsteps numiter tol).map fun (ψ', nrm) =>
          [("mps", jMPS ψ'), ("nrm", jRat nrm), ("wf", Json.bool ψ'.wellFormed)])
      | "evo.dmrg1" =>
        pure <| jExcept ((Evo.dmrgSinglesite ek H ψ nsteps numiter).map fun (ψ', en) =>
          [("mps", jMPS ψ'), ("en", jRatList en), ("wf", Json.bool ψ'.wellFormed)])
      | _ =>
        let tol ← parseRat (← fld j "tol")
        pure <| jExcept ((Evo.dmrgTwosite ek H ψ nsteps numiter tol).map fun (ψ', en) =>
          [("mps", jMPS ψ'), ("en", jRatList en), ("wf", Json.bool ψ'.wellFormed)])
  | _ => none

end Ptn.Drv.EvoDrv

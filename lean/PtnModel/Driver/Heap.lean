import PtnModel.Driver.Util
import PtnModel.Model.Heap
open Lean
namespace Ptn.Drv.HeapDrv

def handle : Handler := fun op j =>
  match op with
  | "heap.spec" => some do
      let fn ← fStr j "fn"
      let sp := Ptn.Heap.spec fn
      pure <| jObj [("ok", Json.bool true), ("writes", jList sp.writes jNat), ("aliases", Json.bool sp.aliases)]
  | _ => none

end Ptn.Drv.HeapDrv

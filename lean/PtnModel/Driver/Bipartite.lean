import PtnModel.Driver.Util
import PtnModel.Model.Bipartite
open Lean
namespace Ptn.Drv.Bipartite
open Ptn.Bip

def parseGraph (j : Json) : R (Except Err BGraph) := do
  let nu ← fInt j "num_u"
  let nv ← fInt j "num_v"
  let edges ← fList j "edges" (fun e => do
    let a ← getArr e
    if a.size != 2 then throw "edge arity"
    pure ((← getInt a[0]!), (← getInt a[1]!)))
  pure (BGraph.mk' nu nv edges)

def jAdj (l : List (List Nat)) : Json := jList l (fun r => jList r jNat)

def handle : Handler := fun op j =>
  match op with
  | "bip.graph" => some do
      let g ← parseGraph j
      pure <| jExcept (g.map fun g => [("adj_u", jAdj g.adjU), ("adj_v", jAdj g.adjV)])
  | "bip.hk" => some do
      let g ← parseGraph j
      pure <| jExcept (do
        let g ← g
        let s ← hopcroftKarpState g
        pure [("matching", jList (matchingOf s) jPairNat),
              ("mu", jList s.mu jOptNat), ("mv", jList s.mv jOptNat),
              ("du", jList s.du jNat), ("dnil", jNat s.dnil)])
  | "bip.mvc" => some do
      let g ← parseGraph j
      pure <| jExcept (do
        let g ← g
        let (uc, vc) ← minimumVertexCover g
        pure [("u_cover", jList uc jNat), ("v_cover", jList vc jNat)])
  | _ => none

end Ptn.Drv.Bipartite

import PtnModel.Driver.Util
import PtnModel.Driver.Bipartite
import PtnModel.Driver.OpGraph
import PtnModel.Driver.BondOps
import PtnModel.Driver.MPS
import PtnModel.Driver.Hist
import PtnModel.Driver.Heap
import PtnModel.Driver.Evolution
import PtnModel.Driver.Krylov
import PtnModel.Driver.Hamiltonian
import PtnModel.Driver.HamiltonianGauge
/-!
Line-protocol driver: one JSON object per input line (`{"op": name, ...}`), one JSON line out.
Compiled to `.lake/build/bin/ptndriver`; imports nothing from Mathlib.
-/
open Lean Ptn.Drv

def handlers : List Handler := [
  Ptn.Drv.Bipartite.handle,
  Ptn.Drv.OpGraph.handle,
  Ptn.Drv.BondOps.handle,
  Ptn.Drv.MPSDrv.handle,
  Ptn.Drv.HistDrv.handle,
  Ptn.Drv.HeapDrv.handle,
  Ptn.Drv.EvoDrv.handle,
  Ptn.Drv.Krylov.handle,
  Ptn.Drv.Ham.handle,
  Ptn.Drv.HamGauge.handle
]

def dispatch (line : String) : String :=
  match Json.parse line with
  | .error e => (jObj [("ok", Json.bool false), ("err", Json.str "driver"), ("msg", Json.str s!"parse: {e}")]).compress
  | .ok j =>
    match fStr j "op" with
    | .error e => (jObj [("ok", Json.bool false), ("err", Json.str "driver"), ("msg", Json.str e)]).compress
    | .ok op =>
      match handlers.findSome? (fun h => h op j) with
      | none => (jObj [("ok", Json.bool false), ("err", Json.str "driver"), ("msg", Json.str s!"unknown op {op}")]).compress
      | some (.error e) => (jObj [("ok", Json.bool false), ("err", Json.str "driver"), ("msg", Json.str e)]).compress
      | some (.ok r) => r.compress

partial def loop (hin hout : IO.FS.Stream) : IO Unit := do
  let line ← hin.getLine
  if line.isEmpty then return ()
  let t := line.trimAscii.toString
  if !t.isEmpty then
    hout.putStrLn (dispatch t)
  loop hin hout

def main : IO Unit := do
  let hin ← IO.getStdin
  let hout ← IO.getStdout
  loop hin hout
  hout.flush

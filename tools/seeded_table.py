#!/usr/bin/env python3
"""Regenerates the table of DESIGN.md §0.5 from seeded/*/meta.json and result.json."""
import json, os, re
V = os.path.dirname(os.path.dirname(os.path.abspath(__file__)))
rows = []
for sid in sorted(os.listdir(os.path.join(V, 'seeded'))):
    d = os.path.join(V, 'seeded', sid)
    if not os.path.exists(os.path.join(d, 'meta.json')):
        continue
    m = json.load(open(os.path.join(d, 'meta.json')))
    r = json.load(open(os.path.join(d, 'result.json'))) if os.path.exists(os.path.join(d, 'result.json')) else {'results': {}}
    res = '; '.join(f'{p}: {v["outcome"]}' + (f' ("{(v["what"] or "")[:70]}")' if v['outcome'] == 'failing-input' else '') for p, v in r['results'].items())
    what = (m.get('what_changed') or '')[:160].replace('\n', ' ').replace('|', '/')
    needs = (m.get('what_it_needs_to_manifest') or '')[:140].replace('\n', ' ').replace('|', '/')
    rows.append(f'| {sid} | {m["property"]} | {what} | {needs} | {res} |')
table = ('### 0.5 Seeded changes: outcome of the checks\n\n'
         'Every change below passes the full 53-test suite (verified by me in the sub-agent\'s scratch worktree) and fails its own demonstration.\n'
         '`failing-input` = the check printed a VIOLATION whose replay is a concrete input violating the property on the changed code; '
         '`no-failing-input-found` = the correspondence/theorem tie broke but the property\'s own oracle found no violation of *that* property '
         '(expected for the secondary properties listed after the first); `missed` = check stayed silent.\n\n'
         '| id | property | change | needs | checks |\n|---|---|---|---|---|\n' + '\n'.join(rows) + '\n')
p = os.path.join(V, 'DESIGN.md')
s = open(p).read()
if '### 0.5 Seeded changes' in s:
    i = s.index('### 0.5 Seeded changes'); j = s.index('\n## 1. What was read')
    s = s[:i] + table + s[j:]
else:
    j = s.index('\n## 1. What was read')
    s = s[:j] + '\n' + table + s[j:]
open(p, 'w').write(s)
print(len(rows), 'rows')

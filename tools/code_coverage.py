#!/venv/bin/python
"""
Which lines of /repo/pytenet do the model<->code correspondence runs execute?

Not a check: a measurement for DESIGN.md §9b ("exactly which parts of the code are modelled").  For every property the
quick-tier correspondence (`harness.props.cXX.correspondence`) is run in a process of its own under coverage.py, with the
shards executed in-process (a sample of the 16 shards: `--shards`), i.e. every executed line of pytenet below was executed
by a call whose result was compared, value by value, with the Lean model's answer for the same call.  The oracle searches
(which only run after a proof obligation or a correspondence broke) are not included.

    tools/code_coverage.py [--shards 3] [--props C01,C02] > .work/coverage.txt ; prints a per-file / per-function table
"""
import os, sys, json, subprocess, argparse, importlib, ast

VERIF = os.path.dirname(os.path.dirname(os.path.abspath(__file__)))
REPO = os.environ.get('PTN_REPO', '/repo')
WORK = os.path.join(VERIF, '.work', 'cov')


def child(pid, nsh):
    import coverage
    cov = coverage.Coverage(data_file=os.path.join(WORK, f'.coverage.{pid}'), include=[os.path.join(REPO, 'pytenet', '*')])
    cov.start()
    from harness import common
    common.env_threads()
    common.ensure_driver()

    def serial(fn, name, tier, seed, nshards=None):
        nshards = 16
        parts = [fn(name, s, nshards, tier, seed) for s in range(0, nshards, max(1, nshards // nsh))][:nsh]
        return common.merge_corr(name, parts)
    common.parallel_shards = serial
    prop = importlib.import_module(f'harness.props.{pid.lower()}')
    res = prop.correspondence('quick', 0)
    cov.stop()
    cov.save()
    bad = [c for c in res if c.disagreements]
    print(json.dumps({'pid': pid, 'cases': sum(c.evaluations for c in res), 'bad': [c.name for c in bad]}))


def functions(path):
    """(qualified name, first line, last line) of every function in a file"""
    out = []
    tree = ast.parse(open(path).read())

    def walk(node, prefix):
        for n in ast.iter_child_nodes(node):
            if isinstance(n, (ast.FunctionDef, ast.AsyncFunctionDef)):
                out.append((prefix + n.name, n.lineno, n.end_lineno))
                walk(n, prefix + n.name + '.')
            elif isinstance(n, ast.ClassDef):
                walk(n, prefix + n.name + '.')
    walk(tree, '')
    return out


def main():
    ap = argparse.ArgumentParser()
    ap.add_argument('--shards', type=int, default=3)
    ap.add_argument('--props', default=','.join(f'C{i:02d}' for i in range(1, 21)))
    ap.add_argument('--child')
    a = ap.parse_args()
    if a.child:
        return child(a.child, a.shards)
    os.makedirs(WORK, exist_ok=True)
    for f in os.listdir(WORK):
        os.remove(os.path.join(WORK, f))
    env = dict(os.environ, PYTHONPATH=f'{REPO}:{VERIF}', OMP_NUM_THREADS='1')
    procs = {p: subprocess.Popen([sys.executable, __file__, '--child', p, '--shards', str(a.shards)], cwd=VERIF, env=env,
                                 stdout=subprocess.PIPE, stderr=subprocess.PIPE, text=True) for p in a.props.split(',')}
    for p, pr in procs.items():
        out, err = pr.communicate()
        print('#', p, out.strip().splitlines()[-1] if out.strip() else 'FAILED ' + err[-400:])
    import coverage
    cov = coverage.Coverage(data_file=os.path.join(WORK, '.coverage'))
    cov.combine([os.path.join(WORK, f) for f in os.listdir(WORK) if f.startswith('.coverage.')])
    cov.save()
    data = cov.get_data()
    tot_s = tot_h = 0
    rows = []
    for path in sorted(data.measured_files()):
        _, stmts, _, missing, _ = cov.analysis2(path)
        hit = set(stmts) - set(missing)
        tot_s += len(stmts); tot_h += len(hit)
        unc = []
        for name, lo, hi in functions(path):
            fs = [s for s in stmts if lo < s <= hi]       # body statements (the def line itself always runs)
            if fs and not any(s in hit for s in fs):
                unc.append(name)
        part = []
        for name, lo, hi in functions(path):
            fs = [s for s in stmts if lo < s <= hi]
            fh = [s for s in fs if s in hit]
            if fs and fh and len(fh) < len(fs) and not any(n2.startswith(name + '.') for n2, _, _ in functions(path)):
                part.append(f'{name} ({len(fh)}/{len(fs)}; missing lines {",".join(str(s) for s in fs if s not in hit)[:60]})')
        rows.append((os.path.relpath(path, REPO), len(hit), len(stmts), unc, part))
    print(f'\n| file | statements executed by compared calls | functions never executed | partially executed |')
    print('|---|---|---|---|')
    for f, h, s, unc, part in rows:
        print(f'| `{f}` | {h}/{s} ({100*h//max(s,1)}%) | {", ".join("`"+u+"`" for u in unc) or "-"} | {"; ".join(part) or "-"} |')
    print(f'\ntotal: {tot_h}/{tot_s} statements ({100*tot_h/max(tot_s,1):.1f}%)')
    for f in os.listdir(WORK):
        os.remove(os.path.join(WORK, f))


if __name__ == '__main__':
    main()

#!/venv/bin/python
"""
Self-test of the failing-input search oracles against the UNCHANGED tree (DESIGN.md §0.2 item 15).

The registered checks start a property's search oracle only after a proof obligation or a correspondence broke, so an
oracle that demands more than the property states (false alarm in waiting) or a defect of the unchanged code that only shows
in floating point (the model is exact arithmetic) would otherwise stay unseen.  This tool runs `prop.search` for every
property on the current /repo for a time budget and several seeds and prints whatever is found.  Anything found needs a
human decision: a genuine finding (-> fix: commit or known_findings.txt) or an oracle to correct.  Not a registered check.

    tools/oracle_scan.py [--budget 60] [--seeds 0,1] [C01 C02 ...]
"""
import argparse, importlib, json, os, sys, subprocess
V = os.path.dirname(os.path.dirname(os.path.abspath(__file__)))


def child(pid, seed, budget):
    sys.path.insert(0, V)
    from harness import common
    common.env_threads()
    prop = importlib.import_module(f'harness.props.{pid.lower()}')
    found, stall = common.run_search(prop, 'quick', seed, [], budget)
    print(json.dumps({'property': pid, 'seed': seed, 'found': common.jsonable(found), 'stall': stall}))


def main():
    ap = argparse.ArgumentParser()
    ap.add_argument('--budget', type=int, default=60)
    ap.add_argument('--seeds', default='0,1')
    ap.add_argument('--child', nargs=2)
    ap.add_argument('props', nargs='*')
    a = ap.parse_args()
    if a.child:
        return child(a.child[0], int(a.child[1]), a.budget)
    props = a.props or [f'C{i:02d}' for i in range(1, 21)]
    repo = os.environ.get('PTN_REPO', '/repo')
    env = dict(os.environ, PYTHONPATH=f'{repo}:{V}', OMP_NUM_THREADS='1')
    jobs = [(p, int(s)) for p in props for s in a.seeds.split(',')]
    bad = 0
    # at most 8 at a time (some searches use pools of their own)
    for k in range(0, len(jobs), 8):
        procs = [(p, s, subprocess.Popen([sys.executable, '-W', 'ignore', __file__, '--budget', str(a.budget), '--child', p, str(s)],
                                         cwd=V, env=env, stdout=subprocess.PIPE, stderr=subprocess.PIPE, text=True)) for p, s in jobs[k:k + 8]]
        for p, s, pr in procs:
            out, err = pr.communicate()
            line = out.strip().splitlines()[-1] if out.strip() else ''
            try:
                r = json.loads(line)
            except Exception:
                print(f'{p} seed={s}: search crashed: {err[-400:]}'); bad += 1; continue
            if r['found'] or r['stall']:
                bad += 1
                print(f'{p} seed={s}: FOUND {json.dumps(r["found"])[:600] if r["found"] else ""} {r["stall"] or ""}')
            else:
                print(f'{p} seed={s}: nothing found in {a.budget} s')
    sys.exit(1 if bad else 0)


if __name__ == '__main__':
    main()

#!/bin/bash
# tools/run_all.sh [tier] [seeds...]  : run every registered + unregistered check, print one line each
cd "$(dirname "$0")/.."
tier=${1:-quick}; shift
seeds=${@:-0}
for s in $seeds; do
  for f in lean/obligations/C*.json; do
    p=$(basename $f .json)
    [ -f harness/props/${p,,}.py ] || continue
    out=$(VERIF_SEED=$s timeout 3000 ./check $p --tier $tier 2>&1 | grep -E "^(OK|VIOLATION|TOOL|KNOWN|Traceback)" | head -2 | tr '\n' ' ')
    echo "seed=$s $p rc=$? $out"
  done
done

#!/usr/bin/env python3
"""
Run the registered checks against the verified property-breaking changes kept under /verif/seeded/<id>/.
Each change is applied to a scratch *copy* of /repo (PTN_REPO), never to /repo itself; the copy is removed afterwards.
usage: tools/seeded_run.py [id ...]        (default: all)        -> prints a table and writes seeded/<id>/result.json
"""
import json, os, shutil, subprocess, sys, time
V = os.path.dirname(os.path.dirname(os.path.abspath(__file__)))


def run(cmd, **kw):
    return subprocess.run(cmd, capture_output=True, text=True, **kw)


def main():
    ids = sys.argv[1:] or sorted(d for d in os.listdir(os.path.join(V, 'seeded')) if os.path.isdir(os.path.join(V, 'seeded', d)))
    rows = []
    for sid in ids:
        d = os.path.join(V, 'seeded', sid)
        meta = json.load(open(os.path.join(d, 'meta.json')))
        props = [meta['property']] + meta.get('also_checked', [])
        cp = os.path.join(V, '.work', f'seed_{sid}')
        shutil.rmtree(cp, ignore_errors=True)
        run(['git', 'clone', '-q', '/repo', cp])
        r = run(['git', 'apply', os.path.join(d, 'patch.diff')], cwd=cp)
        if r.returncode:
            rows.append((sid, 'patch does not apply: ' + r.stderr[:200])); continue
        res = {}
        for p in props:
            t0 = time.time()
            env = dict(os.environ, PTN_REPO=cp, VERIF_SEED=os.environ.get('VERIF_SEED', '0'))
            o = run([os.path.join(V, 'check'), p, '--tier', os.environ.get('VERIF_TIER', 'quick')], env=env, cwd=V)
            line = [l for l in o.stdout.split('\n') if l.startswith('VIOLATION') or l.startswith('OK')]
            kind = 'missed'
            rp = None
            if o.returncode == 1 and line and line[0].startswith('VIOLATION'):
                kind = 'no-failing-input-found' if line[0].endswith('no-failing-input-found') else 'failing-input'
                rp = line[0].split('replay=')[1].split()[0]
            elif o.returncode not in (0, 1):
                kind = f'tool-error({o.returncode})'
            what = None
            if rp and os.path.exists(rp):
                what = json.load(open(rp)).get('what')
                os.remove(rp)
            res[p] = {'outcome': kind, 'what': what, 'wall_s': round(time.time() - t0, 1)}
        shutil.rmtree(cp, ignore_errors=True)
        json.dump({'id': sid, 'results': res, 'repo_commit': run(['git', '-C', '/repo', 'log', '--format=%h', '-1']).stdout.strip()},
                  open(os.path.join(d, 'result.json'), 'w'), indent=1)
        rows.append((sid, res))
    for sid, res in rows:
        print(sid, json.dumps(res))


main()

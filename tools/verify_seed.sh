#!/bin/bash
# tools/verify_seed.sh <worktree> <seed-id> : confirm suite passes with the change, demo fails with / passes without; then keep under seeded/<id>/
set -u
W=$1; ID=$2; V=$(cd "$(dirname "$0")/.." && pwd)
cd $W || exit 2
git diff -- pytenet > /tmp/_cur.diff
if ! diff -q /tmp/_cur.diff patch.diff >/dev/null; then echo "NOTE: patch.diff differs from current git diff; using current diff"; cp /tmp/_cur.diff patch.diff; fi
[ -s patch.diff ] || { echo "empty patch"; exit 2; }
suite=$(OMP_NUM_THREADS=2 PYTHONPATH=$W /venv/bin/python -m pytest -q -p no:cacheprovider -n 8 2>&1 | tail -1)
echo "suite with change: $suite"
PYTHONPATH=$W OMP_NUM_THREADS=1 timeout 600 /venv/bin/python -W ignore demo.py > /tmp/_demo_with.txt 2>&1; rc_with=$?
git apply -R patch.diff
PYTHONPATH=$W OMP_NUM_THREADS=1 timeout 600 /venv/bin/python -W ignore demo.py > /tmp/_demo_without.txt 2>&1; rc_without=$?
git apply patch.diff
echo "demo with change: exit $rc_with ; without: exit $rc_without"
case "$suite" in *"53 passed"*) ok1=1;; *) ok1=0;; esac
if [ $ok1 = 1 ] && [ $rc_with = 1 ] && [ $rc_without = 0 ]; then
  mkdir -p $V/seeded/$ID && cp patch.diff demo.py $V/seeded/$ID/
  python3 - "$W" "$V/seeded/$ID" "$suite" "$rc_with" "$rc_without" <<'PY'
import json, sys
w, d, suite, a, b = sys.argv[1:]
m = json.load(open(w + '/meta.json'))
m['verified_by_me'] = {'suite_with_change': suite.strip(), 'demo_exit_with_change': int(a), 'demo_exit_without_change': int(b),
                       'demo_output_with_change_tail': open('/tmp/_demo_with.txt').read()[-600:],
                       'how': 'tools/verify_seed.sh in the sub-agent\'s scratch worktree (full suite, demo with and without the patch)'}
json.dump(m, open(d + '/meta.json', 'w'), indent=1)
PY
  echo "KEPT as seeded/$ID"
else
  echo "REJECTED"
fi

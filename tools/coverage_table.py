#!/usr/bin/env python3
"""Regenerates DESIGN.md §9 (coverage summary) from lean/obligations/*.json."""
import json, os, re, glob
V = os.path.dirname(os.path.dirname(os.path.abspath(__file__)))
rows = []
for f in sorted(glob.glob(os.path.join(V, 'lean', 'obligations', 'C*.json'))):
    pid = os.path.basename(f)[:-5]
    o = json.load(open(f))
    names = ', '.join('`' + t['name'].split('.')[-1] + '`' for t in o['theorems'])
    npv = '; '.join(x.replace('\n', ' ').replace('|', '/')[:220] for x in o.get('not_proved', [])) or '—'
    rows.append(f'| {pid} | {len(o["theorems"])} | {names} | {npv} |')
txt = ('## 9. Coverage summary (generated from `lean/obligations/*.json` by `tools/coverage_table.py`)\n\n'
       'Every theorem listed is machine-checked on every run of the property\'s check (`lake build` of its module + `#print axioms` ⊆ '
       '{propext, Classical.choice, Quot.sound}); the clause each one carries is in the obligations file and in the evidence. '
       'The last column is what is *not* carried by a theorem (left to the exact correspondence and, after a break, to the oracle).\n\n'
       '| id | # | theorems | not proved (correspondence / oracle only) |\n|---|---|---|---|\n' + '\n'.join(rows) + '\n\n'
       '`not_applicable`: none. Two clauses are outside what a theorem of this family can carry and are labelled as such in MANIFEST/obligations: '
       'C20\'s Schmidt-rank equality for generic parameters (generic reals, numerical rank) and the conjugation identity of C07\'s gauge-transform sentence '
       '(the transform is modelled and compared exactly on monomial unitaries; the identity itself is checked numerically on every run). '
       'Clauses that are FALSE on the real code are listed as known findings (F10, F13-F17, section 0.3) and printed as KNOWN-FINDING by the checks.\n\n')
p = os.path.join(V, 'DESIGN.md')
s = open(p).read()
i = s.index('## 9. Coverage summary')
j = s.index('## 10. Build order')
s = s[:i] + txt + s[j:]
open(p, 'w').write(s)
print(len(rows), 'rows')

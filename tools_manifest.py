#!/usr/bin/env python3
"""Regenerates MANIFEST.json from harness/manifest_src.py (single source of truth for levels and notes)."""
import json, os, re, sys
sys.path.insert(0, os.path.dirname(os.path.abspath(__file__)))
from harness.manifest_src import CHECKS, NOT_APPLICABLE, NOTES

props = [json.loads(l) for l in open('properties.jsonl')]
ids = [p['id'] for p in props]
checks = []
for pid in ids:
    if pid in CHECKS:
        c = CHECKS[pid]
        nthm = len(json.load(open(f'lean/obligations/{pid}.json'))['theorems'])
        c = dict(c, text=re.sub(r'\(\d+ theorems\)', f'({nthm} theorems)', c['text']))
        checks.append({
            'property_id': pid,
            'quick_cmd': f'./check {pid} --tier quick',
            'thorough_cmd': f'./check {pid} --tier thorough',
            'evidence_file': f'evidence/{pid}.json',
            'replay_cmd_template': './check replay {path}',
            'engine': 'lean4-model+correspondence',
            'level_claimed': {'category': 'proof', 'text': c['text'], 'design_ref': c.get('design_ref', 'DESIGN.md §7')},
            'level_note': c['note'],
            'technique': c.get('technique', 'Lean 4 theorems over a hand-written model + differential correspondence model<->code'),
        })
na = [{'property_id': pid, 'reason': NOT_APPLICABLE.get(pid, 'check not built yet (work in progress)')} for pid in ids if pid not in CHECKS]
m = {
    'version': 1,
    'setup_cmd': './setup.sh',
    'hooks': {
        'guard': 'PYTENET_VERIF',
        'enable': 'no source hooks are needed: the harness imports /repo\'s working tree (PYTHONPATH) and observes by wrapping module-level names in its own process',
        'baseline_off_cmd': 'cd /repo && /venv/bin/python -m pytest -ra -q -p no:cacheprovider --timeout=900 --continue-on-collection-errors',
        'source_commits': [],
        'add_only': True,
    },
    'engines': [{'name': 'lean4-model+correspondence', 'path': 'lean/', 'serves_properties': [c['property_id'] for c in checks],
                 'kind_free_text': 'Lean 4 library PtnModel (model, proofs, property theorems), compiled line-protocol driver ptndriver, Python harness harness/'}],
    'checks': checks,
    'notes': NOTES,
    'not_applicable': na,
}
json.dump(m, open('MANIFEST.json', 'w'), indent=1)
print('checks:', [c['property_id'] for c in checks])

#!/bin/bash
# Offline setup: build the compiled driver and every module named in lean/obligations/*.json (Mathlib is on the toolchain path).
cd "$(dirname "$0")"
mkdir -p .work evidence replays
mods=$(python3 - <<'PY'
import json, glob
ms = []
for f in sorted(glob.glob('lean/obligations/*.json')):
    for m in json.load(open(f))['modules']:
        if m not in ms:
            ms.append(m)
print(' '.join(ms))
PY
)
./lk build ptndriver || exit 1
./lk build $mods || echo "setup: some proof modules failed to build (the checks of the affected properties will report it)"
exit 0

"""Generators and encoders for MPS / MPO objects (sector-consistent charges, exactly representable entries)."""
import numpy as np
from . import exact, gen


def rand_qd(rng, d):
    k = int(rng.integers(0, 6))
    if k == 0:
        return np.zeros(d, dtype=int)
    if k == 1:
        return np.arange(d, dtype=int)
    if k == 2:
        return rng.integers(-1, 2, d).astype(int)
    if k == 3:
        return (np.arange(d) % 2).astype(int)
    if k == 4:
        # encoded pairs
        return ((rng.integers(0, 2, d) << 16) + rng.integers(-1, 2, d)).astype(int)
    return -np.arange(d, dtype=int)


def rand_bonds(rng, qd, L, maxD, consistent=True, mpo=False):
    """bond charge lists qD[0..L], boundary bonds of dimension 1"""
    qD = [np.array([int(rng.integers(-1, 2)) if rng.random() < 0.5 else 0])]
    for i in range(1, L):
        D = int(rng.integers(1, maxD + 1))
        if consistent:
            prev = qD[-1]
            if mpo:
                step = np.array([a - b for a in qd for b in qd])
            else:
                step = np.array(qd)
            q = np.array([int(rng.choice(prev)) + int(rng.choice(step)) for _ in range(D)])
            if rng.random() < 0.2:
                q[int(rng.integers(0, D))] += int(rng.integers(-2, 3))
        else:
            q = rng.integers(-2, 3, D)
        qD.append(q.astype(int))
    # right boundary: reachable charge (mostly)
    if L >= 1:
        prev = qD[-1]
        step = np.array([a - b for a in qd for b in qd]) if mpo else np.array(qd)
        if consistent and rng.random() < 0.9:
            qD.append(np.array([int(rng.choice(prev)) + int(rng.choice(step))]))
        else:
            qD.append(np.array([int(rng.integers(-2, 3))]))
    return qD


def rand_mps(rng, L=None, d=None, maxD=3, dtype=None, consistent=True, qd=None, boundary=None):
    import pytenet as ptn
    L = L if L is not None else int(rng.integers(1, 5))
    d = d if d is not None else int(rng.integers(1, 4))
    dtype = dtype or str(rng.choice(['int', 'float', 'complex']))
    qd = qd if qd is not None else rand_qd(rng, d)
    qD = rand_bonds(rng, qd, L, maxD, consistent)
    if boundary is not None:
        qD[0] = np.array([boundary[0]]); qD[-1] = np.array([boundary[1]])
    mps = ptn.MPS(qd, qD, fill='postpone')
    for i in range(L):
        shape = (len(qd), len(qD[i]), len(qD[i + 1]))
        A = gen.exact_values(rng, shape, dtype)
        mask = ptn.qnumber_outer_sum([mps.qd, mps.qD[i], -mps.qD[i + 1]])
        mps.A[i] = np.where(mask == 0, A, 0).astype(A.dtype)
    return mps


def rand_mpo(rng, L=None, d=None, maxD=3, dtype=None, consistent=True, qd=None, boundary=None):
    import pytenet as ptn
    L = L if L is not None else int(rng.integers(1, 4))
    d = d if d is not None else int(rng.integers(1, 3))
    dtype = dtype or str(rng.choice(['int', 'float', 'complex']))
    qd = qd if qd is not None else rand_qd(rng, d)
    qD = rand_bonds(rng, qd, L, maxD, consistent, mpo=True)
    if boundary is not None:
        qD[0] = np.array([boundary[0]]); qD[-1] = np.array([boundary[1]])
    mpo = ptn.MPO(qd, qD, fill='postpone')
    for i in range(L):
        shape = (len(qd), len(qd), len(qD[i]), len(qD[i + 1]))
        A = gen.exact_values(rng, shape, dtype)
        mask = ptn.qnumber_outer_sum([mpo.qd, -mpo.qd, mpo.qD[i], -mpo.qD[i + 1]])
        mpo.A[i] = np.where(mask == 0, A, 0).astype(A.dtype)
    return mpo


def copy_mps(m):
    import copy
    return copy.deepcopy(m)


def copy_mpo(m):
    import copy
    return copy.deepcopy(m)


def enc_mp(m):
    """works for MPS and MPO"""
    return {'qd': exact.enc_ints(m.qd), 'qD': [exact.enc_ints(q) for q in m.qD], 'A': [exact.enc_array(a) for a in m.A]}


def snapshot(m):
    return (m.qd.tobytes(), tuple(np.asarray(q).tobytes() for q in m.qD), tuple(a.tobytes() for a in m.A), tuple(a.shape for a in m.A))


def is_wf_mps(m):
    import pytenet as ptn
    if len(m.qD) != len(m.A) + 1:
        return False
    for i, a in enumerate(m.A):
        if a.shape != (len(m.qd), len(m.qD[i]), len(m.qD[i + 1])):
            return False
        if not ptn.is_qsparse(a, [m.qd, m.qD[i], -np.asarray(m.qD[i + 1])]):
            return False
    return True


def is_wf_mpo(m):
    import pytenet as ptn
    if len(m.qD) != len(m.A) + 1:
        return False
    for i, a in enumerate(m.A):
        if a.shape != (len(m.qd), len(m.qd), len(m.qD[i]), len(m.qD[i + 1])):
            return False
        if not ptn.is_qsparse(a, [m.qd, -m.qd, m.qD[i], -np.asarray(m.qD[i + 1])]):
            return False
    return True

"""
Kernel substitution for `pytenet/krylov.py` ("uninterpreted-kernel" mode).

`patched(rec)` rebinds the module globals `np`, `eigh_tridiagonal`, `expm` of `pytenet.krylov`:
  * `np.linalg.norm`  -> fake: a function of the input vector (cached per recorder) with values in {0.5, 1, 2, 4} (powers of two,
                         so that `w / beta` stays exact), steerable through `rec.plan` (value for the k-th *new* input):
                         0 / 'tiny' (2^-60, below the breakdown threshold) reach the early-return paths; for an all-zero input also the
                         threshold itself ('thr'), half of it ('below') and twice it ('above');
  * `np.exp`          -> fake: dyadic Gaussian rational per entry, a function of the entry;
  * `eigh_tridiagonal`, `expm` -> fakes returning small dyadic matrices of the right shapes, functions of the input;
  * everything else (`np.vdot`, `np.zeros`, `np.finfo`, `@`, ...) is the real NumPy.
Every kernel call is recorded as {"k": name, "in": ..., "out": ...} (names `cnorm`, `exp`, `eigh`, `expm`) for the Lean driver.
"""
import contextlib
from fractions import Fraction
import numpy as np
from . import exact
from .kernels import Recorder, _rng_for

REAL_NP = np
NORM_VALS = [1.0, 1.0, 2.0, 1.0, 0.5, 2.0, 4.0, 1.0]
SMALL = [0, 1, -1, 0.5, -0.5, 2, 1, 0, -1, 1.5]
TINY = 2.0 ** -60


# exact encoders without size limits (tiny norm values such as 2^-60 or the threshold itself must be representable; whether a run
# was exact is decided by `certified_exact`, not by the size of the encoded numbers).  Only nan/inf raise `Inexact`.
def enc_real(x):
    if isinstance(x, (int, REAL_NP.integer)):
        return int(x)
    xf = float(x)
    if xf != xf or xf in (float('inf'), float('-inf')):
        raise exact.Inexact('nan/inf')
    fr = Fraction(xf)
    return int(fr.numerator) if fr.denominator == 1 else [int(fr.numerator), int(fr.denominator)]


def enc_scalar(z):
    z = complex(z)
    if z.imag == 0:
        return enc_real(z.real)
    return {'re': enc_real(z.real), 'im': enc_real(z.imag)}


def enc_array(a):
    a = REAL_NP.asarray(a)

    def rec(x):
        if x.ndim == 0:
            return enc_scalar(x[()])
        return [rec(y) for y in x]
    return {'shape': [int(t) for t in a.shape], 'data': rec(a)}


def enc_reals(v):
    return [enc_real(x) for x in REAL_NP.asarray(v).reshape(-1)]


class KryRecorder(Recorder):
    def __init__(self, plan=()):
        super().__init__()
        self.plan = list(plan)
        self.norm_cache = {}
        self.norm_values = []      # values handed out for new inputs, in order
        self.raw = []              # raw arrays seen/produced by the kernels (for the exactness certificate)


def _key(x):
    a = REAL_NP.ascontiguousarray(REAL_NP.asarray(x, dtype=complex))
    a = (a.real + 0.0) + 1j * (a.imag + 0.0)
    return (a.shape, a.tobytes())


class _Linalg:
    def __init__(self, rec):
        self._rec = rec

    def __getattr__(self, name):
        return getattr(REAL_NP.linalg, name)

    def norm(self, x, *a, **kw):
        rec = self._rec
        x = REAL_NP.asarray(x)
        assert x.ndim == 1 and not a and not kw
        key = _key(x)
        if key in rec.norm_cache:
            w = rec.norm_cache[key]
        else:
            idx = len(rec.norm_cache)
            tok = rec.plan[idx] if idx < len(rec.plan) else None
            n = len(x)
            thr = 100 * n * REAL_NP.finfo(float).eps
            iszero = not REAL_NP.any(x)
            if tok == 'tiny':
                w = TINY
            elif tok in ('thr', 'below', 'above') and iszero:
                w = {'thr': thr, 'below': thr / 2, 'above': 2 * thr}[tok]
            elif isinstance(tok, (int, float)):
                w = float(tok)
            else:
                r = _rng_for('cnorm', x)
                w = float(r.choice(NORM_VALS))
                # the true norm when it is a power of two (keeps unit vectors unit: deep exact runs), most of the time
                xf = REAL_NP.ascontiguousarray(REAL_NP.asarray(x, dtype=complex)).view(float)
                ss = sum(Fraction(float(t)) ** 2 for t in xf) if REAL_NP.all(REAL_NP.isfinite(xf)) else 0
                if ss > 0 and r.random() < 0.75:
                    num, den = ss.numerator, ss.denominator
                    if num & (num - 1) == 0 and den & (den - 1) == 0 and (num.bit_length() - den.bit_length()) % 2 == 0:
                        w = 2.0 ** ((num.bit_length() - den.bit_length()) // 2)
            rec.norm_cache[key] = w
            rec.norm_values.append(w)
        rec.raw.append(x)
        try:
            rec.add('cnorm', [enc_scalar(v) for v in x], enc_real(w))
        except exact.Inexact:
            rec.inexact = True
        return REAL_NP.float64(w)


def _fake_scalar(tag, z, cplx):
    rng = _rng_for(tag, REAL_NP.array([z]))
    re = float(rng.choice(SMALL))
    im = float(rng.choice(SMALL)) if cplx and rng.random() < 0.7 else 0.0
    return complex(re, im) if cplx else re


class KryNpShim:
    def __init__(self, rec):
        self._rec = rec
        self.linalg = _Linalg(rec)

    def __getattr__(self, name):
        return getattr(REAL_NP, name)

    def exp(self, x):
        x = REAL_NP.asarray(x)
        cplx = REAL_NP.iscomplexobj(x)
        out = REAL_NP.empty(x.shape, dtype=complex if cplx else float)
        for idx in REAL_NP.ndindex(x.shape):
            y = _fake_scalar('exp', x[idx], cplx)
            out[idx] = y
            self._rec.raw += [REAL_NP.asarray(x[idx]), REAL_NP.asarray(y)]
            try:
                self._rec.add('exp', enc_scalar(x[idx]), enc_scalar(y))
            except exact.Inexact:
                self._rec.inexact = True
        return out if out.ndim else out[()]


def _fake_real_matrix(rng, shape):
    return rng.choice(REAL_NP.array(SMALL, dtype=float), size=shape)


def make_eigh(rec):
    def eigh_tridiagonal(d, e, *a, **kw):
        assert not a and not kw
        d = REAL_NP.asarray(d, dtype=float)
        e = REAL_NP.asarray(e, dtype=float)
        k = len(d)
        rng = _rng_for('eigh', REAL_NP.concatenate([d, [7.25], e]))
        w = _fake_real_matrix(rng, (k,))
        U = _fake_real_matrix(rng, (k, k))
        rec.raw += [d, w, U]      # e holds norm outputs
        try:
            rec.add('eigh', {'alpha': enc_reals(d), 'beta': enc_reals(e)}, {'w': enc_reals(w), 'U': enc_array(U)})
        except exact.Inexact:
            rec.inexact = True
        return w, U
    return eigh_tridiagonal


def make_expm(rec):
    def expm(M):
        M = REAL_NP.asarray(M)
        assert M.ndim == 2 and M.shape[0] == M.shape[1]
        rng = _rng_for('expm', M)
        E = _fake_real_matrix(rng, M.shape) + 1j * _fake_real_matrix(rng, M.shape) * (rng.random(size=M.shape) < 0.4)
        rec.raw += [REAL_NP.triu(M), E]      # the subdiagonal holds (multiples of) norm outputs
        try:
            rec.add('expm', enc_array(M), enc_array(E))
        except exact.Inexact:
            rec.inexact = True
        return E
    return expm


@contextlib.contextmanager
def patched(rec):
    import pytenet.krylov as K
    saved = (K.np, K.eigh_tridiagonal, K.expm)
    K.np = KryNpShim(rec)
    K.eigh_tridiagonal = make_eigh(rec)
    K.expm = make_expm(rec)
    try:
        yield rec
    finally:
        K.np, K.eigh_tridiagonal, K.expm = saved


# ----------------------------------------------------------------------------- exactness certificate

def _fracs(arr):
    a = REAL_NP.asarray(arr)
    if a.dtype.kind == 'c':
        a = REAL_NP.ascontiguousarray(a).view(float)
    return [Fraction(float(v)) for v in REAL_NP.asarray(a, dtype=float).reshape(-1)]


def size_bits(values):
    """(a, b): all |x| < 2^a and all denominators <= 2^b"""
    a = b = 0
    for fr in values:
        a = max(a, (abs(fr.numerator) // fr.denominator).bit_length())
        b = max(b, fr.denominator.bit_length() - 1)
    return a, b


def certified_exact(rec, outputs, A, arnoldi):
    """
    Sufficient condition for all float operations of the run to have been exact: every stored number (returned arrays `outputs`,
    kernel inputs, eigh/exp/expm outputs; `rec.raw`) is a multiple of 2^-b below 2^a and the matrix entries are integers below
    2^aA; then the widest intermediate (a term of `np.vdot` against the partially orthogonalised `w` in Arnoldi, the sum
    `np.vdot(A @ v, v)` in Lanczos) needs at most the number of bits computed here.
    Norm outputs (also where they are stored: `beta`, the subdiagonal of `H`) are excluded: they only divide (powers of two, or a
    zero vector), are compared, or multiply a stored vector as a power of two.  The caller passes `outputs` without them.
    """
    vals = []
    for o in list(outputs) + rec.raw:
        vals += _fracs(o)
    a, b = size_bits(vals)
    aA, bA = size_bits(_fracs(A))
    if bA:
        return False
    ln = max(A.shape[0], 1).bit_length() + 1
    need = 2 * a + aA + 2 * ln + 3 + 2 * b
    if arnoldi:
        need = max(need, 3 * a + 2 * ln + 4 + 3 * b)
    return need <= 53

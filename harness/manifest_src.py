"""Source of MANIFEST.json (run tools_manifest.py after editing)."""
NOTES = ('Machine-checked proof in Lean 4 over a hand-written model of pytenet, tied to /repo by a differential correspondence '
         'check on every run (see DESIGN.md). Four genuine defects were repaired with fix: commits (known_findings.txt).')
NOT_APPLICABLE = {}
CHECKS = {}

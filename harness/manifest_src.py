"""Source of MANIFEST.json (run tools_manifest.py after editing)."""
NOTES = ('Machine-checked proof in Lean 4 over a hand-written model of pytenet, tied to /repo by a differential correspondence '
         'check on every run (see DESIGN.md). Four genuine defects were repaired with fix: commits (known_findings.txt).')
NOT_APPLICABLE = {}
KERNEL_NOTE = ('Trusted: Lean kernel; axioms propext/Classical.choice/Quot.sound only; the hand-written model, tied to /repo by the '
               'exact differential correspondence run in every check (uninterpreted-kernel mode: dense LAPACK/SciPy kernels are replaced by '
               'deterministic fakes on the Python side and by the recorded answers on the model side); kernel contracts are hypotheses; '
               'exact field arithmetic (IEEE rounding not modelled).')
CHECKS = {
 'C03': {
  'text': 'Proof (partial, growing): for all L>=1 (L=1 and L=2 special cases included), d, independent bond profiles over any commutative ring: MPS a+-b, MPO a+-b, MPO product, '
          'apply_operator and the identity MPO have the digit-indexed dense meaning of the corresponding dense expression; merging neighbouring tensors preserves the dense meaning and '
          'as_vector/as_matrix list exactly the amplitudes in row-major digit order (9+ theorems). from_vector(tol=0), split/merge at tol 0 and sparse=dense form are carried by the '
          'exact correspondence (incl. scipy sparse form) until their theorems land (see not_proved in the evidence).',
  'note': KERNEL_NOTE + ' SVDContract is an assumption about np.linalg.svd where used.',
  'design_ref': 'DESIGN.md §7 C03',
 },
 'C18': {
  'text': 'Proof (full): for every well-formed bipartite graph (and BipartiteGraph.__init__ always yields one) the model of Hopcroft-Karp terminates within its fuel, '
          'returns a valid matching of maximum size, and minimum_vertex_cover returns an in-range duplicate-free cover touching every edge whose size equals the matching '
          '(Koenig), hence minimum; its assertion never fires (13 theorems incl. hk_total, hk_maximum, mvc_total, c18_all). Tie to the code: exhaustive exact '
          'correspondence over all edge sets up to 4x4 (5x5 slices in thorough), random graphs to 60x60, duplicates, malformed input; final internal state compared.',
  'note': KERNEL_NOTE + ' No kernel contracts are involved in C18.',
  'design_ref': 'DESIGN.md §7 C18',
 },
 'C11': {
  'text': 'Proof (full): for every m,n>=1, all integer charge vectors (unsorted on either side), any commutative star ring and every dense-QR oracle satisfying the QR contract '
          'on the blocks handed to it: qr returns without error, Q.R = A, Q has orthonormal columns, both factors are block sparse under the returned charges '
          '(sparsity for *every* oracle), D = len(qinterm) <= min(m,n), disjoint charges give the dummy factorization of the zero matrix (12 theorems; QRContract has a witness over RCLike). '
          'Tie to the code: exact correspondence under uninterpreted QR incl. int64 input and half-integer factors.',
  'note': KERNEL_NOTE + ' QRContract is an assumption about np.linalg.qr(mode="reduced").',
  'design_ref': 'DESIGN.md §7 C11',
 },
 'C04': {
  'text': 'Proof (partial, growing): vdot, operator_inner_product, operator_average and operator_density_average equal the digit-indexed dense quantities for all L, d and independent '
          'bond profiles over any commutative star ring (first argument conjugated); environment-block and local-projection theorems are listed under not_proved until they land. '
          'Tie to the code: exact correspondence of all functions of operation.py on Gaussian-integer data.',
  'note': KERNEL_NOTE + ' No kernel contracts are involved in C04.',
  'design_ref': 'DESIGN.md §7 C04',
 },
 'C12': {
  'text': 'Proof (partial): the truncation rule is proved in full for every spectrum, tolerance and every (unstable) sorting permutation over any '
          'linear ordered field: kept indices valid, discarded weight <= tol, kept >= discarded, maximality, positivity, tol=0 keeps exactly the '
          'non-zero values, zero spectrum (13 theorems, Props/C12Rule.lean). The block-SVD glue (isometry, sparsity, error identity of split_matrix_svd, '
          'split_mps_tensor) is modelled and tied to the code by exact correspondence; its theorems are listed under not_proved in the evidence until they land.',
  'note': KERNEL_NOTE + ' NormContract/SortContract/SVDContract are assumptions about np.linalg.norm / np.argsort / np.linalg.svd.',
  'design_ref': 'DESIGN.md §7 C12',
 },
}

"""Source of MANIFEST.json (run tools_manifest.py after editing)."""
NOTES = ('Machine-checked proof in Lean 4 over a hand-written model of pytenet, tied to /repo by a differential correspondence '
         'check on every run (see DESIGN.md). Four genuine defects were repaired with fix: commits (known_findings.txt).')
NOT_APPLICABLE = {}
KERNEL_NOTE = ('Trusted: Lean kernel; axioms propext/Classical.choice/Quot.sound only; the hand-written model, tied to /repo by the '
               'exact differential correspondence run in every check (uninterpreted-kernel mode: dense LAPACK/SciPy kernels are replaced by '
               'deterministic fakes on the Python side and by the recorded answers on the model side); kernel contracts are hypotheses; '
               'exact field arithmetic (IEEE rounding not modelled).')
CHECKS = {
 'C12': {
  'text': 'Proof (partial): the truncation rule is proved in full for every spectrum, tolerance and every (unstable) sorting permutation over any '
          'linear ordered field: kept indices valid, discarded weight <= tol, kept >= discarded, maximality, positivity, tol=0 keeps exactly the '
          'non-zero values, zero spectrum (13 theorems, Props/C12Rule.lean). The block-SVD glue (isometry, sparsity, error identity of split_matrix_svd, '
          'split_mps_tensor) is modelled and tied to the code by exact correspondence; its theorems are listed under not_proved in the evidence until they land.',
  'note': KERNEL_NOTE + ' NormContract/SortContract/SVDContract are assumptions about np.linalg.norm / np.argsort / np.linalg.svd.',
  'design_ref': 'DESIGN.md §7 C12',
 },
}

"""Source of MANIFEST.json (run tools_manifest.py after editing)."""
NOTES = ('Machine-checked proof in Lean 4 over a hand-written model of pytenet, tied to /repo by a differential correspondence '
         'check on every run (see DESIGN.md). Four genuine defects were repaired with fix: commits (known_findings.txt).')
NOT_APPLICABLE = {}
KERNEL_NOTE = ('Trusted: Lean kernel; axioms propext/Classical.choice/Quot.sound only; the hand-written model, tied to /repo by the '
               'exact differential correspondence run in every check (uninterpreted-kernel mode: dense LAPACK/SciPy kernels are replaced by '
               'deterministic fakes on the Python side and by the recorded answers on the model side); kernel contracts are hypotheses; '
               'exact field arithmetic (IEEE rounding not modelled).')
CHECKS = {
 'C08': {
  'text': 'Proof (full for single-site incl. totality; two-site conditional on the run returning): for a Hermitian MPO and purely imaginary dt, single-site TDVP and two-site TDVP with tol_split = 0 keep norm 1 and the '
          'energy of the normalised input for any number of steps and any number of Krylov iterations (mixed-canonical sweep invariant with environment blocks = C04 partial contractions; local Lanczos-'
          'exponential steps preserve norm and <x,H_eff x>; QR / zero-tolerance split steps are pure gauge); both return the norm of the input; single-site TDVP never increases a bond; qd / site count kept '
          'Single-site TDVP is proved to RETURN on every admissible input under the contracts (tdvp1_total; hypotheses: H well formed, EvoCompat, trailing MPO bond charge 0, numiter >= 1) '
          '(20 theorems). Block sparsity and boundary charges of the evolved state are proved in C02 (tdvp1_wf, tdvp2_wf, boundary_kept_tdvp*). Non-mutation of H is trivial in a functional model and is '
          'carried by the exact correspondence of whole calls (H snapshot); totality of the two-site integrator is observed, not proved.',
  'note': KERNEL_NOTE + ' QRKernel, SVDContract/NormContract/SortContract (two-site), NormContract + EighAt per Krylov run, |dexp(i x)| = 1 are assumptions about NumPy/SciPy.',
  'design_ref': 'DESIGN.md §7 C08/C09/C10',
 },
 'C09': {
  'text': 'Proof (partial): the cancellation laws behind time reversibility — a Hermitian Krylov exponential step with dt followed by one with -dt is the identity when both runs exhaust their Krylov '
          'spaces and E(a)E(-a) = 1, for any complex dt, for site tensors and bond matrices, also across the unitary gauge change that the QR of the second call introduces (QR gauge uniqueness proved); '
          'one mirrored pair of single-site sweep steps is reversible (tdvp1_reversible_partial) (6 theorems). Not proved: exactness on a complete manifold and reversibility of complete sweeps / several '
          'steps (the proof attempt also showed the literal "for any bond dimension" needs regularity: no QR may change a bond dimension and bond matrices must be invertible — generic states satisfy this). '
          'These global clauses are decided by the exact correspondence of whole TDVP calls (real / imaginary / complex dt) and, after a break, by the oracle against scipy expm '
          '(complete and over-complete manifolds, |dt| ||H|| up to 1.5, unnormalised and real-dtype inputs).',
  'note': KERNEL_NOTE + ' EighAt/ExpContract assumptions as in C15.',
  'design_ref': 'DESIGN.md §7 C08/C09/C10',
 },
 'C10': {
  'text': 'Proof (partial): single-site DMRG (proved to return on every admissible input: dmrg1_total) and two-site DMRG with tol_split = 0 (conditional on the run returning) (L >= 2, any sweeps / Lanczos iterations): the returned state is normalised, its energy '
          'equals the last reported energy, every reported energy is >= every lower bound of the dense operator and <= the energy of the normalised start, and the reported sequence is non-increasing '
          '(12 theorems). Not proved: the bound by the ground-state energy of the quantum-number sector only (proved for bounds of the whole operator), exactness on a complete manifold, two-site with '
          'tol_split > 0; carried by the exact correspondence of whole calls and the oracle.',
  'note': KERNEL_NOTE + ' QRKernel, SVD/norm/sort contracts (two-site), NormContract, EighAt are assumptions about NumPy/SciPy.',
  'design_ref': 'DESIGN.md §7 C08/C09/C10',
 },
 'C06': {
  'text': 'Proof (full for the listed models): for every L >= 1, all parameters (exact non-vanishing condition stated as an iff) and all Bose dimensions, the constructors of XXZ (spin-1/2, spin-1), '
          'Bose-Hubbard, Fermi-Hubbard (Jordan-Wigner factor), Ising (automaton) and linear_fermionic (Z-string to the right) RETURN, the returned MPO has exactly the documented dense elements, is block '
          'sparse under its quantum numbers (magnetization / particle number / spin; +-1 shift for the fermionic operators) and Hermitian for real parameters (five Hamiltonians) (60 theorems). '
          'Tie: exact correspondence of chain lists, tables, graphs and MPO tensors for L = 1..6 plus an always-on numeric dense comparison.',
  'note': KERNEL_NOTE + ' No kernel contracts. sqrt(2), sqrt(k) of the spin-1 / Bose tables are symbols whose square is given (driver: Q(sqrt2, sqrt3)).',
  'design_ref': 'DESIGN.md §7 C06',
 },
 'C07': {
  'text': 'Proof (partial): for every orbital count and all coefficient tensors the chain enumeration of the bond-optimized spinless and spin-orbital constructions never fails (case analysis, '
          'to_spin_opchain look-ups and charge assertions) and yields well-formed chains, so with C05 the optimized construction succeeds incl. L = 1 and its graph denotes the sum of its chains; '
          'explicit constructions: node ids pairwise distinct, terminal look-ups defined, (spinless, L >= 4) every look-up made by term insertion defined; tensors block sparse whenever a constructor '
          'returns; dense elements of the optimized MPOs equal the sum over the enumerated chains, and for the spinless optimized construction this equals sum_ij t_ij a+_i a_j + 1/2 sum_ijkl v_ijkl a+_i a+_j a_l a_k '
          'with dense Jordan-Wigner matrices (all 13 index orders, anticommutation relations proved); the gauge transform is modelled: shapes and table look-ups for every L, no KeyError and unitarity of the '
          'gauge matrices under a nid_map well-formedness predicate proved for L = 4 and executed for L <= 8; the optimized constructions RETURN iff some enumerated chain is non-zero (33 theorems). Not proved: spin-orbital chain sum = second-quantized operator, optimized = explicit '
          '(compared as complete graphs / MPOs by the correspondence and densely by the oracle); '
          'the conjugation identity of the gauge transform is not proved: it is tied by an exact correspondence on the 32 exactly representable monomial unitaries (L 4..7/8, every pair) and an always-on numerical stream for generic complex unitaries.',
  'note': KERNEL_NOTE + ' No kernel contracts.',
  'design_ref': 'DESIGN.md §7 C07',
 },
 'C20': {
  'text': 'Proof (full for the second and third clause): for arbitrary chain lists every layer of the graph returned by from_opchains — hence every bond dimension of the MPO — has at most as many nodes as '
          'there are chains with non-zero coefficient (chain_bound, chain_bound_mpo; uses the vertex-cover size theorem of C18); simplify keeps the level of every surviving node, so no layer width '
          '(bond dimension) increases (simplify_mono) (10 theorems). The first clause — bond dimension = operator Schmidt rank for generic parameters — cannot be carried by a theorem of this family '
          '(generic reals, numerical rank): bond dimensions of all compiled graphs are part of the exact correspondence, and an always-on numeric stream plus the oracle compare them with SVD ranks (L <= 6).',
  'note': KERNEL_NOTE + ' No kernel contracts.',
  'design_ref': 'DESIGN.md §7 C20',
 },
 'C16': {
  'text': 'Proof (partial correctness, full for the listed rewrites): on every graph passing is_consistent (duplicate-free dictionaries) flip reverses every term, rename_node_id / rename_edge_id / '
          'merge_edges (both cases, exactly under the asserted conditions) / each _simplify_step / simplify / add preserve resp. add the path-sum denotation and keep is_consistent true; each successful '
          'simplify step removes one edge; any finite sequence of these rewrites (history); totality: simplify, _simplify_step, rename_* and add return on every valid graph under the preconditions of the code '
          '(no assertion, no fuel exhaustion) (21 theorems). "Other graph untouched" is trivial in a functional model and is carried by the correspondence (other_unchanged / shares_objects) and the oracle.',
  'note': KERNEL_NOTE + ' No kernel contracts.',
  'design_ref': 'DESIGN.md §7 C16',
 },
 'C05': {
  'text': 'Proof (full): the half-chain partition and the site step preserve the weighted sum for ANY cover routine; from_opchains denotes exactly the sum of padded chains (duplicates, accumulation, '
          'cancellation, single chain with any coefficient, L = 1), the graph is consistent with a single sink, has the requested length, and under the decidable guard ChainsWF the call returns (uses C18); '
          'from_opgraph returns on every consistent graph with charge-consistent operators (incl. the final is_qsparse assertion, parallel edges), its tensors contract to the graph denotation for every '
          'operator map, bond charges are node charges in sorted-id order, the node map locates every node, and the resulting MPO elements / both as_matrix forms equal the sum over the denoted words; '
          'end to end for chain lists (26 theorems). Tie: exact correspondence of complete graphs/MPOs incl. exhaustive small chain lists.',
  'note': KERNEL_NOTE + ' No kernel contracts.',
  'design_ref': 'DESIGN.md §7 C05',
 },
 'C13': {
  'text': 'Proof (full): for both modes, all admissible states and 0 <= tol < 1 under the QR/SVD/norm/sort/abs contracts: compress returns without error, first return value is the norm, '
          'result well formed with no larger bonds, scale in [sqrt(1-L tol), 1], canonical unit-norm result, exact at tol 0, error identity |nrm*scale*new - old|^2 = nrm^2 (1-scale^2) <= nrm^2 L tol, '
          'the first truncated bond keeps exactly the Schmidt values prescribed by the rule, from_vector error <= sqrt(L tol) (13 theorems; an SVD kernel satisfying the contract is constructed '
          'from the spectral theorem for non-vacuity). Tie: exact correspondence of compress/from_vector under uninterpreted kernels.',
  'note': KERNEL_NOTE + ' QRKernel, SVDContract, NormContract, SortContract, AbsContract are assumptions about NumPy/LAPACK.',
  'design_ref': 'DESIGN.md §7 C13',
 },
 'C17': {
  'text': 'Proof (full): from_automaton returns iff L >= 1 and the automaton admits an active path (decidable AutActive); the graph denotes the sum over automaton paths (site-dependent activity/coefficients, '
          'dead states pruned), is consistent and of length L; from_optrees returns under the decidable guard TreeOk and denotes the sum of the identity-padded trees, consistent, length L (also after the '
          'final simplify); dense meaning of chains, trees (incl. unequal heights, single leaf) and graphs (both directions) equals the symbolic meaning under any operator map (27 theorems).',
  'note': KERNEL_NOTE + ' No kernel contracts.',
  'design_ref': 'DESIGN.md §7 C17',
 },
 'C02': {
  'text': 'Proof (nearly full): the well-formedness invariant (every charge list has the length of the dimension it labels, every non-zero entry obeys the additive rule) is preserved by every '
          'operation of the history model — orthonormalize MPS/MPO (both modes, dummy bonds), +, -, @, apply_operator, zero_qnumbers, copy, from_vector, single-/two-site TDVP and DMRG — for every '
          'kernel family with the shape clauses only (TDVP/DMRG: sector closure of the Lanczos recurrence and of the local Hamiltonian / bond maps, environment blocks stay block sparse, QR/SVD '
          'factors sparse by C11/C12; precondition EvoCompat: H.qd = psi.qd, leading MPO bond charge 0), and by compress under the C13 contracts with 0 <= tol < 1 (scale != 0 is proved); by induction '
          'it holds in every reachable state of any history (run_wf_all). Boundary charges are kept for non-zero objects by orthonormalize, compress (non-zero factors), TDVP1/TDVP2 and DMRG1 (under '
          'the C10 contracts); for DMRG2 only the trailing charge (47 theorems). Constructors with a numeric fill and graph->MPO are tied by their own exact correspondences (C02 constructors stream, C05).',
  'note': KERNEL_NOTE + ' Only shape clauses of the QR/SVD kernels are needed for the invariant; compress additionally uses the norm/sort/abs contracts.',
  'design_ref': 'DESIGN.md §7 C02',
 },
 'C19': {
  'text': 'Proof (partial by nature): over the functional history model, a step changes only its documented target or appends one object (step_frame), over any history a slot changes only at '
          'steps naming it as target (history_frame), the write table agrees with the ownership table, and in the abstract allocation model no two objects ever share an array and '
          'returned arrays are fresh (alloc_*; 13 theorems). Object identity and aliasing themselves live in CPython/NumPy: the tie is the correspondence, which after every step of random '
          'histories compares the set of byte-changed pool slots and the np.shares_memory relation with the model, and a call table over all public functions (incl. OpGraph.add with '
          'disjoint / colliding ids) comparing modified arguments and result aliasing with the table.',
  'note': KERNEL_NOTE + ' Additionally trusted: the table of which NumPy primitives return fresh arrays is implicit in Heap.spec and validated only by observation.',
  'design_ref': 'DESIGN.md §7 C19',
 },
 'C14': {
  'text': 'Proof (full in exact arithmetic): output sizes of Lanczos/Arnoldi are mutually consistent for full and early return (every oracle); under NormContract and a Hermitian map '
          'the returned columns are orthonormal, alpha real, off-diagonals >= threshold > 0 and V^H A V = T, for the full run and for the shortened result after a breakdown; '
          'Arnoldi likewise with an upper Hessenberg H for any map; fewer vectors are returned only if a residual norm fell below the threshold (10 theorems). '
          'Tie to the code: exact correspondence under uninterpreted norm/eigh/exp/expm incl. steered breakdowns, m = 1, m > n.',
  'note': KERNEL_NOTE + ' NormContract is an assumption about np.linalg.norm; finite-precision loss of orthogonality is outside the model.',
  'design_ref': 'DESIGN.md §7 C14/C15',
 },
 'C15': {
  'text': 'Proof (full in exact arithmetic): lowest Ritz value <= Rayleigh quotient of the start vector and >= every lower bound of the quadratic form; Ritz vectors orthonormal with Ritz values as Rayleigh '
          'quotients; Hermitian Krylov exponential with imaginary time preserves the norm; once the Krylov space is exhausted (exactly vanishing last residual) the Ritz pairs are exact eigenpairs, the lowest '
          'one is the smallest eigenvalue reachable from the start vector, p(A)v = |v| V p(T) e1 for every polynomial, and the exponential is exact in both branches: Hermitian branch = NormedSpace.exp(dt A) v '
          'for dexp = exp, general branch = expm(dt A) v under the intertwining contract of expm (satisfied by the power-series exponential) (15 theorems). Outside the model: the floating-point threshold '
          'test ends the iteration on small non-zero residuals (approximation, no error bound).',
  'note': KERNEL_NOTE + ' EighAt, dexp = exp, ExpmContract / ExpmExact are assumptions about scipy eigh_tridiagonal, np.exp, scipy expm.',
  'design_ref': 'DESIGN.md §7 C14/C15',
 },
 'C01': {
  'text': 'Proof (full): for MPS and MPO, both modes, all L>=1, d, bond profiles and charge layouts over any RCLike field, for every dense-QR oracle satisfying the QR contract '
          '(incl. real diagonal of R): orthonormalize returns without error, the result is well formed (block sparse, charge lists of the right lengths), '
          'nrm * dense(new) = dense(old), every site tensor is an isometry in the chosen direction, nrm >= 0, nrm^2 = squared Frobenius norm, the new object has unit norm, '
          'and the bond bounds hold (16 theorems; ok/wf/bond for every oracle with the shape clause only). Tie to the code: exact correspondence of whole sweeps under uninterpreted QR '
          '(int/float/complex input, dummy bonds, sign flip).',
  'note': KERNEL_NOTE + ' QRKernel (QRContract + real diagonal of R) is an assumption about np.linalg.qr; integer dtype promotion is a NumPy matter seen only by the correspondence.',
  'design_ref': 'DESIGN.md §7 C01',
 },
 'C03': {
  'text': 'Proof (full): for all L>=1 (L=1 and L=2 special cases included), d, independent bond profiles over any commutative ring: MPS a+-b, MPO a+-b, MPO product, '
          'apply_operator and the identity MPO have the digit-indexed dense meaning of the corresponding dense expression; merging neighbouring tensors preserves the dense meaning and '
          'as_vector/as_matrix list exactly the amplitudes in row-major digit order (22 theorems incl. *_ok, closure under chaining, from_vector(tol=0) and split/merge at tol 0 under the SVD/norm/sort contracts). '
          'The scipy-sparse as_matrix path is modelled step by step and proved equal to the dense form (both d^L x d^L with entries o.elem) for d >= 1 and positive bonds (25 theorems).',
  'note': KERNEL_NOTE + ' SVDContract is an assumption about np.linalg.svd where used.',
  'design_ref': 'DESIGN.md §7 C03',
 },
 'C18': {
  'text': 'Proof (full): for every well-formed bipartite graph (and BipartiteGraph.__init__ always yields one) the model of Hopcroft-Karp terminates within its fuel, '
          'returns a valid matching of maximum size, and minimum_vertex_cover returns an in-range duplicate-free cover touching every edge whose size equals the matching '
          '(Koenig), hence minimum; its assertion never fires (13 theorems incl. hk_total, hk_maximum, mvc_total, c18_all). Tie to the code: exhaustive exact '
          'correspondence over all edge sets up to 4x4 (5x5 slices in thorough), random graphs to 60x60, duplicates, malformed input; final internal state compared.',
  'note': KERNEL_NOTE + ' No kernel contracts are involved in C18.',
  'design_ref': 'DESIGN.md §7 C18',
 },
 'C11': {
  'text': 'Proof (full): for every m,n>=1, all integer charge vectors (unsorted on either side), any commutative star ring and every dense-QR oracle satisfying the QR contract '
          'on the blocks handed to it: qr returns without error, Q.R = A, Q has orthonormal columns, both factors are block sparse under the returned charges '
          '(sparsity for *every* oracle), D = len(qinterm) <= min(m,n), disjoint charges give the dummy factorization of the zero matrix (12 theorems; QRContract has a witness over RCLike). '
          'Tie to the code: exact correspondence under uninterpreted QR incl. int64 input and half-integer factors.',
  'note': KERNEL_NOTE + ' QRContract is an assumption about np.linalg.qr(mode="reduced").',
  'design_ref': 'DESIGN.md §7 C11',
 },
 'C04': {
  'text': 'Proof (full): vdot, operator_inner_product, operator_average and operator_density_average equal the digit-indexed dense quantities for all L, d and independent '
          'bond profiles over any commutative star ring (first argument conjugated, error-freeness included); right/left environment blocks are the documented partial contractions; '
          'the one-site, two-site and zero-site local maps are projections of the dense operator at every site, and Hermitian when the MPO is (18 theorems). '
          'norm() = sqrt of the proved radicand (sqrt not modelled). '
          'Tie to the code: exact correspondence of all functions of operation.py on Gaussian-integer data.',
  'note': KERNEL_NOTE + ' No kernel contracts are involved in C04.',
  'design_ref': 'DESIGN.md §7 C04',
 },
 'C12': {
  'text': 'Proof (full): the truncation rule for every spectrum, tolerance and every (unstable) sorting permutation over any linear ordered field (13 theorems), and the block-SVD split '
          'for all shapes and charge layouts under the SVD contract: no assertion fires, dimensions, sparsity of both factors for every oracle, isometries, the kept values are the rule '
          'applied to the concatenated block spectra (positive, weight <= tol, order, maximality, tol 0), error identity ||A - u s v||_F^2 = sum of discarded squares, exactness at tol 0, '
          'the zero-matrix / disjoint-charge case (dummy bond of dimension 1), intermediate dimension >= 1 under the contracts for tol < 1 (36 theorems). Input non-mutation is carried by the correspondence (byte snapshot). split_mps_tensor is covered in C03.',
  'note': KERNEL_NOTE + ' NormContract/SortContract/SVDContract are assumptions about np.linalg.norm / np.argsort / np.linalg.svd.',
  'design_ref': 'DESIGN.md §7 C12',
 },
}


# ---- round-5 texts (override the entries above) ------------------------------------------------------------------------
CHECKS['C02']['text'] = (
    "Proof (nearly full): the well-formedness invariant (every charge list has the length of the dimension it labels, every non-zero entry "
    "obeys the additive rule) is preserved by every operation of the history model — orthonormalize MPS/MPO (both modes, dummy bonds), +, -, @, "
    "apply_operator, zero_qnumbers, copy, from_vector, single-/two-site TDVP and DMRG — for every kernel family with the shape clauses only "
    "(TDVP/DMRG: sector closure of the Lanczos recurrence and of the local Hamiltonian / bond maps, environment blocks stay block sparse, QR/SVD "
    "factors sparse by C11/C12; precondition EvoCompat: H.qd = psi.qd, leading MPO bond charge 0), and by compress under the C13 contracts with "
    "0 <= tol < 1 (scale != 0 is proved); by induction it holds in every reachable state of any history (run_wf_all). Boundary charges are kept "
    "for non-zero objects by orthonormalize, compress (non-zero factors), TDVP1/TDVP2, DMRG1 and DMRG2 (every 0 <= tol_split < 1; "
    "dmrg2_boundary_total is unconditional: the call returns and keeps qD[0], qD[L]). Round 6: the creating operations are operations of the "
    "history model too (Model/OpsX.lean, Props/C02Ctor.lean): MPS/MPO(qd, qD, fill=x), MPO.identity, EVERY MPO returned by MPO.from_opgraph and "
    "by the Hamiltonian constructors of hamiltonian.py, and re-splitting two neighbouring tensors (merge_mps_tensor_pair + split_mps_tensor) are "
    "proved to give well-formed objects, so every pool reachable from the EMPTY pool is well formed (xrun_wf_from_empty; no assumption on "
    "initial objects) (60 theorems). Tie: histories of the real code (a quarter of them starting from nothing, with constructor, from_opgraph and "
    "resplit steps) compared step by step with the model.")
CHECKS['C07']['text'] = (
    "Proof (full for the spinless constructions, partial for the spin-orbital ones): for every orbital count and all coefficient tensors the chain "
    "enumeration of the bond-optimized spinless and spin-orbital constructions never fails and yields well-formed chains, so with C05 the optimized "
    "construction succeeds incl. L = 1 and its graph denotes the sum of its chains; tensors block sparse whenever a constructor returns; the "
    "optimized constructions RETURN iff some enumerated chain is non-zero. Spinless: the dense elements of the optimized MPO equal "
    "sum_ij t_ij a+_i a_j + 1/2 sum_ijkl v_ijkl a+_i a+_j a_l a_k with dense Jordan-Wigner matrices (all 13 index orders, anticommutation proved); "
    "the EXPLICIT (optimize=False) construction is proved for every L: it raises its AssertionError for L < 4 and otherwise returns a consistent, "
    "layered, duplicate-free graph (every look-up and add_connect_edge of generate_graph and of every term insertion), each inserted term "
    "contributes exactly the padded word of the corresponding optimized chain with the same coefficient, the graph denotes the same symbolic sum, "
    "and both MPOs have equal dense elements = the second-quantized operator (explicit_eq_optimized_dense) (40 theorems). The gauge transform is "
    "modelled: shapes and table look-ups for every L, no KeyError and unitarity of the gauge matrices under a nid_map well-formedness predicate "
    "proved for L = 4 and executed for L <= 8. Not proved: the interpretation of the spin-orbital chain sum as the second-quantized operator and the "
    "explicit spin-orbital graph family (compared as complete graphs / MPOs by the correspondence and densely by the oracle); the conjugation "
    "identity of the gauge transform (exact correspondence on the 32 exactly representable monomial unitaries, L 4..7/8, every pair, plus an "
    "always-on numerical stream for generic complex unitaries).")
CHECKS['C08']['text'] = (
    "Proof (full incl. totality of both integrators): for a Hermitian MPO and purely imaginary dt, single-site TDVP and two-site TDVP with "
    "tol_split = 0 keep norm 1 and the energy of the normalised input for any number of steps and any number of Krylov iterations "
    "(mixed-canonical sweep invariant with environment blocks = C04 partial contractions; local Lanczos-exponential steps preserve norm and "
    "<x,H_eff x>; QR / zero-tolerance split steps are pure gauge); both return the norm of the input; single-site TDVP never increases a bond; "
    "qd / site count kept. Both integrators are proved to RETURN on every admissible input under the kernel contracts (tdvp1_total; tdvp2_total "
    "for every 0 <= tol_split < 1 and L >= 2; hypotheses: H well formed, EvoCompat, trailing MPO bond charge 0, numiter >= 1), so the "
    "conservation statements are unconditional (tdvp1_norm_energy_total, tdvp2_norm_energy_total) (23 theorems). Block sparsity and boundary "
    "charges of the evolved state are proved in C02. Non-mutation of H is trivial in a functional model and is carried by the exact "
    "correspondence of whole calls (H snapshot).")
CHECKS['C09']['text'] = (
    "Proof (reversibility: full for single-site TDVP in exact arithmetic; exactness clause: see below): a Hermitian Krylov exponential step with dt "
    "followed by one with -dt is the identity when both runs exhaust their Krylov spaces and E(a)E(-a) = 1, for any complex dt, for site tensors "
    "and bond matrices, also across unitary bond gauges (QR gauge uniqueness proved). On top of this: a gauge-equivalence relation on sweep "
    "states with equal dense amplitudes; every sweep step undone by its mirrored step from any gauge-equivalent state; by nested induction a "
    "half sweep, a full time step and n time steps with dt followed by n with -dt return a gauge-equivalent state, hence the same dense state, "
    "for every complex dt and every bond profile (tdvp1_steps_reversible); for purely imaginary dt the two CALLS of integrate_local_singlesite "
    "compose to the identity and the second reports norm 1 (tdvp1_calls_reversible: the prologue's re-orthonormalisation is a pure gauge "
    "change); totality of the reversed call (19 theorems). Hypotheses are trace predicates over the sub-steps that execute: exact local "
    "exponentials, QR keeps the bond dimensions, R factors of the -dt runs invertible (the literal 'for any bond dimension' is false without "
    "this regularity). Not proved: the scalar factor nrm2 != 1 of the second call for non-imaginary dt (tdvp1_calls_reversible_partial), and the "
    "exactness clause. KNOWN FINDING F10: the exactness clause as stated is false for complete sector manifolds with a bond whose charge blocks "
    "are limited from different sides (replayed on every run, printed as KNOWN-FINDING); where the left-/right-complete bonds form a prefix / "
    "suffix it is decided by the exact correspondence of whole calls and, after a break, by the oracle against scipy expm (with and without "
    "charges, over-complete manifolds, |dt| ||H|| up to 1.5, unnormalised and real-dtype inputs).")
CHECKS['C10']['text'] = (
    "Proof (nearly full): single-site DMRG and two-site DMRG are proved to RETURN on every admissible input (dmrg1_total; dmrg2_total for every "
    "0 <= tol_split < 1, L >= 1); for single-site and for two-site with tol_split = 0 (any sweeps / Lanczos iterations), unconditionally: the "
    "returned state is normalised, its energy equals the last reported energy, every reported energy is <= the energy of the normalised start "
    "and >= every lower bound of the quadratic form on the state's QUANTUM-NUMBER SECTOR (amplitude support lemma: a block-sparse MPS vanishes "
    "outside its sector; sharpness example where the sector bound is not a dense bound), and the reported sequence is non-increasing "
    "(25 theorems). Not proved: attainment of the exact ground-state energy on a complete manifold, energy clauses for tol_split > 0; carried "
    "by the exact correspondence of whole calls and the oracle. F11 (floating point, repaired): energies could increase with numiter > local "
    "dimension; its six failing cases are the regression corpus of the search.")
CHECKS['C14']['text'] = (
    "Proof (full in exact arithmetic): output sizes of Lanczos/Arnoldi are mutually consistent for full and early return (every oracle) and never "
    "exceed the dimension of the vector (the cap of repair F11); under NormContract and a Hermitian map the returned columns are orthonormal, "
    "alpha real, off-diagonals >= threshold > 0 and V^H A V = T, for the full run and for the shortened result after a breakdown; Arnoldi "
    "likewise with an upper Hessenberg H for any map; fewer vectors are returned only if a residual norm fell below the threshold; link to the "
    "property's hypothesis: an exact breakdown means the Krylov space is exhausted, and if v, Av, ..., A^k v are independent all residuals are "
    "non-zero (a shortened result then has its last residual strictly between 0 and the threshold; a Lean example shows this really happens for "
    "the floating-point threshold) (18 theorems). Tie to the code: exact correspondence under uninterpreted norm/eigh/exp/expm incl. steered "
    "breakdowns, m = 1, m > n.")
CHECKS['C15']['text'] = (
    "Proof (full in exact arithmetic): lowest Ritz value <= Rayleigh quotient of the start vector and >= every lower bound of the quadratic form; "
    "Ritz vectors orthonormal with Ritz values as Rayleigh quotients; Hermitian Krylov exponential with imaginary time preserves the norm; once "
    "the Krylov space is exhausted the Ritz pairs are exact eigenpairs, the lowest one is the smallest eigenvalue reachable from the start "
    "vector, p(A)v = |v| V p(T) e1 for every polynomial, and the exponential is exact in both branches (Hermitian: NormedSpace.exp(dt A) v for "
    "dexp = exp; general: expm(dt A) v under the intertwining contract of expm). An eigh_tridiagonal kernel satisfying the contract EXISTS for "
    "every real symmetric tridiagonal input (Mathlib's spectral theorem, re-sorted ascending), so the statements also hold hypothesis-free for "
    "that kernel (…_eighExact) and the Hermitian calls always return for a non-zero vector and numiter >= 1 (27 theorems). Outside the model: "
    "floating point (the threshold test ends the iteration on small non-zero residuals; F11, repaired, was such an effect for m > n).")


# ---- round-6 texts ---------------------------------------------------------------------------------------------------
CHECKS['C13']['text'] = CHECKS['C13']['text'].replace(
    'from_vector error <= sqrt(L tol) (13 theorems;',
    'from_vector error <= sqrt(L tol); after the repair of F12 (zero vector) from_vector returns for EVERY vector (0 <= tol < 1) and is exact at tol 0 '
    '(from_vector_total, from_vector_tol0_total) (15 theorems;')
CHECKS['C03']['text'] = CHECKS['C03']['text'].replace(
    'positive bonds (25 theorems).',
    'positive bonds. Round 6: zero-tolerance from_vector is total -- for every vector, the zero vector included (defect F12, repaired), the call '
    'returns and reproduces the vector (C13.from_vector_tol0_total) (26 theorems).')
CHECKS['C10']['text'] = CHECKS['C10']['text'] + (
    " Known finding F13 (recorded in known_findings.txt, replayed on every run, printed as KNOWN-FINDING): for two-site DMRG with a genuine truncation "
    "(tol_split > 0) the clause 'energy of the returned state = last reported energy' is false on the real code (the Ritz value is reported before the "
    "truncating split); it is proved and demanded for tol_split = 0 and for single-site DMRG.")
for _p in ('C06', 'C07', 'C17'):
    CHECKS[_p]['text'] = CHECKS[_p]['text'] + (
        " Known finding F14 (known_findings.txt, replayed on every run, printed as KNOWN-FINDING): on inputs whose documented operator is identically zero the "
        "chain-based constructors raise a bare AssertionError instead of returning the zero operator; the totality theorems characterise exactly this "
        "(returns iff some term is non-zero). Every non-zero operator is covered as stated.")
CHECKS['C15']['text'] = CHECKS['C15']['text'] + (
    " Known finding F15 (known_findings.txt, replayed on every run, printed as KNOWN-FINDING): in floating point the clause 'lowest Ritz value = smallest "
    "reachable eigenvalue' fails when numiter exceeds the Krylov dimension and the map has norm >~ 10 (rounding noise passes the absolute breakdown test); "
    "proved in exact arithmetic (ritz_exact_full), demanded by the search whenever the breakdown was detected.")
CHECKS['C10']['text'] = CHECKS['C10']['text'] + (
    " Known finding F16: on a chain of ONE site both drivers have empty sweep loops and report the energy 0 without optimising (all theorems carry 2 <= L).")
CHECKS['C18']['text'] = CHECKS['C18']['text'] + (
    " Known finding F17 (replayed on every run): at CPython's default recursion limit the recursive DFS raises RecursionError on an augmenting path through "
    ">= ~1000 U vertices (n = 1200 chain graph); termination is proved for the fuelled model, the interpreter's stack limit is outside it.")
CHECKS['C10']['text'] = CHECKS['C10']['text'] + (
    " Round 6 (Props/C10Tol): for EVERY split tolerance 0 <= tol_split < 1 (L >= 2) two-site DMRG returns, reports one energy per sweep, leaves a normalised state, "
    "and every reported energy is >= every lower bound of the dense operator -- the clauses that survive truncation (35 theorems).")

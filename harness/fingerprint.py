"""
Advisory source fingerprint (DESIGN.md §5): a hash of the normalised AST of the pytenet files a property is anchored in.
A changed fingerprint is NOT a verdict; it only makes the quick tier use the thorough case counts for that property,
so that an edit confined to a rarely taken branch is not missed by a small sample.
"""
import ast, hashlib, json, os

V = os.path.dirname(os.path.dirname(os.path.abspath(__file__)))
FP = os.path.join(V, 'fingerprints.json')


def anchors():
    out = {}
    for line in open(os.path.join(V, 'properties.jsonl')):
        p = json.loads(line)
        out[p['id']] = sorted(p['anchors']['files'])
    return out


def file_hash(path):
    try:
        tree = ast.parse(open(path).read())
    except Exception:
        return 'unparsable'
    return hashlib.sha256(ast.dump(tree, annotate_fields=False, include_attributes=False).encode()).hexdigest()[:16]


def current(repo):
    return {pid: {f: file_hash(os.path.join(repo, f)) for f in files} for pid, files in anchors().items()}


def changed_files(pid, repo):
    if not os.path.exists(FP):
        return []
    ref = json.load(open(FP)).get(pid, {})
    cur = current(repo).get(pid, {})
    return sorted(f for f in cur if ref.get(f) != cur[f])


if __name__ == '__main__':
    json.dump(current(os.environ.get('PTN_REPO', '/repo')), open(FP, 'w'), indent=1, sort_keys=True)
    print('written', FP)

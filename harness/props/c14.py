"""
C14 — Lanczos and Arnoldi iterations satisfy their Krylov factorisation relations.

Correspondence: `krylov.lanczos_iteration` / `krylov.arnoldi_iteration` with `Afunc = lambda x: A @ x` under uninterpreted kernels
(`np.linalg.norm` replaced by a steerable fake with power-of-two values, see `harness/krylov_kernels.py`) against
`PtnModel/Model/Krylov.lean`; exact comparison of all outputs including shapes.  Cases whose float arithmetic is not certified
exact (`krylov_kernels.certified_exact`) are skipped and counted.
Oracle (search only): real kernels, tolerance checks written from the property text.
"""
import json, time, warnings
from fractions import Fraction
import numpy as np
from .. import common, exact
from ..common import Corr, py_call
from .. import krylov_kernels as kk

RULE = ('random integer matrices n<=6 (thorough <=10): real symmetric, complex Hermitian, general real/complex, block diagonal (invariant subspaces), '
        'diagonal with repeated entries, zero; start vectors generic complex, real, integer dtype, unit vectors, supported in an invariant block; '
        'numiter 0..n+2; fake norm steered to 0 / below / at / above the breakdown threshold at a chosen step; '
        'distinct = (function, n, numiter, matrix kind, vector kind, early-return step or full/err)')

MAT_KINDS = ['sym', 'herm', 'gen', 'genreal', 'block', 'blockgen', 'diag', 'zero', 'path', 'perm', 'path', 'perm']
VEC_KINDS = ['generic', 'real', 'int', 'unit', 'invariant']
ENT = np.array([0, 1, -1, 0, 1, -1, 2, -2, 0, 1])


def _sparse_entries(rng, n):
    """integer entries; for larger n mostly sparse with entries in {-1, 0, 1} (slow growth: deep exact runs)"""
    dens = float(rng.choice([1.0, 0.6, 0.35, 0.2])) if n >= 3 else 1.0
    R = rng.choice(ENT if dens == 1.0 else np.array([1, -1, 1, -1, 1, 2]), size=(n, n)).astype(float)
    return R * (rng.random((n, n)) < dens)


def _herm(rng, n, cplx):
    R = _sparse_entries(rng, n)
    A = np.triu(R) + np.triu(R, 1).T
    if cplx:
        I = _sparse_entries(rng, n) * (rng.random((n, n)) < 0.6)
        I = np.triu(I, 1)
        A = A + 1j * (I - I.T)
    return A


def _gen(rng, n, cplx):
    A = _sparse_entries(rng, n)
    if cplx:
        A = A + 1j * _sparse_entries(rng, n) * (rng.random((n, n)) < 0.5)
    return A


def gen_matrix(rng, n, kind):
    """returns (A, k): the leading k coordinates span an invariant subspace"""
    if kind == 'sym':
        return _herm(rng, n, False), n
    if kind == 'herm':
        return _herm(rng, n, True).astype(complex), n
    if kind == 'gen':
        return _gen(rng, n, True).astype(complex), n
    if kind == 'genreal':
        A = _gen(rng, n, False)
        return (A.astype(np.int64) if rng.random() < 0.3 else A), n
    if kind in ('block', 'blockgen'):
        k = int(rng.integers(1, n + 1))
        cplx = bool(rng.random() < 0.5)
        f = _herm if kind == 'block' else _gen
        A = np.zeros((n, n), dtype=complex if cplx else float)
        A[:k, :k] = f(rng, k, cplx)
        if k < n:
            A[k:, k:] = f(rng, n - k, cplx)
        return A, k
    if kind == 'diag':
        vals = rng.choice(np.array([-1, 0, 1, 2]), size=int(rng.integers(1, 3)))
        return np.diag(rng.choice(vals, size=n)).astype(float), int(rng.integers(1, n + 1))
    if kind == 'path':
        # Hermitian weighted path / cycle (unit-modulus or power-of-two weights, optional diagonal): with a unit start vector and the
        # true norm (a power of two) the Lanczos vectors stay unit vectors, so deep runs are exact
        cplx = bool(rng.random() < 0.5)
        A = np.zeros((n, n), dtype=complex if cplx else float)
        k = int(rng.integers(1, n + 1))      # the path covers coordinates 0..k-1 (the rest is a second path): invariant block
        for i in range(n - 1):
            if i + 1 == k:
                continue
            wgt = complex(rng.choice(np.array([1, -1, 1j, -1j, 2, 1]))) if cplx else float(rng.choice([1, -1, 2, 1]))
            A[i, i + 1] = wgt
            A[i + 1, i] = np.conj(wgt)
        if rng.random() < 0.3 and k == n and n > 2:
            A[0, n - 1] = 1; A[n - 1, 0] = 1
        if rng.random() < 0.5:
            A = A + np.diag(rng.choice(np.array([0, 1, -1, 2]), size=n))
        return A, k
    if kind == 'perm':
        # signed / phased permutation matrix (general map), optionally with a few extra entries above the cycle structure
        cplx = bool(rng.random() < 0.5)
        A = np.zeros((n, n), dtype=complex if cplx else float)
        perm = rng.permutation(n) if rng.random() < 0.5 else np.roll(np.arange(n), -1)
        for i in range(n):
            A[perm[i], i] = complex(rng.choice(np.array([1, -1, 1j, -1j, 2]))) if cplx else float(rng.choice([1, -1, 2, 1]))
        if rng.random() < 0.3:
            A = A + np.triu(rng.choice(np.array([0, 0, 0, 1, -1]), size=(n, n)), 1)
        return A, n
    return np.zeros((n, n)), n


def gen_vector(rng, n, kind, k):
    if kind == 'generic':
        v = rng.choice(ENT, size=n) + 1j * rng.choice(ENT, size=n)
    elif kind == 'real':
        v = rng.choice(ENT, size=n).astype(float)
    elif kind == 'int':
        v = rng.choice(ENT, size=n).astype(np.int64)
    elif kind == 'unit':
        v = np.zeros(n)
        v[int(rng.integers(n))] = float(rng.choice([1, 1, -1, 2]))
    else:
        v = np.zeros(n, dtype=complex)
        v[:k] = rng.choice(ENT, size=k) + 1j * rng.choice(ENT, size=k) * (rng.random() < 0.5)
    if not np.any(v) and rng.random() < 0.9:
        v = v.copy()
        v[0] = 1
    return v


def gen_plan(rng, m):
    r = rng.random()
    p0 = 0 if r < 0.03 else ('tiny' if r < 0.05 else (None if r < 0.1 else float(rng.choice([1, 1, 2, 0.5, 4]))))
    plan = [p0]
    if rng.random() < 0.5 and m >= 2:
        s = int(rng.integers(0, m - 1))
        plan += [None] * s + [rng.choice(np.array([0, 'tiny', 'thr', 'below', 'above', 0, 'tiny'], dtype=object))]
    return [p if not isinstance(p, (np.floating, np.integer)) else float(p) for p in plan]


def gen_case(rng, nmax):
    n = int(rng.integers(1, nmax + 1))
    m = int(rng.integers(1, n + 3))
    if rng.random() < 0.02:
        m = 0
    mk = str(rng.choice(MAT_KINDS))
    vk = str(rng.choice(VEC_KINDS))
    if mk in ('path', 'perm') and rng.random() < 0.7:
        vk = 'unit'
    A, k = gen_matrix(rng, n, mk)
    if rng.random() < 0.04:
        A = np.identity(n); mk = 'identity-by-reference'
    v = gen_vector(rng, n, vk, k)
    return {'A': A, 'v': v, 'm': m, 'mk': mk, 'vk': vk, 'plan': gen_plan(rng, m)}


def enc_vec(v):
    return [kk.enc_scalar(x) for x in np.asarray(v).reshape(-1)]


def _enc1d(x):
    x = np.asarray(x)
    if x.ndim != 1 or x.dtype.kind != 'f':
        return {'not-a-real-vector': [str(x.dtype), list(x.shape)]}
    return kk.enc_reals(x)


def call_impl(func, case, extra=None):
    """run the real code under the kernel shim; returns (result dict, recorder, raw outputs)"""
    from pytenet import krylov
    A, v, m = case['A'], case['v'], case['m']
    rec = kk.KryRecorder(case['plan'])
    raw = []
    extra = extra or {}

    def Afunc(x):
        # a matrix-free map may return its argument where it acts as the identity (`lambda x: x`); the model's map is pure
        if A.shape[0] == A.shape[1] and np.array_equal(A, np.identity(A.shape[0])):
            return x
        return A @ x

    def f():
        with warnings.catch_warnings():
            warnings.simplefilter('ignore')
            warnings.simplefilter('error', np.exceptions.ComplexWarning)
            with kk.patched(rec):
                if func == 'lanczos':
                    al, be, V = krylov.lanczos_iteration(Afunc, v, m)
                    raw.extend([al, V])
                    return {'alpha': _enc1d(al), 'beta': _enc1d(be), 'V': kk.enc_array(V)}
                if func == 'arnoldi':
                    H, V = krylov.arnoldi_iteration(Afunc, v, m)
                    raw.extend([np.triu(H), V])
                    return {'H': kk.enc_array(H), 'V': kk.enc_array(V)}
                if func == 'eigh':
                    w, u = krylov.eigh_krylov(Afunc, v, m, extra['numeig'])
                    raw.extend([w, u])
                    return {'w': _enc1d(w), 'u': kk.enc_array(u)}
                r = krylov.expm_krylov(Afunc, v, extra['dt'], m, extra['hermitian'])
                raw.append(r)
                if np.asarray(r).ndim != 1:
                    return {'v': {'shape': list(np.shape(r))}}
                return {'v': enc_vec(r)}
    A0, v0 = A.copy(), v.copy()
    try:
        r = py_call(f)
    except exact.Inexact:
        raise
    except (Warning, ZeroDivisionError, FloatingPointError, AttributeError) as ex:
        r = {'ok': False, 'err': 'exc:' + type(ex).__name__}
    r['inputs_unchanged'] = bool(np.array_equal(A, A0) and np.array_equal(v, v0))
    return r, rec, raw


def make_op(func, case, rec, extra=None):
    op = {'op': 'kry.' + func, 'A': kk.enc_array(case['A']), 'vstart': enc_vec(case['v']), 'numiter': case['m'], 'kernels': rec.calls}
    if func == 'eigh':
        op['numeig'] = extra['numeig']
    if func == 'expm':
        op['dt'] = kk.enc_scalar(extra['dt'])
        op['hermitian'] = bool(extra['hermitian'])
    return op


def early_step(func, case, r):
    """'full', 'early@j', or 'err=..' from the sizes of the result"""
    if not r.get('ok'):
        return 'err=' + r['err']
    m = case['m']
    if func == 'lanczos':
        k = len(r['alpha']) if isinstance(r['alpha'], list) else -1
    elif func == 'arnoldi':
        k = r['H']['shape'][0]
    else:
        return 'ok'
    return 'full' if k == m else f'early@{k - 1}'


def kernel_steps(rec):
    """number of norm evaluations with a value below the threshold (early-return triggers) for derived functions"""
    return sum(1 for w in rec.norm_values if w < 2.0 ** -40)


def _shard(name, shard, nshards, tier, seed):
    func = name.split('.')[-1].replace('_iteration', '')
    c = Corr(name)
    rng = np.random.default_rng([seed, shard, 14, 0 if func == 'lanczos' else 1])
    ncase = (16000 if tier == 'quick' else 240000) // nshards + 1
    nmax = 6 if tier == 'quick' else 10
    ops, impls, metas = [], [], []
    for _ in range(ncase):
        case = gen_case(rng, nmax)
        try:
            r, rec, raw = call_impl(func, case)
            if rec.inexact or not kk.certified_exact(rec, raw, case['A'], arnoldi=(func == 'arnoldi')):
                c.skipped += 1
                continue
            op = make_op(func, case, rec)
        except exact.Inexact:
            c.skipped += 1
            continue
        ops.append(op); impls.append(r); metas.append(case)
    replies = common.drive(ops)
    for op, im, mo, case in zip(ops, impls, replies, metas):
        mo = dict(mo); mo['inputs_unchanged'] = True
        n, m = len(case['v']), case['m']
        es = early_step(func, case, im)
        br = ['early-return', es] if es.startswith('early') else [es]
        if m == 1:
            br.append('m=1')
        if m > n:
            br.append('m>n')
        if m == 0:
            br.append('m=0')
        if es == 'full' and m >= 5:
            br.append('full,m>=5')
        c.add(op, im, mo, cls=(func, n, m, case['mk'], case['vk'], es), branches=br)
    return c


def correspondence(tier, seed):
    return [common.parallel_shards(_shard, nm, tier, seed) for nm in ('krylov.lanczos_iteration', 'krylov.arnoldi_iteration')]


# ----------------------------------------------------------------------------- oracle (real kernels)

def rand_unitary(rng, n, cplx):
    M = rng.standard_normal((n, n)) + (1j * rng.standard_normal((n, n)) if cplx else 0)
    Q, _ = np.linalg.qr(M)
    return Q


def gen_spectral_case(rng, nmax=8, hermitian=True):
    """
    A with known eigen-decomposition and a start vector with known Krylov dimension d:
    A = S diag(lam) S^-1 (S unitary in the Hermitian case), v = S c; d = number of distinct eigenvalues carrying a non-zero component.
    Eigenvalues are well separated (gaps >= 0.35) or exactly repeated; non-zero components have modulus in [0.5, 1.5].
    """
    n = int(rng.integers(1, nmax + 1))
    cplx = bool(rng.random() < 0.6)
    ndist = int(rng.integers(1, n + 1)) if rng.random() < 0.5 else n
    base = np.cumsum(rng.uniform(0.35, 1.0, size=ndist))
    base = base - base[int(rng.integers(ndist))] * float(rng.random() < 0.7)
    if not hermitian and cplx:
        base = base * np.exp(1j * rng.uniform(0, 2 * np.pi, size=ndist) * (rng.random() < 0.5))
    lam = np.concatenate([base, rng.choice(base, size=n - ndist)]) if n > ndist else base.copy()
    lam = lam[rng.permutation(n)]
    if hermitian:
        S = rand_unitary(rng, n, cplx)
        A = (S * lam) @ S.conj().T
        A = (A + A.conj().T) / 2
    else:
        Q = rand_unitary(rng, n, cplx)
        N = rng.standard_normal((n, n)) * 0.25
        S = Q @ (np.identity(n) + np.triu(N, 1))
        A = (S * lam) @ np.linalg.inv(S)
    mode = rng.random()
    c = rng.uniform(0.5, 1.5, size=n) * (np.exp(1j * rng.uniform(0, 2 * np.pi, size=n)) if cplx else rng.choice([-1.0, 1.0], size=n))
    if mode < 0.45:
        keep = rng.random(n) < 0.5
        if not keep.any():
            keep[int(rng.integers(n))] = True
        c = c * keep
    v = S @ c
    if not cplx:
        A = np.real(A); v = np.real(v)
    elif rng.random() < 0.25 and mode >= 0.45:
        # real (float64 or integer) start vector for a complex matrix: generic; the work arrays must not inherit its dtype
        if rng.random() < 0.3:
            v = np.zeros(n, dtype=int); v[int(rng.integers(n))] = int(rng.choice([1, 2, -1]))
        else:
            v = np.real(v) + 0.0
        c = (S.conj().T if hermitian else np.linalg.inv(S)) @ v
    nz = np.abs(c) > 1e-9
    d = len(set(np.round(lam[nz], 9).tolist())) if not np.iscomplexobj(lam) else len(set(np.round(lam[nz], 9).tolist()))
    return {'A': A, 'v': v * float(rng.choice([1.0, 1.0, 3.0, 0.25])), 'd': d, 'lam': lam, 'c': c, 'S': S}


def gen_exact_invariant_case(rng, nmax=8, hermitian=True):
    """integer block-diagonal matrix, start vector supported in the leading block: exact exhaustion (early-return path)"""
    n = int(rng.integers(1, nmax + 1))
    k = int(rng.integers(1, n + 1))
    cplx = bool(rng.random() < 0.5)
    f = _herm if hermitian else _gen
    A = np.zeros((n, n), dtype=complex if cplx else float)
    A[:k, :k] = f(rng, k, cplx)
    if k < n:
        A[k:, k:] = f(rng, n - k, cplx)
    v = np.zeros(n, dtype=complex if cplx else float)
    v[:k] = rng.choice(ENT, size=k)
    if cplx:
        v[:k] = v[:k] + 1j * rng.choice(ENT, size=k)
    if not np.any(v):
        v[0] = 1
    return {'A': A, 'v': v, 'd': krylov_dim_exact(A, v)}


def krylov_dim_exact(A, v):
    """dimension of span{v, Av, A^2 v, ...} in exact Gaussian-rational arithmetic (entries must be exactly representable)"""
    n = len(v)

    def cf(z):
        z = complex(z)
        return (Fraction(z.real), Fraction(z.imag))

    def mul(a, b):
        return (a[0] * b[0] - a[1] * b[1], a[0] * b[1] + a[1] * b[0])

    def sub(a, b):
        return (a[0] - b[0], a[1] - b[1])

    def div(a, b):
        d = b[0] * b[0] + b[1] * b[1]
        return ((a[0] * b[0] + a[1] * b[1]) / d, (a[1] * b[0] - a[0] * b[1]) / d)
    Af = [[cf(A[i, j]) for j in range(n)] for i in range(n)]
    x = [cf(t) for t in v]
    basis = []      # reduced rows with pivot columns
    dim = 0
    for _ in range(n + 1):
        y = list(x)
        for piv, row in basis:
            if y[piv] != (0, 0):
                fct = div(y[piv], row[piv])
                y = [sub(y[t], mul(fct, row[t])) for t in range(n)]
        piv = next((t for t in range(n) if y[t] != (0, 0)), None)
        if piv is None:
            break
        basis.append((piv, y))
        dim += 1
        x = [(sum((mul(Af[i][j], x[j])[0] for j in range(n)), Fraction(0)), sum((mul(Af[i][j], x[j])[1] for j in range(n)), Fraction(0)))
             for i in range(n)]
    return dim


def _tridiag(alpha, beta):
    return np.diag(alpha) + np.diag(beta, 1) + np.diag(beta, -1)


def oracle(func, A, v, m, d):
    _alias_ok = True
    """
    `d` = dimension of the Krylov space of (A, v).  Returns None or a description of the violated clause.
    Relations are only required for the leading min(returned size, d) columns; for m <= d no shortening is allowed.
    """
    from pytenet import krylov
    A0, v0 = A.copy(), v.copy()
    n = len(v)
    scale = max(1.0, float(np.abs(A).max(initial=0)))
    tol = 1e-7 * scale

    def Afunc(x):
        # the map may return its argument (or a view of it) when it acts as the identity on x: a matrix-free `Afunc` such as
        # `lambda x: x` is a legitimate Hermitian map (finding F8: the iterations used to update Afunc's return value in place)
        if _alias_ok and np.array_equal(A, np.identity(len(x))):
            return x
        return A @ x
    try:
        with warnings.catch_warnings():
            warnings.simplefilter('ignore')
            res = common.with_alarm(20, lambda: (krylov.lanczos_iteration if func == 'lanczos' else krylov.arnoldi_iteration)(Afunc, v, m))
    except Exception as ex:
        return f'raises {type(ex).__name__}: {ex}'
    if not (np.array_equal(A, A0) and np.array_equal(v, v0)):
        return 'inputs were modified'
    if func == 'lanczos':
        alpha, beta, V = res
        alpha = np.asarray(alpha); beta = np.asarray(beta); V = np.asarray(V)
        if alpha.ndim != 1 or beta.ndim != 1 or V.ndim != 2:
            return f'wrong ranks alpha{alpha.shape} beta{beta.shape} V{V.shape}'
        k = len(alpha)
        if len(beta) != max(k - 1, 0) or V.shape != (n, k) or k < 1:
            return f'inconsistent sizes: len(alpha)={len(alpha)} len(beta)={len(beta)} V{V.shape} (n={n})'
        if np.iscomplexobj(alpha) or np.iscomplexobj(beta):
            return 'coefficients are not real'
    else:
        H, V = res
        H = np.asarray(H); V = np.asarray(V)
        if H.ndim != 2 or V.ndim != 2:
            return f'wrong ranks H{H.shape} V{V.shape}'
        k = H.shape[0]
        if H.shape != (k, k) or V.shape != (n, k) or k < 1:
            return f'inconsistent sizes: H{H.shape} V{V.shape} (n={n})'
    if k > m:
        return f'more columns ({k}) than requested iterations ({m})'
    if k < min(m, d):
        return f'shortened to {k} columns although the Krylov space has dimension {d} >= {min(m, d)}'
    if not (np.all(np.isfinite(V)) and np.all(np.isfinite(res[0])) and np.all(np.isfinite(res[1]))):
        return 'non-finite output'
    L = min(k, d)
    VL = V[:, :L]
    G = VL.conj().T @ VL
    if np.abs(G - np.identity(L)).max() > 1e-7:
        return f'leading {L} vectors are not orthonormal (deviation {np.abs(G - np.identity(L)).max():.3g})'
    P = VL.conj().T @ (A @ VL)
    if func == 'lanczos':
        if np.any(beta[:L - 1] <= 0):
            return 'a non-positive off-diagonal coefficient in the leading part'
        T = _tridiag(alpha, beta)[:L, :L]
        if np.abs(P - T).max() > tol:
            return f'projected map differs from the tridiagonal matrix by {np.abs(P - T).max():.3g} (leading {L})'
    else:
        if np.abs(np.tril(H, -2)).max(initial=0) != 0:
            return 'H is not upper Hessenberg'
        if np.abs(P - H[:L, :L]).max() > tol:
            return f'projected map differs from the Hessenberg matrix by {np.abs(P - H[:L, :L]).max():.3g} (leading {L})'
    if abs(np.vdot(V[:, 0], v) - np.linalg.norm(v)) > 1e-9 * max(1.0, np.linalg.norm(v)):
        return 'first vector is not the normalised start vector'
    return None


def _pack(A, v):
    return {'A_re': np.real(A).tolist(), 'A_im': np.imag(A).tolist() if np.iscomplexobj(A) else None,
            'v_re': np.real(v).tolist(), 'v_im': np.imag(v).tolist() if np.iscomplexobj(v) else None}


def _unpack(r):
    A = np.array(r['A_re'], dtype=float)
    if r['A_im'] is not None:
        A = A + 1j * np.array(r['A_im'])
    v = np.array(r['v_re'], dtype=float)
    if r['v_im'] is not None:
        v = v + 1j * np.array(r['v_im'])
    return A, v


def hint_cases(hints, prefix='kry.'):
    """inputs of disagreeing correspondence cases (decoded), to be tried first by the oracles"""
    from .c11 import dec_array, dec_scalar
    out = []
    for h in hints:
        if h.get('kind') == 'correspondence' and isinstance(h.get('detail'), dict):
            op = h['detail'].get('op', {})
            if str(op.get('op', '')).startswith(prefix):
                try:
                    A = dec_array(op['A'])
                    v = np.array([dec_scalar(x) for x in op['vstart']])
                    out.append((op['op'], A, v, int(op['numiter']), op))
                except Exception:
                    pass
    return out


def oracle_cases(rng, hints):
    for opn, A, v, m, _ in hint_cases(hints):
        if not np.any(v) or m < 1:
            continue
        Ah = (A + A.conj().T)
        for func, M in (('lanczos', Ah), ('arnoldi', A)):
            d = krylov_dim_exact(M, v)
            for mm in sorted({m, 1, d, d + 1, len(v), len(v) + 2}):
                if mm >= 1:
                    yield func, M, v, mm, d
    # identity map implemented as `lambda x: x` (returns its argument): Krylov dimension 1
    for n in (1, 3, 5):
        v = rng.standard_normal(n) + (1j * rng.standard_normal(n) if n > 1 else 0)
        for func in ('lanczos', 'arnoldi'):
            for mm in (1, 2, n + 1):
                yield func, np.identity(n), v, mm, 1
    while True:
        func = 'lanczos' if rng.random() < 0.5 else 'arnoldi'
        r = rng.random()
        if r < 0.35:
            cs = gen_exact_invariant_case(rng, 8, hermitian=(func == 'lanczos'))
        else:
            cs = gen_spectral_case(rng, 8, hermitian=(func == 'lanczos'))
        n, d = len(cs['v']), cs['d']
        if r < 0.35 or rng.random() < 0.3:
            m = int(rng.integers(1, n + 3))          # may exceed the Krylov dimension (early termination)
        else:
            m = int(rng.integers(1, d + 1))
        yield func, cs['A'], cs['v'], m, d


def search(tier, seed, hints, budget_s):
    t0 = time.time()
    rng = np.random.default_rng([seed, 1414])
    for func, A, v, m, d in oracle_cases(rng, hints):
        r = oracle(func, A, v, m, d)
        if r is not None:
            return {'key': f'{func}:n={len(v)}:m={m}:d={d}:' + r.split('(')[0].strip()[:60], 'what': f'{func}_iteration: {r}',
                    'replay': {'call': f'pytenet.krylov.{func}_iteration(lambda x: A @ x, v, m)', 'func': func, 'm': m, 'krylov_dim': d,
                               'observed': r, **_pack(A, v)}}
        if time.time() - t0 > budget_s:
            return None


def replay(rp):
    if rp.get('kind') != 'failing-input':
        print('replay: no failing input recorded; obligations that no longer check:', json.dumps(rp.get('no_longer_checks'))[:2000])
        return 1
    r = rp['replay']
    A, v = _unpack(r)
    res = oracle(r['func'], A, v, r['m'], r['krylov_dim'])
    print('replay ->', res)
    return 1 if res else 0

"""
C02 — block sparsity is an invariant of every operation sequence.
Correspondence: random histories of public operations on a pool of MPS/MPO objects under uninterpreted kernels; after every step the changed
objects, the returned scalars, the set of changed slots and the well-formedness flag are compared exactly with the Lean model (`Model/Ops.lean`).
Oracle (search only): real kernels, well-formedness + boundary-charge checks after every step of random histories.
"""
import json, time
import numpy as np
from .. import common, exact, history, kernels, mpsgen
from ..common import Corr

RULE = ('random histories (quick: 8 steps, thorough: 30) over {orthonormalize MPS/MPO, compress, +, -, @, apply_operator, zero_qnumbers, copy, from_vector, TDVP 1/2-site, DMRG 1/2-site} on pools of 2 MPS + 2 MPO '
        '(U(1) and encoded-pair charges, int/float/complex); distinct = (sequence of op kinds, L, d); every step compared')


def _shard(name, shard, nshards, tier, seed):
    c = Corr(name)
    rng = np.random.default_rng([seed, shard, 2])
    n = (800 if tier == "quick" else 12000) // nshards + 1
    nsteps = 8 if tier == 'quick' else 30
    ops, impls, sigs = [], [], []
    for _ in range(n):
        op, steps, meta = history.run_history(rng, nsteps)
        if not op['steps']:
            c.skipped += 1
            continue
        ops.append(op); impls.append(steps)
        p0 = op['pool'][0]['obj'] if op['pool'] else {'A': [], 'qd': []}
        sigs.append((tuple(s['h'] for s in op['steps']), len(p0['A']), len(p0['qd']), len(op['pool'])))
        if meta['inexact']:
            c.skipped += 1
    replies = common.drive(ops)
    for op, im, mo, sg in zip(ops, impls, replies, sigs):
        msteps = mo.get('steps', [])
        # compare step by step (the model stops at its first error; the implementation history stops at its first error, too)
        msteps = [dict(s, shared=[]) if s.get('ok') else s for s in msteps]
        im_cmp = [{k: v for k, v in s.items() if k != 'detail'} for s in im]
        br = []
        for s in op['steps']:
            br.append(s['h'])
        if im and not im[-1].get('ok'):
            br.append('err=' + im[-1]['err'])
        c.add(op, {'steps': im_cmp}, {'steps': msteps[:len(im_cmp)] if len(msteps) >= len(im_cmp) else msteps}, cls=sg, branches=br)
        c.evaluations += len(im_cmp) - 1
    return c


def _shard_fv(name, shard, nshards, tier, seed):
    from . import c13
    return c13._shard('mps.from_vector.tol', shard, nshards, tier, seed + 77)


def _shard_ctor(name, shard, nshards, tier, seed):
    """constructors with a numeric fill (the mask that enforces block sparsity), incl. malformed boundary bonds"""
    import pytenet as ptn
    from ..common import py_call
    from .. import gen
    c = Corr(name)
    rng = np.random.default_rng([seed, shard, 22])
    n = (240 if tier == "quick" else 9600) // nshards + 1
    ops, impls, sigs = [], [], []
    for _ in range(n):
        L = int(rng.integers(0, 4)); d = int(rng.integers(1, 4))
        qd = mpsgen.rand_qd(rng, d)
        qD = [gen.charges(rng, 1 if (i in (0, L) and rng.random() < 0.9) else int(rng.integers(1, 4)), int(rng.integers(0, 4))) for i in range(L + 1)]
        fill = [1, 2, -1, 0.5, 1 + 2j, 0][int(rng.integers(0, 6))]
        cls = 'MPS' if rng.random() < 0.5 else 'MPO'
        op = {'op': 'mps.filled' if cls == 'MPS' else 'mpo.filled', 'qd': exact.enc_ints(qd), 'qD': [exact.enc_ints(q) for q in qD], 'fill': exact.enc_scalar(fill)}

        def f(cls=cls, qd=qd, qD=qD, fill=fill):
            o = (ptn.MPS if cls == 'MPS' else ptn.MPO)(qd, qD, fill=fill)
            return {'mps' if cls == 'MPS' else 'mpo': mpsgen.enc_mp(o)}
        ops.append(op); impls.append(py_call(f)); sigs.append((cls, L, d, tuple(len(q) for q in qD), str(fill)))
    replies = common.drive(ops)
    for op, im, mo, sg in zip(ops, impls, replies, sigs):
        c.add(op, im, mo, cls=sg, branches=[sg[0]] + ([] if im['ok'] else ['err=' + im['err']]))
    return c


def correspondence(tier, seed):
    c = common.parallel_shards(_shard_fv, 'mps.from_vector.tol', tier, seed)
    c.name = 'mps.from_vector (truncating)'
    return [common.parallel_shards(_shard, 'history', tier, seed), c, common.parallel_shards(_shard_ctor, 'constructors', tier, seed)]


# ----------------------------------------------------------------------------- oracle

def oracle_history(rng, nsteps):
    """random history with REAL kernels on generic float/complex data; returns description of the first violation or None"""
    import pytenet as ptn
    from .c03 import rnd_like
    from .c01 import dense_mps, dense_mpo
    pool = [rnd_like(rng, o, rng.random() < 0.5) for o in history.init_pool(rng)]
    log = []
    if rng.random() < 0.25 and pool:
        # construction with a numeric fill: the constructor itself must enforce the additive rule
        for cls in (ptn.MPS, ptn.MPO):
            o0 = pool[0] if cls is ptn.MPS else pool[-1]
            fill = [1, 2.5, -1, 1 + 2j][int(rng.integers(0, 4))]
            qD = [np.array(q) for q in o0.qD]
            try:
                o = cls(o0.qd.copy(), qD, fill=fill)
            except Exception as ex:
                return f'{cls.__name__}(qd, qD, fill={fill}) raises {type(ex).__name__}: {ex}', log
            log.append({'h': 'construct', 'cls': cls.__name__, 'qd': o0.qd.tolist(), 'qD': [q.tolist() for q in qD], 'fill': str(fill)})
            if not history.wf(o):
                return f'{cls.__name__}(qd={o0.qd.tolist()}, qD={[q.tolist() for q in qD]}, fill={fill}) has non-zero entries violating the quantum-number rule', log
            pool.append(o)
    if rng.random() < 0.3 and pool:
        # pool without quantum numbers, seeded with states built by MPS.from_vector (truncating: tol > 0, product states, exact zeros)
        L = pool[0].nsites; d = len(pool[0].qd)
        for o in pool:
            o.zero_qnumbers()
        for _ in range(2):
            kind = int(rng.integers(0, 3))
            if kind == 0:
                v = rng.standard_normal(d ** L); tol = float(rng.choice([0.02, 0.1, 0.3]))
            elif kind == 1:
                v = np.zeros(d ** L); v[int(rng.integers(0, d ** L))] = 1.0; tol = 0.0
            else:
                f = [rng.standard_normal(d) for _ in range(L)]
                v = f[0]
                for x in f[1:]:
                    v = np.kron(v, x)
                tol = 1e-12
            if np.linalg.norm(v) == 0:
                continue
            try:
                pool.append(ptn.MPS.from_vector(d, L, v, tol=tol))
            except Exception as ex:
                return f'MPS.from_vector(d={d}, nsites={L}, tol={tol}) raises {type(ex).__name__}: {ex}', log
            log.append({'h': 'from_vector', 'd': d, 'nsites': L, 'tol': tol, 'v': v.tolist()})
            if not history.wf(pool[-1]):
                return (f'MPS.from_vector(d={d}, nsites={L}, tol={tol}) returns an object whose quantum-number lists do not have the '
                        f'lengths of the bond dimensions: {[len(q) for q in pool[-1].qD]} vs {pool[-1].bond_dims}'), log
    if rng.random() < 0.35 and pool:
        # a state in an empty sector (the zero state): every tensor splitting then goes through the dummy-bond branches
        L0 = pool[0].nsites
        z = rnd_like(rng, mpsgen.rand_mps(rng, L=L0, qd=pool[0].qd.copy(), maxD=2, consistent=False,
                                          boundary=(int(pool[0].qD[0][0]), int(pool[0].qD[-1][0]) + 7)), True)
        pool.append(z)
        log.append({'h': 'zero_sector_state', 'qD': [q.tolist() for q in z.qD]})
    for _ in range(nsteps):
        # tensor splitting (a public operation of C02's list): merge a neighbouring pair and split it again
        cand = [i for i, o in enumerate(pool) if type(o).__name__ == 'MPS' and o.nsites >= 2]
        if cand and rng.random() < 0.3:
            k = int(rng.choice(cand)); o = pool[k]; i = int(rng.integers(0, o.nsites - 1))
            distr = ['left', 'right', 'sqrt'][int(rng.integers(0, 3))]
            log.append({'h': 'merge_split', 'obj': k, 'site': i, 'svd_distr': distr})
            try:
                Am = ptn.merge_mps_tensor_pair(o.A[i], o.A[i + 1])
                o.A[i], o.A[i + 1], o.qD[i + 1] = ptn.split_mps_tensor(Am, o.qd, o.qd, [o.qD[i], o.qD[i + 2]], distr, 0)
            except Exception as ex:
                return f'split_mps_tensor(merge(A[{i}], A[{i + 1}]), svd_distr={distr!r}, tol=0) raises {type(ex).__name__}: {ex}', log
            if not history.wf(o):
                return (f'after merging and re-splitting sites {i},{i + 1} of object {k} (svd_distr={distr!r}, qD={[np.asarray(q).tolist() for q in o.qD]}): '
                        'a tensor entry violates the quantum-number rule / a charge list has the wrong length'), log
        op = history.choose_op(rng, pool, allow_invalid=0.0)
        log.append({k: (str(v) if isinstance(v, complex) else [str(x) for x in v] if isinstance(v, list) else v) for k, v in op.items()})
        tgt = op['i'] if op['h'] in ('ortho_mps', 'ortho_mpo', 'compress') + history.INPLACE_EVO else None
        before = None
        if tgt is not None:
            o = pool[tgt]
            dense = dense_mpo(o) if type(o).__name__ == 'MPO' else dense_mps(o)
            before = (o.qD[0].copy(), o.qD[-1].copy(), np.linalg.norm(dense))
        try:
            rec = kernels.Recorder()
            h = op['h']
            if h in ('ortho_mps', 'ortho_mpo'):
                pool[op['i']].orthonormalize(mode=op['mode'])
            elif h == 'compress':
                if before[2] == 0:
                    continue
                pool[op['i']].compress(op['tol'], mode=op['mode'])
            elif h in ('add_mps', 'add_mpo'):
                a, b = pool[op['i']], pool[op['j']]
                pool.append(a + b if op['alpha'] == 1 else a - b)
            elif h == 'mul_mpo':
                pool.append(pool[op['i']] @ pool[op['j']])
            elif h == 'apply':
                pool.append(ptn.apply_operator(pool[op['i']], pool[op['j']]))
            elif h == 'zero_q':
                pool[op['i']].zero_qnumbers()
            elif h == 'from_vector':
                pool.append(ptn.MPS.from_vector(op['d'], op['nsites'], np.array(op['v']), tol=op['tol']))
            elif h in history.INPLACE_EVO:
                if before[2] == 0:
                    continue
                H, psi = pool[op['iH']], pool[op['i']]
                if h in ('tdvp1', 'tdvp2') and np.linalg.norm(dense_mpo(H), 2) * abs(op['dt']) * op['numsteps'] > 30:
                    # exp(-dt H) overflows / loses all precision: floating-point range, not block sparsity (operators in the
                    # pool are products and sums of products, their norms grow geometrically along a history)
                    log.pop()
                    continue
                if h == 'tdvp1':
                    ptn.integrate_local_singlesite(H, psi, op['dt'], op['numsteps'], numiter_lanczos=max(op['numiter'], 4))
                elif h == 'tdvp2':
                    ptn.integrate_local_twosite(H, psi, op['dt'], op['numsteps'], numiter_lanczos=max(op['numiter'], 4), tol_split=op['tol'])
                elif h == 'dmrg1':
                    ptn.calculate_ground_state_local_singlesite(H, psi, op['numsteps'], numiter_lanczos=max(op['numiter'], 4))
                else:
                    ptn.calculate_ground_state_local_twosite(H, psi, op['numsteps'], numiter_lanczos=max(op['numiter'], 4), tol_split=op['tol'])
            elif h == 'copy':
                o = pool[op['i']]
                pool.append(mpsgen.copy_mpo(o) if type(o).__name__ == 'MPO' else mpsgen.copy_mps(o))
            elif h in ('new_mps', 'new_mpo', 'identity', 'from_opgraph', 'resplit'):
                history.apply_op_real(pool, op)     # creating operations and re-splitting (real kernels)
        except Exception as ex:
            if isinstance(ex, (np.linalg.LinAlgError, FloatingPointError, OverflowError)) or \
                    any(a is not None and (not np.all(np.isfinite(a)) or np.abs(a).max(initial=0) > 1e120) for o in pool for a in o.A):
                # overflow / non-finite values / LAPACK non-convergence: outside the exact model and outside the property
                return None, log
            return f'step {len(log)} ({op}) raises {type(ex).__name__}: {ex}', log
        for i, o in enumerate(pool):
            try:
                ok = history.wf(o)
            except Exception as ex:
                return f'after step {len(log)} ({op}): object {i} has malformed quantum numbers ({type(ex).__name__}: {ex})', log
            if not ok:
                return f'after step {len(log)} ({op}): object {i} violates block sparsity / charge-list lengths', log
        if before is not None and before[2] > 1e-12:
            o = pool[tgt]
            if not (np.array_equal(o.qD[0], before[0]) and np.array_equal(o.qD[-1], before[1])):
                return f'step {len(log)} ({op}) changed the boundary quantum numbers of a non-zero object', log
    return None, log


def search(tier, seed, hints, budget_s):
    t0 = time.time()
    it = 0
    while time.time() - t0 < budget_s:
        r, log = oracle_history(np.random.default_rng([seed, 202, it]), 12)
        if r is not None:
            return {'key': f'c02:{seed}:{it}', 'what': r,
                    'replay': {'call': 'harness.props.c02.oracle_history(np.random.default_rng([seed, 202, it]), 12)', 'seed': seed, 'it': it,
                               'history': log, 'observed': r}}
        it += 1
    return None


def replay(rp):
    if rp.get('kind') != 'failing-input':
        print('replay: no failing input recorded; obligations that no longer check:', json.dumps(rp.get('no_longer_checks'))[:2000])
        return 1
    r = rp['replay']
    res, log = oracle_history(np.random.default_rng([r['seed'], 202, r['it']]), 12)
    print('replay ->', res)
    return 1 if res else 0

"""
C15 — Krylov approximations (`eigh_krylov`, `expm_krylov`) are bounded, and exact once the Krylov space is exhausted.

Correspondence: `krylov.eigh_krylov` / `krylov.expm_krylov` (both values of `hermitian`) with `Afunc = lambda x: A @ x` under
uninterpreted kernels (fake `np.linalg.norm`, `np.exp`, `eigh_tridiagonal`, `expm`; see `harness/krylov_kernels.py`) against
`PtnModel/Model/Krylov.lean`; exact comparison.  Generators are those of C14 plus `numeig`, `dt`, `hermitian`.
Oracle (search only): real kernels, tolerance checks written from the property text.
"""
import json, time, warnings
import numpy as np
from .. import common, exact
from ..common import Corr
from .. import krylov_kernels as kk
from . import c14

RULE = ('matrices / start vectors / numiter / norm steering as C14; numeig 0..numiter+1; dt from a menu of small dyadic Gaussian rationals '
        '(real, imaginary, complex, zero); hermitian in {True, False}; '
        'distinct = (function, hermitian flag, n, numiter, matrix kind, vector kind, dt class, number of Lanczos/Arnoldi vectors or err)')

DTS = [1.0, -1.0, 0.5, 1j, -1j, 0.5j, -0.5j, 1 + 1j, -0.5 + 1j, 0.0, 2.0, 0.25j]


def dt_class(dt):
    dt = complex(dt)
    return 'zero' if dt == 0 else ('real' if dt.imag == 0 else ('imag' if dt.real == 0 else 'complex'))


def _shard(name, shard, nshards, tier, seed):
    func = 'eigh' if name.endswith('eigh_krylov') else 'expm'
    c = Corr(name)
    rng = np.random.default_rng([seed, shard, 15, 0 if func == 'eigh' else 1])
    ncase = ((10000 if func == 'eigh' else 16000) if tier == 'quick' else (120000 if func == 'eigh' else 240000)) // nshards + 1
    nmax = 6 if tier == 'quick' else 10
    ops, impls, metas = [], [], []
    for _ in range(ncase):
        case = c14.gen_case(rng, nmax)
        if func == 'eigh':
            extra = {'numeig': int(rng.integers(0, case['m'] + 2))}
        else:
            dt = DTS[int(rng.integers(len(DTS)))]
            extra = {'dt': dt if rng.random() < 0.7 else complex(dt), 'hermitian': bool(rng.random() < 0.5)}
        try:
            r, rec, raw = c14.call_impl(func, case, extra)
            arn = func == 'expm' and not extra['hermitian']
            if rec.inexact or not kk.certified_exact(rec, raw, case['A'], arnoldi=arn):
                c.skipped += 1
                continue
            op = c14.make_op(func, case, rec, extra)
        except exact.Inexact:
            c.skipped += 1
            continue
        ops.append(op); impls.append(r); metas.append((case, extra, rec))
    replies = common.drive(ops)
    for op, im, mo, (case, extra, rec) in zip(ops, impls, replies, metas):
        mo = dict(mo); mo['inputs_unchanged'] = True
        n, m = len(case['v']), case['m']
        # number of Krylov vectors actually produced (visible through the size of the eigh / expm kernel input)
        kv = None
        for cl in rec.calls:
            if cl['k'] == 'eigh':
                kv = len(cl['in']['alpha'])
            if cl['k'] == 'expm':
                kv = cl['in']['shape'][0]
        res = ('k=%d' % kv) if im.get('ok') and kv is not None else ('err=' + im.get('err', '?'))
        br = [res if not im.get('ok') else ('full' if kv == m else 'early-return')]
        if m == 1:
            br.append('m=1')
        if m > n:
            br.append('m>n')
        if m == 0:
            br.append('m=0')
        if func == 'expm':
            br.append('hermitian' if extra['hermitian'] else 'general')
            br.append('dt ' + dt_class(extra['dt']))
            cls = (func, extra['hermitian'], n, m, case['mk'], case['vk'], dt_class(extra['dt']), res)
        else:
            ne = extra['numeig']
            br.append('numeig=0' if ne == 0 else ('numeig>k' if kv is not None and ne > kv else 'numeig<=k'))
            cls = (func, n, m, case['mk'], case['vk'], min(ne, 3), res)
        c.add(op, im, mo, cls=cls, branches=br)
    return c


def correspondence(tier, seed):
    return [common.parallel_shards(_shard, nm, tier, seed) for nm in ('krylov.eigh_krylov', 'krylov.expm_krylov')]


# ----------------------------------------------------------------------------- oracle (real kernels)

def reachable_min(A, v):
    """smallest eigenvalue of Hermitian A whose eigenspace has non-zero overlap with v, Krylov dimension estimate"""
    lam, Q = np.linalg.eigh(A)
    ov = np.abs(Q.conj().T @ v)
    nz = ov > 1e-8 * max(np.linalg.norm(v), 1e-300)
    return float(lam[nz].min())


def oracle(A, v, m, d, dt, hermA, lam_reach_min=None):
    _alias_ok = True
    """
    A: matrix (Hermitian iff hermA), v: non-zero start vector, m >= 1, d: Krylov dimension of (A, v), dt: complex time argument.
    Returns None or a description of the violated clause of C15.
    """
    from pytenet import krylov
    from scipy.linalg import expm as sp_expm
    n = len(v)
    A0, v0 = A.copy(), v.copy()
    nv = float(np.linalg.norm(v))
    nA = max(1.0, float(np.linalg.norm(A, 2)) if n else 1.0)

    def Afunc(x):
        # the map may return its argument (or a view of it) when it acts as the identity on x: a matrix-free `Afunc` such as
        # `lambda x: x` is a legitimate Hermitian map (finding F8: the iterations used to update Afunc's return value in place)
        if _alias_ok and np.array_equal(A, np.identity(len(x))):
            return x
        return A @ x

    def run(f):
        with warnings.catch_warnings():
            warnings.simplefilter('ignore')
            return common.with_alarm(20, f)
    exact_ref = sp_expm(dt * A) @ v
    tol_exp = 1e-7 * nv * max(1.0, float(np.exp(abs(complex(dt).real) * nA)))
    flags = (True, False) if hermA else (False,)
    for hf in flags:
        try:
            r = run(lambda: krylov.expm_krylov(Afunc, v, dt, m, hermitian=hf))
        except Exception as ex:
            return f'expm_krylov(hermitian={hf}) raises {type(ex).__name__}: {ex}'
        r = np.asarray(r)
        if r.shape != (n,):
            return f'expm_krylov(hermitian={hf}) returns shape {r.shape}, expected ({n},)'
        if not np.all(np.isfinite(r)):
            return f'expm_krylov(hermitian={hf}) returns non-finite values'
        if m >= d and np.abs(r - exact_ref).max() > tol_exp:
            return (f'expm_krylov(hermitian={hf}) with numiter={m} >= Krylov dimension {d} differs from expm(dt*A) @ v by '
                    f'{np.abs(r - exact_ref).max():.3g}')
    if hermA:
        # unitarity for purely imaginary time
        t = complex(dt).imag if complex(dt).imag != 0 else 0.7
        try:
            r = np.asarray(run(lambda: krylov.expm_krylov(Afunc, v, 1j * t, m, hermitian=True)))
        except Exception as ex:
            return f'expm_krylov(hermitian=True, dt=1j*{t}) raises {type(ex).__name__}: {ex}'
        if abs(np.linalg.norm(r) - nv) > 1e-8 * nv:
            return f'Hermitian exponential with imaginary time changes the norm: {np.linalg.norm(r):.12g} vs {nv:.12g}'
        # Ritz values
        try:
            w, u = run(lambda: krylov.eigh_krylov(Afunc, v, m, m))
        except Exception as ex:
            return f'eigh_krylov raises {type(ex).__name__}: {ex}'
        w = np.asarray(w); u = np.asarray(u)
        if w.ndim != 1 or u.ndim != 2 or u.shape != (n, len(w)) or len(w) < 1 or len(w) > m:
            return f'eigh_krylov: inconsistent sizes w{w.shape} u{u.shape} (n={n}, numiter={m})'
        if np.iscomplexobj(w) or not np.all(np.isfinite(w)):
            return 'eigh_krylov: Ritz values are not finite real numbers'
        # a single requested Ritz pair: one value, one vector, the same lowest pair
        try:
            w1, u1 = run(lambda: krylov.eigh_krylov(Afunc, v, m, 1))
        except Exception as ex:
            return f'eigh_krylov(numeig=1) raises {type(ex).__name__}: {ex}'
        w1 = np.asarray(w1); u1 = np.asarray(u1)
        if w1.shape != (1,) or u1.shape != (n, 1):
            return f'eigh_krylov(numeig=1): inconsistent sizes w{w1.shape} u{u1.shape} (n={n})'
        if abs(w1[0] - w[0]) > 1e-9 * nA or np.abs(u1[:, 0] - u[:, 0]).max() > 1e-9:
            return 'eigh_krylov(numeig=1) does not return the lowest Ritz pair of the full call'
        lam = np.linalg.eigvalsh(A)
        rq = float(np.real(np.vdot(v, A @ v)) / nv ** 2)
        tol = 1e-8 * nA
        th1 = float(w[0])
        if th1 > w.min() + tol:
            return 'eigh_krylov: the first returned Ritz value is not the lowest one'
        if th1 < lam[0] - tol:
            return f'lowest Ritz value {th1:.12g} below the smallest eigenvalue {lam[0]:.12g}'
        if th1 > rq + tol:
            return f'lowest Ritz value {th1:.12g} above the Rayleigh quotient {rq:.12g} of the start vector'
        if m >= d:
            lr = lam_reach_min if lam_reach_min is not None else reachable_min(A, v)
            # The Krylov space of the *rounded* input is only numerically d-dimensional.  If the breakdown was detected (or m = d)
            # exactly d vectors were produced and the lowest Ritz value must be the smallest reachable eigenvalue; if the iteration ran
            # on past the exhaustion point (rounding noise above the absolute threshold) the property only promises the leading
            # part, which still forces theta_1 <= smallest reachable eigenvalue (interlacing).
            if th1 > lr + 1e-7 * nA or (len(w) <= d and abs(th1 - lr) > 1e-7 * nA):
                return f'numiter={m} >= Krylov dimension {d}: lowest Ritz value {th1:.12g} differs from the smallest reachable eigenvalue {lr:.12g}'
        if len(w) <= d:
            G = u.conj().T @ u
            if np.abs(G - np.identity(len(w))).max() > 1e-7:
                return f'Ritz vectors are not orthonormal (deviation {np.abs(G - np.identity(len(w))).max():.3g})'
            rqs = np.real(np.einsum('ij,ij->j', u.conj(), A @ u))
            if np.abs(rqs - w).max() > 1e-7 * nA:
                return f'Rayleigh quotients of the Ritz vectors differ from the Ritz values by {np.abs(rqs - w).max():.3g}'
    if not (np.array_equal(A, A0) and np.array_equal(v, v0)):
        return 'inputs were modified'
    return None


def oracle_cases(rng, hints):
    for opn, A, v, m, op in c14.hint_cases(hints):
        if not np.any(v) or m < 1:
            continue
        from .c11 import dec_scalar
        dt = complex(dec_scalar(op['dt'])) if 'dt' in op else 0.5j
        Ah = A + A.conj().T
        for M, hf in ((Ah, True), (A, False)):
            d = c14.krylov_dim_exact(M, v)
            for mm in sorted({m, 1, d, d + 1, len(v), len(v) + 2}):
                if mm >= 1:
                    yield M, v, mm, d, dt, hf, None
    # identity map implemented as `lambda x: x` (returns its argument): Krylov dimension 1, exp(dt) v expected
    for n in (1, 3, 5):
        v = rng.standard_normal(n) + (1j * rng.standard_normal(n) if n > 1 else 0)
        for hf in (True, False):
            for mm in (1, 2, n + 1):
                yield np.identity(n), v, mm, 1, complex(rng.choice([0.5, 0.3j, -0.2 + 0.1j])), hf, 1.0
    while True:
        hermA = bool(rng.random() < 0.65)
        r = rng.random()
        if r < 0.3:
            cs = c14.gen_exact_invariant_case(rng, 8, hermitian=hermA)
            lr = None
        else:
            cs = c14.gen_spectral_case(rng, 8, hermitian=hermA)
            nz = np.abs(cs['c']) > 1e-9
            lr = float(np.real(cs['lam'][nz]).min()) if hermA else None
        n, d = len(cs['v']), cs['d']
        q = rng.random()
        m = int(rng.integers(1, n + 4)) if q < 0.4 else (int(rng.integers(d, n + 3)) if q < 0.65 else int(rng.integers(1, max(d, 2))))
        dt = complex(rng.choice(np.array([0.5j, -1j, 0.3, -0.4 + 0.8j, 1.1j, 0.25 - 0.5j])))
        yield cs['A'], cs['v'], m, d, dt, hermA, lr


def f15_instance(scale, numiter):
    """the listed input of known finding F15: a Hermitian 16 x 16 matrix with spectrum scale * linspace(-1, 1, 16) and a start
    vector supported on 6 eigenvectors (Krylov dimension 6, smallest reachable eigenvalue -scale / 3);
    returns (number of Lanczos vectors, lowest Ritz value / scale)"""
    import pytenet as ptn
    rng = np.random.default_rng(3)
    n = 16
    Q, _ = np.linalg.qr(ptn.crandn((n, n), rng))
    d = scale * np.linspace(-1, 1, n)
    A = (Q * d) @ Q.conj().T
    A = 0.5 * (A + A.conj().T)
    v = Q[:, [5, 7, 8, 10, 12, 14]] @ ptn.crandn(6, rng)
    w, _u = ptn.eigh_krylov(lambda x: A @ x, v, numiter, 1)
    al, _be, _V = ptn.lanczos_iteration(lambda x: A @ x, v, numiter)
    return len(al), float(w[0]) / scale


def f15_tiny_instance(scale):
    """second listed input of F15 (false breakdown at tiny scale): A = scale * (random Hermitian 8 x 8), dt = 0.3j / scale;
    returns (number of Lanczos vectors, relative error of expm_krylov with numiter = 8)"""
    import pytenet as ptn
    from scipy.linalg import expm
    rng = np.random.default_rng(5)
    n = 8
    B = ptn.crandn((n, n), rng)
    A = scale * (B + B.conj().T) / 2
    v = ptn.crandn(n, rng)
    dt = 0.3j / scale
    e = ptn.expm_krylov(lambda x: A @ x, v, dt, n, hermitian=True)
    ref = expm(dt * A) @ v
    al, _be, _V = ptn.lanczos_iteration(lambda x: A @ x, v, n)
    return len(al), float(np.linalg.norm(e - ref) / np.linalg.norm(ref))


def known_findings_present(k):
    """F15: the listed input, replayed on the real code on every run"""
    if k.get('key') != 'ritz-past-exhaustion':
        return False
    try:
        n1, r1 = f15_instance(1.0, 10)      # breakdown detected: 6 vectors, reachable minimum -1/3
        n10, r10 = f15_instance(10.0, 10)   # rounding noise above the absolute threshold: 10 vectors, Ritz value near -1
    except Exception:
        return False
    a = n1 == 6 and abs(r1 + 1 / 3) < 1e-9 and n10 > 6 and r10 < -0.5
    try:
        m1, e1 = f15_tiny_instance(1e-6)     # 8 vectors, exact
        m2, e2 = f15_tiny_instance(1e-13)    # genuine beta below the absolute threshold: 1 vector, error 0.43
        b = m1 == 8 and e1 < 1e-12 and m2 < 8 and e2 > 1e-3
    except Exception:
        b = False
    return a or b


def search(tier, seed, hints, budget_s):
    t0 = time.time()
    rng = np.random.default_rng([seed, 1515])
    for A, v, m, d, dt, hermA, lr in oracle_cases(rng, hints):
        r = oracle(A, v, m, d, dt, hermA, lr)
        if r is not None:
            return {'key': f'n={len(v)}:m={m}:d={d}:herm={hermA}:' + r.split(' by ')[0][:70], 'what': r,
                    'replay': {'call': 'pytenet.krylov.expm_krylov / eigh_krylov (lambda x: A @ x, v, ..., numiter=m)', 'm': m, 'krylov_dim': d,
                               'dt': [complex(dt).real, complex(dt).imag], 'hermitian_matrix': hermA, 'lam_reach_min': lr,
                               'observed': r, **c14._pack(A, v)}}
        if time.time() - t0 > budget_s:
            return None


def replay(rp):
    if rp.get('kind') != 'failing-input':
        print('replay: no failing input recorded; obligations that no longer check:', json.dumps(rp.get('no_longer_checks'))[:2000])
        return 1
    r = rp['replay']
    A, v = c14._unpack(r)
    res = oracle(A, v, r['m'], r['krylov_dim'], complex(*r['dt']), r['hermitian_matrix'], r.get('lam_reach_min'))
    print('replay ->', res)
    return 1 if res else 0

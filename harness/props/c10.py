"""
C10 — DMRG energies are variational, consistent with the returned state and monotone.
Correspondence: whole calls of calculate_ground_state_local_singlesite / _twosite under uninterpreted kernels against `Model/Evolution.lean`
(final tensors, charges, energy list, H untouched).
Oracle (search only): real kernels; the clauses of the property text.
"""
import json, time
import numpy as np
from .. import evolib, mpsgen
from .c01 import dense_mps, dense_mpo

RULE = ('random Hermitian / built-in / general MPOs (L 1..3, d 2, D<=2) x random MPS x numsweeps 1..2 x numiter 2..3 x tol_split; '
        'distinct = (variant, L, bond profile, numiter, numsweeps, tol, outcome, kernel-call profile)')
correspondence = evolib.corr_dmrg


def sector_ground_energy(Hd, qd, L, total):
    """smallest eigenvalue of H restricted to basis states whose physical charges sum to `total`"""
    import itertools
    idx = [i for i, s in enumerate(itertools.product(range(len(qd)), repeat=L)) if sum(qd[k] for k in s) == total]
    if not idx:
        return None
    Hs = Hd[np.ix_(idx, idx)]
    return float(np.linalg.eigvalsh(Hs)[0])


def complete_case(rng):
    """'On a complete manifold with enough local Lanczos iterations the exact ground-state energy is reached': complete
    manifolds without charges (maximal bond dimensions) and complete manifolds of charge sectors of the shape for which one
    local problem of the sweep is the full sector problem (c09.splitting_exact)"""
    import pytenet as ptn
    from . import c09
    two = bool(rng.random() < 0.5)
    if rng.random() < 0.5:
        L = int(rng.integers(2, 4)); qd = np.zeros(2, dtype=int)
        H = evolib.hermitian_mpo(rng, L, qd, exact_vals=False)
        psi = c09.full_mps(rng, L, qd, cplx=bool(rng.random() < 0.6)); total = 0
    else:
        L = int(rng.integers(2, 5))
        H = ptn.heisenberg_xxz_mpo(L, float(rng.choice([1, -1.5, 4 / 3])), float(rng.choice([0.5, 1, -0.7])), float(rng.choice([0, 0.3])))
        tot = sorted(c09._count(H.qd, L)); total = int(tot[int(rng.integers(0, len(tot)))])
        psi = c09.sector_state(rng, L, H.qd, total, cplx=bool(rng.random() < 0.6))
        if psi is None or not c09.splitting_exact(c09.bond_kinds(psi), two):
            return None
    Hd = dense_mpo(H)
    if np.abs(Hd - Hd.conj().T).max() > 1e-12 or not np.any(Hd):
        return None
    e0 = sector_ground_energy(Hd, [int(q) for q in H.qd], L, total)
    d = len(H.qd); D0 = list(psi.bond_dims)
    numiter = (d * d if two else d) * max(D0) ** 2 + 2
    numsweeps = int(rng.integers(1, 3))
    what = f'{"two" if two else "single"}-site DMRG on a complete manifold (qd={list(map(int, H.qd))}, sector {total}, L={L}, D={D0}, numsweeps={numsweeps}, numiter={numiter})'
    try:
        if two:
            en = ptn.calculate_ground_state_local_twosite(H, psi, numsweeps, numiter_lanczos=numiter, tol_split=0)
        else:
            en = ptn.calculate_ground_state_local_singlesite(H, psi, numsweeps, numiter_lanczos=numiter)
    except Exception as ex:
        return f'{what}: raises {type(ex).__name__}: {ex}'
    tol = 1e-8 * max(1.0, np.abs(Hd).max())
    if abs(en[-1] - e0) > tol:
        return f'{what}: final energy {en[-1]} but the exact ground-state energy of the sector is {e0}'
    return None


def oracle_case(rng):
    if rng.random() < 0.2:
        return complete_case(rng)
    return general_case(rng)


def general_case(rng):
    import pytenet as ptn
    from .c03 import rnd_like
    two = bool(rng.random() < 0.5)
    L = int(rng.integers(2, 5))
    if rng.random() < 0.5:
        H = evolib.builtin_mpo(rng, L); qd = H.qd
    else:
        qd = mpsgen.rand_qd(rng, 2); H = evolib.hermitian_mpo(rng, L, qd, exact_vals=False)
    psi = rnd_like(rng, mpsgen.rand_mps(rng, L=L, qd=qd, maxD=int(rng.integers(1, 5))), rng.random() < 0.7)
    if rng.random() < 0.2:
        # positive spectrum + early Lanczos termination: H = (diagonal Ising) + c * 1 and a product basis state; a spurious zero
        # Ritz value (zero padding of the tridiagonal matrix after an early return, seeded change C10-g) is then BELOW the spectrum
        c = float(rng.choice([3.0, 5.0]))
        H = ptn.ising_mpo(L, float(rng.choice([1, -0.5])), float(rng.choice([0.5, -1])), float(rng.choice([0.0, 0.0, 0.3]))) \
            + ptn.MPO.identity([0, 0], L, scale=c ** (1.0 / L))
        qd = H.qd
        psi = ptn.MPS(qd, [[0]] * (L + 1), fill=0.0)
        for i in range(L):
            A = np.zeros((2, 1, 1), dtype=complex); A[int(rng.integers(0, 2)), 0, 0] = 1.0
            psi.A[i] = A
    v0 = dense_mps(psi); n0 = np.linalg.norm(v0)
    if n0 < 1e-6:
        return None
    Hd = dense_mpo(H)
    if np.abs(Hd - Hd.conj().T).max() > 1e-12:
        return None
    e_start = np.vdot(v0, Hd @ v0).real / n0 ** 2
    total = int(psi.qD[-1][0] - psi.qD[0][0])
    e0 = sector_ground_energy(Hd, [int(q) for q in qd], L, total)
    numsweeps = int(rng.integers(1, 4)); numiter = int(rng.integers(2, 10)) if rng.random() < 0.5 else 25
    Hs = mpsgen.snapshot(H)
    # two-site DMRG with a genuine truncation (tol_split > 0): the clauses 'energy of the returned state = last reported energy' and
    # 'never exceeds the energy of the start' are FALSE there (known finding F13: the Ritz value is reported before the truncating
    # split); everything else is still demanded, so any other violation is reported as usual
    tsp = float(rng.choice([0.05, 0.2, 0.4])) if (two and rng.random() < 0.35) else 0.0
    what = f'{"two" if two else "single"}-site DMRG, L={L}, D={psi.bond_dims}, numsweeps={numsweeps}, numiter={numiter}' + (f', tol_split={tsp}' if tsp else '')
    tol = 1e-8 * max(1.0, np.abs(Hd).max())
    try:
        for rep in range(2):
            if two:
                en = ptn.calculate_ground_state_local_twosite(H, psi, numsweeps, numiter_lanczos=numiter, tol_split=tsp)
            else:
                en = ptn.calculate_ground_state_local_singlesite(H, psi, numsweeps, numiter_lanczos=numiter)
            v = dense_mps(psi)
            if abs(np.linalg.norm(v) - 1) > 1e-8:
                return f'{what}: returned state has norm {np.linalg.norm(v)}'
            e = np.vdot(v, Hd @ v).real
            if abs(e - en[-1]) > tol * 10 and not tsp:
                return f'{what}: last reported energy {en[-1]} but <psi|H|psi> = {e}'
            if e0 is not None and np.any(en < e0 - tol * 10):
                return f'{what}: reported energy {en.min()} below the exact ground-state energy {e0} of the sector'
            if np.any(en > e_start + tol * 10) and not tsp:
                return f'{what}: reported energy {en.max()} exceeds the energy {e_start} of the normalized starting state'
            if np.any(np.diff(en) > tol * 10) and not tsp:
                return f'{what}: reported energies increase: {en}'
            if mpsgen.snapshot(H) != Hs:
                return f'{what}: the Hamiltonian MPO was modified'
            if not mpsgen.is_wf_mps(psi):
                return f'{what}: state violates block sparsity'
            e_start = e
    except Exception as ex:
        return f'{what}: raises {type(ex).__name__}: {ex}'
    return None


def f13_instance(tol_split):
    """the listed input of known finding F13: XXZ chain (L = 3, J = 1, D = 1/2, h = 1/4, charges zeroed) and a fixed real start state
    with bonds [1, 2, 2, 1]; returns (last reported energy, <psi|H|psi> of the returned state, norm)"""
    import pytenet as ptn
    H = ptn.heisenberg_xxz_mpo(3, 1.0, 0.5, 0.25); H.zero_qnumbers()
    psi = ptn.MPS(H.qd, [np.zeros(d, dtype=int) for d in [1, 2, 2, 1]], fill=0.0)
    vals = iter(range(1, 100))
    for i in range(3):
        A = np.zeros(psi.A[i].shape)
        for idx in np.ndindex(*A.shape):
            A[idx] = ((next(vals) * 7) % 11 - 5) / 4
        psi.A[i] = A
    en = ptn.calculate_ground_state_local_twosite(H, psi, 2, numiter_lanczos=25, tol_split=tol_split)
    v = dense_mps(psi)
    return float(en[-1]), float(np.vdot(v, dense_mpo(H) @ v).real), float(np.linalg.norm(v))


def f16_present():
    """F16: both DMRG drivers on a chain of ONE site (empty sweep loops): reported energies 0, state not optimised"""
    import pytenet as ptn
    try:
        H = ptn.heisenberg_xxz_mpo(1, 1.0, 0.7, 0.3); H.zero_qnumbers()
        hits = 0
        for f in (ptn.calculate_ground_state_local_singlesite, ptn.calculate_ground_state_local_twosite):
            psi = ptn.MPS(H.qd, [[0], [0]], fill=0.0)
            psi.A[0] = np.array([[[0.6]], [[0.8]]])
            en = f(H, psi, 2, numiter_lanczos=10)
            v = dense_mps(psi)
            e = float(np.vdot(v, dense_mpo(H) @ v).real)
            hits += bool(abs(en[-1]) < 1e-12 and abs(e - en[-1]) > 1e-3)
        return hits == 2
    except Exception:
        return False


def known_findings_present(k):
    """F13: the listed input, replayed on the real code on every run"""
    if k.get('key') == 'dmrg-one-site-chain':
        return f16_present()
    if k.get('key') != 'dmrg2-truncation-energy':
        return False
    try:
        e_rep, e_state, n = f13_instance(0.3)
        e_rep0, e_state0, _ = f13_instance(0.0)
    except Exception:
        return False
    # with truncation the reported Ritz value differs from the energy of the returned state; without truncation it does not
    return abs(e_rep - e_state) > 1e-6 and abs(e_rep0 - e_state0) < 1e-9 and abs(n - 1) < 1e-9


# minimized past failures run first: the cases on which the unrepaired Lanczos iteration (F11: more iterations than the
# dimension of the local problem) made single-site DMRG report increasing / inconsistent energies
CORPUS = [(0, 3548), (0, 8656), (0, 17717), (0, 22456), (0, 33969), (0, 37641)]


def search(tier, seed, hints, budget_s):
    for s0, it0 in CORPUS:
        r = general_case(np.random.default_rng([s0, 1010, it0]))
        if r is not None:
            return {'key': f'c10:corpus:{s0}:{it0}', 'what': r,
                    'replay': {'call': 'harness.props.c10.general_case(np.random.default_rng([seed, 1010, it]))', 'corpus': True, 'seed': s0, 'it': it0, 'observed': r}}
    t0 = time.time(); it = 0
    while time.time() - t0 < budget_s:
        r = oracle_case(np.random.default_rng([seed, 1010, it]))
        if r is not None:
            return {'key': f'c10:{seed}:{it}', 'what': r,
                    'replay': {'call': 'harness.props.c10.oracle_case(np.random.default_rng([seed, 1010, it]))', 'seed': seed, 'it': it, 'observed': r}}
        it += 1
    return None


def replay(rp):
    if rp.get('kind') != 'failing-input':
        print('replay: no failing input recorded; obligations that no longer check:', json.dumps(rp.get('no_longer_checks'))[:2000])
        return 1
    r = rp['replay']
    res = (general_case if r.get('corpus') else oracle_case)(np.random.default_rng([r['seed'], 1010, r['it']]))
    print('replay ->', res)
    return 1 if res else 0

"""
C11 — block-sparse QR.  Correspondence: `bond_ops.qr` under uninterpreted (fake, exactly representable) dense QR
against `PtnModel/Model/BondOps.lean`, exact comparison of Q, R and the intermediate charges.
Oracle (search only): real kernels, tolerance checks written from the property text.
"""
import itertools, json, time
import numpy as np
from .. import common, exact, gen, kernels
from ..common import Corr, py_call

RULE = ('random block-sparse matrices m,n<=6 (thorough <=9 plus 40-element charge vectors) over int64/float64/complex128 with charge patterns '
        '(all-zero, sorted, unsorted, repeated, disjoint, large/negative, encoded pairs); thorough adds all charge patterns over {-1,0,1} for m,n<=3; '
        'a malformed stream (non-sparse input, wrong lengths); distinct = (m, n, dtype, disjoint?, sorted0?, sorted1?, #shared charges, #blocks with empty overlap)')


def impl_qr(A, q0, q1, opts=None):
    from pytenet import bond_ops
    rec = kernels.Recorder()
    A0 = A.copy()

    def f():
        with kernels.patched(rec, ('bond_ops',), opts):
            Q, R, qi = bond_ops.qr(A, q0, q1)
        return {'Q': exact.enc_array(Q), 'R': exact.enc_array(R), 'qinterm': exact.enc_ints(qi)}
    r = py_call(f)
    r_unchanged = bool(np.array_equal(A, A0))
    return r, rec, r_unchanged


def signature(A, q0, q1):
    shared = np.intersect1d(q0, q1)
    s0 = bool(np.all(np.diff(q0) >= 0)) if len(q0) > 1 else True
    s1 = bool(np.all(np.diff(q1) >= 0)) if len(q1) > 1 else True
    return (A.shape[0], A.shape[1], A.dtype.kind, len(shared) == 0, s0, s1, min(len(shared), 4),
            len(set(q0.tolist())) - len(shared) > 0)


def gen_cases(rng, n, maxdim, big=False):
    for _ in range(n):
        m = int(rng.integers(1, maxdim + 1)); nn = int(rng.integers(1, maxdim + 1))
        if big and rng.random() < 0.1:
            m = int(rng.integers(17, 41)); nn = int(rng.integers(17, 41))
        dtype = str(rng.choice(['int', 'float', 'complex']))
        r = rng.random()
        if r < 0.12:
            q0, q1 = gen.disjoint_pair(rng, m, nn)
            A = np.zeros((m, nn), dtype={'int': np.int64, 'float': float, 'complex': complex}[dtype])
        else:
            kind = int(rng.integers(0, 8))
            q0 = gen.charges(rng, m, kind); q1 = gen.charges(rng, nn, kind if rng.random() < 0.7 else None)
            A = gen.sparse_matrix(rng, q0, q1, dtype, density=float(rng.choice([0.3, 0.8, 1.0])))
            if dtype != 'int' and rng.random() < 0.08:
                # uniformly tiny / huge entries (exact power-of-two scaling): every clause of C11/C12 is scale invariant
                A = A * 2.0 ** int(rng.choice([-60, -100, 70]))
        yield A, q0, q1


def gen_malformed(rng, n):
    for _ in range(n):
        m = int(rng.integers(1, 4)); nn = int(rng.integers(1, 4))
        q0 = gen.charges(rng, m, 2); q1 = gen.charges(rng, nn, 2)
        A = gen.exact_values(rng, (m, nn), 'float')
        k = int(rng.integers(0, 3))
        if k == 0:
            pass  # generally not sparse -> AssertionError
        elif k == 1:
            q0 = gen.charges(rng, m + 1, 2)
        else:
            q1 = q1[:-1] if nn > 1 else gen.charges(rng, nn + 1, 2)
        yield A, q0, q1


def enum_small():
    for m in (1, 2, 3):
        for n in (1, 2, 3):
            for q0 in itertools.product((-1, 0, 1), repeat=m):
                for q1 in itertools.product((-1, 0, 1), repeat=n):
                    yield np.array(q0), np.array(q1)


def _shard(name, shard, nshards, tier, seed):
    c = Corr(name)
    rng = np.random.default_rng([seed, shard, 11])
    if name == 'bond_ops.qr':
        n = (1600 if tier == 'quick' else 80000) // nshards + 1
        cases = list(gen_cases(rng, n, 6 if tier == 'quick' else 9, big=(tier == 'thorough')))
    elif name == 'bond_ops.qr.enum':
        cases = []
        for k, (q0, q1) in enumerate(enum_small()):
            if k % nshards == shard:
                cases.append((gen.sparse_matrix(rng, q0, q1, str(rng.choice(['int', 'float', 'complex'])), 1.0), q0, q1))
    else:
        cases = list(gen_malformed(rng, (200 if tier == 'quick' else 2000) // nshards + 1))
    ops, impls, sigs = [], [], []
    for A, q0, q1 in cases:
        try:
            r, rec, unchanged = impl_qr(A, q0, q1)
            if rec.inexact:
                c.skipped += 1
                continue
            op = {'op': 'bond.qr', 'A': exact.enc_array(A), 'q0': exact.enc_ints(q0), 'q1': exact.enc_ints(q1), 'kernels': rec.calls}
        except exact.Inexact:
            c.skipped += 1
            continue
        r['input_unchanged'] = unchanged
        ops.append(op); impls.append(r); sigs.append(signature(A, q0, q1))
    replies = common.drive(ops)
    for op, im, mo, sg in zip(ops, impls, replies, sigs):
        mo = dict(mo); mo['input_unchanged'] = True
        br = ['disjoint' if sg[3] else 'shared', 'sorted0' if sg[4] else 'perm0', 'sorted1' if sg[5] else 'perm1', 'dtype=' + sg[2]]
        if not im['ok']:
            br.append('err=' + im['err'])
        c.add(op, im, mo, cls=sg, branches=br)
    return c


def correspondence(tier, seed):
    names = ['bond_ops.qr', 'bond_ops.qr.malformed'] + (['bond_ops.qr.enum'] if tier == 'thorough' else [])
    out = []
    for nm in names:
        c = common.parallel_shards(_shard, nm, tier, seed)
        if nm == 'bond_ops.qr.enum':
            c.exhaustive = True
            c.notes.append('all charge vectors over {-1,0,1} for m,n<=3 (one random dense-in-pattern matrix each)')
        out.append(c)
    return out


# ----------------------------------------------------------------------------- oracle

def oracle(A, q0, q1):
    from pytenet import bond_ops
    from pytenet.qnumber import is_qsparse
    A0 = A.copy()
    try:
        Q, R, qi = bond_ops.qr(A, q0, q1)
    except Exception as ex:
        return f'raises {type(ex).__name__}: {ex}'
    m, n = A.shape
    tol = 1e-10 * max(1.0, float(np.abs(A0).max()))
    qi = np.asarray(qi)
    if Q.ndim != 2 or R.ndim != 2 or Q.shape[0] != m or R.shape[1] != n or Q.shape[1] != R.shape[0] or len(qi) != Q.shape[1]:
        return f'inconsistent shapes Q{Q.shape} R{R.shape} len(qinterm)={len(qi)}'
    D = Q.shape[1]
    if D > min(m, n):
        return f'intermediate dimension {D} exceeds min(m,n)={min(m, n)}'
    if np.abs(Q.astype(complex) @ R.astype(complex) - A0).max() > tol:
        return f'Q@R differs from A by {np.abs(Q.astype(complex) @ R.astype(complex) - A0).max():.3g}'
    Qc = Q.astype(complex)
    if np.abs(Qc.conj().T @ Qc - np.identity(D)).max() > 1e-10:
        return 'Q does not have orthonormal columns'
    if not is_qsparse(Q, [np.asarray(q0), -qi]):
        return f'Q is not block sparse w.r.t. (q0, qinterm={qi.tolist()})'
    if not is_qsparse(R, [qi, -np.asarray(q1)]):
        return f'R is not block sparse w.r.t. (qinterm={qi.tolist()}, q1)'
    if len(np.intersect1d(q0, q1)) == 0 and D != 1:
        return f'no shared charge but intermediate dimension {D} != 1'
    if not np.array_equal(A, A0):
        return 'input matrix was modified'
    return None


def search(tier, seed, hints, budget_s):
    t0 = time.time()
    rng = np.random.default_rng([seed, 1111])
    cands = []
    for h in hints:
        if h['kind'] == 'correspondence' and isinstance(h['detail'], dict) and h['detail']['op'].get('op') == 'bond.qr':
            op = h['detail']['op']
            cands.append((dec_array(op['A']), np.array(op['q0'], dtype=int), np.array(op['q1'], dtype=int)))

    def gen_all():
        yield from cands
        for A, q0, q1 in cands:
            yield A.astype(float) if not np.iscomplexobj(A) else A, q0, q1
        while True:
            yield from gen_cases(rng, 200, 6)
    for A, q0, q1 in gen_all():
        if len(q0) != A.shape[0] or len(q1) != A.shape[1] or np.any(np.where(np.equal.outer(q0, q1), 0, A)):
            continue
        r = oracle(A, q0, q1)
        if r is not None:
            return {'key': 'qr:' + json.dumps([A.tolist() if not np.iscomplexobj(A) else str(A.tolist()), q0.tolist(), q1.tolist()]),
                    'what': r,
                    'replay': {'call': 'pytenet.bond_ops.qr(A, q0, q1)', 'A': exact.enc_array(A), 'dtype': str(A.dtype),
                               'q0': q0.tolist(), 'q1': q1.tolist(), 'observed': r}}
        if time.time() - t0 > budget_s:
            return None


def dec_scalar(x):
    from fractions import Fraction
    if isinstance(x, dict):
        return complex(dec_scalar(x['re']), dec_scalar(x['im']))
    if isinstance(x, list):
        return float(Fraction(x[0], x[1]))
    return x


def dec_array(j):
    def rec(d):
        if isinstance(d, list) and not (len(d) == 2 and all(isinstance(t, int) for t in d) and False):
            return [rec(y) for y in d]
        return dec_scalar(d)

    def rec_depth(d, depth):
        if depth == 0:
            return dec_scalar(d)
        return [rec_depth(y, depth - 1) for y in d]
    return np.array(rec_depth(j['data'], len(j['shape']))).reshape(j['shape'])


def replay(rp):
    if rp.get('kind') != 'failing-input':
        print('replay: no failing input recorded; obligations that no longer check:', json.dumps(rp.get('no_longer_checks'))[:2000])
        return 1
    r = rp['replay']
    A = dec_array(r['A']).astype(np.dtype(r['dtype']))
    res = oracle(A, np.array(r['q0'], dtype=int), np.array(r['q1'], dtype=int))
    print('replay qr ->', res)
    return 1 if res else 0

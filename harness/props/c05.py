"""
C05 -- operator chains compile to an equivalent operator graph and MPO.

Correspondence: `OpChain` ctor/`padded`, `OpGraph.from_opchains` (incl. `_site_partition_halfchains`, the U/V cover
branches, the trailing-coefficient step, `is_consistent`, `length`) and `MPO.from_opgraph` (+ `nid_map`, + `as_matrix`)
against `PtnModel/Model/{OpChain,OpGraph}.lean`; complete graphs / tensors compared exactly.
Search oracle: written from the property text against own path enumeration, own kron sums and own tensor contraction.
"""
import itertools, json, time, zlib
import numpy as np
from .. import common, oglib
from ..common import Corr, with_alarm, CaseTimeout
from ..oglib import enc, dec, frac

RULE = ('exhaustive: all chain lists with all-zero charges for (L=1, <=3 chains, 2 ids), (L=2, <=2 chains, 3 ids), (L=2, 3 chains, 2 ids), '
        '(L=3, <=2 chains, 2 ids) and coefficients {-1, 1/2, 1, 2} (thorough adds (L=3, 2 chains, 3 ids), (L=3, 3 chains, 2 ids, 2 coefficients), (L=4, 2 chains, 2 ids)); '
        'random chain lists L<=5, <=9 chains, ids 0..3 incl. the identity id, charged and uncharged, duplicates, cancelling pairs, single chains; '
        'MPO conversion of every random result and of random consistent layered graphs; malformed stream. '
        'non-trivial = construction succeeds with a non-empty denotation; distinct = distinct (stream, L, #chains, per-site cover branches, result shape)')


def cls_chains(op, im, br):
    if not im.get('ok') or not im.get('den'):
        return None
    return ('chains', op['length'], len(op['chains']), tuple(b for b in br if b.startswith('site:')), oglib.shape_cls(im))


def cls_mpo(op, im, br):
    if not im.get('ok'):
        return None
    return ('mpo', tuple(len(q) for q in im['qD']), len(op['qd']), bool(op['nid_map']), zlib.crc32(json.dumps(op['graph']).encode()) % 4096)


def mpo_op(raw, rng, charged, nid_map=None, d=None):
    """og.from_opgraph op for a raw graph with a random integer operator map"""
    oids = sorted({p[0] for e in raw['edges'] for p in e[2]} | {0})
    if charged:
        qd = [0, 1]
        opmap = oglib.rand_opmap(rng, oids, 2, oid_identity=0, deltas={**oglib.DELTA, 5: 99}, qd=qd)
    else:
        d = int(rng.integers(1, 4)) if d is None else d
        qd = [0] * d
        opmap = oglib.rand_opmap(rng, oids, d, oid_identity=0)
    return {'op': 'og.from_opgraph', 'graph': raw, 'qd': qd, 'opmap': opmap,
            'nid_map': bool(rng.integers(0, 2)) if nid_map is None else nid_map}


def exhaustive_stream(tier):
    cf = [-1.0, 0.5, 1.0, 2.0]
    yield from ((c, 1) for c in oglib.exhaustive_chain_lists(1, 3, 2, cf))
    yield from ((c, 2) for c in oglib.exhaustive_chain_lists(2, 2, 3, cf))
    yield from ((c, 2) for c in oglib.exhaustive_chain_lists(2, 3, 2, cf) if len(c) == 3)
    yield from ((c, 3) for c in oglib.exhaustive_chain_lists(3, 2, 2, cf))
    if tier == 'thorough':
        yield from ((c, 3) for c in oglib.exhaustive_chain_lists(3, 2, 3, cf) if len(c) == 2)
        yield from ((c, 3) for c in oglib.exhaustive_chain_lists(3, 3, 2, [-1.0, 2.0]) if len(c) == 3)
        yield from ((c, 4) for c in oglib.exhaustive_chain_lists(4, 2, 2, cf) if len(c) == 2)


def malformed_chain_ops(rng, n):
    ops = []
    for _ in range(n):
        k = int(rng.integers(0, 9))
        chains, L, oid, charged, _ = oglib.gen_chain_list(rng)
        if k == 0:
            chains = []
        elif k == 1:                                   # chain too long for L
            c = chains[0]; c[0] = c[0] + [1] * L; c[1] = c[1] + [0] * L
        elif k == 2:                                   # mismatched lengths
            c = chains[int(rng.integers(0, len(chains)))]; c[1] = c[1] + [0]
        elif k == 3:                                   # negative start
            chains[0][3] = -1
        elif k == 4:                                   # all coefficients zero
            for c in chains:
                c[2] = 0
        elif k == 5:                                   # arbitrary charges (leading / trailing charge need not vanish)
            for c in chains:
                c[1] = [int(x) for x in rng.integers(-1, 2, size=len(c[1]))]
        elif k == 6:                                   # length 0 / negative
            L = int(rng.integers(-1, 1))
        elif k == 7:                                   # empty chain (no operators)
            chains.append([[], [0], enc(1.0), int(rng.integers(0, L + 1))])
        else:                                          # non-zero identity id, ids outside the usual range
            oid = int(rng.integers(-2, 5))
        ops.append({'op': 'og.from_opchains', 'chains': chains, 'length': L, 'oid_identity': oid})
    return ops


def _corr_shard(name, shard, nshards, tier, seed):
    c = Corr(name)
    rng = np.random.default_rng([seed, shard, 5])
    thorough = tier == 'thorough'
    if name == 'opchains.exhaustive':
        ops = [{'op': 'og.from_opchains', 'chains': ch, 'length': L, 'oid_identity': 0}
               for k, (ch, L) in enumerate(exhaustive_stream(tier)) if k % nshards == shard]
        impls, _ = oglib.run_ops(c, ops, [{'cls': cls_chains}] * len(ops))
        # MPO conversion of a slice of the results
        ops2 = []
        for k, (op, im) in enumerate(zip(ops, impls)):
            if im.get('ok') and k % 7 == seed % 7:
                ops2.append(mpo_op(oglib.raw_of_ser(im['graph']), rng, False, d=2))
        oglib.run_ops(c, ops2, [{'cls': cls_mpo}] * len(ops2))
    elif name == 'opchains.random':
        n = (6000 if not thorough else 60000) // nshards + 1
        ops, metas, chg = [], [], []
        for _ in range(n):
            chains, L, oid, charged, tag = oglib.gen_chain_list(rng)
            ops.append({'op': 'og.from_opchains', 'chains': chains, 'length': L, 'oid_identity': oid,
                        'share': bool(rng.random() < 0.3), 'twice': bool(rng.random() < 0.3)})
            metas.append({'cls': cls_chains, 'branches': ['kind:' + tag, 'charged' if charged else 'uncharged', f'L={L}']})
            chg.append(charged)
        impls, _ = oglib.run_ops(c, ops, metas)
        ops2 = []
        for op, im, charged in zip(ops, impls, chg):
            if im.get('ok'):
                ops2.append(mpo_op(oglib.raw_of_ser(im['graph']), rng, charged, d=(2 if op['length'] >= 4 else None)))
        oglib.run_ops(c, ops2, [{'cls': cls_mpo}] * len(ops2))
    elif name == 'opgraph.to_mpo':
        n = (3000 if not thorough else 30000) // nshards + 1
        ops, metas = [], []
        for _ in range(n):
            raw, L, charged = oglib.gen_layered_graph(rng, dangling=bool(rng.integers(0, 10) == 0))
            op = mpo_op(raw, rng, charged, d=(2 if L >= 4 else None))
            k = int(rng.integers(0, 20))
            br = ['charged' if charged else 'uncharged']
            if rng.random() < 0.25:
                op['flip'] = True; br.append('flipped')      # graph.flip() before the conversion (F18)
            if k == 0:
                op['qd'] = []; br.append('d=0')
            elif k == 1 and len(op['opmap']) > 1:
                op['opmap'] = op['opmap'][1:]; br.append('opmap-missing-id')
            elif k == 2 and charged:
                op['opmap'] = oglib.rand_opmap(rng, [o for o, _ in op['opmap']], 2); br.append('opmap-not-sparse')
            elif k == 3:
                op['qd'] = [int(x) for x in rng.integers(-1, 2, size=len(op['qd']))]; br.append('qd-random')
            ops.append(op); metas.append({'cls': cls_mpo, 'branches': br})
        oglib.run_ops(c, ops, metas)
    else:
        ops = malformed_chain_ops(rng, (600 if not thorough else 6000) // nshards + 1)
        oglib.run_ops(c, ops, [{'cls': cls_chains}] * len(ops))
    return c


def correspondence(tier, seed):
    out = []
    for name in ('opchains.exhaustive', 'opchains.random', 'opgraph.to_mpo', 'opchains.malformed'):
        c = common.parallel_shards(_corr_shard, name, tier, seed)
        if name == 'opchains.exhaustive':
            c.exhaustive = True
            c.notes.append('all chain lists of the scopes named in RULE enumerated completely')
        out.append(c)
    return out


# ----------------------------------------------------------------------------- oracle (property text; used only after a break)

def chains_valid(chains, L):
    """the domain of the property: at least one non-zero coefficient, chains fit, leading and trailing charge 0"""
    if not chains or all(frac(c[2]) == 0 for c in chains):
        return False
    for o, q, c, i in chains:
        if len(q) != len(o) + 1 or i < 0 or len(o) < 1 or i + len(o) > L or q[0] != 0 or q[-1] != 0:
            return False
    return True


def oracle_mpo(g, qd, opmap, L, ref_dense=None, flip=False):
    """the second sentence of C05 on a consistent graph `g` (a pytenet OpGraph): returns None or a description"""
    from pytenet.mpo import MPO
    d = len(qd)
    # domain: the operator map respects the charges (every operator on an edge only connects physical states whose
    # charge difference equals the charge difference of the edge's nodes), and every id is mapped
    for e in g.edges.values():
        dq = g.nodes[e.nids[1]].qnum - g.nodes[e.nids[0]].qnum
        for oid, _ in e.opics:
            if oid not in opmap:
                return None
            m = opmap[oid]
            if any(m[a, b] != 0 and qd[a] - qd[b] != dq for a in range(d) for b in range(d)):
                return None
    # domain: every non-terminal node is connected in both directions (otherwise the MPO has a dangling bond)
    for n in g.nodes.values():
        for dd in (0, 1):
            if not n.eids[dd] and n.nid != g.nid_terminal[dd]:
                return None
    if flip:
        # the domain was checked on the graph as given; a flipped consistent graph is a consistent graph (C16) and its
        # conversion must succeed as well (F18)
        g.flip()
    try:
        mpo = with_alarm(10.0, lambda: MPO.from_opgraph(qd, g, opmap, compute_nid_map=True))
    except CaseTimeout:
        return 'from_opgraph does not terminate within 10 s'
    except Exception as ex:
        return f'from_opgraph{" of the flipped graph" if flip else ""} raises {type(ex).__name__}: {ex}'
    sym = [[list(w), enc(c)] for w, c in oglib.graph_paths(g).items()]
    want = oglib.dense_of_sym(sym, opmap, d, L) if ref_dense is None else ref_dense
    if len(mpo.A) != L:
        return f'MPO has {len(mpo.A)} tensors, expected {L}'
    got = oglib.contract_tensors(mpo.A)
    if got.shape != want.shape or not np.array_equal(got, want):
        return 'dense matrix of the MPO tensors differs from the operator denoted by the graph'
    lev = oglib.graph_levels(g)
    layers = {}
    for nid, l in lev.items():
        layers.setdefault(l, []).append(nid)
    for l in range(L + 1):
        ids = sorted(layers.get(l, []))
        if [int(x) for x in mpo.qD[l]] != [int(g.nodes[n].qnum) for n in ids]:
            return f'bond quantum numbers at bond {l} are {list(mpo.qD[l])}, node charges are {[g.nodes[n].qnum for n in ids]}'
        for i, n in enumerate(ids):
            if tuple(mpo.nid_map.get(n, ())) != (l, i):
                return f'nid_map[{n}] = {mpo.nid_map.get(n)} but the node sits at bond {l}, index {i}'
    if set(mpo.nid_map.keys()) != set(lev.keys()):
        return 'nid_map does not cover exactly the nodes of the graph'
    return None


def oracle_chains(chains, L, oid, qd, enc_opmap):
    from pytenet.opchain import OpChain
    from pytenet.opgraph import OpGraph
    opmap = oglib.opmap_of(enc_opmap)
    d = len(qd)
    try:
        # equal entries are the same object (a term object listed several times), every second case
        cs = oglib.build_chains(chains, share=(zlib.crc32(json.dumps(chains).encode()) % 2 == 0))
        g = with_alarm(10.0, lambda: OpGraph.from_opchains(cs, L, oid))
    except CaseTimeout:
        return 'from_opchains does not terminate within 10 s'
    except Exception as ex:
        return f'from_opchains raises {type(ex).__name__}: {ex}'
    if not g.is_consistent():
        return 'graph is not consistent'
    if g.length != L:
        return f'graph length {g.length} != {L}'
    want = oglib.den_chains(chains, L, oid)
    got = oglib.den_graph(g)
    if got != want:
        return f'graph denotes {got}, sum of padded chains is {want}'
    ref = oglib.dense_of_sym(want, opmap, d, L)
    return oracle_mpo(g, qd, opmap, L, ref_dense=ref)


def case_of_chains(chains, L, oid, rng, charged):
    oids = sorted({x for c in chains for x in c[0]} | {oid})
    if charged:
        qd = [0, 1]
        opmap = oglib.rand_opmap(rng, oids, 2, oid_identity=oid, deltas=oglib.DELTA, qd=qd)
    else:
        qd = [0, 0]
        opmap = oglib.rand_opmap(rng, oids, 2, oid_identity=oid)
    return {'kind': 'chains', 'chains': chains, 'length': L, 'oid_identity': oid, 'qd': qd, 'opmap': opmap}


def run_case(case):
    if case['kind'] == 'chains':
        return oracle_chains(case['chains'], case['length'], case['oid_identity'], case['qd'], case['opmap'])
    try:
        g = oglib.build_graph(case['graph'])
        if not g.is_consistent():
            return None
        L = g.length
    except Exception:
        return None
    return oracle_mpo(g, case['qd'], oglib.opmap_of(case['opmap']), L, flip=bool(case.get('flip')))


def search(tier, seed, hints, budget_s):
    t0 = time.time()
    rng = np.random.default_rng([seed, 505])
    cands = []
    for h in hints:
        if h['kind'] == 'correspondence' and isinstance(h['detail'], dict):
            op = h['detail']['op']
            if op.get('op') == 'og.from_opchains' and chains_valid(op['chains'], op['length']):
                charged = any(any(x != 0 for x in c[1]) for c in op['chains'])
                cands.append(case_of_chains(op['chains'], op['length'], op['oid_identity'], rng, charged))
            elif op.get('op') == 'og.from_opgraph' and len(op['qd']) > 0:
                cands.append({'kind': 'graph', 'graph': op['graph'], 'qd': op['qd'], 'opmap': op['opmap'], 'flip': bool(op.get('flip'))})

    def gen():
        yield from cands
        for ch in oglib.exhaustive_chain_lists(1, 2, 2, [0.5, 1.0, 2.0]):
            yield case_of_chains(ch, 1, 0, rng, False)
        for ch in oglib.exhaustive_chain_lists(2, 2, 2, [-1.0, 1.0, 2.0]):
            yield case_of_chains(ch, 2, 0, rng, False)
        while True:
            for _ in range(200):
                chains, L, oid, charged, _ = oglib.gen_chain_list(rng)
                if chains_valid(chains, L):
                    yield case_of_chains(chains, L, oid, rng, charged)
            for _ in range(100):
                raw, L, charged = oglib.gen_layered_graph(rng, term_twin=False)
                op = mpo_op(raw, rng, charged, d=2)
                yield {'kind': 'graph', 'graph': raw, 'qd': op['qd'], 'opmap': op['opmap'], 'flip': bool(rng.random() < 0.3)}
    for case in gen():
        r = run_case(case)
        if r is not None:
            key = 'c05:' + str(zlib.crc32(json.dumps(case, sort_keys=True).encode()))
            call = ('OpGraph.from_opchains([OpChain(oids, qnums, coeff, istart) ...], length, oid_identity); MPO.from_opgraph(qd, graph, opmap, compute_nid_map=True)'
                    if case['kind'] == 'chains' else 'g = OpGraph(nodes, edges, term); g.flip() if flip; MPO.from_opgraph(qd, g, opmap, compute_nid_map=True)')
            return {'key': key, 'what': r, 'replay': dict(case, call=call, observed=r)}
        if time.time() - t0 > budget_s:
            return None
    return None


def replay(rp):
    if rp.get('kind') != 'failing-input':
        print('replay: no failing input recorded; obligations that no longer check:', json.dumps(rp.get('no_longer_checks'))[:2000])
        return 1
    case = rp['replay']
    res = run_case(case)
    print('replay', json.dumps({k: v for k, v in case.items() if k not in ('observed', 'call')})[:1500], '->', res)
    return 1 if res else 0

"""
C17 -- operator trees and state automata unfold to graphs with the same meaning.

Correspondence: `OpGraph.from_optrees` (`_insert_opchain`, `_insert_subtree`, `simplify`), `OpGraph.from_automaton`
(reachability pruning, layer-wise unrolling with per-site `active` / `opics`), `AutOp` ctor / `is_consistent`,
and the dense meanings `OpChain.as_matrix`, `OpTree.as_matrix` (`_subtree_as_matrix` with its kron padding),
`OpGraph.as_matrix` (both directions) against `PtnModel/Model/{OpTree,AutOp,OpGraph,Symbolic}.lean`.
Search oracle: property text against own path enumerations and own kron sums.
"""
import copy, itertools, json, time, zlib
import numpy as np
from .. import common, oglib
from ..common import Corr, with_alarm, CaseTimeout
from ..oglib import enc, dec, frac

RULE = ('exhaustive: all trees with branching <= 2, ids {0,1}, coefficients {1,2} of height <= 2 as single-tree lists on L=2 (start 0 and 1) and all '
        'one- and two-tree lists on L=1; all automata on 3 states with <= 4 single-operator edges, L=1..3; random tree lists (branching <= 3, L<=5, '
        'leaves at different depths, leaf at the terminal, start sites > 0, interior charges) and automata (self loops, parallel edges, dead states, '
        'site-dependent tables, equal terminals); dense meaning of chains / trees / graphs in both directions; malformed stream. '
        'non-trivial = construction succeeds with non-empty denotation; distinct = distinct (kind, L, input shape, result shape)')


def tree_shape(t):
    return (len(t[1]), tuple(sorted(tree_shape(s) for _, _, s in t[1]))) if t[1] else (0, ())


def cls_trees(op, im, br):
    if not im.get('ok') or not im.get('den'):
        return None
    return ('trees', op['length'], tuple((i, zlib.crc32(json.dumps(tree_shape(t)).encode())) for i, t in op['trees']), oglib.shape_cls(im))


def cls_aut(op, im, br):
    if not im.get('ok') or not im.get('den'):
        return None
    sig = (len(op['nodes']), len(op['edges']), sum(1 for e in op['edges'] if e[1][0] == e[1][1]),
           sum(1 for e in op['edges'] if 'table' in e[3]), sum(1 for e in op['edges'] if 'table' in e[2]))
    return ('aut', op['length'], sig, oglib.shape_cls(im))


def all_trees(h, ids=(0, 1), coeffs=(1.0, 2.0), maxb=2):
    """all trees of height <= h (all charges 0)"""
    if h == 0:
        return [[0, []]]
    sub = all_trees(h - 1, ids, coeffs, maxb)
    edges = [[o, enc(c), s] for o in ids for c in coeffs for s in sub]
    out = [[0, []]]
    for b in range(1, maxb + 1):
        for combo in itertools.product(edges, repeat=b):
            out.append([0, [list(e) for e in combo]])
    return out


def exhaustive_tree_ops():
    t1, t2 = all_trees(1), all_trees(2)
    for t in t2:
        yield {'op': 'og.from_optrees', 'trees': [[0, t]], 'length': 2, 'oid_identity': 0}
    for t in t1:
        yield {'op': 'og.from_optrees', 'trees': [[1, t]], 'length': 2, 'oid_identity': 0}
        yield {'op': 'og.from_optrees', 'trees': [[0, t]], 'length': 1, 'oid_identity': 0}
    for a in t1:
        for b in t1:
            yield {'op': 'og.from_optrees', 'trees': [[0, a], [0, b]], 'length': 1, 'oid_identity': 0}
            yield {'op': 'og.from_optrees', 'trees': [[0, a], [1, b]], 'length': 2, 'oid_identity': 0}


def exhaustive_aut_ops():
    ids = [0, 1, 2]
    pairs = [(x, y) for x in ids for y in ids]
    for k in range(0, 5):
        for combo in itertools.combinations(range(9), k):
            edges = [[i, list(pairs[p]), {'const': [[1 + (i % 2), 1 if i != 1 else 2]]}, {'const': True}] for i, p in enumerate(combo)]
            nodes = [[n, [e[0] for e in edges if e[1][1] == n], [e[0] for e in edges if e[1][0] == n], 0] for n in ids]
            for L in (1, 2, 3):
                yield {'op': 'og.from_automaton', 'nodes': nodes, 'edges': edges, 'term': [0, 1], 'length': L}


def malformed_ops(rng, n):
    ops = []
    for _ in range(n):
        k = int(rng.integers(0, 12))
        if k < 5:
            trees, L = oglib.gen_tree_list(rng)
            if k == 0:                     # tree height > remaining length
                i = int(rng.integers(0, len(trees)))
                trees[i][1] = oglib.gen_tree(rng, L - trees[i][0] + 1, pleaf=0.0)
            elif k == 1:                   # wrong charge at the root / at the end node
                t = trees[0][1]
                while t[1]:
                    t = t[1][0][2]
                t[0] = 1
            elif k == 2:                   # start beyond the lattice, negative start
                trees[0][0] = int(rng.choice([-1, L, L + 1]))
            elif k == 3:
                trees[0][1][0] = 2
            else:
                L = int(rng.integers(-1, 1))
            ops.append({'op': 'og.from_optrees', 'trees': trees, 'length': L, 'oid_identity': int(rng.integers(0, 2))})
        else:
            op = oglib.gen_automaton(rng, ensure_path=bool(k != 5))
            if k == 6:
                op['length'] = int(rng.integers(-1, 1))
            elif k == 7:
                op['term'] = [op['term'][0], 99]
            elif k == 8:
                op['nodes'].append(list(op['nodes'][0]))
            elif k == 9 and op['edges']:
                op['nodes'][0][2] = op['nodes'][0][2] + [op['edges'][0][0] + 100]      # unknown edge id
            elif k == 10 and op['edges']:
                op['edges'][0][1] = op['edges'][0][1] + [0]                           # three node ids
            elif k == 11 and op['edges']:
                e = op['edges'][int(rng.integers(0, len(op['edges'])))]
                e[1] = [e[1][0], op['nodes'][int(rng.integers(0, len(op['nodes'])))][0]]   # edge no longer matches the node lists
            ops.append(op)
    return ops


def dense_ops(rng, n):
    ops = []
    for _ in range(n):
        k = int(rng.integers(0, 3))
        d = int(rng.integers(1, 4))
        if k == 0:
            L = int(rng.integers(1, 5))
            ch = oglib.gen_chain(rng, L, 4, False)
            ops.append({'op': 'og.chain', 'chain': ch, 'length': int(rng.integers(max(L - 1, 0), L + 2)), 'oid_identity': 0,
                        'opmap': oglib.rand_opmap(rng, range(4), d)})
        elif k == 1:
            h = int(rng.integers(0, 4))
            if d == 3 and h == 3:
                d = 2
            t = oglib.gen_tree(rng, h, pleaf=float(rng.choice([0.2, 0.4])))
            oids = list(range(4)) if rng.random() < 0.95 else [1, 2, 3]
            ops.append({'op': 'og.tree', 'tree': t, 'oid_identity': 0, 'd': d, 'opmap': oglib.rand_opmap(rng, oids, d, oid_identity=0)})
        else:
            raw, L, charged = oglib.gen_layered_graph(rng, term_twin=False)      # as_matrix asserts on unconnected nodes
            if L >= 4:
                d = min(d, 2)
            oids = sorted({p[0] for e in raw['edges'] for p in e[2]})
            ops.append({'op': 'og.dense', 'graph': raw, 'dim': d ** L, 'opmap': oglib.rand_opmap(rng, oids, d)})
    return ops


def followup_dense(rng, op, im):
    """dense meaning of a constructed graph under a random operator map (identity id mapped to the identity)"""
    raw = oglib.raw_of_ser(im['graph'])
    L = op['length']
    d = 2 if L >= 4 else int(rng.integers(1, 4))
    oids = sorted({p[0] for e in raw['edges'] for p in e[2]})
    return {'op': 'og.dense', 'graph': raw, 'dim': d ** L, 'opmap': oglib.rand_opmap(rng, oids, d, oid_identity=0)}


def _corr_shard(name, shard, nshards, tier, seed):
    c = Corr(name)
    rng = np.random.default_rng([seed, shard, 17])
    thorough = tier == 'thorough'
    if name == 'optrees.exhaustive':
        ops = [op for k, op in enumerate(exhaustive_tree_ops()) if k % nshards == shard]
        oglib.run_ops(c, ops, [{'cls': cls_trees}] * len(ops))
    elif name == 'automaton.exhaustive':
        ops = [op for k, op in enumerate(exhaustive_aut_ops()) if k % nshards == shard]
        oglib.run_ops(c, ops, [{'cls': cls_aut}] * len(ops))
    elif name == 'optrees.random':
        n = (4000 if not thorough else 40000) // nshards + 1
        ops = []
        for _ in range(n):
            trees, L = oglib.gen_tree_list(rng)
            ops.append({'op': 'og.from_optrees', 'trees': trees, 'length': L, 'oid_identity': 0})
        impls, _ = oglib.run_ops(c, ops, [{'cls': cls_trees, 'branches': [f'L={op["length"]}', f'ntrees={len(op["trees"])}']} for op in ops])
        ops2 = [followup_dense(rng, op, im) for op, im in zip(ops, impls) if im.get('ok') and rng.random() < 0.5]
        oglib.run_ops(c, ops2, [{}] * len(ops2))
    elif name == 'automaton.random':
        n = (4000 if not thorough else 40000) // nshards + 1
        ops = [oglib.gen_automaton(rng) for _ in range(n)]
        impls, _ = oglib.run_ops(c, ops, [{'cls': cls_aut, 'branches': [f'L={op["length"]}']} for op in ops])
        # (an edge without any operator makes as_matrix raise a broadcasting ValueError: not a meaningful operator map case)
        ops2 = [followup_dense(rng, op, im) for op, im in zip(ops, impls)
                if im.get('ok') and rng.random() < 0.5 and all(e[3] for e in im['graph']['edges'])]
        oglib.run_ops(c, ops2, [{}] * len(ops2))
    elif name == 'dense.meaning':
        ops = dense_ops(rng, (3000 if not thorough else 30000) // nshards + 1)
        oglib.run_ops(c, ops, [{'cls': lambda op, im, br: (op['op'], zlib.crc32(json.dumps(op).encode()) % 100000) if im.get('ok') else None}] * len(ops))
    else:
        ops = malformed_ops(rng, (1000 if not thorough else 10000) // nshards + 1)
        oglib.run_ops(c, ops, [{}] * len(ops))
    return c


def correspondence(tier, seed):
    out = []
    for name in ('optrees.exhaustive', 'automaton.exhaustive', 'optrees.random', 'automaton.random', 'dense.meaning', 'c17.malformed'):
        c = common.parallel_shards(_corr_shard, name, tier, seed)
        if name.endswith('exhaustive'):
            c.exhaustive = True
        out.append(c)
    return out


# ----------------------------------------------------------------------------- oracle (property text; used only after a break)

def tree_ok(t, remaining, depth=0):
    """domain of the property: height <= remaining length; charges as the construction requires (end node charge 0)"""
    if remaining < 0:
        return False
    if remaining == 0 and (t[1] or t[0] != 0):
        return False
    return all(tree_ok(s, remaining - 1, depth + 1) for _, _, s in t[1])


def oracle_trees(trees, L, oid, d, enc_opmap):
    from pytenet.optree import OpTree
    from pytenet.opgraph import OpGraph
    opmap = oglib.opmap_of(enc_opmap)
    try:
        ts = [OpTree(oglib.build_tree_node(t), i) for i, t in trees]
        g = with_alarm(10.0, lambda: OpGraph.from_optrees(ts, L, oid))
    except CaseTimeout:
        return 'from_optrees does not terminate within 10 s'
    except Exception as ex:
        return f'from_optrees raises {type(ex).__name__}: {ex}'
    if not g.is_consistent():
        return 'graph is not consistent'
    if g.length != L:
        return f'graph length {g.length} != {L}'
    want = oglib.den_trees(trees, L, oid)
    got = oglib.den_graph(g)
    if got != want:
        return f'graph denotes {got}, sum of padded trees is {want}'
    # dense meaning of graph and trees under the operator map
    ref = oglib.dense_of_sym(want, opmap, d, L)
    for direction in (1, 0):
        try:
            m = g.as_matrix(opmap, direction)
        except Exception as ex:
            return f'OpGraph.as_matrix(direction={direction}) raises {type(ex).__name__}: {ex}'
        if np.asarray(m).shape != ref.shape or not np.array_equal(np.asarray(m), ref):
            return f'OpGraph.as_matrix(direction={direction}) differs from the symbolic meaning'
    for (i, t), tr in zip(trees, ts):
        h = oglib.tree_height(t)
        sym = oglib.sym_norm([(w + (oid,) * (h - len(w)), k) for w, k in oglib.tree_paths(t)])
        if not np.array_equal(tr.as_matrix(opmap), oglib.dense_of_sym(sym, opmap, d, h)):
            return f'OpTree.as_matrix of tree {trees.index([i, t])} differs from its symbolic meaning'
    return None


def oracle_aut(op, d, enc_opmap):
    from pytenet.opgraph import OpGraph
    opmap = oglib.opmap_of(enc_opmap)
    L = op['length']
    want = oglib.den_automaton(op['nodes'], op['edges'], op['term'], L)
    try:
        a = oglib.build_autop(op['nodes'], op['edges'], op['term'])
        if not a.is_consistent():
            return None
    except Exception:
        return None
    # "automata that admit at least one path of the requested length"
    if not path_exists(op):
        return None
    try:
        g = with_alarm(10.0, lambda: OpGraph.from_automaton(a, L))
    except CaseTimeout:
        return 'from_automaton does not terminate within 10 s'
    except Exception as ex:
        return f'from_automaton raises {type(ex).__name__}: {ex}'
    if not g.is_consistent():
        return 'graph is not consistent'
    if g.length != L:
        return f'graph length {g.length} != {L}'
    got = oglib.den_graph(g)
    if got != want:
        return f'graph denotes {got}, sum over automaton paths is {want}'
    if any(not e.opics for e in g.edges.values()):
        return None             # an edge carrying no operator at all: as_matrix is undefined there (broadcasting error)
    ref = oglib.dense_of_sym(want, opmap, d, L)
    for direction in (1, 0):
        try:
            m = g.as_matrix(opmap, direction)
        except Exception as ex:
            return f'OpGraph.as_matrix(direction={direction}) raises {type(ex).__name__}: {ex}'
        if np.asarray(m).shape != ref.shape or not np.array_equal(np.asarray(m), ref):
            return f'OpGraph.as_matrix(direction={direction}) differs from the symbolic meaning'
    return None


def path_exists(op):
    """is there a path of `length` active edges from term[0] to term[1] (independent of the coefficients)"""
    L = op['length']
    cur = {op['term'][0]}
    for i in range(L):
        cur = {e[1][1] for e in op['edges'] if e[1][0] in cur and oglib.table_at(e[3], i)}
    return op['term'][1] in cur


def oracle_chain(ch, d, enc_opmap):
    from pytenet.opchain import OpChain
    opmap = oglib.opmap_of(enc_opmap)
    o, q, c, i = ch
    m = OpChain(o, q, dec(c), i).as_matrix(opmap)
    ref = oglib.dense_of_sym([[o, c]], opmap, d, len(o))
    return None if np.array_equal(m, ref) else 'OpChain.as_matrix differs from coeff * kron of the operators'


def trees_in_domain(trees, L):
    """start sites on the lattice, heights up to the remaining length, charges as the construction requires"""
    return L >= 1 and all(0 <= i < L and tree_ok(t, L - i) and (i > 0 or t[0] == 0) for i, t in trees)


def run_case(case):
    k = case['kind']
    if k == 'trees':
        if not trees_in_domain(case['trees'], case['length']):
            return None
        return oracle_trees(case['trees'], case['length'], case['oid_identity'], case['d'], case['opmap'])
    if k == 'aut':
        return oracle_aut(case['aut'], case['d'], case['opmap'])
    return oracle_chain(case['chain'], case['d'], case['opmap'])


def mk_case(kind, rng, **kw):
    d = 2
    # only the caller's identity id maps to the identity matrix; every other id (0 included) is a generic operator
    oid = kw.get('oid_identity', 0)
    return dict(kind=kind, d=d, opmap=oglib.rand_opmap(rng, sorted(set(range(0, 8)) | {oid}), d, oid_identity=oid), **kw)


def known_findings_present(k):
    """F14 (C17 part): constructions whose denoted operator is the empty sum, replayed on every run"""
    if k.get('key') != 'zero-operator-raises':
        return False
    import pytenet as ptn
    from pytenet.autop import AutOp, AutOpNode, AutOpEdge
    try:
        a = AutOp([AutOpNode(0, [], [0], 0), AutOpNode(1, [0], [], 0)], [AutOpEdge(0, [0, 1], [(1, 1.0)], active=lambda i: i == 0)], [0, 1])
        ok1 = ptn.OpGraph.from_automaton(a, 1).length == 1
        try:
            ptn.OpGraph.from_automaton(a, 2)
            raised = False
        except AssertionError:
            raised = True
        g = ptn.OpGraph.from_optrees([], 3, 0)
        return bool(ok1 and raised and g.length == 0)
    except Exception:
        return False


def search(tier, seed, hints, budget_s):
    t0 = time.time()
    rng = np.random.default_rng([seed, 1717])
    cands = []
    for h in hints:
        if h['kind'] == 'correspondence' and isinstance(h['detail'], dict):
            op = h['detail']['op']
            if op.get('op') == 'og.from_optrees' and trees_in_domain(op['trees'], op['length']):
                cands.append(mk_case('trees', rng, trees=op['trees'], length=op['length'], oid_identity=op.get('oid_identity', 0)))
                cands.append(mk_case('trees', rng, trees=op['trees'], length=op['length'], oid_identity=7))
            elif op.get('op') == 'og.from_automaton' and op['length'] >= 1:
                cands.append(mk_case('aut', rng, aut=op))
            elif op.get('op') == 'og.chain':
                cands.append(mk_case('chain', rng, chain=op['chain']))

    def gen():
        yield from cands
        for op in exhaustive_aut_ops():
            yield mk_case('aut', rng, aut=op)
        for op in itertools.islice(exhaustive_tree_ops(), 0, None, 7):
            yield mk_case('trees', rng, trees=op['trees'], length=op['length'], oid_identity=0)
        while True:
            for _ in range(100):
                trees, L = oglib.gen_tree_list(rng)
                yield mk_case('trees', rng, trees=trees, length=L, oid_identity=int(rng.choice([0, 0, 1, 7])))
            for _ in range(100):
                yield mk_case('aut', rng, aut=oglib.gen_automaton(rng))
            for _ in range(20):
                yield mk_case('chain', rng, chain=oglib.gen_chain(rng, int(rng.integers(1, 5)), 4, False))
    for case in gen():
        r = run_case(case)
        if r is not None:
            key = 'c17:' + str(zlib.crc32(json.dumps(case, sort_keys=True).encode()))
            call = {'trees': 'OpGraph.from_optrees([OpTree(root, istart) ...], length, oid_identity)',
                    'aut': 'OpGraph.from_automaton(AutOp(nodes, edges, term), length)',
                    'chain': 'OpChain(oids, qnums, coeff, istart).as_matrix(opmap)'}[case['kind']]
            return {'key': key, 'what': r, 'replay': dict(case, call=call, observed=r)}
        if time.time() - t0 > budget_s:
            return None
    return None


def replay(rp):
    if rp.get('kind') != 'failing-input':
        print('replay: no failing input recorded; obligations that no longer check:', json.dumps(rp.get('no_longer_checks'))[:2000])
        return 1
    case = rp['replay']
    res = run_case(case)
    print('replay', json.dumps({k: v for k, v in case.items() if k not in ('observed', 'call')})[:1500], '->', res)
    return 1 if res else 0

"""
C16 -- operator-graph rewrites preserve the denoted operator and graph consistency.

Correspondence: `OpGraph.__init__`, `merge_edges`, `simplify` / `_simplify_step`, `flip`, `rename_node_id`, `rename_edge_id`,
`add`, `is_consistent`, `length` against `PtnModel/Model/OpGraph.lean`: random consistent layered graphs and adaptively
generated rewrite histories; the complete graph (dictionary orders, edge-id list orders), `is_consistent`, `length` and the
denotation are compared after every step.  `add` iterates two Python *sets*; the history is run once with CPython's
iteration order handed to the model (`addWith`, compared id-exactly) and once with the model's own ascending order
(`add`; compared id-exactly when CPython's order was ascending, otherwise on consistency and denotation only).
Search oracle: the property text against own path enumeration.
"""
import copy, json, time, zlib
import numpy as np
from .. import common, oglib
from ..common import Corr, with_alarm, CaseTimeout
from ..oglib import enc, frac

RULE = ('random consistent layered graphs (length 1..4, layer widths 1..3(+twins), parallel edges, multi-operator edges with repeated and '
        'cancelling ids, node charges, negative / shuffled / colliding id ranges, occasional dangling nodes) with rewrite histories of '
        'length <= 10 (quick) / 30 (thorough) over merge_edges, simplify, _simplify_step, flip, rename_node_id, rename_edge_id, add(random graph); '
        'plus malformed graphs / steps; non-trivial = history with at least one successful step on a graph with non-empty denotation; '
        'distinct = distinct (step kinds with their branch, initial shape, final shape)')


def cls_hist(op, im, br):
    if not im.get('ok') or not im['steps'] or 'err' in im['steps'][0] or not im['init']['den']:
        return None
    last = [s for s in im['steps'] if 'err' not in s][-1]
    return (tuple(b for b in br if not b.startswith('err=')), oglib.shape_cls(im['init']), oglib.shape_cls(last))


def cmp_keys_asc(op):
    """id-exact comparison with the model's ascending `add` only if CPython iterated the shared-id sets ascending"""
    for st in op['steps']:
        if st['k'] == 'add' and st.get('asc') is False:
            return ('cons', 'den', 'length', 'other_unchanged', 'shares_objects')
    return None


def perturb_graph(rng, raw):
    """malformed / inconsistent variants of a consistent raw graph"""
    raw = copy.deepcopy(raw)
    k = int(rng.integers(0, 12))
    tag = 'none'
    n, e = raw['nodes'], raw['edges']
    if k == 0:
        n.append(list(n[0])); tag = 'dup-node-id'
    elif k == 1 and e:
        e.append(copy.deepcopy(e[0])); tag = 'dup-edge-id'
    elif k == 2:
        raw['term'] = [raw['term'][0], 777]; tag = 'terminal-missing'
    elif k == 3:
        raw['term'] = raw['term'] + [1]; tag = 'three-terminals'
    elif k == 4 and e:
        i = int(rng.integers(0, len(n)))
        if n[i][1]:
            n[i][1] = n[i][1] + [n[i][1][0]]; tag = 'dup-eid-in-node'
    elif k == 5 and e:
        e[0][1] = e[0][1] + [3]; tag = 'edge-three-nids'
    elif k == 6 and e:
        i = int(rng.integers(0, len(n)))
        if n[i][2]:
            n[i][2] = n[i][2][1:]; tag = 'missing-back-reference'
    elif k == 7 and e:
        i = int(rng.integers(0, len(e)))
        e[i][1] = [e[i][1][0], n[int(rng.integers(0, len(n)))][0]]; tag = 'edge-points-elsewhere'
    elif k == 8:
        raw['term'] = [raw['term'][1], raw['term'][0]]; tag = 'terminals-swapped'
    elif k == 9 and e:
        i = int(rng.integers(0, len(n)))
        n[i][2] = n[i][2] + [999]; tag = 'unknown-eid'
    elif k == 10 and len(n) >= 3:
        # extra edge skipping a layer / going backwards (level inconsistency or cycle), with back references
        a, b = [int(x) for x in rng.permutation(len(n))[:2]]
        eid = max([x[0] for x in e] + [0]) + 1
        e.append([eid, [n[a][0], n[b][0]], [[1, 1]]])
        n[a][2] = n[a][2] + [eid]; n[b][1] = n[b][1] + [eid]; tag = 'extra-edge'
    elif k == 11:
        raw['term'] = [raw['term'][0], raw['term'][0]]; tag = 'terminals-equal'
    return raw, tag


def corpus_ops():
    """minimised past findings, run first: an unconnected non-terminal node next to a terminal (simplify / merge_edges
    used to merge the terminal node away), both edge-id orders, both directions, also inside longer graphs"""
    ops = []
    for order in ([10, 11], [11, 10]):
        # source node 1 next to the start terminal 0
        ga = {'nodes': [[0, [], [10], 0], [1, [], [11], 0], [2, order, [], 0]],
              'edges': [[10, [0, 2], [[1, 1]]], [11, [1, 2], [[1, 1]]]], 'term': [0, 2]}
        # sink node 2 next to the end terminal 1
        gb = {'nodes': [[0, [], order, 0], [1, [10], [], 0], [2, [11], [], 0]],
              'edges': [[10, [0, 1], [[1, 1]]], [11, [0, 2], [[1, 1]]]], 'term': [0, 1]}
        # the same in the middle of a length-2 graph
        gc = {'nodes': [[0, [], [10], 0], [1, [], [11], 0], [2, order, [12], 0], [3, [12], [], 0]],
              'edges': [[10, [0, 2], [[1, 2]]], [11, [1, 2], [[1, 2]]], [12, [2, 3], [[2, 1]]]], 'term': [0, 3]}
        # an unconnected chain 4 -> 1 next to the start terminal 0 (the terminal must not acquire upstream edges) ...
        gd = {'nodes': [[0, [], [10], 0], [4, [], [13], 0], [1, [13], [11], 0], [2, order, [], 0]],
              'edges': [[10, [0, 2], [[1, 1]]], [11, [1, 2], [[1, 1]]], [13, [4, 1], [[2, 1]]]], 'term': [0, 2]}
        # ... and an unconnected chain 1 -> 4 next to the end terminal 2
        ge = {'nodes': [[0, [], order, 0], [2, [10], [], 0], [1, [11], [13], 0], [4, [13], [], 0]],
              'edges': [[10, [0, 2], [[1, 1]]], [11, [0, 1], [[1, 1]]], [13, [1, 4], [[2, 1]]]], 'term': [0, 2]}
        for gr, dr in ((ga, 1), (gb, 0), (gc, 1), (gd, 1), (ge, 0)):
            for steps in ([{'k': 'simplify'}], [{'k': 'simplify_step', 'direction': dr}, {'k': 'simplify'}],
                          [{'k': 'merge_edges', 'eid1': 10, 'eid2': 11, 'direction': dr}],
                          [{'k': 'merge_edges', 'eid1': 11, 'eid2': 10, 'direction': dr}],
                          [{'k': 'flip'}, {'k': 'simplify'}]):
                ops.append({'op': 'og.rewrite', 'graph': copy.deepcopy(gr), 'steps': copy.deepcopy(steps)})
    return ops


def _corr_shard(name, shard, nshards, tier, seed):
    c = Corr(name)
    rng = np.random.default_rng([seed, shard, 16])
    thorough = tier == 'thorough'
    maxlen = 30 if thorough else 10
    if name in ('rewrite.history', 'rewrite.add_ascending'):
        n = (5000 if not thorough else 40000) // nshards + 1
        if name == 'rewrite.add_ascending':
            n = n // 2
        ops, metas = [], []
        if name == 'rewrite.history' and shard == 0:
            ops = corpus_ops()
            metas = [{'cls': cls_hist, 'branches': ['corpus']} for _ in ops]
        for _ in range(n):
            op, L, charged = oglib.gen_history(rng, maxlen)
            if name == 'rewrite.add_ascending':
                if not any(st['k'] == 'add' for st in op['steps']):
                    continue
                # the history ends with its first `add` (with another iteration order the ids used by later steps differ)
                first = [i for i, st in enumerate(op['steps']) if st['k'] == 'add'][0]
                op['steps'] = op['steps'][:first + 1]
                op['steps'][first]['with_orders'] = False
                metas.append({'cls': cls_hist, 'cmp_keys': cmp_keys_asc, 'branches': ['charged' if charged else 'uncharged']})
            else:
                metas.append({'cls': cls_hist, 'branches': ['charged' if charged else 'uncharged', f'L={L}']})
            ops.append(op)
        oglib.run_ops(c, ops, metas)
    elif name == 'rewrite.den':
        # the denotation functions themselves (both directions, list form and function form) on random graphs
        n = (2000 if not thorough else 20000) // nshards + 1
        ops = []
        for _ in range(n):
            raw, L, charged = oglib.gen_layered_graph(rng, dangling=bool(rng.integers(0, 8) == 0))
            ops.append({'op': 'og.den', 'graph': raw})
        oglib.run_ops(c, ops, [{'cls': lambda op, im, br: ('den', oglib.shape_cls(im)) if im.get('ok') and im['den'] else None}] * len(ops))
    else:
        n = (1200 if not thorough else 10000) // nshards + 1
        ops, metas = [], []
        for _ in range(n):
            raw, L, charged = oglib.gen_layered_graph(rng)
            raw, tag = perturb_graph(rng, raw)
            r = rng.random()
            if tag in ('extra-edge',) or r < 0.4:
                # graphs that may contain cycles are only observed, not rewritten (simplify would not terminate)
                ops.append({'op': 'og.den', 'graph': raw})
            else:
                g = None
                try:
                    g = oglib.build_graph(raw)
                except Exception:
                    pass
                steps = []
                if g is not None:
                    for _ in range(int(rng.integers(1, 4))):
                        steps.append(oglib.gen_bad_step(rng, g) if rng.random() < 0.5 else
                                     [{'k': 'flip'}, {'k': 'simplify'}, {'k': 'simplify_step', 'direction': 1},
                                      {'k': 'rename_node', 'cur': int(list(g.nodes.keys())[0]), 'new': 50}][int(rng.integers(0, 4))])
                ops.append({'op': 'og.rewrite', 'graph': raw, 'steps': steps})
            metas.append({'branches': ['malformed:' + tag]})
        oglib.run_ops(c, ops, metas)
    return c


def correspondence(tier, seed):
    return [common.parallel_shards(_corr_shard, name, tier, seed)
            for name in ('rewrite.history', 'rewrite.add_ascending', 'rewrite.den', 'rewrite.malformed')]


# ----------------------------------------------------------------------------- oracle (property text; used only after a break)

def sym_of(g):
    return oglib.den_graph(g)


def sym_add(a, b):
    return oglib.sym_norm([(tuple(w), frac(c)) for w, c in a] + [(tuple(w), frac(c)) for w, c in b])


def sym_rev(a):
    return oglib.sym_norm([(tuple(reversed(w)), frac(c)) for w, c in a])


def other_untouched(g, other, other_snap):
    """'... and leaves the other graph untouched': same serialisation, no shared objects, and later in-place edits of
    the updated graph (done on a joint deep copy of the pair, which preserves any sharing) do not reach it"""
    if oglib.ser_graph(other) != other_snap:
        return 'the other graph was modified (serialisation differs from the snapshot taken before the call)'
    if oglib.shares_objects(g, other):
        return 'the updated graph shares node / edge objects (or their lists) with the other graph'
    g2, o2 = copy.deepcopy((g, other))
    opmap = {o: np.array([[1.0, float(o)], [0.5, 1.0]]) for o in range(-1, 8)}
    try:
        ref = o2.as_matrix(opmap)
    except Exception:
        ref = None
    g2.flip()
    for e in g2.edges.values():
        e.opics[:] = [(i, 2 * c) for i, c in e.opics]
    t = g2.nid_terminal[0]
    g2.rename_node_id(t, max(g2.nodes.keys()) + 7)
    if oglib.ser_graph(o2) != other_snap:
        return 'later in-place edits of the updated graph (flip, scaling, renaming) changed the other graph'
    if ref is not None:
        try:
            if not np.array_equal(o2.as_matrix(opmap), ref):
                return 'as_matrix of the other graph changed after editing the updated graph'
        except Exception as ex:
            return f'as_matrix of the other graph raises {type(ex).__name__} after editing the updated graph'
    return None


def mpo_convertible(g):
    """True / error text: MPO.from_opgraph(qd = [0, 1], g, charged operator map of the generator) succeeds and has the dense matrix
    of the graph (regression of F18: a flipped graph with non-zero bond quantum numbers failed the sparsity assertion)"""
    import pytenet as ptn
    oids = sorted({i for e in g.edges.values() for i, _ in e.opics} | {0})
    enc_opmap = oglib.rand_opmap(np.random.default_rng(7), oids, 2, oid_identity=0, deltas={**oglib.DELTA, 5: 99}, qd=[0, 1])
    opmap = oglib.opmap_of(enc_opmap)
    # domain of the conversion (C05): every non-terminal node is connected in both directions (a graph with an unconnected
    # source / sink passes is_consistent() but has a dangling bond; as_matrix() asserts on it in one direction only)
    for n in g.nodes.values():
        for dd in (0, 1):
            if not n.eids[dd] and n.nid != g.nid_terminal[dd]:
                return None
    try:
        m = ptn.MPO.from_opgraph([0, 1], g, opmap)
    except Exception as ex:
        return f'{type(ex).__name__}: {ex}'
    try:
        ref = g.as_matrix(opmap)
    except Exception:
        return True
    if np.abs(np.asarray(m.as_matrix()) - np.asarray(ref)).max(initial=0) > 1e-9:
        return 'dense matrix of the MPO differs from the matrix of the graph'
    return True


def oracle_history(raw, steps):
    """run the history on the real code, checking the property after every step; None or a description"""
    try:
        g = oglib.build_graph(raw)
        if not g.is_consistent():
            return None
        L = g.length
    except Exception:
        return None             # not a consistent graph: outside the property
    den = sym_of(g)
    for idx, st in enumerate(steps):
        k = st['k']
        st = copy.deepcopy(st)
        nn, ne = len(g.nodes), len(g.edges)
        want = den
        other = other_snap = None
        if k == 'merge_edges':
            if (st['eid1'], st['eid2'], st['direction']) not in [(a, b, d) for a, b, d, _ in oglib.mergeable_pairs(g)]:
                return None     # not two mergeable edges: outside the property
        elif k in ('rename_node',):
            if st['cur'] not in g.nodes or st['new'] in g.nodes:
                return None
        elif k in ('rename_edge',):
            if st['cur'] not in g.edges or st['new'] in g.edges:
                return None
        elif k == 'flip':
            want = sym_rev(den)
            pre_conv = mpo_convertible(g) if len(g.nodes) <= 12 else None
        elif k == 'add':
            try:
                other = oglib.build_graph(st['other'])
                if not other.is_consistent() or other.length != L:
                    return None
            except Exception:
                return None
            other_snap = oglib.ser_graph(other)
            want = sym_add(den, sym_of(other))
        elif k not in ('simplify', 'simplify_step'):
            return None
        try:
            if k == 'add':
                with_alarm(10.0, lambda: g.add(other))
            else:
                with_alarm(10.0, lambda: oglib.apply_step(g, st))
        except CaseTimeout:
            return f'step {idx} ({k}) does not terminate within 10 s'
        except Exception as ex:
            return f'step {idx} ({k}) raises {type(ex).__name__}: {ex}'
        got = sym_of(g)
        if got != want:
            return f'step {idx} ({k}): graph denotes {got}, expected {want}'
        if not g.is_consistent():
            return f'step {idx} ({k}): graph is not consistent afterwards'
        if k == 'flip' and pre_conv is True:
            post = mpo_convertible(g)
            if post is not True:
                return f'step {idx} (flip): the graph could be converted to an MPO (qd = [0, 1]) before the flip, afterwards MPO.from_opgraph fails: {post}'
        if k in ('simplify', 'simplify_step') and (len(g.nodes) > nn or len(g.edges) > ne):
            return f'step {idx} ({k}): number of nodes/edges increased'
        if k == 'add':
            r = other_untouched(g, other, other_snap)
            if r:
                return f'step {idx} (add): {r}'
        den = got
    return None


def search(tier, seed, hints, budget_s):
    t0 = time.time()
    rng = np.random.default_rng([seed, 1616])
    cands = []
    for h in hints:
        if h['kind'] == 'correspondence' and isinstance(h['detail'], dict):
            op = h['detail']['op']
            if op.get('op') == 'og.rewrite':
                cands.append((op['graph'], op['steps']))

    def gen():
        yield from cands
        for op in corpus_ops():
            yield op['graph'], op['steps']
        while True:
            op, _, _ = oglib.gen_history(rng, 10 if tier == 'quick' else 30, allow_bad=False)
            yield op['graph'], op['steps']
    for raw, steps in gen():
        r = oracle_history(raw, steps)
        if r is not None:
            # shorten: drop trailing steps after the failing one
            key = 'c16:' + str(zlib.crc32(json.dumps([raw, steps], sort_keys=True).encode()))
            return {'key': key, 'what': r,
                    'replay': {'call': 'g = OpGraph(nodes, edges, term); then the steps in order (merge_edges / simplify / _simplify_step / flip / rename_node_id / rename_edge_id / add(OpGraph(other)))',
                               'graph': raw, 'steps': steps, 'observed': r}}
        if time.time() - t0 > budget_s:
            return None
    return None


def replay(rp):
    if rp.get('kind') != 'failing-input':
        print('replay: no failing input recorded; obligations that no longer check:', json.dumps(rp.get('no_longer_checks'))[:2000])
        return 1
    r = rp['replay']
    res = oracle_history(r['graph'], r['steps'])
    print('replay', json.dumps({'graph': r['graph'], 'steps': r['steps']})[:1500], '->', res)
    return 1 if res else 0

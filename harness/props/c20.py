"""
C20 -- compiled Hamiltonian MPOs are as compact as the operator allows.

Correspondence: bond dimensions (`MPO.bond_dims`) of the built-in models through the chain, automaton and optimized molecular
constructions against the layer widths of the model's compiled graphs (`ham.build`); for random chain lists the layer widths of
`OpGraph.from_opchains`, the number of nodes created by every site step and the number of chains with non-zero coefficient
(`ham.chain_widths`); layer widths before / after `simplify` on random consistent graphs (`ham.simplify_widths`).
Search oracle: property text -- bond dimension = numerical operator Schmidt rank (SVD, relative threshold 1e-10) of an own dense
reference across every cut; bond dimension <= number of non-zero chains; simplify never increases a bond dimension.
"""
import itertools, json, time, zlib
import numpy as np
from .. import common, oglib, hamlib
from ..common import Corr, with_alarm, CaseTimeout, py_call
from ..oglib import enc, dec, frac
from . import c05, c06, c07

RULE = ('built-in models (Ising, XXZ spin-1/2 and spin-1, Bose-Hubbard d=1..4, Fermi-Hubbard, optimized spinless molecular L<=6, optimized spin molecular L<=4), '
        'L=1..6, generic and degenerate dyadic parameters; random chain lists (L<=5, <=9 chains, duplicates, cancelling pairs, charged / uncharged) and exhaustive '
        'small chain lists; random consistent layered graphs (parallel edges, twins, charges) before/after simplify. '
        'Stream "schmidt-rank (numeric, property oracle)": not a model comparison -- bond dimension = numerical operator Schmidt rank evaluated always on small inputs of every built-in model. '
        'non-trivial = construction succeeds; distinct = distinct (stream, model / L, bond dimensions)')

DENSE_LIMIT = 1100


def graph_widths(g):
    """number of nodes on every level of a pytenet OpGraph (first-visit BFS from terminal 0)"""
    lev = oglib.graph_levels(g)
    n = max(lev.values()) + 1
    return [sum(1 for v in lev.values() if v == l) for l in range(n)]


def impl_chain_widths(op):
    from pytenet.opchain import OpChain
    from pytenet.opgraph import OpGraph

    def f():
        chains = [OpChain(o, q, dec(c), i) for o, q, c, i in op['chains']]
        g = OpGraph.from_opchains(chains, op['length'], op['oid_identity'])
        w = graph_widths(g)
        return {'widths': w, 'site_counts': w[1:], 'nonzero': sum(1 for c in chains if c.coeff != 0)}
    return py_call(lambda: with_alarm(10.0, f))


def impl_simplify_widths(op):
    def f():
        g = oglib.build_graph(op['graph'])
        assert g.is_consistent()
        w0 = graph_widths(g)
        g.simplify()
        return {'before': w0, 'after': graph_widths(g)}
    return py_call(lambda: with_alarm(10.0, f))


def builtin_ops(rng, tier, shard, nshards):
    ops = []
    k = 0
    for L in range(1, 7):
        for ps in ([1.0, -1.25, 0.5], [0.5, 2.0, -1.0], [0.0, 1.0, 0.5], [1.0, 0.0, 0.0], [0.0, 0.0, 2.0], [-0.5, 0.75, 0.0]):
            for model, d in (('ising', None), ('xxz', None), ('xxz1', None), ('fermi_hubbard', None), ('bose', 1), ('bose', 2), ('bose', 3), ('bose', 4)):
                k += 1
                if k % nshards == shard:
                    ops.append(hamlib.mk_lattice_op(model, L, ps, d=d))
    reps = 2 if tier != 'thorough' else 8
    for model, Ls in (('mol', range(1, 7)), ('spinmol', range(1, 5))):
        for L in Ls:
            for r in range(reps):
                k += 1
                if k % nshards == shard:
                    kind = ['dense', 'sparse', 'symmetric', 'one-body'][r % 4]
                    t, v = c07.gen_tensors(rng, L, kind, c07.dyadic_draw(rng))
                    op = hamlib.mk_mol_op(model, t, v, True)
                    op['kind_f'] = kind
                    ops.append(op)
    return ops


def _corr_shard(name, shard, nshards, tier, seed):
    c = Corr(name)
    rng = np.random.default_rng([seed, shard, 20])
    thorough = tier == 'thorough'
    if name.startswith('schmidt-rank'):
        cases = []
        for L in (2, 3, 4):
            for model, d in (('ising', None), ('xxz', None), ('xxz1', None), ('fermi_hubbard', None), ('bose', 2), ('bose', 3)):
                cs = {'clause': 'rank', 'model': model, 'L': L, 'params': [0.7, -1.3, 0.45]}
                if d:
                    cs['d'] = d
                cases.append(cs)
        cases = [cs for k, cs in enumerate(cases) if k % nshards == shard]
        for _ in range(2 if not thorough else 20):
            cases.append(gen_rank_case(rng))
        for case in cases:
            r = run_rank(case)
            small = {k: v for k, v in case.items() if k not in ('tkin', 'vint')} if case['model'] not in ('mol', 'spinmol') or case['L'] > 2 else case
            c.add(dict(case, op='oracle (numeric)') if case['model'] not in ('mol', 'spinmol') else dict(case, op='oracle (numeric)'),
                  {'ok': True, 'oracle_ok': r is None, 'observed': r}, {'ok': True, 'oracle_ok': True, 'observed': None},
                  cls=('rank', case['model'], case['L'], case.get('d')), branches=['rank:' + case['model']])
        if len(c.samples) > 0:
            c.samples = [{'op': {k: v for k, v in s_['op'].items() if k not in ('tkin', 'vint')}, 'reply': s_['reply']} for s_ in c.samples]
        return c
    if name == 'builtin.bond_dims':
        ops = builtin_ops(rng, tier, shard, nshards)
        impls = [hamlib.impl_build(op) for op in ops]
        replies = oglib.drive_retry([hamlib.model_op(op) for op in ops])
        for op, im, mo in zip(ops, impls, replies):
            def w(r):
                rr = r.get('res') if isinstance(r, dict) else None
                if not isinstance(rr, dict):
                    return {'err': r.get('err') if isinstance(r, dict) else None}
                return {'widths': rr['widths']} if 'widths' in rr else rr
            L = op.get('L', len(op.get('tkin', [])))
            iw = w(im)
            c.add(hamlib.summarise_op(op), iw, w(mo), cls=(op['model'], L, op.get('d'), tuple(iw.get('widths', []))) if 'widths' in iw else None,
                  branches=[op['model'], f'L={L}'])
    elif name == 'chains.bound':
        if shard == 0:
            raw = [(ch, L) for ch, L in c05.exhaustive_stream('quick')]
            raw = raw[::7] if not thorough else raw
        else:
            raw = []
        n = (4000 if not thorough else 40000) // nshards + 1
        for _ in range(n):
            chains, L, oid, charged, tag = oglib.gen_chain_list(rng)
            raw.append((chains, L))
        ops = [{'op': 'ham.chain_widths', 'chains': ch, 'length': L, 'oid_identity': 0} for ch, L in raw]
        impls = [impl_chain_widths(op) for op in ops]
        replies = oglib.drive_retry(ops)
        for op, im, mo in zip(ops, impls, replies):
            br = []
            if im.get('ok'):
                m = max(im['widths'])
                br.append('max-width=nonzero' if m == im['nonzero'] else 'max-width<nonzero')
            c.add(op, im, mo, cls=('chains', op['length'], tuple(im['widths']), im['nonzero']) if im.get('ok') else None, branches=br)
    else:
        n = (3000 if not thorough else 30000) // nshards + 1
        ops = []
        for _ in range(n):
            raw, L, charged = oglib.gen_layered_graph(rng, maxw=int(rng.integers(2, 5)))
            ops.append({'op': 'ham.simplify_widths', 'graph': raw})
        impls = [impl_simplify_widths(op) for op in ops]
        replies = oglib.drive_retry(ops)
        for op, im, mo in zip(ops, impls, replies):
            br = []
            if im.get('ok'):
                br.append('simplify:narrower' if im['before'] != im['after'] else 'simplify:same-widths')
            c.add(op, im, mo, cls=('simplify', tuple(im['before']), tuple(im['after'])) if im.get('ok') else None, branches=br)
    return c


def correspondence(tier, seed):
    return [common.parallel_shards(_corr_shard, name, tier, seed)
            for name in ('builtin.bond_dims', 'chains.bound', 'simplify.widths', 'schmidt-rank (numeric, property oracle)')]


# ----------------------------------------------------------------------------- oracle (property text; used only after a break)

def run_rank(case):
    """first sentence: bond dimension = operator Schmidt rank at every cut, generic non-zero parameters"""
    if case['model'] in ('mol', 'spinmol'):
        t, v = c07.to_arrays(case)
        L = t.shape[0]
        spin = case['model'] == 'spinmol'
        d = 4 if spin else 2
        ref = c07.ref_fast(t, v, spin)
        try:
            mpo = c07.build(case, t, v, True)
        except CaseTimeout:
            return 'constructor does not return within 300 s'
        except Exception as ex:
            return f'constructor raises {type(ex).__name__}: {ex}'
    else:
        L = case['L']
        d = c06.phys_dim(case)
        ref = np.asarray(c06.reference(case))
        try:
            mpo = with_alarm(60.0, lambda: c06.construct(case))
        except CaseTimeout:
            return 'constructor does not return within 60 s'
        except Exception as ex:
            return f'constructor raises {type(ex).__name__}: {ex}'
    if not np.any(ref != 0):
        return None
    M = np.asarray(mpo.as_matrix())
    if float(np.max(np.abs(M - ref))) > 1e-10 * max(1.0, float(np.max(np.abs(ref)))):
        return None          # a wrong operator is C06 / C07's business
    bd = [int(x) for x in mpo.bond_dims]
    if len(bd) != L + 1 or bd[0] != 1 or bd[-1] != 1:
        return f'bond dimensions {bd} do not start and end with 1 on {L} sites'
    ranks = hamlib.schmidt_ranks(ref, d, L)
    if bd[1:-1] != ranks:
        return f'bond dimensions {bd[1:-1]} differ from the operator Schmidt ranks {ranks} of the dense operator'
    return None


def run_chains(case):
    """second sentence: bond dimension <= number of chains with non-zero coefficient"""
    from pytenet.opchain import OpChain
    from pytenet.opgraph import OpGraph
    from pytenet.mpo import MPO
    chains, L, oid = case['chains'], case['length'], case['oid_identity']
    if not c05.chains_valid(chains, L):
        return None
    try:
        cs = [OpChain(o, q, dec(c), i) for o, q, c, i in chains]
        g = with_alarm(10.0, lambda: OpGraph.from_opchains(cs, L, oid))
        mpo = MPO.from_opgraph(case['qd'], g, oglib.opmap_of(case['opmap']))
    except CaseTimeout:
        return 'from_opchains does not terminate within 10 s'
    except Exception as ex:
        return f'from_opchains / from_opgraph raises {type(ex).__name__}: {ex}'
    nz = sum(1 for c in chains if frac(c[2]) != 0)
    bd = [int(x) for x in mpo.bond_dims]
    if max(bd) > nz:
        return f'bond dimensions {bd} exceed the number {nz} of chains with non-zero coefficient'
    return None


def run_simplify(case):
    """third sentence: simplifying a graph never increases any bond dimension"""
    from pytenet.mpo import MPO
    try:
        g = oglib.build_graph(case['graph'])
        if not g.is_consistent():
            return None
        opmap = oglib.opmap_of(case['opmap'])
        bd0 = [int(x) for x in MPO.from_opgraph(case['qd'], g, opmap).bond_dims]
    except Exception:
        return None
    try:
        with_alarm(10.0, g.simplify)
        bd1 = [int(x) for x in MPO.from_opgraph(case['qd'], g, opmap).bond_dims]
    except CaseTimeout:
        return 'simplify does not terminate within 10 s'
    except Exception as ex:
        return f'simplify / from_opgraph after simplify raises {type(ex).__name__}: {ex}'
    if len(bd0) != len(bd1) or any(b > a for a, b in zip(bd0, bd1)):
        return f'bond dimensions before simplify {bd0}, after {bd1}'
    return None


def run_case(case):
    k = case.get('clause')
    if k == 'rank':
        return run_rank(case)
    if k == 'chains':
        return run_chains(case)
    return run_simplify(case)


def generic(rng):
    """a generic non-zero real parameter"""
    x = 0.0
    while abs(x) < 0.2:
        x = float(np.round(rng.normal() * 1.3, 3))
    return x


def gen_rank_case(rng):
    model = str(rng.choice(['ising', 'xxz', 'xxz1', 'bose', 'fermi_hubbard', 'mol', 'spinmol']))
    if model in ('mol', 'spinmol'):
        L = int(rng.integers(2, 8)) if model == 'mol' else int(rng.choice([2, 2, 3, 3, 3, 4]))
        cplx = bool(rng.integers(0, 2))
        t, v = c07.gen_tensors(rng, L, 'dense', c07.real_draw(rng, cplx))
        pt, pv = c07.pack(t, v)
        return {'clause': 'rank', 'model': model, 'L': L, 'complex': cplx, 'tkin': pt, 'vint': pv}
    d = int(rng.integers(2, 5)) if model == 'bose' else None
    dd = {'ising': 2, 'xxz': 2, 'xxz1': 3, 'fermi_hubbard': 4}.get(model) or d
    Lmax = 6
    while dd ** Lmax > DENSE_LIMIT:
        Lmax -= 1
    case = {'clause': 'rank', 'model': model, 'L': int(rng.integers(2, Lmax + 1)), 'params': [generic(rng) for _ in range(3)]}
    if d is not None:
        case['d'] = d
    return case


def describe(case):
    if case['clause'] == 'rank':
        if case['model'] in ('mol', 'spinmol'):
            return c07.describe(case) + ' (optimize=True); compare mpo.bond_dims with the SVD rank of the dense operator reshaped across every cut'
        return c06.describe(case) + '; compare mpo.bond_dims with the SVD rank of the dense operator reshaped across every cut'
    if case['clause'] == 'chains':
        return 'MPO.from_opgraph(qd, OpGraph.from_opchains([OpChain(oids, qnums, coeff, istart) ...], length, oid_identity), opmap).bond_dims'
    return 'g = OpGraph(nodes, edges, term); bond_dims of MPO.from_opgraph(qd, g, opmap) before and after g.simplify()'


def search(tier, seed, hints, budget_s):
    t0 = time.time()
    rng = np.random.default_rng([seed, 2020])
    cands = []
    for h in hints:
        if h['kind'] == 'correspondence' and isinstance(h['detail'], dict):
            op = h['detail']['op']
            if op.get('op') == 'oracle (numeric)':
                cands.append({k: v for k, v in op.items() if k != 'op'})
                continue
            if op.get('op') == 'ham.chain_widths' and c05.chains_valid(op['chains'], op['length']):
                charged = any(any(x != 0 for x in ch[1]) for ch in op['chains'])
                cands.append(dict(c05.case_of_chains(op['chains'], op['length'], op['oid_identity'], rng, charged), clause='chains'))
            elif op.get('op') == 'ham.simplify_widths':
                charged = any(n[3] != 0 for n in op['graph']['nodes'])
                m = c05.mpo_op(op['graph'], rng, charged, d=2)
                cands.append({'clause': 'simplify', 'graph': op['graph'], 'qd': m['qd'], 'opmap': m['opmap']})
            elif op.get('op') == 'ham.build' and op.get('model') in ('ising', 'xxz', 'xxz1', 'bose', 'fermi_hubbard') and op.get('L', 0) >= 2:
                cs = {'clause': 'rank', 'model': op['model'], 'L': op['L'], 'params': [generic(rng) for _ in range(3)]}
                if 'd' in op:
                    cs['d'] = max(2, op['d'])
                if c06.phys_dim(cs) ** cs['L'] <= DENSE_LIMIT:
                    cands.append(cs)

    def gen():
        yield from cands
        for L in range(2, 7):
            for model, d in (('ising', None), ('xxz', None), ('xxz1', None), ('fermi_hubbard', None), ('bose', 2), ('bose', 3), ('bose', 4)):
                cs = {'clause': 'rank', 'model': model, 'L': L, 'params': [generic(rng) for _ in range(3)]}
                if d:
                    cs['d'] = d
                if c06.phys_dim(cs) ** L <= DENSE_LIMIT:
                    yield cs
        while True:
            for _ in range(10):
                yield gen_rank_case(rng)
            for _ in range(100):
                chains, L, oid, charged, _ = oglib.gen_chain_list(rng)
                if c05.chains_valid(chains, L):
                    yield dict(c05.case_of_chains(chains, L, oid, rng, charged), clause='chains')
            for _ in range(100):
                raw, L, charged = oglib.gen_layered_graph(rng, maxw=int(rng.integers(2, 5)))
                m = c05.mpo_op(raw, rng, charged, d=2)
                yield {'clause': 'simplify', 'graph': raw, 'qd': m['qd'], 'opmap': m['opmap']}
    for case in gen():
        r = run_case(case)
        if r is not None:
            key = 'c20:' + case['clause'] + ':' + str(zlib.crc32(json.dumps(case, sort_keys=True).encode()))
            return {'key': key, 'what': r, 'replay': dict(case, call=describe(case), observed=r)}
        if time.time() - t0 > budget_s:
            return None
    return None


def replay(rp):
    if rp.get('kind') != 'failing-input':
        print('replay: no failing input recorded; obligations that no longer check:', json.dumps(rp.get('no_longer_checks'))[:2000])
        return 1
    case = rp['replay']
    res = run_case(case)
    print('replay', json.dumps({k: v for k, v in case.items() if k not in ('observed', 'call', 'tkin', 'vint')})[:1500], '->', res)
    return 1 if res else 0

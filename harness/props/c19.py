"""
C19 — operands are never modified, results share no state with them.

Two ties between the Lean model and the running code:
 (1) operation histories (as C02): after every step the set of changed pool slots (byte-level snapshots of *all* objects) and the
     np.shares_memory relation of the new/updated object with every other object must equal the model's prediction
     (only the documented target changes; nothing is shared);
 (2) a call table: every public function is called on random operands (real kernels); which positional arguments changed bit-for-bit and
     whether the result shares memory with an argument is compared with the model's write/alias table (`heap.spec` of the driver).
Oracle (search only): follow-up mutation of the result (zero_qnumbers, in-place tensor edits, orthonormalize, compress) must not alter operands.
"""
import copy, json, time
import numpy as np
from .. import common, exact, history, kernels, mpsgen
from ..common import Corr, py_call
from . import c02

RULE = ('(1) histories as in C02 with non-zero boundary charges, compared per step on changed-slot sets and memory sharing; '
        '(2) call table: each public function x random operands (dtype, L, d, charges); distinct = (function, operand shapes/dtypes)')


def arrays_in(x):
    """all numpy arrays reachable from an argument/result (objects, tuples, lists)"""
    out = []
    if isinstance(x, np.ndarray):
        out.append(x)
    elif isinstance(x, (list, tuple)):
        for y in x:
            out += arrays_in(y)
    elif hasattr(x, 'A') and hasattr(x, 'qD'):
        out += arrays_in([x.qd, list(x.qD), list(x.A)])
    return out


def snap(x):
    if isinstance(x, np.ndarray):
        return (x.shape, str(x.dtype), x.tobytes())
    if isinstance(x, (list, tuple)):
        return tuple(snap(y) for y in x)
    if hasattr(x, 'A') and hasattr(x, 'qD'):
        return mpsgen.snapshot(x)
    if type(x).__name__ == 'AutOp':
        return autop_snap(x)
    if type(x).__name__ == 'OpTree':
        return tree_snap(x)
    if type(x).__name__ == 'OpChain':
        return (tuple(x.oids), tuple(x.qnums), x.coeff, x.istart)
    if hasattr(x, 'nodes') and hasattr(x, 'edges'):
        return graph_snap(x)
    return repr(x)


def autop_snap(a):
    def tab(x):
        return tuple(x) if isinstance(x, list) else ('callable', tuple(tuple(x(i)) if isinstance(x(i), list) else x(i) for i in range(6)))
    return (tuple((k, n.nid, tuple(n.eids[0]), tuple(n.eids[1]), n.qnum) for k, n in a.nodes.items()),
            tuple((k, e.eid, tuple(e.nids), tab(e.opics), e.active if isinstance(e.active, bool) else tuple(e.active(i) for i in range(6)))
                  for k, e in a.edges.items()), tuple(a.nid_terminal))


def tree_snap(t):
    def node(n):
        return (n.qnum, tuple((e.oid, e.coeff, node(e.node)) for e in n.children))
    return (t.istart, node(t.root))


def graph_snap(g):
    return (tuple((k, n.nid, tuple(n.eids[0]), tuple(n.eids[1]), n.qnum) for k, n in g.nodes.items()),
            tuple((k, e.eid, tuple(e.nids), tuple(e.opics)) for k, e in g.edges.items()), tuple(g.nid_terminal))


def graph_parts(g):
    """identities of the mutable parts of an operator graph"""
    ids = set()
    for n in g.nodes.values():
        ids |= {id(n), id(n.eids[0]), id(n.eids[1])}
    for e in g.edges.values():
        ids |= {id(e), id(e.nids), id(e.opics)}
    ids.add(id(g.nid_terminal))
    return ids


def operand_parts(x):
    """identities of mutable lists reachable from a graph-construction operand (automaton, chains, trees)"""
    ids = set()
    if type(x).__name__ == 'AutOp':
        for n in x.nodes.values():
            ids |= {id(n), id(n.eids[0]), id(n.eids[1])}
        for e in x.edges.values():
            ids |= {id(e), id(e.nids)}
            if isinstance(e.opics, list):
                ids.add(id(e.opics))
            else:
                for i in range(6):
                    ids.add(id(e.opics(i)))
    elif isinstance(x, (list, tuple)):
        for y in x:
            ids |= operand_parts(y)
    elif type(x).__name__ == 'OpChain':
        ids |= {id(x.oids), id(x.qnums)}
    elif type(x).__name__ == 'OpTree':
        def node(n):
            out = {id(n), id(n.children)}
            for e in n.children:
                out |= {id(e)} | node(e.node)
            return out
        ids |= node(x.root)
    return ids


def call_cases(rng):
    """yield (name, callable, args) for one random operand set"""
    import pytenet as ptn
    from pytenet import operation as opn, bond_ops
    from .c03 import rnd_like, pair_mps, pair_mpo
    cplx = bool(rng.random() < 0.5)
    L = int(rng.integers(1, 4)); d = int(rng.integers(1, 3)); qd = mpsgen.rand_qd(rng, d)
    psi = rnd_like(rng, mpsgen.rand_mps(rng, L=L, qd=qd, maxD=3, boundary=(1, int(rng.integers(0, 3)))), cplx)
    chi = rnd_like(rng, mpsgen.rand_mps(rng, L=L, qd=qd, maxD=3, boundary=(1, int(psi.qD[-1][0]))), cplx)
    o = rnd_like(rng, mpsgen.rand_mpo(rng, L=L, qd=qd, maxD=2, boundary=(0, 0)), cplx)
    o2 = rnd_like(rng, mpsgen.rand_mpo(rng, L=L, qd=qd, maxD=2, boundary=(0, 0)), cplx)
    yield 'add_mps', lambda a, b: a + b, [psi, chi]
    yield 'sub_mps', lambda a, b: a - b, [psi, chi]
    yield 'add_mpo', lambda a, b: a + b, [o, o2]
    yield 'sub_mpo', lambda a, b: a - b, [o, o2]
    yield 'mul_mpo', lambda a, b: a @ b, [o, o2]
    yield 'apply_operator', ptn.apply_operator, [o, psi]
    yield 'vdot', ptn.vdot, [chi, psi]
    yield 'norm', ptn.norm, [psi]
    yield 'operator_average', ptn.operator_average, [psi, o]
    yield 'operator_inner_product', ptn.operator_inner_product, [psi, o, psi]
    yield 'operator_density_average', ptn.operator_density_average, [o, o2]
    yield 'as_vector', lambda a: a.as_vector(), [psi]
    yield 'as_matrix', lambda a: a.as_matrix(), [o]
    yield 'compute_right_operator_blocks', ptn.compute_right_operator_blocks, [psi, o]
    q0 = np.sort(rng.integers(-1, 2, 4)) if rng.random() < 0.5 else rng.integers(-1, 2, 4)
    q1 = rng.integers(-1, 2, 3)
    A = np.where(np.equal.outer(q0, q1), rng.standard_normal((4, 3)) + (1j * rng.standard_normal((4, 3)) if cplx else 0), 0)
    yield 'qr', bond_ops.qr, [A, q0, q1]
    yield 'split_matrix_svd', lambda A, q0, q1: bond_ops.split_matrix_svd(A, q0, q1, 0.1), [A, q0, q1]
    yield 'retained_bond_indices', lambda s: bond_ops.retained_bond_indices(s, 0.1), [np.abs(rng.standard_normal(5))]
    d0 = 2; D0, D2 = int(rng.integers(1, 3)), int(rng.integers(1, 3))
    qd0 = np.array([0, 1]); qD0 = rng.integers(-1, 2, D0); qD2 = rng.integers(-1, 2, D2)
    T = rng.standard_normal((4, D0, D2))
    T = np.where(ptn.qnumber_outer_sum([ptn.qnumber_flatten([qd0, qd0]), qD0, -qD2]) == 0, T, 0)
    for distr in ('left', 'right', 'sqrt'):
        yield 'split_mps_tensor', lambda T, a, b, c, e, distr=distr: ptn.split_mps_tensor(T, a, b, [c, e], distr, 0.05), [T, qd0, qd0, qD0, qD2]
    yield 'merge_mps_tensor_pair', ptn.merge_mps_tensor_pair, [psi.A[0], psi.A[0].transpose(0, 2, 1).copy() if L == 1 else psi.A[1]]
    yield 'from_vector', lambda v: ptn.MPS.from_vector(2, 3, v, 0.01), [rng.standard_normal(8)]
    # operator graphs: `add` overwrites self, must leave `other` untouched and unshared (also when all ids are disjoint)
    from .. import oglib
    try:
        rawA, LA, ch = oglib.gen_layered_graph(rng, L=int(rng.integers(1, 4)), idbase=0)
        rawB, _, _ = oglib.gen_layered_graph(rng, L=LA, idbase=0, charged=ch)
        mode = int(rng.integers(0, 3))
        if mode >= 1:   # disjoint node ids
            sh = 40
            rawB = {'nodes': [[n[0] + sh, n[1], n[2], n[3]] for n in rawB['nodes']],
                    'edges': [[e[0], [e[1][0] + sh, e[1][1] + sh], e[2]] for e in rawB['edges']], 'term': [t + sh for t in rawB['term']]}
        if mode == 2:   # disjoint edge ids as well
            sh = 500
            rawB = {'nodes': [[n[0], [x + sh for x in n[1]], [x + sh for x in n[2]], n[3]] for n in rawB['nodes']],
                    'edges': [[e[0] + sh, e[1], e[2]] for e in rawB['edges']], 'term': rawB['term']}
        gA, gB = oglib.build_graph(rawA), oglib.build_graph(rawB)
        if all(gA.nodes[gA.nid_terminal[k]].qnum == gB.nodes[gB.nid_terminal[k]].qnum for k in (0, 1)):
            yield 'OpGraph.add', lambda a, b: a.add(b), [gA, gB]
        # graph construction from an automaton / chain list / tree list: operands untouched, result unshared,
        # also after the result is simplified / added to / flipped later
        aop = oglib.gen_automaton(rng, L=int(rng.integers(1, 4)))
        autop = oglib.build_autop(aop['nodes'], aop['edges'], aop['term'])
        yield 'OpGraph.from_automaton', lambda a, L=aop['length']: ptn.OpGraph.from_automaton(a, L), [autop]
        chains = [ptn.OpChain([int(x) for x in rng.integers(0, 3, ln)], [0] * (ln + 1), float(rng.choice([1.0, 0.5, -2.0])), 0)
                  for ln in rng.integers(1, 4, int(rng.integers(1, 4)))]
        yield 'OpGraph.from_opchains', lambda c: ptn.OpGraph.from_opchains(c, 3, 0), [chains]
        # repeated terms (equal values in distinct objects, and the same object listed again), full-length chains included
        k = int(rng.integers(0, len(chains)))
        rep = ptn.OpChain(list(chains[k].oids), list(chains[k].qnums), chains[k].coeff, chains[k].istart)
        chains2 = chains + [rep] + ([chains[k]] if rng.random() < 0.5 else [])
        yield 'OpGraph.from_opchains', lambda c: ptn.OpGraph.from_opchains(c, 3, 0), [chains2]
        yield 'OpGraph.as_matrix', lambda a: a.as_matrix({i: np.identity(2) * (i + 1) for i in range(-1, 12)}), [gA]
        yield 'MPO.from_opgraph', lambda a: ptn.MPO.from_opgraph([0, 0], a, {i: np.identity(2) * (i + 1) for i in range(-1, 12)}), [gA]
    except Exception:
        pass
    # in-place algorithms: only the documented target may change
    yield 'MPS.orthonormalize', lambda a, mode=('left' if rng.random() < 0.5 else 'right'): a.orthonormalize(mode=mode), [psi]
    yield 'MPO.orthonormalize', lambda a: a.orthonormalize(mode='right'), [o]
    if np.linalg.norm(psi.as_vector()) > 0:
        yield 'MPS.compress', lambda a: a.compress(0.01, mode='left'), [psi]


def observe(fn, args):
    """returns (modified argument indices, result shares memory with an argument?, exception?)"""
    args = [copy.deepcopy(a) for a in args]
    before = [snap(a) for a in args]
    try:
        res = fn(*args)
    except Exception as ex:
        return None, None, f'{type(ex).__name__}: {ex}'
    mod = [i for i, a in enumerate(args) if snap(a) != before[i]]
    # the no-sharing clause of C19 is about returned MPS / MPO / operator-graph objects (plain arrays returned by dense
    # conversions and decompositions may legitimately be views, e.g. as_vector() for L = 1 or the dummy-bond charges of qr)
    ra = arrays_in(res) if (hasattr(res, 'A') and hasattr(res, 'qD')) else []
    shares = any(np.shares_memory(x, y) for x in ra for a in args for y in arrays_in(a))
    # operator graphs: mutable parts (node / edge objects and their lists) of different graphs must be distinct objects
    if hasattr(res, 'nodes') and hasattr(res, 'edges') and type(res).__name__ == 'OpGraph':
        for a in args:
            if type(a).__name__ != 'OpGraph' and graph_parts(res) & operand_parts(a):
                shares = True
    graphs = [a for a in args if type(a).__name__ == 'OpGraph']
    for i in range(len(graphs)):
        for j in range(i + 1, len(graphs)):
            if graph_parts(graphs[i]) & graph_parts(graphs[j]):
                shares = True
    return mod, shares, None


def _shard(name, shard, nshards, tier, seed):
    if name == 'history':
        return c02._shard(name, shard, nshards, tier, seed + 1000)
    c = Corr(name)
    rng = np.random.default_rng([seed, shard, 19])
    n = (48 if tier == 'quick' else 1920) // nshards + 1
    ops, impls, sigs = [], [], []
    for _ in range(n):
        for nm, fn, args in call_cases(rng):
            mod, shares, exc = observe(fn, args)
            if exc is not None:
                c.skipped += 1
                continue
            ops.append({'op': 'heap.spec', 'fn': nm})
            impls.append({'ok': True, 'writes': mod, 'aliases': bool(shares)})
            sigs.append((nm, tuple(getattr(a, 'shape', None) or (tuple(a.bond_dims) if hasattr(a, 'bond_dims') else None) for a in args),
                         tuple(str(getattr(a, 'dtype', '')) or str(a.A[0].dtype) for a in args if hasattr(a, 'dtype') or hasattr(a, 'A'))))
    replies = common.drive(ops)
    for op, im, mo, sg in zip(ops, impls, replies, sigs):
        # in-place algorithms are *allowed* to write their target; an unmodified target (e.g. value-equal rewrite) is not a difference
        if mo.get('ok') and set(im['writes']) <= set(mo.get('writes', [])):
            im = dict(im, writes=mo['writes'])
        c.add(op, im, mo, cls=sg, branches=[sg[0]])
    return c


def correspondence(tier, seed):
    return [common.parallel_shards(_shard, 'history', tier, seed), common.parallel_shards(_shard, 'calls', tier, seed)]


# ----------------------------------------------------------------------------- oracle

def mutate_result(rng, res):
    """in-place follow-up mutations of a returned object"""
    if hasattr(res, 'A') and hasattr(res, 'qD'):
        k = int(rng.integers(0, 4))
        if k == 0:
            res.zero_qnumbers(); return 'zero_qnumbers()'
        if k == 1:
            for a in res.A:
                a *= 0
                a += 7
            for q in res.qD:
                if isinstance(q, np.ndarray):
                    q += 11
            res.qd += 3
            return 'in-place edits of all arrays'
        if k == 2:
            try:
                res.orthonormalize(mode='left')
            except Exception:
                pass
            return 'orthonormalize()'
        try:
            if hasattr(res, 'compress'):
                res.compress(0.1)
        except Exception:
            pass
        return 'compress()'
    return None   # plain arrays / numbers: the property does not forbid views (only MPS/MPO/graph results must be unshared)


def oracle_case(rng):
    for nm, fn, args in call_cases(rng):
        args = [copy.deepcopy(a) for a in args]
        before = [snap(a) for a in args]
        try:
            res = fn(*args)
        except Exception as ex:
            continue
        inplace = nm in ('MPS.orthonormalize', 'MPO.orthonormalize', 'MPS.compress', 'OpGraph.add')
        for i, a in enumerate(args):
            if snap(a) != before[i] and not (inplace and i == 0):
                return f'{nm}: argument {i} was modified by the call'
        if nm == 'OpGraph.add':
            # later in-place changes of the updated graph must not reach the other graph
            g, other = args
            try:
                g.flip(); g.rename_node_id(g.nid_terminal[0], 10 ** 6)
                for e in list(g.edges.values()):
                    e.opics = [(i, 2 * c) for i, c in e.opics]
            except Exception:
                pass
            if snap(other) != before[1]:
                return 'OpGraph.add: the other graph changed after later in-place edits of the updated graph (shared state)'
            if graph_parts(g) & graph_parts(other):
                return 'OpGraph.add: the updated graph shares node/edge objects with the other graph'
        if inplace:
            continue
        if type(res).__name__ == 'OpGraph' and nm.startswith('OpGraph.from_'):
            try:
                res.simplify()
                res.add(copy.deepcopy(res))
                res.flip()
                for e in res.edges.values():
                    e.opics.append((99, 1.0))
            except Exception:
                pass
            for i, a in enumerate(args):
                if snap(a) != before[i]:
                    return f'{nm}: argument {i} changed after simplify()/add()/flip()/in-place edits of the returned graph (shared state)'
            continue
        what = mutate_result(rng, res)
        if what is None:
            continue
        for i, a in enumerate(args):
            if snap(a) != before[i]:
                return f'{nm}: argument {i} changed after {what} on the result (shared state)'
    return None


def search(tier, seed, hints, budget_s):
    t0 = time.time()
    it = 0
    while time.time() - t0 < budget_s:
        r = oracle_case(np.random.default_rng([seed, 1919, it]))
        if r is not None:
            return {'key': f'c19:{r.split(":")[0]}', 'what': r,
                    'replay': {'call': 'harness.props.c19.oracle_case(np.random.default_rng([seed, 1919, it]))', 'seed': seed, 'it': it, 'observed': r}}
        it += 1
    # histories with real kernels: operands of every step unchanged
    return None


def replay(rp):
    if rp.get('kind') != 'failing-input':
        print('replay: no failing input recorded; obligations that no longer check:', json.dumps(rp.get('no_longer_checks'))[:2000])
        return 1
    r = rp['replay']
    res = oracle_case(np.random.default_rng([r['seed'], 1919, r['it']]))
    print('replay ->', res)
    return 1 if res else 0

"""
C04 — inner products, expectation values, environment blocks.
Correspondence (exact, no kernels): vdot, operator_average, operator_inner_product, operator_density_average,
compute_right_operator_blocks, contraction steps (left/right, with and without operator), apply_local_hamiltonian,
apply_local_bond_contraction against `PtnModel/Model/Operation.lean`.
Oracle (search only): dense references on random real/complex data.
"""
import json, time
import numpy as np
from .. import common, exact, gen, mpsgen
from ..common import Corr, py_call
from .c01 import dense_mps, dense_mpo
from .c03 import rnd_like

RULE = ('random MPS/MPO pairs with independent bra/ket bond profiles (L 1..4, d 1..3), dtypes int/float/complex (complex bra != ket), '
        'every site position for local maps; distinct = (op, L, d, bond profiles, dtypes)')


def t3(rng, shape, dt):
    return gen.exact_values(rng, shape, dt)


def _shard(name, shard, nshards, tier, seed):
    import pytenet as ptn
    from pytenet import operation as opn
    c = Corr(name)
    rng = np.random.default_rng([seed, shard, 4, sum(map(ord, name))])
    n = (300 if tier == 'quick' else 15000) // nshards + 1
    ops, impls, sigs = [], [], []

    def push(op, f, sig):
        try:
            r = py_call(f)
        except exact.Inexact:
            c.skipped += 1; return
        ops.append(op); impls.append(r); sigs.append(sig)
    for _ in range(n):
        try:
            dts = [str(rng.choice(['int', 'float', 'complex', 'complex'])) for _ in range(3)]
            if name == 'global':
                L = int(rng.integers(1, 5)); d = int(rng.integers(1, 4)); qd = mpsgen.rand_qd(rng, d)
                k = int(rng.integers(0, 4))
                psi = mpsgen.rand_mps(rng, L=L, qd=qd, maxD=3, dtype=dts[0])
                if k == 0:
                    # same sector as psi with a (possibly different) constant offset of the bond charges, or a different sector
                    off = int(rng.integers(-1, 2))
                    chi = mpsgen.rand_mps(rng, L=L, qd=qd, maxD=3, dtype=dts[1],
                                          boundary=(int(psi.qD[0][0]) + off, int(psi.qD[-1][0]) + off) if rng.random() < 0.7
                                          else (int(rng.integers(-1, 2)), int(psi.qD[-1][0])))
                    op = {'op': 'op.vdot', 'chi': mpsgen.enc_mp(chi), 'psi': mpsgen.enc_mp(psi)}
                    push(op, lambda chi=chi, psi=psi: {'val': exact.enc_scalar(ptn.vdot(chi, psi))}, ('vdot', L, d, tuple(chi.bond_dims), tuple(psi.bond_dims), dts[0] + dts[1]))
                elif k == 1:
                    o = mpsgen.rand_mpo(rng, L=min(L, 3), qd=qd, maxD=3, dtype=dts[2])
                    psi = mpsgen.rand_mps(rng, L=o.nsites, qd=qd, maxD=3, dtype=dts[0])
                    op = {'op': 'op.average', 'psi': mpsgen.enc_mp(psi), 'mpo': mpsgen.enc_mp(o)}
                    push(op, lambda psi=psi, o=o: {'val': exact.enc_scalar(ptn.operator_average(psi, o))}, ('average', o.nsites, d, tuple(psi.bond_dims), tuple(o.bond_dims), dts[0] + dts[2]))
                elif k == 2:
                    o = mpsgen.rand_mpo(rng, L=min(L, 3), qd=qd, maxD=3, dtype=dts[2])
                    psi = mpsgen.rand_mps(rng, L=o.nsites, qd=qd, maxD=3, dtype=dts[0])
                    chi = mpsgen.rand_mps(rng, L=o.nsites, qd=qd, maxD=3, dtype=dts[1])
                    op = {'op': 'op.inner', 'chi': mpsgen.enc_mp(chi), 'psi': mpsgen.enc_mp(psi), 'mpo': mpsgen.enc_mp(o)}
                    push(op, lambda psi=psi, o=o, chi=chi: {'val': exact.enc_scalar(ptn.operator_inner_product(chi, o, psi))},
                         ('inner', o.nsites, d, tuple(chi.bond_dims), tuple(psi.bond_dims), tuple(o.bond_dims), ''.join(dts)))
                else:
                    d = min(d, 2); qd = qd[:d]
                    a = mpsgen.rand_mpo(rng, L=min(L, 3), qd=qd, maxD=3, dtype=dts[0])
                    b = mpsgen.rand_mpo(rng, L=a.nsites, qd=qd, maxD=3, dtype=dts[1])
                    op = {'op': 'op.density', 'rho': mpsgen.enc_mp(a), 'mpo': mpsgen.enc_mp(b)}
                    push(op, lambda a=a, b=b: {'val': exact.enc_scalar(ptn.operator_density_average(a, b))}, ('density', a.nsites, d, tuple(a.bond_dims), tuple(b.bond_dims), dts[0] + dts[1]))
            elif name == 'blocks':
                L = int(rng.integers(1, 4)); d = int(rng.integers(1, 3)); qd = mpsgen.rand_qd(rng, d)
                psi = mpsgen.rand_mps(rng, L=L, qd=qd, maxD=3, dtype=dts[0]); o = mpsgen.rand_mpo(rng, L=L, qd=qd, maxD=3, dtype=dts[1])
                op = {'op': 'op.right_blocks', 'psi': mpsgen.enc_mp(psi), 'mpo': mpsgen.enc_mp(o)}
                push(op, lambda psi=psi, o=o: {'blocks': [exact.enc_array(b) for b in ptn.compute_right_operator_blocks(psi, o)]},
                     ('right_blocks', L, d, tuple(psi.bond_dims), tuple(o.bond_dims), dts[0] + dts[1]))
            else:
                d = int(rng.integers(1, 3)); a0, a1, b0, b1, w0, w1 = [int(x) for x in rng.integers(1, 4, 6)]
                A = t3(rng, (d, a0, a1), dts[0]); B = t3(rng, (d, b0, b1), dts[1]); W = gen.exact_values(rng, (d, d, w0, w1), dts[2])
                k = int(rng.integers(0, 6))
                if k == 0:
                    R = t3(rng, (a1, w1, b1), dts[2])
                    op = {'op': 'op.step_right', 'A': exact.enc_array(A), 'B': exact.enc_array(B), 'W': exact.enc_array(W), 'R': exact.enc_array(R)}
                    push(op, lambda A=A, B=B, W=W, R=R: {'T': exact.enc_array(opn.contraction_operator_step_right(A, B, W, R))}, ('step_right', d, a0, a1, b0, b1, w0, w1, ''.join(dts)))
                elif k == 1:
                    Lb = t3(rng, (a0, w0, b0), dts[2])
                    op = {'op': 'op.step_left', 'A': exact.enc_array(A), 'B': exact.enc_array(B), 'W': exact.enc_array(W), 'L': exact.enc_array(Lb)}
                    push(op, lambda A=A, B=B, W=W, Lb=Lb: {'T': exact.enc_array(opn.contraction_operator_step_left(A, B, W, Lb))}, ('step_left', d, a0, a1, b0, b1, w0, w1, ''.join(dts)))
                elif k == 2:
                    R = gen.exact_values(rng, (a1, b1), dts[2])
                    op = {'op': 'op.cstep_right', 'A': exact.enc_array(A), 'B': exact.enc_array(B), 'R': exact.enc_array(R)}
                    push(op, lambda A=A, B=B, R=R: {'T': exact.enc_array(opn.contraction_step_right(A, B, R))}, ('cstep_right', d, a0, a1, b0, b1, ''.join(dts)))
                elif k == 3:
                    Lb = gen.exact_values(rng, (a0, b0), dts[2])
                    op = {'op': 'op.cstep_left', 'A': exact.enc_array(A), 'B': exact.enc_array(B), 'L': exact.enc_array(Lb)}
                    push(op, lambda A=A, B=B, Lb=Lb: {'T': exact.enc_array(opn.contraction_step_left(A, B, Lb))}, ('cstep_left', d, a0, a1, b0, b1, ''.join(dts)))
                elif k == 4:
                    Lb = t3(rng, (a0, w0, b0), dts[1]); R = t3(rng, (a1, w1, b1), dts[2])
                    op = {'op': 'op.local_h', 'L': exact.enc_array(Lb), 'R': exact.enc_array(R), 'W': exact.enc_array(W), 'A': exact.enc_array(A)}
                    push(op, lambda A=A, W=W, Lb=Lb, R=R: {'T': exact.enc_array(opn.apply_local_hamiltonian(Lb, R, W, A))}, ('local_h', d, a0, a1, b0, b1, w0, w1, ''.join(dts)))
                else:
                    Lb = t3(rng, (a0, w0, b0), dts[1]); R = t3(rng, (a1, w0, b1), dts[2]); C = gen.exact_values(rng, (a0, a1), dts[0])
                    op = {'op': 'op.local_bond', 'L': exact.enc_array(Lb), 'R': exact.enc_array(R), 'C': exact.enc_array(C)}
                    push(op, lambda C=C, Lb=Lb, R=R: {'T': exact.enc_array(opn.apply_local_bond_contraction(Lb, R, C))}, ('local_bond', a0, a1, b0, b1, w0, ''.join(dts)))
        except exact.Inexact:
            c.skipped += 1
    replies = common.drive(ops)
    for op, im, mo, sg in zip(ops, impls, replies, sigs):
        br = [str(sg[0])]
        if not im['ok']:
            br.append('err=' + im['err'])
        c.add(op, im, mo, cls=sg, branches=br)
    return c


def correspondence(tier, seed):
    return [common.parallel_shards(_shard, nm, tier, seed) for nm in ('global', 'blocks', 'local')]


# ----------------------------------------------------------------------------- oracle

def full_state_with(psi, site, B, nsites=1):
    """dense vector of psi with the tensor(s) at `site` replaced by B (B is a one-site tensor, or the merged two-site tensor)"""
    import pytenet as ptn
    v = np.ones((1, 1), dtype=complex)
    i = 0
    while i < psi.nsites:
        if i == site:
            T = B.astype(complex); i += nsites
        else:
            T = psi.A[i].astype(complex); i += 1
        v = np.einsum('Sa,sab->Ssb', v, T).reshape(-1, T.shape[2])
    return v.reshape(-1)


def oracle_case(rng):
    import pytenet as ptn
    from pytenet import operation as opn
    k = int(rng.integers(0, 7))
    cplx = bool(rng.random() < 0.7)
    cplx2 = bool(rng.random() < 0.6)     # bra / second operand: real or complex independently of the ket
    L = int(rng.integers(1, 5)); d = int(rng.integers(1, 4)); qd = mpsgen.rand_qd(rng, d)
    tol = 1e-9
    try:
        psi = rnd_like(rng, mpsgen.rand_mps(rng, L=L, qd=qd, maxD=3), cplx)
        if k == 0:
            off = int(rng.integers(-1, 2))
            bnd = (int(psi.qD[0][0]) + off, int(psi.qD[-1][0]) + off) if rng.random() < 0.7 else (int(rng.integers(-1, 2)), int(psi.qD[-1][0]))
            chi = rnd_like(rng, mpsgen.rand_mps(rng, L=L, qd=qd, maxD=3, boundary=bnd), cplx2)
            ref = np.vdot(dense_mps(chi), dense_mps(psi))
            if abs(ptn.vdot(chi, psi) - ref) > tol * max(1, abs(ref)):
                return 'vdot(chi, psi) != <chi|psi> (first argument conjugated)'
            if abs(ptn.norm(psi) - np.linalg.norm(dense_mps(psi))) > tol * max(1, np.linalg.norm(dense_mps(psi))):
                return 'norm mismatch'
            return None
        L = min(L, 3); d = min(d, 2); qd = qd[:d]
        psi = rnd_like(rng, mpsgen.rand_mps(rng, L=L, qd=qd, maxD=3), cplx)
        chi = rnd_like(rng, mpsgen.rand_mps(rng, L=L, qd=qd, maxD=3), cplx2)
        o = rnd_like(rng, mpsgen.rand_mpo(rng, L=L, qd=qd, maxD=3), bool(rng.random() < 0.6))
        H = dense_mpo(o)
        if k == 1:
            ref = np.vdot(dense_mps(psi), H @ dense_mps(psi))
            return None if abs(ptn.operator_average(psi, o) - ref) <= tol * max(1, abs(ref)) else 'operator_average != <psi|H|psi>'
        if k == 2:
            chi = rnd_like(rng, mpsgen.rand_mps(rng, L=L, qd=qd, maxD=3, boundary=(int(rng.integers(-1, 2)), 0)), cplx2)
            # the two states must have the same trailing bond dimension (1)
            ref = np.vdot(dense_mps(chi), H @ dense_mps(psi))
            return None if abs(ptn.operator_inner_product(chi, o, psi) - ref) <= tol * max(1, abs(ref)) else 'operator_inner_product != <chi|H|psi>'
        if k == 3:
            rho = rnd_like(rng, mpsgen.rand_mpo(rng, L=L, qd=qd, maxD=3), cplx2)
            ref = np.trace(H @ dense_mpo(rho))
            return None if abs(ptn.operator_density_average(rho, o) - ref) <= tol * max(1, abs(ref)) else 'operator_density_average != tr(op rho)'
        # environments and local maps
        BR = ptn.compute_right_operator_blocks(psi, o)
        BL = [np.array([[[1]]], dtype=complex)]
        for i in range(L - 1):
            BL.append(opn.contraction_operator_step_left(psi.A[i], psi.A[i], o.A[i], BL[i]))
        if k == 4:
            i = int(rng.integers(0, L))
            A = psi.A[i]
            B = rng.standard_normal(A.shape) + (1j * rng.standard_normal(A.shape) if cplx else 0)
            lhs = np.vdot(B.reshape(-1), opn.apply_local_hamiltonian(BL[i], BR[i], o.A[i], A).reshape(-1))
            ref = np.vdot(full_state_with(psi, i, B), H @ dense_mps(psi))
            if abs(lhs - ref) > tol * max(1, abs(ref)):
                return f'one-site local Hamiltonian at site {i} is not the projection of H'
            return None
        if k == 5 and L >= 2:
            i = int(rng.integers(0, L - 1))
            Am = ptn.merge_mps_tensor_pair(psi.A[i], psi.A[i + 1]); Hm = ptn.merge_mpo_tensor_pair(o.A[i], o.A[i + 1])
            B = rng.standard_normal(Am.shape) + (1j * rng.standard_normal(Am.shape) if cplx else 0)
            lhs = np.vdot(B.reshape(-1), opn.apply_local_hamiltonian(BL[i], BR[i + 1], Hm, Am).reshape(-1))
            d_ = len(qd)
            B2 = B.reshape(d_, d_, B.shape[1], B.shape[2])
            # full state with the pair replaced by B: contract manually
            v = np.ones((1, 1), dtype=complex)
            for j in range(L):
                if j == i:
                    v = np.einsum('Sa,stab->Sstb', v, B2.astype(complex)).reshape(-1, B2.shape[3])
                elif j == i + 1:
                    continue
                else:
                    T = psi.A[j].astype(complex)
                    v = np.einsum('Sa,sab->Ssb', v, T).reshape(-1, T.shape[2])
            ref = np.vdot(v.reshape(-1), H @ dense_mps(psi))
            if abs(lhs - ref) > tol * max(1, abs(ref)):
                return f'two-site local Hamiltonian at sites {i},{i + 1} is not the projection of H'
            return None
        if k == 6 and L >= 2:
            i = int(rng.integers(0, L - 1))
            # bond map between sites i and i+1: psi with a matrix C inserted on bond i+1
            D = psi.A[i].shape[2]
            C = rng.standard_normal((D, D)) + (1j * rng.standard_normal((D, D)) if cplx else 0)
            Bm = rng.standard_normal((D, D)) + (1j * rng.standard_normal((D, D)) if cplx else 0)
            BLn = opn.contraction_operator_step_left(psi.A[i], psi.A[i], o.A[i], BL[i])
            lhs = np.vdot(Bm.reshape(-1), opn.apply_local_bond_contraction(BLn, BR[i], C).reshape(-1))

            def with_bond(M):
                v = np.ones((1, 1), dtype=complex)
                for j in range(L):
                    T = psi.A[j].astype(complex)
                    v = np.einsum('Sa,sab->Ssb', v, T).reshape(-1, T.shape[2])
                    if j == i:
                        v = v @ M
                return v.reshape(-1)
            ref = np.vdot(with_bond(Bm), H @ with_bond(C))
            if abs(lhs - ref) > tol * max(1, abs(ref)):
                return f'zero-site bond map at bond {i + 1} is not the projection of H'
            return None
    except Exception as ex:
        return f'raises {type(ex).__name__}: {ex}'
    return None


def search(tier, seed, hints, budget_s):
    t0 = time.time()
    it = 0
    while time.time() - t0 < budget_s:
        r = oracle_case(np.random.default_rng([seed, 404, it]))
        if r is not None:
            return {'key': f'c04:{seed}:{it}', 'what': r,
                    'replay': {'call': 'harness.props.c04.oracle_case(np.random.default_rng([seed, 404, it]))', 'seed': seed, 'it': it, 'observed': r}}
        it += 1
    return None


def replay(rp):
    if rp.get('kind') != 'failing-input':
        print('replay: no failing input recorded; obligations that no longer check:', json.dumps(rp.get('no_longer_checks'))[:2000])
        return 1
    r = rp['replay']
    res = oracle_case(np.random.default_rng([r['seed'], 404, r['it']]))
    print('replay ->', res)
    return 1 if res else 0

"""
C13 — compression and TT-SVD error bounds.
Correspondence: `MPS.compress` (both modes) under uninterpreted QR/SVD/norm/abs against `PtnModel/Model/MPSSvd.lean`
(exact comparison of tensors, charges, returned norm and scale); `MPS.from_vector` is covered by the C03 correspondence and re-run here with tol > 0.
Oracle (search only): real kernels, dense references, the bounds of the property text.
"""
import json, time
import numpy as np
from .. import common, exact, gen, kernels, mpsgen
from ..common import Corr, py_call
from .c01 import dense_mps

RULE = ('random sector-consistent MPS (L 1..5, d 1..3, D<=4), dtypes int/float/complex, both modes, tol in {0,1/8,1/4,1/2}; from_vector d<=3, n<=4 with tol>0; '
        'distinct = (op, mode, L, d, bond profile before, bond profile after, dtype, tol)')
TOLS = [0, 0, 0.125, 0.25, 0.5, 0.0625]


def _shard(name, shard, nshards, tier, seed):
    import pytenet as ptn
    c = Corr(name)
    rng = np.random.default_rng([seed, shard, 13, len(name)])
    n = (500 if tier == 'quick' else 25000) // nshards + 1
    ops, impls, sigs = [], [], []
    for _ in range(n):
        try:
            if name == 'mps.compress':
                m = mpsgen.rand_mps(rng, L=int(rng.integers(1, 6)), maxD=int(rng.integers(1, 5)), consistent=rng.random() < 0.9)
                mode = 'left' if rng.random() < 0.5 else 'right'
                tol = float(rng.choice(TOLS))
                op = {'op': 'mps.compress', 'mps': mpsgen.enc_mp(m), 'mode': mode, 'tol': exact.enc_real(tol)}
                before = tuple(m.bond_dims); dt = m.A[0].dtype.kind
                rec = kernels.Recorder()

                def f(m=m, mode=mode, tol=tol, rec=rec):
                    with kernels.patched(rec, ('bond_ops', 'mps')), kernels.patched_abs(rec):
                        nrm, sc = m.compress(tol, mode=mode)
                    return {'mps': mpsgen.enc_mp(m), 'nrm': exact.enc_real(nrm), 'scale': exact.enc_real(sc), 'wf': mpsgen.is_wf_mps(m)}
                r = py_call(f)
                if rec.inexact:
                    c.skipped += 1; continue
                op['kernels'] = rec.calls
                ops.append(op); impls.append(r)
                sigs.append(('compress', mode, len(before) - 1, len(m.qd), before, tuple(m.bond_dims) if r['ok'] else None, dt, tol))
            else:
                d = int(rng.integers(1, 4)); ns = int(rng.integers(1, 4 if d > 2 else 5))
                dt = str(rng.choice(['int', 'float', 'complex']))
                v = gen.exact_values(rng, (d ** ns,), dt)
                if rng.random() < 0.06:
                    v = np.zeros_like(v)    # the zero vector (F12: every singular value is discarded, dummy bond kept)
                tol = float(rng.choice([0.125, 0.25, 0.5, 0.0625]))
                rec = kernels.Recorder()

                def f(d=d, ns=ns, v=v, tol=tol, rec=rec):
                    with kernels.patched(rec, ('bond_ops', 'mps')):
                        m = ptn.MPS.from_vector(d, ns, v, tol=tol)
                    return {'mps': mpsgen.enc_mp(m), 'vec': [exact.enc_scalar(x) for x in m.as_vector()]}
                r = py_call(f)
                if rec.inexact:
                    c.skipped += 1; continue
                op = {'op': 'mps.from_vector', 'd': d, 'nsites': ns, 'v': [exact.enc_scalar(x) for x in v], 'tol': exact.enc_real(tol), 'kernels': rec.calls}
                ops.append(op); impls.append(r); sigs.append(('from_vector', d, ns, dt, tol, r.get('ok')))
        except exact.Inexact:
            c.skipped += 1
    replies = common.drive(ops)
    for op, im, mo, sg in zip(ops, impls, replies, sigs):
        br = [str(sg[0])]
        if sg[0] == 'compress':
            br += [sg[1], 'truncated' if sg[5] is not None and sg[5] != sg[4] else 'bonds unchanged']
        if not im['ok']:
            br.append('err=' + im['err'])
        c.add(op, im, mo, cls=sg, branches=br)
    return c


def correspondence(tier, seed):
    return [common.parallel_shards(_shard, nm, tier, seed) for nm in ('mps.compress', 'mps.from_vector.tol')]


# ----------------------------------------------------------------------------- oracle

def oracle_compress(m, tol, mode):
    import pytenet as ptn
    L = m.nsites
    v0 = dense_mps(m)
    n0 = np.linalg.norm(v0)
    D0 = list(m.bond_dims)
    try:
        nrm, scale = m.compress(tol, mode=mode)
    except Exception as ex:
        return f'raises {type(ex).__name__}: {ex}'
    if n0 == 0:
        return None
    eps = 1e-9
    if abs(nrm - n0) > eps * max(1, n0):
        return f'returned norm {nrm} differs from the norm of the original state {n0}'
    if not (np.sqrt(max(0.0, 1 - L * tol)) - eps <= scale <= 1 + eps):
        return f'scale {scale} outside [sqrt(1-L*tol), 1] = [{np.sqrt(max(0.0, 1 - L * tol))}, 1]'
    v1 = dense_mps(m)
    if abs(np.linalg.norm(v1) - 1) > eps:
        return f'compressed state has norm {np.linalg.norm(v1)}'
    if not mpsgen.is_wf_mps(m):
        return 'compressed state is not block sparse w.r.t. its quantum numbers'
    D1 = list(m.bond_dims)
    if any(a > b for a, b in zip(D1, D0)):
        return f'bond dimensions grew: {D0} -> {D1}'
    for i, A in enumerate(m.A):
        Ac = A.astype(complex)
        if mode == 'left':
            M = Ac.reshape(-1, Ac.shape[2]); G = M.conj().T @ M
        else:
            M = Ac.transpose(1, 0, 2).reshape(Ac.shape[1], -1); G = M @ M.conj().T
        if np.abs(G - np.identity(G.shape[0])).max() > 1e-8:
            return f'site tensor {i} of the compressed state is not an isometry ({mode}-canonical form expected)'
    # the first truncated bond keeps exactly the Schmidt values prescribed by the tolerance rule
    if L >= 2:
        d = len(m.qd)
        cut = 1 if mode == 'left' else L - 1
        M = (v0 / n0).reshape(d ** cut, -1)
        sv = np.linalg.svd(M, compute_uv=False)
        w = np.sort(sv ** 2)                      # ascending weights
        cum = np.cumsum(w)
        # number kept by the rule; undecidable when a cumulative weight is within rounding of tol
        if not np.any(np.abs(cum - tol) < 1e-9):
            keep = int(np.sum(cum > tol))
            if D1[cut] != keep and keep >= 1:
                return f'bond {cut} (the first truncated one) keeps {D1[cut]} Schmidt values, the tolerance rule prescribes {keep}'
    err = np.linalg.norm(nrm * scale * v1 - v0)
    expect = nrm * np.sqrt(max(0.0, 1 - scale ** 2))
    if abs(err - expect) > 1e-7 * max(1, n0):
        return f'|nrm*scale*new - old| = {err:.6g} but nrm*sqrt(1-scale^2) = {expect:.6g}'
    if err > n0 * np.sqrt(L * tol) + 1e-8 * max(1, n0):
        return f'error {err:.6g} exceeds norm*sqrt(L*tol) = {n0 * np.sqrt(L * tol):.6g}'
    if tol == 0 and err > 1e-8 * max(1, n0):
        return 'zero tolerance compression is not exact'
    return None


def oracle_from_vector(d, ns, v, tol):
    import pytenet as ptn
    try:
        m = ptn.MPS.from_vector(d, ns, v, tol=tol)
    except Exception as ex:
        return f'raises {type(ex).__name__}: {ex}'
    err = np.linalg.norm(dense_mps(m) - v)
    if err > np.linalg.norm(v) * np.sqrt(ns * tol) + 1e-9 * max(1, np.linalg.norm(v)):
        return f'from_vector error {err:.6g} exceeds sqrt(L*tol) * |v| = {np.sqrt(ns * tol) * np.linalg.norm(v):.6g}'
    return None


def degenerate_vector(rng, d, ns):
    """vectors whose Schmidt spectra contain groups of *bitwise equal* values (GHZ-like, Bell pairs, stair-cases)"""
    n = d ** ns
    v = np.zeros(n)
    k = int(rng.integers(0, 3))
    if k == 0:      # GHZ-like: |00..0> + |11..1> + ...
        for x in range(d):
            v[sum(x * d ** j for j in range(ns))] = 1.0
    elif k == 1:    # one dominant weight plus a group of equal small weights on "diagonal" configurations
        idx = rng.permutation(n)[:min(n, int(rng.integers(3, 8)))]
        v[idx] = np.sqrt(0.1)
        v[idx[0]] = np.sqrt(0.5)
    else:           # stair-case: equal weights in groups
        idx = rng.permutation(n)[:min(n, 6)]
        v[idx] = np.array([2, 2, 1, 1, 1, 0.5])[:len(idx)]
    # apply random local sign flips / permutations of the local basis (keeps the Schmidt spectrum bitwise equal)
    return v


def oracle_structured(rng):
    import pytenet as ptn
    d = int(rng.integers(2, 4)); ns = int(rng.integers(2, 5 if d == 2 else 4))
    v = degenerate_vector(rng, d, ns)
    if np.linalg.norm(v) == 0:
        return None
    tol = float(rng.choice([0.05, 0.12, 0.2, 0.26, 0.3])) / 1.0
    if tol * ns >= 1:
        tol = 0.9 / ns / 2
    r = oracle_from_vector(d, ns, v, tol)
    if r:
        return r
    for mode in ('left', 'right'):
        m = ptn.MPS.from_vector(d, ns, v, tol=0)
        r = oracle_compress(m, tol, mode)
        if r:
            return r
    return None


def oracle_case(rng):
    cplx = bool(rng.random() < 0.5)
    if rng.random() < 0.25:
        return oracle_structured(rng)
    if rng.random() < 0.75:
        from .c03 import rnd_like
        L = int(rng.integers(1, 6))
        m = rnd_like(rng, mpsgen.rand_mps(rng, L=L, maxD=int(rng.integers(1, 6))), cplx)
        if rng.random() < 0.3:
            # low-entanglement structure: scale tensors to get decaying spectra
            for i in range(m.nsites):
                m.A[i] = m.A[i] * (0.1 ** np.arange(m.A[i].shape[2]))[None, None, :]
        tol = float(rng.choice([0, 1e-12, 1e-6, 1e-3, 0.01, 0.1, 0.9 / L]))
        mode = 'left' if rng.random() < 0.5 else 'right'
        if np.linalg.norm(dense_mps(m)) == 0:
            return None
        return oracle_compress(m, tol, mode)
    d = int(rng.integers(1, 4)); ns = int(rng.integers(1, 5))
    v = rng.standard_normal(d ** ns) + (1j * rng.standard_normal(d ** ns) if cplx else 0)
    tol = float(rng.choice([0, 1e-6, 1e-2, 0.1, 0.9 / ns]))
    if rng.random() < 0.1:
        v = np.zeros_like(v)     # regression corpus of F12 (zero vector: the bound reads 0 <= 0)
    return oracle_from_vector(d, ns, v, tol)


def search(tier, seed, hints, budget_s):
    t0 = time.time()
    it = 0
    while time.time() - t0 < budget_s:
        r = oracle_case(np.random.default_rng([seed, 1313, it]))
        if r is not None:
            return {'key': f'c13:{seed}:{it}', 'what': r,
                    'replay': {'call': 'harness.props.c13.oracle_case(np.random.default_rng([seed, 1313, it]))', 'seed': seed, 'it': it, 'observed': r}}
        it += 1
    return None


def replay(rp):
    if rp.get('kind') != 'failing-input':
        print('replay: no failing input recorded; obligations that no longer check:', json.dumps(rp.get('no_longer_checks'))[:2000])
        return 1
    r = rp['replay']
    res = oracle_case(np.random.default_rng([r['seed'], 1313, r['it']]))
    print('replay ->', res)
    return 1 if res else 0

"""
C18 — bipartite matching is maximum, derived vertex cover is minimum.

Correspondence: `bipartite_graph.py` (BipartiteGraph ctor, HopcroftKarp incl. final internal state,
minimum_vertex_cover) against `PtnModel/Model/Bipartite.lean`, exact comparison.
Search oracle: brute-force (Kuhn) maximum matching + explicit validity checks, written from the property text.
"""
import itertools, json
import numpy as np
from .. import common
from ..common import Corr, py_call, with_alarm, CaseTimeout

RULE = ('exhaustive: all edge sets (canonical edge order) for every partition size up to 4x4 (quick) / 5x5 sampled or full (thorough); '
        'plus random graphs up to 60x60 with shuffled, duplicated and out-of-range edges; '
        'non-trivial = at least one edge; distinct = distinct (num_u, num_v, edge list)')


def impl_hk(nu, nv, edges):
    import pytenet as ptn
    from pytenet.bipartite_graph import BipartiteGraph, HopcroftKarp, minimum_vertex_cover

    def f():
        g = BipartiteGraph(nu, nv, edges)
        hk = HopcroftKarp(g)
        m = hk()
        if (nu + nv + len(edges)) % 2 == 1:
            # repeated call on the same solver object: `__call__` resets its internal data, so the result (and the final
            # internal state) must be that of a fresh run, which is what the model computes
            m = hk()
        return {'matching': [[int(u), int(v)] for u, v in m],
                'mu': [int(x) for x in hk.matched_pairs_u], 'mv': [int(x) for x in hk.matched_pairs_v],
                'du': [int(hk.dist[u]) for u in range(nu)], 'dnil': int(hk.dist[-1])}
    return py_call(lambda: with_alarm(5.0, f))


def impl_mvc(nu, nv, edges):
    from pytenet.bipartite_graph import BipartiteGraph, minimum_vertex_cover

    def f():
        g = BipartiteGraph(nu, nv, edges)
        uc, vc = minimum_vertex_cover(g)
        return {'u_cover': [int(x) for x in uc], 'v_cover': [int(x) for x in vc]}
    return py_call(lambda: with_alarm(5.0, f))


def impl_graph(nu, nv, edges):
    from pytenet.bipartite_graph import BipartiteGraph

    def f():
        g = BipartiteGraph(nu, nv, edges)
        return {'adj_u': [list(map(int, a)) for a in g.adj_u], 'adj_v': [list(map(int, a)) for a in g.adj_v]}
    return py_call(f)


def exhaustive_cases(maxn):
    for nu in range(1, maxn + 1):
        for nv in range(1, maxn + 1):
            alle = [(u, v) for u in range(nu) for v in range(nv)]
            for mask in range(1 << len(alle)):
                yield nu, nv, [list(alle[k]) for k in range(len(alle)) if mask >> k & 1]


def random_cases(rng, n, maxdim):
    for _ in range(n):
        nu = int(rng.integers(1, maxdim + 1)); nv = int(rng.integers(1, maxdim + 1))
        dens = float(rng.choice([0.02, 0.05, 0.1, 0.2, 0.5, 0.9]))
        kind = rng.integers(0, 10)
        edges = [[u, v] for u in range(nu) for v in range(nv) if rng.random() < dens]
        if kind >= 3:
            rng.shuffle(edges)
        if kind >= 6 and edges:
            # duplicates
            edges = edges + [edges[int(i)] for i in rng.integers(0, len(edges), max(1, len(edges) // 3))]
        if kind == 9:
            # long augmenting paths: a path graph plus noise, order scrambled
            k = min(nu, nv)
            edges = [[i, i] for i in range(k)] + [[i + 1, i] for i in range(k - 1)] + edges[:3]
            rng.shuffle(edges)
        yield nu, nv, [list(map(int, e)) for e in edges]


def malformed_cases(rng, n):
    for _ in range(n):
        nu = int(rng.integers(-1, 4)); nv = int(rng.integers(-1, 4))
        edges = [[int(rng.integers(-1, 5)), int(rng.integers(-1, 5))] for _ in range(int(rng.integers(0, 5)))]
        yield nu, nv, edges


def _corr_shard(name, shard, nshards, tier, seed):
    c = Corr(name)
    rng = np.random.default_rng([seed, shard, 18])
    cases = []
    maxn = 4
    sample5 = 0
    if name == 'bipartite.exhaustive':
        for k, cs in enumerate(exhaustive_cases(maxn)):
            if k % nshards == shard:
                cases.append(cs)
        if tier == 'thorough':
            # 5x5: every graph whose 25-bit mask is congruent to the seed modulo 16 (a 1/16 slice; all slices over seeds 0..15)
            alle = [(u, v) for u in range(5) for v in range(5)]
            step = 16 * nshards
            start = (seed % 16) + 16 * shard
            for mask in range(start, 1 << 25, step * 8):
                cases.append((5, 5, [list(alle[k]) for k in range(25) if mask >> k & 1]))
                sample5 += 1
    elif name == 'bipartite.random':
        n = (400 if tier == 'quick' else 40000) // nshards + 1
        cases = list(random_cases(rng, n, 12 if tier == 'quick' else 60))
        if shard == 0:
            cases += list(random_cases(rng, 20, 60))
    else:
        cases = list(malformed_cases(rng, (300 if tier == 'quick' else 3000) // nshards + 1))
    ops, impls = [], []
    for nu, nv, edges in cases:
        base = {'num_u': nu, 'num_v': nv, 'edges': edges}
        try:
            ops.append({'op': 'bip.hk', **base}); impls.append(impl_hk(nu, nv, edges))
            ops.append({'op': 'bip.mvc', **base}); impls.append(impl_mvc(nu, nv, edges))
            if name != 'bipartite.exhaustive':
                ops.append({'op': 'bip.graph', **base}); impls.append(impl_graph(nu, nv, edges))
        except CaseTimeout:
            while len(impls) < len(ops):
                impls.append({'ok': False, 'err': 'timeout'})
    replies = common.drive(ops)
    for op, im, mo in zip(ops, impls, replies):
        e = op['edges']
        cls = (op['op'], op['num_u'], op['num_v'], json.dumps(e)) if e else None
        br = []
        if im.get('ok') and 'matching' in im:
            br.append(f'matching={len(im["matching"])}' if len(im['matching']) < 6 else 'matching>=6')
        if not im.get('ok'):
            br.append('err=' + im.get('err', '?'))
        c.add(op, im, mo, cls=cls, branches=br)
    if sample5:
        c.notes.append(f'5x5 slice: {sample5} graphs in shard {shard}')
    return c


def correspondence(tier, seed):
    out = []
    for name in ('bipartite.exhaustive', 'bipartite.random', 'bipartite.malformed'):
        c = common.parallel_shards(_corr_shard, name, tier, seed)
        if name == 'bipartite.exhaustive':
            c.exhaustive = True
            c.notes.append('all edge sets for partitions up to 4x4 enumerated completely')
        out.append(c)
    return out


# ----------------------------------------------------------------------------- oracle (tests, used only after a break)

def kuhn_max_matching(nu, nv, edges):
    adj = [[] for _ in range(nu)]
    for u, v in edges:
        if v not in adj[u]:
            adj[u].append(v)
    mate = [-1] * nv

    def aug(u, seen):
        for v in adj[u]:
            if v in seen:
                continue
            seen.add(v)
            if mate[v] == -1 or aug(mate[v], seen):
                mate[v] = u
                return True
        return False
    return sum(1 for u in range(nu) if aug(u, set()))


def oracle(nu, nv, edges):
    """Returns None if the property holds on this graph, otherwise a description."""
    from pytenet.bipartite_graph import BipartiteGraph, HopcroftKarp, minimum_vertex_cover
    eset = {(u, v) for u, v in edges}
    try:
        g = BipartiteGraph(nu, nv, [tuple(e) for e in edges])
        hk_ = HopcroftKarp(g)
        m = with_alarm(5.0, lambda: hk_())
        m_again = with_alarm(5.0, lambda: hk_())
        if len(m_again) != len(m):
            return f'second call on the same HopcroftKarp object returns a matching of size {len(m_again)}, the first call {len(m)}'
        uc, vc = with_alarm(5.0, lambda: minimum_vertex_cover(g))
    except CaseTimeout:
        return 'does not terminate within 5 s'
    except Exception as ex:
        return f'raises {type(ex).__name__}: {ex}'
    mx = kuhn_max_matching(nu, nv, edges)
    if any((u, v) not in eset for u, v in m):
        return f'matching {m} contains a non-edge'
    if len({u for u, _ in m}) != len(m) or len({v for _, v in m}) != len(m):
        return f'matching {m} shares a vertex'
    if len(m) != mx:
        return f'matching size {len(m)} != maximum {mx}'
    if any(not (0 <= u < nu) for u in uc) or any(not (0 <= v < nv) for v in vc):
        return f'cover out of range {uc} {vc}'
    if len(set(uc)) != len(uc) or len(set(vc)) != len(vc):
        return f'cover has repeated vertices {uc} {vc}'
    if any(u not in uc and v not in vc for u, v in eset):
        return f'cover {uc},{vc} misses an edge'
    if len(uc) + len(vc) != mx:
        return f'cover size {len(uc) + len(vc)} != maximum matching {mx}'
    return None


def known_findings_present(k):
    """F17: the recursive DFS / alternating-path exploration exceeds CPython's recursion limit on a long augmenting path"""
    if k.get('key') != 'recursion-limit':
        return False
    import sys
    import pytenet as ptn
    if sys.getrecursionlimit() > 1100:
        return False        # the listed input is for the default limit of 1000
    try:
        def chain(n):
            edges = []
            for i in range(n):
                if i < n - 1:
                    edges.append((i, i + 1))
                edges.append((i, i))
            return ptn.BipartiteGraph(n, n, edges)
        ok = len(ptn.HopcroftKarp(chain(900))()) == 900
        hits = 0
        for f in (lambda g: ptn.HopcroftKarp(g)(), ptn.minimum_vertex_cover):
            try:
                f(chain(1200))
            except RecursionError:
                hits += 1
        return ok and hits == 2
    except Exception:
        return False


def search(tier, seed, hints, budget_s):
    import time
    t0 = time.time()
    cands = []
    for h in hints:
        if h['kind'] == 'correspondence' and isinstance(h['detail'], dict):
            op = h['detail']['op']
            cands.append((op['num_u'], op['num_v'], op['edges']))
    rng = np.random.default_rng([seed, 1818])

    def gen():
        yield from cands
        yield from exhaustive_cases(3)
        yield from random_cases(rng, 300, 10)
        yield from exhaustive_cases(4)
        while True:
            yield from random_cases(rng, 200, 40)
    for nu, nv, edges in gen():
        if nu < 1 or nv < 1 or any(not (0 <= u < nu and 0 <= v < nv) for u, v in edges):
            continue
        r = oracle(nu, nv, edges)
        if r is not None:
            return {'key': f'bip:{nu}x{nv}:{json.dumps(edges)}', 'what': r,
                    'replay': {'call': 'minimum_vertex_cover(BipartiteGraph(num_u, num_v, edges)) / HopcroftKarp(...)()',
                               'num_u': nu, 'num_v': nv, 'edges': edges, 'observed': r}}
        if time.time() - t0 > budget_s:
            return None
    return None


def replay(rp):
    if rp.get('kind') != 'failing-input':
        print('replay: no failing input recorded; obligations that no longer check:', json.dumps(rp.get('no_longer_checks'))[:2000])
        return 1
    r = rp['replay']
    res = oracle(r['num_u'], r['num_v'], r['edges'])
    print('replay', r['num_u'], r['num_v'], r['edges'], '->', res)
    return 1 if res else 0

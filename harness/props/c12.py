"""
C12 — block-sparse SVD split and truncation rule.
Correspondence: `bond_ops.retained_bond_indices` and `bond_ops.split_matrix_svd` under uninterpreted SVD (fake factors, singular values
from menus that put cumulative weights exactly onto tolerances) against `PtnModel/Model/BondOps.lean`; exact comparison.
Oracle (search only): real kernels, tolerance checks written from the property text.
"""
import json, time
from fractions import Fraction
import numpy as np
from .. import common, exact, gen, kernels
from ..common import Corr, py_call
from .c11 import dec_array, signature

RULE = ('retained_bond_indices on exact spectra (ties, zeros, cumulative weight equal to tol) and split_matrix_svd on random block-sparse matrices '
        'm,n<=6 (thorough <=9), dtypes int/float/complex, charge patterns as C11, tol in {0,1/8,1/4,1/2,3/4,...}, plus explicit all-zero '
        'matrices with shared charges (9 shapes x 3 dtypes x tol 0, 1/4, 15/16); '
        'distinct = (shape, dtype, charge pattern class, tol, #kept, #produced)')

TOLS = [0, 0, 0.25, 0.5, 0.75, 0.125, 0.0625, 0.375, 0.9375, 0.0009765625]
# regression corpus (finding fixed in /repo 204675d): all-zero matrices whose charge lists DO intersect; before the repair the
# block loop discarded every singular value and returned an intermediate dimension 0 (then a charge list of length 0 for an
# axis of size 1 downstream); now the dummy bond of dimension 1, as for disjoint charges.  (q0, q1) per shape.
ZERO_SHARED = [([0], [0]), ([1, 0], [0, 1, 0]), ([0, 0], [0, 0]), ([0, 1, 1], [1]), ([-1, 0, 1], [1, 0, -1, 0]),
               ([2, 0, 0, 1], [0, 3]), ([0, 1, 0, 1, 2], [2, 1, 1, 0, 0, 0]), ([1, 1, 1], [1, 1, 1, 1, 1, 1]), ([5, 0], [0])]
ZERO_TOLS = [0.0, 0.25, 0.9375]


def zero_shared_cases():
    for q0, q1 in ZERO_SHARED:
        for dt in (np.int64, float, complex):
            for tol in ZERO_TOLS:
                yield np.zeros((len(q0), len(q1)), dtype=dt), np.array(q0), np.array(q1), tol
SPECTRA = [[1, 1, 1, 1], [3, 4], [4, 3], [2, 1, 2], [1, 2, 2, 4], [4, 2, 2, 1], [0, 0, 0], [0, 2, 0], [1, 0, 0, 0], [2, 2, 1], [1], [0],
           [4, 4, 2], [1, 1, 1, 0], [2, 0, 0, 0], [6, 8, 0], [1, 1, 1, 1, 2, 2, 2, 2, 4, 4, 4, 4, 0, 0, 0, 0, 8]]


def impl_rbi(s, tol):
    from pytenet import bond_ops
    rec = kernels.Recorder()
    s0 = np.array(s, dtype=float)
    s1 = s0.copy()

    def f():
        with kernels.patched(rec, ('bond_ops',)):
            idx = bond_ops.retained_bond_indices(s1, tol)
        return {'idx': [int(i) for i in idx]}
    r = py_call(f)
    r['input_unchanged'] = bool(np.array_equal(s0, s1))
    return r, rec


def impl_svd(A, q0, q1, tol):
    from pytenet import bond_ops
    rec = kernels.Recorder()
    A0 = A.copy()

    def f():
        with kernels.patched(rec, ('bond_ops',)):
            u, s, v, q = bond_ops.split_matrix_svd(A, q0, q1, tol)
        return {'u': exact.enc_array(u), 's': exact.enc_reals(s), 'v': exact.enc_array(v), 'q': exact.enc_ints(q)}
    r = py_call(f)
    r['input_unchanged'] = bool(np.array_equal(A, A0))
    return r, rec


def check_rbi_exact(s, tol, rec):
    """all intermediate float operations of retained_bond_indices are exact on this input?"""
    w = None
    for c in rec.calls:
        if c['k'] == 'norm':
            w = c['out']
    if w is None or w == 0:
        return True
    wf = Fraction(w[0], w[1]) if isinstance(w, list) else Fraction(w)
    tot = Fraction(0)
    for x in s:
        fx = Fraction(float(x))
        y = (fx / wf) ** 2
        if float(y) != (float(x) / float(wf)) ** 2 or Fraction(float(y)) != y:
            return False
        tot += y
        if Fraction(float(tot)) != tot:
            return False
    return True


def _shard(name, shard, nshards, tier, seed):
    c = Corr(name)
    rng = np.random.default_rng([seed, shard, 12])
    ops, impls, sigs, zero = [], [], [], []
    if name == 'bond_ops.retained_bond_indices':
        n = (800 if tier == 'quick' else 40000) // nshards + 1
        for k in range(n):
            if rng.random() < 0.6:
                s = list(SPECTRA[int(rng.integers(len(SPECTRA)))])
                if rng.random() < 0.5:
                    rng.shuffle(s)
            else:
                s = list(rng.choice([0, 1, 2, 0.5, 4, 3], size=int(rng.integers(1, 7))))
            tol = float(rng.choice(TOLS))
            r, rec = impl_rbi(s, tol)
            if rec.inexact or not check_rbi_exact(s, tol, rec):
                c.skipped += 1
                continue
            try:
                op = {'op': 'bond.rbi', 's': exact.enc_reals(s), 'tol': exact.enc_real(tol), 'kernels': rec.calls}
            except exact.Inexact:
                c.skipped += 1
                continue
            ops.append(op); impls.append(r)
            sigs.append(('rbi', tuple(sorted(float(x) for x in s)), tol, len(r.get('idx', []))))
    else:
        from .c11 import gen_cases, gen_malformed
        n = (1200 if tier == 'quick' else 60000) // nshards + 1
        cases = list(gen_cases(rng, n, 6 if tier == 'quick' else 9, big=(tier == 'thorough'))) if name == 'bond_ops.split_matrix_svd' \
            else list(gen_malformed(rng, (150 if tier == 'quick' else 1500) // nshards + 1))
        if name == 'bond_ops.split_matrix_svd' and shard == 0:
            cases += list(zero_shared_cases())      # explicit tolerance, appended last: the random stream is unchanged
        for cs in cases:
            A, q0, q1 = cs[:3]
            tol = cs[3] if len(cs) > 3 else float(rng.choice(TOLS))
            try:
                r, rec = impl_svd(A, q0, q1, tol)
                if rec.inexact:
                    c.skipped += 1
                    continue
                # exactness of the truncation arithmetic
                svals = []
                for cl in rec.calls:
                    if cl['k'] == 'norm':
                        svals = [float(Fraction(*x)) if isinstance(x, list) else float(x) for x in cl['in']]
                if svals and not check_rbi_exact(svals, tol, rec):
                    c.skipped += 1
                    continue
                op = {'op': 'bond.svd', 'A': exact.enc_array(A), 'q0': exact.enc_ints(q0), 'q1': exact.enc_ints(q1),
                      'tol': exact.enc_real(tol), 'kernels': rec.calls}
            except exact.Inexact:
                c.skipped += 1
                continue
            ops.append(op); impls.append(r); zero.append(not np.any(A))
            sigs.append(signature(A, q0, q1) + (tol, len(r.get('s', [])), len(svals)))
    replies = common.drive(ops)
    zero += [False] * (len(ops) - len(zero))
    for op, im, mo, sg, zr in zip(ops, impls, replies, sigs, zero):
        mo = dict(mo); mo['input_unchanged'] = True
        br = []
        if op['op'] == 'bond.svd':
            br = ['disjoint' if sg[3] else 'shared', 'kept<produced' if im.get('ok') and sg[-2] < sg[-1] else 'kept=produced']
            if zr and not sg[3]:
                br.append('zero matrix, shared charges')
        else:
            br = ['none kept' if not im.get('idx') else ('all kept' if len(im['idx']) == len(op['s']) else 'truncated')]
        if not im['ok']:
            br.append('err=' + im['err'])
        c.add(op, im, mo, cls=sg, branches=br)
    return c


def correspondence(tier, seed):
    return [common.parallel_shards(_shard, nm, tier, seed)
            for nm in ('bond_ops.retained_bond_indices', 'bond_ops.split_matrix_svd', 'bond_ops.split_matrix_svd.malformed')]


# ----------------------------------------------------------------------------- oracle

def oracle_rule(s, tol):
    """truncation rule alone, exact rational arithmetic on the *result* of the implementation."""
    from pytenet import bond_ops
    s = np.array(s, dtype=float)
    s0 = s.copy()
    try:
        idx = [int(i) for i in bond_ops.retained_bond_indices(s, tol)]
    except Exception as ex:
        return f'raises {type(ex).__name__}: {ex}'
    if not np.array_equal(s, s0):
        return 'input singular values were modified'
    fs = [Fraction(float(x)) ** 2 for x in s0]
    tot = sum(fs)
    if tot == 0:
        return None if idx == [] else f'zero spectrum but kept {idx}'
    ft = Fraction(float(tol))
    kept = set(idx)
    if any(not (0 <= i < len(s0)) for i in idx) or len(kept) != len(idx):
        return f'invalid index list {idx}'
    disc = [i for i in range(len(s0)) if i not in kept]
    wd = sum(fs[i] for i in disc)
    if wd > ft * tot:
        return f'discarded relative weight {float(wd / tot)} exceeds tol {tol}'
    if kept and disc and min(fs[i] for i in kept) < max(fs[i] for i in disc):
        return 'a kept singular value is smaller than a discarded one'
    if any(s0[i] <= 0 for i in kept):
        return 'a kept singular value is not positive'
    if kept and wd + min(fs[i] for i in kept) <= ft * tot:
        return 'not maximal: discarding one more value would stay within the tolerance'
    return None


def oracle_split(A, q0, q1, tol):
    from pytenet import bond_ops
    from pytenet.qnumber import is_qsparse
    A0 = A.copy()
    try:
        u, s, v, q = bond_ops.split_matrix_svd(A, q0, q1, tol)
    except Exception as ex:
        return f'raises {type(ex).__name__}: {ex}'
    if not np.array_equal(A, A0):
        return 'input matrix was modified'
    Ac = A0.astype(complex)
    nrmA = np.linalg.norm(Ac)
    uc, vc = u.astype(complex), v.astype(complex)
    q = np.asarray(q)
    if u.shape[0] != A.shape[0] or v.shape[1] != A.shape[1] or u.shape[1] != len(s) or v.shape[0] != len(s) or len(q) != len(s):
        return f'inconsistent shapes u{u.shape} s{len(s)} v{v.shape} q{len(q)}'
    if nrmA == 0:
        return None if np.abs((uc * s) @ vc).max(initial=0) == 0 else 'zero matrix: product of factors is not zero'
    eps = 1e-10 * max(1.0, nrmA)
    if len(s) == 0:
        return 'non-zero matrix but no singular value kept'
    if np.abs(uc.conj().T @ uc - np.identity(len(s))).max() > 1e-10 or np.abs(vc @ vc.conj().T - np.identity(len(s))).max() > 1e-10:
        return 'factors are not isometries'
    if np.any(s <= 0):
        return 'non-positive singular value kept'
    if not is_qsparse(u, [np.asarray(q0), -q]) or not is_qsparse(v, [q, -np.asarray(q1)]):
        return 'factors are not block sparse w.r.t. the returned intermediate quantum numbers'
    full = np.linalg.svd(Ac, compute_uv=False)
    kept = np.sort(s)[::-1]
    # kept values must be the largest singular values of A
    if np.abs(full[:len(kept)] - kept).max() > 1e-9 * max(1.0, full[0]):
        return 'kept singular values are not the largest singular values of the matrix'
    disc = full[len(kept):]
    err = np.linalg.norm((uc * s) @ vc - Ac)
    if abs(err - np.linalg.norm(disc)) > 1e-9 * max(1.0, nrmA):
        return f'approximation error {err:.6g} differs from sqrt(sum of discarded squares) {np.linalg.norm(disc):.6g}'
    wrel = float(np.sum(disc ** 2) / np.sum(full ** 2))
    if wrel > tol + 1e-9:
        return f'discarded relative weight {wrel} exceeds tol {tol}'
    if len(kept) and (np.sum(disc ** 2) + kept[-1] ** 2) / np.sum(full ** 2) < tol - 1e-9:
        return 'not maximal: one more singular value could be discarded within the tolerance'
    if tol == 0 and err > 1e-9 * max(1.0, nrmA):
        return 'zero tolerance does not reproduce the matrix'
    return None


def search(tier, seed, hints, budget_s):
    from .c11 import gen_cases
    t0 = time.time()
    rng = np.random.default_rng([seed, 1212])
    cands_rule, cands_split = [], []
    for h in hints:
        if h['kind'] == 'correspondence' and isinstance(h['detail'], dict):
            op = h['detail']['op']
            if op.get('op') == 'bond.rbi':
                cands_rule.append(([float(Fraction(*x)) if isinstance(x, list) else float(x) for x in op['s']],
                                   float(Fraction(*op['tol'])) if isinstance(op['tol'], list) else float(op['tol'])))
            if op.get('op') == 'bond.svd':
                tol = float(Fraction(*op['tol'])) if isinstance(op['tol'], list) else float(op['tol'])
                cands_split.append((dec_array(op['A']), np.array(op['q0'], dtype=int), np.array(op['q1'], dtype=int), tol))
    for s, tol in cands_rule + [(sp, t) for sp in SPECTRA for t in TOLS]:
        r = oracle_rule(s, tol)
        if r is not None:
            return {'key': 'rbi:' + json.dumps([list(map(float, s)), tol]), 'what': r,
                    'replay': {'call': 'pytenet.bond_ops.retained_bond_indices(np.array(s), tol)', 'kind': 'rule', 's': list(map(float, s)), 'tol': tol, 'observed': r}}

    def gen_all():
        for A, q0, q1, tol in cands_split:
            yield A, q0, q1, tol
            # same charge layout, generic real/complex entries, real kernels
            for _ in range(5):
                B = rng.standard_normal(A.shape) + (1j * rng.standard_normal(A.shape) if rng.random() < 0.5 else 0)
                yield np.where(np.equal.outer(q0, q1), B, 0), q0, q1, tol
        while True:
            for A, q0, q1 in gen_cases(rng, 100, 6):
                tol = float(rng.choice(TOLS))
                yield A, q0, q1, tol
                B = rng.standard_normal(A.shape)
                yield np.where(np.equal.outer(q0, q1), B, 0), q0, q1, tol
    for A, q0, q1, tol in gen_all():
        if len(q0) != A.shape[0] or len(q1) != A.shape[1] or np.any(np.where(np.equal.outer(q0, q1), 0, A)):
            continue
        r = oracle_split(A, q0, q1, tol)
        if r is not None:
            cplx = np.iscomplexobj(A)
            return {'key': 'svd:' + json.dumps([str(A.tolist()), q0.tolist(), q1.tolist(), tol]), 'what': r,
                    'replay': {'call': 'pytenet.bond_ops.split_matrix_svd(A, q0, q1, tol)', 'kind': 'split',
                               'A_re': np.real(A).tolist(), 'A_im': np.imag(A).tolist() if cplx else None, 'dtype': str(A.dtype),
                               'q0': q0.tolist(), 'q1': q1.tolist(), 'tol': tol, 'observed': r}}
        if time.time() - t0 > budget_s:
            return None


def replay(rp):
    if rp.get('kind') != 'failing-input':
        print('replay: no failing input recorded; obligations that no longer check:', json.dumps(rp.get('no_longer_checks'))[:2000])
        return 1
    r = rp['replay']
    if r['kind'] == 'rule':
        res = oracle_rule(r['s'], r['tol'])
    else:
        A = np.array(r['A_re'], dtype=float)
        if r['A_im'] is not None:
            A = A + 1j * np.array(r['A_im'])
        A = A.astype(np.dtype(r['dtype']))
        res = oracle_split(A, np.array(r['q0'], dtype=int), np.array(r['q1'], dtype=int), r['tol'])
    print('replay ->', res)
    return 1 if res else 0

"""
C01 — orthonormalization of MPS / MPO.
Correspondence: `MPS.orthonormalize`, `MPO.orthonormalize` (both modes) under uninterpreted QR against
`PtnModel/Model/MPS.lean` / `MPO.lean`; exact comparison of every tensor, every bond charge list and the returned factor.
Oracle (search only): real kernels, dense reference, tolerance checks from the property text.
"""
import json, time
import numpy as np
from .. import common, exact, gen, kernels, mpsgen
from ..common import Corr, py_call

RULE = ('random sector-consistent MPS (L 1..5, d 1..3, D<=3..4) and MPO (L 1..3, d 1..2), dtypes int/float/complex, both modes; '
        'includes zero-sector states (dummy bonds), L=1, d=1, negative trailing R (sign flip); '
        'distinct = (class, mode, L, d, bond profile, dtype, sign flip?, any dummy bond?)')


def impl_ortho(obj, mode):
    rec = kernels.Recorder()

    def f():
        with kernels.patched(rec, ('bond_ops', 'mps', 'mpo') if hasattr(obj.A[0], 'ndim') and obj.A[0].ndim == 4 else ('bond_ops', 'mps')):
            nrm = obj.orthonormalize(mode=mode)
        key = 'mpo' if obj.A[0].ndim == 4 else 'mps'
        wf = mpsgen.is_wf_mpo(obj) if key == 'mpo' else mpsgen.is_wf_mps(obj)
        return {key: mpsgen.enc_mp(obj), 'nrm': exact.enc_real(nrm), 'wf': wf}
    return py_call(f), rec


def _shard(name, shard, nshards, tier, seed):
    c = Corr(name)
    rng = np.random.default_rng([seed, shard, 1])
    n = ((600 if name == 'mps.orthonormalize' else 300) if tier == 'quick' else (30000 if name == "mps.orthonormalize" else 12000)) // nshards + 1
    ops, impls, sigs = [], [], []
    for _ in range(n):
        mode = 'left' if rng.random() < 0.5 else 'right'
        cons = rng.random() < 0.85
        if name == 'mps.orthonormalize':
            obj = mpsgen.rand_mps(rng, L=int(rng.integers(1, 6 if tier == 'quick' else 7)), maxD=int(rng.integers(1, 5)), consistent=cons)
            key = 'mps'
        else:
            obj = mpsgen.rand_mpo(rng, L=int(rng.integers(1, 4)), maxD=int(rng.integers(1, 4)), consistent=cons)
            key = 'mpo'
        try:
            op = {'op': name, key: mpsgen.enc_mp(obj), 'mode': mode}
            dt = obj.A[0].dtype.kind
            dims = tuple(len(q) for q in obj.qD)
            r, rec = impl_ortho(obj, mode)
            if rec.inexact:
                c.skipped += 1; continue
            op['kernels'] = rec.calls
        except exact.Inexact:
            c.skipped += 1; continue
        ops.append(op); impls.append(r)
        nq = sum(1 for k in rec.calls if k['k'] == 'qr')
        sigs.append((key, mode, len(dims) - 1, len(obj.qd), dims, dt, nq < len(dims) - 1))
    replies = common.drive(ops)
    for op, im, mo, sg in zip(ops, impls, replies, sigs):
        br = [sg[1], 'dtype=' + sg[5], 'dummy-bond' if sg[6] else 'all-shared', f'L={sg[2]}']
        if not im['ok']:
            br.append('err=' + im['err'])
        c.add(op, im, mo, cls=sg, branches=br)
    return c


def correspondence(tier, seed):
    return [common.parallel_shards(_shard, nm, tier, seed) for nm in ('mps.orthonormalize', 'mpo.orthonormalize')]


# ----------------------------------------------------------------------------- oracle

def dense_mps(m):
    v = np.ones((1,), dtype=complex).reshape(1, 1)
    # v[S, b]
    for A in m.A:
        v = np.einsum('Sa,sab->Ssb', v, A.astype(complex)).reshape(-1, A.shape[2])
    return v.reshape(-1)


def dense_mpo(m):
    v = np.ones((1, 1, 1), dtype=complex)
    for A in m.A:
        v = np.einsum('STa,stab->SsTtb', v, A.astype(complex))
        v = v.reshape(v.shape[0] * v.shape[1], v.shape[2] * v.shape[3], v.shape[4])
    return v[:, :, 0]


def oracle(obj, mode):
    ismpo = obj.A[0].ndim == 4
    dense = dense_mpo if ismpo else dense_mps
    v0 = dense(obj)
    D0 = [len(q) for q in obj.qD]
    try:
        nrm = obj.orthonormalize(mode=mode)
    except Exception as ex:
        return f'raises {type(ex).__name__}: {ex}'
    n0 = np.linalg.norm(v0)
    tol = 1e-9 * max(1.0, n0)
    if not (np.isreal(nrm) and nrm >= 0):
        return f'returned factor {nrm!r} is not a non-negative real'
    if abs(nrm - n0) > tol:
        return f'returned factor {nrm} differs from the norm {n0}'
    v1 = dense(obj)
    if np.abs(nrm * v1 - v0).max() > tol:
        return f'factor * new dense object differs from the original by {np.abs(nrm * v1 - v0).max():.3g}'
    if n0 > 0 and abs(np.linalg.norm(v1) - 1) > 1e-9:
        return f'new object has norm {np.linalg.norm(v1)} instead of 1'
    wf = mpsgen.is_wf_mpo(obj) if ismpo else mpsgen.is_wf_mps(obj)
    if not wf:
        return 'result is not block sparse w.r.t. its quantum numbers (or a charge list has the wrong length)'
    d = len(obj.qd) ** (2 if ismpo else 1)
    for i, A in enumerate(obj.A):
        Ac = A.astype(complex)
        if mode == 'left':
            M = Ac.reshape(-1, Ac.shape[-1])
            G = M.conj().T @ M
        else:
            M = np.moveaxis(Ac, -2, 0).reshape(Ac.shape[-2], -1)
            G = M @ M.conj().T
        if np.abs(G - np.identity(G.shape[0])).max() > 1e-9:
            return f'site tensor {i} is not an isometry in mode {mode}'
    D1 = [len(q) for q in obj.qD]
    if D1[0] != 1 or D1[-1] != 1:
        return f'boundary bond dimensions {D1[0]}, {D1[-1]}'
    if mode == 'left':
        for i in range(len(obj.A)):
            if D1[i + 1] > min(d * D1[i], D0[i + 1]):
                return f'bond {i + 1} has dimension {D1[i + 1]} > min(d*{D1[i]}, {D0[i + 1]})'
    else:
        for i in reversed(range(len(obj.A))):
            if D1[i] > min(d * D1[i + 1], D0[i]):
                return f'bond {i} has dimension {D1[i]} > min(d*{D1[i + 1]}, {D0[i]})'
    return None


def search(tier, seed, hints, budget_s):
    t0 = time.time()
    rng = np.random.default_rng([seed, 101])
    it = 0
    while time.time() - t0 < budget_s:
        it += 1
        mode = 'left' if rng.random() < 0.5 else 'right'
        dtype = str(rng.choice(['int', 'float', 'complex']))
        if rng.random() < 0.6:
            obj = mpsgen.rand_mps(rng, L=int(rng.integers(1, 5)), maxD=int(rng.integers(1, 4)), dtype=dtype, consistent=rng.random() < 0.85)
            cp = mpsgen.copy_mps(obj)
        else:
            obj = mpsgen.rand_mpo(rng, L=int(rng.integers(1, 4)), maxD=int(rng.integers(1, 4)), dtype=dtype, consistent=rng.random() < 0.85)
            cp = mpsgen.copy_mpo(obj)
        r = oracle(obj, mode)
        if r is not None:
            return {'key': f'ortho:{mode}:' + json.dumps(mpsgen.enc_mp(cp))[:400], 'what': r,
                    'replay': {'call': f'obj.orthonormalize(mode={mode!r})', 'class': 'MPO' if cp.A[0].ndim == 4 else 'MPS', 'mode': mode,
                               'dtype': str(cp.A[0].dtype), 'obj': mpsgen.enc_mp(cp), 'observed': r}}
    return None


def build_obj(cls, enc, dtype):
    import pytenet as ptn
    from .c11 import dec_array
    C = ptn.MPO if cls == 'MPO' else ptn.MPS
    o = C(np.array(enc['qd'], dtype=int), [np.array(q, dtype=int) for q in enc['qD']], fill='postpone')
    o.A = [dec_array(a).astype(np.dtype(dtype)) for a in enc['A']]
    return o


def replay(rp):
    if rp.get('kind') != 'failing-input':
        print('replay: no failing input recorded; obligations that no longer check:', json.dumps(rp.get('no_longer_checks'))[:2000])
        return 1
    r = rp['replay']
    res = oracle(build_obj(r['class'], r['obj'], r['dtype']), r['mode'])
    print('replay ->', res)
    return 1 if res else 0

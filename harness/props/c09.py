"""
C09 — TDVP is exact on a complete manifold and exactly time-reversible.
Correspondence: as C08 (whole TDVP calls under uninterpreted kernels, real / imaginary / complex dt, 1..2 steps) against `Model/Evolution.lean`.
Oracle (search only): real kernels; (i) complete manifold + enough Krylov iterations: result == expm(-dt*n*H) applied to the normalized start;
(ii) single-site forward/backward steps with exact local exponentials return the initial state (times the norm reported by the second call).
"""
import json, time
import numpy as np
from .. import evolib, mpsgen
from .c01 import dense_mps, dense_mpo

RULE = evolib.__doc__ and ('as C08; emphasis on dt in {real, imaginary, complex}; distinct = (integrator, L, bond profile, numiter, numsteps, dt, tol, outcome, kernel-call profile)')
correspondence = evolib.corr_tdvp


def full_mps(rng, L, qd, cplx=True, fat=False):
    """random state with maximal (or, with `fat`, over-complete) bond dimensions, all charges zero (complete manifold)"""
    import pytenet as ptn
    d = len(qd)
    D = [min(d ** i, d ** (L - i)) for i in range(L + 1)]
    if fat:
        D = [D[i] + (int(rng.integers(0, 3)) if 0 < i < L else 0) for i in range(L + 1)]
    psi = ptn.MPS(np.zeros(d, dtype=int), [np.zeros(Di, dtype=int) for Di in D], fill='postpone')
    psi.A = [rng.standard_normal((d, D[i], D[i + 1])) + (1j * rng.standard_normal((d, D[i], D[i + 1])) if cplx else 0) for i in range(L)]
    return psi


def sector_state(rng, L, qd, qtot, cplx=True):
    """generic state of the charge sector `qtot` with the maximal bond dimensions of that sector: every left configuration
    gets a bond state of its own, then both orthonormalisation sweeps reduce each charge block of each bond to
    min(#left configurations, #right configurations); None if the sector is empty"""
    import pytenet as ptn
    qd = np.asarray(qd)
    qD = [np.array([0])]
    for _ in range(L - 1):
        qD.append(np.sort((qD[-1][:, None] + qd[None, :]).reshape(-1)))
    qD.append(np.array([qtot]))
    psi = ptn.MPS(qd, qD, fill='postpone')
    for i in range(L):
        shape = (len(qd), len(qD[i]), len(qD[i + 1]))
        A = rng.standard_normal(shape) + (1j * rng.standard_normal(shape) if cplx else 0)
        psi.A[i] = np.where(ptn.qnumber_outer_sum([psi.qd, psi.qD[i], -psi.qD[i + 1]]) == 0, A, 0)
    if not np.any(dense_mps(psi)):
        return None
    psi.orthonormalize(mode='left')
    psi.orthonormalize(mode='right')
    return psi


def _count(qd, n):
    """{charge: number of configurations of n sites with that total charge}"""
    c = {0: 1}
    for _ in range(n):
        c2 = {}
        for q, m in c.items():
            for x in qd:
                c2[q + int(x)] = c2.get(q + int(x), 0) + m
        c = c2
    return c


def bond_kinds(psi):
    """for every interior bond b: (complete, left-complete, right-complete).  With l(q) / r(q) the number of left / right
    configurations compatible with bond charge q in the state's sector, the charge block q of a complete bond has
    dimension min(l, r); the bond is left-complete if every block has dimension l(q) (the left basis spans all left
    configurations of the sector), right-complete if every block has dimension r(q)."""
    L = len(psi.A)
    q0, qL = int(psi.qD[0][0]), int(psi.qD[L][0])
    out = []
    for b in range(1, L):
        lc = {q + q0: m for q, m in _count(psi.qd, b).items()}
        rc = {qL - q: m for q, m in _count(psi.qd, L - b).items()}
        qs = [q for q in lc if q in rc]
        D = {q: int(np.sum(np.asarray(psi.qD[b]) == q)) for q in qs}
        out.append((all(D[q] == min(lc[q], rc[q]) for q in qs) and len(psi.qD[b]) == sum(D.values()),
                    all(D[q] == lc[q] for q in qs), all(D[q] == rc[q] for q in qs)))
    return out


def splitting_exact(kinds, two):
    """sufficient condition for the projector-splitting integrator to be exact on a complete manifold: the left-complete
    bonds form a prefix 1..m and the right-complete bonds the suffix m+1..L-1 (two-site: m+2..L-1).  Then every backward
    bond (or one-site) step cancels against a neighbouring forward step and exactly one forward step acts with the full
    operator.  Without quantum numbers (and for most sectors) maximal bond dimensions always have this form.  A bond with
    one charge block limited by the left and another limited by the right environment ("mixed") admits every vector of the
    sector as well, but the splitting is then not exact: known finding F10 (see known_findings.txt)."""
    nb = len(kinds)                       # interior bonds 1..nb
    if not all(k[0] for k in kinds):
        return False
    for m in range(0, nb + 1):
        left_ok = all(kinds[b - 1][1] for b in range(1, m + 1))
        right_ok = all(kinds[b - 1][2] for b in range(m + (2 if two else 1), nb + 1))
        if left_ok and right_ok and (not two or m <= max(nb - 1, 0)):
            return True
    return False


def sector_case(rng, H=None, L=None, qtot=None, two=None, dtv=None, n=1, cplx=True):
    """TDVP on the complete manifold of a quantum-number sector against the dense exponential
    -> (expected_exact, error, description) or None"""
    import pytenet as ptn
    from scipy.linalg import expm
    if H is None:
        k = int(rng.integers(0, 3))
        L = int(rng.integers(2, 5))
        if k == 0:
            H = ptn.heisenberg_xxz_mpo(L, float(rng.choice([1, -1.5, 4 / 3])), float(rng.choice([0.5, 1, -0.7])), float(rng.choice([0, 0.3])))
        elif k == 1:
            H = ptn.bose_hubbard_mpo(3, min(L, 3), float(rng.choice([1, 0.5])), float(rng.choice([0.7, 2])), float(rng.choice([0.2, -0.5])))
            L = min(L, 3)
        else:
            qd = [np.array([1, -1]), np.array([0, 1]), np.array([0, 1, 1])][int(rng.integers(0, 3))]
            if len(qd) == 3:
                L = min(L, 3)
            H = evolib.hermitian_mpo(rng, L, qd, exact_vals=False)
        tot = sorted(_count(H.qd, L))
        qtot = int(tot[int(rng.integers(0, len(tot)))])
        two = bool(rng.random() < 0.5)
        n = int(rng.integers(1, 3))
        cplx = bool(rng.random() < 0.7)
    Hd = dense_mpo(H)
    if np.abs(Hd - Hd.conj().T).max() > 1e-12 or not np.any(Hd):
        return None
    psi = sector_state(rng, L, H.qd, qtot, cplx)
    if psi is None:
        return None
    if dtv is None:
        dtv = complex(rng.choice([0.1, 0.1j, -0.05j, 0.05 + 0.1j, -0.1 + 0.05j])) / max(1.0, np.linalg.norm(Hd, 2)) * float(rng.choice([1, 5, 12]))
    kinds = bond_kinds(psi)
    expect = splitting_exact(kinds, two)
    v0 = dense_mps(psi); v0 = v0 / np.linalg.norm(v0)
    d = len(H.qd)
    numiter = (d * d if two else d) * max(psi.bond_dims) ** 2 + 2
    D0 = list(psi.bond_dims)
    if two:
        ptn.integrate_local_twosite(H, psi, dtv, n, numiter_lanczos=numiter, tol_split=0)
    else:
        ptn.integrate_local_singlesite(H, psi, dtv, n, numiter_lanczos=numiter)
    ref = expm(-dtv * n * Hd) @ v0
    err = np.linalg.norm(dense_mps(psi) - ref) / max(1, np.linalg.norm(ref))
    return expect, err, (f'{"two" if two else "single"}-site TDVP on the complete manifold of the charge sector {qtot} (qd={list(map(int, H.qd))}, L={L}, '
                         f'bond dimensions {D0}, dt={dtv}, n={n})')


def known_findings_present(k):
    """F10: the two listed inputs, replayed on the real code"""
    if k.get('key') != 'tdvp-sector-mixed-bond':
        return False
    import pytenet as ptn
    try:
        r1 = sector_case(np.random.default_rng(10), H=ptn.heisenberg_xxz_mpo(4, 4 / 3, 5 / 13, -2 / 7), L=4, qtot=2, two=False, dtv=0.25j)
        r2 = sector_case(np.random.default_rng(10), H=ptn.heisenberg_xxz_mpo(5, 4 / 3, 5 / 13, -2 / 7), L=5, qtot=3, two=True, dtv=0.25j)
    except Exception:
        return False
    return bool((r1 and not r1[0] and r1[1] > 1e-7) or (r2 and not r2[0] and r2[1] > 1e-7))


def oracle_case(rng):
    import pytenet as ptn
    from scipy.linalg import expm
    if rng.random() < 0.4:
        # complete manifolds of quantum-number sectors (includes bonds of dimension one and one-dimensional sectors)
        try:
            r = sector_case(rng)
        except Exception as ex:
            return f'raises {type(ex).__name__}: {ex}'
        if r is not None and r[0] and r[1] > 1e-7:
            return f'{r[2]} deviates from expm(-dt*n*H) psi by {r[1]:.3g}'
        return None
    k = int(rng.integers(0, 2))
    two = bool(rng.random() < 0.5) and k == 0
    L = int(rng.integers(2 if two else 1, 4)); d = 2
    qd0 = np.zeros(d, dtype=int)
    H = evolib.hermitian_mpo(rng, L, qd0, exact_vals=False)
    Hd = dense_mpo(H)
    if np.abs(Hd - Hd.conj().T).max() > 1e-12:
        return None
    scale = max(1.0, np.linalg.norm(Hd, 2))
    # |dt| * ||H|| up to about 1.5: with exact local exponentials the integrator is exact / reversible for any such dt,
    # and a truncated local Krylov space shows up far above rounding
    dtv = complex(rng.choice([0.1, 0.1j, -0.05j, 0.05 + 0.1j, -0.1 + 0.05j])) / scale * float(rng.choice([1, 5, 12]))
    n = int(rng.integers(1, 4))
    try:
        if k == 0:
            # real-dtype states with complex Hamiltonians included; over-complete ("fat") bonds admit every vector as well
            psi = full_mps(rng, L, qd0, cplx=bool(rng.random() < 0.6), fat=bool(rng.random() < 0.4))
            v0 = dense_mps(psi); v0 = v0 / np.linalg.norm(v0)
            numiter = max(d * max(psi.bond_dims) ** 2, d * d * max(psi.bond_dims) ** 2) + 2
            if two:
                ptn.integrate_local_twosite(H, psi, dtv, n, numiter_lanczos=numiter, tol_split=0)
            else:
                ptn.integrate_local_singlesite(H, psi, dtv, n, numiter_lanczos=numiter)
            ref = expm(-dtv * n * Hd) @ v0
            err = np.linalg.norm(dense_mps(psi) - ref)
            if err > 1e-7 * max(1, np.linalg.norm(ref)):
                return f'{"two" if two else "single"}-site TDVP on a complete manifold (L={L}, dt={dtv}, n={n}) deviates from expm(-dt*n*H) psi by {err:.3g}'
        else:
            # reversibility for any bond profile (single-site), exact local exponentials = many Krylov iterations
            psi = full_mps(rng, L, qd0, cplx=bool(rng.random() < 0.6))
            if L >= 2 and rng.random() < 0.7:
                # reduce bond dimensions
                D = [1] + [int(rng.integers(1, 5)) for _ in range(L - 1)] + [1]
                psi.A = [rng.standard_normal((d, D[i], D[i + 1])) + 1j * rng.standard_normal((d, D[i], D[i + 1])) for i in range(L)]
                psi.qD = [np.zeros(Di, dtype=int) for Di in D]
            if rng.random() < 0.5:
                psi.orthonormalize(mode='right')
            # otherwise the state is handed over as it is (unnormalised, possibly with bonds larger than the neighbours allow):
            # the first call evolves the normalised input, the second call must bring it back
            v0 = dense_mps(psi); v0 = v0 / np.linalg.norm(v0)
            numiter = d * max(psi.bond_dims) ** 2 + 2
            ptn.integrate_local_singlesite(H, psi, dtv, n, numiter_lanczos=numiter)
            nrm2 = ptn.integrate_local_singlesite(H, psi, -dtv, n, numiter_lanczos=numiter)
            err = np.linalg.norm(nrm2 * dense_mps(psi) - v0)
            if err > 1e-7:
                return f'single-site TDVP is not reversible (L={L}, D={psi.bond_dims}, dt={dtv}, n={n}): deviation {err:.3g}'
            if abs(dtv.real) == 0 and abs(nrm2 - 1) > 1e-8:
                return f'second call reported norm {nrm2} for purely imaginary dt'
    except Exception as ex:
        return f'raises {type(ex).__name__}: {ex}'
    return None


def search(tier, seed, hints, budget_s):
    t0 = time.time(); it = 0
    while time.time() - t0 < budget_s:
        r = oracle_case(np.random.default_rng([seed, 909, it]))
        if r is not None:
            return {'key': f'c09:{seed}:{it}', 'what': r,
                    'replay': {'call': 'harness.props.c09.oracle_case(np.random.default_rng([seed, 909, it]))', 'seed': seed, 'it': it, 'observed': r}}
        it += 1
    return None


def replay(rp):
    if rp.get('kind') != 'failing-input':
        print('replay: no failing input recorded; obligations that no longer check:', json.dumps(rp.get('no_longer_checks'))[:2000])
        return 1
    r = rp['replay']
    res = oracle_case(np.random.default_rng([r['seed'], 909, r['it']]))
    print('replay ->', res)
    return 1 if res else 0

"""
C09 — TDVP is exact on a complete manifold and exactly time-reversible.
Correspondence: as C08 (whole TDVP calls under uninterpreted kernels, real / imaginary / complex dt, 1..2 steps) against `Model/Evolution.lean`.
Oracle (search only): real kernels; (i) complete manifold + enough Krylov iterations: result == expm(-dt*n*H) applied to the normalized start;
(ii) single-site forward/backward steps with exact local exponentials return the initial state (times the norm reported by the second call).
"""
import json, time
import numpy as np
from .. import evolib, mpsgen
from .c01 import dense_mps, dense_mpo

RULE = evolib.__doc__ and ('as C08; emphasis on dt in {real, imaginary, complex}; distinct = (integrator, L, bond profile, numiter, numsteps, dt, tol, outcome, kernel-call profile)')
correspondence = evolib.corr_tdvp


def full_mps(rng, L, qd, cplx=True, fat=False):
    """random state with maximal (or, with `fat`, over-complete) bond dimensions, all charges zero (complete manifold)"""
    import pytenet as ptn
    d = len(qd)
    D = [min(d ** i, d ** (L - i)) for i in range(L + 1)]
    if fat:
        D = [D[i] + (int(rng.integers(0, 3)) if 0 < i < L else 0) for i in range(L + 1)]
    psi = ptn.MPS(np.zeros(d, dtype=int), [np.zeros(Di, dtype=int) for Di in D], fill='postpone')
    psi.A = [rng.standard_normal((d, D[i], D[i + 1])) + (1j * rng.standard_normal((d, D[i], D[i + 1])) if cplx else 0) for i in range(L)]
    return psi


def oracle_case(rng):
    import pytenet as ptn
    from scipy.linalg import expm
    k = int(rng.integers(0, 2))
    two = bool(rng.random() < 0.5) and k == 0
    L = int(rng.integers(2 if two else 1, 4)); d = 2
    qd0 = np.zeros(d, dtype=int)
    H = evolib.hermitian_mpo(rng, L, qd0, exact_vals=False)
    Hd = dense_mpo(H)
    if np.abs(Hd - Hd.conj().T).max() > 1e-12:
        return None
    scale = max(1.0, np.linalg.norm(Hd, 2))
    # |dt| * ||H|| up to about 1.5: with exact local exponentials the integrator is exact / reversible for any such dt,
    # and a truncated local Krylov space shows up far above rounding
    dtv = complex(rng.choice([0.1, 0.1j, -0.05j, 0.05 + 0.1j, -0.1 + 0.05j])) / scale * float(rng.choice([1, 5, 12]))
    n = int(rng.integers(1, 4))
    try:
        if k == 0:
            # real-dtype states with complex Hamiltonians included; over-complete ("fat") bonds admit every vector as well
            psi = full_mps(rng, L, qd0, cplx=bool(rng.random() < 0.6), fat=bool(rng.random() < 0.4))
            v0 = dense_mps(psi); v0 = v0 / np.linalg.norm(v0)
            numiter = max(d * max(psi.bond_dims) ** 2, d * d * max(psi.bond_dims) ** 2) + 2
            if two:
                ptn.integrate_local_twosite(H, psi, dtv, n, numiter_lanczos=numiter, tol_split=0)
            else:
                ptn.integrate_local_singlesite(H, psi, dtv, n, numiter_lanczos=numiter)
            ref = expm(-dtv * n * Hd) @ v0
            err = np.linalg.norm(dense_mps(psi) - ref)
            if err > 1e-7 * max(1, np.linalg.norm(ref)):
                return f'{"two" if two else "single"}-site TDVP on a complete manifold (L={L}, dt={dtv}, n={n}) deviates from expm(-dt*n*H) psi by {err:.3g}'
        else:
            # reversibility for any bond profile (single-site), exact local exponentials = many Krylov iterations
            psi = full_mps(rng, L, qd0, cplx=bool(rng.random() < 0.6))
            if L >= 2 and rng.random() < 0.7:
                # reduce bond dimensions
                D = [1] + [int(rng.integers(1, 5)) for _ in range(L - 1)] + [1]
                psi.A = [rng.standard_normal((d, D[i], D[i + 1])) + 1j * rng.standard_normal((d, D[i], D[i + 1])) for i in range(L)]
                psi.qD = [np.zeros(Di, dtype=int) for Di in D]
            if rng.random() < 0.5:
                psi.orthonormalize(mode='right')
            # otherwise the state is handed over as it is (unnormalised, possibly with bonds larger than the neighbours allow):
            # the first call evolves the normalised input, the second call must bring it back
            v0 = dense_mps(psi); v0 = v0 / np.linalg.norm(v0)
            numiter = d * max(psi.bond_dims) ** 2 + 2
            ptn.integrate_local_singlesite(H, psi, dtv, n, numiter_lanczos=numiter)
            nrm2 = ptn.integrate_local_singlesite(H, psi, -dtv, n, numiter_lanczos=numiter)
            err = np.linalg.norm(nrm2 * dense_mps(psi) - v0)
            if err > 1e-7:
                return f'single-site TDVP is not reversible (L={L}, D={psi.bond_dims}, dt={dtv}, n={n}): deviation {err:.3g}'
            if abs(dtv.real) == 0 and abs(nrm2 - 1) > 1e-8:
                return f'second call reported norm {nrm2} for purely imaginary dt'
    except Exception as ex:
        return f'raises {type(ex).__name__}: {ex}'
    return None


def search(tier, seed, hints, budget_s):
    t0 = time.time(); it = 0
    while time.time() - t0 < budget_s:
        r = oracle_case(np.random.default_rng([seed, 909, it]))
        if r is not None:
            return {'key': f'c09:{seed}:{it}', 'what': r,
                    'replay': {'call': 'harness.props.c09.oracle_case(np.random.default_rng([seed, 909, it]))', 'seed': seed, 'it': it, 'observed': r}}
        it += 1
    return None


def replay(rp):
    if rp.get('kind') != 'failing-input':
        print('replay: no failing input recorded; obligations that no longer check:', json.dumps(rp.get('no_longer_checks'))[:2000])
        return 1
    r = rp['replay']
    res = oracle_case(np.random.default_rng([r['seed'], 909, r['it']]))
    print('replay ->', res)
    return 1 if res else 0

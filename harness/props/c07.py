"""
C07 -- molecular Hamiltonian MPOs are exact for every orbital count, both build paths.

Correspondence: `molecular_hamiltonian_mpo` and `spin_molecular_hamiltonian_mpo`, both values of `optimize`:
the chain list handed to `OpGraph.from_opchains` (sorted (site, OID) pairs, case analysis, charge lists, `gint` / `get_vint_coeff`,
`to_spin_opchain`), the node tables of `MolecularOpGraphNodes` / `SpinMolecularOpGraphNodes` (as copied to the MPO by `copy_nids`),
the complete explicit graph handed to `MPO.from_opgraph` (`generate_graph` + `_graph_add_term`), operator tables, physical charges,
and the final graph / bond charges / tensors / `nid_map`, against `PtnModel/Model/Hamiltonian{Mol,MolGraph,SpinGraph}.lean`.
`molecular_hamiltonian_orbital_gauge_transform`: modelled (`PtnModel/Model/HamiltonianGauge.lean`, driver op `ham.gauge`) and compared exactly
on the 32 exactly representable monomial 2x2 unitaries (one entry of {1, i, -1, -i} per row and column) and on malformed arguments;
generic unitaries: numerical stream + oracle.
Search oracle: property text against an own second-quantised reference (own Jordan-Wigner matrices).
"""
import itertools, json, time, zlib
import numpy as np
from .. import common, oglib, hamlib
from ..common import Corr, with_alarm, CaseTimeout
from ..oglib import enc, frac

RULE = ('spinless: optimized L=1..8, explicit L=4..8 (+ L=0..3: the documented assertion); spin-orbital: optimized L=1..6, explicit L=2..6 (+ L=1) (few cases for the largest sizes); '
        'coefficient tensors over {0, +-1, 1/2, -5/4, 2, ...}: dense, sparse, single entry, symmetric / hermitian-structured, zero-padded last orbital, one-body only, '
        'two-body only, all ones, all zero; complex tensors by linearity (chain lists and explicit graphs are value-independent in structure, affine in the coefficients). '
        'non-trivial = constructor returns an MPO; distinct = distinct (model, optimize, L, tensor kind, bond dimensions, #nodes, #edges). '
        'Stream "dense-matrix (numeric, property oracle)": the search oracle (both build paths, as_matrix in both formats vs own second-quantised reference) evaluated always on small inputs. '
        'Stream "gauge-transform (numeric, not modelled)": NOT a model comparison -- molecular_hamiltonian_orbital_gauge_transform is not modelled; an always-on numerical test '
        '(tolerance 1e-10 * scale) that v_l, v_r map the explicit MPO of the original coefficients to the explicit MPO of the rotated ones, complex coefficient tensors and complex 2x2 unitaries: '
        'quick L=7 every pair i, L=8 i=5, one random (L, i) with L in 4..6 per shard; thorough L=4..8 every pair i, three unitaries each. '
        'Stream "gauge.exact": model comparison (driver op ham.gauge) of v_l, v_r entry by entry, explicit MPO of random dyadic coefficients, every pair i, all 32 monomial unitaries '
        '(entries in {1, i, -1, -i}), quick L=4..7, thorough L=4..8, plus per L the attributes read from the MPO (nsites, bond_dims, and the bookkeeping predicate wf: every table node '
        'x[key][k] sits in nid_map on bond k below bond_dims[k], indices on one bond pairwise different); distinct = distinct (L, i, unitary). '
        'Stream "gauge.malformed": non-unitary u, wrong shapes, i out of range: same exception kind')

KINDS = ['dense', 'dense', 'sparse', 'single', 'symmetric', 'padded', 'one-body', 'two-body', 'ones', 'zero']


def gen_tensors(rng, L, kind, draw):
    """(tkin, vint) of the given structure; `draw(shape)` produces the non-zero values"""
    t = draw((L, L))
    v = draw((L, L, L, L))
    if kind == 'sparse':
        t = t * (rng.random((L, L)) < 0.4)
        v = v * (rng.random((L, L, L, L)) < 0.15)
    elif kind == 'single':
        t = np.zeros_like(t)
        v0 = np.zeros_like(v)
        idx = tuple(int(x) for x in rng.integers(0, L, size=4))
        if rng.random() < 0.3:
            t[idx[0], idx[1]] = draw(())
        else:
            v0[idx] = draw(())
            if v0[idx] == 0:
                v0[idx] = 1.0
        v = v0
    elif kind == 'symmetric':
        t = 0.5 * (t + t.T)
        v = 0.5 * (v + v.transpose(1, 0, 3, 2))
        v = 0.5 * (v + v.transpose(2, 3, 0, 1))
    elif kind == 'padded' and L >= 2:
        t[-1, :] = 0; t[:, -1] = 0
        v[-1] = 0; v[:, -1] = 0; v[:, :, -1] = 0; v[:, :, :, -1] = 0
    elif kind == 'one-body':
        v = np.zeros_like(v)
    elif kind == 'two-body':
        t = np.zeros_like(t)
    elif kind == 'ones':
        t = np.ones_like(t); v = np.ones_like(v)
    elif kind == 'zero':
        t = np.zeros_like(t); v = np.zeros_like(v)
    return t, v


def dyadic_draw(rng):
    vals = np.array(hamlib.PARAM_VALUES)
    return lambda shape: rng.choice(vals, size=shape) if shape != () else float(rng.choice(vals[1:]))


def chain_tags(L, spin):
    """which branches of the chain enumeration occur for this L"""
    n = 2 * L if spin else L
    tags = set()
    if n >= 1:
        tags.add('hop-diag')
    if n >= (3 if spin else 2):
        tags.add('hop-offdiag')
    for i in range(n):
        for j in range(i + 1, n):
            for k in range(n):
                for l in range(k + 1, n):
                    if spin and not ((i % 2 == k % 2 and j % 2 == l % 2) or (i % 2 == l % 2 and j % 2 == k % 2)):
                        tags.add('int-invalid-spin')
                        continue
                    a, b, c, d = [x for x, _ in sorted([(i, 1), (j, 1), (l, -1), (k, -1)])]
                    if a == b:
                        tags.add('int-N..N' if c == d else 'int-N-first')
                    elif b == c:
                        tags.add('int-N-middle')
                    elif c == d:
                        tags.add('int-N-last')
                    else:
                        tags.add('int-generic')
                    if spin:
                        tags.add('start-odd' if a % 2 else 'start-even')
                        tags.add('len-odd' if (d - a + 1 + a % 2) % 2 else 'len-even')
    return sorted(tags)


def explicit_tags(L, spin):
    """which branches of `_graph_add_term` occur for this L (recomputed from the index conditions)"""
    tags = set()
    h = L // 2
    modes = [(i, s) for i in range(L) for s in ((0, 1) if spin else (0,))]
    for (i, s) in modes:
        for (j, t) in modes:
            if spin and s != t:
                continue
            a, b = sorted([i, j])
            tags.add('hop:same' if a == b else ('hop:left' if b <= h else ('hop:right' if a >= h else 'hop:across')))
    for x, y in itertools.combinations(modes, 2):
        for z, w in itertools.combinations(modes, 2):
            if spin and not ((x[1] == z[1] and y[1] == w[1]) or (x[1] == w[1] and y[1] == z[1])):
                continue
            i, j, k, l = sorted([x[0], y[0], z[0], w[0]])
            if spin and i == j == k == l:
                tags.add('int:one-site')
            elif spin and i == j == k:
                tags.add('int:three-left')
            elif spin and j == k == l:
                tags.add('int:three-right')
            elif j == k:
                tags.add('int:N-middle')
            elif k <= h:
                tags.add('int:left,N-end' if k == l else 'int:left')
            elif j >= h:
                tags.add('int:right,N-start' if i == j else 'int:right')
            else:
                tags.add('int:across')
    return sorted(tags)


def cls_mol(op, im):
    if not isinstance(im.get('res'), dict) or 'err' in im['res']:
        return None
    return (op['model'], op['optimize'], len(op['tkin']), op.get('kind_f'), hamlib.shape_sig(im))


def mol_branches(op, im):
    L = len(op['tkin'])
    spin = op['model'] == 'spinmol'
    out = [f'{op["model"]}:{"opt" if op["optimize"] else "explicit"}:L={L}', 'kind:' + str(op.get('kind_f'))]
    if op['optimize']:
        out += ['chain:' + t for t in chain_tags(L, spin)]
    elif L >= (2 if spin else 4):
        out += ['term:' + t for t in explicit_tags(L, spin)]
    return out


def complex_case(c, rng, model, L, optimize):
    """complex coefficient tensors: chain list / explicit graph against the model by linearity"""
    draw = dyadic_draw(rng)
    kind = str(rng.choice(['dense', 'sparse', 'symmetric']))
    tr, vr = gen_tensors(rng, L, kind, draw)
    ti, vi = gen_tensors(rng, L, kind, draw)
    op = hamlib.mk_mol_op(model, tr, vr, optimize)
    op['tkin_f'] = tr + 1j * ti
    op['vint_f'] = vr + 1j * vi
    impl = hamlib.impl_build(op)
    z2, z4 = np.zeros((L, L)), np.zeros((L, L, L, L))
    ms = oglib.drive_retry([hamlib.model_op(hamlib.mk_mol_op(model, a, b, optimize)) for a, b in ((tr, vr), (ti, vi), (z2, z4))])
    key, kd = ('chains', 'chains') if optimize else ('graph0', 'graph')
    ok = all((isinstance(m.get(key), list) if optimize else (isinstance(m.get(key), dict) and 'edges' in m[key])) for m in ms)
    want = hamlib.combine_complex(ms[0][key], ms[1][key], ms[2][key], kd) if ok else ms[0].get(key)
    c.add({'op': 'ham.build', 'model': model, 'optimize': optimize, 'L': L, 'complex': True, 'kind': kind,
           'tkin_re': tr.tolist(), 'tkin_im': ti.tolist(), 'vint_re': vr.tolist() if L <= 2 else '...', 'vint_im': vi.tolist() if L <= 2 else '...'},
          {key: impl.get(key)}, {key: want}, cls=(model, optimize, L, 'complex', kind), branches=['complex', f'{model}:L={L}'])


def plan(tier):
    """(model, optimize, L, repetitions)"""
    th = tier == 'thorough'
    k = 4 if th else 1
    out = []
    for L in range(1, 9):
        out.append(('mol', True, L, k * (40 if L <= 4 else (24 if L <= 6 else 3))))
    for L in range(0, 9):
        out.append(('mol', False, L, k * (32 if L <= 5 else (20 if L == 6 else 3)) if L >= 4 else 1))
    for L in range(1, 7):
        out.append(('spinmol', True, L, k * (32 if L <= 3 else (20 if L == 4 else (2 if L == 5 else 1)))))
    for L in range(1, 7):
        out.append(('spinmol', False, L, k * (32 if L <= 3 else (20 if L == 4 else (3 if L == 5 else 1))) if L >= 2 else 1))
    return out



def gauge_inputs(seed_spec, L, cplx=True):
    """coefficient tensors of a gauge case, reproducible from the seed specification"""
    rng = np.random.default_rng(list(seed_spec))
    t, v = gen_tensors(rng, L, 'dense', real_draw(rng, cplx))
    return t, v


def gauge_case(seed_spec, L, i, u, cplx=True):
    t, v = gauge_inputs(seed_spec, L, cplx)
    pt, pv = pack(t, v)
    u = np.asarray(u, dtype=complex)
    return {'model': 'mol', 'clause': 'gauge', 'L': L, 'kind': 'dense', 'complex': cplx, 'tkin': pt, 'vint': pv, 'i': int(i),
            'u': np.stack([u.real, u.imag], axis=-1).tolist(), 'complex_u': bool(np.any(u.imag != 0)), 'seed_spec': [int(x) for x in seed_spec]}


def gauge_plan(tier, shard, nshards, rng):
    """(L, i, unitary kind) of the always-on numerical gauge test"""
    jobs = []
    if tier == 'thorough':
        for L in range(4, 9):
            for i in range(L - 1):
                for uk in ('complex', 'complex', 'real'):
                    jobs.append((L, i, uk))
    else:
        jobs += [(7, i, 'complex') for i in range(6)] + [(8, 5, 'complex')]
    jobs = [j for k, j in enumerate(jobs) if k % nshards == shard]
    if tier != 'thorough':
        L = int(rng.integers(4, 7))
        jobs.append((L, int(rng.integers(0, L - 1)), str(rng.choice(['complex', 'real', 'swap']))))
    return jobs


def gauge_stream(c, tier, shard, nshards, seed):
    rng = np.random.default_rng([seed, shard, 77])
    for k, (L, i, uk) in enumerate(gauge_plan(tier, shard, nshards, rng)):
        spec = [seed, shard, 770 + k]
        u = rand_unitary(rng, uk)
        case = gauge_case(spec, L, i, u)
        r = run_gauge(case)
        op = {'op': 'gauge (numeric, not modelled)', 'L': L, 'i': i, 'u_kind': uk, 'u': case['u'], 'seed_spec': spec}
        c.add(op, {'ok': True, 'gauge_ok': r is None, 'observed': r}, {'ok': True, 'gauge_ok': True, 'observed': None},
              cls=('gauge', L, i, uk), branches=[f'gauge:L={L}', 'u:' + uk,
                                               'right-pair-block' if (L // 2 + 1 <= i <= L - 3) else 'other-blocks'])


# ----------------------------------------------------------------------------- gauge transform: exact model comparison (driver op `ham.gauge`)

def monomial_unitaries():
    """the 32 exactly representable 2x2 unitaries: one entry of {1, i, -1, -i} per row and column"""
    out = []
    ph = [1, 1j, -1, -1j]
    for perm in (0, 1):
        for a in ph:
            for b in ph:
                u = np.zeros((2, 2), dtype=complex)
                if perm == 0:
                    u[0, 0], u[1, 1] = a, b
                else:
                    u[0, 1], u[1, 0] = a, b
                out.append(u if (a.imag or b.imag) else u.real.copy())
    return out


def enc_g(z):
    z = complex(z)
    return [enc(z.real), enc(z.imag)]


def enc_mat_g(m):
    m = np.asarray(m)
    if m.ndim != 2:
        return [enc_g(x) for x in m.reshape(-1)] if m.size else []
    return [[enc_g(x) for x in r] for r in m]


def dec_mat_g(u):
    return np.array([[complex(float(frac(x[0])), float(frac(x[1]))) for x in r] for r in u], dtype=complex)


GAUGE_TABLES = ['nids_' + f for f in hamlib.FAMS]


def gauge_wf(h):
    """the bookkeeping predicates `GaugeH.wf` and `GaugeH.dimsOk` of the model, evaluated on the real MPO"""
    bd = list(h.bond_dims)
    if len(bd) != h.nsites + 1:
        return False
    for name in GAUGE_TABLES:
        for inner in getattr(h, name).values():
            for k, nid in inner.items():
                if nid not in h.nid_map:
                    return False
                s, j = h.nid_map[nid]
                if s != k or not (0 <= s < len(bd)) or not (j < bd[s]):
                    return False
    vals = [tuple(int(x) for x in v) for v in h.nid_map.values()]
    return len(set(vals)) == len(vals)


def gauge_impl_call(h, u, i):
    import pytenet as ptn

    def f():
        v_l, v_r = with_alarm(120.0, lambda: ptn.molecular_hamiltonian_orbital_gauge_transform(h, u, i))
        return {'v_l': enc_mat_g(v_l), 'v_r': enc_mat_g(v_r)}
    return common.py_call(f)


def gauge_mpo(spec, L):
    import pytenet as ptn
    rng = np.random.default_rng(list(spec))
    t, v = gen_tensors(rng, L, str(rng.choice(['dense', 'dense', 'sparse', 'symmetric'])), dyadic_draw(rng))
    return with_alarm(300.0, lambda: ptn.molecular_hamiltonian_mpo(t, v, optimize=False))


def gauge_exact_jobs(tier):
    Ls = range(4, 9) if tier == 'thorough' else range(4, 8)
    return [(L, i) for L in Ls for i in range(L - 1)]


def gauge_exact_stream(c, tier, shard, nshards, seed):
    jobs = [(k, j) for k, j in enumerate(gauge_exact_jobs(tier)) if k % nshards == shard]
    mpos = {}
    for k, (L, i) in jobs:
        spec = [seed, 79, L]
        first = L not in mpos
        if first:
            mpos[L] = gauge_mpo(spec, L)
        h = mpos[L]
        us = monomial_unitaries()
        cases = [[i, enc_mat_g(u)] for u in us]
        rep = oglib.drive_retry([{'op': 'ham.gauge', 'L': L, 'cases': cases}])[0]
        head = {kk: rep.get(kk) for kk in ('ok', 'nsites', 'bond_dims', 'wf', 'err') if kk in rep}
        c.add({'op': 'ham.gauge', 'L': L, 'cases': [], 'seed_spec': spec},
              {'ok': True, 'nsites': int(h.nsites), 'bond_dims': [int(x) for x in h.bond_dims], 'wf': gauge_wf(h)}, head,
              cls=('gauge-head', L), branches=[f'gauge-exact:L={L}'])
        results = rep.get('results') if isinstance(rep.get('results'), list) and len(rep.get('results')) == len(us) else [None] * len(us)
        for n, (u, cs, mo) in enumerate(zip(us, cases, results)):
            im = gauge_impl_call(h, u, i)
            cplx = bool(np.iscomplexobj(u))
            br = ['u:' + ('diagonal' if u[0, 0] != 0 else 'antidiagonal'), 'u:' + ('complex' if cplx else 'real'),
                  'v_l:right-pair-blocks' if (L // 2 + 1 <= i <= L - 3) else 'v_l:no-right-pair-blocks',
                  'v_r:left-pair-blocks' if (2 <= i + 1 <= L // 2 - 1) else 'v_r:no-left-pair-blocks']
            if im.get('ok'):
                br.append('v_l-nontrivial' if any(x != ([1, 0] if a == b else [0, 0]) for a, r in enumerate(im['v_l']) for b, x in enumerate(r)) else 'v_l-identity')
                br.append('v_r-nontrivial' if any(x != ([1, 0] if a == b else [0, 0]) for a, r in enumerate(im['v_r']) for b, x in enumerate(r)) else 'v_r-identity')
            c.add({'op': 'ham.gauge', 'L': L, 'cases': [cs], 'seed_spec': spec}, im, mo,
                  cls=('gauge-exact', L, i, n) if im.get('ok') else None, branches=br)
            if len(c.samples) and 'reply' in c.samples[-1] and isinstance(c.samples[-1]['reply'], dict) and 'v_l' in c.samples[-1]['reply']:
                r = c.samples[-1]['reply']
                c.samples[-1]['reply'] = {'ok': r.get('ok'), 'v_l': f'<{len(r["v_l"])} x {len(r["v_l"])} matrix>', 'v_r': f'<{len(r["v_r"])} x {len(r["v_r"])} matrix>'}


def malformed_gauge_args(L):
    """(u, i, tag): arguments the function rejects"""
    I2 = np.identity(2)
    out = []
    for tag, u in (('upper-triangular', [[1., 1.], [0., 1.]]), ('scaled', [[2., 0.], [0., 1.]]), ('zero', [[0., 0.], [0., 0.]]),
                   ('rank-one', [[1., 0.], [1., 0.]]), ('projector', [[1., 0.], [0., 0.]]), ('complex-scaled', [[1., 1j], [1j, 1.]]),
                   ('complex-rank-one', [[1., 1j], [1., 1j]]), ('half', [[0.5, 0.], [0., 0.5]]), ('all-ones', [[1., 1.], [1., 1.]])):
        for i in (0, L // 2, L - 2):
            out.append((np.array(u), i, 'non-unitary:' + tag))
    for tag, u in (('3x3', np.identity(3)), ('2x3', np.array([[1., 0., 0.], [0., 1., 0.]])), ('3x2', np.array([[1., 0.], [0., 1.], [0., 0.]])),
                   ('1x2', np.array([[1., 0.]])), ('1x1', np.array([[1.]])), ('empty', np.zeros((0, 2)))):
        out.append((u, 1, 'shape:' + tag))
    for i in (-1, -2, L - 1, L, L + 3):
        out.append((I2, i, 'i-out-of-range'))
        out.append((np.array([[0., 1j], [1., 0.]]), i, 'i-out-of-range'))
    return out


def gauge_malformed_stream(c, tier, shard, nshards, seed):
    Ls = [L for k, L in enumerate(range(4, 9 if tier == 'thorough' else 8)) if k % nshards == shard]
    for L in Ls:
        spec = [seed, 79, L]
        h = gauge_mpo(spec, L)
        args = malformed_gauge_args(L)
        cases = [[int(i), enc_mat_g(u)] for u, i, _ in args]
        rep = oglib.drive_retry([{'op': 'ham.gauge', 'L': L, 'cases': cases}])[0]
        results = rep.get('results') if isinstance(rep.get('results'), list) and len(rep.get('results')) == len(args) else [None] * len(args)
        for (u, i, tag), cs, mo in zip(args, cases, results):
            im = gauge_impl_call(h, u, int(i))
            c.add({'op': 'ham.gauge', 'L': L, 'cases': [cs], 'malformed': tag, 'seed_spec': spec}, im, mo,
                  cls=('gauge-malformed', L, tag, int(i)), branches=['malformed:' + tag.split(':')[0], 'err=' + str(im.get('err'))])


def _corr_shard(name, shard, nshards, tier, seed):
    c = Corr(name)
    rng = np.random.default_rng([seed, shard, 7])
    jobs = []
    for m, o, L, reps in plan(tier):
        for r in range(reps):
            jobs.append((m, o, L, r))
    jobs = [j for k, j in enumerate(jobs) if k % nshards == shard]
    if name == 'gauge.exact':
        gauge_exact_stream(c, tier, shard, nshards, seed)
        return c
    if name == 'gauge.malformed':
        gauge_malformed_stream(c, tier, shard, nshards, seed)
        return c
    if name.startswith('gauge-transform'):
        gauge_stream(c, tier, shard, nshards, seed)
        return c
    if name.startswith('dense-matrix'):
        rng = np.random.default_rng([seed, shard, 78])
        cases = []
        for model, Ls in (('mol', (1, 2, 3, 4, 5)), ('spinmol', (1, 2, 3))):
            for L in Ls:
                for cplx in (False, True):
                    cases.append((model, L, cplx))
        cases = [cs for k, cs in enumerate(cases) if k % nshards == shard]
        for k, (model, L, cplx) in enumerate(cases):
            spec = [seed, shard, 780 + k]
            t, v = gen_tensors(np.random.default_rng(spec), L, 'dense', real_draw(np.random.default_rng(spec + [1]), cplx))
            pt, pv = pack(t, v)
            case = {'model': model, 'L': L, 'kind': 'dense', 'complex': cplx, 'tkin': pt, 'vint': pv, 'both_formats': True}
            r = run_case(case)
            c.add({'op': 'oracle (numeric)', 'model': model, 'L': L, 'complex': cplx, 'seed_spec': spec},
                  {'ok': True, 'oracle_ok': r is None, 'observed': r}, {'ok': True, 'oracle_ok': True, 'observed': None},
                  cls=('oracle', model, L, cplx), branches=['oracle:' + model])
        return c
    if name == 'molecular':
        ops = []
        for m, o, L, r in jobs:
            kind = KINDS[(r + L + shard) % len(KINDS)]
            t, v = gen_tensors(rng, L, kind, dyadic_draw(rng))
            op = hamlib.mk_mol_op(m, t, v, o)
            op['kind_f'] = kind
            ops.append(op)
        hamlib.run_builds(c, ops, cls_fn=cls_mol, extra_branches=mol_branches)
    else:
        for m, o, L, r in jobs:
            if r % 3 == 0 and L >= 1 and (o or L >= (4 if m == 'mol' else 2)):
                complex_case(c, rng, m, L, o)
    return c


def correspondence(tier, seed):
    out = [common.parallel_shards(_corr_shard, name, tier, seed)
           for name in ('molecular', 'molecular.complex', 'dense-matrix (numeric, property oracle)', 'gauge-transform (numeric, not modelled)',
                        'gauge.exact', 'gauge.malformed')]
    out[3].notes.append('numerical test of the gauge transform against the explicit MPO of the rotated coefficients (generic unitaries); not a model comparison '
                        '(the model comparison on exactly representable unitaries is the stream gauge.exact)')
    out[4].notes.append('exact comparison of v_l, v_r with the Lean model gaugeTransform (driver op ham.gauge) on the 32 monomial unitaries, every pair i')
    return out


# ----------------------------------------------------------------------------- oracle (property text; used only after a break)

def to_arrays(case):
    t = np.array(case['tkin'], dtype=float)
    v = np.array(case['vint'], dtype=float)
    t = t[..., 0] + 1j * t[..., 1]
    v = v[..., 0] + 1j * v[..., 1]
    if not case.get('complex'):
        t, v = t.real.copy(), v.real.copy()
    return t, v


def pack(t, v):
    t = np.asarray(t, dtype=complex); v = np.asarray(v, dtype=complex)
    return np.stack([t.real, t.imag], axis=-1).tolist(), np.stack([v.real, v.imag], axis=-1).tolist()


def ref_fast(t, v, spin):
    """second-quantised reference with L^2 instead of L^4 matrix products"""
    L = t.shape[0]
    n = 2 * L if spin else L
    cr, an = hamlib.jw_ops(n)
    dim = 2 ** n
    H = np.zeros((dim, dim), dtype=complex)
    spins = (0, 1) if spin else (0,)
    m = (lambda i, s: 2 * i + s) if spin else (lambda i, s: i)
    for i in range(L):
        for j in range(L):
            if t[i, j] != 0:
                for s in spins:
                    H += t[i, j] * (cr[m(i, s)] @ an[m(j, s)])
    for i in range(L):
        for j in range(L):
            if not np.any(v[i, j] != 0):
                continue
            for s in spins:
                for tt in (spins if spin else (0,)):
                    inner = np.zeros((dim, dim), dtype=complex)
                    for k in range(L):
                        for l in range(L):
                            if v[i, j, k, l] != 0:
                                inner += v[i, j, k, l] * (an[m(l, tt)] @ an[m(k, s)])
                    H += 0.5 * (cr[m(i, s)] @ cr[m(j, tt)]) @ inner
    return H


def dense_of(mpo, big):
    if big:
        return np.asarray(mpo.as_matrix(sparse_format=True).todense())
    return np.asarray(mpo.as_matrix())


def build(case, t, v, optimize):
    import pytenet as ptn
    f = ptn.spin_molecular_hamiltonian_mpo if case['model'] == 'spinmol' else ptn.molecular_hamiltonian_mpo
    return with_alarm(300.0, lambda: f(t, v, optimize=optimize))


def rand_unitary(rng, kind):
    if kind == 'real':
        th = rng.uniform(0, 2 * np.pi)
        u = np.array([[np.cos(th), -np.sin(th)], [np.sin(th), np.cos(th)]])
        return u if rng.random() < 0.5 else u @ np.diag([1.0, -1.0])
    if kind == 'swap':
        return np.array([[0.0, 1.0], [1.0, 0.0]])
    if kind == 'identity':
        return np.identity(2)
    z = rng.normal(size=(2, 2)) + 1j * rng.normal(size=(2, 2))
    q, r = np.linalg.qr(z)
    return q * (np.diag(r) / np.abs(np.diag(r)))


def run_gauge(case):
    """third sentence of C07 (spinless explicit MPO): None or a description"""
    import pytenet as ptn
    t, v = to_arrays(case)
    L = t.shape[0]
    i = case['i']
    u2 = np.array(case['u'], dtype=float)
    u2 = u2[..., 0] + 1j * u2[..., 1]
    if np.all(u2.imag == 0) and not case.get('complex_u'):
        u2 = u2.real.copy()
    try:
        h = build(case, t, v, False)
        u = np.identity(L, dtype=u2.dtype)
        u[i:i + 2, i:i + 2] = u2
        t_rot = np.einsum('ca,db,cd->ab', u, u.conj(), t)
        v_rot = np.einsum('ea,fb,gc,hd,efgh->abcd', u, u, u.conj(), u.conj(), v)
        h_rot = build(case, t_rot, v_rot, False)
        v_l, v_r = ptn.molecular_hamiltonian_orbital_gauge_transform(h, u2, i)
    except CaseTimeout:
        return 'construction / gauge transform does not return within 300 s'
    except Exception as ex:
        return f'construction / gauge transform raises {type(ex).__name__}: {ex}'
    if v_l.shape != (h.bond_dims[i],) * 2 or v_r.shape != (h.bond_dims[i + 2],) * 2:
        return f'gauge matrices have shapes {v_l.shape}, {v_r.shape}; bonds are {h.bond_dims[i]}, {h.bond_dims[i + 2]}'
    A = [np.array(x) for x in h.A]
    A[i] = np.einsum('lm,abmr->ablr', v_l, np.asarray(h_rot.A[i]))
    A[i + 1] = np.einsum('rm,ablm->ablr', v_r, np.asarray(h_rot.A[i + 1]))
    got = oglib.contract_tensors(A)
    want = oglib.contract_tensors([np.asarray(x) for x in h_rot.A])
    scale = max(1.0, float(np.max(np.abs(want))))
    err = float(np.max(np.abs(got - want)))
    if err > 1e-10 * scale:
        return f'gauge-transformed explicit MPO of the original coefficients differs from the MPO of the rotated coefficients by {err:.3e}'
    ref = ref_fast(t_rot, v_rot, False)
    err = float(np.max(np.abs(want - ref)))
    if err > 1e-10 * max(1.0, float(np.max(np.abs(ref)))):
        return f'explicit MPO of the rotated coefficients differs from the second-quantised operator by {err:.3e}'
    return None


def known_findings_present(k):
    """F14 (C07 part): the bond-optimized molecular constructors on all-zero coefficient tensors, replayed on every run"""
    if k.get('key') != 'zero-operator-raises':
        return False
    import pytenet as ptn
    hits = 0
    for f in (lambda: ptn.molecular_hamiltonian_mpo(np.zeros((3, 3)), np.zeros((3, 3, 3, 3))),
              lambda: ptn.spin_molecular_hamiltonian_mpo(np.zeros((2, 2)), np.zeros((2, 2, 2, 2)))):
        try:
            f()
        except AssertionError:
            hits += 1
        except Exception:
            pass
    return hits == 2


def run_case(case):
    """the property on one input: None or a description of the violation"""
    if case.get('clause') == 'gauge':
        return run_gauge(case)
    t, v = to_arrays(case)
    L = t.shape[0]
    spin = case['model'] == 'spinmol'
    n = 2 * L if spin else L
    small = n <= 8
    ref = ref_fast(t, v, spin) if small else None
    if small and not np.any(np.abs(ref) > 0):
        return None      # identically-zero operator
    if not small and not (np.any(t != 0) or np.any(v != 0)):
        return None
    mats = {}
    for optimize in (True, False):
        if not optimize and L < (2 if spin else 4):
            continue
        try:
            mpo = build(case, t, v, optimize)
        except CaseTimeout:
            return f'optimize={optimize}: constructor does not return within 300 s'
        except Exception as ex:
            return f'optimize={optimize}: constructor raises {type(ex).__name__}: {ex}'
        if len(mpo.A) != L:
            return f'optimize={optimize}: MPO has {len(mpo.A)} sites, expected {L}'
        r = hamlib.check_block_sparse(mpo)
        if r:
            return f'optimize={optimize}: tensors are not block sparse under qd/qD: ' + r
        mats[optimize] = dense_of(mpo, n > 6)
        if case.get('both_formats'):
            other = dense_of(mpo, not (n > 6))
            if other.shape != mats[optimize].shape or float(np.max(np.abs(other - mats[optimize]))) > 1e-10 * max(1.0, float(np.max(np.abs(other)))):
                return f'optimize={optimize}: as_matrix() and as_matrix(sparse_format=True) differ'
        if small:
            err = float(np.max(np.abs(mats[optimize] - ref)))
            if err > 1e-10 * max(1.0, float(np.max(np.abs(ref)))):
                return f'optimize={optimize}: dense matrix differs from the second-quantised operator by {err:.3e}'
    if True in mats and False in mats:
        err = float(np.max(np.abs(mats[True] - mats[False])))
        if err > 1e-10 * max(1.0, float(np.max(np.abs(mats[True])))):
            return f'optimized and explicit construction differ by {err:.3e}'
    return None


def real_draw(rng, cplx):
    def draw(shape):
        x = rng.normal(size=shape)
        if cplx:
            x = x + 1j * rng.normal(size=shape)
        return x if shape != () else complex(x) if cplx else float(x)
    return draw


def gen_case(rng, big=False):
    spin = bool(rng.integers(0, 3) == 0)
    cplx = bool(rng.integers(0, 2))
    if spin:
        L = int(rng.choice([1, 2, 2, 3, 3, 4])) if not big else int(rng.choice([5, 6]))
    else:
        L = int(rng.choice([1, 2, 3, 4, 4, 5, 5, 6, 6, 7])) if not big else int(rng.choice([8, 9, 10]))
    # (beyond dense reach only kinds whose operator is non-zero with probability one)
    kind = str(rng.choice(KINDS[:-1])) if not big else str(rng.choice(['dense', 'sparse', 'padded', 'one-body', 'two-body', 'symmetric']))
    t, v = gen_tensors(rng, L, kind, real_draw(rng, cplx))
    pt, pv = pack(t, v)
    return {'model': 'spinmol' if spin else 'mol', 'L': L, 'kind': kind, 'complex': cplx, 'tkin': pt, 'vint': pv}


def gen_gauge_cases(rng, L=None, force_complex=False):
    L = int(rng.choice([4, 5, 6, 7, 7, 8])) if L is None else L
    cplx = bool(rng.integers(0, 2))
    kind = str(rng.choice(['dense', 'dense', 'sparse', 'symmetric']))
    t, v = gen_tensors(rng, L, kind, real_draw(rng, cplx))
    pt, pv = pack(t, v)
    for i in range(L - 1):
        uk = 'complex' if force_complex else str(rng.choice(['complex', 'complex', 'complex', 'real', 'swap', 'identity']))
        u = rand_unitary(rng, uk)
        yield {'model': 'mol', 'clause': 'gauge', 'L': L, 'kind': kind, 'complex': cplx, 'tkin': pt, 'vint': pv, 'i': i,
               'u': np.stack([np.asarray(u, dtype=complex).real, np.asarray(u, dtype=complex).imag], axis=-1).tolist(),
               'complex_u': uk == 'complex', 'u_kind': uk}


def case_of_op(op):
    if op.get('op') == 'oracle (numeric)':
        spec = op['seed_spec']
        t, v = gen_tensors(np.random.default_rng(spec), op['L'], 'dense', real_draw(np.random.default_rng(spec + [1]), op['complex']))
        pt, pv = pack(t, v)
        return {'model': op['model'], 'L': op['L'], 'kind': 'dense', 'complex': op['complex'], 'tkin': pt, 'vint': pv, 'both_formats': True}
    if op.get('op') == 'ham.gauge':
        if not op.get('cases'):
            return None
        i, ue = op['cases'][0]
        try:
            u = dec_mat_g(ue)
        except (TypeError, ValueError, IndexError):
            return None
        L = int(op['L'])
        if u.shape != (2, 2) or not np.allclose(u.conj().T @ u, np.identity(2)) or not (0 <= int(i) < L - 1):
            return None
        return gauge_case(list(op.get('seed_spec', [0, 79, L])) + [1], L, int(i), u)
    if str(op.get('op', '')).startswith('gauge'):
        u = np.array(op['u'], dtype=float)
        return gauge_case(op['seed_spec'], op['L'], op['i'], u[..., 0] + 1j * u[..., 1])
    if op.get('model') not in ('mol', 'spinmol'):
        return None
    if op.get('complex'):
        if not isinstance(op.get('vint_re'), list):
            return None
        t = np.array(op['tkin_re']) + 1j * np.array(op['tkin_im'])
        v = np.array(op['vint_re']) + 1j * np.array(op['vint_im'])
        cplx = True
    else:
        dec2 = lambda a: np.array([[float(frac(x)) for x in r] for r in a])
        t = dec2(op['tkin'])
        L = t.shape[0]
        v = np.array([[[[float(frac(x)) for x in c] for c in b] for b in a] for a in op['vint']]).reshape((L,) * 4)
        cplx = False
    pt, pv = pack(t, v)
    return {'model': op['model'], 'L': int(t.shape[0]), 'kind': 'from-correspondence', 'complex': cplx, 'tkin': pt, 'vint': pv}


def describe(case):
    f = 'spin_molecular_hamiltonian_mpo' if case['model'] == 'spinmol' else 'molecular_hamiltonian_mpo'
    if case.get('clause') == 'gauge':
        return ("h = ptn.molecular_hamiltonian_mpo(tkin, vint, optimize=False); v_l, v_r = ptn.molecular_hamiltonian_orbital_gauge_transform(h, u, i); "
                "compare with the MPO of the rotated coefficients as in test_molecular_hamiltonian_orbital_rotation; arrays are stored as [...,[re, im]]")
    return f"ptn.{f}(tkin, vint, optimize) for optimize in (True, False); arrays are stored as [...,[re, im]]"


def search(tier, seed, hints, budget_s):
    t0 = time.time()
    rng = np.random.default_rng([seed, 707])
    cands = []
    for h in hints:
        if h['kind'] == 'correspondence' and isinstance(h['detail'], dict):
            cs = case_of_op(h['detail']['op'])
            if cs is not None:
                cands.append(cs)

    def gen():
        yield from cands
        # systematic sweep over L with dense tensors first (both models, both paths), then the gauge clause for every i
        for L in range(1, 8):
            t, v = gen_tensors(rng, L, 'dense', real_draw(rng, L % 2 == 0))
            pt, pv = pack(t, v)
            yield {'model': 'mol', 'L': L, 'kind': 'dense', 'complex': L % 2 == 0, 'tkin': pt, 'vint': pv}
        for L in range(1, 5):
            t, v = gen_tensors(rng, L, 'dense', real_draw(rng, L % 2 == 1))
            pt, pv = pack(t, v)
            yield {'model': 'spinmol', 'L': L, 'kind': 'dense', 'complex': L % 2 == 1, 'tkin': pt, 'vint': pv}
        for L in (4, 5, 6, 7):
            yield from gen_gauge_cases(rng, L, force_complex=True)
        yield from (cs for cs in gen_gauge_cases(rng, 8, force_complex=True) if cs['i'] in (4, 5, 6))
        for L in (5, 6):
            t, v = gen_tensors(rng, L, 'dense', real_draw(rng, False))
            pt, pv = pack(t, v)
            yield {'model': 'spinmol', 'L': L, 'kind': 'dense', 'complex': False, 'tkin': pt, 'vint': pv}
        k = 0
        while True:
            k += 1
            if k % 5 == 0:
                yield from gen_gauge_cases(rng)
            elif k % 23 == 0:
                yield gen_case(rng, big=True)
            else:
                yield gen_case(rng)
    for case in gen():
        r = run_case(case)
        if r is not None:
            key = 'c07:' + case['model'] + ':' + str(zlib.crc32(json.dumps(case, sort_keys=True).encode()))
            return {'key': key, 'what': r, 'replay': dict(case, call=describe(case), observed=r)}
        if time.time() - t0 > budget_s:
            return None
    return None


def replay(rp):
    if rp.get('kind') != 'failing-input':
        print('replay: no failing input recorded; obligations that no longer check:', json.dumps(rp.get('no_longer_checks'))[:2000])
        return 1
    case = rp['replay']
    res = run_case(case)
    print('replay', json.dumps({k: v for k, v in case.items() if k not in ('observed', 'call', 'tkin', 'vint')})[:800], '->', res)
    return 1 if res else 0

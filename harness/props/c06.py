"""
C06 -- built-in lattice Hamiltonians equal their textbook definitions.

Correspondence: what `ising_mpo`, `heisenberg_xxz_mpo`, `heisenberg_xxz_spin1_mpo`, `bose_hubbard_mpo`, `fermi_hubbard_mpo`,
`linear_fermionic_mpo` compute themselves -- physical charges, operator tables, chain templates and their coefficients,
the translation of `_local_opchains_to_mpo`, the Ising automaton, the hand-built graph of `linear_fermionic_mpo` -- captured at the
hand-over to `_local_opchains_to_mpo` / `OpGraph.from_opchains` / `OpGraph.from_automaton` / `MPO.from_opgraph`, and the final graph,
bond charges and tensors, against `PtnModel/Model/Hamiltonian.lean` (+ the operator-graph model); complete structures compared exactly.
Search oracle: written from the property text against own dense references (own spin / ladder / Jordan-Wigner matrices).
"""
import itertools, json, time, zlib
import numpy as np
from .. import common, oglib, hamlib
from ..common import Corr, with_alarm, CaseTimeout
from ..oglib import enc, frac

RULE = ('grid: every model (Ising, XXZ spin-1/2, XXZ spin-1, Bose-Hubbard d=1..4, Fermi-Hubbard) x L=1..6 x all parameter triples over {0, 1, -5/4, 1/2} '
        '(thorough: over {0, 1, -1, 1/2, -5/4, 2, -1/2, 3/4, 3}), i.e. all zero patterns incl. the identically-zero one and chains shorter than the longest term; '
        'random dyadic parameters; linear_fermionic: all coefficient vectors over {0, 1, -5/4, 1/2} for L<=3 (thorough L<=4), random for L<=6, both operator types, '
        'all accepted ftype spellings, complex vectors (by linearity). Stream "dense-matrix (numeric, property oracle)": not a model comparison -- the search oracle (as_matrix() vs own dense reference, '
        'Hermiticity, block sparsity, charge shift) evaluated always on fixed small inputs (all models, L=1..4) plus a few random ones. non-trivial = constructor returns an MPO; '
        'distinct = distinct (model, L, d, zero pattern of the parameters, bond dimensions, #nodes, #edges)')

QUICK_VALUES = [0.0, 1.0, -1.25, 0.5]
DENSE_LIMIT = 1100        # largest Hilbert-space dimension the oracle builds dense references for


def zero_pattern(ps):
    return tuple(0 if p == 0 else (1 if p > 0 else -1) for p in ps)


def cls_lattice(op, im):
    if not isinstance(im.get('res'), dict) or 'err' in im['res']:
        return None
    ps = op.get('params_f', op.get('coeff_f', []))
    return (op['model'], op.get('L', len(ps)), op.get('d'), op.get('create'), zero_pattern(ps), hamlib.shape_sig(im))


def grid_ops(tier):
    vals = QUICK_VALUES if tier != 'thorough' else hamlib.PARAM_VALUES
    for L in range(1, 7):
        for ps in itertools.product(vals, repeat=3):
            for model in ('ising', 'xxz', 'xxz1', 'fermi_hubbard'):
                yield hamlib.mk_lattice_op(model, L, ps)
            for d in (1, 2, 3, 4):
                yield hamlib.mk_lattice_op('bose', L, ps, d=d)


def rand_dyadic(rng):
    k = int(rng.integers(0, 6))
    if k == 0:
        return 0.0
    if k == 1:
        return float(rng.choice([1.0, -1.0]))
    return float(rng.integers(-24, 25)) / 8.0


def linfermi_ops(tier, rng, n_random):
    ops = []
    for L in range(1, 4 if tier != 'thorough' else 5):
        for cf in itertools.product(QUICK_VALUES, repeat=L):
            for create in (True, False):
                ops.append(hamlib.mk_linfermi_op(cf, create))
    for _ in range(n_random):
        L = int(rng.integers(1, 7))
        op = hamlib.mk_linfermi_op([rand_dyadic(rng) for _ in range(L)], bool(rng.integers(0, 2)))
        if not op['create']:
            op['ftype'] = str(rng.choice(['a', 'annihilate', 'x', '']))
        ops.append(op)
    return ops


def complex_linfermi(c, rng, n):
    """complex coefficient vectors: the graph handed to from_opgraph against the model by linearity"""
    for _ in range(n):
        L = int(rng.integers(1, 7))
        re = [rand_dyadic(rng) for _ in range(L)]
        im = [rand_dyadic(rng) for _ in range(L)]
        create = bool(rng.integers(0, 2))
        op = hamlib.mk_linfermi_op(re, create)
        op['coeff_f'] = [complex(a, b) for a, b in zip(re, im)]
        impl = hamlib.impl_build(op)
        ms = oglib.drive_retry([hamlib.model_op(hamlib.mk_linfermi_op(v, create)) for v in (re, im, [0.0] * L)])
        if all(isinstance(m.get('graph0'), dict) and 'edges' in m['graph0'] for m in ms):
            want = hamlib.combine_complex(ms[0]['graph0'], ms[1]['graph0'], ms[2]['graph0'], 'graph')
        else:
            want = ms[0].get('graph0')
        c.add({'op': 'ham.build', 'model': 'linfermi', 'create': create, 'coeff_re': re, 'coeff_im': im},
              {'graph0': impl.get('graph0'), 'qd': impl.get('qd')}, {'graph0': want, 'qd': ms[0].get('qd')},
              cls=('linfermi-complex', L, create, zero_pattern(re), zero_pattern(im)), branches=['complex', f'L={L}'])


def _corr_shard(name, shard, nshards, tier, seed):
    c = Corr(name)
    rng = np.random.default_rng([seed, shard, 6])
    thorough = tier == 'thorough'
    if name.startswith('dense-matrix'):
        for case in numeric_cases(tier, seed, shard, nshards):
            r = run_case(case)
            c.add(dict(case, op='oracle (numeric)'), {'ok': True, 'oracle_ok': r is None, 'observed': r},
                  {'ok': True, 'oracle_ok': True, 'observed': None},
                  cls=('oracle', case['model'], case.get('L', len(case.get('coeff', []))), case.get('d')), branches=['oracle:' + case['model']])
        return c
    if name == 'lattice.grid':
        ops = [op for k, op in enumerate(grid_ops(tier)) if k % nshards == shard]
        for i in range(0, len(ops), 200):
            hamlib.run_builds(c, ops[i:i + 200], cls_fn=cls_lattice)
    elif name == 'lattice.random':
        n = (600 if not thorough else 6000) // nshards + 1
        ops = []
        for _ in range(n):
            model = str(rng.choice(['ising', 'xxz', 'xxz1', 'bose', 'fermi_hubbard']))
            L = int(rng.integers(1, 7))
            ps = [rand_dyadic(rng) for _ in range(3)]
            ops.append(hamlib.mk_lattice_op(model, L, ps, d=int(rng.integers(1, 5)) if model == 'bose' else None))
        hamlib.run_builds(c, ops, cls_fn=cls_lattice)
    else:
        allops = linfermi_ops(tier, np.random.default_rng([seed, 66]), 200 if not thorough else 2000)
        ops = [op for k, op in enumerate(allops) if k % nshards == shard]
        hamlib.run_builds(c, ops, cls_fn=cls_lattice, extra_branches=lambda op, im: [f'L={len(op["coeff"])}', 'create' if op['create'] else 'annihilate'])
        complex_linfermi(c, rng, (100 if not thorough else 1000) // nshards + 1)
    return c


def numeric_cases(tier, seed, shard, nshards):
    """fixed small inputs on which the property's own oracle (dense matrix, Hermiticity, block sparsity, charge shift) is always evaluated"""
    rng = np.random.default_rng([seed, shard, 661])
    cases = []
    for L in (1, 2, 3, 4):
        for ps in ([0.7, -1.3, 0.4], [0.0, 0.9, -0.6], [1.1, 0.0, 0.0]):
            for model in ('ising', 'xxz', 'xxz1', 'fermi_hubbard'):
                cases.append({'model': model, 'L': L, 'params': list(ps)})
            for d in (2, 3):
                cases.append({'model': 'bose', 'L': L, 'params': list(ps), 'd': d})
        for create in (True, False):
            cases.append({'model': 'linfermi', 'coeff': [[0.3 * (k + 1), -0.2 * k] for k in range(L)], 'create': create,
                          'ftype': 'c' if create else 'a', 'real_dtype': False})
    cases = [cs for k, cs in enumerate(cases) if k % nshards == shard]
    for _ in range(3 if tier != 'thorough' else 30):
        cases.append(gen_case(rng))
    return cases


def correspondence(tier, seed):
    out = []
    for name in ('lattice.grid', 'lattice.random', 'linfermi', 'dense-matrix (numeric, property oracle)'):
        c = common.parallel_shards(_corr_shard, name, tier, seed)
        if name == 'lattice.grid':
            c.exhaustive = True
            c.notes.append('complete parameter grid of RULE for every model and L=1..6')
        out.append(c)
    return out


# ----------------------------------------------------------------------------- oracle (property text; used only after a break)

def phys_dim(case):
    return {'ising': 2, 'xxz': 2, 'xxz1': 3, 'fermi_hubbard': 4, 'linfermi': 2}.get(case['model']) or case['d']


def reference(case):
    m, ps = case['model'], case.get('params')
    if m == 'ising':
        return hamlib.ref_ising(case['L'], *ps)
    if m == 'xxz':
        return hamlib.ref_xxz(case['L'], *ps)
    if m == 'xxz1':
        return hamlib.ref_xxz(case['L'], *ps, spin1=True)
    if m == 'bose':
        return hamlib.ref_bose_hubbard(case['d'], case['L'], *ps)
    if m == 'fermi_hubbard':
        return hamlib.ref_fermi_hubbard(case['L'], *ps)
    coeff = [complex(a, b) for a, b in case['coeff']]
    return hamlib.ref_linfermi(coeff, case['create'])


def construct(case):
    import pytenet as ptn
    m, ps = case['model'], case.get('params')
    if m == 'ising':
        return ptn.ising_mpo(case['L'], *ps)
    if m == 'xxz':
        return ptn.heisenberg_xxz_mpo(case['L'], *ps)
    if m == 'xxz1':
        return ptn.heisenberg_xxz_spin1_mpo(case['L'], *ps)
    if m == 'bose':
        return ptn.bose_hubbard_mpo(case['d'], case['L'], *ps)
    if m == 'fermi_hubbard':
        return ptn.fermi_hubbard_mpo(case['L'], *ps)
    coeff = np.array([complex(a, b) for a, b in case['coeff']])
    if all(b == 0 for _, b in case['coeff']) and case.get('real_dtype'):
        coeff = coeff.real
    return ptn.linear_fermionic_mpo(coeff, case['ftype'])


ZERO_TAG = 'zero operator:'


def known_findings_present(k):
    """F14: the listed inputs, replayed on the real code on every run"""
    if k.get('key') != 'zero-operator-raises':
        return False
    import pytenet as ptn
    hits = 0
    for f in (lambda: ptn.heisenberg_xxz_mpo(1, 0.7, 0.7, 0.), lambda: ptn.fermi_hubbard_mpo(2, 0., 0., 0.)):
        try:
            f()
        except AssertionError:
            hits += 1
        except Exception:
            pass
    return hits == 2


def run_case(case):
    """the property on one input: None or a description of the violation"""
    L = case['L'] if 'L' in case else len(case['coeff'])
    d = phys_dim(case)
    if d ** L > DENSE_LIMIT:
        return None
    ref = np.asarray(reference(case))
    if not np.any(ref != 0):
        # the identically-zero operator (every parameter zero, or L = 1 with only two-site couplings): the chain-based constructors
        # raise a bare AssertionError (known finding F14); a constructor that returns must return the zero operator
        try:
            mpo0 = with_alarm(60.0, lambda: construct(case))
        except AssertionError:
            # the listed class of known finding F14 (replayed by known_findings_present on every run); not returned by the search,
            # so that it keeps looking for a DIFFERENT violation after a break
            return None
        except Exception as ex:
            return f'constructor raises {type(ex).__name__}: {ex}'
        M0 = np.asarray(mpo0.as_matrix())
        if M0.shape != ref.shape or np.abs(M0).max(initial=0) > 1e-12:
            return 'documented formula is the zero operator, the returned MPO is not'
        return None
    try:
        mpo = with_alarm(60.0, lambda: hamlib.call_again_after_mutation(lambda: construct(case), case))
    except CaseTimeout:
        return 'constructor does not return within 60 s'
    except Exception as ex:
        return f'constructor raises {type(ex).__name__}: {ex}'
    again = ' (second call with the same arguments, after the first result was modified in place)' if getattr(mpo, '_verif_note', None) else ''
    if len(mpo.A) != L:
        return f'MPO has {len(mpo.A)} sites, expected {L}' + again
    if [int(x) for x in mpo.qd] is None or len(mpo.qd) != d:
        return f'physical dimension {len(mpo.qd)}, expected {d}'
    M = np.asarray(mpo.as_matrix())
    if M.shape != ref.shape:
        return f'dense matrix has shape {M.shape}, expected {ref.shape}'
    scale = max(1.0, float(np.max(np.abs(ref))))
    err = float(np.max(np.abs(M - ref)))
    if err > 1e-12 * scale:
        return f'dense matrix differs from the documented formula by {err:.3e}' + again
    if case['model'] != 'linfermi':
        herr = float(np.max(np.abs(M - M.conj().T)))
        if herr > 1e-12 * scale:
            return f'Hamiltonian is not Hermitian for real parameters (asymmetry {herr:.3e})'
    r = hamlib.check_block_sparse(mpo)
    if r:
        return 'tensors are not block sparse under qd/qD: ' + r
    r = hamlib.check_dense_charge(mpo, M)
    if r:
        return 'charges are not conserved / shifted by a fixed amount: ' + r
    return None


def rand_real(rng):
    k = int(rng.integers(0, 8))
    if k == 0:
        return 0.0
    if k == 1:
        return float(rng.choice([1.0, -1.0]))
    return float(np.round(rng.normal() * 1.5, 3))


def gen_case(rng):
    model = str(rng.choice(['ising', 'xxz', 'xxz1', 'bose', 'fermi_hubbard', 'linfermi']))
    if model == 'linfermi':
        L = int(rng.integers(1, 7))
        cplx = bool(rng.integers(0, 2))
        coeff = [[rand_real(rng), rand_real(rng) if cplx else 0.0] for _ in range(L)]
        create = bool(rng.integers(0, 2))
        return {'model': model, 'coeff': coeff, 'create': create,
                'ftype': str(rng.choice(['c', 'create', 'creation'])) if create else str(rng.choice(['a', 'annihilate'])),
                'real_dtype': bool(rng.integers(0, 2))}
    d = int(rng.integers(1, 5)) if model == 'bose' else None
    dd = {'ising': 2, 'xxz': 2, 'xxz1': 3, 'fermi_hubbard': 4}.get(model) or d
    Lmax = 6
    while dd ** Lmax > DENSE_LIMIT:
        Lmax -= 1
    case = {'model': model, 'L': int(rng.integers(1, Lmax + 1)), 'params': [rand_real(rng) for _ in range(3)]}
    if d is not None:
        case['d'] = d
    return case


def case_of_op(op):
    """candidate inputs from a disagreeing correspondence op"""
    if op.get('op') == 'oracle (numeric)':
        return {k: v for k, v in op.items() if k != 'op'}
    if op.get('model') == 'linfermi':
        if 'coeff_re' in op:
            cf = [[a, b] for a, b in zip(op['coeff_re'], op['coeff_im'])]
        else:
            cf = [[float(frac(x)), 0.0] for x in op['coeff']]
        return {'model': 'linfermi', 'coeff': cf, 'create': bool(op['create']), 'ftype': 'c' if op['create'] else 'a', 'real_dtype': True}
    if op.get('model') in ('ising', 'xxz', 'xxz1', 'bose', 'fermi_hubbard'):
        case = {'model': op['model'], 'L': op['L'], 'params': [float(frac(x)) for x in op['params']]}
        if 'd' in op:
            case['d'] = op['d']
        return case
    return None


def describe(case):
    m = case['model']
    if m == 'linfermi':
        return f"ptn.linear_fermionic_mpo(coeff, {case['ftype']!r}) with coeff[i] = re + 1j*im from 'coeff'"
    fn = {'ising': 'ising_mpo(L, J, h, g)', 'xxz': 'heisenberg_xxz_mpo(L, J, D, h)', 'xxz1': 'heisenberg_xxz_spin1_mpo(L, J, D, h)',
          'bose': 'bose_hubbard_mpo(d, L, t, U, mu)', 'fermi_hubbard': 'fermi_hubbard_mpo(L, t, U, mu)'}[m]
    return 'ptn.' + fn + " with the values of 'params' in that order"


def search(tier, seed, hints, budget_s):
    t0 = time.time()
    rng = np.random.default_rng([seed, 606])
    cands = []
    for h in hints:
        if h['kind'] == 'correspondence' and isinstance(h['detail'], dict):
            cs = case_of_op(h['detail']['op'])
            if cs is not None:
                cands.append(cs)

    def gen():
        yield from cands
        # systematic small sweep first: every model, every L, a generic and a few degenerate parameter sets
        for L in range(1, 7):
            for ps in ([0.7, -1.3, 0.4], [1.0, 1.0, 1.0], [0.0, 0.9, -0.6], [1.1, 0.0, 0.0], [0.0, 0.0, 0.8], [-0.5, 0.3, 0.0]):
                for model in ('ising', 'xxz', 'xxz1', 'fermi_hubbard'):
                    yield {'model': model, 'L': L, 'params': list(ps)}
                for d in (1, 2, 3, 4):
                    yield {'model': 'bose', 'L': L, 'params': list(ps), 'd': d}
            for create in (True, False):
                yield {'model': 'linfermi', 'coeff': [[0.3 * (k + 1), -0.2 * k] for k in range(L)], 'create': create,
                       'ftype': 'c' if create else 'a', 'real_dtype': False}
        while True:
            yield gen_case(rng)
    for case in gen():
        r = run_case(case)
        if r is not None:
            key = 'c06:' + case['model'] + ':' + str(zlib.crc32(json.dumps(case, sort_keys=True).encode()))
            if r.startswith(ZERO_TAG):
                key = 'zero-operator-raises'      # known finding F14 (any other violation keeps its own key)
            return {'key': key, 'what': r, 'replay': dict(case, call=describe(case), observed=r)}
        if time.time() - t0 > budget_s:
            return None
    return None


def replay(rp):
    if rp.get('kind') != 'failing-input':
        print('replay: no failing input recorded; obligations that no longer check:', json.dumps(rp.get('no_longer_checks'))[:2000])
        return 1
    case = rp['replay']
    res = run_case(case)
    print('replay', json.dumps({k: v for k, v in case.items() if k not in ('observed', 'call')})[:1500], '->', res)
    return 1 if res else 0

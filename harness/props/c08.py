"""
C08 — real-time TDVP conserves norm, energy and quantum numbers.
Correspondence: whole calls of integrate_local_singlesite / integrate_local_twosite under uninterpreted kernels (QR, SVD, norms, sorting,
tridiagonal eigensolver, scalar exp) against `PtnModel/Model/Evolution.lean`: final tensors, charges, returned norm, H untouched.
Oracle (search only): real kernels; norm / energy conservation, returned norm, bond monotonicity, H unchanged.
"""
import json, time
import numpy as np
from .. import evolib, mpsgen
from .c01 import dense_mps, dense_mpo

RULE = ('random Hermitian / built-in / general MPOs (L 1..3, d 2, D<=2) x random sector-consistent MPS x dt in {±i/2, i/4, i, 1/2, 1/4+i/2} x numiter 1..3 x numsteps 1..2 '
        'x tol_split; distinct = (integrator, L, bond profile, numiter, numsteps, dt, tol, outcome, kernel-call profile)')
correspondence = evolib.corr_tdvp


def oracle_case(rng):
    import pytenet as ptn
    from .c03 import rnd_like
    two = bool(rng.random() < 0.5)
    L = int(rng.integers(2 if two else 1, 5))
    if rng.random() < 0.5:
        H = evolib.builtin_mpo(rng, L); qd = H.qd
    else:
        qd = mpsgen.rand_qd(rng, 2); H = evolib.hermitian_mpo(rng, L, qd, exact_vals=False)
    psi = rnd_like(rng, mpsgen.rand_mps(rng, L=L, qd=qd, maxD=int(rng.integers(1, 5))), rng.random() < 0.7)
    v0 = dense_mps(psi)
    n0 = np.linalg.norm(v0)
    if n0 < 1e-6:
        return None
    Hd = dense_mpo(H)
    if np.abs(Hd - Hd.conj().T).max() > 1e-12:
        return None
    e0 = np.vdot(v0, Hd @ v0).real / n0 ** 2
    dt = 1j * float(rng.choice([0.01, 0.05, 0.1, -0.05]))
    numiter = int(rng.integers(1, 8)) if rng.random() < 0.5 else 25
    numsteps = int(rng.integers(1, 4))
    D0 = list(psi.bond_dims); q0 = (psi.qD[0].copy(), psi.qD[-1].copy())
    Hs = mpsgen.snapshot(H)
    what = f'{"two" if two else "single"}-site TDVP, L={L}, D={D0}, dt={dt}, numsteps={numsteps}, numiter={numiter}'
    try:
        for rep in range(2):   # repeated calls on the same state
            if rep == 1 and L >= 2 and rng.random() < 0.5:
                # ... with a tiny in-place rescaling of one tensor in between (the state left by the first call is canonical; a
                # nearly canonical state must still be normalised properly: seeded change C08-i)
                j = int(rng.integers(1, L))
                psi.A[j] = psi.A[j] * (1 + float(rng.choice([4e-6, 1e-7, 3e-3])))
                what += f', tensor {j} rescaled between the calls'
            nin = np.linalg.norm(dense_mps(psi))
            if two:
                r = ptn.integrate_local_twosite(H, psi, dt, numsteps, numiter_lanczos=numiter, tol_split=0)
            else:
                r = ptn.integrate_local_singlesite(H, psi, dt, numsteps, numiter_lanczos=numiter)
            if abs(r - nin) > 1e-8 * max(1, nin):
                return f'{what}: returned {r} but the norm of the input state is {nin}'
            v = dense_mps(psi)
            if abs(np.linalg.norm(v) - 1) > 1e-7:
                return f'{what}: norm after evolution is {np.linalg.norm(v)}'
            e = np.vdot(v, Hd @ v).real
            if abs(e - e0) > 1e-7 * max(1, abs(e0), np.abs(Hd).max()):
                return f'{what}: energy changed from {e0} to {e}'
            if mpsgen.snapshot(H) != Hs:
                return f'{what}: the Hamiltonian MPO was modified'
            if not mpsgen.is_wf_mps(psi):
                return f'{what}: evolved state violates block sparsity'
            if not (np.array_equal(psi.qD[0], q0[0]) and np.array_equal(psi.qD[-1], q0[1])):
                return f'{what}: boundary quantum numbers changed'
            if not two and any(a > b for a, b in zip(psi.bond_dims, D0)):
                return f'{what}: bond dimensions grew from {D0} to {psi.bond_dims}'
    except Exception as ex:
        return f'{what}: raises {type(ex).__name__}: {ex}'
    return None


def search(tier, seed, hints, budget_s):
    t0 = time.time(); it = 0
    while time.time() - t0 < budget_s:
        r = oracle_case(np.random.default_rng([seed, 808, it]))
        if r is not None:
            return {'key': f'c08:{seed}:{it}', 'what': r,
                    'replay': {'call': 'harness.props.c08.oracle_case(np.random.default_rng([seed, 808, it]))', 'seed': seed, 'it': it, 'observed': r}}
        it += 1
    return None


def replay(rp):
    if rp.get('kind') != 'failing-input':
        print('replay: no failing input recorded; obligations that no longer check:', json.dumps(rp.get('no_longer_checks'))[:2000])
        return 1
    r = rp['replay']
    res = oracle_case(np.random.default_rng([r['seed'], 808, r['it']]))
    print('replay ->', res)
    return 1 if res else 0

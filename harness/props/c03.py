"""
C03 — MPS/MPO arithmetic agrees with dense linear algebra.
Correspondence (exact, no kernels): add/sub of MPS and MPO, MPO product, apply_operator, identity, as_vector / as_matrix (dense and
sparse form, plus digit-indexed amplitudes), merge pairs; with uninterpreted SVD: from_vector and split_mps_tensor (all three distributions).
Oracle (search only): dense numpy references on random real/complex data with real kernels.
"""
import json, time
import numpy as np
from .. import common, exact, gen, kernels, mpsgen
from ..common import Corr, py_call
from .c01 import dense_mps, dense_mpo

RULE = ('random compatible operand pairs (same qd, matching boundary charges, independent bond profiles, L 1..4 incl. L=1 and L=2, D=1 chains), '
        'dtypes int/float/complex, alpha=+-1; from_vector d<=3,n<=4; split_mps_tensor with the 3 distributions and tol on boundaries; '
        'malformed: mismatching boundary charges / qd / lengths; distinct = (op, L, d, bond profiles, dtype)')


def pair_mps(rng, same_boundary=True):
    L = int(rng.integers(1, 5)); d = int(rng.integers(1, 4))
    qd = mpsgen.rand_qd(rng, d)
    a = mpsgen.rand_mps(rng, L=L, qd=qd, maxD=int(rng.integers(1, 4)))
    bnd = (int(a.qD[0][0]), int(a.qD[-1][0])) if same_boundary else (int(a.qD[0][0]) + 1, int(a.qD[-1][0]))
    b = mpsgen.rand_mps(rng, L=L, qd=qd, maxD=int(rng.integers(1, 4)), boundary=bnd, consistent=rng.random() < 0.5)
    return a, b


def pair_mpo(rng, same_boundary=True, maxL=3):
    L = int(rng.integers(1, maxL + 1)); d = int(rng.integers(1, 3))
    qd = mpsgen.rand_qd(rng, d)
    a = mpsgen.rand_mpo(rng, L=L, qd=qd, maxD=int(rng.integers(1, 4)))
    bnd = (int(a.qD[0][0]), int(a.qD[-1][0])) if same_boundary else (int(a.qD[0][0]), int(a.qD[-1][0]) - 1)
    b = mpsgen.rand_mpo(rng, L=L, qd=qd, maxD=int(rng.integers(1, 4)), boundary=bnd, consistent=rng.random() < 0.5)
    return a, b


def digits_for(rng, d, L, k=4):
    return [[int(x) for x in rng.integers(0, d, L)] for _ in range(k)]


def _shard(name, shard, nshards, tier, seed):
    import pytenet as ptn
    c = Corr(name)
    rng = np.random.default_rng([seed, shard, 3, sum(map(ord, name))])
    n = (320 if tier == 'quick' else 16000) // nshards + 1
    ops, impls, sigs = [], [], []

    def push(op, f, sig):
        try:
            r = py_call(f)
        except exact.Inexact:
            c.skipped += 1; return
        ops.append(op); impls.append(r); sigs.append(sig)

    for _ in range(n):
        try:
            if name == 'mps.add':
                ok = rng.random() < 0.9
                a, b = pair_mps(rng, ok)
                alpha = 1 if rng.random() < 0.5 else -1
                op = {'op': 'mps.add', 'a': mpsgen.enc_mp(a), 'b': mpsgen.enc_mp(b), 'alpha': alpha}

                def f(a=a, b=b, alpha=alpha):
                    r = (a + b) if alpha == 1 else (a - b)
                    return {'mps': mpsgen.enc_mp(r), 'wf': mpsgen.is_wf_mps(r)}
                push(op, f, ('mps.add', a.nsites, len(a.qd), tuple(a.bond_dims), tuple(b.bond_dims), a.A[0].dtype.kind + b.A[0].dtype.kind, alpha))
            elif name == 'mpo.add':
                ok = rng.random() < 0.9
                a, b = pair_mpo(rng, ok)
                alpha = 1 if rng.random() < 0.5 else -1
                op = {'op': 'mpo.add', 'a': mpsgen.enc_mp(a), 'b': mpsgen.enc_mp(b), 'alpha': alpha}

                def f(a=a, b=b, alpha=alpha):
                    r = (a + b) if alpha == 1 else (a - b)
                    return {'mpo': mpsgen.enc_mp(r), 'wf': mpsgen.is_wf_mpo(r)}
                push(op, f, ('mpo.add', a.nsites, len(a.qd), tuple(a.bond_dims), tuple(b.bond_dims), a.A[0].dtype.kind + b.A[0].dtype.kind, alpha))
            elif name == 'mpo.mul':
                a, b = pair_mpo(rng, True)
                op = {'op': 'mpo.mul', 'a': mpsgen.enc_mp(a), 'b': mpsgen.enc_mp(b)}

                def f(a=a, b=b):
                    r = a @ b
                    return {'mpo': mpsgen.enc_mp(r), 'wf': mpsgen.is_wf_mpo(r)}
                push(op, f, ('mpo.mul', a.nsites, len(a.qd), tuple(a.bond_dims), tuple(b.bond_dims), a.A[0].dtype.kind + b.A[0].dtype.kind))
            elif name == 'op.apply':
                L = int(rng.integers(1, 4)); d = int(rng.integers(1, 3)); qd = mpsgen.rand_qd(rng, d)
                o = mpsgen.rand_mpo(rng, L=L, qd=qd, maxD=int(rng.integers(1, 4)))
                m = mpsgen.rand_mps(rng, L=L, qd=qd if rng.random() < 0.95 else qd + 1, maxD=int(rng.integers(1, 4)))
                op = {'op': 'op.apply', 'mpo': mpsgen.enc_mp(o), 'mps': mpsgen.enc_mp(m)}

                def f(o=o, m=m):
                    r = ptn.apply_operator(o, m)
                    return {'mps': mpsgen.enc_mp(r), 'wf': mpsgen.is_wf_mps(r)}
                push(op, f, ('op.apply', L, d, tuple(o.bond_dims), tuple(m.bond_dims), o.A[0].dtype.kind + m.A[0].dtype.kind))
            elif name == 'dense':
                k = int(rng.integers(0, 3))
                if k == 0:
                    m = mpsgen.rand_mps(rng, L=int(rng.integers(1, 5)), maxD=int(rng.integers(1, 4)))
                    dg = digits_for(rng, len(m.qd), m.nsites)
                    op = {'op': 'mps.as_vector', 'mps': mpsgen.enc_mp(m), 'digits': dg}

                    def f(m=m, dg=dg):
                        v = m.as_vector()
                        d = len(m.qd)
                        flat = [int(sum(s * d ** (m.nsites - 1 - i) for i, s in enumerate(ds))) for ds in dg]
                        return {'vec': [exact.enc_scalar(x) for x in v], 'amps': [exact.enc_scalar(v[i]) for i in flat]}
                    push(op, f, ('as_vector', m.nsites, len(m.qd), tuple(m.bond_dims), m.A[0].dtype.kind))
                elif k == 1:
                    o = mpsgen.rand_mpo(rng, L=int(rng.integers(1, 4)), maxD=int(rng.integers(1, 4)))
                    if o.A[0].dtype.kind != 'i' and rng.random() < 0.15:
                        # badly balanced / tiny operators (exact power-of-two scalings): dense and sparse forms must still agree
                        k0 = int(rng.integers(0, o.nsites)); e = int(rng.choice([-60, -70, 60]))
                        o.A[k0] = o.A[k0] * 2.0 ** e
                        if rng.random() < 0.5 and o.nsites > 1:
                            k1 = (k0 + 1) % o.nsites
                            o.A[k1] = o.A[k1] * 2.0 ** (-e)
                    d = len(o.qd)
                    dg = [[a, b] for a, b in zip(digits_for(rng, d, o.nsites), digits_for(rng, d, o.nsites))]
                    sparse = bool(rng.random() < 0.5)
                    # sparse form vs. model of the sparse path (MPO.asMatrixSparse), dense form vs. dense model
                    op = {'op': 'mpo.as_matrix', 'mpo': mpsgen.enc_mp(o), 'digits': dg, 'sparse': sparse}

                    def f(o=o, dg=dg, sparse=sparse):
                        M = o.as_matrix(sparse_format=sparse)
                        if sparse:
                            M = M.toarray()
                        d = len(o.qd); L = o.nsites
                        fl = lambda ds: int(sum(s * d ** (L - 1 - i) for i, s in enumerate(ds)))
                        return {'mat': exact.enc_array(M), 'elems': [exact.enc_scalar(M[fl(a), fl(b)]) for a, b in dg]}
                    push(op, f, ('as_matrix', sparse, o.nsites, d, tuple(o.bond_dims), o.A[0].dtype.kind))
                else:
                    d = int(rng.integers(1, 4)); L = int(rng.integers(0, 4)); qd = mpsgen.rand_qd(rng, d)
                    sc = float(rng.choice([1, 2, -0.5]))
                    op = {'op': 'mpo.identity', 'qd': exact.enc_ints(qd), 'L': L, 'scale': exact.enc_real(sc)}
                    push(op, lambda qd=qd, L=L, sc=sc: {'mpo': mpsgen.enc_mp(ptn.MPO.identity(qd, L, scale=sc))}, ('identity', L, d, sc))
            elif name == 'svd-based':
                if rng.random() < 0.5:
                    d = int(rng.integers(1, 4)); ns = int(rng.integers(1, 4 if d > 2 else 5))
                    dt = str(rng.choice(['int', 'float', 'complex']))
                    v = gen.exact_values(rng, (d ** ns,), dt)
                    if rng.random() < 0.06:
                        v = np.zeros_like(v)    # the zero vector (F12: every singular value is discarded, dummy bond kept)
                    tol = float(rng.choice([0, 0, 0.25, 0.5, 0.125]))
                    rec = kernels.Recorder()

                    def f(d=d, ns=ns, v=v, tol=tol, rec=rec):
                        with kernels.patched(rec, ('bond_ops', 'mps')):
                            m = ptn.MPS.from_vector(d, ns, v, tol=tol)
                        return {'mps': mpsgen.enc_mp(m), 'vec': [exact.enc_scalar(x) for x in m.as_vector()]}
                    r = py_call(f)
                    if rec.inexact:
                        c.skipped += 1; continue
                    op = {'op': 'mps.from_vector', 'd': d, 'nsites': ns, 'v': [exact.enc_scalar(x) for x in v], 'tol': exact.enc_real(tol), 'kernels': rec.calls}
                    ops.append(op); impls.append(r); sigs.append(('from_vector', d, ns, dt, tol, r.get('ok')))
                else:
                    d0 = int(rng.integers(1, 3)); d1 = int(rng.integers(1, 3))
                    qd0 = mpsgen.rand_qd(rng, d0); qd1 = mpsgen.rand_qd(rng, d1)
                    D0 = int(rng.integers(1, 4)); D2 = int(rng.integers(1, 4))
                    qD0 = gen.charges(rng, D0, 2); qD2 = gen.charges(rng, D2, 2)
                    dt = str(rng.choice(['int', 'float', 'complex']))
                    A = gen.exact_values(rng, (d0 * d1, D0, D2), dt)
                    mask = ptn.qnumber_outer_sum([ptn.qnumber_flatten([qd0, qd1]), qD0, -qD2])
                    A = np.where(mask == 0, A, 0).astype(A.dtype)
                    distr = int(rng.integers(0, 3)); tol = float(rng.choice([0, 0, 0.25, 0.5]))
                    rec = kernels.Recorder()
                    A0 = A.copy()

                    def f(A=A, rec=rec, distr=distr, tol=tol, qd0=qd0, qd1=qd1, qD0=qD0, qD2=qD2):
                        with kernels.patched(rec, ('bond_ops', 'mps')):
                            B0, B1, qb = ptn.split_mps_tensor(A, qd0, qd1, [qD0, qD2], ['left', 'right', 'sqrt'][distr], tol)
                            mg = ptn.merge_mps_tensor_pair(B0, B1)
                        return {'A0': exact.enc_array(B0), 'A1': exact.enc_array(B1), 'qbond': exact.enc_ints(qb), 'merged': exact.enc_array(mg)}
                    r = py_call(f)
                    if rec.inexact:
                        c.skipped += 1; continue
                    r['input_unchanged'] = bool(np.array_equal(A, A0))
                    op = {'op': 'mps.split_tensor', 'A': exact.enc_array(A0), 'qd0': exact.enc_ints(qd0), 'qd1': exact.enc_ints(qd1),
                          'qD0': exact.enc_ints(qD0), 'qD2': exact.enc_ints(qD2), 'distr': distr, 'tol': exact.enc_real(tol), 'kernels': rec.calls}
                    ops.append(op); impls.append(r); sigs.append(('split', d0, d1, D0, D2, dt, distr, tol))
        except exact.Inexact:
            c.skipped += 1
    replies = common.drive(ops)
    for op, im, mo, sg in zip(ops, impls, replies, sigs):
        if 'input_unchanged' in im:
            mo = dict(mo); mo['input_unchanged'] = True
        br = [str(sg[0])]
        if not im['ok']:
            br.append('err=' + im['err'])
        c.add(op, im, mo, cls=sg, branches=br)
    return c


def correspondence(tier, seed):
    return [common.parallel_shards(_shard, nm, tier, seed) for nm in ('mps.add', 'mpo.add', 'mpo.mul', 'op.apply', 'dense', 'svd-based')]


# ----------------------------------------------------------------------------- oracle (tests)

def rnd_like(rng, obj, cplx):
    """same charges/shapes, generic real or complex entries"""
    import pytenet as ptn
    ismpo = obj.A[0].ndim == 4
    o = (mpsgen.copy_mpo if ismpo else mpsgen.copy_mps)(obj)
    for i, A in enumerate(o.A):
        B = rng.standard_normal(A.shape) + (1j * rng.standard_normal(A.shape) if cplx else 0)
        o.A[i] = np.where(A != 0, B, 0) if rng.random() < 0.3 else np.where(
            ptn.qnumber_outer_sum(([o.qd, -o.qd] if ismpo else [o.qd]) + [o.qD[i], -o.qD[i + 1]]) == 0, B, 0)
    return o


def oracle_case(rng):
    import pytenet as ptn
    k = int(rng.integers(0, 8))
    tol = 1e-9
    cplx = bool(rng.random() < 0.5)
    try:
        if k == 0:
            a, b = pair_mps(rng); a = rnd_like(rng, a, cplx); b = rnd_like(rng, b, rng.random() < 0.5)
            va, vb = dense_mps(a), dense_mps(b)
            for nm, r, ref in (('a+b', a + b, va + vb), ('a-b', a - b, va - vb)):
                if np.abs(dense_mps(r) - ref).max() > tol * max(1, np.abs(ref).max()):
                    return {'what': f'MPS {nm}: dense mismatch', 'case': ('mps.addsub', a, b)}
                if np.abs(r.as_vector() - ref).max() > tol * max(1, np.abs(ref).max()):
                    return {'what': f'MPS {nm}: as_vector mismatch', 'case': ('mps.addsub', a, b)}
        elif k == 1:
            a, b = pair_mpo(rng); a = rnd_like(rng, a, cplx); b = rnd_like(rng, b, rng.random() < 0.5)
            Ma, Mb = dense_mpo(a), dense_mpo(b)
            for nm, r, ref in (('a+b', a + b, Ma + Mb), ('a-b', a - b, Ma - Mb), ('a@b', a @ b, Ma @ Mb)):
                if np.abs(dense_mpo(r) - ref).max() > tol * max(1, np.abs(ref).max()):
                    return {'what': f'MPO {nm}: dense mismatch', 'case': ('mpo.arith', a, b)}
        elif k == 2:
            L = int(rng.integers(1, 4)); d = int(rng.integers(1, 3)); qd = mpsgen.rand_qd(rng, d)
            o = rnd_like(rng, mpsgen.rand_mpo(rng, L=L, qd=qd), cplx); m = rnd_like(rng, mpsgen.rand_mps(rng, L=L, qd=qd), rng.random() < 0.5)
            ref = dense_mpo(o) @ dense_mps(m)
            if np.abs(dense_mps(ptn.apply_operator(o, m)) - ref).max() > tol * max(1, np.abs(ref).max()):
                return {'what': 'apply_operator: dense mismatch', 'case': ('apply', o, m)}
        elif k == 3:
            o = rnd_like(rng, mpsgen.rand_mpo(rng, L=int(rng.integers(1, 4))), cplx)
            if rng.random() < 0.3:
                # badly balanced or uniformly tiny operators: the two matrix forms must agree relative to the operator's size
                k0 = int(rng.integers(0, o.nsites)); e = float(rng.choice([1e-16, 1e-17, 1e16]))
                o.A[k0] = o.A[k0] * e
                if rng.random() < 0.5 and o.nsites > 1:
                    o.A[(k0 + 1) % o.nsites] = o.A[(k0 + 1) % o.nsites] / e
            ref = dense_mpo(o)
            sc = np.abs(ref).max()
            if np.abs(o.as_matrix() - ref).max() > tol * (sc if sc > 0 else 1):
                return {'what': 'as_matrix (dense form) mismatch', 'case': ('as_matrix', o, None)}
            if np.abs(o.as_matrix(sparse_format=True).toarray() - ref).max() > tol * (sc if sc > 0 else 1):
                return {'what': 'as_matrix (sparse form) differs from dense', 'case': ('as_matrix', o, None)}
        elif k == 4:
            d = int(rng.integers(1, 4)); L = int(rng.integers(1, 4)); qd = mpsgen.rand_qd(rng, d); sc = float(rng.choice([1, 2.5, -1]))
            I = ptn.MPO.identity(qd, L, scale=sc)
            if np.abs(dense_mpo(I) - sc ** L * np.identity(d ** L)).max() > tol:
                return {'what': 'identity MPO is not scale^L * identity', 'case': ('identity', (qd.tolist(), L, sc), None)}
        elif k == 5:
            d = int(rng.integers(1, 4)); ns = int(rng.integers(1, 5))
            v = rng.standard_normal(d ** ns) + (1j * rng.standard_normal(d ** ns) if cplx else 0)
            if rng.random() < 0.1:
                v = np.zeros_like(v)     # regression corpus of F12 (zero vector)
            try:
                m = ptn.MPS.from_vector(d, ns, v, tol=0)
            except AssertionError as ex:
                return {'what': f'from_vector(tol=0) raises AssertionError on a vector of norm {np.linalg.norm(v):.3g}', 'case': ('from_vector', (d, ns, v), None)}
            if np.abs(dense_mps(m) - v).max() > 1e-9 * max(1, np.abs(v).max()):
                return {'what': 'from_vector(tol=0) does not reproduce the vector', 'case': ('from_vector', (d, ns, v), None)}
            if not mpsgen.is_wf_mps(m):
                return {'what': 'from_vector result has inconsistent quantum numbers', 'case': ('from_vector', (d, ns, v), None)}
        elif k == 6:
            d0 = int(rng.integers(1, 3)); d1 = int(rng.integers(1, 3)); qd0 = mpsgen.rand_qd(rng, d0); qd1 = mpsgen.rand_qd(rng, d1)
            D0 = int(rng.integers(1, 4)); D2 = int(rng.integers(1, 4)); qD0 = gen.charges(rng, D0, 2); qD2 = gen.charges(rng, D2, 2)
            A = rng.standard_normal((d0 * d1, D0, D2)) + (1j * rng.standard_normal((d0 * d1, D0, D2)) if cplx else 0)
            A = np.where(ptn.qnumber_outer_sum([ptn.qnumber_flatten([qd0, qd1]), qD0, -qD2]) == 0, A, 0)
            for distr in ('left', 'right', 'sqrt'):
                A0 = A.copy()
                B0, B1, qb = ptn.split_mps_tensor(A, qd0, qd1, [qD0, qD2], distr, 0)
                if np.abs(ptn.merge_mps_tensor_pair(B0, B1) - A0).max() > 1e-9 * max(1, np.abs(A0).max()):
                    return {'what': f'merge(split(A, {distr}, tol=0)) != A', 'case': ('split', (A0, qd0, qd1, qD0, qD2, distr), None)}
                if not np.array_equal(A, A0):
                    return {'what': 'split_mps_tensor modified its input', 'case': ('split', (A0, qd0, qd1, qD0, qD2, distr), None)}
        else:
            m = rnd_like(rng, mpsgen.rand_mps(rng, L=int(rng.integers(1, 5))), cplx)
            if np.abs(m.as_vector() - dense_mps(m)).max() > tol * max(1, np.abs(dense_mps(m)).max()):
                return {'what': 'as_vector mismatch', 'case': ('as_vector', m, None)}
    except Exception as ex:
        return {'what': f'raises {type(ex).__name__}: {ex}', 'case': ('exception', k, None)}
    return None


def search(tier, seed, hints, budget_s):
    t0 = time.time()
    it = 0
    while time.time() - t0 < budget_s:
        rng = np.random.default_rng([seed, 303, it])
        r = oracle_case(rng)
        if r is not None:
            return {'key': f'c03:{r["case"][0]}:{seed}:{it}', 'what': r['what'],
                    'replay': {'call': 'harness.props.c03.oracle_case(np.random.default_rng([seed, 303, it]))', 'seed': seed, 'it': it, 'observed': r['what'],
                               'case_kind': r['case'][0]}}
        it += 1
    return None


def replay(rp):
    if rp.get('kind') != 'failing-input':
        print('replay: no failing input recorded; obligations that no longer check:', json.dumps(rp.get('no_longer_checks'))[:2000])
        return 1
    r = rp['replay']
    res = oracle_case(np.random.default_rng([r['seed'], 303, r['it']]))
    print('replay ->', res and res['what'])
    return 1 if res else 0
